import Varint.Model.Bytes
import Varint.Model.Tagged
import Varint.Model.External
import Varint.Model.Chained
import Varint.Model.Split
import Varint.Lemmas.Bytes
import Varint.Lemmas.Tagged
import Varint.Props.C01
