/- Parsing / formatting helpers of the line-protocol driver (core Lean only). -/
namespace Driver

def hexDigit (n : Nat) : Char :=
  if n < 10 then Char.ofNat (48 + n) else Char.ofNat (87 + n)

partial def hexAux (n : Nat) (acc : List Char) : List Char :=
  if n < 16 then hexDigit n :: acc else hexAux (n / 16) (hexDigit (n % 16) :: acc)

/-- lowercase hex without prefix, like C's %llx -/
def hex (n : Nat) : String := String.ofList (hexAux n [])

def hex2 (b : Nat) : String := String.ofList [hexDigit (b / 16 % 16), hexDigit (b % 16)]

/-- bytes as hex, "-" when empty (matches out_hex) -/
def hexBytes (bs : List Nat) : String :=
  if bs.isEmpty then "-" else String.join (bs.map hex2)

def hexVal (c : Char) : Nat :=
  if '0' ≤ c ∧ c ≤ '9' then c.toNat - 48
  else if 'a' ≤ c ∧ c ≤ 'f' then c.toNat - 87
  else if 'A' ≤ c ∧ c ≤ 'F' then c.toNat - 55
  else 0

def parseHex (s : String) : Nat := s.foldl (fun a c => a * 16 + hexVal c) 0

def parseBytes (s : String) : List Nat :=
  let s := if s.startsWith "hex:" then (s.drop 4).toString else s
  let rec go : List Char → List Nat
    | a :: b :: rest => (hexVal a * 16 + hexVal b) :: go rest
    | _ => []
  go s.toList

def parseInt (s : String) : Int :=
  if s.startsWith "-" then -((s.drop 1).toString.toNat!  : Int) else (s.toNat! : Int)

def argS (toks : Array String) (i : Nat) : String := toks.getD i ""
def argH (toks : Array String) (i : Nat) : Nat := parseHex (argS toks i)
def argI (toks : Array String) (i : Nat) : Int := parseInt (argS toks i)

/-- value of `key=` token -/
def kw (toks : Array String) (key : String) : Option String :=
  let pre := key ++ "="
  (toks.toList.drop 1).findSome? fun t => if t.startsWith pre then some (t.drop pre.length).toString else none

def u64s (key : String) (xs : List Nat) : String :=
  key ++ "=" ++ (if xs.isEmpty then "-" else ",".intercalate (xs.map hex))

/-- splitmix64 and digest step, identical to harness/vh.h -/
def M64 : Nat := 2 ^ 64
def sm64 (s : UInt64) : UInt64 × UInt64 :=
  let s := s + 0x9e3779b97f4a7c15
  let z := s
  let z := (z ^^^ (z >>> 30)) * 0xbf58476d1ce4e5b9
  let z := (z ^^^ (z >>> 27)) * 0x94d049bb133111eb
  (s, z ^^^ (z >>> 31))

def dg (h x : UInt64) : UInt64 :=
  let h := h ^^^ x
  let h := h * 0x100000001b3
  h ^^^ (h >>> 29)

end Driver
