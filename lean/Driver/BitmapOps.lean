import Varint.Model.Bitmap
import Driver.Util
/- bitmap.hist operation of the line protocol -/
namespace Driver
open Varint

def tyNum (t : Bitmap.Ty) : Nat := match t with | .array => 0 | .bitmap => 1 | .runs => 2

def bitmapHist (t : Array String) : String :=
  let step (st : Bitmap.St × Bitmap.St × List Char) (tok : String) : Bitmap.St × Bitmap.St × List Char :=
    let (a, b, rs) := st
    let onB := tok.startsWith "b."
    let op := if onB then (tok.drop 2).toString else tok
    let x := if onB then b else a
    let put (y : Bitmap.St) (rs : List Char) := if onB then (a, y, rs) else (y, b, rs)
    let f := op.splitOn ":"
    let a0 := parseHex (f.getD 1 "0")
    let a1 := parseHex (f.getD 2 "0")
    let name := f.getD 0 ""
    if name = "addr" then put (Bitmap.addRange x a0 a1) rs
    else if name = "addm" then put (Bitmap.addMany x (((f.getD 1 "").splitOn ",").map parseHex)) rs
    else if name = "add" then
      let (y, ch) := Bitmap.add x a0
      put y ((if ch then '1' else '0') :: rs)
    else if name = "remr" then put (Bitmap.removeRange x a0 a1) rs
    else if name = "rem" then
      let (y, ch) := Bitmap.remove x a0
      put y ((if ch then '1' else '0') :: rs)
    else if name = "druns" then
      let runs := ((f.getD 1 "").splitOn ",").map fun r =>
        let p := r.splitOn "-"
        (parseHex (p.getD 0 "0"), parseHex (p.getD 1 "0"))
      let bits := runs.foldl (fun b (st, ln) => b ||| ((2 ^ ln - 1) <<< st)) 0
      let card := (runs.map (·.2)).sum
      put ⟨.runs, card, bits⟩ rs
    else if name = "clear" then put (Bitmap.clear x) rs
    else if name = "clone" then st
    else if name = "enc" then st
    else if name = "swap" then (b, a, rs)
    else if name = "or" then (Bitmap.or a b, b, rs)
    else if name = "and" then (Bitmap.and a b, b, rs)
    else if name = "xor" then (Bitmap.xor a b, b, rs)
    else if name = "andnot" then (Bitmap.andNot a b, b, rs)
    else st
  let (a, b, rs) := (t.toList.drop 1).foldl step (Bitmap.init, Bitmap.init, [])
  let dgs (s : Bitmap.St) : String := hex ((Bitmap.members s).foldl (fun h v => dg h v.toUInt64) (0xcbf29ce484222325 : UInt64)).toNat
  let r := if rs.isEmpty then "-" else String.ofList rs.reverse
  s!"r={r} ca={a.card} cb={b.card} ta={tyNum a.ty} tb={tyNum b.ty} ha={dgs a} hb={dgs b}"

def bitmapOp (t : Array String) : Option String :=
  match argS t 0 with
  | "bitmap.hist" => some (bitmapHist t)
  | _ => none

end Driver
