import Driver.Scalar
import Driver.Arrays
import Driver.Bits
import Driver.Packed
import Driver.BitmapOps
import Driver.DimOps
import Driver.FloatOps
import Driver.AdaptiveOps
import Driver.BoundedOps
import Driver.OomOps
/- vdriver: reads one operation per line, prints the model's canonical result line. -/
open Driver

def runLine (line : String) : String :=
  let toks := (line.trimAscii.toString.splitOn " ").filter (· ≠ "") |>.toArray
  if toks.size = 0 then "#"
  else if (toks[0]!).startsWith "#" then "#"
  else if toks[0]! = "align" ∨ toks[0]! = "place" then "ok"
  else match scalarOp toks with
    | some r => r
    | none => match arrayOp toks with
      | some r => r
      | none => match bitsOp toks with
        | some r => r
        | none => match packedOp toks with
          | some r => r
          | none => match bitmapOp toks with
            | some r => r
            | none => match dimOp toks with
              | some r => r
              | none => match floatOp toks with
                | some r => r
                | none => match adaptiveOp toks with
                  | some r => r
                  | none => match boundedOp toks with
                    | some r => r
                    | none => match oomOp toks with
                      | some r => r
                      | none => "bad-op"

partial def loop (h : IO.FS.Stream) (out : IO.FS.Stream) : IO Unit := do
  let line ← h.getLine
  if line.isEmpty then return ()
  out.putStrLn (runLine line)
  loop h out

def main : IO Unit := do
  let stdin ← IO.getStdin
  let stdout ← IO.getStdout
  loop stdin stdout
