import Varint.Model.ChainedUnrolled
import Varint.Model.Tagged
import Varint.Model.External
import Varint.Model.Chained
import Varint.Model.Split
import Driver.Util
import Varint.Gen.Constants
/- Scalar-family operations of the line protocol: must print exactly what harness/vh_scalar.c prints. -/
namespace Driver
open Varint

private def optPair (k1 k2 : String) (r : Option (Nat × Nat)) : String :=
  match r with
  | some (v, l) => s!"{k1}={hex v} {k2}={l}"
  | none => s!"{k1}=fault {k2}=fault"

private def g32 (r : Option (Nat × Nat)) : String :=
  match r with
  | some (v, l) => s!"g32={hex v},{l}"
  | none => "g32=fault"

def taggedAll (v : Nat) : String :=
  let b := Tagged.enc v
  let n := b.length
  let (dv, dl) := match Tagged.get b with
    | .ok v l => (hex v, toString l)
    | .short => ("short", "0")
    | .fault => ("fault", "fault")
  let dq := match Tagged.getQuick b with | some v => hex v | none => "fault"
  let base := s!"n={n} b={hexBytes b} pl={Tagged.len v} plq={Tagged.lenQuick v} gl={Tagged.getLen (b.headD 0)} glq={Tagged.getLen (b.headD 0)} dv={dv} dl={dl} dq={dq} drv={dv}"
  if v < 2 ^ 32 then
    let r32 := match Tagged.get b with
      | .ok v l => s!"g32={hex (v % 2 ^ 32)},{l}"
      | _ => "g32=fault"
    s!"{base} p32={hexBytes b} {r32}"
  else base

def taggedFixed (v w : Nat) : String :=
  let b := Tagged.encFixed v w
  let n := b.length
  let head := s!"n={n} b={hexBytes b} qb={hexBytes b}"
  let legal := w = Tagged.len v ∨ (4 ≤ w ∧ w ≤ 9 ∧ Tagged.len v ≤ w)
  if n ≥ 1 ∧ legal then
    match Tagged.get b with
    | .ok dv dl => s!"{head} dv={hex dv} dl={dl}"
    | .short => s!"{head} dv=0 dl=0"
    | .fault => s!"{head} dv=fault dl=fault"
  else head

def taggedGetN (bs : List Nat) (n : Int) : String :=
  let hv : Nat := if n > 0 then min n.toNat bs.length else 0
  match Tagged.getN (bs.take hv) n with
  | .ok v l => s!"r={l} v={hex v}"
  | .short => "r=0 v=-"
  | .fault => "fault"

def taggedAdd (v : Nat) (amount : Int) (force : Bool) (slotw : Nat) : String :=
  let legal := slotw = Tagged.len v ∨ (4 ≤ slotw ∧ slotw ≤ 9 ∧ Tagged.len v ≤ slotw)
  let orig := if slotw ≠ 0 ∧ legal then Tagged.encFixed v slotw else Tagged.enc v
  let (r, wr) := Tagged.add v orig.length amount force
  -- memory after the call: written bytes overlay the old slot (guard bytes 0xC3 beyond)
  let mem0 := orig ++ List.replicate 16 0xC3
  let mem := match wr with
    | some nb => nb ++ mem0.drop nb.length
    | none => mem0
  let ch := if mem == mem0 then 0 else 1
  match Tagged.get mem with
  | .ok now nl => s!"r={r} now={hex now} nl={nl} ch={ch}"
  | _ => s!"r={r} now=fault nl=fault ch={ch}"

def taggedDec (bs : List Nat) : String :=
  let gl := Tagged.getLen (bs.headD 0)
  let dq := match Tagged.getQuick bs with | some v => hex v | none => "fault"
  match Tagged.get bs with
  | .ok v l => s!"dv={hex v} dl={l} gl={gl} dq={dq}"
  | .short => s!"dv=0 dl=0 gl={gl} dq={dq}"
  | .fault => "fault"

def ordInt (o : Ordering) : Int := match o with | .lt => -1 | .eq => 0 | .gt => 1

def taggedCmp (a b : Nat) : String :=
  s!"c={ordInt (lexCmp (Tagged.enc a) (Tagged.enc b))}"

def taggedCmpT (as bs : List Nat) : String :=
  s!"c={ordInt (lexCmp (as.flatMap Tagged.enc) (bs.flatMap Tagged.enc))}"

def extAll (be : Bool) (v : Nat) : String :=
  let b := if be then ExternalBE.enc v else External.enc v
  let n := b.length
  let dv := if be then ExternalBE.get b n else External.get b n
  let dvs := match dv with | some x => hex x | none => "fault"
  let base := s!"n={n} b={hexBytes b} pl={extLen v} dv={dvs}"
  if !be ∧ v < 2 ^ 63 then s!"{base} sl={extLen v}" else base

def extFixed (be : Bool) (v w : Nat) : String :=
  if w < 1 ∨ w > 8 then "bad-width" else
  let b := if be then ExternalBE.encFixed v w else External.encFixed v w
  let dv := if be then ExternalBE.get b w else External.get b w
  let dvs := match dv with | some x => hex x | none => "fault"
  if be then s!"b={hexBytes b} qb={hexBytes b} dv={dvs} qv={dvs}"
  else s!"b={hexBytes b} qb={hexBytes b} mb={hexBytes b} dv={dvs} qv={dvs} mv={dvs} mrv={dvs}"

def extAdd (v w : Nat) (amount : Int) (force : Bool) : String :=
  let slot := External.encFixed v w
  -- the C reads the stored w-byte field
  let stored := ofLe slot
  let (r, wr) := External.add stored w amount force
  let mem0 := slot ++ List.replicate 16 0xC3
  let mem := match wr with
    | some nb => nb ++ mem0.drop nb.length
    | none => mem0
  let ch := if mem == mem0 then 0 else 1
  let hi : Int := (List.range mem.length).foldl (fun (acc : Int) (i : Nat) => if mem.getD i 0 != mem0.getD i 0 then (i : Int) else acc) (-1)
  let now := if 1 ≤ r ∧ r ≤ 8 then (match External.get mem r with | some x => hex x | none => "fault") else "-"
  s!"r={r} now={now} ch={ch} hi={hi}"

def signedRt (w : Nat) (s : Int) : String :=
  if w = 3 ∨ w = 5 ∨ w = 6 ∨ w = 7 then
    let f := External.prepareSigned w s
    -- the field value as the C variable holds it (two's complement of the full-width variable
    -- when prepare left it non-negative this is just f)
    let stored := f % 256 ^ w
    let back := External.restoreSigned w stored
    s!"f={hex f} back={back}"
  else "bad-width"

def chainedAll (v : Nat) : String :=
  let b := Chained.enc v
  let n := b.length
  let base := s!"n={n} b={hexBytes b} pl={Chained.len v} {optPair "dv" "dl" (ChainedU.getVarint b)} {g32 (ChainedU.getVarint32 b)}"
  if v < 2 ^ 32 then s!"{base} p32={hexBytes b}" else base

def chainedDec (bs : List Nat) : String :=
  s!"{optPair "dv" "dl" (ChainedU.getVarint bs)} {g32 (ChainedU.getVarint32 bs)}"

def csimpleAll (v : Nat) : String :=
  let b := ChainedSimple.enc v
  let n := b.length
  let base := s!"n={n} b={hexBytes b} pl={ChainedSimple.len v} {optPair "dv" "dl" (ChainedSimple.dec b)}"
  if v < 2 ^ 32 then
    let b32 := ChainedSimple.enc32 v
    s!"{base} p32={hexBytes b32} {g32 (ChainedSimple.dec32 b32)}"
  else base

def csimpleDec (bs : List Nat) : String :=
  s!"{optPair "dv" "dl" (ChainedSimple.dec bs)} {g32 (ChainedSimple.dec32 bs)}"

structure SplitFam where
  enc : Nat → List Nat
  len : Nat → Nat
  getLen : Nat → Nat
  getLenQuick : Nat → Nat
  dec : List Nat → Option (Nat × Nat)
  encRev : Option (Nat → List Nat)
  decRev : List Nat → Option (Nat × Nat)

def famS : SplitFam := ⟨Split.S.enc, Split.S.len, Split.S.getLen, Split.S.getLenQuick, Split.S.dec, some Split.S.encRev, Split.S.decRev⟩
def famF : SplitFam := ⟨Split.F.enc, Split.F.len, Split.F.getLen, Split.F.getLenQuick, Split.F.dec, some Split.F.encRev, Split.F.decRev⟩
def famNZ : SplitFam := ⟨Split.NZ.enc, Split.NZ.len, Split.NZ.getLen, Split.NZ.getLenQuick, Split.NZ.dec, some Split.NZ.encRev, Split.NZ.decRev⟩
def famS16 : SplitFam := ⟨Split.S16.enc, Split.S16.len, Split.S16.getLen, Split.S16.getLenQuick, Split.S16.dec, none, fun _ => none⟩

def splitAll (f : SplitFam) (v : Nat) : String :=
  let b := f.enc v
  let n := b.length
  let b0 := b.headD 0
  let base := s!"n={n} b={hexBytes b} pl={f.len v} gl={f.getLen b0} glq={f.getLenQuick b0} {optPair "dv" "dl" (f.dec b)}"
  match f.encRev with
  | some er =>
    let rb := er v
    s!"{base} rn={rb.length} fn={rb.length} rb={hexBytes rb} fb={hexBytes rb} {optPair "rv" "rl" (f.decRev rb)}"
  | none => base

def splitDec (f : SplitFam) (bs : List Nat) : String :=
  let b0 := bs.headD 0
  s!"{optPair "dv" "dl" (f.dec bs)} gl={f.getLen b0} glq={f.getLenQuick b0}"

/-- value shaping shared with the harness: x >> (k & 63) -/
def shape (st : UInt64) : UInt64 × Nat :=
  let (st, x) := sm64 st
  let (st, k) := sm64 st
  (st, (x >>> (k &&& 63)).toNat)

def sweep (fam : String) (seed cnt : Nat) : String :=
  let encf : Option (Nat → List Nat) := match fam with
    | "tagged" => some Tagged.enc
    | "ext" => some External.enc
    | "extbe" => some ExternalBE.enc
    | "chained" => some Chained.enc
    | "csimple" => some ChainedSimple.enc
    | "split" => some Split.S.enc
    | "sfull" => some Split.F.enc
    | "snz" => some (fun v => Split.NZ.enc (if v = 0 then 1 else v))
    | "s16" => some Split.S16.enc
    | _ => none
  match encf with
  | none => "bad-family"
  | some e =>
    let rec go (i : Nat) (st : UInt64) (h : UInt64) : UInt64 :=
      match i with
      | 0 => h
      | i + 1 =>
        let (st, v) := shape st
        let b := e v
        let h := dg h b.length.toUInt64
        let h := b.foldl (fun h x => dg h x.toUInt64) h
        go i st h
    s!"digest={hex (go cnt seed.toUInt64 0xcbf29ce484222325).toNat}"

def famLen (fam : String) (v : Nat) : Nat :=
  match fam with
  | "tagged" => Tagged.len v
  | "ext" => extLen v
  | "chained" => Chained.len v
  | "split" => Split.S.len v
  | "sfull" => Split.F.len v
  | "snz" => Split.NZ.len v
  | "s16" => Split.S16.len v
  | _ => 0

def maxcell (fam : String) (m : Nat) : String :=
  s!"l={famLen fam m} l1={if m = 2 ^ 64 - 1 then 10 else famLen fam (m + 1)}"

def hdrmax (fam : String) (k : Nat) : String :=
  if k < 1 ∨ k > 9 ∨ (k = 3 ∧ fam ≠ "tagged") then "bad-k" else
  let tg := [0, Gen.TAGGED_MAX_1, Gen.TAGGED_MAX_2, Gen.TAGGED_MAX_3, Gen.TAGGED_MAX_4, Gen.TAGGED_MAX_5,
             Gen.TAGGED_MAX_6, Gen.TAGGED_MAX_7, Gen.TAGGED_MAX_8, Gen.TAGGED_MAX_9]
  let sf := [0, Gen.SPLIT_FULL_STORAGE_1, Gen.SPLIT_FULL_STORAGE_2, 0, Gen.SPLIT_FULL_STORAGE_4,
             Gen.SPLIT_FULL_STORAGE_5, Gen.SPLIT_FULL_STORAGE_6, Gen.SPLIT_FULL_STORAGE_7,
             Gen.SPLIT_FULL_STORAGE_8, Gen.SPLIT_FULL_STORAGE_9]
  let nz := [0, Gen.SPLIT_FULL_NO_ZERO_STORAGE_1, Gen.SPLIT_FULL_NO_ZERO_STORAGE_2, 0,
             Gen.SPLIT_FULL_NO_ZERO_STORAGE_4, Gen.SPLIT_FULL_NO_ZERO_STORAGE_5, Gen.SPLIT_FULL_NO_ZERO_STORAGE_6,
             Gen.SPLIT_FULL_NO_ZERO_STORAGE_7, Gen.SPLIT_FULL_NO_ZERO_STORAGE_8, Gen.SPLIT_FULL_NO_ZERO_STORAGE_9]
  let m := (if fam = "tagged" then tg else if fam = "sfull" then sf else nz).getD k 0
  s!"m={hex m} {maxcell fam m}"

def scalarOp (t : Array String) : Option String :=
  match argS t 0 with
  | "tagged.all" => some (taggedAll (argH t 1))
  | "tagged.fixed" => some (taggedFixed (argH t 1) (argH t 2))
  | "tagged.getn" => some (taggedGetN (parseBytes (argS t 1)) (argI t 2))
  | "tagged.add" => some (taggedAdd (argH t 1) (argI t 2) (argH t 3 != 0) (if t.size > 4 then argH t 4 else 0))
  | "tagged.dec" => some (taggedDec (parseBytes (argS t 1)))
  | "tagged.cmp" => some (taggedCmp (argH t 1) (argH t 2))
  | "tagged.cmpt" =>
    let k := argH t 1
    if k < 1 ∨ k > 16 then some "bad-arity" else
    let xs := (List.range (2 * k)).map fun i => argH t (2 + i)
    some (taggedCmpT (xs.take k) (xs.drop k))
  | "ext.all" => some (extAll false (argH t 1))
  | "extbe.all" => some (extAll true (argH t 1))
  | "ext.fixed" => some (extFixed false (argH t 1) (argH t 2))
  | "extbe.fixed" => some (extFixed true (argH t 1) (argH t 2))
  | "ext.add" => some (extAdd (argH t 1) (argH t 2) (argI t 3) (argH t 4 != 0))
  | "signed.rt" => some (signedRt (argH t 1) (argI t 2))
  | "chained.all" => some (chainedAll (argH t 1))
  | "chained.dec" => some (chainedDec (parseBytes (argS t 1)))
  | "csimple.all" => some (csimpleAll (argH t 1))
  | "csimple.dec" => some (csimpleDec (parseBytes (argS t 1)))
  | "split.all" => some (splitAll famS (argH t 1))
  | "sfull.all" => some (splitAll famF (argH t 1))
  | "snz.all" => some (splitAll famNZ (argH t 1))
  | "s16.all" => some (splitAll famS16 (argH t 1))
  | "split.dec" => some (splitDec famS (parseBytes (argS t 1)))
  | "sfull.dec" => some (splitDec famF (parseBytes (argS t 1)))
  | "snz.dec" => some (splitDec famNZ (parseBytes (argS t 1)))
  | "s16.dec" => some (splitDec famS16 (parseBytes (argS t 1)))
  | "maxcell" => some (maxcell (argS t 1) (argH t 3))
  | "hdrmax" => some (hdrmax (argS t 1) (argH t 2))
  | "sweep" => some (sweep (argS t 1) (argH t 2) (argH t 3))
  | _ => none

end Driver
