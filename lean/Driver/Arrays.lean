import Varint.Model.Delta
import Varint.Model.FOR
import Varint.Model.PFOR
import Varint.Model.Group
import Varint.Model.Dict
import Varint.Model.RLE
import Varint.Model.Elias
import Varint.Model.BP128
import Driver.Util
/- Array-codec operations of the line protocol (must print what harness/vh_arrays.c prints). -/
namespace Driver
open Varint

def M : Nat := 2 ^ 64

/-- array argument: explicit `n v1 … vn` or generated `@shape:seed:n:lo:range`; returns (values, next arg index) -/
def parseArray (t : Array String) (i : Nat) : List Nat × Nat :=
  let tok := argS t i
  if tok.startsWith "@" then
    let shape := tok.toList.getD 1 'r'
    let fs := ((tok.drop 2).toString.splitOn ":").filter (· ≠ "") |>.map parseHex
    let seed := fs.getD 0 0
    let cnt := fs.getD 1 0
    let lo := fs.getD 2 0
    let range := fs.getD 3 0
    let step := if cnt = 0 then 0 else range / cnt
    let rec go (k : Nat) (i : Nat) (st : UInt64) (prev : Nat) (acc : List Nat) : List Nat :=
      match k with
      | 0 => acc.reverse
      | k + 1 =>
        let (st, r64) := sm64 st
        let r := r64.toNat
        let base := if range = M - 1 then r else r % (range + 1)
        let x : Nat := match shape with
          | 'a' => lo + step * i + r % (step + 1)
          | 'd' => lo + step * (cnt - 1 - i) + r % (step + 1)
          | 'c' => lo
          | 'u' => if i = 0 ∨ r % 8 = 0 then lo + (if range = M - 1 then r / 8 else (r / 8) % (range + 1)) else prev
          | 'p' => lo + (i % 16) * (range / 16)
          | 'o' => if i = cnt / 2 then lo + range else lo + r % 16
          | _ => lo + base
        let x := x % M
        go k (i + 1) st x (x :: acc)
    (go cnt 0 seed.toUInt64 lo [], i + 1)
  else
    let n := parseHex tok
    ((List.range n).map fun k => argH t (i + 1 + k), i + 1 + n)

def digestBytes (bs : List Nat) : String :=
  "#" ++ hex (bs.foldl (fun h b => dg h b.toUInt64) (0xcbf29ce484222325 : UInt64)).toNat

def showBuf (key : String) (bs : List Nat) : String :=
  if bs.length ≤ 96 then s!"{key}={hexBytes bs}" else s!"{key}={digestBytes bs}"

def deltaRt (uns : Bool) (xs : List Nat) : String :=
  let b := if uns then Delta.encU xs else Delta.encS xs
  s!"len={b.length} {showBuf "b" b} adv={Delta.maxSize xs.length}"

def zigzagOp (s : Int) : String :=
  let x := toU64 s
  let z := Delta.zz x
  s!"z={hex z} back={toI64 (Delta.unzz z)}"

def forRt (xs : List Nat) : String :=
  if xs.isEmpty then "empty" else
  let m := FOR.analyze xs
  let b := FOR.enc xs
  s!"len={b.length} {showBuf "b" b} adv={m.encodedSize} m={hex m.minValue},{hex m.maxValue},{hex m.range},{m.count},{m.encodedSize},{m.offsetWidth} h={hex m.minValue},{m.count},{m.offsetWidth},{m.encodedSize}"

def pforRt (xs : List Nat) (t : Nat) : String :=
  if xs.isEmpty ∨ xs.length ≥ 2 ^ 32 then "empty" else
  let m := PFOR.compute xs t
  let b := PFOR.enc xs t
  let hl := Tagged.len m.min + 1 + Tagged.len m.count
  s!"len={b.length} {showBuf "b" b} adv={PFOR.size m} m={hex m.min},{hex m.marker},{hex m.thresholdValue},{m.width},{m.count},{m.exceptionCount} h={hex m.min},{m.width},{m.count},{m.exceptionCount},{hl}"

def groupRt (xs : List Nat) : String :=
  if xs.length > 255 then "too-many" else
  let b := Group.enc xs
  let base := s!"len={b.length} {showBuf "b" b} adv={Group.size xs}"
  if b.isEmpty then base else s!"{base} gs={(Group.getSize b).getD 0} fc={b.headD 0}"

def dictRt (xs : List Nat) : String :=
  let b := Dict.enc xs
  s!"len={b.length} {showBuf "b" b} adv={Dict.size xs}"

def rleRt (hdr : Bool) (xs : List Nat) : String :=
  let b := if hdr then RLE.encH xs else RLE.enc xs
  let runs := if xs.isEmpty then 0 else RLE.runCount xs
  let base := s!"len={b.length} {showBuf "b" b} adv={RLE.maxSize xs.length} sz={RLE.size xs} m={xs.length},{runs},{b.length}"
  if xs.isEmpty then base
  else if hdr then s!"{base} gc={xs.length}" else s!"{base} grc={runs}"

/-- `rle.cap`: a hostile run list (any lengths) + end marker, decoded with capacity `cap` -/
def rleCap (t : Array String) : String :=
  let cap := parseHex ((kw t "cap").getD "0")
  let hdr := (kw t "hdr").getD "0" ≠ "0"
  let total := parseHex ((kw t "total").getD "0")
  let toks := (t.toList.drop 1).filter fun s => !s.contains '='
  let rec pairs : List String → List (Nat × Nat)
    | a :: b :: r => (parseHex a, parseHex b) :: pairs r
    | _ => []
  let body := RLE.encRuns (pairs toks) ++ List.replicate 32 0
  let res : Option (List Nat) :=
    if hdr then (match RLE.decH (Tagged.enc total ++ body) cap with
      | some (some xs) => some xs
      | some none => some []
      | none => none)
    else RLE.dec body cap
  match res with
  | none => "n=fault"
  | some xs =>
    let shown := " ".intercalate ((xs.take 12).map hex)
    let base := if xs.isEmpty then "n=0 v=" else s!"n={xs.length} v= {shown} last={hex (xs.getLastD 0)}"
    base

def eliasRt (dl : Bool) (xs0 : List Nat) : String :=
  let xs := xs0.map fun x => if x = 0 then 1 else x
  let b := if dl then Elias.encDelta xs else Elias.encGamma xs
  let bits := (xs.map fun x => if dl then Elias.deltaBits x else Elias.gammaBits x).sum
  let adv := if dl then Elias.deltaMaxBytes xs.length else Elias.gammaMaxBytes xs.length
  s!"len={b.length} {showBuf "b" b} adv={adv} m={xs.length},{bits},{(bits + 7) / 8}"

/-- maximum per-block bit width of a value list split into 128-blocks -/
def blockMaxBw : Nat → List Nat → Nat
  | 0, _ => 0
  | fuel + 1, xs => if xs.isEmpty then 0 else max (BP128.bitWidth (xs.take 128)) (blockMaxBw fuel (xs.drop 128))

def bpRt (is64 isd : Bool) (xs0 : List Nat) : String :=
  let xs := if is64 then xs0 else xs0.map (· % 2 ^ 32)
  let n := xs.length
  let b := if isd then BP128.encD (if is64 then 64 else 32) xs else (if is64 then BP128.enc64 xs else BP128.enc32 xs)
  let packedVals := if isd then (match xs with | [] => [] | x :: r => BP128.deltasW (if is64 then 64 else 32) x r) else xs
  let packed := packedVals.length
  let m := if n = 0 then "0,0,0,0,0" else
    s!"{n},{(packed + 127) / 128},{b.length},{if packed % 128 = 0 then 128 else packed % 128},{blockMaxBw (packed + 1) packedVals}"
  let base := s!"len={b.length} {showBuf "b" b} adv={BP128.maxBytes n} m={m}"
  if n > 0 ∧ is64 ∧ !isd then s!"{base} gc={n}" else base

def arrayOp (t : Array String) : Option String :=
  let op := argS t 0
  let xs (_ : Unit) : List Nat := (parseArray t 1).1
  match op with
  | "delta.rt" => some (deltaRt false (xs ()))
  | "deltau.rt" => some (deltaRt true (xs ()))
  | "zigzag" => some (zigzagOp (argI t 1))
  | "for.rt" => some (forRt (xs ()))
  | "forb.rt" => some (forRt (xs ()))
  | "pfor.rt" => some (pforRt (xs ()) ((kw t "t").map parseHex |>.getD 95))
  | "group.rt" => some (groupRt (xs ()))
  | "dict.rt" => some (dictRt (xs ()))
  | "rle.rt" => some (rleRt false (xs ()))
  | "rleh.rt" => some (rleRt true (xs ()))
  | "rle.cap" => some (rleCap t)
  | "egamma.rt" => some (eliasRt false (xs ()))
  | "edelta.rt" => some (eliasRt true (xs ()))
  | "bp32.rt" => some (bpRt false false (xs ()))
  | "bp64.rt" => some (bpRt true false (xs ()))
  | "bpd32.rt" => some (bpRt false true (xs ()))
  | "bpd64.rt" => some (bpRt true true (xs ()))
  | _ => none

end Driver
