import Varint.Model.Bitstream
import Driver.Util
/- bitstream operations of the line protocol -/
namespace Driver
open Varint

def bitsSet (W : Nat) (t : Array String) : String :=
  let init := (kw t "init").getD "0"
  let off := argH t 2
  let n := argH t 3
  let v := argH t 4
  if n < 1 ∨ n > W then "bad-width" else
  let nw := (off + n - 1) / W + 1
  let rec gen (k : Nat) (st : UInt64) (acc : List Nat) : List Nat :=
    match k with
    | 0 => acc.reverse
    | k + 1 =>
      if init.startsWith "r" then
        let (st, x) := sm64 st
        gen k st ((x.toNat % 2 ^ W) :: acc)
      else gen k st ((if init.startsWith "f" then 2 ^ W - 1 else 0) :: acc)
  let ws := gen nw (parseHex (init.drop 1).toString).toUInt64 []
  let ws' := Bitstream.set W ws off n v
  let g := Bitstream.get W ws' off n
  s!"g={hex g} w= {" ".intercalate (ws'.map hex)}"

/-- `bits<W>.far`: the window of four words around a far offset; the model is invariant under shifting the
    stream by whole words, so it is run at the window-relative offset -/
def bitsFar (W : Nat) (t : Array String) : String :=
  let init := (kw t "init").getD "0"
  let off := argH t 2
  let n := argH t 3
  let v := argH t 4
  let iw := off / W
  if n < 1 ∨ n > W ∨ iw < 1 ∨ off > 2 ^ 36 then "bad-width" else
  let rec gen (k : Nat) (st : UInt64) (acc : List Nat) : List Nat :=
    match k with
    | 0 => acc.reverse
    | k + 1 =>
      if init.startsWith "r" then
        let (st, x) := sm64 st
        gen k st ((x.toNat % 2 ^ W) :: acc)
      else gen k st ((if init.startsWith "f" then 2 ^ W - 1 else 0) :: acc)
  let ws := gen 4 (parseHex (init.drop 1).toString).toUInt64 []
  let rel := off - (iw - 1) * W
  let ws' := Bitstream.set W ws rel n v
  let g := Bitstream.get W ws' rel n
  s!"g={hex g} w= {" ".intercalate (ws'.map hex)}"

def bitsSigned (n : Nat) (s : Int) : String :=
  if n < 2 ∨ n > 64 then "bad-width" else
  let f := Bitstream.prepareSigned n s
  s!"f={hex f} back={Bitstream.restoreSigned n (f % 2 ^ n)}"

def bitsOp (t : Array String) : Option String :=
  match argS t 0 with
  | "bits8.set" => some (bitsSet 8 t)
  | "bits16.set" => some (bitsSet 16 t)
  | "bits32.set" => some (bitsSet 32 t)
  | "bits64.set" => some (bitsSet 64 t)
  | "bits8.far" => some (bitsFar 8 t)
  | "bits16.far" => some (bitsFar 16 t)
  | "bits32.far" => some (bitsFar 32 t)
  | "bits64.far" => some (bitsFar 64 t)
  | "bits.signed" => some (bitsSigned (argH t 1) (argI t 2))
  | _ => none

end Driver
