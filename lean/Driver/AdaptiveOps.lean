import Varint.Model.Adaptive
import Varint.Model.AdaptiveDec
import Driver.Arrays
/- adaptive operations of the line protocol -/
namespace Driver
open Varint

def showDecoded (b : List Nat) (n : Nat) : String :=
  match Adaptive.decodeAll b n with
  | some vs => s!" r={vs.length} {showBuf "d" (vs.flatMap (leBytes 8))}"
  | none => " r=fault"

def adaptiveRt (t : Array String) : String :=
  let (xs, _) := parseArray t 1
  let sel := Adaptive.select xs
  let b := Adaptive.encodeWith sel xs
  let dec := if xs.length = 0 ∨ b.length = 0 then "" else showDecoded b xs.length
  s!"sel={sel} len={b.length} {showBuf "b" b} adv={Adaptive.maxSize xs.length} m={xs.length},{b.length}{dec}"

def adaptiveWith (t : Array String) : String :=
  let ty := parseHex ((kw t "t").getD "5")
  let start := if (t.getD 1 "").contains '=' then 2 else 1
  let (xs, _) := parseArray t start
  let b := Adaptive.encodeWith ty xs
  let dec := if xs.length = 0 ∨ b.length = 0 then "" else showDecoded b xs.length
  s!"len={b.length} {showBuf "b" b} m={ty},{xs.length},{b.length}{dec}"

def adaptiveOp (t : Array String) : Option String :=
  match argS t 0 with
  | "adaptive.rt" => some (adaptiveRt t)
  | "adaptive.with" => some (adaptiveWith t)
  | _ => none

end Driver
