import Varint.Model.Dimension
import Driver.Util
/- dimension operations of the line protocol -/
namespace Driver
open Varint

def dimPack (r c : Nat) : String :=
  match Dim.pack r c with
  | none => "fail"
  | some (p, d) => let (ur, uc) := Dim.unpack p d; s!"p={hex p} d={d} u={hex ur},{hex uc}"

def dimPair (rows cols : Nat) : String :=
  let (dim, hdr) := Dim.pairEncode rows cols
  let wr := Dim.rowWidthOf dim
  let wc := Dim.colWidthOf dim
  let (dr, dc) := (Dim.pairDecode hdr dim).getD (0, 0)
  s!"dim={dim} wr={wr} wc={wc} hl={wr + wc} h={hexBytes hdr} dr={hex dr} dc={hex dc}"

def dimCells (t : Array String) : String :=
  let rows := parseHex ((kw t "rows").getD "0")
  let cols := parseHex ((kw t "cols").getD "1")
  let ws := (kw t "w").getD "1"
  let init := (kw t "init").getD "0"
  let bits := ws = "0"
  let w := if bits then 0 else if ws = "f4" then 4 else if ws = "f8" then 8 else parseHex ws
  let (dim, hdr) := Dim.pairEncode rows cols
  let hl := Dim.hdrLen dim
  let nrows := if rows = 0 then 1 else rows
  let cells := nrows * cols
  let body := if bits then (cells + 7) / 8 else cells * w
  let total := hl + body
  let rec gen (k : Nat) (st : UInt64) (acc : List Nat) : List Nat :=
    match k with
    | 0 => acc.reverse
    | k + 1 =>
      if init.startsWith "r" then
        let (st, x) := sm64 st
        gen k st ((x.toNat % 256) :: acc)
      else gen k st ((if init.startsWith "f" then 255 else 0) :: acc)
  let raw := gen total (parseHex (init.drop 1).toString).toUInt64 []
  let buf0 := hdr ++ raw.drop hl
  let step (st : List Nat × List Char) (tok : String) : List Nat × List Char :=
    let (buf, rs) := st
    if tok.contains '=' then st else
    let f := tok.splitOn ":"
    let r := parseHex (f.getD 1 "0")
    let c := parseHex (f.getD 2 "0")
    let v := parseHex (f.getD 3 "0")
    match f.getD 0 "" with
    | "set" =>
      if bits then ((Dim.setBit buf dim r c (v != 0)).getD buf, rs)
      else ((Dim.setEntry buf dim r c v w).getD buf, rs)
    | "tog" =>
      if bits then
        match Dim.toggleBit buf dim r c with
        | some (b, old) => (b, (if old then '1' else '0') :: rs)
        | none => st
      else st
    | _ => st
  let (buf, rs) := (t.toList.drop 1).foldl step (buf0, [])
  let h := buf.foldl (fun h b => dg h b.toUInt64) (0xcbf29ce484222325 : UInt64)
  let ts := if rs.isEmpty then "-" else String.ofList rs.reverse
  s!"dim={dim} hl={hl} n={total} t={ts} h={hex h.toNat}"

def dimOp (t : Array String) : Option String :=
  match argS t 0 with
  | "dim.pack" => some (dimPack (argH t 1) (argH t 2))
  | "dim.pair" => some (dimPair (argH t 1) (argH t 2))
  | "dim.cells" => some (dimCells t)
  -- cells of a huge matrix on a sparse mapping: checked on the implementation against the cell's real position;
  -- the model's answer is the specification's (no finding)
  | "dim.far" =>
    let rows := parseHex ((kw t "rows").getD "0")
    let cols := parseHex ((kw t "cols").getD "0")
    let w := parseHex ((kw t "w").getD "0")
    let backed := if (kw t "tall").isSome ∧ (kw t "tall").getD "0" ≠ "0" then 4 else rows
    let need := if w = 0 then (backed * cols + 7) / 8 else backed * cols * w
    some (if rows < 2 ∨ cols < 2 ∨ need > 2 ^ 36 then "bad-dim" else "far=done")
  | _ => none

end Driver
