import Varint.Model.Float
import Varint.Model.FloatDec
import Driver.Arrays
/- float operations of the line protocol -/
namespace Driver
open Varint

private def firstArrayArg (t : Array String) : Nat :=
  let rec go (i : Nat) (fuel : Nat) : Nat :=
    match fuel with
    | 0 => i
    | f + 1 => if i < t.size ∧ (t[i]!).contains '=' then go (i + 1) f else i
  go 1 t.size

def floatRt (t : Array String) : String :=
  let p := parseHex ((kw t "p").getD "0")
  let m := parseHex ((kw t "m").getD "0")
  let (ds, _) := parseArray t (firstArrayArg t)
  let b := Float.enc p m ds
  let decoded :=
    if ds.length = 0 ∨ b.length = 0 then ""
    else match Float.decFull b ds.length with
      | some (vs, rest) => s!" used={b.length - rest.length} {showBuf "d" (vs.flatMap (leBytes 8))}"
      | none => " used=0 d=fail"
  s!"len={b.length} {showBuf "b" b} adv={Float.maxSize ds.length p}{decoded}"

def floatAuto (t : Array String) : String :=
  let e := parseHex ((kw t "e").getD "0")
  let m := parseHex ((kw t "m").getD "0")
  let (ds, _) := parseArray t (firstArrayArg t)
  let sel := Float.selectPrecision e
  let b := Float.enc sel m ds
  s!"sel={sel} len={b.length} {showBuf "b" b}"

def floatOp (t : Array String) : Option String :=
  match argS t 0 with
  | "float.rt" => some (floatRt t)
  | "float.auto" => some (floatAuto t)
  | _ => none

end Driver
