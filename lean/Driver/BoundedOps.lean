import Varint.Model.Bounded
import Driver.Util
/- b.* operations (C14): length-taking decoders on arbitrary bytes -/
namespace Driver
open Varint Varint.Bounded

def digestVals (vs : List Nat) : String :=
  "#" ++ hex (vs.foldl (fun h v => dg h v.toUInt64) (0xcbf29ce484222325 : UInt64)).toNat

def maxOf (xs : List Nat) : Nat := xs.foldl max 0

/-- little-endian 16-bit fields of a payload -/
def u16s : List Nat → List Nat
  | a :: b :: rest => (a + 256 * b) :: u16s rest
  | _ => []

def bDict (bs : List Nat) (cap : Option Nat) : String :=
  let (r, al) := dictDec bs cap
  match cap, r with
  | _, .fault => "FAULT"
  | none, .err => s!"r=null alloc={hex (maxOf al)}"
  | none, .ok vs => s!"r=ok cnt={hex vs.length} v={digestVals vs} alloc={hex (maxOf al)}"
  | some _, .err => s!"r=0 v={digestVals []} alloc={hex (maxOf al)}"
  | some _, .ok vs => s!"r={hex vs.length} v={digestVals vs} alloc={hex (maxOf al)}"

def bElias (delta : Bool) (bytes : List Nat) (bits cap : Nat) : String :=
  if (bits + 7) / 8 > bytes.length then "bad-op" else
  match (if delta then Elias.decDelta bytes bits cap else Elias.decGamma bytes bits cap) with
  | none => "FAULT"
  | some vs => if vs.length ≤ 24 then s!"r={hex vs.length} {u64s "v" vs}" else s!"r={hex vs.length} v={digestVals vs}"

def bBitmap (bs : List Nat) : String :=
  let (r, al) := bitmapDec bs
  match r with
  | .fault => "FAULT"
  | .err => s!"r=null alloc={hex (maxOf al)}"
  | .ok m =>
    if m.ty = 0 then s!"ty=0 card={hex m.card} p={digestVals (u16s m.payload)} alloc={hex (maxOf al)}"
    else if m.ty = 1 then s!"ty=1 card={hex m.card} p={digestVals m.payload} alloc={hex (maxOf al)}"
    else s!"ty=2 card={hex m.card} runs={hex m.runs} p={digestVals (u16s m.payload)} alloc={hex (maxOf al)}"

def bRle (bs : List Nat) : String :=
  match runCount bs with
  | .ok r => s!"r={hex r}"
  | _ => "FAULT"

def boundedOp (t : Array String) : Option String :=
  let op := argS t 0
  if op = "b.dict" then some (bDict (parseBytes (argS t 1)) none)
  else if op = "b.dictinto" then some (bDict (parseBytes (argS t 2)) (some (parseHex ((kw t "cap").getD "0"))))
  else if op = "b.gamma" ∨ op = "b.delta" then
    some (bElias (op = "b.delta") (parseBytes (argS t 3)) (parseHex ((kw t "bits").getD "0")) (parseHex ((kw t "cap").getD "0")))
  else if op = "b.bitmap" then some (bBitmap (parseBytes (argS t 1)))
  else if op = "b.rle" then some (bRle (parseBytes (argS t 1)))
  else none

end Driver
