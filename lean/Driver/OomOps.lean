import Varint.Model.Alloc
import Driver.Arrays
/- oom.* operations (C18): predicted number of allocation requests and the outcome of refusing each one -/
namespace Driver
open Varint Varint.Alloc Varint.Bitmap

def rep (c : Char) (n : Nat) : String := String.ofList (List.replicate n c)
def line (n : Nat) (o : String) : String := s!"n={hex n} o={if o.isEmpty then "-" else o}"

def oomDict (t : Array String) : String :=
  let (xs, _) := parseArray t 2
  if xs.isEmpty then "empty" else
  match (kw t "op").getD "enc" with
  | "enc" => line (dictEncReqs xs) (rep 'F' (dictEncReqs xs))
  | "size" => line (dictEncReqs xs) (rep 'F' (dictEncReqs xs))
  | "dec" => line 2 "FF"
  | _ => line 1 "F"

def oomDictBuild (t : Array String) : String :=
  let (a, i) := parseArray t 1
  let (b, _) := parseArray t i
  if a.isEmpty ∨ b.isEmpty then "empty" else
  let n := dictBuildReqs (dictCapAfter a) b
  line n (rep 'F' n)

def oomPfor (t : Array String) : String :=
  let (xs, _) := parseArray t 3
  if xs.isEmpty then "empty" else
  let th := parseHex ((kw t "t").getD "5f")
  if (kw t "op").getD "enc" = "enc" then line (pforEncReqs xs th) (rep 'F' (pforEncReqs xs th)) else line 1 "F"

def oomFloat (t : Array String) : String :=
  let (xs, _) := parseArray t 4
  if xs.isEmpty then "empty" else
  if (kw t "op").getD "enc" = "enc" then line 4 "FFFF" else line (floatDecReqs xs) (rep 'F' (floatDecReqs xs))

def oomAdaptive (t : Array String) : String :=
  let (xs, _) := parseArray t 3
  if xs.isEmpty then "empty" else
  let forced := match kw t "t" with | some "auto" => none | some s => some (parseHex s) | none => none
  let enc := (kw t "op").getD "enc" = "enc"
  match forced with
  | some ty =>
    if enc then line (adaptiveArmReqs ty xs) (rep 'F' (adaptiveArmReqs ty xs))
    else line (adaptiveDecReqs ty) (rep 'F' (adaptiveDecReqs ty))
  | none =>
    let sel := Adaptive.select xs
    if !enc then line (adaptiveDecReqs sel) (rep 'F' (adaptiveDecReqs sel)) else
    let a := analysisReqs xs
    let arm := adaptiveArmReqs sel xs
    -- refusing the analysis request degrades the unique count; the call goes on with whatever is selected then
    let first := if a = 0 then "" else (if selectDegraded xs = sel then "S" else "C")
    line (a + arm) (first ++ rep 'F' arm)

/-- history tokens on the two operands, no refusals -/
def bmApply (b : BO) (op : String) : BO :=
  let f := op.splitOn ":"
  let name := f.getD 0 ""
  let a0 := parseHex (f.getD 1 "0")
  let a1 := parseHex (f.getD 2 "0")
  if name = "addr" then (addRangeO noneFail 0 b a0 a1).1
  else if name = "addm" then (addManyO noneFail 0 b (((f.getD 1 "").splitOn ",").map parseHex)).1
  else if name = "add" then (addO noneFail 0 b a0).1
  else if name = "remr" then (removeRangeO noneFail 0 b a0 a1).1
  else if name = "rem" then (removeO noneFail 0 b a0).1
  else if name = "clear" then ⟨Bitmap.clear b.st, b.cap⟩
  else b

/-- run the final op under an oracle: (success?, resulting member bits, requests made) -/
def bmFinal (f : Oracle) (a b : BO) (op : String) : Bool × Nat × Nat :=
  let fs := op.splitOn ":"
  let name := fs.getD 0 ""
  let a0 := parseHex (fs.getD 1 "0")
  let a1 := parseHex (fs.getD 2 "0")
  let ptr (r : Option BO × Nat) : Bool × Nat × Nat := match r with
    | (some x, j) => (true, x.st.bits, j)
    | (none, j) => (false, 0, j)
  if name = "addr" then let r := addRangeO f 0 a a0 a1; (true, r.1.st.bits, r.2)
  else if name = "addm" then let r := addManyO f 0 a (((fs.getD 1 "").splitOn ",").map parseHex); (true, r.1.st.bits, r.2)
  else if name = "add" then let r := addO f 0 a a0; (r.2.1 || a.st.bits.testBit a0, r.1.st.bits, r.2.2)
  else if name = "remr" then let r := removeRangeO f 0 a a0 a1; (true, r.1.st.bits, r.2)
  else if name = "rem" then let r := removeO f 0 a a0; (r.2.1 || !a.st.bits.testBit a0, r.1.st.bits, r.2.2)
  else if name = "create" then ptr (createO f 0)
  else if name = "clone" then ptr (cloneO f 0 a)
  else if name = "or" then ptr (orO f 0 a b)
  else if name = "and" then ptr (andO f 0 a b)
  else if name = "xor" then ptr (xorO f 0 a b)
  else if name = "andnot" then ptr (andNotO f 0 a b)
  else if name = "dec" then ptr (decodeO f 0 a)
  else (false, 0, 0)

def oomBitmap (t : Array String) : String :=
  let op := (kw t "op").getD "create"
  let toks := (t.toList.drop 1).filter fun s => !(s.startsWith "op=") && !(s.startsWith "k=")
  let (a, b) := toks.foldl (fun (ab : BO × BO) tok =>
      if tok.startsWith "b." then (ab.1, bmApply ab.2 (tok.drop 2).toString) else (bmApply ab.1 tok, ab.2)) (initBO, initBO)
  let (ok0, bits0, n) := bmFinal noneFail a b op
  if !ok0 then s!"n={hex n} o=- base=fail" else
  let voidApi := op.startsWith "addr" || op.startsWith "addm" || op.startsWith "remr"
  let letters := (List.range n).map fun k =>
    let (ok, bits, _) := bmFinal (failAt k) a b op
    if ok then (if bits = bits0 then 'S' else if voidApi then 'V' else 'X') else 'F'
  line n (String.ofList letters)

/-- `mt threads= iters= seed= n=`: T·I calls, none of which may differ from the same call made alone -/
def mtOp (t : Array String) : String :=
  let T := parseHex ((kw t "threads").getD "0")
  let I := parseHex ((kw t "iters").getD "0")
  let n := parseHex ((kw t "n").getD "0")
  if T < 1 ∨ T > 64 ∨ n < 1 ∨ n > 400000 then "bad-op" else s!"calls={hex (T * I)} bad=0"

def oomOp (t : Array String) : Option String :=
  match argS t 0 with
  | "mt" => some (mtOp t)
  | "oom.dict" => some (oomDict t)
  | "oom.dictbuild" => some (oomDictBuild t)
  | "oom.pfor" => some (oomPfor t)
  | "oom.float" => some (oomFloat t)
  | "oom.adaptive" => some (oomAdaptive t)
  | "oom.bitmap" => some (oomBitmap t)
  | _ => none

end Driver
