import Varint.Model.Packed
import Driver.Util
/- packed.hist operation of the line protocol -/
namespace Driver
open Varint

def packedHist (t : Array String) : String :=
  let b := parseHex ((kw t "b").getD "0")
  let S := parseHex ((kw t "s").getD "0")
  let n := parseHex ((kw t "n").getD "0")
  let init := (kw t "init").getD "0"
  if n = 0 ∨ b = 0 ∨ S = 0 then "bad-inst" else
  let rec gen (k : Nat) (st : UInt64) (acc : List Nat) : List Nat :=
    match k with
    | 0 => acc.reverse
    | k + 1 =>
      if init.startsWith "r" then
        let (st, x) := sm64 st
        gen k st ((x.toNat % 2 ^ S) :: acc)
      else gen k st ((if init.startsWith "f" then 2 ^ S - 1 else 0) :: acc)
  let ws00 := gen n (parseHex (init.drop 1).toString).toUInt64 []
  -- init=s<k>: a long sorted array with runs of k equal elements (element i = i / k), storage zeroed first
  let ws0 :=
    if init.startsWith "s" then
      let k := max 1 (parseHex (init.drop 1).toString)
      let cap := (n * S) / b
      let vals := (List.range cap).map fun i => (i / k) % 2 ^ b
      -- the little-endian bit string of all elements, cut into S-bit slots
      let big := vals.foldr (fun v acc => (acc <<< b) ||| v) 0
      (List.range n).map fun j => (big >>> (j * S)) % 2 ^ S
    else ws00
  let step (st : List Nat × List String) (tok : String) : List Nat × List String :=
    let (ws, rs) := st
    if tok.contains '=' then st else
    let f := tok.splitOn ":"
    let a (k : Nat) : Nat := parseHex (f.getD k "0")
    match f.getD 0 "" with
    | "set" => (Packed.set S b ws (a 1) (a 2), rs)
    | "incr" => (Packed.setIncr S b ws (a 1) (parseInt (f.getD 2 "0")).toNat, rs)
    | "half" => (Packed.setHalf S b ws (a 1), rs)
    | "ins" => (Packed.insertAt S b ws (a 1) (a 2) (a 3), rs)
    | "inss" => (Packed.insertSorted S b ws (a 1) (a 2), rs)
    | "del" => (Packed.deleteAt S b ws (a 1) (a 2), rs)
    | "delm" =>
      let (ws', r) := Packed.deleteMember S b ws (a 1) (a 2)
      (ws', (if r then "1" else "0") :: rs)
    | "mem" => (ws, toString (Packed.member S b ws (a 1) (a 2)) :: rs)
    | "bs" => (ws, toString (Packed.bsearch S b ws (a 1) (a 2)) :: rs)
    | _ => st
  let (ws, rs) := (t.toList.drop 1).foldl step (ws0, [])
  let r := if rs.isEmpty then "-" else ",".intercalate rs.reverse
  s!"r={r} w= {" ".intercalate (ws.map hex)}"

def packedOp (t : Array String) : Option String :=
  match argS t 0 with
  | "packed.hist" => some (packedHist t)
  -- far elements on a sparse mapping: checked on the implementation against an independent reference reader;
  -- the model's answer is the specification's ("every write lands on its own bits"), i.e. no finding
  | "packed.far" => some (if (kw t "v").getD "d" == "p" then "bad-inst" else "far=done")
  | _ => none

end Driver
