import Varint.Model.Bytes
/-
  Model of src/varintTagged.c / varintTagged.h  (the sqlite4 varint).
  Written to mirror the C: same thresholds, same 32-bit temporaries with their wrap.
-/
namespace Varint.Tagged

/-- `varintTaggedPut64` : the bytes written (return value = their number). -/
def enc (x : Nat) : List Nat :=
  if x ≤ 240 then [x]
  else if x ≤ 2287 then [(x - 240) / 256 + 241, (x - 240) % 256]
  else if x ≤ 67823 then [249, (x - 2288) / 256, (x - 2288) % 256]
  -- y := (uint32_t)x = x % 2^32 ;  w := (uint32_t)(x >> 32) = x / 2^32
  else if x / 2 ^ 32 = 0 then
    (if x % 2 ^ 32 ≤ 16777215 then 250 :: beBytes 3 (x % 2 ^ 32) else 251 :: beBytes 4 (x % 2 ^ 32))
  else if x / 2 ^ 32 ≤ 255 then 252 :: (x / 2 ^ 32) :: beBytes 4 (x % 2 ^ 32)
  else if x / 2 ^ 32 ≤ 65535 then 253 :: (beBytes 2 (x / 2 ^ 32) ++ beBytes 4 (x % 2 ^ 32))
  else if x / 2 ^ 32 ≤ 16777215 then 254 :: (beBytes 3 (x / 2 ^ 32) ++ beBytes 4 (x % 2 ^ 32))
  else 255 :: (beBytes 4 (x / 2 ^ 32) ++ beBytes 4 (x % 2 ^ 32))

/-- `varintTaggedLen` -/
def len (x : Nat) : Nat :=
  if x ≤ 240 then 1
  else if x ≤ 2287 then 2
  else if x ≤ 67823 then 3
  else if x / 2 ^ 32 = 0 then (if x % 2 ^ 32 ≤ 16777215 then 4 else 5)
  else if x / 2 ^ 32 ≤ 255 then 6
  else if x / 2 ^ 32 ≤ 65535 then 7
  else if x / 2 ^ 32 ≤ 16777215 then 8
  else 9

/-- `varintTaggedLenQuick` macro -/
def lenQuick (x : Nat) : Nat :=
  if x ≤ 240 then 1 else if x ≤ 2287 then 2 else if x ≤ 67823 then 3
  else if x ≤ 16777215 then 4 else len x

/-- `varintTaggedGetLen` / `varintTaggedGetLenQuick_` on the first byte -/
def getLen (b0 : Nat) : Nat :=
  if b0 ≤ 240 then 1 else if b0 ≤ 248 then 2 else b0 - 246

/-- `varintTaggedPut64FixedWidth`: bytes written for a requested width; `[]` for width 0 / >9
    (the C returns 0 and writes nothing). 32-bit temporaries wrap as in C. -/
def encFixed (x : Nat) (width : Nat) : List Nat :=
  let y := x % 2 ^ 32
  let w := x / 2 ^ 32 % 2 ^ 32
  match width with
  | 1 => [x % 256]
  | 2 => let y2 := (x + 2 ^ 64 - 240) % 2 ^ 32
         [(y2 / 256 + 241) % 256, y2 % 256]
  | 3 => let y3 := (x + 2 ^ 64 - 2288) % 2 ^ 32
         [249, y3 / 256 % 256, y3 % 256]
  | 4 => 250 :: beBytes 3 y
  | 5 => 251 :: beBytes 4 y
  | 6 => 252 :: (w % 256) :: beBytes 4 y
  | 7 => 253 :: (beBytes 2 w ++ beBytes 4 y)
  | 8 => 254 :: (beBytes 3 w ++ beBytes 4 y)
  | 9 => 255 :: (beBytes 4 w ++ beBytes 4 y)
  | _ => []

/-- Result of the bounded reader `varintTaggedGet(z, n, &result)`.
    `fault` = the C would load a byte at an index that is not inside the buffer `bs`. -/
inductive GetR where
  | fault
  | short                         -- returns 0, *pResult untouched
  | ok (value : Nat) (len : Nat)
  deriving Repr, DecidableEq

/-- `varintTaggedGet`: `bs` is the memory really present, `n` the declared size (int32). -/
def getN (bs : List Nat) (n : Int) : GetR :=
  if n < 1 then .short else
  match bs with
  | [] => .fault
  | b0 :: rest =>
    if b0 ≤ 240 then .ok b0 1
    else if b0 ≤ 248 then
      if n < 2 then .short else
      match rest with
      | [] => .fault
      | b1 :: _ => .ok ((b0 - 241) * 256 + b1 + 240) 2
    else if n < (b0 : Int) - 246 then .short
    else
      let k := b0 - 247       -- payload bytes: 2 for 249, 3 for 250, …, 8 for 255
      match takeExact k rest with
      | none => .fault
      | some p =>
        if b0 = 249 then .ok (2288 + ofBe p) 3
        else if b0 ≤ 255 then .ok (ofBe p) (b0 - 246)
        else .short

/-- `varintTaggedGet64` = `varintTaggedGet(z, 9, …)` -/
def get (bs : List Nat) : GetR := getN bs 9

/-- `varintTaggedGet64Quick_` macro (value only) -/
def getQuick (bs : List Nat) : Option Nat :=
  match bs with
  | [] => none
  | b0 :: rest =>
    if b0 ≤ 240 then some b0
    else if b0 ≤ 248 then
      match rest with
      | b1 :: _ => some ((b0 - 241) * 256 + b1 + 240)
      | _ => none
    else if b0 = 249 then
      match rest with
      | b1 :: b2 :: _ => some (2288 + 256 * b1 + b2)
      | _ => none
    else match get bs with
      | .ok v _ => some v
      | _ => none

/-- `varintTaggedAdd(p, add, force)`: returns (returned width, bytes now stored at p
    as far as this call wrote them: `none` = buffer untouched). `stored` is the decoded
    old value, `origLen` its encoded length. -/
def add (stored : Nat) (origLen : Nat) (amount : Int) (force : Bool) : Nat × Option (List Nat) :=
  let old : Int := toI64 stored
  let sum : Int := old + amount
  if sum < -(2 ^ 63 : Int) ∨ sum > (2 ^ 63 : Int) - 1 then (0, none)
  else
    let nv := toU64 sum
    let newLen := len nv
    if newLen > origLen ∧ !force then (newLen, none)
    else (newLen, some (enc nv))

end Varint.Tagged
