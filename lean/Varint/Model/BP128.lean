import Varint.Model.Bits
import Varint.Model.Tagged
/- Model of src/varintBP128.c (scalar paths): blocks of 128 values bit-packed LSB-first. -/
namespace Varint.BP128
open Varint.Bits

def maxL (xs : List Nat) : Nat := xs.foldl max 0
def bitWidth (xs : List Nat) : Nat := bitsNeeded (maxL xs)

def packBlock (bw : Nat) (xs : List Nat) : List Nat := packLsb (xs.flatMap (lsb bw))

/-- a full block: [bw] ++ packed (just [0] when all zero) -/
def fullBlock (xs : List Nat) : List Nat := bitWidth xs :: (if bitWidth xs = 0 then [] else packBlock (bitWidth xs) xs)
/-- a partial block: [0x80|bw][n] ++ packed -/
def partBlock (xs : List Nat) : List Nat :=
  (128 + bitWidth xs) :: xs.length :: (if bitWidth xs = 0 then [] else packBlock (bitWidth xs) xs)

/-- blocks of a value list: full 128-blocks then (if any) a partial block -/
def blocks : Nat → List Nat → List Nat
  | 0, _ => []
  | fuel + 1, xs =>
    if xs.length = 0 then []
    else if xs.length ≥ 128 then fullBlock (xs.take 128) ++ blocks fuel (xs.drop 128)
    else partBlock xs

/-- `varintBP128Encode32` (values < 2^32) -/
def enc32 (xs : List Nat) : List Nat := blocks (xs.length + 1) xs

/-- `varintBP128Encode64` -/
def enc64 (xs : List Nat) : List Nat :=
  if xs.length = 0 then [] else Tagged.enc xs.length ++ blocks (xs.length + 1) xs

/-- wrapping deltas modulo 2^w -/
def deltasW (w : Nat) (prev : Nat) : List Nat → List Nat
  | [] => []
  | x :: xs => ((x + 2 ^ w - prev) % 2 ^ w) :: deltasW w x xs

/-- `varintBP128DeltaEncode32/64` -/
def encD (w : Nat) : List Nat → List Nat
  | [] => []
  | x :: xs => Tagged.enc x ++ blocks (xs.length + 1) (deltasW w x xs)

/-- `varintBP128MaxBytes` (after the repair: + 9 for the tagged count / first value) -/
def maxBytes (count : Nat) : Nat :=
  (count / 128) * (1 + 128 * 8) + (if count % 128 > 0 then 2 + (count % 128) * 8 else 0) + 9

/-- unpack `n` values of `bw` bits from LSB-first packed bytes -/
def unpack (bytes : List Nat) (bw : Nat) : Nat → Nat → Option (List Nat)
  | 0, _ => some []
  | n + 1, pos =>
    match (List.range bw).mapM (fun b => bitLsb bytes (pos + b)) with
    | none => none
    | some bits => (unpack bytes bw n (pos + bw)).map (ofLsb bits :: ·)

/-- `varintBP128Decode32(src, values, maxCount)`: no count header, partial block ends the stream,
    a full block that does not fit ends decoding -/
def dec32Aux : Nat → Nat → List Nat → Option (List Nat)
  | 0, _, _ => some []
  | fuel + 1, room, bs =>
    if room = 0 then some [] else
    match bs with
    | [] => none
    | h :: rest =>
      if h ≥ 128 then
        match rest with
        | [] => none
        | cnt :: data =>
          let n := if cnt > room then room % 256 else cnt
          if h % 128 = 0 then some (List.replicate n 0) else unpack data (h % 128) n 0
      else if room < 128 then some []
      else if h = 0 then (dec32Aux fuel (room - 128) rest).map (List.replicate 128 0 ++ ·)
      else
        match unpack rest h 128 0 with
        | none => none
        | some vs => (dec32Aux fuel (room - 128) (rest.drop ((128 * h + 7) / 8))).map (vs ++ ·)

def dec32 (bs : List Nat) (cap : Nat) : Option (List Nat) := dec32Aux (cap / 128 + 2) cap bs

/-- `varintBP128Decode64`: count header, clipped to maxCount -/
def dec64Aux : Nat → Nat → List Nat → Option (List Nat)
  | 0, _, _ => some []
  | fuel + 1, room, bs =>
    if room = 0 then some [] else
    match bs with
    | [] => none
    | h :: rest =>
      let (bw, blk, data) := if h ≥ 128 then (h % 128, rest.headD 0, rest.drop 1) else (h, 128, rest)
      if h ≥ 128 ∧ rest = [] then none else
      let n := if blk > room then room else blk
      if bw = 0 then (dec64Aux fuel (room - n) data).map (List.replicate n 0 ++ ·)
      else
        match unpack data bw n 0 with
        | none => none
        | some vs => (dec64Aux fuel (room - n) (data.drop ((n * bw + 7) / 8))).map (vs ++ ·)

def dec64 (bs : List Nat) (cap : Nat) : Option (List Nat) :=
  match Tagged.get bs with
  -- fuel: a block that yields values lowers `room`; a partial block announcing 0 values only consumes
  -- input (≥ 2 bytes), so `room + bytes` bounds the number of passes
  | .ok cnt n1 => dec64Aux (min cnt cap + bs.length + 2) (min cnt cap) (bs.drop n1)
  | _ => none

/-- prefix sums modulo 2^w -/
def sumsW (w : Nat) (prev : Nat) : List Nat → List Nat
  | [] => []
  | d :: ds => ((prev + d) % 2 ^ w) :: sumsW w ((prev + d) % 2 ^ w) ds

/-- delta decoders: first value tagged, then delta blocks; the 32-bit form stops at a full block
    that does not fit, the 64-bit form clips it -/
def decD32Aux : Nat → Nat → Nat → List Nat → Option (List Nat)
  | 0, _, _, _ => some []
  | fuel + 1, room, prev, bs =>
    if room = 0 then some [] else
    match bs with
    | [] => none
    | h :: rest =>
      if h ≥ 128 then
        match rest with
        | [] => none
        | cnt :: data =>
          let n := if cnt > room then room % 256 else cnt
          (if h % 128 = 0 then some (List.replicate n 0) else unpack data (h % 128) n 0).map (sumsW 32 prev)
      else if room < 128 then some []
      else
        match (if h = 0 then some (List.replicate 128 0) else unpack rest h 128 0) with
        | none => none
        | some ds =>
          let vs := sumsW 32 prev ds
          (decD32Aux fuel (room - 128) (vs.getLastD prev) (rest.drop (if h = 0 then 0 else (128 * h + 7) / 8))).map (vs ++ ·)

def decD32 (bs : List Nat) (cap : Nat) : Option (List Nat) :=
  if cap = 0 then some [] else
  match Tagged.get bs with
  | .ok first n1 =>
    let f := first % 2 ^ 32
    (decD32Aux (cap / 128 + 2) (cap - 1) f (bs.drop n1)).map (f :: ·)
  | _ => none

def decD64Aux : Nat → Nat → Nat → List Nat → Option (List Nat)
  | 0, _, _, _ => some []
  | fuel + 1, room, prev, bs =>
    if room = 0 then some [] else
    match bs with
    | [] => none
    | h :: rest =>
      let (bw, blk, data) := if h ≥ 128 then (h % 128, rest.headD 0, rest.drop 1) else (h, 128, rest)
      if h ≥ 128 ∧ rest = [] then none else
      let n := if blk > room then room else blk
      match (if bw = 0 then some (List.replicate n 0) else unpack data bw n 0) with
      | none => none
      | some ds =>
        let vs := sumsW 64 prev ds
        if h ≥ 128 then some vs
        else (decD64Aux fuel (room - n) (vs.getLastD prev) (data.drop (if bw = 0 then 0 else (n * bw + 7) / 8))).map (vs ++ ·)

def decD64 (bs : List Nat) (cap : Nat) : Option (List Nat) :=
  if cap = 0 then some [] else
  match Tagged.get bs with
  | .ok first n1 => (decD64Aux (cap / 128 + 2) (cap - 1) first (bs.drop n1)).map (first :: ·)
  | _ => none

end Varint.BP128
