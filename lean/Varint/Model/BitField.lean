/-
  Bit-field primitives on machine words modelled as `Nat`, written with the same and/or/shift
  operations the C uses (core Lean only).
-/
namespace Varint.BF

def mask (n : Nat) : Nat := 2 ^ n - 1

/-- `x & ~(mask n << a)` — Nat has no complement, so clear by xor with the selected bits -/
def clearField (x a n : Nat) : Nat := x ^^^ (x &&& (mask n <<< a))

/-- `(x & ~(mask << a)) | (v << a)` -/
def insert (x a n v : Nat) : Nat := clearField x a n ||| (v <<< a)

/-- `(x >> a) & mask` -/
def extract (x a n : Nat) : Nat := (x >>> a) &&& mask n

end Varint.BF
