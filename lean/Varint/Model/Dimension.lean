import Varint.Model.Bytes
/-
  Model of src/varintDimension.{c,h}: (rows, cols) packed into one integer; the variable-width
  dimension header (pair byte outside the buffer, header = LE rows (0–8 bytes) ++ LE cols (1–8 bytes));
  matrix cells stored behind the header.
-/
namespace Varint.Dim

/-- `varintDimensionPack`: smallest d in 1..8 with max(row,col) < 16^d; none = returns false -/
def packDim (m : Nat) : Option Nat :=
  if m < 16 ^ 1 then some 1 else if m < 16 ^ 2 then some 2 else if m < 16 ^ 3 then some 3
  else if m < 16 ^ 4 then some 4 else if m < 16 ^ 5 then some 5 else if m < 16 ^ 6 then some 6
  else if m < 16 ^ 7 then some 7 else if m < 16 ^ 8 then some 8 else none

def pack (row col : Nat) : Option (Nat × Nat) :=
  (packDim (max row col)).map fun d => ((row * 16 ^ d + col) % 2 ^ 64, d)

/-- `varintDimensionUnpack` -/
def unpack (packed d : Nat) : Nat × Nat := (packed / 16 ^ d, packed % 16 ^ d)

/-- byte width of a count, 0 for 0 (rows) -/
def widthRows (rows : Nat) : Nat := if rows = 0 then 0 else extLen rows

/-- `VARINT_DIMENSION_PAIR_PAIR(x, y, sparse)` for y ≥ 1 -/
def pairByte (wr wc : Nat) (sparse : Bool) : Nat := wr * 16 + (wc - 1) * 2 + (if sparse then 1 else 0)
/-- `VARINT_DIMENSION_PAIR_WIDTH_ROW_COUNT / COL_COUNT` (as repaired: three bits) -/
def rowWidthOf (dim : Nat) : Nat := dim / 16
def colWidthOf (dim : Nat) : Nat := dim / 2 % 8 + 1

/-- `varintDimensionPairDimension` (cols ≥ 1) -/
def pairDim (rows cols : Nat) : Nat := pairByte (widthRows rows) (extLen cols) false

/-- `varintDimensionPairEncode`: (pair byte, header bytes) -/
def pairEncode (rows cols : Nat) : Nat × List Nat :=
  let d := pairDim rows cols
  (d, leBytes (rowWidthOf d) rows ++ leBytes (colWidthOf d) cols)

/-- `varintDimensionPairDecode` -/
def pairDecode (hdr : List Nat) (dim : Nat) : Option (Nat × Nat) :=
  let wr := rowWidthOf dim
  let wc := colWidthOf dim
  match takeExact wr hdr, takeExact wc (hdr.drop wr) with
  | some r, some c => some (ofLe r, ofLe c)
  | _, _ => none

def hdrLen (dim : Nat) : Nat := rowWidthOf dim + colWidthOf dim

/-- element index of cell (row, col): the C reads `cols` from the header unless row = 0 -/
def cellIndex (buf : List Nat) (dim row col : Nat) : Option Nat :=
  if row = 0 then some col
  else (pairDecode buf dim).map fun (_, cols) => row * cols + col

/-- overwrite `bs` at byte offset `off` (a store outside the buffer = none) -/
def writeAt (buf : List Nat) (off : Nat) (bs : List Nat) : Option (List Nat) :=
  if off + bs.length ≤ buf.length then some (buf.take off ++ bs ++ buf.drop (off + bs.length)) else none

def readAt (buf : List Nat) (off n : Nat) : Option (List Nat) := takeExact n (buf.drop off)

/-- `varintDimensionPairEntrySetUnsigned` (also float/double: w = 4/8 and v = the IEEE bits) -/
def setEntry (buf : List Nat) (dim row col v w : Nat) : Option (List Nat) :=
  match cellIndex buf dim row col with
  | none => none
  | some k => writeAt buf (hdrLen dim + k * w) (leBytes w v)

def getEntry (buf : List Nat) (dim row col w : Nat) : Option Nat :=
  match cellIndex buf dim row col with
  | none => none
  | some k => (readAt buf (hdrLen dim + k * w) w).map ofLe

def getBit (buf : List Nat) (dim row col : Nat) : Option Bool :=
  match cellIndex buf dim row col with
  | none => none
  | some k => (buf[hdrLen dim + k / 8]?).map fun b => b / 2 ^ (k % 8) % 2 = 1

def setBit (buf : List Nat) (dim row col : Nat) (on : Bool) : Option (List Nat) :=
  match cellIndex buf dim row col with
  | none => none
  | some k =>
    match buf[hdrLen dim + k / 8]? with
    | none => none
    | some b =>
      let cur := b / 2 ^ (k % 8) % 2
      let nb := if on then b + (1 - cur) * 2 ^ (k % 8) else b - cur * 2 ^ (k % 8)
      some (buf.set (hdrLen dim + k / 8) nb)

def toggleBit (buf : List Nat) (dim row col : Nat) : Option (List Nat × Bool) :=
  match getBit buf dim row col with
  | none => none
  | some old => (setBit buf dim row col (!old)).map fun b => (b, old)

end Varint.Dim
