import Varint.Model.Bytes
/- Model of src/varintGroup.{c,h}: [fieldCount][2-bit width codes, LSB-first][values LE in 1/2/4/8 bytes] -/
namespace Varint.Group

def normW (v : Nat) : Nat :=
  let w := extLen v
  if w ≤ 1 then 1 else if w ≤ 2 then 2 else if w ≤ 4 then 4 else 8

/-- `varintGroupWidthEncode_` of a normalised width -/
def code (w : Nat) : Nat := if w = 1 then 0 else if w = 2 then 1 else if w = 4 then 2 else 3
/-- `varintGroupWidthDecode_` -/
def width (c : Nat) : Nat := match c % 4 with | 0 => 1 | 1 => 2 | 2 => 4 | _ => 8

/-- `varintGroupBitmapSize_` -/
def bitmapSize (n : Nat) : Nat := (n * 2 + 7) / 8

/-- pack 2-bit codes four to a byte, first field in the low bits -/
def packCodes : List Nat → List Nat
  | [] => []
  | [a] => [a]
  | [a, b] => [a + 4 * b]
  | [a, b, c] => [a + 4 * b + 16 * c]
  | a :: b :: c :: d :: rest => (a + 4 * b + 16 * c + 64 * d) :: packCodes rest

/-- `varintGroupEncode`; `[]` = returns 0 (fieldCount 0 or > 64) -/
def enc (xs : List Nat) : List Nat :=
  if xs.length = 0 ∨ xs.length > 64 then []
  else [xs.length] ++ packCodes (xs.map fun x => code (normW x)) ++ xs.flatMap fun x => leBytes (normW x) x

/-- `varintGroupSize` -/
def size (xs : List Nat) : Nat :=
  if xs.length = 0 ∨ xs.length > 64 then 0
  else 1 + bitmapSize xs.length + (xs.map normW).sum

/-- width code of field `i` read from the bitmap that starts at `bs[1]` -/
def codeAt (bs : List Nat) (i : Nat) : Option Nat :=
  (bs[1 + i / 4]?).map fun b => b / 4 ^ (i % 4) % 4

def readFields (bs : List Nat) : List Nat → Nat → Option (List Nat)
  | [], _ => some []
  | w :: ws, off =>
    match takeExact w (bs.drop off) with
    | none => none
    | some p =>
      match readFields bs ws (off + w) with
      | none => none
      | some vs => some (ofLe p :: vs)

/-- widths of the first `n` fields -/
def widths (bs : List Nat) (n : Nat) : Option (List Nat) :=
  (List.range n).mapM fun i => (codeAt bs i).map width

/-- `varintGroupDecode(src, values, &fieldCount, maxFields)`:
    `some none` = returns 0; `some (some (vals, consumed))`; outer none = read outside buffer -/
def dec (bs : List Nat) (cap : Nat) : Option (Option (List Nat × Nat)) :=
  match bs with
  | [] => none
  | c :: _ =>
    if c = 0 ∨ c > 64 ∨ c > cap then some none
    else
      match widths bs c with
      | none => none
      | some ws =>
        match readFields bs ws (1 + bitmapSize c) with
        | none => none
        | some vs => some (some (vs, 1 + bitmapSize c + ws.sum))

/-- `varintGroupGetField(src, index, &value)` → (value, bytes from start through the field); `some none` = 0 -/
def getField (bs : List Nat) (i : Nat) : Option (Option (Nat × Nat)) :=
  match bs with
  | [] => none
  | c :: _ =>
    if c = 0 ∨ i ≥ c then some none
    else
      match widths bs (i + 1) with
      | none => none
      | some ws =>
        let skip := (ws.take i).sum
        let w := ws.getD i 1
        match takeExact w (bs.drop (1 + bitmapSize c + skip)) with
        | none => none
        | some p => some (some (ofLe p, 1 + bitmapSize c + skip + w))

/-- `varintGroupGetSize` -/
def getSize (bs : List Nat) : Option Nat :=
  match bs with
  | [] => none
  | c :: _ =>
    if c = 0 ∨ c > 64 then some 0
    else (widths bs c).map fun ws => 1 + bitmapSize c + ws.sum

/-- `varintGroupGetFieldWidth` (0 = VARINT_WIDTH_INVALID) -/
def getFieldWidth (bs : List Nat) (i : Nat) : Option Nat :=
  match bs with
  | [] => none
  | c :: _ => if c = 0 ∨ i ≥ c then some 0 else (codeAt bs i).map width

end Varint.Group
