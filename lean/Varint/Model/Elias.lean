import Varint.Model.Bits
/- Model of src/varintElias.c: MSB-first bit stream of Elias gamma / delta codes. -/
namespace Varint.Elias
open Varint.Bits

/-- gamma code of v ≥ 1: ⌊log2 v⌋ zeros then the ⌊log2 v⌋+1 bits of v -/
def gamma (v : Nat) : List Bool := List.replicate (log2 v) false ++ msb (log2 v + 1) v

/-- delta code of v ≥ 1: gamma(⌊log2 v⌋+1) then the low ⌊log2 v⌋ bits of v -/
def delta (v : Nat) : List Bool := gamma (log2 v + 1) ++ msb (log2 v) v

def gammaBits (v : Nat) : Nat := 2 * log2 v + 1
def deltaBits (v : Nat) : Nat := gammaBits (log2 v + 1) + log2 v

def gammaMaxBytes (count : Nat) : Nat := (count * 127 + 7) / 8
def deltaMaxBytes (count : Nat) : Nat := (count * 76 + 7) / 8

/-- `varintEliasGammaEncodeArray`: returned bytes; the call also zeroes `gammaMaxBytes n` bytes -/
def encGamma (xs : List Nat) : List Nat := packMsb (xs.flatMap gamma)
def encDelta (xs : List Nat) : List Nat := packMsb (xs.flatMap delta)

/-- A bit source: `rd i = none` means "loading bit `i` is a read outside what the caller declared". -/
abbrev Reader := Nat → Option Bool

/-- the bits a caller hands over: `srcBits` bits of `bytes`, nothing at or beyond `srcBits` -/
def declared (bytes : List Nat) (srcBits : Nat) : Reader :=
  fun i => if i < srcBits then bitMsb bytes i else none

/-- `varintBitReaderRead(r, n)`: (value, new pos); none = a bit outside the source was loaded -/
def readBits (rd : Reader) : Nat → Nat → Nat → Option (Nat × Nat)
  | 0, pos, acc => some (acc, pos)
  | n + 1, pos, acc =>
    match rd pos with
    | none => none
    | some b => readBits rd n (pos + 1) (2 * acc + (if b then 1 else 0))

/-- `varintEliasGammaDecode` as repaired: `varintBitReaderHasMore` before every read;
    0 = error / exhausted. Returns (value, new pos). `z` = zeros seen so far. -/
def gammaDecAux (rd : Reader) (total : Nat) : Nat → Nat → Nat → Option (Nat × Nat)
  | 0, _, pos => some (0, pos)
  | fuel + 1, z, pos =>
    if pos + 1 > total then some (0, pos) else
    match rd pos with
    | none => none
    | some true =>
      if z = 0 then some (1, pos + 1)
      else if pos + 1 + z > total then some (0, pos + 1)
      else (readBits rd z (pos + 1) 0).map fun (r, p) => (2 ^ z + r, p)
    | some false =>
      if z + 1 > 63 then some (0, pos + 1) else gammaDecAux rd total fuel (z + 1) (pos + 1)

def gammaDec (rd : Reader) (total pos : Nat) : Option (Nat × Nat) := gammaDecAux rd total 65 0 pos

/-- `varintEliasDeltaDecode` as repaired -/
def deltaDec (rd : Reader) (total pos : Nat) : Option (Nat × Nat) :=
  match gammaDec rd total pos with
  | none => none
  | some (lenN, p) =>
    if lenN = 0 ∨ lenN > 64 then some (0, p)
    else if lenN - 1 = 0 then some (1, p)
    else if p + (lenN - 1) > total then some (0, p)
    else (readBits rd (lenN - 1) p 0).map fun (r, q) => (2 ^ (lenN - 1) + r, q)

def decArrayAux (one : Reader → Nat → Nat → Option (Nat × Nat)) (rd : Reader) (total : Nat) :
    Nat → Nat → Option (List Nat)
  | 0, _ => some []
  | room + 1, pos =>
    if pos + 1 > total then some [] else
    match one rd total pos with
    | none => none
    | some (v, p) => if v = 0 then some [] else (decArrayAux one rd total room p).map (v :: ·)

/-- `varintEliasGammaDecodeArray(src, srcBits, values, maxCount)`; none = out-of-declared-input load -/
def decGamma (bytes : List Nat) (srcBits cap : Nat) : Option (List Nat) :=
  decArrayAux gammaDec (declared bytes srcBits) srcBits cap 0
def decDelta (bytes : List Nat) (srcBits cap : Nat) : Option (List Nat) :=
  decArrayAux deltaDec (declared bytes srcBits) srcBits cap 0

end Varint.Elias
