import Varint.Model.Bits
/- Model of src/varintElias.c: MSB-first bit stream of Elias gamma / delta codes. -/
namespace Varint.Elias
open Varint.Bits

/-- gamma code of v ≥ 1: ⌊log2 v⌋ zeros then the ⌊log2 v⌋+1 bits of v -/
def gamma (v : Nat) : List Bool := List.replicate (log2 v) false ++ msb (log2 v + 1) v

/-- delta code of v ≥ 1: gamma(⌊log2 v⌋+1) then the low ⌊log2 v⌋ bits of v -/
def delta (v : Nat) : List Bool := gamma (log2 v + 1) ++ msb (log2 v) v

def gammaBits (v : Nat) : Nat := 2 * log2 v + 1
def deltaBits (v : Nat) : Nat := gammaBits (log2 v + 1) + log2 v

def gammaMaxBytes (count : Nat) : Nat := (count * 127 + 7) / 8
def deltaMaxBytes (count : Nat) : Nat := (count * 76 + 7) / 8

/-- `varintEliasGammaEncodeArray`: returned bytes; the call also zeroes `gammaMaxBytes n` bytes -/
def encGamma (xs : List Nat) : List Nat := packMsb (xs.flatMap gamma)
def encDelta (xs : List Nat) : List Nat := packMsb (xs.flatMap delta)

/-- read `n` bits MSB-first starting at bit `pos`: (value, new pos); none = byte outside the buffer -/
def readBits (bytes : List Nat) : Nat → Nat → Nat → Option (Nat × Nat)
  | 0, pos, acc => some (acc, pos)
  | n + 1, pos, acc =>
    match bitMsb bytes pos with
    | none => none
    | some b => readBits bytes n (pos + 1) (2 * acc + (if b then 1 else 0))

/-- `varintEliasGammaDecode` as repaired: every bit read is first checked against `total`;
    0 = error / exhausted. Returns (value, new pos). `z` = zeros seen so far. -/
def gammaDecAux (bytes : List Nat) (total : Nat) : Nat → Nat → Nat → Option (Nat × Nat)
  | 0, _, pos => some (0, pos)
  | fuel + 1, z, pos =>
    if pos + 1 > total then some (0, pos) else
    match bitMsb bytes pos with
    | none => none
    | some true =>
      if z = 0 then some (1, pos + 1)
      else if pos + 1 + z > total then some (0, pos + 1)
      else (readBits bytes z (pos + 1) 0).map fun (r, p) => (2 ^ z + r, p)
    | some false =>
      if z + 1 > 63 then some (0, pos + 1) else gammaDecAux bytes total fuel (z + 1) (pos + 1)

def gammaDec (bytes : List Nat) (total pos : Nat) : Option (Nat × Nat) := gammaDecAux bytes total 65 0 pos

/-- `varintEliasDeltaDecode` as repaired -/
def deltaDec (bytes : List Nat) (total pos : Nat) : Option (Nat × Nat) :=
  match gammaDec bytes total pos with
  | none => none
  | some (lenN, p) =>
    if lenN = 0 ∨ lenN > 64 then some (0, p)
    else
      let n := lenN - 1
      if n = 0 then some (1, p)
      else if p + n > total then some (0, p)
      else (readBits bytes n p 0).map fun (r, q) => (2 ^ n + r, q)

def decArrayAux (one : List Nat → Nat → Nat → Option (Nat × Nat)) (bytes : List Nat) (total : Nat) :
    Nat → Nat → Option (List Nat)
  | 0, _ => some []
  | room + 1, pos =>
    if pos + 1 > total then some [] else
    match one bytes total pos with
    | none => none
    | some (v, p) => if v = 0 then some [] else (decArrayAux one bytes total room p).map (v :: ·)

/-- `varintEliasGammaDecodeArray(src, srcBits, values, maxCount)` -/
def decGamma (bytes : List Nat) (srcBits cap : Nat) : Option (List Nat) := decArrayAux gammaDec bytes srcBits cap 0
def decDelta (bytes : List Nat) (srcBits cap : Nat) : Option (List Nat) := decArrayAux deltaDec bytes srcBits cap 0

end Varint.Elias
