/-
  Byte-level building blocks shared by every model.
  Bytes are `Nat`s (`< 256` is a proved property of every encoder, not a type).
  Core Lean only: this file is linked into the `vdriver` executable.
-/
namespace Varint

/-- `k` bytes of `v`, least significant first (the model of a little-endian store). -/
def leBytes : Nat → Nat → List Nat
  | 0, _ => []
  | k + 1, v => (v % 256) :: leBytes k (v / 256)

/-- value of a little-endian byte list -/
def ofLe : List Nat → Nat
  | [] => 0
  | b :: bs => b + 256 * ofLe bs

/-- `k` bytes of `v`, most significant first. -/
def beBytes : Nat → Nat → List Nat
  | 0, _ => []
  | k + 1, v => (v / 256 ^ k % 256) :: beBytes k v

/-- value of a big-endian byte list -/
def ofBe : List Nat → Nat
  | [] => 0
  | b :: bs => b * 256 ^ bs.length + ofBe bs

/-- fuel-indexed worker of `extLen` (structural recursion: nothing here is defined by
    well-founded recursion, which the kernel cannot unfold cheaply) -/
def extLenAux : Nat → Nat → Nat
  | 0, _ => 1
  | f + 1, v => if v < 256 then 1 else 1 + extLenAux f (v / 256)

/-- number of bytes needed for `v` (the `while ((v >>= 8) != 0) width++` loop), 1 for 0 -/
def extLen (v : Nat) : Nat := extLenAux v v

def len7Aux : Nat → Nat → Nat
  | 0, _ => 1
  | f + 1, v => if v < 128 then 1 else 1 + len7Aux f (v / 128)

/-- number of base-128 digits of `v` (the `while (v >>= 7) i++` loop), 1 for 0 -/
def len7 (v : Nat) : Nat := len7Aux v v

/-- exactly the first `k` elements, or `none` when the list is shorter (a read past the buffer) -/
def takeExact (k : Nat) (bs : List Nat) : Option (List Nat) :=
  if k ≤ bs.length then some (bs.take k) else none

/-- what the compiled driver runs instead (does not walk the whole list); proved equal below -/
def takeExactFast (k : Nat) (bs : List Nat) : Option (List Nat) :=
  if (bs.take k).length = k then some (bs.take k) else none

@[csimp] theorem takeExact_eq_fast : @takeExact = @takeExactFast := by
  funext k bs
  simp only [takeExact, takeExactFast, List.length_take]
  by_cases h : k ≤ bs.length
  · rw [if_pos h, if_pos (by omega)]
  · rw [if_neg h, if_neg (by omega)]

def U64 : Nat := 2 ^ 64
def U32 : Nat := 2 ^ 32

/-- two's-complement reinterpretation of an `Int` as a 64-bit unsigned value -/
def toU64 (i : Int) : Nat := (i % (2 ^ 64 : Int)).toNat

/-- reinterpretation of a 64-bit unsigned value as `int64_t` -/
def toI64 (v : Nat) : Int := if v % 2 ^ 64 < 2 ^ 63 then (v % 2 ^ 64 : Nat) else (v % 2 ^ 64 : Nat) - (2 ^ 64 : Int)

/-- lexicographic comparison of byte lists: the model of `memcmp` over the common
    length followed by comparing lengths -/
def lexCmp : List Nat → List Nat → Ordering
  | [], [] => .eq
  | [], _ :: _ => .lt
  | _ :: _, [] => .gt
  | a :: as, b :: bs => if a < b then .lt else if b < a then .gt else lexCmp as bs

end Varint
