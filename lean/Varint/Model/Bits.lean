import Varint.Model.Bytes
/- Bit-list helpers shared by Elias (MSB-first) and BP128 (LSB-first). -/
namespace Varint.Bits

/-- `n` low bits of `v`, most significant first -/
def msb : Nat → Nat → List Bool
  | 0, _ => []
  | n + 1, v => (v / 2 ^ n % 2 = 1) :: msb n v

/-- `n` low bits of `v`, least significant first -/
def lsb : Nat → Nat → List Bool
  | 0, _ => []
  | n + 1, v => (v % 2 = 1) :: lsb n (v / 2)

def ofMsb (bs : List Bool) : Nat := bs.foldl (fun a b => 2 * a + (if b then 1 else 0)) 0

def ofLsb : List Bool → Nat
  | [] => 0
  | b :: bs => (if b then 1 else 0) + 2 * ofLsb bs

/-- pack bits into bytes, first bit = most significant bit of the first byte; zero padded -/
def packMsb : List Bool → List Nat
  | b0 :: b1 :: b2 :: b3 :: b4 :: b5 :: b6 :: b7 :: rest =>
      ofMsb [b0, b1, b2, b3, b4, b5, b6, b7] :: packMsb rest
  | [] => []
  | bs => [ofMsb (bs ++ List.replicate (8 - bs.length) false)]

/-- pack bits into bytes, first bit = least significant bit of the first byte; zero padded -/
def packLsb : List Bool → List Nat
  | b0 :: b1 :: b2 :: b3 :: b4 :: b5 :: b6 :: b7 :: rest =>
      ofLsb [b0, b1, b2, b3, b4, b5, b6, b7] :: packLsb rest
  | [] => []
  | bs => [ofLsb bs]

/-- bit `i` of a byte string, MSB-first numbering; none outside -/
def bitMsb (bytes : List Nat) (i : Nat) : Option Bool :=
  (bytes[i / 8]?).map fun b => b / 2 ^ (7 - i % 8) % 2 = 1

/-- bit `i`, LSB-first numbering -/
def bitLsb (bytes : List Nat) (i : Nat) : Option Bool :=
  (bytes[i / 8]?).map fun b => b / 2 ^ (i % 8) % 2 = 1

/-- floor(log2 v) for v ≥ 1 (0 for 0) -/
def log2 (v : Nat) : Nat := Nat.log2 v

/-- number of bits needed: 0 for 0 (`varintBP128BitsNeeded`) -/
def bitsNeeded (v : Nat) : Nat := if v = 0 then 0 else Nat.log2 v + 1

end Varint.Bits
