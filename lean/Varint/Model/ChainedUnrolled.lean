import Varint.Model.Bytes
import Varint.Model.Chained
/-
  LITERAL model of the hand-unrolled sqlite3 reader in src/varintChained.c:
  `varintChainedGetVarint`, `varintChainedGetVarint32` and the header macro
  `varintChained_getVarint32` (src/varintChained.h).

  Conventions of the transcription (one Lean step per C statement, C quoted next to it):
    * `buf` is the memory the C pointer points into; the C pointer `p` is the index `p`
      into `buf` (`*p` is `buf[p]?`, `p[k]` is `buf[p + k]?`, `p[-4]` is `buf[p - 4]?`).
      Reading beyond the list is `none` (the C would read out of bounds).
    * `uint32_t` temporaries `a`, `b`, `s`: every operation that can leave 32 bits is
      reduced `% 2^32`: `x << k` is `shl32 x k = x * 2^k % 2^32`; `x >> k` is
      `shr x k = x / 2^k`; `&`, `|` are `&&&`, `|||` (`Nat.land`, `Nat.lor`), which cannot
      leave 32 bits.  (`shl32`/`shr`/`shl64`/`u32`/`u8` are one-line `abbrev`s below; they
      exist only because a long `do` block full of `2 ^ k` literals elaborates very slowly.)
    * `((uint64_t)s) << 32 | a` is `shl64 s 32 ||| a = (s * 2^32 % 2^64) ||| a`.
    * `((int8_t *)p)[i] >= 0` is `buf[i] < 128` (sign bit of the byte clear).
    * `if (!(x & 0x80))` is `if x &&& 0x80 = 0`.
    * `let mut x` / `x := …` is the C assignment to the same variable.
  Core Lean only.  The equality with the format-level reader `Chained.dec` is proved in
  Varint/Lemmas/ChainedUnrolled.lean.
-/
namespace Varint.ChainedU

/-- `x << k` on a `uint32_t` -/
abbrev shl32 (x k : Nat) : Nat := x * 2 ^ k % 2 ^ 32
/-- `x << k` on a `uint64_t` -/
abbrev shl64 (x k : Nat) : Nat := x * 2 ^ k % 2 ^ 64
/-- `x >> k` (unsigned) -/
abbrev shr (x k : Nat) : Nat := x / 2 ^ k
/-- `(uint32_t)x` -/
abbrev u32 (x : Nat) : Nat := x % 2 ^ 32
/-- `(uint8_t)x` -/
abbrev u8 (x : Nat) : Nat := x % 2 ^ 8

/-- `#define SLOT_2_0 0x001fc07f` -/
def SLOT_2_0 : Nat := 0x001fc07f
/-- `#define SLOT_4_2_0 0xf01fc07f` -/
def SLOT_4_2_0 : Nat := 0xf01fc07f
/-- `#define SQLITE_MAX_U32 ((((uint64_t)1) << 32) - 1)` -/
def SQLITE_MAX_U32 : Nat := 2 ^ 32 - 1

/-- `varintWidth varintChainedGetVarint(const uint8_t *p, uint64_t *v)` → `(*v, return value)` -/
def getVarint (buf : List Nat) : Option (Nat × Nat) := do
  let mut p : Nat := 0                            -- const uint8_t *p   (index into buf)
  let mut a : Nat := 0                            -- uint32_t a, b, s;
  let mut b : Nat := 0
  let mut s : Nat := 0
  let p_0 ← buf[p]?                               -- if (((int8_t *)p)[0] >= 0) {
  if p_0 < 128 then
    return (p_0, 1)                               --     *v = *p; return 1; }
  let p_1 ← buf[p + 1]?                           -- if (((int8_t *)p)[1] >= 0) {
  if p_1 < 128 then                               --     *v = ((uint32_t)(p[0] & 0x7f) << 7) | p[1];
    return (shl32 (p_0 &&& 0x7f) 7 ||| p_1, 2)    --     return 2; }
  a := shl32 p_0 14                               -- a = ((uint32_t)p[0]) << 14;
  b := p_1                                        -- b = p[1];
  p := p + 2                                      -- p += 2;
  a := a ||| (← buf[p]?)                          -- a |= *p;
  /- a: p0<<14 | p2 (unmasked) -/
  if a &&& 0x80 = 0 then                          -- if (!(a & 0x80)) {
    a := a &&& SLOT_2_0                           --     a &= SLOT_2_0;
    b := b &&& 0x7f                               --     b &= 0x7f;
    b := shl32 b 7                                --     b = b << 7;
    a := a ||| b                                  --     a |= b;
    return (a, 3)                                 --     *v = a; return 3; }
  /- CSE1 from below -/
  a := a &&& SLOT_2_0                             -- a &= SLOT_2_0;
  p := p + 1                                      -- p++;
  b := shl32 b 14                                 -- b = b << 14;
  b := b ||| (← buf[p]?)                          -- b |= *p;
  /- b: p1<<14 | p3 (unmasked) -/
  if b &&& 0x80 = 0 then                          -- if (!(b & 0x80)) {
    b := b &&& SLOT_2_0                           --     b &= SLOT_2_0;
    a := shl32 a 7                                --     a = a << 7;
    a := a ||| b                                  --     a |= b;
    return (a, 4)                                 --     *v = a; return 4; }
  /- a: p0<<14 | p2 (masked);  b: p1<<14 | p3 (unmasked) -/
  b := b &&& SLOT_2_0                             -- b &= SLOT_2_0;
  s := a                                          -- s = a;
  /- s: p0<<14 | p2 (masked) -/
  p := p + 1                                      -- p++;
  a := shl32 a 14                                 -- a = a << 14;
  a := a ||| (← buf[p]?)                          -- a |= *p;
  /- a: p0<<28 | p2<<14 | p4 (unmasked) -/
  if a &&& 0x80 = 0 then                          -- if (!(a & 0x80)) {
    b := shl32 b 7                                --     b = b << 7;
    a := a ||| b                                  --     a |= b;
    s := shr s 18                                 --     s = s >> 18;
    return (shl64 s 32 ||| a, 5)                  --     *v = ((uint64_t)s) << 32 | a; return 5; }
  /- 2:save off p0<<21 | p1<<14 | p2<<7 | p3 (masked) -/
  s := shl32 s 7                                  -- s = s << 7;
  s := s ||| b                                    -- s |= b;
  /- s: p0<<21 | p1<<14 | p2<<7 | p3 (masked) -/
  p := p + 1                                      -- p++;
  b := shl32 b 14                                 -- b = b << 14;
  b := b ||| (← buf[p]?)                          -- b |= *p;
  /- b: p1<<28 | p3<<14 | p5 (unmasked) -/
  if b &&& 0x80 = 0 then                          -- if (!(b & 0x80)) {
    a := a &&& SLOT_2_0                           --     a &= SLOT_2_0;
    a := shl32 a 7                                --     a = a << 7;
    a := a ||| b                                  --     a |= b;
    s := shr s 18                                 --     s = s >> 18;
    return (shl64 s 32 ||| a, 6)                  --     *v = ((uint64_t)s) << 32 | a; return 6; }
  p := p + 1                                      -- p++;
  a := shl32 a 14                                 -- a = a << 14;
  a := a ||| (← buf[p]?)                          -- a |= *p;
  /- a: p2<<28 | p4<<14 | p6 (unmasked) -/
  if a &&& 0x80 = 0 then                          -- if (!(a & 0x80)) {
    a := a &&& SLOT_4_2_0                         --     a &= SLOT_4_2_0;
    b := b &&& SLOT_2_0                           --     b &= SLOT_2_0;
    b := shl32 b 7                                --     b = b << 7;
    a := a ||| b                                  --     a |= b;
    s := shr s 11                                 --     s = s >> 11;
    return (shl64 s 32 ||| a, 7)                  --     *v = ((uint64_t)s) << 32 | a; return 7; }
  /- CSE2 from below -/
  a := a &&& SLOT_2_0                             -- a &= SLOT_2_0;
  p := p + 1                                      -- p++;
  b := shl32 b 14                                 -- b = b << 14;
  b := b ||| (← buf[p]?)                          -- b |= *p;
  /- b: p3<<28 | p5<<14 | p7 (unmasked) -/
  if b &&& 0x80 = 0 then                          -- if (!(b & 0x80)) {
    b := b &&& SLOT_4_2_0                         --     b &= SLOT_4_2_0;
    a := shl32 a 7                                --     a = a << 7;
    a := a ||| b                                  --     a |= b;
    s := shr s 4                                  --     s = s >> 4;
    return (shl64 s 32 ||| a, 8)                  --     *v = ((uint64_t)s) << 32 | a; return 8; }
  p := p + 1                                      -- p++;
  a := shl32 a 15                                 -- a = a << 15;
  a := a ||| (← buf[p]?)                          -- a |= *p;
  /- a: p4<<29 | p6<<15 | p8 (unmasked) -/
  b := b &&& SLOT_2_0                             -- b &= SLOT_2_0;
  b := shl32 b 8                                  -- b = b << 8;
  a := a ||| b                                    -- a |= b;
  s := shl32 s 4                                  -- s = s << 4;
  b := ← buf[p - 4]?                              -- b = p[-4];
  b := b &&& 0x7f                                 -- b &= 0x7f;
  b := shr b 3                                    -- b = b >> 3;
  s := s ||| b                                    -- s |= b;
  return (shl64 s 32 ||| a, 9)                    -- *v = ((uint64_t)s) << 32 | a; return 9;

/-- `varintWidth varintChainedGetVarint32(const uint8_t *p, uint32_t *v)` AS COMPILED:
    src/varintChained.c includes varintChained.h, which defines the macro
    `varintChained_getVarint32`, so the block
    `#ifndef varintChained_getVarint32 … if (!(a & 0x80)) { *v = a; return 1; } … #endif`
    is NOT part of the function.  ("All code should use the MACRO version as this function
    assumes the single-byte case has already been handled.")  Hence the function itself
    never looks at the flag of `p[0]` and always reads `p[1]`. -/
def getVarint32Fn (buf : List Nat) : Option (Nat × Nat) := do
  let mut p : Nat := 0                            -- const uint8_t *p   (index into buf)
  let mut a : Nat := 0                            -- uint32_t a, b;
  let mut b : Nat := 0
  a := ← buf[p]?                                  -- a = *p;
  /- a: p0 (unmasked);  1-byte case compiled out, see above -/
  p := p + 1                                      -- p++;
  b := ← buf[p]?                                  -- b = *p;
  /- b: p1 (unmasked) -/
  if b &&& 0x80 = 0 then                          -- if (!(b & 0x80)) {
    a := a &&& 0x7f                               --     a &= 0x7f;
    a := shl32 a 7                                --     a = a << 7;
    return (a ||| b, 2)                           --     *v = a | b; return 2; }
  p := p + 1                                      -- p++;
  a := shl32 a 14                                 -- a = a << 14;
  a := a ||| (← buf[p]?)                          -- a |= *p;
  /- a: p0<<14 | p2 (unmasked) -/
  if a &&& 0x80 = 0 then                          -- if (!(a & 0x80)) {
    a := a &&& ((shl32 0x7f 14) ||| 0x7f)         --     a &= (0x7f << 14) | (0x7f);
    b := b &&& 0x7f                               --     b &= 0x7f;
    b := shl32 b 7                                --     b = b << 7;
    return (a ||| b, 3)                           --     *v = a | b; return 3; }
  /- #if 1 { uint64_t v64; uint8_t n; -/
  p := p - 2                                      -- p -= 2;
  let (v64, n') ← getVarint (buf.drop p)          -- n = (uint8_t)varintChainedGetVarint(p, &v64);
  let n := u8 n'
  /- assert(n > 3 && n <= 9); -/
  if v64 &&& SQLITE_MAX_U32 ≠ v64 then            -- if ((v64 & SQLITE_MAX_U32) != v64) {
    return (0xffffffff, n)                        --     *v = 0xffffffff; } … return n;
  else
    return (u32 v64, n)                           -- else { *v = (uint32_t)v64; } return n; }

/-- The header macro (src/varintChained.h), the documented entry point:
    `#define varintChained_getVarint32(A, B)
       (uint8_t)((*(A) < (uint8_t)0x80) ? ((B) = (uint32_t)*(A)), 1U
                                        : varintChainedGetVarint32((A), (uint32_t *)&(B)))`
    First byte `< 0x80`: inline fast path (value = that byte, length 1); otherwise the
    function above. -/
def getVarint32 (buf : List Nat) : Option (Nat × Nat) := do
  let a0 ← buf[0]?                                -- *(A)
  if a0 < 0x80 then                               -- (*(A) < (uint8_t)0x80) ?
    return (a0, 1)                                --     ((B) = (uint32_t)*(A)), 1U
  else do
    let (v, n) ← getVarint32Fn buf                --   : varintChainedGetVarint32((A), &(B))
    return (v, u8 n)                              -- (uint8_t)(…)

end Varint.ChainedU
