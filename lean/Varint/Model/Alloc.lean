import Varint.Model.Bitmap
import Varint.Model.Adaptive
import Varint.Model.Float
/-
  C18 — the allocation behaviour of src/varintBitmap.c (and the request sequences of the stateless
  allocating codecs) with an explicit refusal oracle.

  `Oracle` says which allocation requests are refused (request numbers count from the index handed to
  the call); every function returns the index of the next request, so histories thread the oracle.
  Any set of requests may be refused — the "k-th allocation fails" of the property is the special case
  of a one-point oracle. Capacities are modelled because they decide WHEN the C asks for memory.
-/
namespace Varint.Alloc
open Varint.Bitmap

abbrev Oracle := Nat → Bool

/-- bitmap object: the C08 state + capacity of the ARRAY container (elements) -/
structure BO where
  st : St
  cap : Nat
  deriving Repr, DecidableEq

def initBO : BO := ⟨Bitmap.init, 16⟩

/-- `varintBitmapCreate`: struct, then the 16-element array -/
def createO (f : Oracle) (i : Nat) : Option BO × Nat :=
  if f i then (none, i + 1)
  else if f (i + 1) then (none, i + 2)
  else (some initBO, i + 2)

/-- `varintBitmapAdd` on an ARRAY container -/
def addArr (f : Oracle) (i : Nat) (b : BO) (v : Nat) : BO × Bool × Nat :=
  if b.st.bits.testBit v then (b, false, i)
  else if b.st.card ≥ arrayMax then
    -- arrayToBitmap_: calloc(8192)
    if f i then (b, false, i + 1)
    else (⟨⟨.bitmap, b.st.card + 1, setBit b.st.bits v⟩, b.cap⟩, true, i + 1)
  else if b.cap ≥ b.st.card + 1 then (⟨⟨.array, b.st.card + 1, setBit b.st.bits v⟩, b.cap⟩, true, i)
  else
    -- arrayEnsureCapacity_: realloc to max(2*capacity, needed)
    if f i then (b, false, i + 1)
    else (⟨⟨.array, b.st.card + 1, setBit b.st.bits v⟩, max (2 * b.cap) (b.st.card + 1)⟩, true, i + 1)

/-- … on a BITMAP container: no memory needed -/
def addBm (b : BO) (v : Nat) : BO × Bool :=
  if b.st.bits.testBit v then (b, false)
  else (⟨⟨.bitmap, b.st.card + 1, setBit b.st.bits v⟩, b.cap⟩, true)

/-- `varintBitmapAdd` under a refusal oracle: (object, returned bool, next request index) -/
def addO (f : Oracle) (i : Nat) (b : BO) (v : Nat) : BO × Bool × Nat :=
  match b.st.ty with
  | .array => addArr f i b v
  | .bitmap => ((addBm b v).1, (addBm b v).2, i)
  | .runs =>
    -- the runs container is first converted (calloc(8192) / malloc((card+1)*2)), then Add is retried
    if f i then (b, false, i + 1)
    else if b.st.card ≥ arrayMax then
      ((addBm ⟨⟨.bitmap, b.st.card, b.st.bits⟩, b.cap⟩ v).1, (addBm ⟨⟨.bitmap, b.st.card, b.st.bits⟩, b.cap⟩ v).2, i + 1)
    else addArr f (i + 1) ⟨⟨.array, b.st.card, b.st.bits⟩, b.st.card + 1⟩ v

/-- `varintBitmapRemove` on a BITMAP container: bitmapToArray_ (malloc(card*2)) below 4096 members; when that
    request is refused the value is removed all the same and the container stays a bitmap -/
def remBm (f : Oracle) (i : Nat) (b : BO) (v : Nat) : BO × Bool × Nat :=
  if !b.st.bits.testBit v then (b, false, i)
  else if b.st.card - 1 < arrayMax then
    if f i then (⟨⟨.bitmap, b.st.card - 1, clearBit b.st.bits v⟩, b.cap⟩, true, i + 1)
    else (⟨⟨.array, b.st.card - 1, clearBit b.st.bits v⟩, b.st.card - 1⟩, true, i + 1)
  else (⟨⟨.bitmap, b.st.card - 1, clearBit b.st.bits v⟩, b.cap⟩, true, i)

def remArr (b : BO) (v : Nat) : BO × Bool :=
  if !b.st.bits.testBit v then (b, false)
  else (⟨⟨.array, b.st.card - 1, clearBit b.st.bits v⟩, b.cap⟩, true)

def removeO (f : Oracle) (i : Nat) (b : BO) (v : Nat) : BO × Bool × Nat :=
  match b.st.ty with
  | .array => ((remArr b v).1, (remArr b v).2, i)
  | .bitmap => remBm f i b v
  | .runs =>
    if f i then (b, false, i + 1)
    else if b.st.card ≥ arrayMax then remBm f (i + 1) ⟨⟨.bitmap, b.st.card, b.st.bits⟩, b.cap⟩ v
    else ((remArr ⟨⟨.array, b.st.card, b.st.bits⟩, b.st.card⟩ v).1, (remArr ⟨⟨.array, b.st.card, b.st.bits⟩, b.st.card⟩ v).2, i + 1)

/-- `varintBitmapAddMany` (void): failures of individual adds are not reported -/
def addManyO (f : Oracle) (i : Nat) (b : BO) : List Nat → BO × Nat
  | [] => (b, i)
  | v :: vs => addManyO f (addO f i b v).2.2 (addO f i b v).1 vs

def removeManyO (f : Oracle) (i : Nat) (b : BO) : List Nat → BO × Nat
  | [] => (b, i)
  | v :: vs => removeManyO f (removeO f i b v).2.2 (removeO f i b v).1 vs

/-- `varintBitmapAddRange` (void), as repaired: the run container only for an empty set -/
def addRangeO (f : Oracle) (i : Nat) (b : BO) (mn mx : Nat) : BO × Nat :=
  if mn ≥ mx then (b, i)
  else if mx - mn > arrayMax ∧ b.st.card = 0 then
    if f i then (⟨⟨.array, 0, 0⟩, 0⟩, i + 1)       -- reset to an empty array container without storage
    else (⟨⟨.runs, mx - mn, (2 ^ (mx - mn) - 1) <<< mn⟩, 1⟩, i + 1)
  else addManyO f i b ((List.range (mx - mn)).map (· + mn))

def removeRangeO (f : Oracle) (i : Nat) (b : BO) (mn mx : Nat) : BO × Nat :=
  removeManyO f i b ((List.range (mx - mn)).map (· + mn))

/-- `varintBitmapClone`: struct, then the container -/
def cloneO (f : Oracle) (i : Nat) (b : BO) : Option BO × Nat :=
  if f i then (none, i + 1)
  else if f (i + 1) then (none, i + 2)
  else (some b, i + 2)

/-- the loop of the set operations (as repaired): an Add that reports false for a value that is then not a
    member ran out of memory: the partial result is freed and NULL returned -/
def addAllChecked (f : Oracle) (i : Nat) (b : BO) : List Nat → Option BO × Nat
  | [] => (some b, i)
  | v :: vs =>
    if (addO f i b v).2.1 = false ∧ (addO f i b v).1.st.bits.testBit v = false then (none, (addO f i b v).2.2)
    else addAllChecked f (addO f i b v).2.2 (addO f i b v).1 vs

/-- Or = Clone(a) + members of b; And / Xor / AndNot = Create + the members of the result -/
def orO (f : Oracle) (i : Nat) (a b : BO) : Option BO × Nat :=
  match cloneO f i a with
  | (none, j) => (none, j)
  | (some r, j) => addAllChecked f j r (members b.st)

def fromMembersO (f : Oracle) (i : Nat) (bits : Nat) : Option BO × Nat :=
  match createO f i with
  | (none, j) => (none, j)
  | (some r, j) => addAllChecked f j r (members ⟨.array, 0, bits⟩)

def andO (f : Oracle) (i : Nat) (a b : BO) := fromMembersO f i (a.st.bits &&& b.st.bits)
def xorO (f : Oracle) (i : Nat) (a b : BO) := fromMembersO f i (a.st.bits ^^^ b.st.bits)
def andNotO (f : Oracle) (i : Nat) (a b : BO) := fromMembersO f i (a.st.bits ^^^ (a.st.bits &&& b.st.bits))

/-- `varintBitmapDecode` of the encoding of `b` (valid input): struct, then the container; capacity = size -/
def decodeO (f : Oracle) (i : Nat) (b : BO) : Option BO × Nat :=
  if f i then (none, i + 1)
  else if f (i + 1) then (none, i + 2)
  else (some ⟨b.st, match b.st.ty with | .array => b.st.card | .bitmap => b.cap | .runs => 1⟩, i + 2)

/-- request sequences of the stateless allocating calls: every refused request makes the call return its
    failure indication (after releasing what it holds); `n` requests in a row -/
def abortAll (f : Oracle) (i n : Nat) : Bool × Nat :=
  (((List.range n).all fun k => !f (i + k)), i + n)

/-! ### request counts of the stateless allocating calls (functions of the input) -/

/-- `varintDictEncode` / `varintDictEncodedSize`: struct, 16-entry table, sort scratch, and a realloc when
    there are more than 16 distinct values -/
def dictEncReqs (xs : List Nat) : Nat := 3 + (if (Dict.build xs).length > 16 then 1 else 0)
/-- `varintDictBuild` on a dictionary whose table holds `cap` entries -/
def dictBuildReqs (cap : Nat) (xs : List Nat) : Nat := 1 + (if (Dict.build xs).length > cap then 1 else 0)
/-- capacity after Create + Build(xs) -/
def dictCapAfter (xs : List Nat) : Nat := max 16 (Dict.build xs).length
/-- `varintPFOREncode`: the sorted copy of the analysis, and the exception list when there are exceptions -/
def pforEncReqs (xs : List Nat) (t : Nat) : Nat := 1 + (if (PFOR.compute xs t).exceptionCount > 0 then 1 else 0)
/-- `varintFloatDecode`: four component arrays, and the packed mantissas when any value is normal -/
def floatDecReqs (ds : List Nat) : Nat := 4 + (if ds.any (fun d => !Float.isSpecial d) then 1 else 0)

/-- requests of the encoder behind `varintAdaptiveEncodeWith(type)` -/
def adaptiveArmReqs (t : Nat) (xs : List Nat) : Nat :=
  if t = Adaptive.DELTA then 1
  else if t = Adaptive.PFOR_ then pforEncReqs xs 95
  else if t = Adaptive.DICT then dictEncReqs xs
  else if t = Adaptive.BITMAP then (addManyO (fun _ => false) 2 initBO (xs.filter (· < 65536))).2
  else 0

/-- the analysis asks for scratch memory only for unsorted input of more than one value -/
def analysisReqs (xs : List Nat) : Nat :=
  if xs.length ≤ 1 ∨ Adaptive.isAsc xs ∨ Adaptive.isDesc xs then 0 else 1

/-- selection when the analysis could not allocate: `varintAdaptiveCountUnique` answers "all unique" -/
def selectDegraded (xs : List Nat) : Nat :=
  let s := { Adaptive.analyze xs with uniqueCount := xs.length }
  Adaptive.selectWith (Adaptive.floatPreds s) s

/-- requests of `varintAdaptiveDecode` per stream type -/
def adaptiveDecReqs (t : Nat) : Nat :=
  if t = Adaptive.DICT then 1 else if t = Adaptive.BITMAP then 3 else 0

def noneFail : Oracle := fun _ => false
/-- the property's quantifier: exactly the k-th request (0-based) is refused -/
def failAt (k : Nat) : Oracle := fun j => j == k

end Varint.Alloc
