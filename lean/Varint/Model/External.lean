import Varint.Model.Bytes
/-
  Model of src/varintExternal.{c,h} and src/varintExternalBigEndian.{c,h}
  (little-endian host, which is what endianIsLittle() selects on x86-64).
-/
namespace Varint.External

/-- `varintExternalPut`: minimal little-endian slice; return value = length -/
def enc (v : Nat) : List Nat := leBytes (extLen v) v

/-- `varintExternalPutFixedWidth(p, v, w)` for `1 ≤ w ≤ 8` (the C asserts / is unreachable otherwise) -/
def encFixed (v : Nat) (w : Nat) : List Nat := leBytes w v

/-- `varintExternalGet(p, w)`; `none` = a load outside the buffer -/
def get (bs : List Nat) (w : Nat) : Option Nat :=
  (takeExact w bs).map ofLe

/-- `varintExternalAdd_(p, origEncoding, add, force)` on the stored value.
    Returns (returned width, bytes written by this call or `none`). -/
def add (stored : Nat) (origLen : Nat) (amount : Int) (force : Bool) : Nat × Option (List Nat) :=
  let old : Int := toI64 stored
  let sum : Int := old + amount
  if sum < -(2 ^ 63 : Int) ∨ sum > (2 ^ 63 : Int) - 1 then (0, none)
  else
    let nv := toU64 sum
    let newLen := extLen nv
    if newLen > origLen ∧ !force then (newLen, none)
    else (newLen, some (enc nv))

/-- sign-bit relocation helpers `varintPrepareSigned_ / varintRestoreSigned_` for a
    `w`-byte field (w ∈ {3,5,6,7}); values are `Int`, stored field is a `Nat < 256^w`. -/
def prepareSigned (w : Nat) (s : Int) : Nat :=
  if s < 0 then (-s).toNat ^^^ 2 ^ (8 * w - 1) else s.toNat

def restoreSigned (w : Nat) (r : Nat) : Int :=
  if r / 2 ^ (8 * w - 1) % 2 = 1 then -((r ^^^ 2 ^ (8 * w - 1) : Nat) : Int) else (r : Int)

end Varint.External

namespace Varint.ExternalBE

def enc (v : Nat) : List Nat := beBytes (extLen v) v
def encFixed (v : Nat) (w : Nat) : List Nat := beBytes w v
def get (bs : List Nat) (w : Nat) : Option Nat := (takeExact w bs).map ofBe

end Varint.ExternalBE
