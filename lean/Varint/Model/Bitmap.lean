/-
  Model of src/varintBitmap.c as a state machine. The member set is one 65536-bit number
  (`bits.testBit v` ⇔ v is a member) — literally the BITMAP container; the ARRAY and RUNS
  containers are abstracted to it, but the container type and the incrementally maintained
  cardinality counter are kept as the C keeps them, so that container switches at 4096 and
  counter drift are visible to the correspondence.
-/
namespace Varint.Bitmap

inductive Ty where
  | array | bitmap | runs
  deriving Repr, DecidableEq

structure St where
  ty : Ty
  card : Nat            -- vb->cardinality, updated incrementally as in the C
  bits : Nat            -- member set
  deriving Repr, DecidableEq

def init : St := ⟨.array, 0, 0⟩

def arrayMax : Nat := 4096

def setBit (b v : Nat) : Nat := b ||| 2 ^ v
def clearBit (b v : Nat) : Nat := b ^^^ (b &&& 2 ^ v)

/-- conversion every mutating call on a runs container starts with -/
def unrun (s : St) : St :=
  if s.ty = .runs then { s with ty := if s.card ≥ arrayMax then .bitmap else .array } else s

/-- `varintBitmapAdd` → (state, changed?) -/
def add (s0 : St) (v : Nat) : St × Bool :=
  let s := unrun s0
  if s.bits.testBit v then (s, false)
  else
    match s.ty with
    | .array =>
      if s.card ≥ arrayMax then ({ ty := .bitmap, card := s.card + 1, bits := setBit s.bits v }, true)
      else ({ s with card := s.card + 1, bits := setBit s.bits v }, true)
    | _ => ({ s with card := s.card + 1, bits := setBit s.bits v }, true)

/-- `varintBitmapRemove` -/
def remove (s0 : St) (v : Nat) : St × Bool :=
  let s := unrun s0
  if !s.bits.testBit v then (s, false)
  else
    match s.ty with
    | .bitmap =>
      let c := s.card - 1
      ({ ty := if c < arrayMax then .array else .bitmap, card := c, bits := clearBit s.bits v }, true)
    | _ => ({ s with card := s.card - 1, bits := clearBit s.bits v }, true)

def addMany (s : St) (vs : List Nat) : St := vs.foldl (fun st v => (add st v).1) s

/-- `varintBitmapAddRange(vb, min, max)` (half-open), as repaired -/
def addRange (s : St) (mn mx : Nat) : St :=
  if mn ≥ mx then s
  else if mx - mn > arrayMax ∧ s.card = 0 then ⟨.runs, mx - mn, (2 ^ (mx - mn) - 1) <<< mn⟩
  else addMany s ((List.range (mx - mn)).map (· + mn))

def removeRange (s : St) (mn mx : Nat) : St :=
  ((List.range (mx - mn)).map (· + mn)).foldl (fun st v => (remove st v).1) s

/-- `varintBitmapClear`: container type is kept -/
def clear (s : St) : St := { s with card := 0, bits := 0 }

def contains (s : St) (v : Nat) : Bool := s.bits.testBit v
def cardinality (s : St) : Nat := s.card
def isEmpty (s : St) : Bool := s.card == 0

/-- set bits of a small word, ascending, offset by `base` -/
def wordMembers (base : Nat) : Nat → Nat → Nat → List Nat
  | 0, _, _ => []
  | n + 1, i, w => if w % 2 = 1 then (base + i) :: wordMembers base n (i + 1) (w / 2) else wordMembers base n (i + 1) (w / 2)

/-- members in ascending order (iteration / toArray), 64 bits at a time -/
def membersAux : Nat → Nat → Nat → List Nat
  | 0, _, _ => []
  | n + 1, k, b => wordMembers (64 * k) 64 0 (b % 2 ^ 64) ++ membersAux n (k + 1) (b / 2 ^ 64)

def members (s : St) : List Nat := membersAux 1024 0 s.bits

/-- set algebra: results are built by `Create`/`Clone` + `Add` exactly as the C does -/
def or (a b : St) : St := addMany a (members b)
def and (a b : St) : St := addMany init (members ⟨.array, 0, a.bits &&& b.bits⟩)
def xor (a b : St) : St := addMany init (members ⟨.array, 0, a.bits ^^^ b.bits⟩)
def andNot (a b : St) : St := addMany init (members ⟨.array, 0, clearAll a.bits b.bits⟩)
where clearAll (x y : Nat) : Nat := x ^^^ (x &&& y)

/-- little-endian bytes (local copy to keep this file import-free) -/
def leB : Nat → Nat → List Nat
  | 0, _ => []
  | k + 1, v => (v % 256) :: leB k (v / 256)

/-- `varintBitmapEncode` for the containers `Add` produces: [type][cardinality u32][array: u16 members |
    bitmap: 8192 bytes] -/
def encode (s : St) : List Nat :=
  match s.ty with
  | .array => 0 :: leB 4 s.card ++ (members s).flatMap (leB 2)
  | .bitmap => 1 :: leB 4 s.card ++ leB 8192 s.bits
  | .runs => 2 :: leB 4 s.card ++ leB 4 1 ++ leB 2 (members s).head! ++ leB 2 s.card

end Varint.Bitmap
