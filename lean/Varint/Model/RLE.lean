import Varint.Model.Bytes
import Varint.Model.Tagged
/- Model of src/varintRLE.c: runs of (tagged length, tagged value); optional tagged count header. -/
namespace Varint.RLE

/-- maximal runs, in order: (length, value) -/
def runs : List Nat → List (Nat × Nat)
  | [] => []
  | x :: xs =>
    match runs xs with
    | (l, v) :: rest => if v = x then (l + 1, v) :: rest else (1, x) :: (l, v) :: rest
    | [] => [(1, x)]

def encRuns (rs : List (Nat × Nat)) : List Nat := rs.flatMap fun (l, v) => Tagged.enc l ++ Tagged.enc v

/-- `varintRLEEncode` -/
def enc (xs : List Nat) : List Nat := encRuns (runs xs)

/-- `varintRLEEncodeWithHeader` -/
def encH (xs : List Nat) : List Nat := Tagged.enc xs.length ++ enc xs

/-- `varintRLESize` / analyze's encodedSize -/
def size (xs : List Nat) : Nat := ((runs xs).map fun (l, v) => Tagged.len l + Tagged.len v).sum

/-- `varintRLEMaxSize` (after the repair: room for the count header too) -/
def maxSize (count : Nat) : Nat := count * 10 + 9

/-- number of distinct-from-predecessor values = runs; `uniqueValues` of Analyze -/
def runCount (xs : List Nat) : Nat := (runs xs).length

/-- `varintRLEDecodeRun`: (runLen, value, rest); none = read outside the buffer -/
def getRun (bs : List Nat) : Option (Nat × Nat × List Nat) :=
  match Tagged.get bs with
  | .ok l n1 =>
    match Tagged.get (bs.drop n1) with
    | .ok v n2 => some (l, v, bs.drop (n1 + n2))
    | _ => none
  | _ => none

/-- `varintRLEDecode(src, values, maxCount)`; fuel bounds the loop by maxCount (each pass writes ≥ 1) -/
def decAux : Nat → Nat → List Nat → Option (List Nat)
  | 0, _, _ => some []
  | fuel + 1, room, bs =>
    if room = 0 then some [] else
    match getRun bs with
    | none => none
    | some (l, v, rest) =>
      if l = 0 then some []
      else if l ≥ room then some (List.replicate room v)
      else (decAux fuel (room - l) rest).map fun vs => List.replicate l v ++ vs

def dec (bs : List Nat) (cap : Nat) : Option (List Nat) := decAux (cap + 1) cap bs

/-- `varintRLEDecodeWithHeader`: `some none` = returns 0 because totalCount > maxCount.
    The loop runs while decoded < totalCount, each run clipped to maxCount (not to totalCount);
    a zero-length run makes no progress (fuel models the C reading on until it leaves the buffer). -/
def decHAux : Nat → Nat → Nat → Nat → List Nat → Option (List Nat)
  | 0, _, _, _, _ => none
  | fuel + 1, decoded, total, cap, bs =>
    if decoded ≥ total ∨ decoded ≥ cap then some [] else
    match getRun bs with
    | none => none
    | some (l, v, rest) =>
      let w := min l (cap - decoded)
      (decHAux fuel (decoded + w) total cap rest).map fun vs => List.replicate w v ++ vs

def decH (bs : List Nat) (cap : Nat) : Option (Option (List Nat)) :=
  match Tagged.get bs with
  | .ok total n1 =>
    if total > cap then some none
    else (decHAux (bs.length + total + 2) 0 total cap (bs.drop n1)).map some
  | _ => none

/-- `varintRLEGetAt` (0 when the end marker is met) -/
def getAtAux : Nat → Nat → Nat → List Nat → Option Nat
  | 0, _, _, _ => none
  | fuel + 1, pos, i, bs =>
    match getRun bs with
    | none => none
    | some (l, v, rest) =>
      if l = 0 then some 0
      else if pos + l > i then some v
      else getAtAux fuel (pos + l) i rest

def getAt (bs : List Nat) (i : Nat) : Option Nat := getAtAux (i + 2) 0 i bs

end Varint.RLE
