import Varint.Model.Bytes
/-
  Model of src/varintDelta.{c,h}.  Values are 64-bit patterns (`Nat < 2^64`); the signed entry
  points are the same functions on two's-complement patterns, except that the base is zig-zagged.
  All arithmetic wraps modulo 2^64 exactly as the C's unsigned arithmetic does.
-/
namespace Varint.Delta

/-- `varintDeltaZigZag` on the 64-bit pattern of an int64 -/
def zz (x : Nat) : Nat := if x < 2 ^ 63 then 2 * x else 2 ^ 65 - 1 - 2 * x

/-- `varintDeltaZigZagDecode`, result as a 64-bit pattern -/
def unzz (z : Nat) : Nat := if z % 2 = 0 then z / 2 else 2 ^ 64 - 1 - z / 2

/-- one width-prefixed little-endian field: `[w][w bytes]` -/
def field (u : Nat) : List Nat := extLen u :: leBytes (extLen u) u

/-- `varintDeltaPut` of the delta pattern `d` -/
def put (d : Nat) : List Nat := field (zz d)

/-- wrapping difference `(x - prev) mod 2^64` -/
def sub64 (x prev : Nat) : Nat := (x + 2 ^ 64 - prev) % 2 ^ 64

def deltas (prev : Nat) : List Nat → List Nat
  | [] => []
  | x :: xs => put (sub64 x prev) ++ deltas x xs

/-- `varintDeltaEncodeUnsigned` -/
def encU : List Nat → List Nat
  | [] => []
  | b :: xs => field b ++ deltas b xs

/-- `varintDeltaEncode` (signed patterns): base is zig-zagged too -/
def encS : List Nat → List Nat
  | [] => []
  | b :: xs => field (zz b) ++ deltas b xs

/-- read one `[w][w bytes]` field; `none` = width byte outside 1..8 (the C is undefined there)
    or a read past the buffer -/
def getField (bs : List Nat) : Option (Nat × List Nat) :=
  match bs with
  | [] => none
  | w :: rest =>
    if 1 ≤ w ∧ w ≤ 8 then
      match takeExact w rest with
      | some p => some (ofLe p, rest.drop w)
      | none => none
    else none

/-- decode `n` further deltas starting from `cur` -/
def decDeltas : Nat → Nat → List Nat → Option (List Nat × List Nat)
  | 0, _, bs => some ([], bs)
  | n + 1, cur, bs =>
    match getField bs with
    | none => none
    | some (z, rest) =>
      let nxt := (cur + unzz z) % 2 ^ 64
      match decDeltas n nxt rest with
      | none => none
      | some (vs, r) => some (nxt :: vs, r)

/-- `varintDeltaDecodeUnsigned(input, count, output)`: (values, bytes consumed) -/
def decU (count : Nat) (bs : List Nat) : Option (List Nat × Nat) :=
  match count with
  | 0 => some ([], 0)
  | n + 1 =>
    match getField bs with
    | none => none
    | some (b, rest) =>
      match decDeltas n b rest with
      | none => none
      | some (vs, r) => some (b :: vs, bs.length - r.length)

def decS (count : Nat) (bs : List Nat) : Option (List Nat × Nat) :=
  match count with
  | 0 => some ([], 0)
  | n + 1 =>
    match getField bs with
    | none => none
    | some (zb, rest) =>
      let b := unzz zb
      match decDeltas n b rest with
      | none => none
      | some (vs, r) => some (b :: vs, bs.length - r.length)

/-- `varintDeltaMaxEncodedSize` -/
def maxSize (count : Nat) : Nat := if count = 0 then 0 else 1 + 8 + (count - 1) * 9

end Varint.Delta
