import Varint.Model.BitField
/-
  Model of src/varintBitstream.h for a slot type of `W` bits (W ∈ {8,16,32,64}; value type of the
  same width). The stream is a list of slot words; bit offsets count from the most significant bit
  of word 0. Written with the same mask/shift/or steps as the C.
-/
namespace Varint.Bitstream
open Varint.BF

/-- `varintBitstreamSet(dst, off, n, v)` for 1 ≤ n ≤ W and v < 2^n -/
def set (W : Nat) (ws : List Nat) (off n v : Nat) : List Nat :=
  let i := off / W
  let high := W - off % W           -- highDataBitPosition
  if n ≤ high then
    ws.set i (insert (ws.getD i 0) (high - n) n v)
  else
    let hb := n - high              -- bits that spill into the next slot
    let ws1 := ws.set i (insert (ws.getD i 0) 0 high (v >>> hb))
    ws1.set (i + 1) (insert (ws1.getD (i + 1) 0) (W - hb) hb (v &&& mask hb))

/-- `varintBitstreamGet(src, off, n)` -/
def get (W : Nat) (ws : List Nat) (off n : Nat) : Nat :=
  let i := off / W
  let high := W - off % W
  if n ≤ high then extract (ws.getD i 0) (high - n) n
  else
    let hb := n - high
    (extract (ws.getD i 0) 0 high) <<< hb ||| extract (ws.getD (i + 1) 0) (W - hb) hb

/-- `_varintBitstreamPrepareSigned` is applied by callers only to negative values -/
def prepareSigned (n : Nat) (s : Int) : Nat := if s < 0 then (-s).toNat ^^^ 2 ^ (n - 1) else s.toNat
def restoreSigned (n : Nat) (r : Nat) : Int :=
  if r / 2 ^ (n - 1) % 2 = 1 then -((r ^^^ 2 ^ (n - 1) : Nat) : Int) else (r : Int)

end Varint.Bitstream
