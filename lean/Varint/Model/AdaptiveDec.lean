import Varint.Model.Adaptive
import Varint.Model.Bounded
/-
  `varintAdaptiveDecode(src, values, maxCount, meta)` of src/varintAdaptive.c, all six arms.

  Conventions (those of `Adaptive.decode` / `FOR.dec`):
    * `bs` is the memory really present behind `src` (the C API has no source length);
    * `none`      = the C loads a byte that is not in `bs`, or does something undefined
                    (bad width byte, scratch-array overrun, non-terminating iteration);
    * `some []`   = the function returns 0 (`decoded = 0`);
    * `some vs`   = the function returns `vs.length` and has written `vs` to `values`.
  Allocation failures are not modelled here (every `malloc` succeeds).
-/
namespace Varint.Adaptive
open Varint.Bounded (R BM le32)

/-! ### PFOR arm -/

/-  case VARINT_ADAPTIVE_PFOR: {
        varintPFORMeta pforMeta;
        varintPFORReadMeta(data, &pforMeta);
        if (pforMeta.count > maxCount) {
            decoded = 0;
            break;
        }
        decoded = varintPFORDecode(data, values, &pforMeta);

    varintPFORReadMeta:
        src += varintTaggedGet64(src, &meta->min);
        meta->width = (varintWidth)*src++;
        src += varintTaggedGet64(src, (uint64_t *)&meta->count);     -- count is a uint32_t field
        meta->exceptionMarker = varintPFORCalculateMarker(meta->width);
        const uint8_t *exceptionCountPtr = src + (meta->count * meta->width);
        varintTaggedGet64(exceptionCountPtr, (uint64_t *)&meta->exceptionCount);   -- look-ahead read

    varintPFORDecode:
        if (meta->width == 0) {
            src += varintPFORReadMeta(src, meta);
        } else {
            src += varintTaggedLen(meta->min);  src += 1;  src += varintTaggedLen(meta->count);
        }
        for (uint32_t i = 0; i < meta->count; i++) { ... }           -- PFOR.readSlots
        src += varintTaggedGet64(src, &exceptionCount);
        meta->exceptionCount = (uint32_t)exceptionCount;
        for (uint32_t i = 0; i < meta->exceptionCount; i++) { ... }  -- PFOR.applyExcs
        return (size_t)meta->count;                                                     -/

/-- what `varintPFORDecode` does once the header fields are known; `off` = bytes it skips -/
def pforBody (data : List Nat) (mn w cnt off : Nat) : Option (List Nat) :=
  if cnt > 0 ∧ (w < 1 ∨ w > 8) then none else
  let r2 := data.drop off
  match PFOR.readSlots cnt mn w r2 with
  | none => none
  | some vals =>
    match Tagged.get (r2.drop (cnt * w)) with
    | .ok ec l3 => PFOR.applyExcs (ec % 2 ^ 32) vals (r2.drop (cnt * w + l3))
    | _ => none

def pforArm (data : List Nat) (cap : Nat) : Option (List Nat) :=
  match Tagged.get data with
  | .ok mn l1 =>
    match data.drop l1 with
    | [] => none
    | w :: r1 =>
      match Tagged.get r1 with
      | .ok cnt0 l2 =>
        let cnt := cnt0 % 2 ^ 32
        -- ReadMeta's look-ahead at the exception count, before the capacity test
        match Tagged.get (r1.drop (l2 + cnt * w)) with
        | .ok _ _ =>
          if cnt > cap then some []
          else
            -- width byte 0: Decode reads the header again and skips what it read;
            -- otherwise it skips the canonical lengths of the decoded fields
            pforBody data mn w cnt
              (if w = 0 then l1 + 1 + l2 else Tagged.len mn + 1 + Tagged.len cnt)
        | _ => none
      | _ => none
  | _ => none

/-! ### DICT arm -/

/-  case VARINT_ADAPTIVE_DICT: {
        size_t dictLenBound = SIZE_MAX / 2;
        if (maxCount < (SIZE_MAX / 2 - 10 * 1024 * 1024) / 8) {
            dictLenBound = 9 + ((size_t)1048576 * 9) + 9 + (maxCount * 8);
        }
        decoded = varintDictDecodeInto(data, dictLenBound, values, maxCount);          -/
def dictLenBound (cap : Nat) : Nat :=
  if cap < (2 ^ 63 - 1 - 10 * 1024 * 1024) / 8 then 9 + 1048576 * 9 + 9 + cap * 8 else 2 ^ 63 - 1

/-- the declared length is `dictLenBound`, the memory is `data`: `Bounded.dictDecAux` keeps the two apart -/
def dictArm (data : List Nat) (cap : Nat) : Option (List Nat) :=
  match (Bounded.dictDecAux data (dictLenBound cap) (some cap)).1 with
  | .fault => none
  | .err => some []
  | .ok vs => some vs

/-! ### BITMAP arm -/

/-- `varintBitmapDecode(buffer, len)` where `len` is only DECLARED (`Bounded.bitmapDec` is the case
    `len = bs.length`, see `Lemmas/Adaptive.lean`); same text, same checks, loads outside `bs` are `fault` -/
def bitmapDecN (bs : List Nat) (len : Nat) : R BM :=
  if len < 5 then .err else          -- if (len < 1 + sizeof(uint32_t)) return NULL;  len -= 5;
  match bs with
  | [] => .fault
  | ty :: r0 =>
    match le32 r0 with
    | .fault => .fault
    | .err => .err
    | .ok card =>
      if ty = 0 then
        -- if (vb->cardinality > len / sizeof(uint16_t)) return NULL;
        if card > (len - 5) / 2 then .err else
        match takeExact (2 * card) (r0.drop 4) with
        | none => .fault
        | some p => .ok ⟨0, card, 0, p⟩
      else if ty = 1 then
        -- if (len < VARINT_BITMAP_BITMAP_SIZE) return NULL;
        if len - 5 < Bounded.bitmapBytes then .err else
        match takeExact Bounded.bitmapBytes (r0.drop 4) with
        | none => .fault
        | some p => .ok ⟨1, card, 0, p⟩
      else if ty = 2 then
        -- if (len < sizeof(uint32_t)) return NULL;  ... len -= 4;
        if len - 5 < 4 then .err else
        match le32 (r0.drop 4) with
        | .fault => .fault
        | .err => .err
        | .ok nr =>
          -- if (numRuns > len / (2 * sizeof(uint16_t))) return NULL;
          if nr > (len - 9) / 4 then .err else
          match takeExact (4 * nr) (r0.drop 8) with
          | none => .fault
          | some p => .ok ⟨2, card, nr, p⟩
      else .err

/-- the `uint16_t` view of a byte buffer (little-endian host) -/
def u16le : List Nat → List Nat
  | a :: b :: rest => (a + 256 * b) :: u16le rest
  | _ => []

/-- values a RUNS container iterates over: `it->currentValue = start + offsetInRun` (a `uint16_t`)
    for `offsetInRun < length`, run after run -/
def runValues : List Nat → List Nat
  | st :: ln :: rest => (List.range ln).map (fun o => (st + o) % 65536) ++ runValues rest
  | _ => []

/-- `varintBitmapToArray` on a decoded container (`varintBitmapIteratorNext` until it returns false):
      ARRAY:  `values[position]` for `position < cardinality` — the stored order, no sorting;
      BITMAP: every set bit below 65536, ascending;
      RUNS:   run after run; `it->position = (runIdx + 1) * 65536` is a `uint32_t`, so with 65536 or more
              runs the position wraps to run 0 and the loop never ends: `none` -/
def bmToArray (bm : BM) : Option (List Nat) :=
  if bm.ty = 0 then some ((u16le bm.payload).take bm.card)
  else if bm.ty = 1 then some (Bitmap.members ⟨.bitmap, bm.card, ofLe bm.payload⟩)
  else if bm.runs ≥ 65536 then none
  else some (runValues (u16le bm.payload))

/-  case VARINT_ADAPTIVE_BITMAP: {
        varintBitmap *vb = varintBitmapDecode(data, 1024 * 1024);
        if (vb) {
            const size_t members = varintBitmapCardinality(vb);          -- the header field
            ... shortValues = malloc((members > 0 ? members : 1) * sizeof(uint16_t));
            if (shortValues) {
                uint32_t count = varintBitmapToArray(vb, shortValues);   -- writes EVERY member
                decoded = count < maxCount ? count : maxCount;
                for (size_t i = 0; i < decoded; i++) values[i] = shortValues[i];            -/
def bitmapArm (data : List Nat) (cap : Nat) : Option (List Nat) :=
  match bitmapDecN data (1024 * 1024) with
  | .fault => none
  | .err => some []
  | .ok bm =>
    match bmToArray bm with
    | none => none
    | some vs =>
      -- the scratch array has max(cardinality field, 1) slots; ToArray is not told
      if vs.length > max bm.card 1 then none
      else some (vs.take cap)

/-! ### TAGGED arm and `default:` -/

/-  case VARINT_ADAPTIVE_TAGGED:
    default: {
        size_t offset = 0;  size_t count = 0;
        while (count < maxCount && offset < maxCount * 9) {
            uint64_t value;
            varintWidth width = varintTaggedGet64(data + offset, &value);
            if (width == 0) break;
            values[count++] = value;
            offset += width;
        }
        decoded = count;
    first argument: `maxCount * 9` (a size_t product); second: `maxCount - count`; third: `offset` -/
def decTaggedLoop (lim : Nat) : Nat → Nat → List Nat → Option (List Nat)
  | 0, _, _ => some []
  | n + 1, off, bs =>
    if off < lim then
      match Tagged.get bs with
      | .ok v l => (decTaggedLoop lim n (off + l) (bs.drop l)).map (v :: ·)
      | .short => some []
      | .fault => none
    else some []

/-- `varintAdaptiveDecode(src, values, maxCount, meta)`, every arm -/
def decodeAll (bs : List Nat) (cap : Nat) : Option (List Nat) :=
  match bs with
  | [] => none                                   -- src[0]
  | t :: data =>
    -- varintDeltaDecodeUnsigned(data, maxCount, values); decoded = maxCount;
    if t = DELTA then (Delta.decU cap data).map (·.1)
    -- decoded = varintFORDecode(data, values, maxCount);
    else if t = FOR_ then
      (match FOR.dec data cap with | some (some vs) => some vs | some none => some [] | none => none)
    else if t = PFOR_ then pforArm data cap
    else if t = DICT then dictArm data cap
    else if t = BITMAP then bitmapArm data cap
    else decTaggedLoop (cap * 9 % 2 ^ 64) cap 0 data

end Varint.Adaptive
