import Varint.Model.Tagged
import Varint.Model.Dict
import Varint.Model.Elias
/- C14: the length-taking decoders with an explicit memory-safety semantics.
   The memory a caller hands over is the byte list `bs`, whose length IS the declared size: loading a
   byte at an index ≥ `bs.length` is the distinguished outcome `fault` (never an error return).
   Every function follows the pointer arithmetic and the bounds checks of the C text; the theorems of
   Props/C14 say that `fault` is unreachable, for every byte list. Allocation requests are outputs. -/
namespace Varint.Bounded
open Varint.Tagged (GetR)

inductive R (α : Type) where
  | fault           -- a load at or beyond the declared size
  | err             -- the documented failure indication (0 / NULL)
  | ok (a : α)
  deriving Repr, DecidableEq

def int32Max : Nat := 2147483647

/-- `taggedGetBounded(ptr, end, &v)` of varintDict.c = `varintTaggedGet(ptr, min(end - ptr, INT32_MAX), &v)`;
    `bs` = the bytes from `ptr` up to `end`, `rem` = `end - ptr` (carried along so that the executable model
    does not recount the list; the theorems assume `rem = bs.length`, which `dictDec` establishes) -/
def tgetB (bs : List Nat) (rem : Nat) : GetR := Tagged.getN bs ((min rem int32Max : Nat) : Int)

/-- the dictionary-entry loop: `dictSize` bounded tagged reads, each followed by `w == 0 || ptr + w > end` -/
def readEntries : Nat → List Nat → Nat → R (List Nat × List Nat × Nat)
  | 0, bs, rem => .ok ([], bs, rem)
  | k + 1, bs, rem =>
    match tgetB bs rem with
    | .fault => .fault
    | .short => .err
    | .ok v w =>
      if w > rem then .err else
      match readEntries k (bs.drop w) (rem - w) with
      | .fault => .fault
      | .err => .err
      | .ok (vs, r, rr) => .ok (v :: vs, r, rr)

/-- the index loop: `varintExternalGetQuick_(ptr, indexWidth, index)`, `index >= dictSize` → failure -/
def decIdx (d : Array Nat) (dsz w : Nat) : Nat → List Nat → R (List Nat)
  | 0, _ => .ok []
  | k + 1, bs =>
    match takeExact w bs with
    | none => .fault
    | some p =>
      if ofLe p ≥ dsz then .err else
      match decIdx d dsz w k (bs.drop w) with
      | .fault => .fault
      | .err => .err
      | .ok vs => .ok (d.getD (ofLe p) 0 :: vs)

/-- `count > maxValues` (DecodeInto only) -/
def overCap (cap : Option Nat) (cnt : Nat) : Bool :=
  match cap with
  | some c => decide (cnt > c)
  | none => false

/-- malloc sizes of a call that reached the index loop: the dictionary, and for `varintDictDecode` the output -/
def allocsOf (cap : Option Nat) (dsz cnt : Nat) : List Nat :=
  match cap with
  | none => [8 * dsz, 8 * cnt]
  | some _ => [8 * dsz]

/-- body of both decoders; `rem` = `bufferLen` -/
def dictDecAux (bs : List Nat) (rem : Nat) (cap : Option Nat) : R (List Nat) × List Nat :=
  if rem = 0 ∨ cap = some 0 then (.err, []) else
  match tgetB bs rem with
  | .fault => (.fault, [])
  | .short => (.err, [])
  | .ok dsz w =>
    if w > rem then (.err, []) else
    if dsz > Dict.maxDict then (.err, []) else
    match readEntries dsz (bs.drop w) (rem - w) with
    | .fault => (.fault, [8 * dsz])
    | .err => (.err, [8 * dsz])
    | .ok (d, r1, rem1) =>
      match tgetB r1 rem1 with
      | .fault => (.fault, [8 * dsz])
      | .short => (.err, [8 * dsz])
      | .ok cnt w2 =>
        if w2 > rem1 then (.err, [8 * dsz]) else
        if overCap cap cnt then (.err, [8 * dsz]) else
        if cnt > (rem1 - w2) / Dict.indexWidth dsz then (.err, [8 * dsz]) else
        (decIdx d.toArray dsz (Dict.indexWidth dsz) cnt (r1.drop w2), allocsOf cap dsz cnt)

/-- `varintDictDecode` (`cap = none`, allocates its output) and `varintDictDecodeInto`
    (`cap = some maxValues`): result and the sizes passed to malloc, in order. -/
def dictDec (bs : List Nat) (cap : Option Nat) : R (List Nat) × List Nat := dictDecAux bs bs.length cap

/-- the 32-bit little-endian field at the head of `bs` -/
def le32 (bs : List Nat) : R Nat :=
  match takeExact 4 bs with
  | none => .fault
  | some p => .ok (ofLe p)

/-- decoded container as stored: (type, cardinality, numRuns, payload bytes) -/
structure BM where
  ty : Nat
  card : Nat
  runs : Nat
  payload : List Nat
  deriving Repr, DecidableEq

def bitmapBytes : Nat := 8192

/-- `varintBitmapDecode(buffer, len)` as repaired; second component = malloc sizes in order
    (24 = sizeof(varintBitmap)) -/
def bitmapDec (bs : List Nat) : R BM × List Nat :=
  if bs.length < 5 then (.err, []) else
  match bs with
  | [] => (.fault, [24])
  | ty :: r0 =>
    match le32 r0 with
    | .fault => (.fault, [24])
    | .err => (.err, [24])
    | .ok card =>
      if ty = 0 then
        if card > (r0.drop 4).length / 2 then (.err, [24]) else
        match takeExact (2 * card) (r0.drop 4) with
        | none => (.fault, [24, 2 * card])
        | some p => (.ok ⟨0, card, 0, p⟩, [24, 2 * card])
      else if ty = 1 then
        if (r0.drop 4).length < bitmapBytes then (.err, [24]) else
        match takeExact bitmapBytes (r0.drop 4) with
        | none => (.fault, [24, bitmapBytes])
        | some p => (.ok ⟨1, card, 0, p⟩, [24, bitmapBytes])
      else if ty = 2 then
        if (r0.drop 4).length < 4 then (.err, [24]) else
        match le32 (r0.drop 4) with
        | .fault => (.fault, [24])
        | .err => (.err, [24])
        | .ok nr =>
          if nr > (r0.drop 8).length / 4 then (.err, [24]) else
          match takeExact (4 * nr) (r0.drop 8) with
          | none => (.fault, [24, 4 * nr])
          | some p => (.ok ⟨2, card, nr, p⟩, [24, 4 * nr])
      else (.err, [24])

/-- `varintRLEGetRunCount(src, encodedSize)`: `rem` = `end - ptr`; fuel = number of bytes (every counted run
    consumes ≥ 2) -/
def runCountAux : Nat → List Nat → Nat → R Nat
  | 0, _, _ => .ok 0
  | fuel + 1, bs, rem =>
    if rem = 0 then .ok 0 else
    match Tagged.getN bs ((min rem int32Max : Nat) : Int) with
    | .fault => .fault
    | .short => .ok 0
    | .ok runLen w1 =>
      match Tagged.getN (bs.drop w1) (((min rem int32Max : Nat) : Int) - (w1 : Int)) with
      | .fault => .fault
      | .short => .ok 0
      | .ok _ w2 =>
        if runLen = 0 then .ok 0 else
        match runCountAux fuel (bs.drop (w1 + w2)) (rem - (w1 + w2)) with
        | .fault => .fault
        | .err => .err
        | .ok r => .ok (r + 1)

def runCount (bs : List Nat) : R Nat := runCountAux (bs.length + 1) bs bs.length

end Varint.Bounded
