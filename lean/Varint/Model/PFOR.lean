import Varint.Model.Bytes
import Varint.Model.Tagged
/- Model of src/varintPFOR.c (as repaired: width from range+1 so that the all-ones marker is never
   a regular offset; size predictor bounds every exception index by count-1). -/
namespace Varint.PFOR

structure Meta where
  min : Nat
  marker : Nat
  thresholdValue : Nat
  width : Nat
  count : Nat
  exceptionCount : Nat
  threshold : Nat
  deriving Repr, DecidableEq

/-- `varintPFORCalculateMarker` -/
def marker (w : Nat) : Nat := if w ≥ 8 then 2 ^ 64 - 1 else 2 ^ (8 * w) - 1

/-- `varintPFORComputeThreshold` for count > 0 (as repaired: the percentile index is a 64-bit product) -/
def compute (xs : List Nat) (t : Nat) : Meta :=
  let sorted := xs.mergeSort (· ≤ ·)
  let n := xs.length
  let idx0 := (n * t) / 100          -- as repaired: a 64-bit product (count and threshold are 32-bit)
  let idx := if idx0 ≥ n then n - 1 else idx0
  let mn := sorted.headD 0
  let thr := sorted.getD idx 0
  let range := thr - mn
  let w := if range < 2 ^ 64 - 1 then extLen (range + 1) else 8
  { min := mn, marker := marker w, thresholdValue := thr, width := w, count := n,
    exceptionCount := (xs.filter (· > thr)).length, threshold := t }

/-- `varintPFORSize` -/
def size (m : Meta) : Nat :=
  Tagged.len m.min + 1 + Tagged.len m.count + m.count * m.width + Tagged.len m.exceptionCount +
    m.exceptionCount * (Tagged.len (m.count - 1) + 9)

def slots (m : Meta) : List Nat → List Nat
  | [] => []
  | x :: xs => (if x > m.thresholdValue then leBytes m.width m.marker else leBytes m.width (x - m.min)) ++ slots m xs

def excs (m : Meta) : Nat → List Nat → List Nat
  | _, [] => []
  | i, x :: xs => (if x > m.thresholdValue then Tagged.enc i ++ Tagged.enc x else []) ++ excs m (i + 1) xs

/-- `varintPFOREncode` (count > 0) -/
def enc (xs : List Nat) (t : Nat) : List Nat :=
  let m := compute xs t
  Tagged.enc m.min ++ [m.width] ++ Tagged.enc m.count ++ slots m xs ++ Tagged.enc m.exceptionCount ++ excs m 0 xs

def readSlots : Nat → Nat → Nat → List Nat → Option (List Nat)
  | 0, _, _, _ => some []
  | n + 1, mn, w, bs =>
    match takeExact w bs with
    | none => none
    | some p =>
      let off := ofLe p
      (readSlots n mn w (bs.drop w)).map fun vs =>
        (if off = marker w then 2 ^ 64 - 1 else (mn + off) % 2 ^ 64) :: vs

def applyExcs : Nat → List Nat → List Nat → Option (List Nat)
  | 0, vals, _ => some vals
  | k + 1, vals, bs =>
    match Tagged.get bs with
    | .ok idx l1 =>
      match Tagged.get (bs.drop l1) with
      | .ok v l2 => applyExcs k (if idx < vals.length then vals.set idx v else vals) (bs.drop (l1 + l2))
      | _ => none
    | _ => none

/-- `varintPFORDecode` with meta->width == 0 on entry (read from the stream) -/
def dec (bs : List Nat) : Option (List Nat) :=
  match Tagged.get bs with
  | .ok mn l1 =>
    match bs.drop l1 with
    | [] => none
    | w :: r1 =>
      match Tagged.get r1 with
      | .ok cnt l2 =>
        let cnt := cnt % 2 ^ 32
        if cnt > 0 ∧ (w < 1 ∨ w > 8) then none else
        let r2 := r1.drop l2
        match readSlots cnt mn w r2 with
        | none => none
        | some vals =>
          match Tagged.get (r2.drop (cnt * w)) with
          | .ok ec l3 => applyExcs (ec % 2 ^ 32) vals (r2.drop (cnt * w + l3))
          | _ => none
      | _ => none
  | _ => none

end Varint.PFOR
