import Varint.Model.Float
/-
  Array-level model of `varintFloatDecode` (src/varintFloat.c lines 404-594).
  `decFull bs count` = (decoded 64-bit patterns in order, bytes left after the consumed prefix);
  `none` = the C returns 0, reads outside the buffer, or leaves its contract (width byte outside
  1..8 handed to `varintExternalGet`, a shift by more than 63 in `unpackBits`).
  The buffer is a list of bytes (`< 256` each, as in every model here). malloc is assumed to succeed.
-/
namespace Varint.Float
open Varint.Bits

/-- `(int16_t)x` -/
def toI16 (i : Int) : Int := (i + 2 ^ 15) % 2 ^ 16 - 2 ^ 15

/-- the bit string of a byte buffer, bit 0 of byte 0 first. `unpackBits` (lines 167-188) reads
    `input[byte_offset + (bit + bit_in_byte) / 8] & (1 << ((bit + bit_in_byte) % 8))`, i.e. element
    `bit_offset + bit` of this list. -/
def bitsOf (bytes : List Nat) : List Bool := bytes.flatMap (lsb 8)

/-- `unpackBits(input, n, bw, out)` on the bit string: `n` values of `bw` bits, LSB first
    (`if (bit set) value |= (1ULL << bit)`; `bit_offset += bits_per_value`) -/
def unpackBits (bw : Nat) : Nat → List Bool → List Nat
  | 0, _ => []
  | n + 1, bits => ofLsb (bits.take bw) :: unpackBits bw n (bits.drop bw)

/-- `(int16_t)varintDeltaZigZagDecode(zigzag)` -/
def expOfZz (z : Nat) : Int := toI16 (toI64 (Delta.unzz z))

/-- mode 0, lines 452-460:
      for i: if (!special_flags[i]) { width = *p++; zigzag = varintExternalGet(p, width);
                                      exponents[i] = (int16_t)varintDeltaZigZagDecode(zigzag); p += width; }
    result: exponents of the normal values in order, remaining bytes -/
def readIndep : List Bool → List Nat → Option (List Int × List Nat)
  | [], bs => some ([], bs)
  | true :: fs, bs => readIndep fs bs
  | false :: fs, bs =>
    match Delta.getField bs with
    | none => none
    | some (z, r) =>
      match readIndep fs r with
      | none => none
      | some (es, r') => some (expOfZz z :: es, r')

/-- mode 1 inner loop, lines 478-483:
      for i: if (!special_flags[i]) { const uint8_t delta = *p++; exponents[i] = base_exp + delta; }
    (`exponents` is int16_t: the sum is truncated) -/
def readCommon (base : Int) : List Bool → List Nat → Option (List Int × List Nat)
  | [], bs => some ([], bs)
  | true :: fs, bs => readCommon base fs bs
  | false :: fs, bs =>
    match bs with
    | [] => none
    | d :: r =>
      match readCommon base fs r with
      | none => none
      | some (es, r') => some (toI16 (base + d) :: es, r')

/-- mode 2, lines 486-513. `prev = none` until the first normal value has been seen
    (`while (first_normal < count && special_flags[first_normal]) first_normal++`);
    first: `exponents[first_normal] = (int16_t)varintDeltaZigZagDecode(zigzag)`;
    then:  `delta = (int16_t)varintDeltaZigZagDecode(delta_zigzag); exponents[i] = prev_exp + delta;
            prev_exp = exponents[i];` -/
def readDelta : Option Int → List Bool → List Nat → Option (List Int × List Nat)
  | _, [], bs => some ([], bs)
  | prev, true :: fs, bs => readDelta prev fs bs
  | prev, false :: fs, bs =>
    match Delta.getField bs with
    | none => none
    | some (z, r) =>
      let e := match prev with
        | none => expOfZz z
        | some pe => toI16 (pe + expOfZz z)
      match readDelta (some e) fs r with
      | none => none
      | some (es, r') => some (e :: es, r')

/-- lines 451-514: the exponent section according to the header's mode byte
    (`if (mode == INDEPENDENT) … else if (mode == COMMON_EXPONENT) … else /* DELTA */`) -/
def readExps (mode : Nat) (flags : List Bool) (bs : List Nat) : Option (List Int × List Nat) :=
  if mode = 0 then readIndep flags bs
  else if mode = 1 then
    -- `if (normal_exp_count > 0) { width = *p++; zigzag = Get(p, width); base_exp = (int16_t)…; p += width; … }`
    if flags.all id then some ([], bs)
    else
      match Delta.getField bs with
      | none => none
      | some (z, r) => readCommon (expOfZz z) flags r
  else readDelta none flags bs

/-- lines 567-578: `if (special_flags[i]) { memcpy(&bits.u, p, 8); output[i] = bits.d; p += 8; }` -/
def readSpecials : List Bool → List Nat → Option (List Nat × List Nat)
  | [], bs => some ([], bs)
  | false :: fs, bs => readSpecials fs bs
  | true :: fs, bs =>
    match takeExact 8 bs with
    | none => none
    | some raw =>
      match readSpecials fs (bs.drop 8) with
      | none => none
      | some (vs, r') => some (ofLe raw :: vs, r')

/-- lines 550-562 and 580-586: walk the indices in order; a special index takes the next verbatim
    value, a normal index takes the next exponent and packed mantissa and its own sign bit:
      mantissas[i] = mant_bits == 52 ? packed[mant_idx++] | (1ULL << 52)
                                     : expandMantissa(packed[mant_idx++], mant_bits, 53);
      output[i] = varintFloatCompose(signs[i], exponents[i], mantissas[i]);
    `compose` is the model of exactly these two steps (for a packed field `< 2^mant_bits`,
    `mant_bits ≤ 64`: `t | 2^52 = t + 2^52` at 52 bits, `t << (53 - mant_bits)` below, `t` unchanged above). -/
def assemble (mb : Nat) : List Bool → List Bool → List Int → List Nat → List Nat → List Nat
  | [], _, _, _, _ => []
  | true :: fs, ss, es, ms, sps => sps.headD 0 :: assemble mb fs ss.tail es ms sps.tail
  | false :: fs, ss, es, ms, sps =>
    compose mb (if ss.headD false then 1 else 0) (es.headD 0) (ms.headD 0)
      :: assemble mb fs ss.tail es.tail ms.tail sps

/-- `varintFloatDecode(input, count, output)`: decoded values and the unread rest of the buffer
    (the C return value is `input length - rest length`) -/
def decFull (bs : List Nat) (count : Nat) : Option (List Nat × List Nat) :=
  -- `if (count == 0) return 0;`
  if count = 0 then none else
  -- `precision = *p++; exp_bits = *p++; mant_bits = *p++; mode = *p++;` (precision, exp_bits unused)
  match bs with
  | _prec :: _eb :: mb :: mode :: r0 =>
    -- `if (size_mul_overflow(count, sizeof(uint64_t), &allocSize1) || …) return 0;`
    if count * 8 ≥ 2 ^ 64 then none else
    -- `special_bitmap_size = (count + 7) / 8; unpackBits(p, count, 1, special_flags); p += special_bitmap_size;`
    match takeExact ((count + 7) / 8) r0 with
    | none => none
    | some fb =>
    let flags := (bitsOf fb).take count
    let r1 := r0.drop ((count + 7) / 8)
    -- `unpackBits(p, count, 1, signs); p += (count + 7) / 8;`
    match takeExact ((count + 7) / 8) r1 with
    | none => none
    | some sb =>
    let signs := (bitsOf sb).take count
    let r2 := r1.drop ((count + 7) / 8)
    -- exponents per mode
    match readExps mode flags r2 with
    | none => none
    | some (exps, r3) =>
    -- `normal_count` = number of clear flags
    let nn := (flags.filter (! ·)).length
    -- `unpackBits(p, normal_count, mant_bits, packed_mantissas)` shifts `1ULL << bit`, bit < mant_bits
    if nn > 0 ∧ mb > 64 then none else
    -- `p += (normal_count * mant_bits + 7) / 8;`
    match takeExact ((nn * mb + 7) / 8) r3 with
    | none => none
    | some mbytes =>
    let mants := unpackBits mb nn (bitsOf mbytes)
    let r4 := r3.drop ((nn * mb + 7) / 8)
    match readSpecials flags r4 with
    | none => none
    | some (sps, r5) => some (assemble mb flags signs exps mants sps, r5)
  | _ => none

def dec (bs : List Nat) (count : Nat) : Option (List Nat) := (decFull bs count).map (·.1)

end Varint.Float
