import Varint.Model.Bytes
import Varint.Model.Tagged
/- Model of src/varintDict.c: tagged(dictSize) ++ tagged entries (sorted, unique) ++ tagged(count)
   ++ count × LE(indexWidth) indices. -/
namespace Varint.Dict

/-- drop adjacent duplicates of a sorted list -/
def dedupAdj : List Nat → List Nat
  | [] => []
  | [x] => [x]
  | x :: y :: rest => if x = y then dedupAdj (y :: rest) else x :: dedupAdj (y :: rest)

/-- `varintDictBuild`: sorted unique values -/
def build (xs : List Nat) : List Nat := dedupAdj (xs.mergeSort (· ≤ ·))

def indexWidth (dictSize : Nat) : Nat := if dictSize = 0 then 1 else extLen (dictSize - 1)

/-- the C's `binarySearch` over the sorted dictionary: [lo, hi) window, fuel = window size -/
def bsearch (d : Array Nat) (target : Nat) : Nat → Nat → Nat → Option Nat
  | 0, _, _ => none
  | fuel + 1, lo, hi =>
    if lo ≥ hi then none else
    let mid := lo + (hi - 1 - lo) / 2
    let v := d.getD mid 0
    if v = target then some mid
    else if v < target then bsearch d target fuel (mid + 1) hi
    else bsearch d target fuel lo mid

/-- lookup in an already converted array (so that the compiled encoder converts the dictionary once) -/
def findA (a : Array Nat) (n : Nat) (x : Nat) : Option Nat := bsearch a x (n + 1) 0 n

def find (d : List Nat) (x : Nat) : Option Nat := findA d.toArray d.length x

def maxDict : Nat := 1048576

/-- `varintDictEncode`; `[]` = returns 0 -/
def enc (xs : List Nat) : List Nat :=
  if xs = [] then [] else
  let d := build xs
  -- as repaired: varintDictBuild fails above VARINT_DICT_MAX_SIZE entries (the decoders refuse them)
  if d.length > maxDict then [] else
  let w := indexWidth d.length
  let a := d.toArray
  match xs.mapM (findA a d.length) with
  | none => []
  | some idx =>
    Tagged.enc d.length ++ d.flatMap Tagged.enc ++ Tagged.enc xs.length ++ idx.flatMap (leBytes w)

/-- `varintDictEncodedSize` -/
def size (xs : List Nat) : Nat :=
  if xs = [] then 0 else
  let d := build xs
  if d.length > maxDict then 0 else
  Tagged.len d.length + (d.map Tagged.len).sum + Tagged.len xs.length + xs.length * indexWidth d.length

/-- bounded tagged read as the repaired decoders do it: `varintTaggedGet(ptr, remaining, …)` -/
def getB (bs : List Nat) : Option (Nat × Nat) :=
  match Tagged.getN bs (min bs.length (2 ^ 31 - 1)) with
  | .ok v l => some (v, l)
  | _ => none

def readEntries : Nat → List Nat → Option (List Nat × List Nat)
  | 0, bs => some ([], bs)
  | n + 1, bs =>
    match getB bs with
    | none => none
    | some (v, l) => (readEntries n (bs.drop l)).map fun (vs, r) => (v :: vs, r)

def readIdx : Nat → Nat → List Nat → Option (List Nat)
  | 0, _, _ => some []
  | n + 1, w, bs =>
    match takeExact w bs with
    | none => none
    | some p => (readIdx n w (bs.drop w)).map (ofLe p :: ·)

/-- `varintDictDecodeInto(buffer, bufferLen, output, maxValues)`; `bs` is exactly the declared
    buffer. `none` = returns 0 / NULL. `capOpt = none` models `varintDictDecode` (allocating). -/
def dec (bs : List Nat) (capOpt : Option Nat) : Option (List Nat) :=
  if bs = [] ∨ capOpt = some 0 then none else
  match getB bs with
  | none => none
  | some (dsz, l1) =>
    if dsz > maxDict then none else
    match readEntries dsz (bs.drop l1) with
    | none => none
    | some (d, r1) =>
      match getB r1 with
      | none => none
      | some (cnt, l2) =>
        let r2 := r1.drop l2
        if (match capOpt with | some c => decide (cnt > c) | none => false) then none else
        let w := indexWidth dsz
        if cnt > r2.length / w then none else
        match readIdx cnt w r2 with
        | none => none
        | some idx => idx.mapM fun i => if i < dsz then d[i]? else none

end Varint.Dict
