/-
  C17 — an abstract machine for concurrent calls of pure codecs.
  A thread is a deterministic step function over (its local state, memory); `foot` is everything it may read
  (shared read-only inputs and its own buffers), `owns` what it may write. A schedule is any list of thread
  numbers: one entry = one atomic memory step of that thread (sequential consistency).
-/
namespace Varint.Sched

abbrev Mem := Nat → Nat

structure Thr (σ : Type) where
  step : σ → Mem → σ × Option (Nat × Nat)
  foot : Nat → Prop
  owns : Nat → Prop
  owns_foot : ∀ a, owns a → foot a
  /-- the step looks at nothing outside its footprint -/
  reads_foot : ∀ s m m', (∀ a, foot a → m a = m' a) → step s m = step s m'
  /-- … and writes only what it owns -/
  writes_owned : ∀ s m s' a v, step s m = (s', some (a, v)) → owns a

def write (m : Mem) : Option (Nat × Nat) → Mem
  | none => m
  | some (a, v) => fun x => if x = a then v else m x

structure Cfg (σ : Type) where
  loc : Nat → σ
  mem : Mem

variable {σ : Type}

/-- one step of thread `t` -/
def stepT (T : Nat → Thr σ) (c : Cfg σ) (t : Nat) : Cfg σ :=
  ⟨fun u => if u = t then ((T t).step (c.loc t) c.mem).1 else c.loc u, write c.mem ((T t).step (c.loc t) c.mem).2⟩

/-- an arbitrary interleaving -/
def run (T : Nat → Thr σ) (c : Cfg σ) : List Nat → Cfg σ
  | [] => c
  | t :: s => run T (stepT T c t) s

/-- thread `t` running alone for `n` steps -/
def solo (T : Nat → Thr σ) (c : Cfg σ) (t : Nat) : Nat → Cfg σ
  | 0 => c
  | n + 1 => solo T (stepT T c t) t n

/-- disjoint outputs, shared inputs: nobody's writable region is inside anybody else's footprint -/
def Independent (T : Nat → Thr σ) : Prop := ∀ t u, t ≠ u → ∀ a, (T u).owns a → ¬ (T t).foot a

/-- two configurations look the same to thread `t` -/
def Agree (T : Nat → Thr σ) (t : Nat) (c c' : Cfg σ) : Prop :=
  c.loc t = c'.loc t ∧ ∀ a, (T t).foot a → c.mem a = c'.mem a

end Varint.Sched
