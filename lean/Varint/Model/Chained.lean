import Varint.Model.Bytes
/-
  Model of src/varintChained.c (sqlite3 varint: big-endian 7-bit groups, full 9th byte)
  and src/varintChainedSimple.c (LEB128 capped at nine bytes).
-/
namespace Varint.Chained

/-- `n` big-endian 7-bit groups of `v`; every group but the last carries the 0x80 flag. -/
def groups : Nat → Nat → List Nat
  | 0, _ => []
  | 1, v => [v % 128]
  | k + 2, v => (v / 128 ^ (k + 1) % 128 + 128) :: groups (k + 1) v

/-- eight flagged groups (the prefix of the 9-byte form) -/
def flagged : Nat → Nat → List Nat
  | 0, _ => []
  | k + 1, v => (v / 128 ^ k % 128 + 128) :: flagged k v

/-- `varintChainedVarintLen` -/
def len (v : Nat) : Nat := if len7 v > 9 then 9 else len7 v

/-- `varintChainedPutVarint` (and `putVarint64`) -/
def enc (v : Nat) : List Nat :=
  if v / 2 ^ 56 % 256 ≠ 0 then flagged 8 (v / 256) ++ [v % 256]
  else groups (len7 v) v

/-- Reader, stated on the format: accumulate 7-bit groups until a byte without the flag,
    the ninth byte contributing eight bits. `i` = bytes consumed so far.
    (The C is the hand-unrolled sqlite3 routine; agreement on every path is the
    correspondence check's job.)  `none` = read past the buffer. -/
def decAux : Nat → Nat → Nat → List Nat → Option (Nat × Nat)
  | 0, _, _, _ => none
  | _, _, _, [] => none
  | fuel + 1, i, acc, b :: bs =>
    if i = 8 then some (acc * 256 + b, 9)
    else if b < 128 then some (acc * 128 + b, i + 1)
    else decAux fuel (i + 1) (acc * 128 + (b - 128)) bs

/-- `varintChainedGetVarint` → (value, length) -/
def dec (bs : List Nat) : Option (Nat × Nat) := decAux 9 0 0 bs

/-- `varintChainedGetVarint32` (through the `varintChained_getVarint32` macro):
    saturates at 0xffffffff -/
def dec32 (bs : List Nat) : Option (Nat × Nat) :=
  (dec bs).map fun (v, l) => (if v ≥ 2 ^ 32 then 2 ^ 32 - 1 else v, l)

end Varint.Chained

namespace Varint.ChainedSimple

/-- `varintChainedSimpleEncode64`: `i` = bytes already written -/
def encAux : Nat → Nat → Nat → List Nat
  | 0, _, v => [v % 256]
  | fuel + 1, i, v =>
    if v ≥ 128 ∧ i < 8 then (v % 128 + 128) :: encAux fuel (i + 1) (v / 128)
    else [v % 256]

def enc (v : Nat) : List Nat := encAux 9 0 v

/-- `varintChainedSimpleLength` -/
def len (v : Nat) : Nat := if len7 v > 9 then 9 else len7 v

/-- `varintChainedSimpleDecode64`: `i` bytes consumed, `acc` so far; shifts stay below 64
    so no wrap occurs: byte `i` contributes at bit `7*i`. -/
def decAux : Nat → Nat → Nat → List Nat → Option (Nat × Nat)
  | 0, _, _, _ => none
  | _, _, _, [] => none
  | fuel + 1, i, acc, b :: bs =>
    if b ≥ 128 ∧ i < 8 then decAux fuel (i + 1) (acc + (b % 128) * 2 ^ (7 * i)) bs
    else some (acc + b * 2 ^ (7 * i), i + 1)

def dec (bs : List Nat) : Option (Nat × Nat) := decAux 10 0 0 bs

/-- `varintChainedSimpleEncode32` (unrolled 1–5 bytes) -/
def enc32 (v : Nat) : List Nat :=
  if v < 2 ^ 7 then [v]
  else if v < 2 ^ 14 then [v % 128 + 128, v / 2 ^ 7]
  else if v < 2 ^ 21 then [v % 128 + 128, v / 2 ^ 7 % 128 + 128, v / 2 ^ 14]
  else if v < 2 ^ 28 then [v % 128 + 128, v / 2 ^ 7 % 128 + 128, v / 2 ^ 14 % 128 + 128, v / 2 ^ 21]
  else [v % 128 + 128, v / 2 ^ 7 % 128 + 128, v / 2 ^ 14 % 128 + 128, v / 2 ^ 21 % 128 + 128, v / 2 ^ 28]

/-- `varintChainedSimpleDecode32` -/
def dec32 (bs : List Nat) : Option (Nat × Nat) :=
  (dec bs).map fun (v, l) => (v % 2 ^ 32, l)

end Varint.ChainedSimple
