import Varint.Model.Bytes
/-
  Model of the four "split" families (all macros):
    src/varintSplit.h, varintSplitFull.h, varintSplitFullNoZero.h, varintSplitFull16.h
  An *embedded* level stores `u = v - sub` as  (tag | u >> 8k) :: big-endian k low bytes;
  the *var* level stores `u = v - varSub` as (varTag | w) :: little-endian w bytes
  with w = max (extLen u) minW.
-/
namespace Varint.Split

/-- embedded level: `k` extra bytes, 6 value bits in the tag byte -/
def encLevel (tag k sub v : Nat) : List Nat :=
  let u := v - sub
  (tag + u / 256 ^ k % 64) :: beBytes k u

/-- var level -/
def encVar (varTag varSub minW v : Nat) : List Nat :=
  let u := v - varSub
  let w := if extLen u < minW then minW else extLen u
  (varTag + w) :: leBytes w u

def lenVar (varSub minW v : Nat) : Nat :=
  let u := v - varSub
  1 + (if extLen u < minW then minW else extLen u)

/-- decode of an embedded level given first byte and the rest -/
def decLevel (k sub b0 : Nat) (rest : List Nat) : Option (Nat × Nat) :=
  (takeExact k rest).map fun p => ((b0 % 64 * 256 ^ k + ofBe p + sub) % 2 ^ 64, 1 + k)

def decVar (varSub w : Nat) (rest : List Nat) : Option (Nat × Nat) :=
  (takeExact w rest).map fun p => ((ofLe p + varSub) % 2 ^ 64, 1 + w)

/-- reversed layouts: payload first (little-endian), type byte LAST -/
def encLevelRev (tag k sub v : Nat) : List Nat :=
  let u := v - sub
  leBytes k u ++ [tag + u / 256 ^ k % 64]

def encVarRev (varTag varSub minW v : Nat) : List Nat :=
  let u := v - varSub
  let w := if extLen u < minW then minW else extLen u
  leBytes w u ++ [varTag + w]

/-- reversed decode; `r` = the bytes *before* the type byte, nearest first -/
def decVarRev (varSub w : Nat) (r : List Nat) : Option (Nat × Nat) :=
  (takeExact w r).map fun p => ((ofBe p + varSub) % 2 ^ 64, 1 + w)

/-! ### varintSplit (00 / 01 / 10-var; 11 reserved for the user) -/
namespace S
def max6 := 63
def max14 := 16446
def enc (v : Nat) : List Nat :=
  if v ≤ 63 then encLevel 0 0 0 v
  else if v ≤ 16446 then encLevel 64 1 63 v
  else encVar 128 16446 1 v
def len (v : Nat) : Nat :=
  if v ≤ 63 then 1 else if v ≤ 16446 then 2 else lenVar 16446 1 v
/-- `varintSplitGetLenQuick_` on the type byte -/
def getLenQuick (b0 : Nat) : Nat :=
  1 + (if 128 ≤ b0 ∧ b0 < 192 then b0 % 64 else b0 / 64)
/-- `varintSplitGetLen_` (switch form; 0 for the reserved prefix 11) -/
def getLen (b0 : Nat) : Nat :=
  if b0 < 64 then 1 else if b0 < 128 then 2 else if b0 < 192 then 1 + b0 % 64 else 0
/-- `varintSplitGet_` → (value, length); the reserved prefix gives (0,0) -/
def dec (bs : List Nat) : Option (Nat × Nat) :=
  match bs with
  | [] => none
  | b0 :: rest =>
    if b0 < 64 then decLevel 0 0 b0 rest
    else if b0 < 128 then decLevel 1 63 b0 rest
    else if b0 < 192 then decVar 16446 (b0 % 64) rest
    else some (0, 0)
def encRev (v : Nat) : List Nat :=
  if v ≤ 63 then encLevelRev 0 0 0 v
  else if v ≤ 16446 then encLevelRev 64 1 63 v
  else encVarRev 128 16446 1 v
/-- `varintSplitReversedGet_`: `bs` ends with the type byte -/
def decRev (bs : List Nat) : Option (Nat × Nat) :=
  match bs.reverse with
  | [] => none
  | b0 :: r =>
    if b0 < 64 then decLevel 0 0 b0 r
    else if b0 < 128 then decLevel 1 63 b0 r
    else if b0 < 192 then decVarRev 16446 (b0 % 64) r
    else some (0, 0)
end S

/-! ### varintSplitFull (00 / 01 / 10 embedded, 11 var; never-shrink ⇒ minW = 2) -/
namespace F
def max6 := 63
def max14 := 16446
def max22 := 4210749
def enc (v : Nat) : List Nat :=
  if v ≤ 63 then encLevel 0 0 0 v
  else if v ≤ 16446 then encLevel 64 1 63 v
  else if v ≤ 4210749 then encLevel 128 2 16446 v
  else encVar 192 4210749 2 v
def len (v : Nat) : Nat :=
  if v ≤ 63 then 1 else if v ≤ 16446 then 2 else if v ≤ 4210749 then 3 else lenVar 4210749 2 v
def getLenQuick (b0 : Nat) : Nat :=
  1 + (if 192 ≤ b0 then b0 % 16 else b0 / 64)
def getLen (b0 : Nat) : Nat :=
  if b0 < 64 then 1 else if b0 < 128 then 2 else if b0 < 192 then 3 else 1 + b0 % 16
def dec (bs : List Nat) : Option (Nat × Nat) :=
  match bs with
  | [] => none
  | b0 :: rest =>
    if b0 < 64 then decLevel 0 0 b0 rest
    else if b0 < 128 then decLevel 1 63 b0 rest
    else if b0 < 192 then decLevel 2 16446 b0 rest
    else decVar 4210749 (b0 % 16) rest
def encRev (v : Nat) : List Nat :=
  if v ≤ 63 then encLevelRev 0 0 0 v
  else if v ≤ 16446 then encLevelRev 64 1 63 v
  else if v ≤ 4210749 then encLevelRev 128 2 16446 v
  else encVarRev 192 4210749 2 v
def decRev (bs : List Nat) : Option (Nat × Nat) :=
  match bs.reverse with
  | [] => none
  | b0 :: r =>
    if b0 < 64 then decLevel 0 0 b0 r
    else if b0 < 128 then decLevel 1 63 b0 r
    else if b0 < 192 then decLevel 2 16446 b0 r
    else decVarRev 4210749 (b0 % 16) r
end F

/-! ### varintSplitFullNoZero (values ≥ 1; first level stores v-1) -/
namespace NZ
def max6 := 64
def max14 := 16447
def max22 := 4210750
def enc (v : Nat) : List Nat :=
  if v ≤ 64 then encLevel 0 0 1 v
  else if v ≤ 16447 then encLevel 64 1 64 v
  else if v ≤ 4210750 then encLevel 128 2 16447 v
  else encVar 192 4210750 2 v
def len (v : Nat) : Nat :=
  if v ≤ 64 then 1 else if v ≤ 16447 then 2 else if v ≤ 4210750 then 3 else lenVar 4210750 2 v
def getLenQuick (b0 : Nat) : Nat :=
  1 + (if 192 ≤ b0 then b0 % 16 else b0 / 64)
def getLen (b0 : Nat) : Nat :=
  if b0 < 64 then 1 else if b0 < 128 then 2 else if b0 < 192 then 3 else 1 + b0 % 16
def dec (bs : List Nat) : Option (Nat × Nat) :=
  match bs with
  | [] => none
  | b0 :: rest =>
    if b0 < 64 then decLevel 0 1 b0 rest
    else if b0 < 128 then decLevel 1 64 b0 rest
    else if b0 < 192 then decLevel 2 16447 b0 rest
    else decVar 4210750 (b0 % 16) rest
def encRev (v : Nat) : List Nat :=
  if v ≤ 64 then encLevelRev 0 0 1 v
  else if v ≤ 16447 then encLevelRev 64 1 64 v
  else if v ≤ 4210750 then encLevelRev 128 2 16447 v
  else encVarRev 192 4210750 2 v
def decRev (bs : List Nat) : Option (Nat × Nat) :=
  match bs.reverse with
  | [] => none
  | b0 :: r =>
    if b0 < 64 then decLevel 0 1 b0 r
    else if b0 < 128 then decLevel 1 64 b0 r
    else if b0 < 192 then decLevel 2 16447 b0 r
    else decVarRev 4210750 (b0 % 16) r
end NZ

/-! ### varintSplitFull16 (minimum two bytes; var level at least 4 payload bytes) -/
namespace S16
def max14 := 16383
def max22 := 4210686
def max30 := 1077952509
def enc (v : Nat) : List Nat :=
  if v ≤ 16383 then encLevel 0 1 0 v
  else if v ≤ 4210686 then encLevel 64 2 16383 v
  else if v ≤ 1077952509 then encLevel 128 3 4210686 v
  else encVar 192 1077952509 4 v
def len (v : Nat) : Nat :=
  if v ≤ 16383 then 2 else if v ≤ 4210686 then 3 else if v ≤ 1077952509 then 4 else lenVar 1077952509 4 v
def getLenQuick (b0 : Nat) : Nat :=
  if 192 ≤ b0 then 1 + b0 % 16 else 2 + b0 / 64
def getLen (b0 : Nat) : Nat :=
  if b0 < 64 then 2 else if b0 < 128 then 3 else if b0 < 192 then 4 else 1 + b0 % 16
def dec (bs : List Nat) : Option (Nat × Nat) :=
  match bs with
  | [] => none
  | b0 :: rest =>
    if b0 < 64 then decLevel 1 0 b0 rest
    else if b0 < 128 then decLevel 2 16383 b0 rest
    else if b0 < 192 then decLevel 3 4210686 b0 rest
    else decVar 1077952509 (b0 % 16) rest
end S16

end Varint.Split
