import Varint.Model.Bits
import Varint.Model.Delta
/-
  Model of src/varintFloat.c. A double is its 64-bit IEEE-754 pattern (`Nat < 2^64`); the codec only
  does integer surgery on it. Format:
    [precision][expBits][mantBits][mode] ++ special-flag bits ++ sign bits ++ exponents (per mode)
    ++ mantissas of the normal values packed LSB-first ++ 8 raw bytes per special value.
-/
namespace Varint.Float
open Varint.Bits

def mantBits (p : Nat) : Nat := match p with | 1 => 23 | 2 => 10 | 3 => 4 | _ => 52
def expBits (p : Nat) : Nat := match p with | 1 => 8 | 2 => 8 | 3 => 5 | _ => 11

def signOf (b : Nat) : Nat := b / 2 ^ 63 % 2
def expField (b : Nat) : Nat := b / 2 ^ 52 % 2048
def frac (b : Nat) : Nat := b % 2 ^ 52

/-- NaN, infinities, zeros and subnormals are stored verbatim -/
def isSpecial (b : Nat) : Bool := expField b = 2047 || expField b = 0

/-- (unbiased exponent, stored mantissa field) of a normal value at `mb` mantissa bits, after
    round-to-nearest and the carry renormalisation -/
def reduce (mb : Nat) (b : Nat) : Int × Nat :=
  let e : Int := (expField b : Int) - 1023
  if mb = 52 then (e, frac b)
  else
    let m := frac b + 2 ^ 52
    let t := (m + 2 ^ (53 - mb - 1)) / 2 ^ (53 - mb)
    if t / 2 ^ mb ≠ 0 then (e + 1, t / 2) else (e, t)

/-- zig-zag of a (small) signed integer as the C computes it on int64 -/
def zzInt (e : Int) : Nat := if 0 ≤ e then (2 * e).toNat else (-2 * e - 1).toNat

def field (u : Nat) : List Nat := extLen u :: leBytes (extLen u) u

def minInt : List Int → Int
  | [] => 0
  | x :: xs => xs.foldl min x
def maxInt : List Int → Int
  | [] => 0
  | x :: xs => xs.foldl max x

def deltaExps (prev : Int) : List Int → List Nat
  | [] => []
  | e :: es => field (zzInt (e - prev)) ++ deltaExps e es

/-- the mode actually used (COMMON falls back to INDEPENDENT when the spread exceeds one byte) -/
def effectiveMode (mode : Nat) (exps : List Int) : Nat :=
  if mode = 1 ∧ exps ≠ [] ∧ maxInt exps - minInt exps > 255 then 0 else mode

def encExps (mode : Nat) (exps : List Int) : List Nat :=
  match mode with
  | 0 => exps.flatMap fun e => field (zzInt e)
  | 1 =>
    match exps with
    | [] => []
    | _ => field (zzInt (minInt exps)) ++ exps.map fun e => (e - minInt exps).toNat % 256
  | _ =>
    match exps with
    | [] => []
    | e0 :: es => field (zzInt e0) ++ deltaExps e0 es

/-- `varintFloatEncode(output, values, count, precision, mode)` -/
def enc (p mode : Nat) (ds : List Nat) : List Nat :=
  if ds = [] then [] else
  let mb := mantBits p
  let normals := ds.filter fun b => !isSpecial b
  let red := normals.map (reduce mb)
  let exps := red.map (·.1)
  let m' := effectiveMode mode exps
  [p, expBits p, mb, m'] ++
    packLsb (ds.map isSpecial) ++
    packLsb (ds.map fun b => signOf b = 1) ++
    encExps m' exps ++
    packLsb (red.flatMap fun r => lsb mb r.2) ++
    (ds.filter isSpecial).flatMap (leBytes 8)

/-- `varintFloatMaxEncodedSize` -/
def maxSize (count p : Nat) : Nat :=
  if count = 0 then 0
  else 4 + (count + 7) / 8 + count * 9 + (mantBits p * count + 7) / 8 + (count + 7) / 8 + count * 8

/-- reconstruct a normal value from sign, unbiased exponent and stored mantissa field
    (`expandMantissa` + `varintFloatCompose`) -/
def compose (mb : Nat) (sign : Nat) (e : Int) (t : Nat) : Nat :=
  let m53 := if mb = 52 then t + 2 ^ 52 else t * 2 ^ (53 - mb)
  if e = 0 ∧ m53 = 0 then sign * 2 ^ 63
  else
    let be := e + 1023
    if be ≤ 0 then sign * 2 ^ 63
    else if be ≥ 2047 then sign * 2 ^ 63 + 2047 * 2 ^ 52
    else sign * 2 ^ 63 + be.toNat * 2 ^ 52 + m53 % 2 ^ 52

/-- what one value decodes to (the array framing is covered by the correspondence) -/
def roundTripOne (p : Nat) (b : Nat) : Nat :=
  if isSpecial b then b else
  let r := reduce (mantBits p) b
  compose (mantBits p) (signOf b) r.1 r.2

/-- published bound of a precision as an IEEE pattern: 2^-mantBits -/
def boundBits (p : Nat) : Nat := (1023 - mantBits p) * 2 ^ 52

/-- `varintFloatEncodeAuto`'s selection for a requested error given as an IEEE pattern -/
def selectPrecision (e : Nat) : Nat :=
  let isNaN := expField e = 2047 ∧ frac e ≠ 0
  let neg := signOf e = 1
  if isNaN ∨ neg ∨ e < boundBits 1 then 0
  else if e < boundBits 2 then 1
  else if e < boundBits 3 then 2
  else 3

end Varint.Float
