import Varint.Model.BitField
/-
  Model of src/varintPacked.h for value width `b` (1..32) and slot width `S` (8/16/32/64):
  element `i` occupies bits [i*b, i*b+b) of the slot array read as one little-endian bit string
  (bit 0 = least significant bit of slot 0). Same mask/shift steps as the C; `getD` stands for a
  slot load (the harness allocates exactly the slots, so a load outside is a sanitizer report).
-/
namespace Varint.Packed
open Varint.BF

def set (S b : Nat) (ws : List Nat) (i v : Nat) : List Nat :=
  let j := i * b / S
  let sb := i * b % S
  let avail := S - sb
  if b ≤ avail then ws.set j (insert (ws.getD j 0) sb b v)
  else
    let ws1 := ws.set j (insert (ws.getD j 0) sb avail (v &&& mask avail))
    ws1.set (j + 1) (insert (ws1.getD (j + 1) 0) 0 (b - avail) (v >>> avail))

def get (S b : Nat) (ws : List Nat) (i : Nat) : Nat :=
  let j := i * b / S
  let sb := i * b % S
  let avail := S - sb
  if b ≤ avail then extract (ws.getD j 0) sb b
  else extract (ws.getD j 0) sb avail ||| (extract (ws.getD (j + 1) 0) 0 (b - avail)) <<< avail

/-- `SetIncr` for a non-negative increment whose result stays in range -/
def setIncr (S b : Nat) (ws : List Nat) (i d : Nat) : List Nat := set S b ws i (get S b ws i + d)

/-- `SetHalf` -/
def setHalf (S b : Nat) (ws : List Nat) (i : Nat) : List Nat :=
  if get S b ws i = 0 then ws else set S b ws i (get S b ws i / 2)

/-- `BinarySearch`: least index in [0,len] whose element is ≥ v (lower bound) -/
def bsearchAux (S b : Nat) (ws : List Nat) (v : Nat) : Nat → Nat → Nat → Nat
  | 0, lo, _ => lo
  | fuel + 1, lo, hi =>
    if lo < hi then
      let mid := (lo + hi) / 2
      if get S b ws mid < v then bsearchAux S b ws v fuel (mid + 1) hi
      else bsearchAux S b ws v fuel lo mid
    else lo

def bsearch (S b : Nat) (ws : List Nat) (len v : Nat) : Nat := bsearchAux S b ws v (len + 1) 0 len

/-- `Insert(dst, len, offset, val)`: move elements [offset, len) up by one, highest first -/
def shiftUp (S b : Nat) : Nat → List Nat → Nat → List Nat
  | 0, ws, _ => ws
  | k + 1, ws, off => shiftUp S b k (set S b ws (off + k + 1) (get S b ws (off + k))) off

def insertAt (S b : Nat) (ws : List Nat) (len off v : Nat) : List Nat :=
  set S b (shiftUp S b (len - off) ws off) off v

def insertSorted (S b : Nat) (ws : List Nat) (len v : Nat) : List Nat :=
  insertAt S b ws len (bsearch S b ws len v) v

/-- `Delete(dst, len, offset)`: move elements (offset, len) down by one, lowest first -/
def shiftDown (S b : Nat) : Nat → List Nat → Nat → List Nat
  | 0, ws, _ => ws
  | k + 1, ws, i => shiftDown S b k (set S b ws i (get S b ws (i + 1))) (i + 1)

def deleteAt (S b : Nat) (ws : List Nat) (len off : Nat) : List Nat := shiftDown S b (len - 1 - off) ws off

/-- `Member`: index of the first equal element or -1 -/
def member (S b : Nat) (ws : List Nat) (len v : Nat) : Int :=
  let m := bsearch S b ws len v
  if m < len ∧ get S b ws m = v then (m : Int) else -1

def deleteMember (S b : Nat) (ws : List Nat) (len v : Nat) : List Nat × Bool :=
  let m := member S b ws len v
  if m ≥ 0 then (deleteAt S b ws len m.toNat, true) else (ws, false)

end Varint.Packed
