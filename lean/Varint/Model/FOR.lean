import Varint.Model.Bytes
import Varint.Model.Tagged
/-
  Model of src/varintFOR.c (scalar paths; the SIMD paths compute the same min/max and the same
  widening loads). Format: tagged(min) ++ [offsetWidth] ++ tagged(count) ++ count × LE(offsetWidth).
-/
namespace Varint.FOR

def minL : List Nat → Nat
  | [] => 0
  | x :: xs => xs.foldl min x
def maxL : List Nat → Nat
  | [] => 0
  | x :: xs => xs.foldl max x

structure Meta where
  minValue : Nat
  maxValue : Nat
  range : Nat
  count : Nat
  encodedSize : Nat
  offsetWidth : Nat
  deriving Repr, DecidableEq

/-- `varintFORSize` -/
def size (minValue count offsetWidth : Nat) : Nat :=
  Tagged.len minValue + 1 + Tagged.len count + count * offsetWidth

/-- `varintFORAnalyze` (requires count > 0) -/
def analyze (xs : List Nat) : Meta :=
  let mn := minL xs
  let mx := maxL xs
  let r := mx - mn
  let w := extLen r
  { minValue := mn, maxValue := mx, range := r, count := xs.length,
    encodedSize := size mn xs.length w, offsetWidth := w }

def offsets (mn w : Nat) : List Nat → List Nat
  | [] => []
  | x :: xs => leBytes w (x - mn) ++ offsets mn w xs

/-- `varintFOREncode` with a freshly analysed meta -/
def enc (xs : List Nat) : List Nat :=
  let m := analyze xs
  Tagged.enc m.minValue ++ [m.offsetWidth] ++ Tagged.enc m.count ++ offsets m.minValue m.offsetWidth xs

structure Hdr where
  minValue : Nat
  width : Nat
  count : Nat
  minLen : Nat
  countLen : Nat
  deriving Repr

/-- `varintFORReadMetadata` (the part decoders use) -/
def readHdr (bs : List Nat) : Option Hdr :=
  match Tagged.get bs with
  | .ok mn l1 =>
    match bs.drop l1 with
    | [] => none
    | w :: rest =>
      match Tagged.get rest with
      | .ok cnt l2 => some ⟨mn, w, cnt, l1, l2⟩
      | _ => none
  | _ => none

/-- read `n` offsets of width `w` and add the minimum back (wrapping) -/
def readOffsets : Nat → Nat → Nat → List Nat → Option (List Nat)
  | 0, _, _, _ => some []
  | n + 1, mn, w, bs =>
    match takeExact w bs with
    | none => none
    | some p =>
      match readOffsets n mn w (bs.drop w) with
      | none => none
      | some vs => some ((mn + ofLe p) % 2 ^ 64 :: vs)

/-- `varintFORDecode(src, values, maxCount)`: `some []`-like failure is `some none`;
    outer `none` = read outside the buffer / invalid width -/
def dec (bs : List Nat) (cap : Nat) : Option (Option (List Nat)) :=
  match readHdr bs with
  | none => none
  | some h =>
    if h.count > cap then some none
    else if h.width < 1 ∨ h.width > 8 then (if h.count = 0 then some (some []) else none)
    else
      -- the C recomputes the data offset from the decoded values
      let off := Tagged.len h.minValue + 1 + Tagged.len h.count
      match readOffsets h.count h.minValue h.width (bs.drop off) with
      | none => none
      | some vs => some (some vs)

/-- `varintFORGetAt` (index < count asserted by the C) -/
def getAt (bs : List Nat) (i : Nat) : Option Nat :=
  match readHdr bs with
  | none => none
  | some h =>
    if h.width < 1 ∨ h.width > 8 then none else
    let off := Tagged.len h.minValue + 1 + Tagged.len h.count + i * h.width
    match takeExact h.width (bs.drop off) with
    | none => none
    | some p => some ((h.minValue + ofLe p) % 2 ^ 64)

/-- `varintFORDecodeBlock(src, values, start, blockSize)` -/
def decBlock (bs : List Nat) (start blockSize : Nat) : Option (List Nat) :=
  match readHdr bs with
  | none => none
  | some h =>
    if start ≥ h.count then some []
    else if h.width < 1 ∨ h.width > 8 then none
    else
      let n := if start + blockSize > h.count then h.count - start else blockSize
      let off := Tagged.len h.minValue + 1 + Tagged.len h.count + start * h.width
      readOffsets n h.minValue h.width (bs.drop off)

end Varint.FOR
