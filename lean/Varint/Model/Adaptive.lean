import Varint.Model.Delta
import Varint.Model.FOR
import Varint.Model.PFOR
import Varint.Model.Dict
import Varint.Model.Bitmap
/-
  Model of src/varintAdaptive.c. The selector's `float` comparisons are inputs of `selectWith`
  (theorems hold for every value of them); `floatPreds` computes them with Lean's Float32 for the
  correspondence run.
-/
namespace Varint.Adaptive

structure Stats where
  count : Nat
  minValue : Nat
  maxValue : Nat
  range : Nat
  uniqueCount : Nat
  avgDelta : Nat
  maxDelta : Nat
  outlierCount : Nat
  isSorted : Bool
  isReverseSorted : Bool
  fitsInBitmapRange : Bool
  deriving Repr

def absDiff (a b : Nat) : Nat := if a > b then a - b else b - a

def isAsc : List Nat → Bool
  | a :: b :: rest => decide (a ≤ b) && isAsc (b :: rest)
  | _ => true
def isDesc : List Nat → Bool
  | a :: b :: rest => decide (a ≥ b) && isDesc (b :: rest)
  | _ => true

def distinctCount (xs : List Nat) : Nat := (Dict.build xs).length

/-- `varintAdaptiveCountUnique`: exact up to 10000 elements, sampled above -/
def countUnique (xs : List Nat) : Nat :=
  let n := xs.length
  if n ≤ 1 then n
  else if n > 10000 then
    let sampleSize := if n / 10 < 100 then 100 else n / 10
    let step := n / sampleSize
    let arr := xs.toArray
    let sample := (List.range sampleSize).map fun i => arr.getD (i * step) 0
    let est := distinctCount sample * n / sampleSize
    if est > n then n else est
  else distinctCount xs

/-- number of positions whose value differs from its predecessor -/
def changes : List Nat → Nat
  | a :: b :: rest => (if a ≠ b then 1 else 0) + changes (b :: rest)
  | _ => 0

/-- `stats->uniqueCount`: sorted input (either direction) is counted exactly by comparing neighbours — no
    allocation, so no out-of-memory fallback; anything else goes through `varintAdaptiveCountUnique` -/
def uniqueOf (xs : List Nat) : Nat :=
  if xs = [] then 0
  else if isAsc xs || isDesc xs then 1 + changes xs
  else countUnique xs

def isStrictAsc : List Nat → Bool
  | a :: b :: rest => decide (a < b) && isStrictAsc (b :: rest)
  | _ => true

def sumDeltas : List Nat → Nat
  | a :: b :: rest => absDiff b a + sumDeltas (b :: rest)
  | _ => 0
def maxDeltaL : List Nat → Nat
  | a :: b :: rest => max (absDiff b a) (maxDeltaL (b :: rest))
  | _ => 0

/-- `varintAdaptiveAnalyze` (integer fields; 64-bit wrap where the C wraps) -/
def analyze (xs : List Nat) : Stats :=
  let n := xs.length
  let mn := FOR.minL xs
  let mx := FOR.maxL xs
  let range := mx - mn
  let thr := (mn + range * 95 % 2 ^ 64 / 100) % 2 ^ 64
  { count := n, minValue := mn, maxValue := mx, range := range,
    uniqueCount := uniqueOf xs,
    avgDelta := if n ≤ 1 then 0 else sumDeltas xs % 2 ^ 64 / (n - 1),
    maxDelta := maxDeltaL xs,
    outlierCount := if range > 0 then (xs.filter (· > thr)).length else 0,
    isSorted := isAsc xs, isReverseSorted := (!isAsc xs) && isDesc xs,
    fitsInBitmapRange := decide (mx < 65536) }

/-- the selector's floating-point comparisons -/
structure FloatPreds where
  uniqueLow : Bool      -- uniqueRatio < 0.15f
  dense : Bool          -- (float)count / (float)range > 0.05f
  fewOutliers : Bool    -- outlierRatio < 0.05f

def floatPreds (s : Stats) : FloatPreds :=
  { uniqueLow := Float32.ofNat s.uniqueCount / Float32.ofNat s.count < (0.15 : Float32),
    dense := Float32.ofNat s.count / Float32.ofNat s.range > (0.05 : Float32),
    fewOutliers := (if s.range > 0 then Float32.ofNat s.outlierCount / Float32.ofNat s.count else 0) < (0.05 : Float32) }

/-- encoding tags -/
def DELTA := 0
def FOR_ := 1
def PFOR_ := 2
def DICT := 3
def BITMAP := 4
def TAGGED := 5

/-- `varintAdaptiveSelectEncoding` (as repaired) -/
def selectWith (φ : FloatPreds) (s : Stats) : Nat :=
  if s.count ≤ 1 then TAGGED
  else if φ.uniqueLow then DICT
  else if s.fitsInBitmapRange ∧ s.isSorted ∧ s.uniqueCount = s.count ∧ s.range > 0 ∧ s.count < 10000 ∧ φ.dense then BITMAP
  else if (s.isSorted ∨ s.isReverseSorted) ∧
      ((s.minValue > 0 ∧ s.avgDelta < s.minValue / 10) ∨ s.avgDelta < 1000) then DELTA
  else if φ.fewOutliers ∧ s.range > 0 then PFOR_
  else if s.range > 0 ∧ s.range < s.count * 100 % 2 ^ 64 then FOR_
  else TAGGED

def select (xs : List Nat) : Nat := let s := analyze xs; selectWith (floatPreds s) s

/-- `varintAdaptiveEncodeWith`: header byte + the chosen codec's bytes -/
def encodeWith (t : Nat) (xs : List Nat) : List Nat :=
  t ::
    (if t = DELTA then Delta.encU xs
     else if t = FOR_ then FOR.enc xs
     else if t = PFOR_ then PFOR.enc xs 95
     else if t = DICT then Dict.enc xs
     else if t = BITMAP then Bitmap.encode (Bitmap.addMany Bitmap.init (xs.filter (· < 65536)))
     else xs.flatMap Tagged.enc)

def encode (xs : List Nat) : List Nat := encodeWith (select xs) xs

/-- `varintAdaptiveMaxSize` (as repaired) -/
def maxSize (count : Nat) : Nat := if count = 0 then 1 else 1 + 18 + count * 17

/-- tagged stream reader of the TAGGED arm -/
def decTagged : Nat → List Nat → Option (List Nat)
  | 0, _ => some []
  | n + 1, bs =>
    match Tagged.get bs with
    | .ok v l => (decTagged n (bs.drop l)).map (v :: ·)
    | _ => none

/-- `varintAdaptiveDecode(src, values, maxCount)` for the arms whose codecs have round-trip
    theorems (DELTA, FOR, TAGGED); `none` = other arm / read outside the buffer -/
def decode (bs : List Nat) (cap : Nat) : Option (List Nat) :=
  match bs with
  | [] => none
  | t :: data =>
    if t = DELTA then (Delta.decU cap data).map (·.1)
    else if t = FOR_ then (match FOR.dec data cap with | some (some vs) => some vs | some none => some [] | none => none)
    else if t = TAGGED then decTagged cap data
    else none

end Varint.Adaptive
