import Varint.Model.AdaptiveDec
import Varint.Lemmas.Delta
import Varint.Lemmas.FOR
import Varint.Lemmas.Tagged
import Varint.Lemmas.PFOR
import Varint.Lemmas.Dict
import Varint.Lemmas.Bounded
import Varint.Lemmas.Bitmap
import Varint.Lemmas.BitmapIter
/-
  The full adaptive decoder (`Adaptive.decodeAll`, Model/AdaptiveDec.lean): agreement with the
  three-arm `decode`, forced round trips of the PFOR / DICT / BITMAP arms, the round trip for
  whatever the selector picks, capacity for arbitrary bytes, encoded size.
-/
namespace Varint.Adaptive
open Varint.Bounded (R BM le32 bitmapDec)

/-! ## 0. small facts about the tagged reader -/

theorem get_ok_le (bs : List Nat) (v l : Nat) (h : Tagged.get bs = .ok v l) : 1 ≤ l ∧ l ≤ 9 := by
  have := Bounded.getN_ok_le bs 9 v l h
  omega

/-! ## 1. agreement with the three-arm `decode` -/

theorem decTaggedLoop_of_decTagged (lim : Nat) : ∀ (n off : Nat) (bs vs : List Nat),
    decTagged n bs = some vs → off + 9 * n ≤ lim → decTaggedLoop lim n off bs = some vs
  | 0, _, _, vs, h, _ => by simpa [decTagged, decTaggedLoop] using h
  | n + 1, off, bs, vs, h, hl => by
    unfold decTagged at h
    unfold decTaggedLoop
    rw [if_pos (by omega)]
    cases hg : Tagged.get bs with
    | fault => rw [hg] at h; simp at h
    | short => rw [hg] at h; simp at h
    | ok v l =>
      rw [hg] at h
      simp only [] at h ⊢
      have hl9 := (get_ok_le bs v l hg).2
      cases hr : decTagged n (bs.drop l) with
      | none => rw [hr] at h; simp at h
      | some r =>
        rw [hr] at h
        rw [decTaggedLoop_of_decTagged lim n (off + l) (bs.drop l) r hr (by omega)]
        exact h

/-- on the DELTA and FOR arms the two decoders are the same function -/
theorem decodeAll_delta (data : List Nat) (cap : Nat) :
    decodeAll (DELTA :: data) cap = decode (DELTA :: data) cap := by
  simp only [decodeAll, decode, if_true]

theorem decodeAll_for (data : List Nat) (cap : Nat) :
    decodeAll (FOR_ :: data) cap = decode (FOR_ :: data) cap := by
  simp only [decodeAll, decode, FOR_, DELTA, show ¬ (1 = 0) by omega, if_false, if_true]
  cases FOR.dec data cap with
  | none => rfl
  | some o => cases o <;> rfl

/-- every answer of the three-arm `decode` is the answer of `decodeAll` (the capacity must be one for
    which `maxCount * 9` does not wrap in a `size_t`) -/
theorem decodeAll_of_decode (bs : List Nat) (cap : Nat) (vs : List Nat) (hcap : cap * 9 < 2 ^ 64)
    (h : decode bs cap = some vs) : decodeAll bs cap = some vs := by
  cases bs with
  | nil => simp [decode] at h
  | cons t data =>
    by_cases h0 : t = DELTA
    · subst h0; rw [decodeAll_delta]; exact h
    · by_cases h1 : t = FOR_
      · subst h1; rw [decodeAll_for]; exact h
      · by_cases h5 : t = TAGGED
        · subst h5
          simp only [decode, if_neg h0, if_neg h1, if_true] at h
          simp only [decodeAll, TAGGED, DELTA, FOR_, PFOR_, DICT, BITMAP,
            show ¬ (5 = 0) by omega, show ¬ (5 = 1) by omega, show ¬ (5 = 2) by omega,
            show ¬ (5 = 3) by omega, show ¬ (5 = 4) by omega, if_false]
          exact decTaggedLoop_of_decTagged _ cap 0 data vs h (by rw [Nat.mod_eq_of_lt hcap]; omega)
        · simp only [decode, if_neg h0, if_neg h1, if_neg h5] at h
          cases h

/-! ## 2. PFOR arm -/

theorem drop_hdr (data r1 : List Nat) (l1 w l2 : Nat) (h2 : data.drop l1 = w :: r1) :
    data.drop (l1 + 1 + l2) = r1.drop l2 := by
  rw [Nat.add_assoc, ← List.drop_drop, h2, Nat.add_comm 1 l2, List.drop_succ_cons]

/-- with the header skipped as it was read, the body of the arm is the stand-alone PFOR decoder -/
theorem pforBody_eq_dec (data : List Nat) (mn l1 w cnt0 l2 : Nat) (r1 : List Nat)
    (h1 : Tagged.get data = .ok mn l1) (h2 : data.drop l1 = w :: r1) (h3 : Tagged.get r1 = .ok cnt0 l2) :
    pforBody data mn w (cnt0 % 2 ^ 32) (l1 + 1 + l2) = PFOR.dec data := by
  unfold PFOR.dec pforBody
  rw [h1]
  simp only []
  rw [h2]
  simp only []
  rw [h3]
  simp only []
  rw [drop_hdr data r1 l1 w l2 h2]
  rfl

/-- forced PFOR: lossless for every non-empty array of 64-bit values with a 32-bit count -/
theorem pfor_forced (xs : List Nat) (g : PFOR.Good xs) (rest : List Nat) :
    decodeAll (encodeWith PFOR_ xs ++ rest) xs.length = some xs := by
  have f := PFOR.compute_facts xs g 95
  have hl := g.2.1
  have hw := f.width_pos
  have hmod : xs.length % 2 ^ 32 = xs.length := Nat.mod_eq_of_lt hl
  have hget1 := PFOR.hdr_min xs g 95 rest
  have hdrop := PFOR.hdr_width xs 95 rest
  have hget2 : Tagged.get (Tagged.enc xs.length ++ (PFOR.slots (PFOR.compute xs 95) xs ++
        (Tagged.enc (PFOR.compute xs 95).exceptionCount ++ (PFOR.excs (PFOR.compute xs 95) 0 xs ++ rest))))
      = .ok xs.length (Tagged.len xs.length) := by
    rw [Tagged.get_enc _ (by omega), Tagged.enc_length]
  have hbody := pforBody_eq_dec _ _ _ _ _ _ _ hget1 hdrop hget2
  rw [hmod, PFOR.dec_enc xs g 95 rest] at hbody
  have hec : (PFOR.compute xs 95).exceptionCount < 2 ^ 64 := by have := f.exc_le; omega
  simp only [encodeWith, decodeAll, PFOR_, DELTA, FOR_, List.cons_append,
    show ¬ (2 = 0) by omega, show ¬ (2 = 1) by omega, if_false, if_true]
  unfold pforArm
  rw [hget1]
  simp only []
  rw [hdrop]
  simp only []
  rw [hget2]
  simp only []
  rw [hmod]
  have hla : (Tagged.enc xs.length ++ (PFOR.slots (PFOR.compute xs 95) xs ++
        (Tagged.enc (PFOR.compute xs 95).exceptionCount ++ (PFOR.excs (PFOR.compute xs 95) 0 xs ++ rest)))).drop
        (Tagged.len xs.length + xs.length * (PFOR.compute xs 95).width)
      = Tagged.enc (PFOR.compute xs 95).exceptionCount ++ (PFOR.excs (PFOR.compute xs 95) 0 xs ++ rest) := by
    rw [← List.append_assoc]
    exact List.drop_left' (by rw [List.length_append, Tagged.enc_length, PFOR.slots_length])
  rw [hla, Tagged.get_enc _ hec]
  simp only []
  rw [if_neg (by omega), if_neg (by omega)]
  exact hbody

/-! ## 3. DICT arm: from the exact-buffer decoder `Dict.dec` to the declared-length decoder
       `Bounded.dictDecAux` with a declared length that is only large enough -/

open Varint.Tagged (getN) in
/-- a bounded read that succeeds, succeeds identically with 9 declared bytes -/
theorem getN_ok_9 (bs : List Nat) (n : Int) (v l : Nat) (h : getN bs n = .ok v l) : getN bs 9 = .ok v l := by
  unfold getN at h ⊢
  by_cases hn : n < 1
  · rw [if_pos hn] at h; cases h
  · rw [if_neg hn] at h
    rw [if_neg (by omega)]
    match bs with
    | [] => cases h
    | b0 :: rest =>
      simp only [] at h ⊢
      by_cases c1 : b0 ≤ 240
      · rw [if_pos c1] at h ⊢; exact h
      · rw [if_neg c1] at h ⊢
        by_cases c2 : b0 ≤ 248
        · rw [if_pos c2] at h ⊢
          by_cases c3 : n < 2
          · rw [if_pos c3] at h; cases h
          · rw [if_neg c3] at h
            rw [if_neg (by omega)]
            exact h
        · rw [if_neg c2] at h ⊢
          by_cases c3 : n < (b0 : Int) - 246
          · rw [if_pos c3] at h; cases h
          · rw [if_neg c3] at h
            by_cases c5 : b0 ≤ 255
            · rw [if_neg (by omega)]
              exact h
            · cases hte : takeExact (b0 - 247) rest with
              | none => rw [hte] at h; cases h
              | some p =>
                rw [hte] at h
                simp only [] at h
                rw [if_neg (by omega), if_neg c5] at h
                cases h

theorem getB_tgetB (bs : List Nat) (v l rem : Nat) (h : Dict.getB bs = some (v, l)) (hrem : 9 ≤ rem) :
    Bounded.tgetB bs rem = .ok v l ∧ 1 ≤ l ∧ l ≤ 9 := by
  unfold Dict.getB at h
  cases hg : Tagged.getN bs (min bs.length (2 ^ 31 - 1)) with
  | fault => rw [hg] at h; cases h
  | short => rw [hg] at h; cases h
  | ok v' l' =>
    rw [hg] at h
    simp only [Option.some.injEq, Prod.mk.injEq] at h
    obtain ⟨rfl, rfl⟩ := h
    have h9 := getN_ok_9 _ _ _ _ hg
    have hb := get_ok_le bs v' l' h9
    refine ⟨?_, hb⟩
    unfold Bounded.tgetB Bounded.int32Max
    exact Dict.getN_of_get bs _ v' l' h9 (by omega)

theorem readEntries_transfer : ∀ (k : Nat) (bs d r : List Nat) (rem : Nat),
    Dict.readEntries k bs = some (d, r) → 9 * k ≤ rem →
    ∃ rr, Bounded.readEntries k bs rem = .ok (d, r, rr) ∧ rem ≤ rr + 9 * k
  | 0, bs, d, r, rem, h, _ => by
    simp only [Dict.readEntries, Option.some.injEq, Prod.mk.injEq] at h
    obtain ⟨rfl, rfl⟩ := h
    exact ⟨rem, rfl, by omega⟩
  | k + 1, bs, d, r, rem, h, hrem => by
    unfold Dict.readEntries at h
    cases hg : Dict.getB bs with
    | none => rw [hg] at h; cases h
    | some p =>
      obtain ⟨v, l⟩ := p
      rw [hg] at h
      simp only [] at h
      cases hre : Dict.readEntries k (bs.drop l) with
      | none => rw [hre] at h; cases h
      | some q =>
        obtain ⟨d', r'⟩ := q
        rw [hre] at h
        simp only [Option.map_some, Option.some.injEq, Prod.mk.injEq] at h
        obtain ⟨rfl, rfl⟩ := h
        obtain ⟨ht, hl1, hl9⟩ := getB_tgetB bs v l rem hg (by omega)
        obtain ⟨rr, hrr, hle⟩ := readEntries_transfer k (bs.drop l) d' r' (rem - l) hre (by omega)
        refine ⟨rr, ?_, by omega⟩
        unfold Bounded.readEntries
        rw [ht]
        simp only []
        rw [if_neg (by omega), hrr]

theorem decIdx_of_readIdx (d : List Nat) (dsz w : Nat) : ∀ (k : Nat) (bs idx vs : List Nat),
    Dict.readIdx k w bs = some idx →
    idx.mapM (fun i => if i < dsz then d[i]? else none) = some vs →
    Bounded.decIdx d.toArray dsz w k bs = .ok vs
  | 0, bs, idx, vs, h, hm => by
    simp only [Dict.readIdx, Option.some.injEq] at h
    subst h
    simp at hm
    subst hm
    rfl
  | k + 1, bs, idx, vs, h, hm => by
    unfold Dict.readIdx at h
    cases ht : takeExact w bs with
    | none => rw [ht] at h; cases h
    | some p =>
      rw [ht] at h
      simp only [] at h
      cases hr : Dict.readIdx k w (bs.drop w) with
      | none => rw [hr] at h; cases h
      | some idx' =>
        rw [hr] at h
        simp only [Option.map_some, Option.some.injEq] at h
        subst h
        rw [List.mapM_cons] at hm
        by_cases hlt : ofLe p < dsz
        · rw [if_pos hlt] at hm
          cases hd : d[ofLe p]? with
          | none => rw [hd] at hm; simp at hm
          | some x =>
            rw [hd] at hm
            cases hm' : idx'.mapM (fun i => if i < dsz then d[i]? else none) with
            | none => rw [hm'] at hm; simp at hm
            | some vs' =>
              rw [hm'] at hm
              simp at hm
              subst hm
              unfold Bounded.decIdx
              rw [ht]
              simp only []
              rw [if_neg (by omega), decIdx_of_readIdx d dsz w k (bs.drop w) idx' vs' hr hm']
              simp only []
              have : d.toArray.getD (ofLe p) 0 = x := by
                obtain ⟨hi, he⟩ := List.getElem?_eq_some_iff.mp hd
                simp [Array.getD, hi, he]
              rw [this]
        · rw [if_neg hlt] at hm
          simp at hm

theorem indexWidth_le_8 (dsz : Nat) (h : dsz ≤ Dict.maxDict) : Dict.indexWidth dsz ≤ 8 := by
  unfold Dict.indexWidth
  have hmd : Dict.maxDict = 1048576 := rfl
  split
  · omega
  · exact extLen_le_8 (by omega)

/-- whatever `Dict.dec` (declared length = the list) decodes, `varintDictDecodeInto` decodes from the same
    memory under any declared length that covers the largest dictionary plus eight bytes per value -/
theorem dictDecAux_of_dec (bs : List Nat) (cap rem : Nat) (vs : List Nat)
    (h : Dict.dec bs (some cap) = some vs) (hrem : 18 + 9 * Dict.maxDict + 8 * vs.length ≤ rem) :
    (Bounded.dictDecAux bs rem (some cap)).1 = .ok vs := by
  have hmd : Dict.maxDict = 1048576 := rfl
  unfold Dict.dec at h
  by_cases c0 : bs = [] ∨ some cap = some 0
  · rw [if_pos c0] at h; cases h
  rw [if_neg c0] at h
  cases hg1 : Dict.getB bs with
  | none => rw [hg1] at h; cases h
  | some p1 =>
    obtain ⟨dsz, l1⟩ := p1
    rw [hg1] at h
    simp only [] at h
    by_cases cd : dsz > Dict.maxDict
    · rw [if_pos cd] at h; cases h
    rw [if_neg cd] at h
    cases hre : Dict.readEntries dsz (bs.drop l1) with
    | none => rw [hre] at h; cases h
    | some q =>
      obtain ⟨d, r1⟩ := q
      rw [hre] at h
      simp only [] at h
      cases hg2 : Dict.getB r1 with
      | none => rw [hg2] at h; cases h
      | some p2 =>
        obtain ⟨cnt, l2⟩ := p2
        rw [hg2] at h
        simp only [] at h
        by_cases cc : decide (cnt > cap) = true
        · rw [if_pos cc] at h; cases h
        rw [if_neg cc] at h
        by_cases cl : cnt > (r1.drop l2).length / Dict.indexWidth dsz
        · rw [if_pos cl] at h; cases h
        rw [if_neg cl] at h
        cases hri : Dict.readIdx cnt (Dict.indexWidth dsz) (r1.drop l2) with
        | none => rw [hri] at h; cases h
        | some idx =>
          rw [hri] at h
          simp only [] at h
          have hlen : vs.length = cnt := by
            rw [Dict.mapM_length _ _ _ h, Dict.readIdx_length _ _ _ _ hri]
          have hcap0 : ¬ (rem = 0 ∨ some cap = some 0) := by
            intro hc
            rcases hc with hc | hc
            · omega
            · exact c0 (Or.inr hc)
          obtain ⟨ht1, hl1a, hl1b⟩ := getB_tgetB bs dsz l1 rem hg1 (by omega)
          obtain ⟨rem1, hrr, hle⟩ := readEntries_transfer dsz (bs.drop l1) d r1 (rem - l1) hre (by omega)
          obtain ⟨ht2, hl2a, hl2b⟩ := getB_tgetB r1 cnt l2 rem1 hg2 (by omega)
          have hw1 := Dict.indexWidth_pos dsz
          have hw8 := indexWidth_le_8 dsz (by omega)
          have hov : Bounded.overCap (some cap) cnt = false := by
            unfold Bounded.overCap
            simpa using cc
          have hfit : ¬ cnt > (rem1 - l2) / Dict.indexWidth dsz := by
            have h1 : cnt * Dict.indexWidth dsz ≤ cnt * 8 := Nat.mul_le_mul_left _ hw8
            have h2 : cnt ≤ (rem1 - l2) / Dict.indexWidth dsz :=
              (Nat.le_div_iff_mul_le (by omega)).mpr (by omega)
            omega
          unfold Bounded.dictDecAux
          rw [if_neg hcap0, ht1]
          simp only []
          rw [if_neg (by omega), if_neg cd, hrr]
          simp only []
          rw [ht2]
          simp only []
          rw [if_neg (by omega), hov, if_neg (by simp), if_neg hfit]
          exact decIdx_of_readIdx d dsz _ cnt _ idx vs hri h

theorem dictLenBound_ge (cap : Nat) (h : cap < 2 ^ 32) : 18 + 9 * Dict.maxDict + 8 * cap ≤ dictLenBound cap := by
  have hmd : Dict.maxDict = 1048576 := rfl
  unfold dictLenBound
  rw [if_pos (by omega)]
  omega

/-- forced DICT: lossless whenever the dictionary encoder accepts the array -/
theorem dict_forced (xs : List Nat) (hx : ∀ x ∈ xs, x < 2 ^ 64) (hn : xs.length < 2 ^ 32)
    (hacc : Dict.enc xs ≠ []) (rest : List Nat) :
    decodeAll (encodeWith DICT xs ++ rest) xs.length = some xs := by
  have hd := Dict.dec_enc_cap xs hx (by omega) hacc rest xs.length (Nat.le_refl _)
  have ht := dictDecAux_of_dec _ _ (dictLenBound xs.length) _ hd (dictLenBound_ge _ hn)
  simp only [encodeWith, decodeAll, DICT, PFOR_, DELTA, FOR_, List.cons_append,
    show ¬ (3 = 0) by omega, show ¬ (3 = 1) by omega, show ¬ (3 = 2) by omega, if_false, if_true]
  unfold dictArm
  rw [ht]

/-! ## 4. BITMAP arm -/
open Varint.Bitmap (St Inv members)


theorem bitmapDecN_length (bs : List Nat) : bitmapDecN bs bs.length = (bitmapDec bs).1 := by
  unfold bitmapDecN bitmapDec
  by_cases h5 : bs.length < 5
  · rw [if_pos h5, if_pos h5]
  · rw [if_neg h5, if_neg h5]
    cases bs with
    | nil => rfl
    | cons ty r0 =>
      simp only []
      have e5 : (ty :: r0).length - 5 = (r0.drop 4).length := by
        simp only [List.length_cons, List.length_drop]; omega
      have e9 : (ty :: r0).length - 9 = (r0.drop 8).length := by
        simp only [List.length_cons, List.length_drop]; omega
      rw [e5, e9]
      cases hc : le32 r0 with
      | fault => rfl
      | err => rfl
      | ok card =>
        simp only []
        by_cases t0 : ty = 0
        · rw [if_pos t0, if_pos t0]
          split
          · rfl
          · cases takeExact (2 * card) (r0.drop 4) <;> rfl
        · rw [if_neg t0, if_neg t0]
          by_cases t1 : ty = 1
          · rw [if_pos t1, if_pos t1]
            split
            · rfl
            · cases takeExact Bounded.bitmapBytes (r0.drop 4) <;> rfl
          · rw [if_neg t1, if_neg t1]
            by_cases t2 : ty = 2
            · rw [if_pos t2, if_pos t2]
              split
              · rfl
              · cases le32 (r0.drop 4) with
                | fault => rfl
                | err => rfl
                | ok nr =>
                  simp only []
                  split
                  · rfl
                  · cases takeExact (4 * nr) (r0.drop 8) <;> rfl
            · rw [if_neg t2, if_neg t2]

theorem u16le_eq : ∀ l : List Nat, u16le l = Bitmap.u16s l
  | [] => rfl
  | [_] => rfl
  | a :: b :: rest => by simp only [u16le, Bitmap.u16s, u16le_eq rest]

theorem strictAsc_pairwise : ∀ xs : List Nat, isStrictAsc xs = true → List.Pairwise (· < ·) xs
  | [], _ => List.Pairwise.nil
  | [_], _ => by simp
  | a :: b :: rest, h => by
    simp only [isStrictAsc, Bool.and_eq_true, decide_eq_true_eq] at h
    have ih := strictAsc_pairwise (b :: rest) h.2
    rw [List.pairwise_cons]
    refine ⟨?_, ih⟩
    intro y hy
    rcases List.mem_cons.mp hy with rfl | hy
    · exact h.1
    · have := (List.pairwise_cons.mp ih).1 y hy
      omega

theorem sorted_ext : ∀ (l1 l2 : List Nat), List.Pairwise (· < ·) l1 → List.Pairwise (· < ·) l2 →
    (∀ x, x ∈ l1 ↔ x ∈ l2) → l1 = l2
  | [], [], _, _, _ => rfl
  | [], b :: _, _, _, h => by have := (h b).mpr (by simp); simp at this
  | a :: _, [], _, _, h => by have := (h a).mp (by simp); simp at this
  | a :: t, b :: u, h1, h2, h => by
    rw [List.pairwise_cons] at h1 h2
    have hab : a = b := by
      have ha := (h a).mp (by simp)
      have hb := (h b).mpr (by simp)
      rcases List.mem_cons.mp ha with e | ha'
      · exact e
      · rcases List.mem_cons.mp hb with e | hb'
        · exact e.symm
        · have := h2.1 a ha'
          have := h1.1 b hb'
          omega
    subst hab
    congr 1
    apply sorted_ext t u h1.2 h2.2
    intro x
    constructor
    · intro hx
      have hlt := h1.1 x hx
      rcases List.mem_cons.mp ((h x).mp (List.mem_cons_of_mem _ hx)) with e | hx'
      · omega
      · exact hx'
    · intro hx
      have hlt := h2.1 x hx
      rcases List.mem_cons.mp ((h x).mpr (List.mem_cons_of_mem _ hx)) with e | hx'
      · omega
      · exact hx'

theorem add_ty (s : St) (v : Nat) (h : s.ty ≠ .runs) : (Bitmap.add s v).1.ty ≠ .runs := by
  obtain ⟨ty, card, bits⟩ := s
  cases ty with
  | runs => exact absurd rfl h
  | array =>
    simp only [Bitmap.add, Bitmap.unrun]
    simp only [show ¬ (Bitmap.Ty.array = Bitmap.Ty.runs) by decide, if_false]
    split
    · simp
    · split <;> simp
  | bitmap =>
    simp only [Bitmap.add, Bitmap.unrun]
    simp only [show ¬ (Bitmap.Ty.bitmap = Bitmap.Ty.runs) by decide, if_false]
    split <;> simp

theorem addMany_ty (vs : List Nat) : ∀ (s : St), s.ty ≠ .runs → (Bitmap.addMany s vs).ty ≠ .runs := by
  induction vs with
  | nil => intro s h; exact h
  | cons v vs ih =>
    intro s h
    simp only [Bitmap.addMany, List.foldl_cons]
    exact ih _ (add_ty s v h)

theorem card_le (s : St) (hi : Inv s) : s.card ≤ 65536 := by
  have h1 := Bitmap.countBelow_le s.bits 65536
  have h2 := hi.card_eq
  unfold Bitmap.popCount at h2
  omega

/-- the arm on a serialised ARRAY / BITMAP container, whatever follows it: the members in ascending order, cut
    at the capacity -/
theorem bitmapArm_encode (s : St) (hi : Inv s) (hty : s.ty ≠ .runs) (rest : List Nat) (cap : Nat) :
    bitmapArm (Bitmap.encode s ++ rest) cap = some ((members s).take cap) := by
  have hlen := Bitmap.members_length s hi
  have hc := card_le s hi
  have hf : Bitmap.leB 2 = leBytes 2 := funext (Bitmap.leB_eq 2)
  unfold bitmapArm bitmapDecN
  rw [if_neg (by omega)]
  cases hT : s.ty with
  | runs => exact absurd hT hty
  | array =>
    have henc : Bitmap.encode s ++ rest
        = 0 :: (leBytes 4 s.card ++ ((members s).flatMap (leBytes 2) ++ rest)) := by
      unfold Bitmap.encode
      rw [hT]
      simp only [Bitmap.leB_eq, hf, List.cons_append, List.append_assoc]
    rw [henc]
    simp only []
    rw [Bitmap.le32_leBytes s.card _ (by omega), List.drop_left' (leBytes_length 4 s.card)]
    simp only [if_true]
    rw [if_neg (by omega), takeExact_append _ _ (by rw [Bitmap.length_flatMap_leBytes2, hlen])]
    simp only []
    unfold bmToArray
    simp only [if_true]
    rw [u16le_eq, Bitmap.u16s_flatMap _ (Bitmap.members_lt s), List.take_of_length_le (by omega)]
    rw [if_neg (by omega)]
  | bitmap =>
    have henc : Bitmap.encode s ++ rest = 1 :: (leBytes 4 s.card ++ (leBytes 8192 s.bits ++ rest)) := by
      unfold Bitmap.encode
      rw [hT]
      simp only [Bitmap.leB_eq, List.cons_append, List.append_assoc]
    rw [henc]
    simp only []
    rw [Bitmap.le32_leBytes s.card _ (by omega), List.drop_left' (leBytes_length 4 s.card)]
    simp only [show ¬ ((1 : Nat) = 0) by omega, if_false, if_true]
    have hb : Bounded.bitmapBytes = 8192 := rfl
    rw [if_neg (by rw [hb]; omega), takeExact_append _ _ (show (leBytes 8192 s.bits).length = Bounded.bitmapBytes from leBytes_length 8192 s.bits)]
    simp only []
    unfold bmToArray
    simp only [show ¬ ((1 : Nat) = 0) by omega, if_false, if_true]
    rw [ofLe_leBytes, Nat.mod_eq_of_lt (Bitmap.bits_lt s hi)]
    have hm : members ⟨.bitmap, s.card, s.bits⟩ = members s := rfl
    rw [hm, if_neg (by omega)]

theorem members_addMany (xs : List Nat) (hasc : isStrictAsc xs = true) (hlt : ∀ x ∈ xs, x < 65536) :
    members (Bitmap.addMany Bitmap.init xs) = xs := by
  obtain ⟨hb, _⟩ := Bitmap.addMany_spec xs Bitmap.init hlt Bitmap.inv_init
  apply sorted_ext _ _ (Bitmap.members_sorted _) (strictAsc_pairwise xs hasc)
  intro x
  rw [Bitmap.mem_members, hb x]
  have h0 : Bitmap.init.bits.testBit x = false := by simp [Bitmap.init]
  rw [h0, Bool.false_or, decide_eq_true_eq]
  exact ⟨fun h => h.2, fun h => ⟨hlt x h, h⟩⟩

/-- forced BITMAP on its documented domain (strictly increasing values below 65536), any capacity, whatever
    follows the encoding: the first `cap` values -/
theorem bitmap_forced_cap (xs : List Nat) (hasc : isStrictAsc xs = true) (hlt : ∀ x ∈ xs, x < 65536)
    (rest : List Nat) (cap : Nat) :
    decodeAll (encodeWith BITMAP xs ++ rest) cap = some (xs.take cap) := by
  have hfil : xs.filter (· < 65536) = xs := List.filter_eq_self.mpr (fun x hx => by simpa using hlt x hx)
  obtain ⟨_, hi⟩ := Bitmap.addMany_spec xs Bitmap.init hlt Bitmap.inv_init
  have hty := addMany_ty xs Bitmap.init (by simp [Bitmap.init])
  simp only [encodeWith, decodeAll, BITMAP, DICT, PFOR_, DELTA, FOR_, List.cons_append,
    show ¬ (4 = 0) by omega, show ¬ (4 = 1) by omega, show ¬ (4 = 2) by omega, show ¬ (4 = 3) by omega,
    if_false, if_true]
  rw [hfil, bitmapArm_encode _ hi hty rest cap, members_addMany xs hasc hlt]

theorem bitmap_forced (xs : List Nat) (hasc : isStrictAsc xs = true) (hlt : ∀ x ∈ xs, x < 65536)
    (rest : List Nat) :
    decodeAll (encodeWith BITMAP xs ++ rest) xs.length = some xs := by
  rw [bitmap_forced_cap xs hasc hlt rest, List.take_length]

/-! ## 5. the three old arms, directly on `decodeAll` -/

theorem delta_forced (xs : List Nat) (hx : ∀ x ∈ xs, x < 2 ^ 64) (rest : List Nat) :
    decodeAll (encodeWith DELTA xs ++ rest) xs.length = some xs := by
  simp only [encodeWith, decodeAll, List.cons_append, if_true]
  rw [Delta.decU_encU xs hx rest]
  rfl

theorem for_forced (xs : List Nat) (g : FOR.Good xs) (rest : List Nat) :
    decodeAll (encodeWith FOR_ xs ++ rest) xs.length = some xs := by
  simp only [encodeWith, decodeAll, FOR_, DELTA, List.cons_append, show ¬ (1 = 0) by omega, if_false, if_true]
  rw [FOR.dec_enc xs g xs.length (Nat.le_refl _) rest]

theorem decTaggedLoop_enc (lim : Nat) (rest : List Nat) : ∀ (xs : List Nat) (off : Nat),
    (∀ x ∈ xs, x < 2 ^ 64) → off + 9 * xs.length ≤ lim →
    decTaggedLoop lim xs.length off (xs.flatMap Tagged.enc ++ rest) = some xs
  | [], _, _, _ => rfl
  | x :: xs, off, hx, hl => by
    have hb := Tagged.len_bounds x
    rw [List.length_cons] at hl
    rw [List.flatMap_cons, List.append_assoc, List.length_cons, decTaggedLoop, if_pos (by omega),
      Tagged.get_enc x (hx x (by simp))]
    simp only []
    rw [List.drop_left, decTaggedLoop_enc lim rest xs _ (fun y hy => hx y (by simp [hy]))
      (by rw [Tagged.enc_length]; omega)]
    rfl

/-- the TAGGED arm and the `default:` arm: any tag byte other than 0..4 -/
theorem tagged_forced (t : Nat) (ht : 5 ≤ t) (xs : List Nat) (hx : ∀ x ∈ xs, x < 2 ^ 64)
    (hn : xs.length * 9 < 2 ^ 64) (rest : List Nat) :
    decodeAll (encodeWith t xs ++ rest) xs.length = some xs := by
  simp only [encodeWith, decodeAll, BITMAP, DICT, PFOR_, DELTA, FOR_, List.cons_append,
    show ¬ (t = 0) by omega, show ¬ (t = 1) by omega, show ¬ (t = 2) by omega, show ¬ (t = 3) by omega,
    show ¬ (t = 4) by omega, if_false]
  exact decTaggedLoop_enc _ rest xs 0 hx (by rw [Nat.mod_eq_of_lt hn]; omega)

/-! ## 6. the selector -/

theorem selectWith_cases (φ : FloatPreds) (s : Stats) :
    selectWith φ s = TAGGED ∨ selectWith φ s = DICT ∨ selectWith φ s = BITMAP ∨
    selectWith φ s = DELTA ∨ selectWith φ s = PFOR_ ∨ selectWith φ s = FOR_ := by
  unfold selectWith
  repeat' split
  all_goals simp

/-- (as `Props/C06.select_bitmap_domain`) -/
theorem sel_bitmap_domain (φ : FloatPreds) (s : Stats) (h : selectWith φ s = BITMAP) :
    s.isSorted = true ∧ s.uniqueCount = s.count ∧ s.fitsInBitmapRange = true ∧ s.count < 10000 := by
  unfold selectWith at h
  split at h
  · simp [TAGGED, BITMAP] at h
  · split at h
    · simp [DICT, BITMAP] at h
    · split at h
      · rename_i hb
        exact ⟨hb.2.1, hb.2.2.1, hb.1, hb.2.2.2.2.1⟩
      · split at h
        · simp [DELTA, BITMAP] at h
        · split at h
          · simp [PFOR_, BITMAP] at h
          · split at h
            · simp [FOR_, BITMAP] at h
            · simp [TAGGED, BITMAP] at h

theorem changes_succ_le_length : ∀ (xs : List Nat), xs ≠ [] → changes xs + 1 ≤ xs.length
  | [], h => absurd rfl h
  | [_], _ => by simp [changes]
  | a :: b :: rest, _ => by
    have := changes_succ_le_length (b :: rest) (by simp)
    simp only [changes, List.length_cons] at *
    split <;> omega

theorem asc_changes_strict : ∀ (xs : List Nat), isAsc xs = true → 1 + changes xs = xs.length →
    isStrictAsc xs = true
  | [], _, _ => rfl
  | [_], _, _ => rfl
  | a :: b :: rest, hasc, hch => by
    simp only [isAsc, Bool.and_eq_true, decide_eq_true_eq] at hasc
    have hle := changes_succ_le_length (b :: rest) (by simp)
    simp only [changes, List.length_cons] at hch hle
    by_cases hab : a = b
    · rw [if_neg (by simpa using hab)] at hch; omega
    · rw [if_pos hab] at hch
      simp only [isStrictAsc, Bool.and_eq_true, decide_eq_true_eq]
      refine ⟨by omega, asc_changes_strict (b :: rest) hasc.2 ?_⟩
      simp only [List.length_cons]; omega

/-- (as `Props/C06.select_bitmap_input`) whatever the float comparisons say, BITMAP is selected only for a
    strictly increasing sequence of fewer than 10000 values below 65536 -/
theorem sel_bitmap_input (φ : FloatPreds) (xs : List Nat) (h : selectWith φ (analyze xs) = BITMAP) :
    isStrictAsc xs = true ∧ (∀ x ∈ xs, x < 65536) ∧ xs.length < 10000 := by
  obtain ⟨hs, hu, hf, hc⟩ := sel_bitmap_domain φ _ h
  simp only [analyze] at hs hu hf hc
  have hne : xs ≠ [] := by
    intro he; subst he
    simp [selectWith, analyze, TAGGED, BITMAP] at h
  refine ⟨?_, ?_, hc⟩
  · apply asc_changes_strict xs hs
    unfold uniqueOf at hu
    rw [if_neg hne, hs] at hu
    simpa using hu
  · intro x hx
    have := FOR.le_maxL xs x hx
    have hm : FOR.maxL xs < 65536 := by simpa using hf
    omega

/-! ## 7. MAIN: lossless whatever is selected -/

/-- for EVERY outcome of the selector's three floating-point comparisons: the adaptive encoding of a non-empty
    array of 64-bit values with a 32-bit count decodes, with the original count as capacity, to the original
    array — same order, same duplicates, same length — whatever follows the encoded bytes. The only proviso:
    when DICT is selected the dictionary encoder must have accepted the array (at most 2^20 distinct values;
    otherwise it writes nothing). -/
theorem adaptive_roundtrip_sel (φ : FloatPreds) (xs : List Nat) (hne : xs ≠ []) (hx : ∀ x ∈ xs, x < 2 ^ 64)
    (hn : xs.length < 2 ^ 32) (hacc : selectWith φ (analyze xs) = DICT → Dict.enc xs ≠ [])
    (rest : List Nat) :
    decodeAll (encodeWith (selectWith φ (analyze xs)) xs ++ rest) xs.length = some xs := by
  rcases selectWith_cases φ (analyze xs) with h | h | h | h | h | h
  · rw [h]; exact tagged_forced TAGGED (by simp [TAGGED]) xs hx (by omega) rest
  · rw [h]; exact dict_forced xs hx hn (hacc h) rest
  · obtain ⟨hasc, hlt, _⟩ := sel_bitmap_input φ xs h
    rw [h]; exact bitmap_forced xs hasc hlt rest
  · rw [h]; exact delta_forced xs hx rest
  · rw [h]; exact pfor_forced xs ⟨hne, hn, hx⟩ rest
  · rw [h]; exact for_forced xs ⟨hne, hx, by omega⟩ rest

theorem adaptive_roundtrip (xs : List Nat) (hne : xs ≠ []) (hx : ∀ x ∈ xs, x < 2 ^ 64)
    (hn : xs.length < 2 ^ 32) (hacc : select xs = DICT → Dict.enc xs ≠ []) (rest : List Nat) :
    decodeAll (encode xs ++ rest) xs.length = some xs :=
  adaptive_roundtrip_sel (floatPreds (analyze xs)) xs hne hx hn hacc rest

/-! ## 8. capacity, arbitrary bytes -/

theorem decDeltas_length : ∀ (n cur : Nat) (bs vs r : List Nat),
    Delta.decDeltas n cur bs = some (vs, r) → vs.length = n
  | 0, _, _, vs, r, h => by
    simp only [Delta.decDeltas, Option.some.injEq, Prod.mk.injEq] at h
    rw [← h.1]; rfl
  | n + 1, cur, bs, vs, r, h => by
    unfold Delta.decDeltas at h
    cases hg : Delta.getField bs with
    | none => rw [hg] at h; cases h
    | some p =>
      obtain ⟨z, rest⟩ := p
      rw [hg] at h
      simp only [] at h
      cases hd : Delta.decDeltas n ((cur + Delta.unzz z) % 2 ^ 64) rest with
      | none => rw [hd] at h; cases h
      | some q =>
        obtain ⟨vs', r'⟩ := q
        rw [hd] at h
        simp only [Option.some.injEq, Prod.mk.injEq] at h
        rw [← h.1, List.length_cons, decDeltas_length n _ rest vs' r' hd]

theorem decU_length (n : Nat) (bs vs : List Nat) (k : Nat) (h : Delta.decU n bs = some (vs, k)) :
    vs.length = n := by
  cases n with
  | zero =>
    simp only [Delta.decU, Option.some.injEq, Prod.mk.injEq] at h
    rw [← h.1]; rfl
  | succ n =>
    unfold Delta.decU at h
    cases hg : Delta.getField bs with
    | none => rw [hg] at h; cases h
    | some p =>
      obtain ⟨b, rest⟩ := p
      rw [hg] at h
      simp only [] at h
      cases hd : Delta.decDeltas n b rest with
      | none => rw [hd] at h; cases h
      | some q =>
        obtain ⟨vs', r'⟩ := q
        rw [hd] at h
        simp only [Option.some.injEq, Prod.mk.injEq] at h
        rw [← h.1, List.length_cons, decDeltas_length n _ rest vs' r' hd]

theorem readOffsets_length : ∀ (n mn w : Nat) (bs vs : List Nat),
    FOR.readOffsets n mn w bs = some vs → vs.length = n
  | 0, _, _, _, vs, h => by
    simp only [FOR.readOffsets, Option.some.injEq] at h
    rw [← h]; rfl
  | n + 1, mn, w, bs, vs, h => by
    unfold FOR.readOffsets at h
    cases ht : takeExact w bs with
    | none => rw [ht] at h; cases h
    | some p =>
      rw [ht] at h
      simp only [] at h
      cases hr : FOR.readOffsets n mn w (bs.drop w) with
      | none => rw [hr] at h; cases h
      | some vs' =>
        rw [hr] at h
        simp only [Option.some.injEq] at h
        rw [← h, List.length_cons, readOffsets_length n mn w _ vs' hr]

theorem for_dec_length (bs : List Nat) (cap : Nat) (vs : List Nat) (h : FOR.dec bs cap = some (some vs)) :
    vs.length ≤ cap := by
  unfold FOR.dec at h
  cases hh : FOR.readHdr bs with
  | none => rw [hh] at h; cases h
  | some hd =>
    rw [hh] at h
    simp only [] at h
    by_cases c1 : hd.count > cap
    · rw [if_pos c1] at h; cases h
    · rw [if_neg c1] at h
      by_cases c2 : hd.width < 1 ∨ hd.width > 8
      · rw [if_pos c2] at h
        by_cases c3 : hd.count = 0
        · rw [if_pos c3] at h
          simp only [Option.some.injEq] at h
          rw [← h]; simp
        · rw [if_neg c3] at h; cases h
      · rw [if_neg c2] at h
        cases hr : FOR.readOffsets hd.count hd.minValue hd.width
            (bs.drop (Tagged.len hd.minValue + 1 + Tagged.len hd.count)) with
        | none => rw [hr] at h; cases h
        | some vs' =>
          rw [hr] at h
          simp only [Option.some.injEq] at h
          rw [← h, readOffsets_length _ _ _ _ _ hr]
          omega

theorem readSlots_length : ∀ (n mn w : Nat) (bs vs : List Nat),
    PFOR.readSlots n mn w bs = some vs → vs.length = n
  | 0, _, _, _, vs, h => by
    simp only [PFOR.readSlots, Option.some.injEq] at h
    rw [← h]; rfl
  | n + 1, mn, w, bs, vs, h => by
    unfold PFOR.readSlots at h
    cases ht : takeExact w bs with
    | none => rw [ht] at h; cases h
    | some p =>
      rw [ht] at h
      simp only [] at h
      cases hr : PFOR.readSlots n mn w (bs.drop w) with
      | none => rw [hr] at h; cases h
      | some vs' =>
        rw [hr] at h
        simp only [Option.map_some, Option.some.injEq] at h
        rw [← h, List.length_cons, readSlots_length n mn w _ vs' hr]

theorem applyExcs_length : ∀ (k : Nat) (vals bs vs : List Nat),
    PFOR.applyExcs k vals bs = some vs → vs.length = vals.length
  | 0, vals, _, vs, h => by
    simp only [PFOR.applyExcs, Option.some.injEq] at h
    rw [h]
  | k + 1, vals, bs, vs, h => by
    unfold PFOR.applyExcs at h
    cases h1 : Tagged.get bs with
    | fault => rw [h1] at h; cases h
    | short => rw [h1] at h; cases h
    | ok idx l1 =>
      rw [h1] at h
      simp only [] at h
      cases h2 : Tagged.get (bs.drop l1) with
      | fault => rw [h2] at h; cases h
      | short => rw [h2] at h; cases h
      | ok v l2 =>
        rw [h2] at h
        simp only [] at h
        rw [applyExcs_length k _ _ vs h]
        split
        · rw [List.length_set]
        · rfl

theorem pforBody_length (data : List Nat) (mn w cnt off : Nat) (vs : List Nat)
    (h : pforBody data mn w cnt off = some vs) : vs.length = cnt := by
  unfold pforBody at h
  split at h
  · cases h
  · simp only [] at h
    cases hr : PFOR.readSlots cnt mn w (data.drop off) with
    | none => rw [hr] at h; cases h
    | some vals =>
      rw [hr] at h
      simp only [] at h
      cases hg : Tagged.get ((data.drop off).drop (cnt * w)) with
      | fault => rw [hg] at h; cases h
      | short => rw [hg] at h; cases h
      | ok ec l3 =>
        rw [hg] at h
        simp only [] at h
        rw [applyExcs_length _ _ _ _ h, readSlots_length _ _ _ _ _ hr]

theorem pforArm_length (data : List Nat) (cap : Nat) (vs : List Nat) (h : pforArm data cap = some vs) :
    vs.length ≤ cap := by
  unfold pforArm at h
  cases h1 : Tagged.get data with
  | fault => rw [h1] at h; cases h
  | short => rw [h1] at h; cases h
  | ok mn l1 =>
    rw [h1] at h
    simp only [] at h
    cases h2 : data.drop l1 with
    | nil => rw [h2] at h; cases h
    | cons w r1 =>
      rw [h2] at h
      simp only [] at h
      cases h3 : Tagged.get r1 with
      | fault => rw [h3] at h; cases h
      | short => rw [h3] at h; cases h
      | ok cnt0 l2 =>
        rw [h3] at h
        simp only [] at h
        cases h4 : Tagged.get (r1.drop (l2 + cnt0 % 2 ^ 32 * w)) with
        | fault => rw [h4] at h; cases h
        | short => rw [h4] at h; cases h
        | ok ec l3 =>
          rw [h4] at h
          simp only [] at h
          by_cases c : cnt0 % 2 ^ 32 > cap
          · rw [if_pos c] at h
            simp only [Option.some.injEq] at h
            rw [← h]; simp
          · rw [if_neg c] at h
            rw [pforBody_length _ _ _ _ _ _ h]
            omega

theorem dictDecAux_length (bs : List Nat) (rem cap : Nat) (vs : List Nat)
    (h : (Bounded.dictDecAux bs rem (some cap)).1 = .ok vs) : vs.length ≤ cap := by
  unfold Bounded.dictDecAux at h
  split at h
  · cases h
  · split at h
    · cases h
    · cases h
    · split at h
      · cases h
      · split at h
        · cases h
        · split at h
          · cases h
          · cases h
          · split at h
            · cases h
            · cases h
            · rename_i cnt w2 _
              split at h
              · cases h
              · split at h
                · cases h
                · rename_i hov
                  split at h
                  · cases h
                  · simp only [] at h
                    have := Bounded.decIdx_length _ _ _ _ _ _ h
                    unfold Bounded.overCap at hov
                    simp at hov
                    omega

theorem decTaggedLoop_length (lim : Nat) : ∀ (n off : Nat) (bs vs : List Nat),
    decTaggedLoop lim n off bs = some vs → vs.length ≤ n
  | 0, _, _, vs, h => by
    simp only [decTaggedLoop, Option.some.injEq] at h
    rw [← h]; simp
  | n + 1, off, bs, vs, h => by
    unfold decTaggedLoop at h
    split at h
    · cases hg : Tagged.get bs with
      | fault => rw [hg] at h; cases h
      | short =>
        rw [hg] at h
        simp only [Option.some.injEq] at h
        rw [← h]; simp
      | ok v l =>
        rw [hg] at h
        simp only [] at h
        cases hr : decTaggedLoop lim n (off + l) (bs.drop l) with
        | none => rw [hr] at h; cases h
        | some r =>
          rw [hr] at h
          simp only [Option.map_some, Option.some.injEq] at h
          have := decTaggedLoop_length lim n _ _ r hr
          rw [← h, List.length_cons]
          omega
    · simp only [Option.some.injEq] at h
      rw [← h]; simp

/-- for ARBITRARY bytes and any capacity: whatever tag, whatever the codec finds, at most `maxCount` values are
    written -/
theorem decodeAll_length_le_cap (bs : List Nat) (cap : Nat) (vs : List Nat) (h : decodeAll bs cap = some vs) :
    vs.length ≤ cap := by
  cases bs with
  | nil => cases h
  | cons t data =>
    unfold decodeAll at h
    simp only [] at h
    by_cases h0 : t = DELTA
    · rw [if_pos h0] at h
      cases hd : Delta.decU cap data with
      | none => rw [hd] at h; cases h
      | some p =>
        obtain ⟨vs', k⟩ := p
        rw [hd] at h
        simp only [Option.map_some, Option.some.injEq] at h
        rw [← h, decU_length cap data vs' k hd]
        exact Nat.le_refl _
    · rw [if_neg h0] at h
      by_cases h1 : t = FOR_
      · rw [if_pos h1] at h
        cases hd : FOR.dec data cap with
        | none => rw [hd] at h; cases h
        | some o =>
          cases o with
          | none =>
            rw [hd] at h
            simp only [Option.some.injEq] at h
            rw [← h]; simp
          | some vs' =>
            rw [hd] at h
            simp only [Option.some.injEq] at h
            rw [← h]
            exact for_dec_length data cap vs' hd
      · rw [if_neg h1] at h
        by_cases h2 : t = PFOR_
        · rw [if_pos h2] at h
          exact pforArm_length data cap vs h
        · rw [if_neg h2] at h
          by_cases h3 : t = DICT
          · rw [if_pos h3] at h
            unfold dictArm at h
            cases hd : (Bounded.dictDecAux data (dictLenBound cap) (some cap)).1 with
            | fault => rw [hd] at h; cases h
            | err =>
              rw [hd] at h
              simp only [Option.some.injEq] at h
              rw [← h]; simp
            | ok vs' =>
              rw [hd] at h
              simp only [Option.some.injEq] at h
              rw [← h]
              exact dictDecAux_length data _ cap vs' hd
          · rw [if_neg h3] at h
            by_cases h4 : t = BITMAP
            · rw [if_pos h4] at h
              unfold bitmapArm at h
              cases hd : bitmapDecN data (1024 * 1024) with
              | fault => rw [hd] at h; cases h
              | err =>
                rw [hd] at h
                simp only [Option.some.injEq] at h
                rw [← h]; simp
              | ok bm =>
                rw [hd] at h
                simp only [] at h
                cases ha : bmToArray bm with
                | none => rw [ha] at h; cases h
                | some ws =>
                  rw [ha] at h
                  simp only [] at h
                  split at h
                  · cases h
                  · simp only [Option.some.injEq] at h
                    rw [← h]
                    exact List.length_take_le cap ws
            · rw [if_neg h4] at h
              exact decTaggedLoop_length _ cap 0 data vs h

/-! ## 9. encoded size against `varintAdaptiveMaxSize` -/

theorem sum_len_le : ∀ l : List Nat, (l.map Tagged.len).sum ≤ 9 * l.length
  | [] => by simp
  | a :: t => by
    have := sum_len_le t
    have := (Tagged.len_bounds a).2
    simp only [List.map_cons, List.sum_cons, List.length_cons]
    omega

theorem maxSize_pos (n : Nat) (h : 0 < n) : maxSize n = 19 + 17 * n := by
  unfold maxSize
  rw [if_neg (by omega)]
  omega

theorem tagged_size (t : Nat) (ht : 5 ≤ t) (xs : List Nat) (hne : xs ≠ []) :
    (encodeWith t xs).length ≤ maxSize xs.length := by
  have hpos : 0 < xs.length := List.length_pos_iff.mpr hne
  have := sum_len_le xs
  simp only [encodeWith, BITMAP, DICT, PFOR_, DELTA, FOR_,
    show ¬ (t = 0) by omega, show ¬ (t = 1) by omega, show ¬ (t = 2) by omega, show ¬ (t = 3) by omega,
    show ¬ (t = 4) by omega, if_false, List.length_cons]
  rw [Dict.length_flatMap_enc, maxSize_pos _ hpos]
  omega

theorem delta_size (xs : List Nat) (hne : xs ≠ []) (hx : ∀ x ∈ xs, x < 2 ^ 64) :
    (encodeWith DELTA xs).length ≤ maxSize xs.length := by
  have hpos : 0 < xs.length := List.length_pos_iff.mpr hne
  have h := Delta.encU_length_le xs hx
  unfold Delta.maxSize at h
  rw [if_neg (by omega)] at h
  simp only [encodeWith, if_true, List.length_cons]
  rw [maxSize_pos _ hpos]
  omega

theorem for_size (xs : List Nat) (g : FOR.Good xs) :
    (encodeWith FOR_ xs).length ≤ maxSize xs.length := by
  have hpos : 0 < xs.length := List.length_pos_iff.mpr g.ne
  obtain ⟨_, _, _, hw8, _⟩ := FOR.analyze_facts xs g
  have h1 := (Tagged.len_bounds (FOR.analyze xs).minValue).2
  have h2 := (Tagged.len_bounds xs.length).2
  have h3 : xs.length * (FOR.analyze xs).offsetWidth ≤ xs.length * 8 := Nat.mul_le_mul_left _ hw8
  have he : (FOR.analyze xs).encodedSize = Tagged.len (FOR.analyze xs).minValue + 1 + Tagged.len xs.length +
      xs.length * (FOR.analyze xs).offsetWidth := rfl
  simp only [encodeWith, FOR_, DELTA, show ¬ (1 = 0) by omega, if_false, if_true, List.length_cons]
  rw [FOR.enc_length, he, maxSize_pos _ hpos]
  omega

theorem dict_size (xs : List Nat) (hne : xs ≠ []) :
    (encodeWith DICT xs).length ≤ maxSize xs.length := by
  have hpos : 0 < xs.length := List.length_pos_iff.mpr hne
  simp only [encodeWith, DICT, PFOR_, DELTA, FOR_,
    show ¬ (3 = 0) by omega, show ¬ (3 = 1) by omega, show ¬ (3 = 2) by omega, if_false, if_true,
    List.length_cons]
  rw [maxSize_pos _ hpos]
  by_cases hacc : Dict.enc xs = []
  · rw [hacc, List.length_nil]; omega
  · obtain ⟨_, hd⟩ := (Dict.enc_ne_nil_iff xs).mp hacc
    rw [Dict.enc_length xs hacc]
    unfold Dict.size
    rw [if_neg hne]
    simp only []
    rw [if_neg (by omega)]
    have h1 := (Tagged.len_bounds (Dict.build xs).length).2
    have h2 := (Tagged.len_bounds xs.length).2
    have h3 := sum_len_le (Dict.build xs)
    have h4 := Dict.build_length_le xs
    have h5 : xs.length * Dict.indexWidth (Dict.build xs).length ≤ xs.length * 8 :=
      Nat.mul_le_mul_left _ (indexWidth_le_8 _ hd)
    omega

/-! ### PFOR: how many values lie above the percentile -/

theorem filter_gt_sorted : ∀ (s : List Nat), List.Pairwise (· ≤ ·) s → ∀ (i : Nat) (hi : i < s.length),
    (s.filter (· > s[i])).length + i + 1 ≤ s.length
  | [], _, i, hi => by simp at hi
  | a :: t, hs, 0, _ => by
    have := List.length_filter_le (· > a) t
    simp only [List.getElem_cons_zero, List.length_cons]
    rw [List.filter_cons_of_neg (by simp)]
    omega
  | a :: t, hs, j + 1, hi => by
    rw [List.pairwise_cons] at hs
    have hj : j < t.length := by simpa using hi
    have ih := filter_gt_sorted t hs.2 j hj
    have ha : a ≤ t[j] := hs.1 _ (List.getElem_mem hj)
    simp only [List.getElem_cons_succ, List.length_cons]
    rw [List.filter_cons_of_neg (by simp; omega)]
    omega

/-- at most `count - 1 - thresholdIndex` exceptions, whatever the threshold -/
theorem pfor_exc_le (xs : List Nat) (hne : xs ≠ []) (t : Nat) :
    (PFOR.compute xs t).exceptionCount + PFOR.thrIdx xs.length t + 1 ≤ xs.length := by
  have hpos : 0 < xs.length := List.length_pos_iff.mpr hne
  have hslen : (xs.mergeSort (· ≤ ·)).length = xs.length := List.length_mergeSort xs
  have hidx : PFOR.thrIdx xs.length t < (xs.mergeSort (· ≤ ·)).length := by
    rw [hslen]; exact PFOR.thrIdx_lt t hpos
  have hthr : (PFOR.compute xs t).thresholdValue = (xs.mergeSort (· ≤ ·))[PFOR.thrIdx xs.length t] := by
    rw [PFOR.compute_thr, List.getD_eq_getElem?_getD, List.getElem?_eq_getElem hidx, Option.getD_some]
  have hperm : (xs.mergeSort (· ≤ ·)).Perm xs := List.mergeSort_perm xs _
  have hcount : (xs.filter (· > (PFOR.compute xs t).thresholdValue)).length
      = ((xs.mergeSort (· ≤ ·)).filter (· > (PFOR.compute xs t).thresholdValue)).length :=
    (hperm.filter _).length_eq.symm
  have := filter_gt_sorted _ (Dict.sort_pairwise xs) _ hidx
  rw [PFOR.compute_exceptionCount, hcount, hthr]
  omega

theorem len_le_5 (v : Nat) (h : v < 2 ^ 32) : Tagged.len v ≤ 5 := by
  unfold Tagged.len
  repeat' split
  all_goals omega

/-- PFOR stays inside `varintAdaptiveMaxSize` as long as the 32-bit product `count * 95` of
    `varintPFORComputeThreshold` does not wrap (count ≤ 45 210 182) -/
theorem pfor_size (xs : List Nat) (g : PFOR.Good xs) :
    (encodeWith PFOR_ xs).length ≤ maxSize xs.length := by
  have hpos : 0 < xs.length := List.length_pos_iff.mpr g.1
  have f := PFOR.compute_facts xs g 95
  have hle := PFOR.enc_length_le_size xs g 95
  have hex := pfor_exc_le xs g.1 95
  have hidx : PFOR.thrIdx xs.length 95 = xs.length * 95 / 100 := by
    unfold PFOR.thrIdx
    rw [if_neg (by omega)]
  rw [hidx] at hex
  have h1 := (Tagged.len_bounds (PFOR.compute xs 95).min).2
  have hc := f.count_eq
  have h2 := len_le_5 (PFOR.compute xs 95).count (by rw [hc]; exact g.2.1)
  have h3 := len_le_5 (PFOR.compute xs 95).exceptionCount (by have := f.exc_le; have := g.2.1; omega)
  have h4 := (Tagged.len_bounds ((PFOR.compute xs 95).count - 1)).2
  have h5 : (PFOR.compute xs 95).count * (PFOR.compute xs 95).width ≤ (PFOR.compute xs 95).count * 8 :=
    Nat.mul_le_mul_left _ f.width_le
  have h6 : (PFOR.compute xs 95).exceptionCount * (Tagged.len ((PFOR.compute xs 95).count - 1) + 9)
      ≤ (PFOR.compute xs 95).exceptionCount * 18 := Nat.mul_le_mul_left _ (by omega)
  unfold PFOR.size at hle
  simp only [encodeWith, PFOR_, DELTA, FOR_, show ¬ (2 = 0) by omega, show ¬ (2 = 1) by omega,
    if_false, if_true, List.length_cons]
  rw [maxSize_pos _ hpos]
  omega

/-! ### BITMAP: container shapes -/

/-- containers reachable by `Add` from an empty set: ARRAY up to 4096 members, BITMAP above -/
def Shape (s : St) : Prop := (s.ty = .array ∧ s.card ≤ 4096) ∨ (s.ty = .bitmap ∧ 4096 < s.card)

theorem add_shape (s : St) (v : Nat) (h : Shape s) :
    Shape (Bitmap.add s v).1 ∧ (Bitmap.add s v).1.card ≤ s.card + 1 := by
  obtain ⟨ty, card, bits⟩ := s
  unfold Shape at h ⊢
  cases ty with
  | runs => simp at h
  | array =>
    simp only [Bitmap.add, Bitmap.unrun, Bitmap.arrayMax]
    simp only [show ¬ (Bitmap.Ty.array = Bitmap.Ty.runs) by decide, if_false]
    simp at h
    split
    · simp; omega
    · split
      · simp; omega
      · simp; omega
  | bitmap =>
    simp only [Bitmap.add, Bitmap.unrun, Bitmap.arrayMax]
    simp only [show ¬ (Bitmap.Ty.bitmap = Bitmap.Ty.runs) by decide, if_false]
    simp at h
    split
    · simp; omega
    · simp; omega

theorem addMany_shape (vs : List Nat) : ∀ (s : St), Shape s →
    Shape (Bitmap.addMany s vs) ∧ (Bitmap.addMany s vs).card ≤ s.card + vs.length := by
  induction vs with
  | nil => intro s h; exact ⟨h, by simp [Bitmap.addMany]⟩
  | cons v vs ih =>
    intro s h
    obtain ⟨h1, h2⟩ := add_shape s v h
    obtain ⟨h3, h4⟩ := ih _ h1
    simp only [Bitmap.addMany, List.foldl_cons, List.length_cons] at h3 h4 ⊢
    exact ⟨h3, by omega⟩

theorem length_leB (k v : Nat) : (Bitmap.leB k v).length = k := by
  rw [Bitmap.leB_eq, leBytes_length]

theorem bitmap_size (xs : List Nat) (hne : xs ≠ []) :
    (encodeWith BITMAP xs).length ≤ maxSize xs.length := by
  have hpos : 0 < xs.length := List.length_pos_iff.mpr hne
  have hfl : ∀ v ∈ xs.filter (· < 65536), v < 65536 := by
    intro v hv
    simpa using (List.mem_filter.mp hv).2
  obtain ⟨_, hi⟩ := Bitmap.addMany_spec _ Bitmap.init hfl Bitmap.inv_init
  obtain ⟨hsh, hcard⟩ := addMany_shape (xs.filter (· < 65536)) Bitmap.init (Or.inl ⟨rfl, by simp [Bitmap.init]⟩)
  have hlen := Bitmap.members_length _ hi
  have hfl2 := List.length_filter_le (· < 65536) xs
  have hc0 : Bitmap.init.card = 0 := rfl
  have hf : Bitmap.leB 2 = leBytes 2 := funext (Bitmap.leB_eq 2)
  simp only [encodeWith, BITMAP, DICT, PFOR_, DELTA, FOR_,
    show ¬ (4 = 0) by omega, show ¬ (4 = 1) by omega, show ¬ (4 = 2) by omega, show ¬ (4 = 3) by omega,
    if_false, if_true, List.length_cons]
  rw [maxSize_pos _ hpos]
  rcases hsh with ⟨hty, hle⟩ | ⟨hty, hgt⟩
  · unfold Bitmap.encode
    rw [hty]
    simp only [List.length_cons, List.length_append, length_leB, hf, Bitmap.length_flatMap_leBytes2, hlen]
    omega
  · unfold Bitmap.encode
    rw [hty]
    simp only [List.length_cons, List.length_append, length_leB]
    omega

/-- whatever is selected (every outcome of the float comparisons), the output fits `varintAdaptiveMaxSize(count)`
    (since the PFOR percentile index is a 64-bit product this needs no bound beyond count < 2^32) -/
theorem adaptive_size_sel (φ : FloatPreds) (xs : List Nat) (hne : xs ≠ []) (hx : ∀ x ∈ xs, x < 2 ^ 64)
    (hn : xs.length < 2 ^ 32) :
    (encodeWith (selectWith φ (analyze xs)) xs).length ≤ maxSize xs.length := by
  rcases selectWith_cases φ (analyze xs) with h | h | h | h | h | h
  · rw [h]; exact tagged_size TAGGED (by simp [TAGGED]) xs hne
  · rw [h]; exact dict_size xs hne
  · rw [h]; exact bitmap_size xs hne
  · rw [h]; exact delta_size xs hne hx
  · rw [h]; exact pfor_size xs ⟨hne, hn, hx⟩
  · rw [h]; exact for_size xs ⟨hne, hx, by omega⟩

theorem adaptive_size (xs : List Nat) (hne : xs ≠ []) (hx : ∀ x ∈ xs, x < 2 ^ 64)
    (hn : xs.length < 2 ^ 32) : (encode xs).length ≤ maxSize xs.length :=
  adaptive_size_sel (floatPreds (analyze xs)) xs hne hx hn

/-- up to 2^20 elements the dictionary encoder cannot refuse, so the round trip is unconditional -/
theorem adaptive_roundtrip_small (φ : FloatPreds) (xs : List Nat) (hne : xs ≠ []) (hx : ∀ x ∈ xs, x < 2 ^ 64)
    (hn : xs.length ≤ 1048576) (rest : List Nat) :
    decodeAll (encodeWith (selectWith φ (analyze xs)) xs ++ rest) xs.length = some xs :=
  adaptive_roundtrip_sel φ xs hne hx (by omega)
    (fun _ => (Dict.enc_ne_nil_iff xs).mpr ⟨hne, by
      have := Dict.build_length_le xs
      have : Dict.maxDict = 1048576 := rfl
      omega⟩) rest

/-! ## 10. non-vacuity -/

example : decodeAll (encodeWith PFOR_ [5, 2 ^ 64 - 1, 7, 7] ++ [1, 2]) 4 = some [5, 2 ^ 64 - 1, 7, 7] :=
  pfor_forced [5, 2 ^ 64 - 1, 7, 7] ⟨by simp, by simp, by simp⟩ [1, 2]

example : decodeAll (encodeWith DICT [9, 9, 300, 9] ++ [0]) 4 = some [9, 9, 300, 9] :=
  dict_forced [9, 9, 300, 9] (by simp) (by simp)
    ((Dict.enc_ne_nil_iff _).mpr ⟨by simp, by
      have := Dict.build_length_le [9, 9, 300, 9]
      have : Dict.maxDict = 1048576 := rfl
      simp only [List.length_cons, List.length_nil] at *
      omega⟩) [0]

example : decodeAll (encodeWith BITMAP [3, 4, 900, 65535] ++ [1]) 4 = some [3, 4, 900, 65535] :=
  bitmap_forced [3, 4, 900, 65535] (by decide) (by simp) [1]

example : decodeAll (encodeWith 77 [9, 70000]) 2 = some [9, 70000] := by decide
