import Varint.Model.Dimension
import Varint.Lemmas.Bytes
/- Lemmas about the dimension model: byte-range writes and reads, cell index injectivity. -/
namespace Varint.Dim

theorem writeAt_length (buf : List Nat) (off : Nat) (bs out : List Nat) (h : writeAt buf off bs = some out) :
    out.length = buf.length := by
  unfold writeAt at h
  split at h
  · cases h
    simp only [List.length_append, List.length_take, List.length_drop]
    omega
  · cases h

theorem readAt_writeAt_same (buf : List Nat) (off : Nat) (bs out : List Nat) (h : writeAt buf off bs = some out) :
    readAt out off bs.length = some bs := by
  unfold writeAt at h
  split at h
  · cases h
    rename_i hle
    unfold readAt
    have e : (buf.take off ++ bs ++ buf.drop (off + bs.length)).drop off = bs ++ buf.drop (off + bs.length) := by
      rw [List.append_assoc, List.drop_left' (by simp; omega)]
    rw [e, takeExact_append_self]
  · cases h

/-- a byte range that does not overlap the written range reads the same as before -/
theorem readAt_writeAt_disjoint (buf : List Nat) (off : Nat) (bs out : List Nat) (off' n : Nat)
    (h : writeAt buf off bs = some out) (hd : off' + n ≤ off ∨ off + bs.length ≤ off') :
    readAt out off' n = readAt buf off' n := by
  have hlen := writeAt_length buf off bs out h
  unfold writeAt at h
  split at h
  · cases h
    rename_i hle
    unfold readAt takeExact
    simp only [List.length_drop, hlen]
    by_cases hfit : n ≤ buf.length - off'
    · rw [if_pos hfit, if_pos hfit]
      congr 1
      apply List.ext_getElem?
      intro i
      simp only [List.getElem?_take, List.getElem?_drop]
      by_cases hi : i < n
      · simp only [hi, if_true]
        rcases hd with h1 | h1
        · -- before the written range
          rw [List.append_assoc, List.getElem?_append_left (by simp; omega), List.getElem?_take]
          simp [show off' + i < off by omega]
        · -- after the written range
          rw [List.getElem?_append_right (by simp; omega)]
          simp only [List.length_append, List.length_take, List.getElem?_drop]
          congr 1
          omega
      · simp [hi]
    · rw [if_neg hfit, if_neg hfit]
  · cases h

/-- bytes before the written range (the header) are untouched -/
theorem take_writeAt (buf : List Nat) (off : Nat) (bs out : List Nat) (k : Nat)
    (h : writeAt buf off bs = some out) (hk : k ≤ off) : out.take k = buf.take k := by
  unfold writeAt at h
  split at h
  · cases h
    rename_i hle
    rw [List.append_assoc, List.take_append_of_le_length (by simp; omega), List.take_take]
    congr 1; omega
  · cases h

theorem takeExact_eq_of_take (a b : List Nat) (k n : Nat) (h : a.take k = b.take k) (hl : a.length = b.length)
    (hn : n ≤ k) : takeExact n a = takeExact n b := by
  unfold takeExact
  rw [hl]
  have : a.take n = b.take n := by
    have := congrArg (List.take n) h
    simpa [List.take_take, Nat.min_eq_left hn] using this
  rw [this]

/-- the decoded header only depends on the first hdrLen bytes -/
theorem pairDecode_congr (a b : List Nat) (dim : Nat) (h : a.take (hdrLen dim) = b.take (hdrLen dim))
    (hl : a.length = b.length) : pairDecode a dim = pairDecode b dim := by
  unfold pairDecode
  simp only []
  have e1 := takeExact_eq_of_take a b (hdrLen dim) (rowWidthOf dim) h hl (by unfold hdrLen; omega)
  have h2 : (a.drop (rowWidthOf dim)).take (colWidthOf dim) = (b.drop (rowWidthOf dim)).take (colWidthOf dim) := by
    have := congrArg (List.drop (rowWidthOf dim)) h
    simp only [List.drop_take] at this
    unfold hdrLen at this
    have e : rowWidthOf dim + colWidthOf dim - rowWidthOf dim = colWidthOf dim := by omega
    rwa [e] at this
  have e2 : takeExact (colWidthOf dim) (a.drop (rowWidthOf dim)) = takeExact (colWidthOf dim) (b.drop (rowWidthOf dim)) := by
    unfold takeExact
    simp only [List.length_drop, hl, h2]
  rw [e1, e2]

theorem cellIndex_congr (a b : List Nat) (dim row col : Nat) (h : a.take (hdrLen dim) = b.take (hdrLen dim))
    (hl : a.length = b.length) : cellIndex a dim row col = cellIndex b dim row col := by
  unfold cellIndex
  rw [pairDecode_congr a b dim h hl]

/-- distinct cells of a matrix with `cols` columns have distinct indices -/
theorem index_inj (cols r c r' c' : Nat) (hc : c < cols) (hc' : c' < cols) (h : r * cols + c = r' * cols + c') :
    r = r' ∧ c = c' := by
  have hpos : 0 < cols := by omega
  have h1 : (r * cols + c) / cols = r := by
    rw [Nat.mul_comm, Nat.mul_add_div hpos, Nat.div_eq_of_lt hc, Nat.add_zero]
  have h2 : (r' * cols + c') / cols = r' := by
    rw [Nat.mul_comm, Nat.mul_add_div hpos, Nat.div_eq_of_lt hc', Nat.add_zero]
  have hr : r = r' := by rw [← h1, ← h2, h]
  subst hr
  exact ⟨rfl, by omega⟩

end Varint.Dim
