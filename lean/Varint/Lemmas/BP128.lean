import Varint.Model.BP128
import Varint.Lemmas.Bytes
import Varint.Lemmas.Tagged
/- Lemmas about the BP128 model: bit packing, round trips, size bound, capacity. Core Lean only. -/
namespace Varint.BP128
open Varint.Bits

/-! ## bits -/

theorem lsb_length (n v : Nat) : (lsb n v).length = n := by
  induction n generalizing v with
  | zero => rfl
  | succ n ih => simp [lsb, ih]

theorem ofLsb_lsb (n v : Nat) : ofLsb (lsb n v) = v % 2 ^ n := by
  induction n generalizing v with
  | zero => simp [lsb, ofLsb, Nat.mod_one]
  | succ n ih =>
    simp only [lsb, ofLsb, ih]
    rw [Nat.pow_succ', Nat.mod_mul]
    by_cases h : v % 2 = 1
    · simp [h]
    · have : v % 2 = 0 := by omega
      simp [this]

theorem ofLsb_lsb_of_lt {n v : Nat} (h : v < 2 ^ n) : ofLsb (lsb n v) = v := by
  rw [ofLsb_lsb, Nat.mod_eq_of_lt h]

theorem ofLsb_lt (bs : List Bool) : ofLsb bs < 2 ^ bs.length := by
  induction bs with
  | nil => simp [ofLsb]
  | cons b bs ih =>
    simp only [ofLsb, List.length_cons, Nat.pow_succ]
    cases b <;> simp <;> omega

/-- bit `i` of `ofLsb bs` is `bs[i]` -/
theorem ofLsb_bit (bs : List Bool) (i : Nat) :
    decide (ofLsb bs / 2 ^ i % 2 = 1) = bs.getD i false := by
  induction bs generalizing i with
  | nil => simp [ofLsb]
  | cons b bs ih =>
    cases i with
    | zero =>
      simp only [ofLsb, Nat.pow_zero, Nat.div_one, List.getD_cons_zero]
      cases b <;> simp <;> omega
    | succ i =>
      simp only [ofLsb, List.getD_cons_succ]
      rw [← ih i]
      have : ((if b = true then 1 else 0) + 2 * ofLsb bs) / 2 ^ (i + 1) = ofLsb bs / 2 ^ i := by
        rw [Nat.pow_succ', ← Nat.div_div_eq_div_mul]
        congr 1
        cases b <;> simp <;> omega
      simp only [this]

theorem packLsb_eq (bits : List Bool) :
    packLsb bits = if bits = [] then [] else ofLsb (bits.take 8) :: packLsb (bits.drop 8) := by
  rcases bits with _ | ⟨b0, _ | ⟨b1, _ | ⟨b2, _ | ⟨b3, _ | ⟨b4, _ | ⟨b5, _ | ⟨b6, _ | ⟨b7, r⟩⟩⟩⟩⟩⟩⟩⟩ <;>
    simp [packLsb]

theorem packLsb_length (bits : List Bool) : (packLsb bits).length = (bits.length + 7) / 8 := by
  induction h : bits.length using Nat.strongRecOn generalizing bits with
  | _ n ih =>
    rw [packLsb_eq]
    by_cases hb : bits = []
    · subst hb; simp at h; subst h; simp
    · rw [if_neg hb]
      have hpos : 0 < bits.length := List.length_pos_iff.mpr hb
      simp only [List.length_cons]
      rw [ih (bits.length - 8) (by omega) (bits.drop 8) (by simp)]
      omega

theorem packLsb_lt (bits : List Bool) : ∀ b ∈ packLsb bits, b < 256 := by
  induction h : bits.length using Nat.strongRecOn generalizing bits with
  | _ n ih =>
    rw [packLsb_eq]
    by_cases hb : bits = []
    · simp [hb]
    · rw [if_neg hb]
      have hpos : 0 < bits.length := List.length_pos_iff.mpr hb
      intro b hmem
      simp only [List.mem_cons] at hmem
      rcases hmem with rfl | hmem
      · have h1 := ofLsb_lt (bits.take 8)
        have h2 : 2 ^ (bits.take 8).length ≤ 2 ^ 8 := Nat.pow_le_pow_right (by omega) (by simp; omega)
        omega
      · exact ih (bits.length - 8) (by omega) (bits.drop 8) (by simp) b hmem

theorem bitLsb_cons (a : Nat) (l : List Nat) (i : Nat) (h : 8 ≤ i) :
    bitLsb (a :: l) i = bitLsb l (i - 8) := by
  unfold bitLsb
  have h1 : i / 8 = (i - 8) / 8 + 1 := by omega
  have h2 : i % 8 = (i - 8) % 8 := by omega
  rw [h1, h2, List.getElem?_cons_succ]

/-- reading bit `i` of packed bits -/
theorem bitLsb_packLsb (bits : List Bool) (rest : List Nat) (i : Nat) (hi : i < bits.length) :
    bitLsb (packLsb bits ++ rest) i = bits[i]? := by
  induction h : bits.length using Nat.strongRecOn generalizing bits i with
  | _ n ih =>
    rw [packLsb_eq]
    have hb : bits ≠ [] := by intro hb; subst hb; simp at hi
    rw [if_neg hb, List.cons_append]
    by_cases h8 : 8 ≤ i
    · rw [bitLsb_cons _ _ _ h8, ih (bits.length - 8) (by omega) (bits.drop 8) (i - 8) (by simp; omega) (by simp)]
      rw [List.getElem?_drop]
      congr 1; omega
    · have hi8 : i < 8 := by omega
      unfold bitLsb
      have h1 : i / 8 = 0 := by omega
      have h2 : i % 8 = i := by omega
      rw [h1, h2]
      simp only [List.getElem?_cons_zero, Option.map_some]
      rw [ofLsb_bit]
      rw [List.getD_eq_getElem?_getD, List.getElem?_take_of_lt hi8]
      rw [List.getElem?_eq_getElem hi]
      simp

theorem bitLsb_packLsb_getElem (bits : List Bool) (rest : List Nat) (i : Nat) (hi : i < bits.length) :
    bitLsb (packLsb bits ++ rest) i = some bits[i] := by
  rw [bitLsb_packLsb bits rest i hi, List.getElem?_eq_getElem hi]

/-! ## unpack -/

theorem mapM_some {α β : Type} (l : List α) (f : α → Option β) (g : α → β)
    (h : ∀ a ∈ l, f a = some (g a)) : l.mapM f = some (l.map g) := by
  induction l with
  | nil => simp
  | cons a l ih =>
    rw [List.mapM_cons, h a (by simp), ih (fun x hx => h x (by simp [hx]))]
    simp

theorem range_map_getD (l : List Bool) (n : Nat) (h : l.length = n) :
    (List.range n).map (fun b => l.getD b false) = l := by
  apply List.ext_getElem
  · simp [h]
  · intro i h1 h2
    simp [List.getElem?_eq_getElem h2]

theorem flatMap_lsb_length (bw : Nat) (vs : List Nat) : (vs.flatMap (lsb bw)).length = vs.length * bw := by
  induction vs with
  | nil => simp
  | cons v vs ih => simp [List.flatMap_cons, lsb_length, ih, Nat.add_mul]; omega

/-- core: if `bytes` carries the bit list `pre ++ (bits of vs) ++ post`, then unpacking `vs.length` values
    from position `pre.length` gives `vs` -/
theorem unpack_of_bits (bytes : List Nat) (bw : Nat) (vs : List Nat) (hv : ∀ v ∈ vs, v < 2 ^ bw)
    (pre post : List Bool)
    (H : ∀ i, i < (pre ++ (vs.flatMap (lsb bw) ++ post)).length →
      bitLsb bytes i = (pre ++ (vs.flatMap (lsb bw) ++ post))[i]?) :
    unpack bytes bw vs.length pre.length = some vs := by
  induction vs generalizing pre with
  | nil => simp [unpack]
  | cons v vs ih =>
    simp only [List.length_cons, unpack]
    have hm : (List.range bw).mapM (fun b => bitLsb bytes (pre.length + b)) = some (lsb bw v) := by
      rw [mapM_some _ _ (fun b => (lsb bw v).getD b false), range_map_getD _ _ (lsb_length bw v)]
      intro b hb
      have hb : b < bw := by simpa using hb
      rw [H (pre.length + b) (by simp [lsb_length]; omega)]
      rw [List.getElem?_append_right (by omega), List.flatMap_cons, List.append_assoc]
      have : pre.length + b - pre.length = b := by omega
      rw [this, List.getElem?_append_left (by rw [lsb_length]; exact hb)]
      rw [List.getD_eq_getElem?_getD, List.getElem?_eq_getElem (by rw [lsb_length]; exact hb)]
      simp
    rw [hm]
    simp only []
    have := ih (fun x hx => hv x (by simp [hx])) (pre ++ lsb bw v) (by
      intro i hi
      have e : pre ++ lsb bw v ++ (vs.flatMap (lsb bw) ++ post)
          = pre ++ ((v :: vs).flatMap (lsb bw) ++ post) := by
        simp [List.flatMap_cons, List.append_assoc]
      rw [e] at hi ⊢
      exact H i hi)
    rw [List.length_append, lsb_length] at this
    rw [this, ofLsb_lsb_of_lt (hv v (by simp))]
    rfl

/-- unpacking a prefix of a packed block -/
theorem unpack_packBlock_take (bw : Nat) (vs : List Nat) (hv : ∀ v ∈ vs, v < 2 ^ bw) (n : Nat)
    (hn : n ≤ vs.length) (rest : List Nat) :
    unpack (packBlock bw vs ++ rest) bw n 0 = some (vs.take n) := by
  have e : vs.flatMap (lsb bw) = [] ++ ((vs.take n).flatMap (lsb bw) ++ (vs.drop n).flatMap (lsb bw)) := by
    rw [List.nil_append, ← List.flatMap_append, List.take_append_drop]
  have := unpack_of_bits (packBlock bw vs ++ rest) bw (vs.take n)
    (fun v hx => hv v (List.mem_of_mem_take hx)) [] ((vs.drop n).flatMap (lsb bw)) (by
      intro i hi
      rw [← e] at hi ⊢
      exact bitLsb_packLsb _ rest i hi)
  rw [List.length_take, Nat.min_eq_left hn] at this
  exact this

/-- target 1: unpack after pack -/
theorem unpack_packBlock (bw : Nat) (vs : List Nat) (hv : ∀ v ∈ vs, v < 2 ^ bw) (rest : List Nat) :
    unpack (packBlock bw vs ++ rest) bw vs.length 0 = some vs := by
  have := unpack_packBlock_take bw vs hv vs.length (Nat.le_refl _) rest
  rwa [List.take_length] at this

theorem packBlock_length (bw : Nat) (vs : List Nat) : (packBlock bw vs).length = (vs.length * bw + 7) / 8 := by
  unfold packBlock
  rw [packLsb_length, flatMap_lsb_length]

theorem packBlock_lt (bw : Nat) (vs : List Nat) : ∀ b ∈ packBlock bw vs, b < 256 :=
  packLsb_lt _

theorem unpack_length (bytes : List Nat) (bw n pos : Nat) (vs : List Nat)
    (h : unpack bytes bw n pos = some vs) : vs.length = n := by
  induction n generalizing pos vs with
  | zero => simp [unpack] at h; subst h; rfl
  | succ n ih =>
    simp only [unpack] at h
    split at h
    · exact absurd h (by simp)
    · cases hr : unpack bytes bw n (pos + bw) with
      | none => rw [hr] at h; simp at h
      | some ws =>
        rw [hr] at h
        simp at h
        subst h
        simp [ih _ _ hr]

/-! ## bit width -/

theorem foldl_max_ge (xs : List Nat) (a : Nat) : a ≤ xs.foldl max a ∧ ∀ x ∈ xs, x ≤ xs.foldl max a := by
  induction xs generalizing a with
  | nil => simp
  | cons y ys ih =>
    simp only [List.foldl_cons]
    have := ih (max a y)
    refine ⟨by have := this.1; omega, ?_⟩
    intro x hx
    simp only [List.mem_cons] at hx
    rcases hx with rfl | hx
    · have := this.1; omega
    · exact this.2 x hx

theorem foldl_max_lt (xs : List Nat) (a b : Nat) (ha : a < b) (hx : ∀ x ∈ xs, x < b) : xs.foldl max a < b := by
  induction xs generalizing a with
  | nil => simpa
  | cons y ys ih =>
    simp only [List.foldl_cons]
    apply ih
    · have := hx y (by simp); omega
    · intro x hx'; exact hx x (by simp [hx'])

theorem le_maxL (xs : List Nat) : ∀ x ∈ xs, x ≤ maxL xs := (foldl_max_ge xs 0).2

theorem maxL_lt (xs : List Nat) (b : Nat) (hb : 0 < b) (hx : ∀ x ∈ xs, x < b) : maxL xs < b :=
  foldl_max_lt xs 0 b hb hx

theorem maxL_eq_zero (xs : List Nat) : maxL xs = 0 ↔ ∀ x ∈ xs, x = 0 := by
  constructor
  · intro h x hx
    have := le_maxL xs x hx
    omega
  · intro h
    have := maxL_lt xs 1 (by omega) (fun x hx => by rw [h x hx]; omega)
    omega

theorem lt_pow_bitsNeeded (m : Nat) : m < 2 ^ bitsNeeded m := by
  unfold bitsNeeded
  split
  · subst_vars; simp
  · exact Nat.lt_log2_self

theorem bitsNeeded_le {m k : Nat} (h : m < 2 ^ k) : bitsNeeded m ≤ k := by
  unfold bitsNeeded
  split
  · omega
  · rename_i hm
    have := (Nat.log2_lt hm).2 h
    omega

theorem bitsNeeded_eq_zero (m : Nat) : bitsNeeded m = 0 ↔ m = 0 := by
  unfold bitsNeeded
  split <;> simp [*]

theorem bitWidth_eq (xs : List Nat) : bitWidth xs = bitsNeeded (maxL xs) := rfl

theorem lt_pow_bitWidth (xs : List Nat) : ∀ x ∈ xs, x < 2 ^ bitWidth xs := by
  intro x hx
  exact Nat.lt_of_le_of_lt (le_maxL xs x hx) (lt_pow_bitsNeeded _)

theorem bitWidth_le (xs : List Nat) (k : Nat) (h : ∀ x ∈ xs, x < 2 ^ k) : bitWidth xs ≤ k :=
  bitsNeeded_le (maxL_lt xs _ (Nat.pow_pos (by omega)) h)

theorem bitWidth_le_64 (xs : List Nat) (h : ∀ x ∈ xs, x < 2 ^ 64) : bitWidth xs ≤ 64 := bitWidth_le xs 64 h

theorem bitWidth_eq_zero (xs : List Nat) : bitWidth xs = 0 ↔ ∀ x ∈ xs, x = 0 := by
  unfold bitWidth
  rw [bitsNeeded_eq_zero, maxL_eq_zero]

theorem eq_replicate_of_bitWidth_zero (xs : List Nat) (h : bitWidth xs = 0) :
    xs = List.replicate xs.length 0 := by
  rw [bitWidth_eq_zero] at h
  exact List.eq_replicate_iff.mpr ⟨rfl, h⟩

/-! ## block structure -/

theorem blocks_nil (b : Nat) : blocks b [] = [] := by
  cases b <;> simp [blocks]

theorem blocks_full (b : Nat) (xs : List Nat) (h : 128 ≤ xs.length) :
    blocks (b + 1) xs = fullBlock (xs.take 128) ++ blocks b (xs.drop 128) := by
  have h0 : ¬ xs.length = 0 := by omega
  simp only [blocks, if_neg h0]
  rw [if_pos (by omega)]

theorem blocks_part (b : Nat) (xs : List Nat) (h0 : xs ≠ []) (h : xs.length < 128) :
    blocks (b + 1) xs = partBlock xs := by
  have h0 : ¬ xs.length = 0 := by
    intro h; exact h0 (List.length_eq_zero_iff.mp h)
  simp only [blocks, if_neg h0]
  rw [if_neg (by omega)]

/-- payload of a block -/
def payload (ys : List Nat) : List Nat := if bitWidth ys = 0 then [] else packBlock (bitWidth ys) ys

theorem fullBlock_eq (ys : List Nat) : fullBlock ys = bitWidth ys :: payload ys := rfl
theorem partBlock_eq (ys : List Nat) : partBlock ys = (128 + bitWidth ys) :: ys.length :: payload ys := rfl

theorem payload_length (ys : List Nat) :
    (payload ys).length = if bitWidth ys = 0 then 0 else (ys.length * bitWidth ys + 7) / 8 := by
  unfold payload
  split
  · rfl
  · exact packBlock_length _ _

theorem payload_zero (ys : List Nat) (h : bitWidth ys = 0) : payload ys = [] := by
  simp [payload, h]

theorem payload_unpack (ys : List Nat) (h : bitWidth ys ≠ 0) (n : Nat) (hn : n ≤ ys.length) (t : List Nat) :
    unpack (payload ys ++ t) (bitWidth ys) n 0 = some (ys.take n) := by
  unfold payload
  rw [if_neg h]
  exact unpack_packBlock_take _ ys (lt_pow_bitWidth ys) n hn t

theorem payload_drop (ys : List Nat) (h : bitWidth ys ≠ 0) (t : List Nat) :
    (payload ys ++ t).drop ((ys.length * bitWidth ys + 7) / 8) = t := by
  have := payload_length ys
  rw [if_neg h] at this
  rw [← this]
  exact List.drop_left

theorem take_zero_block (ys : List Nat) (h : bitWidth ys = 0) (n : Nat) (hn : n ≤ ys.length) :
    List.replicate n 0 = ys.take n := by
  have := eq_replicate_of_bitWidth_zero ys h
  rw [this, List.take_replicate, Nat.min_eq_left hn]

/-! ## dec32 -/

theorem dec32Aux_fullBlock (fuel room : Nat) (ys t : List Nat) (hl : ys.length = 128)
    (hbw : bitWidth ys ≤ 64) (hr : 128 ≤ room) :
    dec32Aux (fuel + 1) room (fullBlock ys ++ t) = (dec32Aux fuel (room - 128) t).map (ys ++ ·) := by
  rw [fullBlock_eq, List.cons_append]
  have hr0 : ¬ room = 0 := by omega
  have hh : ¬ bitWidth ys ≥ 128 := by omega
  have hr1 : ¬ room < 128 := by omega
  simp only [dec32Aux, if_neg hr0, if_neg hh, if_neg hr1]
  by_cases hz : bitWidth ys = 0
  · rw [if_pos hz, payload_zero ys hz, List.nil_append]
    have := take_zero_block ys hz 128 (by omega)
    rw [← hl, List.take_length, hl] at this
    rw [this]
  · rw [if_neg hz]
    have hu := payload_unpack ys hz 128 (by omega) t
    rw [← hl, List.take_length, hl] at hu
    rw [hu]
    simp only []
    have hd := payload_drop ys hz t
    rw [hl] at hd
    rw [hd]

theorem dec32Aux_partBlock (fuel room : Nat) (ys t : List Nat) (hne : ys ≠ [])
    (hbw : bitWidth ys ≤ 64) (hr : ys.length ≤ room) :
    dec32Aux (fuel + 1) room (partBlock ys ++ t) = some ys := by
  rw [partBlock_eq, List.cons_append, List.cons_append]
  have hpos : 0 < ys.length := List.length_pos_iff.mpr hne
  have hr0 : ¬ room = 0 := by omega
  have hh : 128 + bitWidth ys ≥ 128 := by omega
  have hc : ¬ ys.length > room := by omega
  have hm : (128 + bitWidth ys) % 128 = bitWidth ys := by omega
  simp only [dec32Aux, if_neg hr0, if_pos hh, if_neg hc, hm]
  by_cases hz : bitWidth ys = 0
  · rw [if_pos hz, take_zero_block ys hz ys.length (Nat.le_refl _), List.take_length]
  · rw [if_neg hz, payload_unpack ys hz ys.length (Nat.le_refl _) t, List.take_length]

theorem dec32Aux_blocks (fuel : Nat) : ∀ (bfuel : Nat) (xs : List Nat) (room : Nat) (rest : List Nat),
    (∀ x ∈ xs, x < 2 ^ 64) → xs.length < bfuel → xs.length / 128 + 1 ≤ fuel →
    (room = xs.length ∨ (xs.length ≤ room ∧ xs.length % 128 ≠ 0)) →
    dec32Aux fuel room (blocks bfuel xs ++ rest) = some xs := by
  induction fuel with
  | zero => intro bfuel xs room rest _ _ hf; omega
  | succ fuel ih =>
    intro bfuel xs room rest hx hb hf hr
    cases bfuel with
    | zero => omega
    | succ b =>
      by_cases h0 : xs = []
      · subst h0
        have : room = 0 := by simpa using hr
        subst this
        simp [dec32Aux]
      · have hpos : 0 < xs.length := List.length_pos_iff.mpr h0
        by_cases h128 : 128 ≤ xs.length
        · rw [blocks_full b xs h128, List.append_assoc]
          have hyl : (xs.take 128).length = 128 := by rw [List.length_take]; omega
          have hyb : bitWidth (xs.take 128) ≤ 64 :=
            bitWidth_le_64 _ (fun x hm => hx x (List.mem_of_mem_take hm))
          rw [dec32Aux_fullBlock fuel room _ _ hyl hyb (by omega)]
          rw [ih b (xs.drop 128) (room - 128) rest (fun x hm => hx x (List.mem_of_mem_drop hm))
            (by rw [List.length_drop]; omega) (by rw [List.length_drop]; omega)
            (by rw [List.length_drop]; omega)]
          simp
        · rw [blocks_part b xs h0 (by omega)]
          exact dec32Aux_partBlock fuel room xs rest h0 (bitWidth_le_64 _ hx) (by omega)

theorem lt64_of_lt32 {xs : List Nat} (h : ∀ x ∈ xs, x < 2 ^ 32) : ∀ x ∈ xs, x < 2 ^ 64 := by
  intro x hx
  have := h x hx
  omega

/-- target 2: 32-bit form, capacity = count -/
theorem dec32_enc32 (xs : List Nat) (h : ∀ x ∈ xs, x < 2 ^ 32) (rest : List Nat) :
    dec32 (enc32 xs ++ rest) xs.length = some xs := by
  unfold dec32 enc32
  exact dec32Aux_blocks _ _ xs _ rest (lt64_of_lt32 h) (by omega) (by omega) (Or.inl rfl)

/-- target 2 (also for values < 2^64, which the model allows) -/
theorem dec32_enc32_64 (xs : List Nat) (h : ∀ x ∈ xs, x < 2 ^ 64) (rest : List Nat) :
    dec32 (enc32 xs ++ rest) xs.length = some xs := by
  unfold dec32 enc32
  exact dec32Aux_blocks _ _ xs _ rest h (by omega) (by omega) (Or.inl rfl)

/-- target 2, larger capacity when the stream ends with a short (count-prefixed) block -/
theorem dec32_enc32_cap (xs : List Nat) (h : ∀ x ∈ xs, x < 2 ^ 32) (cap : Nat) (hcap : xs.length ≤ cap)
    (hp : xs.length % 128 ≠ 0) (rest : List Nat) :
    dec32 (enc32 xs ++ rest) cap = some xs := by
  unfold dec32 enc32
  exact dec32Aux_blocks _ _ xs _ rest (lt64_of_lt32 h) (by omega) (by omega) (Or.inr ⟨hcap, hp⟩)

/-! ## dec64 -/

theorem dec64Aux_room_zero (fuel : Nat) (bs : List Nat) : dec64Aux fuel 0 bs = some [] := by
  cases fuel <;> simp [dec64Aux]

theorem dec64Aux_fullBlock (fuel room : Nat) (ys t : List Nat) (hl : ys.length = 128)
    (hbw : bitWidth ys ≤ 64) (hr : 128 ≤ room) :
    dec64Aux (fuel + 1) room (fullBlock ys ++ t) = (dec64Aux fuel (room - 128) t).map (ys ++ ·) := by
  rw [fullBlock_eq, List.cons_append]
  have hr0 : ¬ room = 0 := by omega
  have hh : ¬ bitWidth ys ≥ 128 := by omega
  have hr1 : ¬ 128 > room := by omega
  simp only [dec64Aux, if_neg hr0, if_neg hh, if_neg hr1]
  rw [if_neg (fun h => hh h.1)]
  by_cases hz : bitWidth ys = 0
  · rw [if_pos hz, payload_zero ys hz, List.nil_append]
    have := take_zero_block ys hz 128 (by omega)
    rw [← hl, List.take_length, hl] at this
    rw [this]
  · rw [if_neg hz]
    have hu := payload_unpack ys hz 128 (by omega) t
    rw [← hl, List.take_length, hl] at hu
    rw [hu]
    simp only []
    have hd := payload_drop ys hz t
    rw [hl] at hd
    rw [hd]

theorem dec64Aux_fullBlock_clip (fuel room : Nat) (ys t : List Nat) (hl : ys.length = 128)
    (hbw : bitWidth ys ≤ 64) (hr0 : room ≠ 0) (hr : room < 128) :
    dec64Aux (fuel + 1) room (fullBlock ys ++ t) = some (ys.take room) := by
  rw [fullBlock_eq, List.cons_append]
  have hh : ¬ bitWidth ys ≥ 128 := by omega
  have hr1 : 128 > room := by omega
  simp only [dec64Aux, if_neg hr0, if_neg hh, if_pos hr1, Nat.sub_self,
    dec64Aux_room_zero]
  rw [if_neg (fun h => hh h.1)]
  by_cases hz : bitWidth ys = 0
  · rw [if_pos hz, take_zero_block ys hz room (by omega)]
    simp
  · rw [if_neg hz, payload_unpack ys hz room (by omega) t]
    simp

theorem dec64Aux_partBlock (fuel room : Nat) (ys t : List Nat)
    (hbw : bitWidth ys ≤ 64) (hr0 : room ≠ 0) (hr : room ≤ ys.length) :
    dec64Aux (fuel + 1) room (partBlock ys ++ t) = some (ys.take room) := by
  rw [partBlock_eq, List.cons_append, List.cons_append]
  have hh : 128 + bitWidth ys ≥ 128 := by omega
  have hm : (128 + bitWidth ys) % 128 = bitWidth ys := by omega
  have hn : (if ys.length > room then room else ys.length) = room := by
    split <;> omega
  simp only [dec64Aux, if_neg hr0, if_pos hh, hm, List.headD_cons, List.drop_succ_cons, List.drop_zero,
    reduceCtorEq, and_false, if_false, hn, Nat.sub_self, dec64Aux_room_zero]
  by_cases hz : bitWidth ys = 0
  · rw [if_pos hz, take_zero_block ys hz room hr]
    simp
  · rw [if_neg hz, payload_unpack ys hz room hr t]
    simp

theorem dec64Aux_blocks (fuel : Nat) : ∀ (bfuel : Nat) (xs : List Nat) (room : Nat) (rest : List Nat),
    (∀ x ∈ xs, x < 2 ^ 64) → xs.length < bfuel → room ≤ 128 * fuel → room ≤ xs.length →
    dec64Aux fuel room (blocks bfuel xs ++ rest) = some (xs.take room) := by
  induction fuel with
  | zero =>
    intro bfuel xs room rest _ _ hf _
    have : room = 0 := by omega
    subst this
    simp [dec64Aux]
  | succ fuel ih =>
    intro bfuel xs room rest hx hb hf hr
    by_cases hr0 : room = 0
    · subst hr0; simp [dec64Aux]
    cases bfuel with
    | zero => omega
    | succ b =>
      have h0 : xs ≠ [] := by
        intro h; subst h; simp at hr; exact hr0 hr
      by_cases h128 : 128 ≤ xs.length
      · rw [blocks_full b xs h128, List.append_assoc]
        have hyl : (xs.take 128).length = 128 := by rw [List.length_take]; omega
        have hyb : bitWidth (xs.take 128) ≤ 64 :=
          bitWidth_le_64 _ (fun x hm => hx x (List.mem_of_mem_take hm))
        by_cases hrr : 128 ≤ room
        · rw [dec64Aux_fullBlock fuel room _ _ hyl hyb hrr]
          rw [ih b (xs.drop 128) (room - 128) rest (fun x hm => hx x (List.mem_of_mem_drop hm))
            (by rw [List.length_drop]; omega) (by omega)
            (by rw [List.length_drop]; omega)]
          have : room = 128 + (room - 128) := by omega
          rw [Option.map_some, this, List.take_add]
          have : 128 + (room - 128) - 128 = room - 128 := by omega
          rw [this]
        · rw [dec64Aux_fullBlock_clip fuel room _ _ hyl hyb hr0 (by omega)]
          rw [List.take_take, Nat.min_eq_left (by omega)]
      · rw [blocks_part b xs h0 (by omega)]
        exact dec64Aux_partBlock fuel room xs rest (bitWidth_le_64 _ hx) hr0 hr

/-- target 3, general: the decoder returns the first `min count cap` values -/
theorem dec64_enc64_take (xs : List Nat) (hne : xs ≠ []) (h : ∀ x ∈ xs, x < 2 ^ 64)
    (hn : xs.length < 2 ^ 64) (cap : Nat) (rest : List Nat) :
    dec64 (enc64 xs ++ rest) cap = some (xs.take cap) := by
  have h0 : ¬ xs.length = 0 := by
    intro h; exact hne (List.length_eq_zero_iff.mp h)
  unfold dec64 enc64
  rw [if_neg h0, List.append_assoc, Tagged.get_enc _ hn]
  simp only [List.drop_left]
  rw [dec64Aux_blocks _ _ xs _ rest h (by omega) (by omega) (Nat.min_le_left _ _)]
  by_cases hc : xs.length ≤ cap
  · rw [Nat.min_eq_left hc, List.take_length, List.take_of_length_le hc]
  · rw [Nat.min_eq_right (by omega)]

/-- target 3: 64-bit form -/
theorem dec64_enc64 (xs : List Nat) (hne : xs ≠ []) (h : ∀ x ∈ xs, x < 2 ^ 64) (hn : xs.length < 2 ^ 64)
    (cap : Nat) (hcap : xs.length ≤ cap) (rest : List Nat) :
    dec64 (enc64 xs ++ rest) cap = some xs := by
  rw [dec64_enc64_take xs hne h hn cap rest, List.take_of_length_le hcap]

/-! ## wrapping deltas and prefix sums -/

theorem sumsW_length (w prev : Nat) (ds : List Nat) : (sumsW w prev ds).length = ds.length := by
  induction ds generalizing prev with
  | nil => rfl
  | cons d ds ih => simp [sumsW, ih]

theorem deltasW_length (w prev : Nat) (xs : List Nat) : (deltasW w prev xs).length = xs.length := by
  induction xs generalizing prev with
  | nil => rfl
  | cons x xs ih => simp [deltasW, ih]

theorem sumsW_append (w prev : Nat) (a b : List Nat) :
    sumsW w prev (a ++ b) = sumsW w prev a ++ sumsW w ((sumsW w prev a).getLastD prev) b := by
  induction a generalizing prev with
  | nil => simp [sumsW]
  | cons d a ih =>
    simp only [List.cons_append, sumsW, List.getLastD_cons]
    rw [ih]

/-- target 4: all deltas are below 2^w -/
theorem deltasW_lt (w prev : Nat) (xs : List Nat) : ∀ d ∈ deltasW w prev xs, d < 2 ^ w := by
  induction xs generalizing prev with
  | nil => simp [deltasW]
  | cons x xs ih =>
    intro d hd
    simp only [deltasW, List.mem_cons] at hd
    rcases hd with rfl | hd
    · exact Nat.mod_lt _ (Nat.pow_pos (by omega))
    · exact ih x d hd

/-- target 4: prefix sums undo wrapping deltas -/
theorem sumsW_deltasW (w prev : Nat) (xs : List Nat) (hp : prev < 2 ^ w) (hx : ∀ x ∈ xs, x < 2 ^ w) :
    sumsW w prev (deltasW w prev xs) = xs := by
  induction xs generalizing prev with
  | nil => rfl
  | cons x xs ih =>
    have hxl : x < 2 ^ w := hx x (by simp)
    simp only [deltasW, sumsW]
    have e : (prev + (x + 2 ^ w - prev) % 2 ^ w) % 2 ^ w = x := by
      rw [Nat.add_mod_mod]
      have : prev + (x + 2 ^ w - prev) = x + 2 ^ w := by omega
      rw [this, Nat.add_mod_right, Nat.mod_eq_of_lt hxl]
    rw [e, ih x hxl (fun y hy => hx y (by simp [hy]))]

theorem deltasW_take (w prev : Nat) (xs : List Nat) (n : Nat) :
    (deltasW w prev xs).take n = deltasW w prev (xs.take n) := by
  induction xs generalizing prev n with
  | nil => simp [deltasW]
  | cons x xs ih =>
    cases n with
    | zero => simp [deltasW]
    | succ n => simp [deltasW, ih]

theorem payload_dec (ys : List Nat) (n : Nat) (hn : n ≤ ys.length) (t : List Nat) :
    (if bitWidth ys = 0 then some (List.replicate n 0) else unpack (payload ys ++ t) (bitWidth ys) n 0)
      = some (ys.take n) := by
  by_cases hz : bitWidth ys = 0
  · rw [if_pos hz, take_zero_block ys hz n hn]
  · rw [if_neg hz, payload_unpack ys hz n hn t]

theorem payload_drop' (ys : List Nat) (t : List Nat) :
    (payload ys ++ t).drop (if bitWidth ys = 0 then 0 else (ys.length * bitWidth ys + 7) / 8) = t := by
  by_cases hz : bitWidth ys = 0
  · rw [if_pos hz, payload_zero ys hz]; rfl
  · rw [if_neg hz, payload_drop ys hz t]

/-! ## decD32 -/

theorem decD32Aux_fullBlock (fuel room prev : Nat) (ys t : List Nat) (hl : ys.length = 128)
    (hbw : bitWidth ys ≤ 64) (hr : 128 ≤ room) :
    decD32Aux (fuel + 1) room prev (fullBlock ys ++ t)
      = (decD32Aux fuel (room - 128) ((sumsW 32 prev ys).getLastD prev) t).map (sumsW 32 prev ys ++ ·) := by
  rw [fullBlock_eq, List.cons_append]
  have hr0 : ¬ room = 0 := by omega
  have hh : ¬ bitWidth ys ≥ 128 := by omega
  have hr1 : ¬ room < 128 := by omega
  have hu := payload_dec ys 128 (by omega) t
  rw [← hl, List.take_length, hl] at hu
  have hd := payload_drop' ys t
  rw [hl] at hd
  simp only [decD32Aux, if_neg hr0, if_neg hh, if_neg hr1]
  rw [hu]
  simp only []
  rw [hd]

theorem decD32Aux_partBlock (fuel room prev : Nat) (ys t : List Nat) (hne : ys ≠ [])
    (hbw : bitWidth ys ≤ 64) (hr : ys.length ≤ room) :
    decD32Aux (fuel + 1) room prev (partBlock ys ++ t) = some (sumsW 32 prev ys) := by
  rw [partBlock_eq, List.cons_append, List.cons_append]
  have hpos : 0 < ys.length := List.length_pos_iff.mpr hne
  have hr0 : ¬ room = 0 := by omega
  have hh : 128 + bitWidth ys ≥ 128 := by omega
  have hc : ¬ ys.length > room := by omega
  have hm : (128 + bitWidth ys) % 128 = bitWidth ys := by omega
  have hu := payload_dec ys ys.length (Nat.le_refl _) t
  rw [List.take_length] at hu
  simp only [decD32Aux, if_neg hr0, if_pos hh, if_neg hc, hm]
  rw [hu]
  rfl

theorem decD32Aux_blocks (fuel : Nat) : ∀ (bfuel : Nat) (ds : List Nat) (room prev : Nat) (rest : List Nat),
    (∀ x ∈ ds, x < 2 ^ 64) → ds.length < bfuel → ds.length / 128 + 1 ≤ fuel →
    (room = ds.length ∨ (ds.length ≤ room ∧ ds.length % 128 ≠ 0)) →
    decD32Aux fuel room prev (blocks bfuel ds ++ rest) = some (sumsW 32 prev ds) := by
  induction fuel with
  | zero => intro bfuel xs room prev rest _ _ hf; omega
  | succ fuel ih =>
    intro bfuel xs room prev rest hx hb hf hr
    cases bfuel with
    | zero => omega
    | succ b =>
      by_cases h0 : xs = []
      · subst h0
        have : room = 0 := by simpa using hr
        subst this
        simp [decD32Aux, sumsW]
      · have hpos : 0 < xs.length := List.length_pos_iff.mpr h0
        by_cases h128 : 128 ≤ xs.length
        · rw [blocks_full b xs h128, List.append_assoc]
          have hyl : (xs.take 128).length = 128 := by rw [List.length_take]; omega
          have hyb : bitWidth (xs.take 128) ≤ 64 :=
            bitWidth_le_64 _ (fun x hm => hx x (List.mem_of_mem_take hm))
          rw [decD32Aux_fullBlock fuel room prev _ _ hyl hyb (by omega)]
          rw [ih b (xs.drop 128) (room - 128) _ rest (fun x hm => hx x (List.mem_of_mem_drop hm))
            (by rw [List.length_drop]; omega) (by rw [List.length_drop]; omega)
            (by rw [List.length_drop]; omega)]
          rw [Option.map_some, ← sumsW_append, List.take_append_drop]
        · rw [blocks_part b xs h0 (by omega)]
          exact decD32Aux_partBlock fuel room prev xs rest h0 (bitWidth_le_64 _ hx) (by omega)

theorem deltasW_lt64 (w : Nat) (hw : w ≤ 64) (prev : Nat) (xs : List Nat) :
    ∀ d ∈ deltasW w prev xs, d < 2 ^ 64 := by
  intro d hd
  exact Nat.lt_of_lt_of_le (deltasW_lt w prev xs d hd) (Nat.pow_le_pow_right (by omega) hw)

theorem decD32_encD_aux (x : Nat) (xs : List Nat) (hx : x < 2 ^ 32) (h : ∀ y ∈ xs, y < 2 ^ 32)
    (cap : Nat) (hcap : cap = xs.length + 1 ∨ (xs.length + 1 ≤ cap ∧ xs.length % 128 ≠ 0))
    (rest : List Nat) :
    decD32 (encD 32 (x :: xs) ++ rest) cap = some (x :: xs) := by
  have hc0 : ¬ cap = 0 := by omega
  unfold decD32 encD
  rw [if_neg hc0, List.append_assoc, Tagged.get_enc x (by omega)]
  simp only [List.drop_left]
  rw [Nat.mod_eq_of_lt hx]
  rw [decD32Aux_blocks _ _ (deltasW 32 x xs) (cap - 1) x rest (deltasW_lt64 32 (by omega) x xs)
    (by rw [deltasW_length]; omega) (by rw [deltasW_length]; omega)
    (by rw [deltasW_length]; omega)]
  rw [sumsW_deltasW 32 x xs hx h]
  rfl

/-- target 4: 32-bit delta form, capacity = count -/
theorem decD32_encD (xs : List Nat) (hne : xs ≠ []) (h : ∀ x ∈ xs, x < 2 ^ 32) (rest : List Nat) :
    decD32 (encD 32 xs ++ rest) xs.length = some xs := by
  cases xs with
  | nil => exact absurd rfl hne
  | cons x xs =>
    exact decD32_encD_aux x xs (h x (by simp)) (fun y hy => h y (by simp [hy])) _ (Or.inl rfl) rest

/-- target 4: larger capacity when the delta stream ends with a short (count-prefixed) block -/
theorem decD32_encD_cap (xs : List Nat) (hne : xs ≠ []) (h : ∀ x ∈ xs, x < 2 ^ 32) (cap : Nat)
    (hcap : xs.length ≤ cap) (hp : (xs.length - 1) % 128 ≠ 0) (rest : List Nat) :
    decD32 (encD 32 xs ++ rest) cap = some xs := by
  cases xs with
  | nil => exact absurd rfl hne
  | cons x xs =>
    simp only [List.length_cons] at hcap hp
    exact decD32_encD_aux x xs (h x (by simp)) (fun y hy => h y (by simp [hy])) cap
      (Or.inr ⟨hcap, by omega⟩) rest

/-! ## decD64 -/

theorem decD64Aux_room_zero (fuel prev : Nat) (bs : List Nat) : decD64Aux fuel 0 prev bs = some [] := by
  cases fuel <;> simp [decD64Aux]

theorem decD64Aux_fullBlock (fuel room prev : Nat) (ys t : List Nat) (hl : ys.length = 128)
    (hbw : bitWidth ys ≤ 64) (hr : 128 ≤ room) :
    decD64Aux (fuel + 1) room prev (fullBlock ys ++ t)
      = (decD64Aux fuel (room - 128) ((sumsW 64 prev ys).getLastD prev) t).map (sumsW 64 prev ys ++ ·) := by
  rw [fullBlock_eq, List.cons_append]
  have hr0 : ¬ room = 0 := by omega
  have hh : ¬ bitWidth ys ≥ 128 := by omega
  have hr1 : ¬ 128 > room := by omega
  have hu := payload_dec ys 128 (by omega) t
  rw [← hl, List.take_length, hl] at hu
  have hd := payload_drop' ys t
  rw [hl] at hd
  simp only [decD64Aux, if_neg hr0, if_neg hh, if_neg hr1]
  rw [if_neg (fun h => hh h.1), hu]
  simp only []
  rw [hd]

theorem decD64Aux_fullBlock_clip (fuel room prev : Nat) (ys t : List Nat) (hl : ys.length = 128)
    (hbw : bitWidth ys ≤ 64) (hr0 : room ≠ 0) (hr : room < 128) :
    decD64Aux (fuel + 1) room prev (fullBlock ys ++ t) = some (sumsW 64 prev (ys.take room)) := by
  rw [fullBlock_eq, List.cons_append]
  have hh : ¬ bitWidth ys ≥ 128 := by omega
  have hr1 : 128 > room := by omega
  have hu := payload_dec ys room (by omega) t
  simp only [decD64Aux, if_neg hr0, if_neg hh, if_pos hr1, Nat.sub_self, decD64Aux_room_zero]
  rw [if_neg (fun h => hh h.1), hu]
  simp

theorem decD64Aux_partBlock (fuel room prev : Nat) (ys t : List Nat)
    (hbw : bitWidth ys ≤ 64) (hr0 : room ≠ 0) :
    decD64Aux (fuel + 1) room prev (partBlock ys ++ t) = some (sumsW 64 prev (ys.take room)) := by
  rw [partBlock_eq, List.cons_append, List.cons_append]
  have hh : 128 + bitWidth ys ≥ 128 := by omega
  have hm : (128 + bitWidth ys) % 128 = bitWidth ys := by omega
  by_cases hc : ys.length > room
  · have hu := payload_dec ys room (by omega) t
    simp only [decD64Aux, if_neg hr0, if_pos hh, hm, List.headD_cons, List.drop_succ_cons, List.drop_zero,
      reduceCtorEq, and_false, if_false, if_pos hc]
    rw [hu]
  · have hu := payload_dec ys ys.length (Nat.le_refl _) t
    simp only [decD64Aux, if_neg hr0, if_pos hh, hm, List.headD_cons, List.drop_succ_cons, List.drop_zero,
      reduceCtorEq, and_false, if_false, if_neg hc]
    rw [hu, List.take_length, List.take_of_length_le (by omega)]

theorem decD64Aux_blocks (fuel : Nat) : ∀ (bfuel : Nat) (ds : List Nat) (room prev : Nat) (rest : List Nat),
    (∀ x ∈ ds, x < 2 ^ 64) → ds.length < bfuel → room < 128 * fuel →
    (room ≤ ds.length ∨ ds.length % 128 ≠ 0) →
    decD64Aux fuel room prev (blocks bfuel ds ++ rest) = some (sumsW 64 prev (ds.take room)) := by
  induction fuel with
  | zero => intro bfuel xs room prev rest _ _ hf; omega
  | succ fuel ih =>
    intro bfuel xs room prev rest hx hb hf hr
    by_cases hr0 : room = 0
    · subst hr0; simp [decD64Aux, sumsW]
    cases bfuel with
    | zero => omega
    | succ b =>
      have h0 : xs ≠ [] := by
        intro h; subst h; simp at hr; exact hr0 hr
      by_cases h128 : 128 ≤ xs.length
      · rw [blocks_full b xs h128, List.append_assoc]
        have hyl : (xs.take 128).length = 128 := by rw [List.length_take]; omega
        have hyb : bitWidth (xs.take 128) ≤ 64 :=
          bitWidth_le_64 _ (fun x hm => hx x (List.mem_of_mem_take hm))
        by_cases hrr : 128 ≤ room
        · rw [decD64Aux_fullBlock fuel room prev _ _ hyl hyb hrr]
          rw [ih b (xs.drop 128) (room - 128) _ rest (fun x hm => hx x (List.mem_of_mem_drop hm))
            (by rw [List.length_drop]; omega) (by omega)
            (by rw [List.length_drop]; omega)]
          have e : xs.take room = xs.take 128 ++ (xs.drop 128).take (room - 128) := by
            have : room = 128 + (room - 128) := by omega
            rw [this, List.take_add]
            have : 128 + (room - 128) - 128 = room - 128 := by omega
            rw [this]
          rw [Option.map_some, e, sumsW_append]
        · rw [decD64Aux_fullBlock_clip fuel room prev _ _ hyl hyb hr0 (by omega)]
          rw [List.take_take, Nat.min_eq_left (by omega)]
      · rw [blocks_part b xs h0 (by omega)]
        exact decD64Aux_partBlock fuel room prev xs rest (bitWidth_le_64 _ hx) hr0

/-- target 4, general 64-bit delta form: a prefix is returned; any capacity works when it does not exceed
    the count or when the delta stream ends with a short (count-prefixed) block -/
theorem decD64_encD_take (x : Nat) (xs : List Nat) (hx : x < 2 ^ 64) (h : ∀ y ∈ xs, y < 2 ^ 64)
    (cap : Nat) (hcap : cap ≤ xs.length + 1 ∨ xs.length % 128 ≠ 0) (rest : List Nat) :
    decD64 (encD 64 (x :: xs) ++ rest) cap = some ((x :: xs).take cap) := by
  unfold decD64
  by_cases hc0 : cap = 0
  · subst hc0; simp
  rw [if_neg hc0]
  unfold encD
  rw [List.append_assoc, Tagged.get_enc x hx]
  simp only [List.drop_left]
  rw [decD64Aux_blocks _ _ (deltasW 64 x xs) (cap - 1) x rest (deltasW_lt64 64 (by omega) x xs)
    (by rw [deltasW_length]; omega) (by omega)
    (by rw [deltasW_length]; omega)]
  rw [deltasW_take, sumsW_deltasW 64 x _ hx (fun y hy => h y (List.mem_of_mem_take hy))]
  obtain ⟨c, rfl⟩ : ∃ c, cap = c + 1 := ⟨cap - 1, by omega⟩
  simp

/-- target 4: 64-bit delta form, capacity = count -/
theorem decD64_encD (xs : List Nat) (hne : xs ≠ []) (h : ∀ x ∈ xs, x < 2 ^ 64) (rest : List Nat) :
    decD64 (encD 64 xs ++ rest) xs.length = some xs := by
  cases xs with
  | nil => exact absurd rfl hne
  | cons x xs =>
    rw [decD64_encD_take x xs (h x (by simp)) (fun y hy => h y (by simp [hy])) _
      (Or.inl (by simp)) rest, List.take_length]

/-- target 4: larger capacity when the delta stream ends with a short (count-prefixed) block -/
theorem decD64_encD_cap (xs : List Nat) (hne : xs ≠ []) (h : ∀ x ∈ xs, x < 2 ^ 64) (cap : Nat)
    (hcap : xs.length ≤ cap) (hp : (xs.length - 1) % 128 ≠ 0) (rest : List Nat) :
    decD64 (encD 64 xs ++ rest) cap = some xs := by
  cases xs with
  | nil => exact absurd rfl hne
  | cons x xs =>
    simp only [List.length_cons] at hcap hp
    rw [decD64_encD_take x xs (h x (by simp)) (fun y hy => h y (by simp [hy])) cap
      (Or.inr (by omega)) rest, List.take_of_length_le (by simpa using hcap)]

/-- target 4: smaller capacity gives the prefix -/
theorem decD64_encD_prefix (xs : List Nat) (hne : xs ≠ []) (h : ∀ x ∈ xs, x < 2 ^ 64) (cap : Nat)
    (hcap : cap ≤ xs.length) (rest : List Nat) :
    decD64 (encD 64 xs ++ rest) cap = some (xs.take cap) := by
  cases xs with
  | nil => exact absurd rfl hne
  | cons x xs =>
    simp only [List.length_cons] at hcap
    exact decD64_encD_take x xs (h x (by simp)) (fun y hy => h y (by simp [hy])) cap (Or.inl hcap) rest

/-! ## size bound -/

/-- bytes of the blocks of `n` values (`maxBytes` without the + 9) -/
def blkBound (n : Nat) : Nat := (n / 128) * (1 + 128 * 8) + (if n % 128 > 0 then 2 + (n % 128) * 8 else 0)

theorem maxBytes_eq (n : Nat) : maxBytes n = blkBound n + 9 := rfl

theorem blkBound_mono_succ (n : Nat) : blkBound n ≤ blkBound (n + 1) := by
  unfold blkBound
  split <;> split <;> omega

theorem payload_length_le (ys : List Nat) (hbw : bitWidth ys ≤ 64) : (payload ys).length ≤ ys.length * 8 := by
  rw [payload_length]
  split
  · omega
  · have : ys.length * bitWidth ys ≤ ys.length * 64 := Nat.mul_le_mul_left _ hbw
    omega

theorem blocks_length_le (bfuel : Nat) : ∀ (xs : List Nat), (∀ x ∈ xs, x < 2 ^ 64) → xs.length < bfuel →
    (blocks bfuel xs).length ≤ blkBound xs.length := by
  induction bfuel with
  | zero => intro xs _ h; omega
  | succ b ih =>
    intro xs hx hb
    by_cases h0 : xs = []
    · subst h0; rw [blocks_nil]; simp
    · have hpos : 0 < xs.length := List.length_pos_iff.mpr h0
      by_cases h128 : 128 ≤ xs.length
      · rw [blocks_full b xs h128, List.length_append, fullBlock_eq, List.length_cons]
        have hyl : (xs.take 128).length = 128 := by rw [List.length_take]; omega
        have hyb : bitWidth (xs.take 128) ≤ 64 :=
          bitWidth_le_64 _ (fun x hm => hx x (List.mem_of_mem_take hm))
        have h1 := payload_length_le _ hyb
        rw [hyl] at h1
        have h2 := ih (xs.drop 128) (fun x hm => hx x (List.mem_of_mem_drop hm))
          (by rw [List.length_drop]; omega)
        rw [List.length_drop] at h2
        have h3 : blkBound (xs.length - 128) + 1025 ≤ blkBound xs.length := by
          unfold blkBound
          split <;> split <;> omega
        omega
      · rw [blocks_part b xs h0 (by omega), partBlock_eq, List.length_cons, List.length_cons]
        have h1 := payload_length_le xs (bitWidth_le_64 _ hx)
        unfold blkBound
        rw [if_pos (by omega)]
        omega

/-- target 5 -/
theorem enc64_length_le (xs : List Nat) (h : ∀ x ∈ xs, x < 2 ^ 64) : (enc64 xs).length ≤ maxBytes xs.length := by
  rw [maxBytes_eq]
  unfold enc64
  split
  · simp
  · rw [List.length_append, Tagged.enc_length]
    have := (Tagged.len_bounds xs.length).2
    have := blocks_length_le (xs.length + 1) xs h (by omega)
    omega

/-- target 5 (values below 2^64 suffice) -/
theorem enc32_length_le64 (xs : List Nat) (h : ∀ x ∈ xs, x < 2 ^ 64) : (enc32 xs).length ≤ maxBytes xs.length := by
  rw [maxBytes_eq]
  unfold enc32
  have := blocks_length_le (xs.length + 1) xs h (by omega)
  omega

/-- target 5 -/
theorem enc32_length_le (xs : List Nat) (h : ∀ x ∈ xs, x < 2 ^ 32) : (enc32 xs).length ≤ maxBytes xs.length :=
  enc32_length_le64 xs (lt64_of_lt32 h)

/-- target 5: delta forms, any width up to 64 and any values (the deltas are reduced modulo 2^w) -/
theorem encD_length_le (w : Nat) (hw : w ≤ 64) (xs : List Nat) : (encD w xs).length ≤ maxBytes xs.length := by
  rw [maxBytes_eq]
  cases xs with
  | nil => simp [encD]
  | cons x xs =>
    unfold encD
    rw [List.length_append, Tagged.enc_length]
    have := (Tagged.len_bounds x).2
    have := blocks_length_le (xs.length + 1) (deltasW w x xs) (deltasW_lt64 w hw x xs)
      (by rw [deltasW_length]; omega)
    rw [deltasW_length] at this
    have := blkBound_mono_succ xs.length
    rw [List.length_cons]
    omega

theorem encD32_length_le (xs : List Nat) : (encD 32 xs).length ≤ maxBytes xs.length :=
  encD_length_le 32 (by omega) xs

theorem encD64_length_le (xs : List Nat) : (encD 64 xs).length ≤ maxBytes xs.length :=
  encD_length_le 64 (by omega) xs

/-! ## capacity, arbitrary bytes -/

theorem dec32Aux_cap (fuel : Nat) : ∀ (room : Nat) (bs vs : List Nat),
    dec32Aux fuel room bs = some vs → vs.length ≤ room := by
  induction fuel with
  | zero => intro room bs vs h; simp [dec32Aux] at h; subst h; simp
  | succ fuel ih =>
    intro room bs vs h
    simp only [dec32Aux] at h
    by_cases hr0 : room = 0
    · rw [if_pos hr0] at h; simp at h; subst h; simp
    rw [if_neg hr0] at h
    cases bs with
    | nil => simp at h
    | cons hd rest =>
      simp only [] at h
      by_cases hh : hd ≥ 128
      · rw [if_pos hh] at h
        cases rest with
        | nil => simp at h
        | cons cnt data =>
          simp only [] at h
          have hn : (if cnt > room then room % 256 else cnt) ≤ room := by
            split
            · exact Nat.mod_le _ _
            · omega
          generalize (if cnt > room then room % 256 else cnt) = n at h hn
          by_cases hz : hd % 128 = 0
          · rw [if_pos hz] at h; simp at h; subst h; simpa using hn
          · rw [if_neg hz] at h
            have := unpack_length _ _ _ _ _ h
            omega
      · rw [if_neg hh] at h
        by_cases hr : room < 128
        · rw [if_pos hr] at h; simp at h; subst h; simp
        rw [if_neg hr] at h
        by_cases hz : hd = 0
        · rw [if_pos hz] at h
          cases hrec : dec32Aux fuel (room - 128) rest with
          | none => rw [hrec] at h; simp at h
          | some ws =>
            rw [hrec] at h; simp at h; subst h
            have := ih _ _ _ hrec
            simp; omega
        · rw [if_neg hz] at h
          cases hu : unpack rest hd 128 0 with
          | none => rw [hu] at h; simp at h
          | some us =>
            rw [hu] at h
            simp only [] at h
            have hul := unpack_length _ _ _ _ _ hu
            cases hrec : dec32Aux fuel (room - 128) (rest.drop ((128 * hd + 7) / 8)) with
            | none => rw [hrec] at h; simp at h
            | some ws =>
              rw [hrec] at h; simp at h; subst h
              have := ih _ _ _ hrec
              simp; omega

/-- target 6 -/
theorem dec32_cap (bs : List Nat) (cap : Nat) (vs : List Nat) (h : dec32 bs cap = some vs) : vs.length ≤ cap :=
  dec32Aux_cap _ _ _ _ h

theorem dec64Aux_cap (fuel : Nat) : ∀ (room : Nat) (bs vs : List Nat),
    dec64Aux fuel room bs = some vs → vs.length ≤ room := by
  induction fuel with
  | zero => intro room bs vs h; simp [dec64Aux] at h; subst h; simp
  | succ fuel ih =>
    intro room bs vs h
    simp only [dec64Aux] at h
    by_cases hr0 : room = 0
    · rw [if_pos hr0] at h; simp at h; subst h; simp
    rw [if_neg hr0] at h
    cases bs with
    | nil => simp at h
    | cons hd rest =>
      simp only [] at h
      generalize (if hd ≥ 128 then (hd % 128, rest.headD 0, rest.drop 1) else (hd, 128, rest)) = trip at h
      obtain ⟨bw, blk, data⟩ := trip
      simp only [] at h
      split at h
      · simp at h
      have hn : (if blk > room then room else blk) ≤ room := by split <;> omega
      generalize (if blk > room then room else blk) = n at h hn
      by_cases hz : bw = 0
      · rw [if_pos hz] at h
        cases hrec : dec64Aux fuel (room - n) data with
        | none => rw [hrec] at h; simp at h
        | some ws =>
          rw [hrec] at h; simp at h; subst h
          have := ih _ _ _ hrec
          simp; omega
      · rw [if_neg hz] at h
        cases hu : unpack data bw n 0 with
        | none => rw [hu] at h; simp at h
        | some us =>
          rw [hu] at h
          simp only [] at h
          have hul := unpack_length _ _ _ _ _ hu
          cases hrec : dec64Aux fuel (room - n) (data.drop ((n * bw + 7) / 8)) with
          | none => rw [hrec] at h; simp at h
          | some ws =>
            rw [hrec] at h; simp at h; subst h
            have := ih _ _ _ hrec
            simp; omega

/-- target 6 -/
theorem dec64_cap (bs : List Nat) (cap : Nat) (vs : List Nat) (h : dec64 bs cap = some vs) : vs.length ≤ cap := by
  unfold dec64 at h
  split at h
  · have := dec64Aux_cap _ _ _ _ h
    have := Nat.min_le_right ‹Nat› cap
    omega
  · simp at h

theorem decD32Aux_cap (fuel : Nat) : ∀ (room prev : Nat) (bs vs : List Nat),
    decD32Aux fuel room prev bs = some vs → vs.length ≤ room := by
  induction fuel with
  | zero => intro room prev bs vs h; simp [decD32Aux] at h; subst h; simp
  | succ fuel ih =>
    intro room prev bs vs h
    simp only [decD32Aux] at h
    by_cases hr0 : room = 0
    · rw [if_pos hr0] at h; simp at h; subst h; simp
    rw [if_neg hr0] at h
    cases bs with
    | nil => simp at h
    | cons hd rest =>
      simp only [] at h
      by_cases hh : hd ≥ 128
      · rw [if_pos hh] at h
        cases rest with
        | nil => simp at h
        | cons cnt data =>
          simp only [] at h
          have hn : (if cnt > room then room % 256 else cnt) ≤ room := by
            split
            · exact Nat.mod_le _ _
            · omega
          generalize (if cnt > room then room % 256 else cnt) = n at h hn
          cases hu : (if hd % 128 = 0 then some (List.replicate n 0) else unpack data (hd % 128) n 0) with
          | none => rw [hu] at h; simp at h
          | some us =>
            rw [hu] at h; simp at h; subst h
            rw [sumsW_length]
            split at hu
            · simp at hu; subst hu; simpa using hn
            · have := unpack_length _ _ _ _ _ hu
              omega
      · rw [if_neg hh] at h
        by_cases hr : room < 128
        · rw [if_pos hr] at h; simp at h; subst h; simp
        rw [if_neg hr] at h
        cases hu : (if hd = 0 then some (List.replicate 128 0) else unpack rest hd 128 0) with
        | none => rw [hu] at h; simp at h
        | some us =>
          rw [hu] at h
          simp only [] at h
          have hul : us.length = 128 := by
            split at hu
            · simp at hu; subst hu; simp
            · exact unpack_length _ _ _ _ _ hu
          cases hrec : decD32Aux fuel (room - 128) ((sumsW 32 prev us).getLastD prev)
              (rest.drop (if hd = 0 then 0 else (128 * hd + 7) / 8)) with
          | none => rw [hrec] at h; simp at h
          | some ws =>
            rw [hrec] at h; simp at h; subst h
            have := ih _ _ _ _ hrec
            simp [sumsW_length]; omega

/-- target 6 -/
theorem decD32_cap (bs : List Nat) (cap : Nat) (vs : List Nat) (h : decD32 bs cap = some vs) :
    vs.length ≤ cap := by
  unfold decD32 at h
  split at h
  · simp at h; subst h; simp
  · split at h
    · rename_i first n1 _
      simp only [] at h
      cases hrec : decD32Aux (cap / 128 + 2) (cap - 1) (first % 2 ^ 32) (bs.drop n1) with
      | none => rw [hrec] at h; simp at h
      | some ws =>
        rw [hrec] at h; simp at h; subst h
        have := decD32Aux_cap _ _ _ _ _ hrec
        simp; omega
    · simp at h

theorem decD64Aux_cap (fuel : Nat) : ∀ (room prev : Nat) (bs vs : List Nat),
    decD64Aux fuel room prev bs = some vs → vs.length ≤ room := by
  induction fuel with
  | zero => intro room prev bs vs h; simp [decD64Aux] at h; subst h; simp
  | succ fuel ih =>
    intro room prev bs vs h
    simp only [decD64Aux] at h
    by_cases hr0 : room = 0
    · rw [if_pos hr0] at h; simp at h; subst h; simp
    rw [if_neg hr0] at h
    cases bs with
    | nil => simp at h
    | cons hd rest =>
      simp only [] at h
      generalize (if hd ≥ 128 then (hd % 128, rest.headD 0, rest.drop 1) else (hd, 128, rest)) = trip at h
      obtain ⟨bw, blk, data⟩ := trip
      simp only [] at h
      split at h
      · simp at h
      have hn : (if blk > room then room else blk) ≤ room := by split <;> omega
      generalize (if blk > room then room else blk) = n at h hn
      cases hu : (if bw = 0 then some (List.replicate n 0) else unpack data bw n 0) with
      | none => rw [hu] at h; simp at h
      | some us =>
        rw [hu] at h
        simp only [] at h
        have hul : us.length = n := by
          split at hu
          · simp at hu; subst hu; simp
          · exact unpack_length _ _ _ _ _ hu
        split at h
        · simp at h; subst h; rw [sumsW_length]; omega
        · cases hrec : decD64Aux fuel (room - n) ((sumsW 64 prev us).getLastD prev)
              (data.drop (if bw = 0 then 0 else (n * bw + 7) / 8)) with
          | none => rw [hrec] at h; simp at h
          | some ws =>
            rw [hrec] at h; simp at h; subst h
            have := ih _ _ _ _ hrec
            simp [sumsW_length]; omega

/-- target 6 -/
theorem decD64_cap (bs : List Nat) (cap : Nat) (vs : List Nat) (h : decD64 bs cap = some vs) :
    vs.length ≤ cap := by
  unfold decD64 at h
  split at h
  · simp at h; subst h; simp
  · split at h
    · rename_i first n1 _
      cases hrec : decD64Aux (cap / 128 + 2) (cap - 1) first (bs.drop n1) with
      | none => rw [hrec] at h; simp at h
      | some ws =>
        rw [hrec] at h; simp at h; subst h
        have := decD64Aux_cap _ _ _ _ _ hrec
        simp; omega
    · simp at h

end Varint.BP128
