import Varint.Model.Tagged
import Varint.Lemmas.Bytes
/- Lemmas about the tagged model. -/
namespace Varint.Tagged

theorem get_enc (v : Nat) (hv : v < 2 ^ 64) (rest : List Nat) :
    get (enc v ++ rest) = .ok v (enc v).length := by
  unfold enc
  split
  · simp [get, getN, *]
  split
  · have hc : (v - 240) / 256 ≤ 7 := by omega
    simp [get, getN, hc]
    omega
  split
  · simp [get, getN, takeExact, ofBe]
    omega
  split
  · split
    · simp [get, getN, takeExact, ofBe, beBytes]
      omega
    · simp [get, getN, takeExact, ofBe, beBytes]
      omega
  split
  · simp [get, getN, takeExact, ofBe, beBytes]
    omega
  split
  · simp [get, getN, takeExact, ofBe, beBytes]
    omega
  split
  · simp [get, getN, takeExact, ofBe, beBytes]
    omega
  · simp [get, getN, takeExact, ofBe, beBytes]
    omega

theorem enc_length (v : Nat) : (enc v).length = len v := by
  unfold enc len
  repeat' split
  all_goals simp [beBytes]

theorem len_bounds (v : Nat) : 1 ≤ len v ∧ len v ≤ 9 := by
  unfold len
  repeat' split
  all_goals omega

theorem enc_ne_nil (v : Nat) : enc v ≠ [] := by
  intro h
  have := enc_length v
  rw [h] at this
  have := (len_bounds v).1
  simp at *
  omega

theorem getLen_head (v : Nat) (hv : v < 2 ^ 64) : getLen ((enc v).headD 0) = len v := by
  unfold enc len getLen
  repeat' split
  all_goals (simp at *; try omega)

theorem lenQuick_eq (v : Nat) : lenQuick v = len v := by
  unfold lenQuick len
  repeat' split
  all_goals omega

theorem enc_lt (v : Nat) (hv : v < 2 ^ 64) : ∀ b ∈ enc v, b < 256 := by
  intro b hb
  unfold enc at hb
  repeat' split at hb
  all_goals simp [beBytes] at hb
  all_goals omega

/-- the minimal fixed width is the variable-width encoding -/
theorem encFixed_len (v : Nat) (hv : v < 2 ^ 64) : encFixed v (len v) = enc v := by
  unfold enc len
  repeat' split
  all_goals simp [encFixed, beBytes]
  all_goals omega

private theorem lenle (v w : Nat) (hv : v < 2 ^ 64) (hl : len v ≤ w) (hw : 4 ≤ w) (h9 : w ≤ 9) : v < 256 ^ (w - 1) := by
  unfold len at hl
  have hw : w = 4 ∨ w = 5 ∨ w = 6 ∨ w = 7 ∨ w = 8 ∨ w = 9 := by omega
  rcases hw with h | h | h | h | h | h <;> subst h <;> (repeat' split at hl) <;> omega

private theorem fx4 (v : Nat) (h : v < 256 ^ 3) (rest : List Nat) : get (encFixed v 4 ++ rest) = .ok v 4 := by
  simp [encFixed, get, getN, takeExact, ofBe, beBytes]; omega
private theorem fx5 (v : Nat) (h : v < 256 ^ 4) (rest : List Nat) : get (encFixed v 5 ++ rest) = .ok v 5 := by
  simp [encFixed, get, getN, takeExact, ofBe, beBytes]; omega
private theorem fx6 (v : Nat) (h : v < 256 ^ 5) (rest : List Nat) : get (encFixed v 6 ++ rest) = .ok v 6 := by
  simp [encFixed, get, getN, takeExact, ofBe, beBytes]; omega
private theorem fx7 (v : Nat) (h : v < 256 ^ 6) (rest : List Nat) : get (encFixed v 7 ++ rest) = .ok v 7 := by
  simp [encFixed, get, getN, takeExact, ofBe, beBytes]; omega
private theorem fx8 (v : Nat) (h : v < 256 ^ 7) (rest : List Nat) : get (encFixed v 8 ++ rest) = .ok v 8 := by
  simp [encFixed, get, getN, takeExact, ofBe, beBytes]; omega
private theorem fx9 (v : Nat) (h : v < 256 ^ 8) (rest : List Nat) : get (encFixed v 9 ++ rest) = .ok v 9 := by
  simp [encFixed, get, getN, takeExact, ofBe, beBytes]; omega

/-- width 4..9 ≥ len v: padded big-endian payload decodes to v -/
theorem get_encFixed_wide (v w : Nat) (hv : v < 2 ^ 64) (h4 : 4 ≤ w) (h9 : w ≤ 9) (hl : len v ≤ w)
    (rest : List Nat) : get (encFixed v w ++ rest) = .ok v w := by
  have hb := lenle v w hv hl h4 h9
  have hw : w = 4 ∨ w = 5 ∨ w = 6 ∨ w = 7 ∨ w = 8 ∨ w = 9 := by omega
  rcases hw with h | h | h | h | h | h <;> subst h
  · exact fx4 v hb rest
  · exact fx5 v hb rest
  · exact fx6 v hb rest
  · exact fx7 v hb rest
  · exact fx8 v hb rest
  · exact fx9 v hb rest

/-- the quick macro agrees with the function wherever the function succeeds -/
theorem getQuick_of_get (bs : List Nat) (v l : Nat) (h : get bs = .ok v l) : getQuick bs = some v := by
  unfold getQuick
  cases bs with
  | nil => simp [get, getN] at h
  | cons b0 rest =>
    simp only []
    by_cases h1 : b0 ≤ 240
    · simp [get, getN, h1] at h
      rw [if_pos h1, h.1]
    by_cases h2 : b0 ≤ 248
    · cases rest with
      | nil => simp [get, getN, h1, h2] at h
      | cons b1 r =>
        simp [get, getN, h1, h2] at h
        rw [if_neg h1, if_pos h2]; simp [h.1]
    by_cases h3 : b0 = 249
    · subst h3
      rcases rest with _ | ⟨b1, _ | ⟨b2, r⟩⟩
      · simp [get, getN, takeExact] at h
      · simp [get, getN, takeExact] at h
      · simp [get, getN, takeExact, ofBe] at h
        simp; omega
    · simp [h1, h2, h3, h]

theorem getQuick_enc (v : Nat) (hv : v < 2 ^ 64) (rest : List Nat) :
    getQuick (enc v ++ rest) = some v :=
  getQuick_of_get _ _ _ (get_enc v hv rest)

end Varint.Tagged
