import Varint.Lemmas.Chained
import Varint.Lemmas.Split
import Varint.Lemmas.External
import Varint.Lemmas.Tagged
import Varint.Lemmas.Mono
/-
  Decoder-side canonicity of the scalar wire formats.
  For a family with decoder `dec`, encoder `enc` and length function `len`:
    (a) whatever decodes to `v` consuming `l` bytes has `len v ≤ l`;
    (b) if `l = len v` the consumed bytes are exactly `enc v`.
  Holds unconditionally for chained, chained-simple, tagged, external.
  The split families need side conditions; the concrete byte strings that violate the
  unconditional statements are recorded as `example`s next to the theorems.
-/
namespace Varint

theorem takeExact_some {k : Nat} {bs p : List Nat} (h : takeExact k bs = some p) :
    p = bs.take k ∧ k ≤ bs.length ∧ p.length = k := by
  unfold takeExact at h
  split at h
  · simp only [Option.some.injEq] at h
    subst h
    refine ⟨rfl, by assumption, ?_⟩
    rw [List.length_take]; omega
  · simp at h

/-! ## chained (sqlite3 varint) -/
namespace Chained

/-- what the reader accepted, read back from its result: `n+1` bytes consumed after the first `i`;
    below nine bytes they are the `n+1` big-endian groups of `v`, at nine bytes they are
    the flagged groups of `v / 256` followed by the full low byte -/
theorem decAux_inv (fuel i acc : Nat) (bs : List Nat) (v l : Nat)
    (hb : ∀ b ∈ bs, b < 256) (hi : i ≤ 8) (hf : 9 ≤ i + fuel)
    (h : decAux fuel i acc bs = some (v, l)) :
    ∃ n, l = i + n + 1 ∧
      ((l ≤ 8 ∧ v / 128 ^ (n + 1) = acc ∧ bs.take (n + 1) = groups (n + 1) v) ∨
       (l = 9 ∧ v / (128 ^ n * 256) = acc ∧ bs.take (n + 1) = flagged n (v / 256) ++ [v % 256])) := by
  induction fuel generalizing i acc bs with
  | zero => omega
  | succ fuel ih =>
    cases bs with
    | nil => simp [decAux] at h
    | cons b rest =>
      have hb0 : b < 256 := hb b (by simp)
      have hrest : ∀ x ∈ rest, x < 256 := fun x hx => hb x (by simp [hx])
      unfold decAux at h
      by_cases h8 : i = 8
      · rw [if_pos h8] at h
        simp only [Option.some.injEq, Prod.mk.injEq] at h
        obtain ⟨hv, hl⟩ := h
        refine ⟨0, by omega, Or.inr ⟨by omega, ?_, ?_⟩⟩
        · simp only [Nat.pow_zero, Nat.one_mul]; omega
        · simp only [List.take_succ_cons, List.take_zero, flagged, List.nil_append, List.cons.injEq, and_true]
          omega
      · rw [if_neg h8] at h
        by_cases hlt : b < 128
        · rw [if_pos hlt] at h
          simp only [Option.some.injEq, Prod.mk.injEq] at h
          obtain ⟨hv, hl⟩ := h
          refine ⟨0, by omega, Or.inl ⟨by omega, ?_, ?_⟩⟩
          · simp only [Nat.zero_add, Nat.pow_one]; omega
          · simp only [List.take_succ_cons, List.take_zero, groups, List.cons.injEq, and_true]
            omega
        · rw [if_neg hlt] at h
          obtain ⟨m, hl, hcase⟩ := ih (i + 1) (acc * 128 + (b - 128)) rest hrest (by omega) (by omega) h
          refine ⟨m + 1, by omega, ?_⟩
          rcases hcase with ⟨hl8, hq, htk⟩ | ⟨hl9, hq, htk⟩
          · left
            refine ⟨hl8, ?_, ?_⟩
            · rw [Nat.pow_succ, ← Nat.div_div_eq_div_mul, hq]; omega
            · rw [List.take_succ_cons, htk, groups]
              simp only [List.cons.injEq, and_true]
              rw [hq]; omega
          · right
            refine ⟨hl9, ?_, ?_⟩
            · have e : 128 ^ (m + 1) * 256 = 128 ^ m * 256 * 128 := by
                rw [Nat.pow_succ, Nat.mul_assoc, Nat.mul_assoc, Nat.mul_comm 128 256]
              rw [e, ← Nat.div_div_eq_div_mul, hq]; omega
            · rw [List.take_succ_cons, htk, flagged]
              simp only [List.cons_append, List.cons.injEq, and_true]
              rw [Nat.div_div_eq_div_mul, Nat.mul_comm 256, hq]; omega

/-- (a) no accepted encoding is shorter than the encoder's -/
theorem dec_len_le (bs : List Nat) (v l : Nat) (hb : ∀ b ∈ bs, b < 256)
    (h : dec bs = some (v, l)) : len v ≤ l := by
  obtain ⟨n, hl, hcase⟩ := decAux_inv 9 0 0 bs v l hb (by omega) (by omega) h
  rcases hcase with ⟨_, hq, _⟩ | ⟨hl9, _, _⟩
  · have hpos : 0 < 128 ^ (n + 1) := Nat.pow_pos (by omega)
    have hlt : v < 128 ^ (n + 1) := by
      have := (Nat.div_eq_zero_iff_lt hpos).mp hq
      exact this
    have := len7_le_of_lt (k := n + 1) (by omega) hlt
    unfold len; split <;> omega
  · have := (len_bounds v).2; omega

/-- (b) within the encoder's length class the accepted bytes are the encoder's bytes -/
theorem dec_canonical (bs : List Nat) (v l : Nat) (hb : ∀ b ∈ bs, b < 256)
    (h : dec bs = some (v, l)) (hl : l = len v) : bs.take l = enc v := by
  obtain ⟨n, hln, hcase⟩ := decAux_inv 9 0 0 bs v l hb (by omega) (by omega) h
  have h128 : (128 : Nat) ^ 8 = 2 ^ 56 := by rfl
  rcases hcase with ⟨hl8, hq, htk⟩ | ⟨hl9, hq, htk⟩
  · have hl7 : len7 v = n + 1 := by
      unfold len at hl; split at hl <;> omega
    have hlt : v < 128 ^ len7 v := lt_pow_len7 v
    have hle : 128 ^ len7 v ≤ 128 ^ 8 := Nat.pow_le_pow_right (by omega) (by omega)
    have hz : ¬ (v / 2 ^ 56 % 256 ≠ 0) := by omega
    unfold enc
    have hln' : l = n + 1 := by omega
    rw [if_neg hz, hl7, ← htk, hln']
  · have hl7 : 9 ≤ len7 v := by
      unfold len at hl; split at hl <;> omega
    obtain ⟨k, hk⟩ : ∃ k, len7 v = k + 2 := ⟨len7 v - 2, by omega⟩
    have hge := pow_le_of_len7 hk
    have hle : 128 ^ 8 ≤ 128 ^ (k + 1) := Nat.pow_le_pow_right (by omega) (by omega)
    have hn : n = 8 := by omega
    subst hn
    have hpos : 0 < 128 ^ 8 * 256 := by rw [h128]; omega
    have hlt : v < 128 ^ 8 * 256 := (Nat.div_eq_zero_iff_lt hpos).mp hq
    rw [h128] at hlt hle
    have hnz : v / 2 ^ 56 % 256 ≠ 0 := by omega
    unfold enc
    have hln' : l = 8 + 1 := by omega
    rw [if_pos hnz, ← htk, hln']

/-- over-long encodings exist (leading zero groups), so (a) cannot be an equality -/
example : dec [0x80, 0x00] = some (0, 2) ∧ len 0 = 1 := by decide

end Chained

/-! ## chained-simple (LEB128 capped at nine bytes) -/
namespace ChainedSimple

/-- `n` flagged little-endian 7-bit groups of `x` followed by the remaining quotient as last byte -/
def lebFix : Nat → Nat → List Nat
  | 0, x => [x]
  | n + 1, x => (x % 128 + 128) :: lebFix n (x / 128)

/-- what the reader accepted, read back from its result -/
theorem decAux_inv (fuel i acc : Nat) (bs : List Nat) (v l : Nat)
    (hb : ∀ b ∈ bs, b < 256) (hi : i ≤ 8)
    (h : decAux fuel i acc bs = some (v, l)) :
    ∃ n x, l = i + n + 1 ∧ l ≤ 9 ∧ v = acc + x * 2 ^ (7 * i) ∧ bs.take (n + 1) = lebFix n x ∧
      (l ≤ 8 → x < 128 ^ (n + 1)) ∧ x < 128 ^ n * 256 := by
  induction fuel generalizing i acc bs with
  | zero => simp [decAux] at h
  | succ fuel ih =>
    cases bs with
    | nil => simp [decAux] at h
    | cons b rest =>
      have hb0 : b < 256 := hb b (by simp)
      have hrest : ∀ x ∈ rest, x < 256 := fun x hx => hb x (by simp [hx])
      unfold decAux at h
      by_cases hc : b ≥ 128 ∧ i < 8
      · rw [if_pos hc] at h
        obtain ⟨m, y, hl, hl9, hv, htk, hy8, hy9⟩ :=
          ih (i + 1) (acc + (b % 128) * 2 ^ (7 * i)) rest hrest (by omega) h
        refine ⟨m + 1, b % 128 + 128 * y, by omega, hl9, ?_, ?_, ?_, ?_⟩
        · have e : 2 ^ (7 * (i + 1)) = 128 * 2 ^ (7 * i) := by
            rw [show 7 * (i + 1) = 7 * i + 7 by omega, Nat.pow_add]; omega
          rw [hv, e, Nat.add_mul, Nat.mul_assoc 128 y, Nat.mul_left_comm y 128]
          omega
        · rw [List.take_succ_cons, htk, lebFix]
          have e1 : (b % 128 + 128 * y) % 128 + 128 = b := by omega
          have e2 : (b % 128 + 128 * y) / 128 = y := by omega
          rw [e1, e2]
        · intro h8
          have := hy8 h8
          rw [show (128 : Nat) ^ (m + 1 + 1) = 128 ^ (m + 1) * 128 by rw [Nat.pow_succ]]
          generalize 128 ^ (m + 1) = M at this ⊢
          omega
        · have e : 128 ^ (m + 1) * 256 = 128 ^ m * 256 * 128 := by
            rw [Nat.pow_succ, Nat.mul_assoc, Nat.mul_assoc, Nat.mul_comm 128 256]
          rw [e]
          generalize 128 ^ m * 256 = M at hy9 ⊢
          omega
      · rw [if_neg hc] at h
        simp only [Option.some.injEq, Prod.mk.injEq] at h
        obtain ⟨hv, hl⟩ := h
        refine ⟨0, b, by omega, by omega, hv.symm, ?_, ?_, ?_⟩
        · simp [lebFix]
        · intro h8; simp only [Nat.zero_add, Nat.pow_one]; omega
        · simp only [Nat.pow_zero, Nat.one_mul]; exact hb0

/-- the encoder's output is the fixed-length form for the value's own group count -/
theorem encAux_eq_lebFix (n fuel i x : Nat) (hf : n ≤ fuel) (hin : i + n ≤ 8)
    (hlo : n = 0 ∨ 128 ^ n ≤ x) (hhi : x < 128 ^ (n + 1) ∨ (i + n = 8 ∧ x < 128 ^ n * 256)) :
    encAux fuel i x = lebFix n x := by
  induction n generalizing fuel i x with
  | zero =>
    have hx : x < 256 := by
      simp only [Nat.zero_add, Nat.pow_one, Nat.pow_zero, Nat.one_mul] at hhi; omega
    cases fuel with
    | zero => simp [encAux, lebFix, Nat.mod_eq_of_lt hx]
    | succ f =>
      have hc : ¬ (x ≥ 128 ∧ i < 8) := by
        simp only [Nat.zero_add, Nat.pow_one, Nat.pow_zero, Nat.one_mul] at hhi; omega
      unfold encAux
      rw [if_neg hc, lebFix, Nat.mod_eq_of_lt hx]
  | succ n ih =>
    obtain ⟨f, rfl⟩ : ∃ f, fuel = f + 1 := ⟨fuel - 1, by omega⟩
    have hpos : 0 < 128 ^ n := Nat.pow_pos (by omega)
    have hlo' : 128 ^ n * 128 ≤ x := by
      rcases hlo with h | h
      · omega
      · rwa [Nat.pow_succ] at h
    have hc : x ≥ 128 ∧ i < 8 := by
      constructor
      · generalize 128 ^ n = M at hpos hlo'; omega
      · omega
    unfold encAux
    rw [if_pos hc, lebFix]
    congr 1
    apply ih f (i + 1) (x / 128) (by omega) (by omega)
    · right; generalize 128 ^ n = M at hlo' ⊢; omega
    · rcases hhi with h | ⟨h1, h2⟩
      · left
        rw [Nat.pow_succ] at h
        generalize 128 ^ (n + 1) = M at h ⊢; omega
      · right
        refine ⟨by omega, ?_⟩
        have e : 128 ^ (n + 1) * 256 = 128 ^ n * 256 * 128 := by
          rw [Nat.pow_succ, Nat.mul_assoc, Nat.mul_assoc, Nat.mul_comm 128 256]
        rw [e] at h2
        generalize 128 ^ n * 256 = M at h2 ⊢; omega

/-- (a) no accepted encoding is shorter than the encoder's -/
theorem dec_len_le (bs : List Nat) (v l : Nat) (hb : ∀ b ∈ bs, b < 256)
    (h : dec bs = some (v, l)) : len v ≤ l := by
  obtain ⟨n, x, hl, hl9, hv, _, hx8, _⟩ := decAux_inv 10 0 0 bs v l hb (by omega) h
  simp only [Nat.mul_zero, Nat.pow_zero, Nat.mul_one, Nat.zero_add] at hv hl
  subst hv
  by_cases h8 : l ≤ 8
  · have := len7_le_of_lt (k := n + 1) (by omega) (hx8 h8)
    unfold len; split <;> omega
  · have := (len_bounds v).2; omega

/-- (b) within the encoder's length class the accepted bytes are the encoder's bytes -/
theorem dec_canonical (bs : List Nat) (v l : Nat) (hb : ∀ b ∈ bs, b < 256)
    (h : dec bs = some (v, l)) (hl : l = len v) : bs.take l = enc v := by
  obtain ⟨n, x, hln, hl9, hv, htk, hx8, hx9⟩ := decAux_inv 10 0 0 bs v l hb (by omega) h
  simp only [Nat.mul_zero, Nat.pow_zero, Nat.mul_one, Nat.zero_add] at hv hln
  subst hv
  have hlo : n = 0 ∨ 128 ^ n ≤ v := by
    by_cases hn : n = 0
    · exact Or.inl hn
    · right
      have hl7 : n + 1 ≤ len7 v := by
        unfold len at hl; split at hl <;> omega
      obtain ⟨k, hk⟩ : ∃ k, len7 v = k + 2 := ⟨len7 v - 2, by omega⟩
      exact Nat.le_trans (Nat.pow_le_pow_right (by omega) (by omega)) (pow_le_of_len7 hk)
  have hhi : v < 128 ^ (n + 1) ∨ (0 + n = 8 ∧ v < 128 ^ n * 256) := by
    by_cases h8 : l ≤ 8
    · exact Or.inl (hx8 h8)
    · exact Or.inr ⟨by omega, hx9⟩
  unfold enc
  rw [encAux_eq_lebFix n 9 0 v (by omega) (by omega) hlo hhi, ← htk, hln]

/-- over-long encodings exist (trailing zero groups), so (a) cannot be an equality -/
example : dec [0x80, 0x00] = some (0, 2) ∧ len 0 = 1 := by decide

end ChainedSimple

/-! ## tagged (sqlite4 varint): tightening of `tagged_canonical` -/
namespace Tagged

/-- (c) within the encoder's length class the accepted bytes are the encoder's bytes -/
theorem get_canonical (bs : List Nat) (v l : Nat) (hb : ∀ b ∈ bs, b < 256)
    (h : get bs = .ok v l) (hl : l = len v) : bs.take l = enc v := by
  unfold get getN at h
  simp only [] at h
  cases bs with
  | nil => simp at h
  | cons b0 rest =>
    have hb0 : b0 < 256 := hb b0 (by simp)
    simp only [show ¬ ((9 : Int) < 1) by omega, if_false] at h
    by_cases h1 : b0 ≤ 240
    · simp [h1] at h
      obtain ⟨rfl, rfl⟩ := h
      unfold enc; simp [h1]
    · rw [if_neg h1] at h
      by_cases h2 : b0 ≤ 248
      · rw [if_pos h2] at h
        cases rest with
        | nil => simp at h
        | cons b1 r =>
          simp at h
          obtain ⟨rfl, rfl⟩ := h
          have hb1 : b1 < 256 := hb b1 (by simp)
          unfold len at hl
          unfold enc
          repeat' split at hl
          all_goals first | omega | skip
          rw [if_neg (by omega), if_pos (by omega)]
          simp only [List.take_succ_cons, List.take_zero, List.cons.injEq, and_true]
          omega
      · rw [if_neg h2] at h
        split at h
        · simp at h
        · cases hp : takeExact (b0 - 247) rest with
          | none => rw [hp] at h; simp at h
          | some p =>
            rw [hp] at h
            simp only [] at h
            obtain ⟨hpeq, hple, hplen⟩ := takeExact_some hp
            have hplt : ∀ x ∈ p, x < 256 := by
              intro x hx
              rw [hpeq] at hx
              exact hb x (by simp [List.mem_of_mem_take hx])
            have hval := ofBe_lt p hplt
            have hbe := beBytes_ofBe p hplt
            rw [hplen] at hval hbe
            have htake : ∀ k, k = b0 - 247 → (b0 :: rest).take (k + 1) = b0 :: p := by
              intro k hk; rw [List.take_succ_cons, hk, ← hpeq]
            by_cases h3 : b0 = 249
            · subst h3
              simp at h
              obtain ⟨rfl, rfl⟩ := h
              simp at hval
              rw [htake 2 (by omega)]
              unfold enc
              rw [if_neg (by omega), if_neg (by omega), if_pos (by omega)]
              generalize ofBe p = u at *
              subst hbe
              simp [beBytes]
              omega
            · rw [if_neg h3] at h
              have h5 : b0 ≤ 255 := by omega
              rw [if_pos h5] at h
              simp at h
              obtain ⟨rfl, rfl⟩ := h
              rw [show b0 - 246 = (b0 - 247) + 1 by omega, htake (b0 - 247) rfl]
              generalize ofBe p = u at *
              subst hbe
              clear hp hpeq hplen hplt htake hple
              have hcases : b0 = 250 ∨ b0 = 251 ∨ b0 = 252 ∨ b0 = 253 ∨ b0 = 254 ∨ b0 = 255 := by omega
              unfold len at hl
              unfold enc
              rcases hcases with e | e | e | e | e | e <;> subst e <;> simp at hval hl <;>
                (repeat' split at hl) <;> (first | omega | skip)
              all_goals (simp [beBytes, *] <;> omega)

example : get [241, 0] = .ok 240 2 ∧ len 240 = 1 := by decide

end Tagged

/-! ## external (width out of band): a `w`-byte slice is determined by its value -/

theorem ofLe_injective (a b : List Nat) (h : ofLe a = ofLe b) (hlen : a.length = b.length)
    (ha : ∀ x ∈ a, x < 256) (hb : ∀ x ∈ b, x < 256) : a = b := by
  rw [← leBytes_ofLe a ha, ← leBytes_ofLe b hb, h, hlen]

theorem ofBe_injective (a b : List Nat) (h : ofBe a = ofBe b) (hlen : a.length = b.length)
    (ha : ∀ x ∈ a, x < 256) (hb : ∀ x ∈ b, x < 256) : a = b := by
  rw [← beBytes_ofBe a ha, ← beBytes_ofBe b hb, h, hlen]

namespace External

/-- (a) a `w`-byte read (`w ≥ 1`) never yields a value whose minimal width exceeds `w` -/
theorem get_len_le (bs : List Nat) (w v : Nat) (hb : ∀ b ∈ bs, b < 256) (hw : 1 ≤ w)
    (h : get bs w = some v) : extLen v ≤ w := by
  unfold get at h
  cases hp : takeExact w bs with
  | none => rw [hp] at h; simp at h
  | some p =>
    rw [hp] at h
    simp only [Option.map_some, Option.some.injEq] at h
    obtain ⟨hpeq, _, hplen⟩ := takeExact_some hp
    have hplt : ∀ x ∈ p, x < 256 := by
      intro x hx; rw [hpeq] at hx; exact hb x (List.mem_of_mem_take hx)
    have := ofLe_lt p hplt
    rw [hplen, h] at this
    exact extLen_le_of_lt hw this

/-- (b) read at the value's own minimal width, the bytes are the encoder's bytes -/
theorem get_canonical (bs : List Nat) (w v : Nat) (hb : ∀ b ∈ bs, b < 256)
    (h : get bs w = some v) (hl : w = extLen v) : bs.take w = enc v := by
  unfold get at h
  cases hp : takeExact w bs with
  | none => rw [hp] at h; simp at h
  | some p =>
    rw [hp] at h
    simp only [Option.map_some, Option.some.injEq] at h
    obtain ⟨hpeq, _, hplen⟩ := takeExact_some hp
    have hplt : ∀ x ∈ p, x < 256 := by
      intro x hx; rw [hpeq] at hx; exact hb x (List.mem_of_mem_take hx)
    have := leBytes_ofLe p hplt
    rw [hplen, h] at this
    unfold enc
    rw [← hl, this, hpeq]

/-- a wider read accepts zero padding: only `≤` holds in (a) -/
example : get [5, 0] 2 = some 5 ∧ extLen 5 = 1 := by decide
/-- width 0 reads the value 0, whose encoder width is 1: hence `1 ≤ w` in (a) -/
example : get [] 0 = some 0 ∧ extLen 0 = 1 := by decide

end External

namespace ExternalBE

theorem get_len_le (bs : List Nat) (w v : Nat) (hb : ∀ b ∈ bs, b < 256) (hw : 1 ≤ w)
    (h : get bs w = some v) : extLen v ≤ w := by
  unfold get at h
  cases hp : takeExact w bs with
  | none => rw [hp] at h; simp at h
  | some p =>
    rw [hp] at h
    simp only [Option.map_some, Option.some.injEq] at h
    obtain ⟨hpeq, _, hplen⟩ := takeExact_some hp
    have hplt : ∀ x ∈ p, x < 256 := by
      intro x hx; rw [hpeq] at hx; exact hb x (List.mem_of_mem_take hx)
    have := ofBe_lt p hplt
    rw [hplen, h] at this
    exact extLen_le_of_lt hw this

theorem get_canonical (bs : List Nat) (w v : Nat) (hb : ∀ b ∈ bs, b < 256)
    (h : get bs w = some v) (hl : w = extLen v) : bs.take w = enc v := by
  unfold get at h
  cases hp : takeExact w bs with
  | none => rw [hp] at h; simp at h
  | some p =>
    rw [hp] at h
    simp only [Option.map_some, Option.some.injEq] at h
    obtain ⟨hpeq, _, hplen⟩ := takeExact_some hp
    have hplt : ∀ x ∈ p, x < 256 := by
      intro x hx; rw [hpeq] at hx; exact hb x (List.mem_of_mem_take hx)
    have := beBytes_ofBe p hplt
    rw [hplen, h] at this
    unfold enc
    rw [← hl, this, hpeq]

end ExternalBE

/-! ## split families -/
namespace Split

theorem beBytes_congr (k v w : Nat) (h : v % 256 ^ k = w % 256 ^ k) : beBytes k v = beBytes k w := by
  induction k generalizing v w with
  | zero => rfl
  | succ k ih =>
    simp only [beBytes]
    have e1 : v / 256 ^ k % 256 = w / 256 ^ k % 256 := by
      have := congrArg (· / 256 ^ k) h
      simp only [Nat.pow_succ, Nat.mod_mul_right_div_self] at this
      exact this
    have e2 : v % 256 ^ k = w % 256 ^ k := by
      have := congrArg (· % 256 ^ k) h
      simp only [Nat.pow_succ] at this
      rwa [Nat.mod_mul_right_mod, Nat.mod_mul_right_mod] at this
    rw [e1, ih v w e2]

/-- an embedded level read back: value range, and the consumed bytes are that level's encoding of the value -/
theorem level_canon (tag k sub b0 : Nat) (rest : List Nat) (v l : Nat)
    (hb : ∀ x ∈ rest, x < 256) (hk : k ≤ 3) (hsub : sub < 2 ^ 32)
    (ht0 : tag ≤ b0) (ht1 : b0 < tag + 64) (htag : tag % 64 = 0)
    (h : decLevel k sub b0 rest = some (v, l)) :
    l = 1 + k ∧ sub ≤ v ∧ v < sub + 64 * 256 ^ k ∧ (b0 :: rest).take l = encLevel tag k sub v := by
  unfold decLevel at h
  cases hp : takeExact k rest with
  | none => rw [hp] at h; simp at h
  | some p =>
    rw [hp] at h
    simp only [Option.map_some, Option.some.injEq, Prod.mk.injEq] at h
    obtain ⟨hv, hl⟩ := h
    obtain ⟨hpeq, _, hplen⟩ := takeExact_some hp
    have hplt : ∀ x ∈ p, x < 256 := by
      intro x hx; rw [hpeq] at hx; exact hb x (List.mem_of_mem_take hx)
    have hr := ofBe_lt p hplt
    have hbe := beBytes_ofBe p hplt
    rw [hplen] at hr hbe
    have hM : 256 ^ k ≤ 256 ^ 3 := Nat.pow_le_pow_right (by omega) hk
    have hpos : 0 < 256 ^ k := Nat.pow_pos (by omega)
    have hq : b0 % 64 * 256 ^ k ≤ 63 * 256 ^ k := Nat.mul_le_mul_right _ (by omega)
    have hdiv : (256 ^ k * (b0 % 64) + ofBe p) / 256 ^ k = b0 % 64 := by
      rw [Nat.mul_add_div hpos, Nat.div_eq_of_lt hr]; omega
    have hmod : (256 ^ k * (b0 % 64) + ofBe p) % 256 ^ k = ofBe p % 256 ^ k := Nat.mul_add_mod _ _ _
    rw [Nat.mul_comm (b0 % 64)] at hv hq
    generalize hMM : 256 ^ k = M at *
    generalize hX : M * (b0 % 64) = X at *
    have hnw : X + ofBe p + sub < 2 ^ 64 := by omega
    rw [Nat.mod_eq_of_lt hnw] at hv
    refine ⟨hl.symm, by omega, by omega, ?_⟩
    have hu : v - sub = X + ofBe p := by omega
    rw [encLevel_eq, hu, hMM, hdiv, beBytes_congr k (X + ofBe p) (ofBe p) (by rw [hMM]; exact hmod), hbe,
      ← hl, Nat.add_comm 1 k, List.take_succ_cons, ← hpeq]
    congr 1; omega

/-- the var level read back -/
theorem var_canon (varTag varSub minW w b0 : Nat) (rest : List Nat) (v l : Nat)
    (hb : ∀ x ∈ rest, x < 256) (hsub : varSub < 2 ^ 32)
    (h : decVar varSub w rest = some (v, l)) :
    l = 1 + w ∧ v < 2 ^ 64 ∧
    (w ≤ 8 → v < varSub → w = 8) ∧
    (w ≤ 8 → varSub ≤ v →
      v - varSub < 256 ^ w ∧ (v = varSub → rest.take w = leBytes w 0) ∧
      (b0 = varTag + w → varW varSub minW v = w →
        (b0 :: rest).take l = encVar varTag varSub minW v)) := by
  unfold decVar at h
  cases hp : takeExact w rest with
  | none => rw [hp] at h; simp at h
  | some p =>
    rw [hp] at h
    simp only [Option.map_some, Option.some.injEq, Prod.mk.injEq] at h
    obtain ⟨hv, hl⟩ := h
    obtain ⟨hpeq, _, hplen⟩ := takeExact_some hp
    have hplt : ∀ x ∈ p, x < 256 := by
      intro x hx; rw [hpeq] at hx; exact hb x (List.mem_of_mem_take hx)
    have hr := ofLe_lt p hplt
    have hle := leBytes_ofLe p hplt
    rw [hplen] at hr hle
    have h8 : w ≤ 8 → 256 ^ w ≤ 256 ^ 8 := fun hw => Nat.pow_le_pow_right (by omega) hw
    have h7 : w ≤ 7 → 256 ^ w ≤ 256 ^ 7 := fun hw => Nat.pow_le_pow_right (by omega) hw
    have e8 : (256 : Nat) ^ 8 = 2 ^ 64 := by rfl
    have e7 : (256 : Nat) ^ 7 = 2 ^ 56 := by rfl
    rw [e8] at h8
    rw [e7] at h7
    refine ⟨hl.symm, by rw [← hv]; exact Nat.mod_lt _ (by omega), ?_, ?_⟩
    · intro hw8 hlt
      apply Classical.byContradiction
      intro hne
      have := h7 (by omega)
      generalize 256 ^ w = M at *
      omega
    · intro hw8 hge
      have hM := h8 hw8
      have hvu : v = ofLe p + varSub := by
        generalize 256 ^ w = M at *
        omega
      refine ⟨by omega, ?_, ?_⟩
      · intro hveq
        have h0 : ofLe p = 0 := by omega
        rw [← hpeq, ← hle, h0]
      · intro hb0 hW
        have hu : v - varSub = ofLe p := by omega
        rw [encVar_eq, hW, hu, hle, ← hl, Nat.add_comm 1 w, List.take_succ_cons, ← hpeq, hb0]




/-! ### varintSplit -/

/-- (a) provided the first byte is neither the reserved prefix `11` (the reader
    reports length 0) nor the var tag announcing width 0 -/
theorem S.dec_len_le (bs : List Nat) (v l : Nat) (hb : ∀ b ∈ bs, b < 256)
    (hw : ∀ b0 ∈ bs.head?, b0 < 192 ∧ b0 ≠ 128)
    (h : S.dec bs = some (v, l)) : S.len v ≤ l := by
  cases bs with
  | nil => simp [S.dec] at h
  | cons b0 rest =>
    have hrest : ∀ x ∈ rest, x < 256 := fun x hx => hb x (by simp [hx])
    have hw0 := hw b0 (by simp)
    by_cases h0 : b0 < 64
    · rw [S.dec_lvl0 b0 rest (by omega) h0] at h
      obtain ⟨hl, hlo, hhi, _⟩ := level_canon 0 0 0 b0 rest v l hrest (by omega) (by omega) (by omega) (by omega) (by omega) h
      simp only [Nat.pow_zero] at hhi
      unfold S.len; repeat' split
      all_goals omega
    by_cases h1 : b0 < 128
    · rw [S.dec_lvl1 b0 rest (by omega) h1] at h
      obtain ⟨hl, hlo, hhi, _⟩ := level_canon 64 1 63 b0 rest v l hrest (by omega) (by omega) (by omega) (by omega) (by omega) h
      simp only [Nat.pow_one] at hhi
      unfold S.len; repeat' split
      all_goals omega
    by_cases hres : 192 ≤ b0
    · omega
    rw [S.dec_var b0 rest (by omega) (by omega)] at h
    obtain ⟨hl, hv64, hwrap, hok⟩ := var_canon 128 16446 1 (b0 % 64) b0 rest v l hrest (by omega) h
    have hlb := S.len_bounds v hv64
    by_cases hw8 : b0 % 64 ≤ 8
    · by_cases hge : 16446 ≤ v
      · obtain ⟨hu, _, _⟩ := hok hw8 hge
        have := (varW_le_iff 16446 1 v (b0 % 64) (by omega) (by omega)).mpr hu
        unfold S.len; simp only [lenVar_eq]; repeat' split
        all_goals omega
      · have := hwrap hw8 (by omega); omega
    · omega

/-- (b) provided the bytes are not the var-level spelling `[129, 0]` of the
    level-1 maximum 16446 (whose encoder output `[127, 255]` has the same length) -/
theorem S.dec_canonical (bs : List Nat) (v l : Nat) (hb : ∀ b ∈ bs, b < 256)
    (hx : bs.take 2 ≠ [129, 0])
    (h : S.dec bs = some (v, l)) (hl : l = S.len v) : bs.take l = S.enc v := by
  cases bs with
  | nil => simp [S.dec] at h
  | cons b0 rest =>
    have hrest : ∀ x ∈ rest, x < 256 := fun x hx => hb x (by simp [hx])
    by_cases h0 : b0 < 64
    · rw [S.dec_lvl0 b0 rest (by omega) h0] at h
      obtain ⟨hl', hlo, hhi, htk⟩ := level_canon 0 0 0 b0 rest v l hrest (by omega) (by omega) (by omega) (by omega) (by omega) h
      simp only [Nat.pow_zero] at hhi
      rw [htk]; unfold S.enc
      rw [if_pos (by omega)]
    by_cases h1 : b0 < 128
    · rw [S.dec_lvl1 b0 rest (by omega) h1] at h
      obtain ⟨hl', hlo, hhi, htk⟩ := level_canon 64 1 63 b0 rest v l hrest (by omega) (by omega) (by omega) (by omega) (by omega) h
      simp only [Nat.pow_one] at hhi
      have hr : 63 < v := by
        unfold S.len at hl; (repeat' split at hl) <;> omega
      rw [htk]; unfold S.enc
      rw [if_neg (by omega), if_pos (by omega)]
    by_cases hres : 192 ≤ b0
    · exfalso
      simp only [S.dec] at h
      rw [if_neg (by omega), if_neg (by omega), if_neg (by omega)] at h
      simp only [Option.some.injEq, Prod.mk.injEq] at h
      have hl1 : S.len 0 = 1 := by decide
      rw [← h.1, hl1] at hl; omega
    rw [S.dec_var b0 rest (by omega) (by omega)] at h
    have hb0 : b0 = 128 + b0 % 64 := by omega
    obtain ⟨hl', hv64, hwrap, hok⟩ := var_canon 128 16446 1 (b0 % 64) b0 rest v l hrest (by omega) h
    have hlb := S.len_bounds v hv64
    by_cases hw8 : b0 % 64 ≤ 8
    · by_cases hge : 16446 ≤ v
      · obtain ⟨hu, hz, htk⟩ := hok hw8 hge
        by_cases heq : v = 16446
        · exfalso
          have hlen : S.len v = 2 := by subst heq; decide
          have hw2 : b0 % 64 = 1 := by omega
          have htl := hz heq
          rw [hw2] at htl
          have hbx : b0 = 129 := by omega
          apply hx
          rw [hbx, List.take_succ_cons, htl]; rfl
        · have hW : varW 16446 1 v = b0 % 64 := by
            unfold S.len at hl; simp only [lenVar_eq] at hl
            rw [if_neg (by omega), if_neg (by omega)] at hl
            omega
          rw [htk hb0 hW]; unfold S.enc
          rw [if_neg (by omega), if_neg (by omega)]
      · exfalso
        have := hwrap hw8 (by omega)
        unfold S.len at hl; (repeat' split at hl) <;> omega
    · omega

/-- accepted encodings that are not the encoder's: over-long (level 1 holding a level-0 value), SHORTER than the
    encoder's (var tag with width 0), a second spelling in the same length class, and the reserved prefix -/
example : S.dec [64, 0] = some (63, 2) ∧ S.len 63 = 1 := by decide
example : S.dec [128] = some (16446, 1) ∧ S.len 16446 = 2 := by decide
example : S.dec [129, 0] = some (16446, 2) ∧ S.len 16446 = 2 ∧ S.enc 16446 = [127, 255] := by decide
example : S.dec [192] = some (0, 0) ∧ S.len 0 = 1 := by decide

/-! ### varintSplitFull -/

/-- (a) provided a var tag announces at least the encoder's minimum width 2 -/
theorem F.dec_len_le (bs : List Nat) (v l : Nat) (hb : ∀ b ∈ bs, b < 256)
    (hw : ∀ b0 ∈ bs.head?, b0 < 192 ∨ 2 ≤ b0 % 16)
    (h : F.dec bs = some (v, l)) : F.len v ≤ l := by
  cases bs with
  | nil => simp [F.dec] at h
  | cons b0 rest =>
    have hrest : ∀ x ∈ rest, x < 256 := fun x hx => hb x (by simp [hx])
    have hw0 := hw b0 (by simp)
    by_cases h0 : b0 < 64
    · rw [F.dec_lvl0 b0 rest (by omega) h0] at h
      obtain ⟨hl, hlo, hhi, _⟩ := level_canon 0 0 0 b0 rest v l hrest (by omega) (by omega) (by omega) (by omega) (by omega) h
      simp only [Nat.pow_zero] at hhi
      unfold F.len; repeat' split
      all_goals omega
    by_cases h1 : b0 < 128
    · rw [F.dec_lvl1 b0 rest (by omega) h1] at h
      obtain ⟨hl, hlo, hhi, _⟩ := level_canon 64 1 63 b0 rest v l hrest (by omega) (by omega) (by omega) (by omega) (by omega) h
      simp only [Nat.pow_one] at hhi
      unfold F.len; repeat' split
      all_goals omega
    by_cases h2 : b0 < 192
    · rw [F.dec_lvl2 b0 rest (by omega) h2] at h
      obtain ⟨hl, hlo, hhi, _⟩ := level_canon 128 2 16446 b0 rest v l hrest (by omega) (by omega) (by omega) (by omega) (by omega) h
      simp only [show (256 : Nat) ^ 2 = 65536 by rfl] at hhi
      unfold F.len; repeat' split
      all_goals omega
    rw [F.dec_var b0 rest (by omega)] at h
    obtain ⟨hl, hv64, hwrap, hok⟩ := var_canon 192 4210749 2 (b0 % 16) b0 rest v l hrest (by omega) h
    have hlb := F.len_bounds v hv64
    by_cases hw8 : b0 % 16 ≤ 8
    · by_cases hge : 4210749 ≤ v
      · obtain ⟨hu, _, _⟩ := hok hw8 hge
        have := (varW_le_iff 4210749 2 v (b0 % 16) (by omega) (by omega)).mpr hu
        unfold F.len; simp only [lenVar_eq]; repeat' split
        all_goals omega
      · have := hwrap hw8 (by omega); omega
    · omega

/-- (b) provided bits 4-5 of a var tag are clear (the reader ignores them), and the bytes
    are not the var-level spelling `[194, 0, 0]` of the last embedded level's maximum -/
theorem F.dec_canonical (bs : List Nat) (v l : Nat) (hb : ∀ b ∈ bs, b < 256)
    (h208 : ∀ b0 ∈ bs.head?, b0 < 208)
    (hx : bs.take 3 ≠ [194, 0, 0])
    (h : F.dec bs = some (v, l)) (hl : l = F.len v) : bs.take l = F.enc v := by
  cases bs with
  | nil => simp [F.dec] at h
  | cons b0 rest =>
    have hrest : ∀ x ∈ rest, x < 256 := fun x hx => hb x (by simp [hx])
    have hw0 := h208 b0 (by simp)
    by_cases h0 : b0 < 64
    · rw [F.dec_lvl0 b0 rest (by omega) h0] at h
      obtain ⟨hl', hlo, hhi, htk⟩ := level_canon 0 0 0 b0 rest v l hrest (by omega) (by omega) (by omega) (by omega) (by omega) h
      simp only [Nat.pow_zero] at hhi
      rw [htk]; unfold F.enc
      rw [if_pos (by omega)]
    by_cases h1 : b0 < 128
    · rw [F.dec_lvl1 b0 rest (by omega) h1] at h
      obtain ⟨hl', hlo, hhi, htk⟩ := level_canon 64 1 63 b0 rest v l hrest (by omega) (by omega) (by omega) (by omega) (by omega) h
      simp only [Nat.pow_one] at hhi
      have hr : 63 < v := by
        unfold F.len at hl; (repeat' split at hl) <;> omega
      rw [htk]; unfold F.enc
      rw [if_neg (by omega), if_pos (by omega)]
    by_cases h2 : b0 < 192
    · rw [F.dec_lvl2 b0 rest (by omega) h2] at h
      obtain ⟨hl', hlo, hhi, htk⟩ := level_canon 128 2 16446 b0 rest v l hrest (by omega) (by omega) (by omega) (by omega) (by omega) h
      simp only [show (256 : Nat) ^ 2 = 65536 by rfl] at hhi
      have hr : 16446 < v := by
        unfold F.len at hl; (repeat' split at hl) <;> omega
      rw [htk]; unfold F.enc
      rw [if_neg (by omega), if_neg (by omega), if_pos (by omega)]
    rw [F.dec_var b0 rest (by omega)] at h
    have hb0 : b0 = 192 + b0 % 16 := by omega
    obtain ⟨hl', hv64, hwrap, hok⟩ := var_canon 192 4210749 2 (b0 % 16) b0 rest v l hrest (by omega) h
    have hlb := F.len_bounds v hv64
    by_cases hw8 : b0 % 16 ≤ 8
    · by_cases hge : 4210749 ≤ v
      · obtain ⟨hu, hz, htk⟩ := hok hw8 hge
        by_cases heq : v = 4210749
        · exfalso
          have hlen : F.len v = 3 := by subst heq; decide
          have hw2 : b0 % 16 = 2 := by omega
          have htl := hz heq
          rw [hw2] at htl
          have hbx : b0 = 194 := by omega
          apply hx
          rw [hbx, List.take_succ_cons, htl]; rfl
        · have hW : varW 4210749 2 v = b0 % 16 := by
            unfold F.len at hl; simp only [lenVar_eq] at hl
            rw [if_neg (by omega), if_neg (by omega), if_neg (by omega)] at hl
            omega
          rw [htk hb0 hW]; unfold F.enc
          rw [if_neg (by omega), if_neg (by omega), if_neg (by omega)]
      · exfalso
        have := hwrap hw8 (by omega)
        unfold F.len at hl; (repeat' split at hl) <;> omega
    · omega

example : F.dec [64, 0] = some (63, 2) ∧ F.len 63 = 1 := by decide
example : F.dec [192] = some (4210749, 1) ∧ F.len 4210749 = 3 := by decide
example : F.dec [193, 5] = some (4210754, 2) ∧ F.len 4210754 = 3 := by decide
example : F.dec [194, 0, 0] = some (4210749, 3) ∧ F.len 4210749 = 3 ∧ F.enc 4210749 = [191, 255, 255] := by decide
example : F.dec [210, 1, 0] = some (4210750, 3) ∧ F.len 4210750 = 3 ∧ F.enc 4210750 = [194, 1, 0] := by decide

/-! ### varintSplitFullNoZero -/

/-- (a) provided a var tag announces at least the encoder's minimum width 2 -/
theorem NZ.dec_len_le (bs : List Nat) (v l : Nat) (hb : ∀ b ∈ bs, b < 256)
    (hw : ∀ b0 ∈ bs.head?, b0 < 192 ∨ 2 ≤ b0 % 16)
    (h : NZ.dec bs = some (v, l)) : NZ.len v ≤ l := by
  cases bs with
  | nil => simp [NZ.dec] at h
  | cons b0 rest =>
    have hrest : ∀ x ∈ rest, x < 256 := fun x hx => hb x (by simp [hx])
    have hw0 := hw b0 (by simp)
    by_cases h0 : b0 < 64
    · rw [NZ.dec_lvl0 b0 rest (by omega) h0] at h
      obtain ⟨hl, hlo, hhi, _⟩ := level_canon 0 0 1 b0 rest v l hrest (by omega) (by omega) (by omega) (by omega) (by omega) h
      simp only [Nat.pow_zero] at hhi
      unfold NZ.len; repeat' split
      all_goals omega
    by_cases h1 : b0 < 128
    · rw [NZ.dec_lvl1 b0 rest (by omega) h1] at h
      obtain ⟨hl, hlo, hhi, _⟩ := level_canon 64 1 64 b0 rest v l hrest (by omega) (by omega) (by omega) (by omega) (by omega) h
      simp only [Nat.pow_one] at hhi
      unfold NZ.len; repeat' split
      all_goals omega
    by_cases h2 : b0 < 192
    · rw [NZ.dec_lvl2 b0 rest (by omega) h2] at h
      obtain ⟨hl, hlo, hhi, _⟩ := level_canon 128 2 16447 b0 rest v l hrest (by omega) (by omega) (by omega) (by omega) (by omega) h
      simp only [show (256 : Nat) ^ 2 = 65536 by rfl] at hhi
      unfold NZ.len; repeat' split
      all_goals omega
    rw [NZ.dec_var b0 rest (by omega)] at h
    obtain ⟨hl, hv64, hwrap, hok⟩ := var_canon 192 4210750 2 (b0 % 16) b0 rest v l hrest (by omega) h
    have hlb := NZ.len_bounds v hv64
    by_cases hw8 : b0 % 16 ≤ 8
    · by_cases hge : 4210750 ≤ v
      · obtain ⟨hu, _, _⟩ := hok hw8 hge
        have := (varW_le_iff 4210750 2 v (b0 % 16) (by omega) (by omega)).mpr hu
        unfold NZ.len; simp only [lenVar_eq]; repeat' split
        all_goals omega
      · have := hwrap hw8 (by omega); omega
    · omega

/-- (b) provided bits 4-5 of a var tag are clear (the reader ignores them), and the bytes
    are not the var-level spelling `[194, 0, 0]` of the last embedded level's maximum -/
theorem NZ.dec_canonical (bs : List Nat) (v l : Nat) (hb : ∀ b ∈ bs, b < 256)
    (h208 : ∀ b0 ∈ bs.head?, b0 < 208)
    (hx : bs.take 3 ≠ [194, 0, 0])
    (h : NZ.dec bs = some (v, l)) (hl : l = NZ.len v) : bs.take l = NZ.enc v := by
  cases bs with
  | nil => simp [NZ.dec] at h
  | cons b0 rest =>
    have hrest : ∀ x ∈ rest, x < 256 := fun x hx => hb x (by simp [hx])
    have hw0 := h208 b0 (by simp)
    by_cases h0 : b0 < 64
    · rw [NZ.dec_lvl0 b0 rest (by omega) h0] at h
      obtain ⟨hl', hlo, hhi, htk⟩ := level_canon 0 0 1 b0 rest v l hrest (by omega) (by omega) (by omega) (by omega) (by omega) h
      simp only [Nat.pow_zero] at hhi
      rw [htk]; unfold NZ.enc
      rw [if_pos (by omega)]
    by_cases h1 : b0 < 128
    · rw [NZ.dec_lvl1 b0 rest (by omega) h1] at h
      obtain ⟨hl', hlo, hhi, htk⟩ := level_canon 64 1 64 b0 rest v l hrest (by omega) (by omega) (by omega) (by omega) (by omega) h
      simp only [Nat.pow_one] at hhi
      have hr : 64 < v := by
        unfold NZ.len at hl; (repeat' split at hl) <;> omega
      rw [htk]; unfold NZ.enc
      rw [if_neg (by omega), if_pos (by omega)]
    by_cases h2 : b0 < 192
    · rw [NZ.dec_lvl2 b0 rest (by omega) h2] at h
      obtain ⟨hl', hlo, hhi, htk⟩ := level_canon 128 2 16447 b0 rest v l hrest (by omega) (by omega) (by omega) (by omega) (by omega) h
      simp only [show (256 : Nat) ^ 2 = 65536 by rfl] at hhi
      have hr : 16447 < v := by
        unfold NZ.len at hl; (repeat' split at hl) <;> omega
      rw [htk]; unfold NZ.enc
      rw [if_neg (by omega), if_neg (by omega), if_pos (by omega)]
    rw [NZ.dec_var b0 rest (by omega)] at h
    have hb0 : b0 = 192 + b0 % 16 := by omega
    obtain ⟨hl', hv64, hwrap, hok⟩ := var_canon 192 4210750 2 (b0 % 16) b0 rest v l hrest (by omega) h
    have hlb := NZ.len_bounds v hv64
    by_cases hw8 : b0 % 16 ≤ 8
    · by_cases hge : 4210750 ≤ v
      · obtain ⟨hu, hz, htk⟩ := hok hw8 hge
        by_cases heq : v = 4210750
        · exfalso
          have hlen : NZ.len v = 3 := by subst heq; decide
          have hw2 : b0 % 16 = 2 := by omega
          have htl := hz heq
          rw [hw2] at htl
          have hbx : b0 = 194 := by omega
          apply hx
          rw [hbx, List.take_succ_cons, htl]; rfl
        · have hW : varW 4210750 2 v = b0 % 16 := by
            unfold NZ.len at hl; simp only [lenVar_eq] at hl
            rw [if_neg (by omega), if_neg (by omega), if_neg (by omega)] at hl
            omega
          rw [htk hb0 hW]; unfold NZ.enc
          rw [if_neg (by omega), if_neg (by omega), if_neg (by omega)]
      · exfalso
        have := hwrap hw8 (by omega)
        unfold NZ.len at hl; (repeat' split at hl) <;> omega
    · omega

example : NZ.dec [64, 0] = some (64, 2) ∧ NZ.len 64 = 1 := by decide
example : NZ.dec [192] = some (4210750, 1) ∧ NZ.len 4210750 = 3 := by decide
example : NZ.dec [193, 5] = some (4210755, 2) ∧ NZ.len 4210755 = 3 := by decide
example : NZ.dec [194, 0, 0] = some (4210750, 3) ∧ NZ.len 4210750 = 3 ∧ NZ.enc 4210750 = [191, 255, 255] := by decide
example : NZ.dec [210, 1, 0] = some (4210751, 3) ∧ NZ.len 4210751 = 3 ∧ NZ.enc 4210751 = [194, 1, 0] := by decide

/-! ### varintSplitFull16 -/

/-- (a) provided a var tag announces at least the encoder's minimum width 4 -/
theorem S16.dec_len_le (bs : List Nat) (v l : Nat) (hb : ∀ b ∈ bs, b < 256)
    (hw : ∀ b0 ∈ bs.head?, b0 < 192 ∨ 4 ≤ b0 % 16)
    (h : S16.dec bs = some (v, l)) : S16.len v ≤ l := by
  cases bs with
  | nil => simp [S16.dec] at h
  | cons b0 rest =>
    have hrest : ∀ x ∈ rest, x < 256 := fun x hx => hb x (by simp [hx])
    have hw0 := hw b0 (by simp)
    by_cases h0 : b0 < 64
    · rw [S16.dec_lvl0 b0 rest (by omega) h0] at h
      obtain ⟨hl, hlo, hhi, _⟩ := level_canon 0 1 0 b0 rest v l hrest (by omega) (by omega) (by omega) (by omega) (by omega) h
      simp only [Nat.pow_one] at hhi
      unfold S16.len; repeat' split
      all_goals omega
    by_cases h1 : b0 < 128
    · rw [S16.dec_lvl1 b0 rest (by omega) h1] at h
      obtain ⟨hl, hlo, hhi, _⟩ := level_canon 64 2 16383 b0 rest v l hrest (by omega) (by omega) (by omega) (by omega) (by omega) h
      simp only [show (256 : Nat) ^ 2 = 65536 by rfl] at hhi
      unfold S16.len; repeat' split
      all_goals omega
    by_cases h2 : b0 < 192
    · rw [S16.dec_lvl2 b0 rest (by omega) h2] at h
      obtain ⟨hl, hlo, hhi, _⟩ := level_canon 128 3 4210686 b0 rest v l hrest (by omega) (by omega) (by omega) (by omega) (by omega) h
      simp only [show (256 : Nat) ^ 3 = 16777216 by rfl] at hhi
      unfold S16.len; repeat' split
      all_goals omega
    rw [S16.dec_var b0 rest (by omega)] at h
    obtain ⟨hl, hv64, hwrap, hok⟩ := var_canon 192 1077952509 4 (b0 % 16) b0 rest v l hrest (by omega) h
    have hlb := S16.len_bounds v hv64
    by_cases hw8 : b0 % 16 ≤ 8
    · by_cases hge : 1077952509 ≤ v
      · obtain ⟨hu, _, _⟩ := hok hw8 hge
        have := (varW_le_iff 1077952509 4 v (b0 % 16) (by omega) (by omega)).mpr hu
        unfold S16.len; simp only [lenVar_eq]; repeat' split
        all_goals omega
      · have := hwrap hw8 (by omega); omega
    · omega

/-- (b) provided bits 4-5 of a var tag are clear (the reader ignores them), and the bytes
    are not the var-level spelling `[195, 0, 0, 0]` of the last embedded level's maximum -/
theorem S16.dec_canonical (bs : List Nat) (v l : Nat) (hb : ∀ b ∈ bs, b < 256)
    (h208 : ∀ b0 ∈ bs.head?, b0 < 208)
    (hx : bs.take 4 ≠ [195, 0, 0, 0])
    (h : S16.dec bs = some (v, l)) (hl : l = S16.len v) : bs.take l = S16.enc v := by
  cases bs with
  | nil => simp [S16.dec] at h
  | cons b0 rest =>
    have hrest : ∀ x ∈ rest, x < 256 := fun x hx => hb x (by simp [hx])
    have hw0 := h208 b0 (by simp)
    by_cases h0 : b0 < 64
    · rw [S16.dec_lvl0 b0 rest (by omega) h0] at h
      obtain ⟨hl', hlo, hhi, htk⟩ := level_canon 0 1 0 b0 rest v l hrest (by omega) (by omega) (by omega) (by omega) (by omega) h
      simp only [Nat.pow_one] at hhi
      rw [htk]; unfold S16.enc
      rw [if_pos (by omega)]
    by_cases h1 : b0 < 128
    · rw [S16.dec_lvl1 b0 rest (by omega) h1] at h
      obtain ⟨hl', hlo, hhi, htk⟩ := level_canon 64 2 16383 b0 rest v l hrest (by omega) (by omega) (by omega) (by omega) (by omega) h
      simp only [show (256 : Nat) ^ 2 = 65536 by rfl] at hhi
      have hr : 16383 < v := by
        unfold S16.len at hl; (repeat' split at hl) <;> omega
      rw [htk]; unfold S16.enc
      rw [if_neg (by omega), if_pos (by omega)]
    by_cases h2 : b0 < 192
    · rw [S16.dec_lvl2 b0 rest (by omega) h2] at h
      obtain ⟨hl', hlo, hhi, htk⟩ := level_canon 128 3 4210686 b0 rest v l hrest (by omega) (by omega) (by omega) (by omega) (by omega) h
      simp only [show (256 : Nat) ^ 3 = 16777216 by rfl] at hhi
      have hr : 4210686 < v := by
        unfold S16.len at hl; (repeat' split at hl) <;> omega
      rw [htk]; unfold S16.enc
      rw [if_neg (by omega), if_neg (by omega), if_pos (by omega)]
    rw [S16.dec_var b0 rest (by omega)] at h
    have hb0 : b0 = 192 + b0 % 16 := by omega
    obtain ⟨hl', hv64, hwrap, hok⟩ := var_canon 192 1077952509 4 (b0 % 16) b0 rest v l hrest (by omega) h
    have hlb := S16.len_bounds v hv64
    by_cases hw8 : b0 % 16 ≤ 8
    · by_cases hge : 1077952509 ≤ v
      · obtain ⟨hu, hz, htk⟩ := hok hw8 hge
        by_cases heq : v = 1077952509
        · exfalso
          have hlen : S16.len v = 4 := by subst heq; decide
          have hw2 : b0 % 16 = 3 := by omega
          have htl := hz heq
          rw [hw2] at htl
          have hbx : b0 = 195 := by omega
          apply hx
          rw [hbx, List.take_succ_cons, htl]; rfl
        · have hW : varW 1077952509 4 v = b0 % 16 := by
            unfold S16.len at hl; simp only [lenVar_eq] at hl
            rw [if_neg (by omega), if_neg (by omega), if_neg (by omega)] at hl
            omega
          rw [htk hb0 hW]; unfold S16.enc
          rw [if_neg (by omega), if_neg (by omega), if_neg (by omega)]
      · exfalso
        have := hwrap hw8 (by omega)
        unfold S16.len at hl; (repeat' split at hl) <;> omega
    · omega

example : S16.dec [64, 0, 0] = some (16383, 3) ∧ S16.len 16383 = 2 := by decide
example : S16.dec [192] = some (1077952509, 1) ∧ S16.len 1077952509 = 4 := by decide
example : S16.dec [193, 5] = some (1077952514, 2) ∧ S16.len 1077952514 = 5 := by decide
example : S16.dec [195, 0, 0, 0] = some (1077952509, 4) ∧ S16.len 1077952509 = 4 ∧
    S16.enc 1077952509 = [191, 255, 255, 255] := by decide
example : S16.dec [212, 1, 0, 0, 0] = some (1077952510, 5) ∧ S16.len 1077952510 = 5 ∧
    S16.enc 1077952510 = [196, 1, 0, 0, 0] := by decide

end Split

end Varint
