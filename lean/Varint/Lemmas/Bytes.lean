import Varint.Model.Bytes
/- Helper lemmas about byte lists. Core Lean only. -/
namespace Varint

@[simp] theorem leBytes_length (k v : Nat) : (leBytes k v).length = k := by
  induction k generalizing v with
  | zero => rfl
  | succ k ih => simp [leBytes, ih]

@[simp] theorem beBytes_length (k v : Nat) : (beBytes k v).length = k := by
  induction k with
  | zero => rfl
  | succ k ih => simp [beBytes, ih]

theorem leBytes_lt (k v : Nat) : ∀ b ∈ leBytes k v, b < 256 := by
  induction k generalizing v with
  | zero => simp [leBytes]
  | succ k ih =>
    intro b hb
    simp only [leBytes, List.mem_cons] at hb
    rcases hb with h | h
    · omega
    · exact ih _ b h

theorem beBytes_lt (k v : Nat) : ∀ b ∈ beBytes k v, b < 256 := by
  induction k with
  | zero => simp [beBytes]
  | succ k ih =>
    intro b hb
    simp only [beBytes, List.mem_cons] at hb
    rcases hb with h | h
    · omega
    · exact ih b h

theorem ofLe_leBytes (k v : Nat) : ofLe (leBytes k v) = v % 256 ^ k := by
  induction k generalizing v with
  | zero => simp [leBytes, ofLe, Nat.mod_one]
  | succ k ih =>
    simp only [leBytes, ofLe, ih]
    rw [Nat.pow_succ, Nat.mul_comm (256 ^ k) 256, Nat.mod_mul]

theorem ofLe_leBytes_of_lt {k v : Nat} (h : v < 256 ^ k) : ofLe (leBytes k v) = v := by
  rw [ofLe_leBytes, Nat.mod_eq_of_lt h]

theorem ofBe_beBytes (k v : Nat) : ofBe (beBytes k v) = v % 256 ^ k := by
  induction k with
  | zero => simp [beBytes, ofBe, Nat.mod_one]
  | succ k ih =>
    simp only [beBytes, ofBe, beBytes_length, ih]
    rw [Nat.pow_succ, Nat.mod_mul, Nat.mul_comm]
    omega

theorem ofBe_beBytes_of_lt {k v : Nat} (h : v < 256 ^ k) : ofBe (beBytes k v) = v := by
  rw [ofBe_beBytes, Nat.mod_eq_of_lt h]

theorem ofLe_lt (bs : List Nat) (h : ∀ b ∈ bs, b < 256) : ofLe bs < 256 ^ bs.length := by
  induction bs with
  | nil => simp [ofLe]
  | cons b bs ih =>
    have hb : b < 256 := h b (by simp)
    have := ih (fun x hx => h x (by simp [hx]))
    simp only [ofLe, List.length_cons, Nat.pow_succ]
    omega

theorem ofBe_lt (bs : List Nat) (h : ∀ b ∈ bs, b < 256) : ofBe bs < 256 ^ bs.length := by
  induction bs with
  | nil => simp [ofBe]
  | cons b bs ih =>
    have hb : b < 256 := h b (by simp)
    have := ih (fun x hx => h x (by simp [hx]))
    simp only [ofBe, List.length_cons, Nat.pow_succ]
    have : b * 256 ^ bs.length ≤ 255 * 256 ^ bs.length := Nat.mul_le_mul_right _ (by omega)
    omega

/-- a little-endian list is determined by its value and length -/
theorem leBytes_ofLe (bs : List Nat) (h : ∀ b ∈ bs, b < 256) : leBytes bs.length (ofLe bs) = bs := by
  induction bs with
  | nil => rfl
  | cons b bs ih =>
    have hb : b < 256 := h b (by simp)
    have := ih (fun x hx => h x (by simp [hx]))
    simp only [List.length_cons, leBytes, ofLe]
    have h1 : (b + 256 * ofLe bs) % 256 = b := by omega
    have h2 : (b + 256 * ofLe bs) / 256 = ofLe bs := by omega
    rw [h1, h2, this]

theorem beBytes_ofBe (bs : List Nat) (h : ∀ b ∈ bs, b < 256) : beBytes bs.length (ofBe bs) = bs := by
  induction bs with
  | nil => rfl
  | cons b bs ih =>
    have hb : b < 256 := h b (by simp)
    have hrest := ih (fun x hx => h x (by simp [hx]))
    have hlt := ofBe_lt bs (fun x hx => h x (by simp [hx]))
    simp only [List.length_cons, beBytes, ofBe]
    have hpos : 0 < 256 ^ bs.length := Nat.pow_pos (by omega)
    have h1 : (b * 256 ^ bs.length + ofBe bs) / 256 ^ bs.length = b := by
      rw [Nat.mul_comm, Nat.mul_add_div hpos, Nat.div_eq_of_lt hlt]; omega
    rw [h1, Nat.mod_eq_of_lt hb]
    congr 1
    -- beBytes k only looks at v mod 256^k
    have key : ∀ k v w, v % 256 ^ k = w % 256 ^ k → beBytes k v = beBytes k w := by
      intro k
      induction k with
      | zero => intros; rfl
      | succ k ihk =>
        intro v w hvw
        simp only [beBytes]
        have e1 : v / 256 ^ k % 256 = w / 256 ^ k % 256 := by
          have := congrArg (· / 256 ^ k) hvw
          simp only [Nat.pow_succ, Nat.mod_mul_right_div_self] at this
          exact this
        have e2 : v % 256 ^ k = w % 256 ^ k := by
          have := congrArg (· % 256 ^ k) hvw
          simp only [Nat.pow_succ] at this
          rwa [Nat.mod_mul_right_mod, Nat.mod_mul_right_mod] at this
        rw [e1, ihk v w e2]
    rw [key bs.length (b * 256 ^ bs.length + ofBe bs) (ofBe bs) (by
      rw [Nat.add_comm, Nat.add_mul_mod_self_right]), hrest]

@[simp] theorem takeExact_append_self (a rest : List Nat) : takeExact a.length (a ++ rest) = some a := by
  simp [takeExact]

theorem takeExact_append {k : Nat} (a rest : List Nat) (h : a.length = k) :
    takeExact k (a ++ rest) = some a := by
  subst h; simp

/-! extLen / len7 -/
theorem extLenAux_fuel (v : Nat) : ∀ f g, v ≤ f → v ≤ g → extLenAux f v = extLenAux g v := by
  induction v using Nat.strongRecOn with
  | _ v ih =>
    intro f g hf hg
    cases f with
    | zero =>
      have : v = 0 := by omega
      subst this
      cases g <;> simp [extLenAux]
    | succ f =>
      cases g with
      | zero =>
        have : v = 0 := by omega
        subst this; simp [extLenAux]
      | succ g =>
        simp only [extLenAux]
        split
        · rfl
        · rw [ih (v / 256) (by omega) f g (by omega) (by omega)]

theorem extLen_eq (v : Nat) : extLen v = if v < 256 then 1 else 1 + extLen (v / 256) := by
  unfold extLen
  cases v with
  | zero => simp [extLenAux]
  | succ n =>
    simp only [extLenAux]
    split
    · rfl
    · rw [extLenAux_fuel ((n + 1) / 256) n ((n + 1) / 256) (by omega) (by omega)]

theorem len7Aux_fuel (v : Nat) : ∀ f g, v ≤ f → v ≤ g → len7Aux f v = len7Aux g v := by
  induction v using Nat.strongRecOn with
  | _ v ih =>
    intro f g hf hg
    cases f with
    | zero =>
      have : v = 0 := by omega
      subst this
      cases g <;> simp [len7Aux]
    | succ f =>
      cases g with
      | zero =>
        have : v = 0 := by omega
        subst this; simp [len7Aux]
      | succ g =>
        simp only [len7Aux]
        split
        · rfl
        · rw [ih (v / 128) (by omega) f g (by omega) (by omega)]

theorem len7_eq (v : Nat) : len7 v = if v < 128 then 1 else 1 + len7 (v / 128) := by
  unfold len7
  cases v with
  | zero => simp [len7Aux]
  | succ n =>
    simp only [len7Aux]
    split
    · rfl
    · rw [len7Aux_fuel ((n + 1) / 128) n ((n + 1) / 128) (by omega) (by omega)]

theorem extLen_pos (v : Nat) : 1 ≤ extLen v := by
  rw [extLen_eq]; split <;> omega

theorem lt_pow_extLen (v : Nat) : v < 256 ^ extLen v := by
  induction v using Nat.strongRecOn with
  | _ v ih =>
    rw [extLen_eq]
    split
    · simpa using ‹v < 256›
    · have := ih (v / 256) (by omega)
      rw [Nat.add_comm, Nat.pow_succ]
      omega

theorem extLen_le_of_lt {v k : Nat} (hk : 1 ≤ k) (h : v < 256 ^ k) : extLen v ≤ k := by
  induction k generalizing v with
  | zero => omega
  | succ k ih =>
    rw [extLen_eq]
    split
    · omega
    · have hk' : 1 ≤ k := by
        rcases k with _ | k
        · simp at h; omega
        · omega
      have : v / 256 < 256 ^ k := by
        rw [Nat.pow_succ] at h
        omega
      have := ih hk' this
      omega

theorem pow_le_of_extLen {v k : Nat} (h : extLen v = k + 2) : 256 ^ (k + 1) ≤ v := by
  apply Nat.le_of_not_lt
  intro hlt
  have := extLen_le_of_lt (v := v) (k := k + 1) (by omega) hlt
  omega

theorem extLen_le_8 {v : Nat} (h : v < 2 ^ 64) : extLen v ≤ 8 :=
  extLen_le_of_lt (by omega) (by simpa using h)

theorem extLen_mono {v w : Nat} (h : v ≤ w) : extLen v ≤ extLen w :=
  extLen_le_of_lt (extLen_pos w) (Nat.lt_of_le_of_lt h (lt_pow_extLen w))

theorem len7_pos (v : Nat) : 1 ≤ len7 v := by
  rw [len7_eq]; split <;> omega

theorem lt_pow_len7 (v : Nat) : v < 128 ^ len7 v := by
  induction v using Nat.strongRecOn with
  | _ v ih =>
    rw [len7_eq]
    split
    · simpa using ‹v < 128›
    · have := ih (v / 128) (by omega)
      rw [Nat.add_comm, Nat.pow_succ]
      omega

theorem len7_le_of_lt {v k : Nat} (hk : 1 ≤ k) (h : v < 128 ^ k) : len7 v ≤ k := by
  induction k generalizing v with
  | zero => omega
  | succ k ih =>
    rw [len7_eq]
    split
    · omega
    · have hk' : 1 ≤ k := by
        rcases k with _ | k
        · simp at h; omega
        · omega
      have : v / 128 < 128 ^ k := by
        rw [Nat.pow_succ] at h
        omega
      have := ih hk' this
      omega

theorem pow_le_of_len7 {v k : Nat} (h : len7 v = k + 2) : 128 ^ (k + 1) ≤ v := by
  apply Nat.le_of_not_lt
  intro hlt
  have := len7_le_of_lt (v := v) (k := k + 1) (by omega) hlt
  omega

theorem len7_mono {v w : Nat} (h : v ≤ w) : len7 v ≤ len7 w :=
  len7_le_of_lt (len7_pos w) (Nat.lt_of_le_of_lt h (lt_pow_len7 w))

end Varint
