import Varint.Model.PFOR
import Varint.Lemmas.Bytes
import Varint.Lemmas.Tagged
/- Lemmas about the patched frame-of-reference codec model (src/varintPFOR.c). Core Lean only. -/
namespace Varint.PFOR

/-- the inputs the C encoder accepts: non-empty, count fits the 32-bit count field, 64-bit values -/
def Good (xs : List Nat) : Prop := xs ≠ [] ∧ xs.length < 2 ^ 32 ∧ ∀ x ∈ xs, x < 2 ^ 64

/-! ### monotonicity of the tagged length -/

theorem Tagged.len_mono {a b : Nat} (h : a ≤ b) : Tagged.len a ≤ Tagged.len b := by
  unfold Tagged.len
  repeat' split
  all_goals omega

/-! ### the marker -/

theorem pow256_eq (w : Nat) : 2 ^ (8 * w) = 256 ^ w := by
  rw [Nat.pow_mul]

theorem marker_lt (w : Nat) : marker w < 256 ^ w := by
  unfold marker
  split
  · rename_i h
    have : 256 ^ 8 ≤ 256 ^ w := Nat.pow_le_pow_right (by omega) h
    have e : (256 : Nat) ^ 8 = 2 ^ 64 := by rw [← pow256_eq]
    omega
  · rw [pow256_eq]
    have : 0 < 256 ^ w := Nat.pow_pos (by omega)
    omega

theorem marker_eq_of_le {w : Nat} (h : w ≤ 8) : marker w = 256 ^ w - 1 := by
  unfold marker
  split
  · rename_i h8
    have : w = 8 := by omega
    subst this
    have e : (256 : Nat) ^ 8 = 2 ^ 64 := by rw [← pow256_eq]
    rw [e]
  · rw [pow256_eq]

/-! ### the sorted copy -/

theorem sorted_facts (xs : List Nat) (hne : xs ≠ []) :
    ∃ s ss, xs.mergeSort (· ≤ ·) = s :: ss ∧ (∀ y ∈ s :: ss, s ≤ y) := by
  cases h : xs.mergeSort (· ≤ ·) with
  | nil =>
    have := List.length_mergeSort (le := fun a b => decide (a ≤ b)) xs
    rw [h] at this
    exact absurd (List.eq_nil_of_length_eq_zero this.symm) hne
  | cons s ss =>
    refine ⟨s, ss, rfl, ?_⟩
    have hp := List.pairwise_mergeSort (le := fun a b => decide (a ≤ b))
      (by intro a b c; simp only [decide_eq_true_eq]; omega)
      (by intro a b; simp only [Bool.or_eq_true, decide_eq_true_eq]; omega) xs
    rw [h] at hp
    have h1 := (List.pairwise_cons.mp hp).1
    intro y hy
    simp only [List.mem_cons] at hy
    rcases hy with rfl | hy
    · exact Nat.le_refl _
    · simpa using h1 y hy

/-- the percentile index used by `varintPFORComputeThreshold` -/
def thrIdx (n t : Nat) : Nat :=
  if (n * t) / 100 ≥ n then n - 1 else (n * t) / 100

theorem thrIdx_lt {n : Nat} (t : Nat) (h : 0 < n) : thrIdx n t < n := by
  unfold thrIdx
  split <;> omega

theorem compute_min (xs : List Nat) (t : Nat) :
    (compute xs t).min = (xs.mergeSort (· ≤ ·)).headD 0 := rfl

theorem compute_thr (xs : List Nat) (t : Nat) :
    (compute xs t).thresholdValue = (xs.mergeSort (· ≤ ·)).getD (thrIdx xs.length t) 0 := rfl

theorem compute_count (xs : List Nat) (t : Nat) : (compute xs t).count = xs.length := rfl

theorem compute_marker (xs : List Nat) (t : Nat) :
    (compute xs t).marker = marker (compute xs t).width := rfl

theorem compute_threshold (xs : List Nat) (t : Nat) : (compute xs t).threshold = t := rfl

theorem compute_exceptionCount (xs : List Nat) (t : Nat) :
    (compute xs t).exceptionCount = (xs.filter (· > (compute xs t).thresholdValue)).length := rfl

theorem compute_width (xs : List Nat) (t : Nat) :
    (compute xs t).width =
      if (compute xs t).thresholdValue - (compute xs t).min < 2 ^ 64 - 1
      then extLen ((compute xs t).thresholdValue - (compute xs t).min + 1) else 8 := rfl

/-- everything the round trip needs to know about the analysis result -/
structure Facts (m : Meta) (xs : List Nat) : Prop where
  min_le : ∀ x ∈ xs, m.min ≤ x
  min_mem : m.min ∈ xs
  min_le_thr : m.min ≤ m.thresholdValue
  thr_mem : m.thresholdValue ∈ xs
  width_pos : 1 ≤ m.width
  width_le : m.width ≤ 8
  marker_eq : m.marker = marker m.width
  count_eq : m.count = xs.length
  exc_eq : m.exceptionCount = (xs.filter (· > m.thresholdValue)).length
  exc_le : m.exceptionCount ≤ xs.length
  sep : ∀ x ∈ xs, x ≤ m.thresholdValue →
    x - m.min < 256 ^ m.width ∧ (x - m.min ≠ marker m.width ∨ x = 2 ^ 64 - 1)

theorem compute_facts (xs : List Nat) (g : Good xs) (t : Nat) : Facts (compute xs t) xs := by
  obtain ⟨hne, hlen, hlt⟩ := g
  obtain ⟨s, ss, hs, hmin⟩ := sorted_facts xs hne
  have hmem : ∀ y, y ∈ s :: ss ↔ y ∈ xs := by
    intro y; rw [← hs]; exact List.mem_mergeSort
  have hslen : (s :: ss).length = xs.length := by
    rw [← hs]; exact List.length_mergeSort xs
  have hpos : 0 < xs.length := List.length_pos_iff.mpr hne
  have hmn : (compute xs t).min = s := by rw [compute_min, hs]; rfl
  have hidx : thrIdx xs.length t < (s :: ss).length := by rw [hslen]; exact thrIdx_lt t hpos
  have hthr : (compute xs t).thresholdValue = (s :: ss)[thrIdx xs.length t] := by
    rw [compute_thr, hs, List.getD_eq_getElem?_getD, List.getElem?_eq_getElem hidx, Option.getD_some]
  have hthr_mem' : (compute xs t).thresholdValue ∈ s :: ss := by
    rw [hthr]; exact List.getElem_mem hidx
  have hthr_mem : (compute xs t).thresholdValue ∈ xs := (hmem _).mp hthr_mem'
  have hmin_mem : (compute xs t).min ∈ xs := by
    rw [hmn]; exact (hmem s).mp (by simp)
  have hmin_le : ∀ x ∈ xs, (compute xs t).min ≤ x := by
    intro x hx; rw [hmn]; exact hmin x ((hmem x).mpr hx)
  have hmt : (compute xs t).min ≤ (compute xs t).thresholdValue := hmin_le _ hthr_mem
  have hthr_lt : (compute xs t).thresholdValue < 2 ^ 64 := hlt _ hthr_mem
  have hw := compute_width xs t
  have hw1 : 1 ≤ (compute xs t).width := by
    rw [hw]; split
    · exact extLen_pos _
    · omega
  have hw8 : (compute xs t).width ≤ 8 := by
    rw [hw]; split
    · exact extLen_le_8 (by omega)
    · omega
  have hfl : (xs.filter (· > (compute xs t).thresholdValue)).length ≤ xs.length :=
    List.length_filter_le _ _
  refine ⟨hmin_le, hmin_mem, hmt, hthr_mem, hw1, hw8, compute_marker xs t, compute_count xs t,
    compute_exceptionCount xs t, by rw [compute_exceptionCount]; exact hfl, ?_⟩
  intro x hx hxt
  have hxm := hmin_le x hx
  have hx64 := hlt x hx
  rw [marker_eq_of_le hw8]
  by_cases hr : (compute xs t).thresholdValue - (compute xs t).min < 2 ^ 64 - 1
  · have hweq : (compute xs t).width =
        extLen ((compute xs t).thresholdValue - (compute xs t).min + 1) := by rw [hw, if_pos hr]
    have hb := lt_pow_extLen ((compute xs t).thresholdValue - (compute xs t).min + 1)
    rw [← hweq] at hb
    refine ⟨by omega, Or.inl (by omega)⟩
  · have hweq : (compute xs t).width = 8 := by rw [hw, if_neg hr]
    rw [hweq]
    have e : (256 : Nat) ^ 8 = 2 ^ 64 := by rw [← pow256_eq]
    rw [e]
    refine ⟨by omega, ?_⟩
    by_cases hx1 : x = 2 ^ 64 - 1
    · exact Or.inr hx1
    · exact Or.inl (by omega)

/-! ### slots -/

/-- what the slot pass of the decoder leaves: every exception replaced by the placeholder -/
def masked (m : Meta) (xs : List Nat) : List Nat :=
  xs.map fun x => if x > m.thresholdValue then 2 ^ 64 - 1 else x

theorem masked_length (m : Meta) (xs : List Nat) : (masked m xs).length = xs.length := by
  simp [masked]

theorem slots_length (m : Meta) (xs : List Nat) : (slots m xs).length = xs.length * m.width := by
  induction xs with
  | nil => simp [slots]
  | cons x xs ih =>
    rw [slots, List.length_append, ih, List.length_cons, Nat.add_mul, Nat.one_mul]
    split <;> simp only [leBytes_length] <;> omega

theorem slots_lt (m : Meta) (xs : List Nat) : ∀ b ∈ slots m xs, b < 256 := by
  induction xs with
  | nil => simp [slots]
  | cons x xs ih =>
    intro b hb
    rw [slots, List.mem_append] at hb
    rcases hb with hb | hb
    · split at hb
      · exact leBytes_lt _ _ b hb
      · exact leBytes_lt _ _ b hb
    · exact ih b hb

theorem readSlots_slots (m : Meta) (hm : m.marker = marker m.width) (ys : List Nat)
    (h : ∀ x ∈ ys, m.min ≤ x ∧ x < 2 ^ 64 ∧ (x ≤ m.thresholdValue →
      x - m.min < 256 ^ m.width ∧ (x - m.min ≠ marker m.width ∨ x = 2 ^ 64 - 1)))
    (tail : List Nat) :
    readSlots ys.length m.min m.width (slots m ys ++ tail) = some (masked m ys) := by
  induction ys with
  | nil => rfl
  | cons x ys ih =>
    obtain ⟨h1, h2, h3⟩ := h x (by simp)
    have ih' := ih (fun y hy => h y (by simp [hy]))
    by_cases hx : x > m.thresholdValue
    · rw [slots, if_pos hx, List.length_cons, List.append_assoc, readSlots,
        takeExact_append _ _ (leBytes_length _ _)]
      simp only []
      rw [List.drop_left' (leBytes_length _ _), ih', hm, ofLe_leBytes_of_lt (marker_lt _)]
      simp [masked, hx]
    · rw [slots, if_neg hx, List.length_cons, List.append_assoc, readSlots,
        takeExact_append _ _ (leBytes_length _ _)]
      simp only []
      obtain ⟨h4, h5⟩ := h3 (by omega)
      rw [List.drop_left' (leBytes_length _ _), ih', ofLe_leBytes_of_lt h4]
      simp only [Option.map_some, masked, List.map_cons, if_neg hx]
      by_cases he : x - m.min = marker m.width
      · rw [if_pos he]
        rcases h5 with h5 | h5
        · exact absurd he h5
        · rw [h5]
      · rw [if_neg he]
        have : (m.min + (x - m.min)) % 2 ^ 64 = x := by omega
        rw [this]

/-! ### exceptions -/

theorem set_append_length (pre : List Nat) (a v : Nat) (l : List Nat) :
    (pre ++ a :: l).set pre.length v = pre ++ v :: l := by
  induction pre with
  | nil => rfl
  | cons p pre ih => simp [ih]

theorem applyExcs_step (k i v : Nat) (hi : i < 2 ^ 64) (hv : v < 2 ^ 64) (vals R : List Nat) :
    applyExcs (k + 1) vals (Tagged.enc i ++ Tagged.enc v ++ R)
      = applyExcs k (if i < vals.length then vals.set i v else vals) R := by
  rw [applyExcs, List.append_assoc, Tagged.get_enc _ hi]
  simp only []
  rw [List.drop_left, Tagged.get_enc _ hv]
  simp only []
  rw [← List.append_assoc, List.drop_left' (by simp)]

theorem applyExcs_excs (m : Meta) (ys : List Nat) (hy : ∀ y ∈ ys, y < 2 ^ 64) (pre rest : List Nat)
    (hl : pre.length + ys.length ≤ 2 ^ 64) :
    applyExcs (ys.filter (· > m.thresholdValue)).length (pre ++ masked m ys)
      (excs m pre.length ys ++ rest) = some (pre ++ ys) := by
  induction ys generalizing pre with
  | nil => simp [applyExcs, masked]
  | cons y ys ih =>
    have hy64 := hy y (by simp)
    have hl' : pre.length + 1 + ys.length ≤ 2 ^ 64 := by simp only [List.length_cons] at hl; omega
    have ih' := ih (fun z hz => hy z (by simp [hz])) (pre ++ [y])
      (by simp only [List.length_append, List.length_singleton]; exact hl')
    simp only [List.length_append, List.length_singleton, List.append_assoc,
      List.singleton_append] at ih'
    by_cases hx : y > m.thresholdValue
    · rw [List.filter_cons_of_pos (by simpa using hx), List.length_cons, excs, if_pos hx,
        List.append_assoc, applyExcs_step _ _ _ (by omega) hy64]
      simp only [masked, List.map_cons, if_pos hx]
      rw [if_pos (by simp), set_append_length]
      exact ih'
    · rw [List.filter_cons_of_neg (by simpa using hx), excs, if_neg hx, List.nil_append]
      simp only [masked, List.map_cons, if_neg hx]
      exact ih'

theorem excs_lt (m : Meta) (ys : List Nat) (hy : ∀ y ∈ ys, y < 2 ^ 64) (i : Nat)
    (hl : i + ys.length ≤ 2 ^ 64) : ∀ b ∈ excs m i ys, b < 256 := by
  induction ys generalizing i with
  | nil => simp [excs]
  | cons y ys ih =>
    intro b hb
    simp only [List.length_cons] at hl
    rw [excs, List.mem_append] at hb
    rcases hb with hb | hb
    · split at hb
      · rw [List.mem_append] at hb
        rcases hb with hb | hb
        · exact Tagged.enc_lt i (by omega) b hb
        · exact Tagged.enc_lt y (hy y (by simp)) b hb
      · simp at hb
    · exact ih (fun z hz => hy z (by simp [hz])) (i + 1) (by omega) b hb

theorem excs_length_le (m : Meta) (ys : List Nat) (i B : Nat) (hB : i + ys.length ≤ B + 1) :
    (excs m i ys).length ≤ (ys.filter (· > m.thresholdValue)).length * (Tagged.len B + 9) := by
  induction ys generalizing i with
  | nil => simp [excs]
  | cons y ys ih =>
    simp only [List.length_cons] at hB
    have ih' := ih (i + 1) (by omega)
    by_cases hx : y > m.thresholdValue
    · rw [List.filter_cons_of_pos (by simpa using hx), List.length_cons, excs, if_pos hx,
        Nat.succ_mul]
      simp only [List.length_append, Tagged.enc_length]
      have h1 := Tagged.len_mono (a := i) (b := B) (by omega)
      have h2 := (Tagged.len_bounds y).2
      omega
    · rw [List.filter_cons_of_neg (by simpa using hx), excs, if_neg hx, List.nil_append]
      exact ih'

/-- the exception records as (index, value) pairs -/
def excList (thr : Nat) : Nat → List Nat → List (Nat × Nat)
  | _, [] => []
  | i, x :: xs => if x > thr then (i, x) :: excList thr (i + 1) xs else excList thr (i + 1) xs

theorem excs_eq_flatMap (m : Meta) (i : Nat) (ys : List Nat) :
    excs m i ys = (excList m.thresholdValue i ys).flatMap
      (fun p => Tagged.enc p.1 ++ Tagged.enc p.2) := by
  induction ys generalizing i with
  | nil => rfl
  | cons y ys ih =>
    rw [excs, excList, ih (i + 1)]
    split <;> simp

theorem excList_length (thr i : Nat) (ys : List Nat) :
    (excList thr i ys).length = (ys.filter (· > thr)).length := by
  induction ys generalizing i with
  | nil => rfl
  | cons y ys ih =>
    rw [excList]
    by_cases hx : y > thr
    · rw [if_pos hx, List.filter_cons_of_pos (by simpa using hx), List.length_cons,
        List.length_cons, ih]
    · rw [if_neg hx, List.filter_cons_of_neg (by simpa using hx), ih]

theorem mem_excList (thr i : Nat) (ys : List Nat) (j v : Nat) :
    (j, v) ∈ excList thr i ys ↔ i ≤ j ∧ ys[j - i]? = some v ∧ v > thr := by
  induction ys generalizing i with
  | nil => simp [excList]
  | cons y ys ih =>
    rw [excList]
    have key : (i ≤ j ∧ (y :: ys)[j - i]? = some v ∧ v > thr) ↔
        ((j = i ∧ v = y ∧ y > thr) ∨ (i + 1 ≤ j ∧ ys[j - (i + 1)]? = some v ∧ v > thr)) := by
      constructor
      · rintro ⟨h1, h2, h3⟩
        by_cases hji : j = i
        · subst hji
          simp only [Nat.sub_self, List.getElem?_cons_zero, Option.some.injEq] at h2
          subst h2
          exact Or.inl ⟨rfl, rfl, h3⟩
        · have : j - i = (j - (i + 1)) + 1 := by omega
          rw [this, List.getElem?_cons_succ] at h2
          exact Or.inr ⟨by omega, h2, h3⟩
      · rintro (⟨h1, h2, h3⟩ | ⟨h1, h2, h3⟩)
        · subst h1; subst h2
          exact ⟨Nat.le_refl _, by simp, h3⟩
        · have : j - i = (j - (i + 1)) + 1 := by omega
          exact ⟨by omega, by rw [this, List.getElem?_cons_succ]; exact h2, h3⟩
    rw [key]
    by_cases hx : y > thr
    · rw [if_pos hx, List.mem_cons, ih (i + 1)]
      constructor
      · rintro (h | h)
        · simp only [Prod.mk.injEq] at h
          exact Or.inl ⟨h.1, h.2, hx⟩
        · exact Or.inr h
      · rintro (⟨h1, h2, _⟩ | h)
        · exact Or.inl (by rw [h1, h2])
        · exact Or.inr h
    · rw [if_neg hx, ih (i + 1)]
      constructor
      · intro h; exact Or.inr h
      · rintro (⟨_, _, h3⟩ | h)
        · exact absurd h3 hx
        · exact h

/-! ### the whole encoding -/

theorem enc_eq (xs : List Nat) (t : Nat) (rest : List Nat) :
    enc xs t ++ rest = Tagged.enc (compute xs t).min ++ ((compute xs t).width ::
      (Tagged.enc (compute xs t).count ++ (slots (compute xs t) xs ++
        (Tagged.enc (compute xs t).exceptionCount ++ (excs (compute xs t) 0 xs ++ rest))))) := by
  simp [enc]

theorem dec_of_parts (mn w cnt ec : Nat) (S E vals : List Nat) (hmn : mn < 2 ^ 64)
    (hcnt : cnt < 2 ^ 32) (hw1 : 1 ≤ w) (hw8 : w ≤ 8) (hec : ec < 2 ^ 32)
    (hS : S.length = cnt * w)
    (hread : readSlots cnt mn w (S ++ (Tagged.enc ec ++ E)) = some vals) :
    dec (Tagged.enc mn ++ (w :: (Tagged.enc cnt ++ (S ++ (Tagged.enc ec ++ E)))))
      = applyExcs ec vals E := by
  unfold dec
  rw [Tagged.get_enc _ hmn]
  simp only []
  rw [List.drop_left]
  simp only []
  rw [Tagged.get_enc _ (by omega : cnt < 2 ^ 64)]
  simp only []
  rw [Nat.mod_eq_of_lt hcnt, if_neg (by omega), List.drop_left, hread]
  simp only []
  rw [← hS, List.drop_left, Tagged.get_enc _ (by omega : ec < 2 ^ 64)]
  simp only []
  rw [Nat.mod_eq_of_lt hec, ← List.append_assoc, List.drop_left' (by simp)]

/-- MAIN: the decoder inverts the encoder, whatever the threshold and whatever follows -/
theorem dec_enc (xs : List Nat) (g : Good xs) (t : Nat) (rest : List Nat) :
    dec (enc xs t ++ rest) = some xs := by
  have f := compute_facts xs g t
  obtain ⟨hne, hlen, hlt⟩ := g
  have hmn : (compute xs t).min < 2 ^ 64 := hlt _ f.min_mem
  have hread := readSlots_slots (compute xs t) f.marker_eq xs
    (fun x hx => ⟨f.min_le x hx, hlt x hx, f.sep x hx⟩)
    (Tagged.enc (compute xs t).exceptionCount ++ (excs (compute xs t) 0 xs ++ rest))
  rw [← f.count_eq] at hread
  have hex := f.exc_le
  rw [enc_eq, dec_of_parts _ _ _ _ _ _ _ hmn (by rw [f.count_eq]; exact hlen) f.width_pos
    f.width_le (by omega) (by rw [slots_length, f.count_eq]) hread]
  have := applyExcs_excs (compute xs t) xs hlt [] rest (by simp; omega)
  simp only [List.nil_append, List.length_nil] at this
  rw [f.exc_eq]
  exact this

/-! ### sizes -/

theorem enc_length (xs : List Nat) (t : Nat) :
    (enc xs t).length = Tagged.len (compute xs t).min + 1 + Tagged.len (compute xs t).count +
      (compute xs t).count * (compute xs t).width + Tagged.len (compute xs t).exceptionCount +
      (excs (compute xs t) 0 xs).length := by
  simp only [enc, List.length_append, List.length_cons, List.length_nil, Tagged.enc_length,
    slots_length, compute_count]

/-- the size predictor never under-estimates -/
theorem enc_length_le_size (xs : List Nat) (g : Good xs) (t : Nat) :
    (enc xs t).length ≤ size (compute xs t) := by
  have hpos : 0 < xs.length := List.length_pos_iff.mpr g.1
  have h := excs_length_le (compute xs t) xs 0 ((compute xs t).count - 1)
    (by rw [compute_count]; omega)
  rw [← compute_exceptionCount] at h
  rw [enc_length, size]
  omega

/-- without exceptions the predictor is exact -/
theorem enc_length_eq_size_of_no_exc (xs : List Nat) (t : Nat)
    (h : (compute xs t).exceptionCount = 0) : (enc xs t).length = size (compute xs t) := by
  have h' := excs_length_le (compute xs t) xs 0 xs.length (by omega)
  rw [← compute_exceptionCount, h, Nat.zero_mul] at h'
  rw [enc_length, size, h]
  omega

/-! ### bytes -/

theorem enc_lt (xs : List Nat) (g : Good xs) (t : Nat) : ∀ b ∈ enc xs t, b < 256 := by
  have f := compute_facts xs g t
  obtain ⟨hne, hlen, hlt⟩ := g
  have hmn : (compute xs t).min < 2 ^ 64 := hlt _ f.min_mem
  have hex := f.exc_le
  have hc := f.count_eq
  have hw := f.width_le
  intro b hb
  simp only [enc, List.mem_append, List.mem_cons, List.not_mem_nil, or_false] at hb
  rcases hb with ((((hb | hb) | hb) | hb) | hb) | hb
  · exact Tagged.enc_lt _ hmn b hb
  · omega
  · exact Tagged.enc_lt _ (by omega) b hb
  · exact slots_lt _ _ b hb
  · exact Tagged.enc_lt _ (by omega) b hb
  · exact excs_lt _ xs hlt 0 (by omega) b hb

/-! ### metadata truth / header read-back -/

/-- the exception count in the metadata is the number of exception records written, and the
    records are exactly the (index, value) pairs of the values above the threshold -/
theorem exceptionCount_eq_records (xs : List Nat) (t : Nat) :
    (compute xs t).exceptionCount = (excList (compute xs t).thresholdValue 0 xs).length ∧
    excs (compute xs t) 0 xs = (excList (compute xs t).thresholdValue 0 xs).flatMap
      (fun p => Tagged.enc p.1 ++ Tagged.enc p.2) :=
  ⟨by rw [excList_length, compute_exceptionCount], excs_eq_flatMap _ _ _⟩

theorem hdr_min (xs : List Nat) (g : Good xs) (t : Nat) (rest : List Nat) :
    Tagged.get (enc xs t ++ rest) = .ok (compute xs t).min (Tagged.len (compute xs t).min) := by
  have f := compute_facts xs g t
  rw [enc_eq, Tagged.get_enc _ (g.2.2 _ f.min_mem), Tagged.enc_length]

theorem hdr_width (xs : List Nat) (t : Nat) (rest : List Nat) :
    (enc xs t ++ rest).drop (Tagged.len (compute xs t).min) = (compute xs t).width ::
      (Tagged.enc xs.length ++ (slots (compute xs t) xs ++
        (Tagged.enc (compute xs t).exceptionCount ++ (excs (compute xs t) 0 xs ++ rest)))) := by
  rw [enc_eq, List.drop_left' (Tagged.enc_length _), compute_count]

theorem hdr_count (xs : List Nat) (g : Good xs) (t : Nat) (rest : List Nat) :
    Tagged.get ((enc xs t ++ rest).drop (Tagged.len (compute xs t).min + 1))
      = .ok xs.length (Tagged.len xs.length) := by
  have hl := g.2.1
  rw [← List.drop_drop, hdr_width, List.drop_one, List.tail_cons,
    Tagged.get_enc _ (by omega), Tagged.enc_length]

theorem hdr_exceptionCount (xs : List Nat) (g : Good xs) (t : Nat) (rest : List Nat) :
    Tagged.get ((enc xs t ++ rest).drop (Tagged.len (compute xs t).min + 1 +
        Tagged.len xs.length + xs.length * (compute xs t).width))
      = .ok (compute xs t).exceptionCount (Tagged.len (compute xs t).exceptionCount) := by
  have f := compute_facts xs g t
  have hl := g.2.1
  have hex := f.exc_le
  have e : enc xs t ++ rest = (Tagged.enc (compute xs t).min ++ [(compute xs t).width] ++
      Tagged.enc xs.length ++ slots (compute xs t) xs) ++
      (Tagged.enc (compute xs t).exceptionCount ++ (excs (compute xs t) 0 xs ++ rest)) := by
    simp [enc, compute_count]
  rw [e, List.drop_left' (by simp [Tagged.enc_length, slots_length]; omega),
    Tagged.get_enc _ (by omega), Tagged.enc_length]

end Varint.PFOR
