import Varint.Model.Bounded
import Varint.Model.RLE
import Varint.Model.BP128
import Varint.Model.Chained
import Varint.Model.Dict
import Varint.Model.Packed
import Varint.Lemmas.Bounded
/- Fuel adequacy: every fuel-indexed loop of the decoder models is independent of its fuel from the
   amount the top-level function passes (so the default returned on exhaustion is never observed). -/
namespace Varint.Bounded
open Varint.Tagged (GetR getN)

/-- a successful bounded read: 1 ≤ w ≤ min(n, 9) -/
theorem getN_ok_bounds (bs : List Nat) (n : Int) (v w : Nat) (h : getN bs n = .ok v w) :
    1 ≤ w ∧ (w : Int) ≤ n ∧ w ≤ 9 := by
  unfold getN at h
  split at h
  · simp at h
  · match bs with
    | [] => simp at h
    | b0 :: rest =>
      simp only [] at h
      split at h
      · injection h with _ h2; omega
      · split at h
        · split at h
          · simp at h
          · match rest with
            | [] => simp at h
            | b1 :: _ => simp only [] at h; injection h with _ h2; omega
        · split at h
          · simp at h
          · cases hte : takeExact (b0 - 247) rest with
            | none => rw [hte] at h; simp at h
            | some p =>
              rw [hte] at h
              simp only [] at h
              split at h
              · injection h with _ h2; omega
              · split at h
                · injection h with _ h2; omega
                · simp at h

/-- a successful read only reports bytes that are really present -/
theorem getN_ok_le_length (bs : List Nat) (n : Int) (v w : Nat) (h : getN bs n = .ok v w) :
    w ≤ bs.length := by
  unfold getN at h
  split at h
  · simp at h
  · match bs with
    | [] => simp at h
    | b0 :: rest =>
      simp only [] at h
      split at h
      · injection h with _ h2; simp only [List.length_cons]; omega
      · split at h
        · split at h
          · simp at h
          · match rest with
            | [] => simp at h
            | b1 :: _ => simp only [] at h; injection h with _ h2; simp only [List.length_cons]; omega
        · split at h
          · simp at h
          · cases hte : takeExact (b0 - 247) rest with
            | none => rw [hte] at h; simp at h
            | some p =>
              rw [hte] at h
              simp only [] at h
              have hk : b0 - 247 ≤ rest.length := by
                unfold takeExact at hte
                split at hte
                · assumption
                · simp at hte
              simp only [List.length_cons]
              split at h
              · simp only [GetR.ok.injEq] at h; omega
              · split at h
                · simp only [GetR.ok.injEq] at h; omega
                · simp at h

theorem runCountAux_fuel (bs : List Nat) (rem : Nat) (f g : Nat) (hf : rem < f) (hg : rem < g) :
    runCountAux f bs rem = runCountAux g bs rem := by
  induction f generalizing g bs rem with
  | zero => omega
  | succ f ih =>
    cases g with
    | zero => omega
    | succ g =>
      unfold runCountAux
      by_cases h0 : rem = 0
      · rw [if_pos h0, if_pos h0]
      · rw [if_neg h0, if_neg h0]
        cases h1 : getN bs ((min rem int32Max : Nat) : Int) with
        | fault => rfl
        | short => rfl
        | ok runLen w1 =>
          simp only []
          cases h2 : getN (bs.drop w1) (((min rem int32Max : Nat) : Int) - (w1 : Int)) with
          | fault => rfl
          | short => rfl
          | ok v2 w2 =>
            simp only []
            by_cases h3 : runLen = 0
            · rw [if_pos h3, if_pos h3]
            · rw [if_neg h3, if_neg h3]
              have hw1 := getN_ok_bounds _ _ _ _ h1
              rw [ih (bs.drop (w1 + w2)) (rem - (w1 + w2)) g (by omega) (by omega)]

theorem runCount_fuel_suffices (bs : List Nat) (f : Nat) (hf : bs.length < f) :
    runCountAux f bs bs.length = runCount bs := by
  unfold runCount
  exact runCountAux_fuel bs bs.length f (bs.length + 1) hf (by omega)

end Varint.Bounded

namespace Varint.Elias

/-- the zero counter of the gamma decoder stops at 63, so any fuel ≥ 64 - z is never exhausted -/
theorem gammaDecAux_fuel (rd : Reader) (total : Nat) (f g z pos : Nat) (hz : z ≤ 63)
    (hf : 64 ≤ z + f) (hg : 64 ≤ z + g) :
    gammaDecAux rd total f z pos = gammaDecAux rd total g z pos := by
  induction f generalizing g z pos with
  | zero => omega
  | succ f ih =>
    cases g with
    | zero => omega
    | succ g =>
      unfold gammaDecAux
      by_cases h0 : pos + 1 > total
      · rw [if_pos h0, if_pos h0]
      · rw [if_neg h0, if_neg h0]
        cases h1 : rd pos with
        | none => rfl
        | some b =>
          cases b with
          | true => rfl
          | false =>
            simp only []
            by_cases h2 : z + 1 > 63
            · rw [if_pos h2, if_pos h2]
            · rw [if_neg h2, if_neg h2]
              exact ih g (z + 1) (pos + 1) (by omega) (by omega) (by omega)

theorem gammaDec_fuel_suffices (rd : Reader) (total : Nat) (f pos : Nat) (hf : 64 ≤ f) :
    gammaDecAux rd total f 0 pos = gammaDec rd total pos := by
  unfold gammaDec
  exact gammaDecAux_fuel rd total f 65 0 pos (by omega) (by omega) (by omega)

end Varint.Elias

namespace Varint.RLE
open Varint.Tagged (GetR getN)

/-- a decoded run consumed at least two bytes that are really present -/
theorem getRun_length (bs : List Nat) (l v : Nat) (rest : List Nat) (h : getRun bs = some (l, v, rest)) :
    rest.length + 2 ≤ bs.length := by
  unfold getRun Tagged.get at h
  cases h1 : getN bs 9 with
  | fault => rw [h1] at h; simp at h
  | short => rw [h1] at h; simp at h
  | ok l' n1 =>
    rw [h1] at h
    simp only [] at h
    cases h2 : getN (bs.drop n1) 9 with
    | fault => rw [h2] at h; simp at h
    | short => rw [h2] at h; simp at h
    | ok v' n2 =>
      rw [h2] at h
      simp only [Option.some.injEq, Prod.mk.injEq] at h
      obtain ⟨_, _, h5⟩ := h
      subst h5
      have a1 := Bounded.getN_ok_bounds _ _ _ _ h1
      have a2 := Bounded.getN_ok_bounds _ _ _ _ h2
      have b1 := Bounded.getN_ok_le_length _ _ _ _ h1
      have b2 := Bounded.getN_ok_le_length _ _ _ _ h2
      simp only [List.length_drop] at b2 ⊢
      omega

/-- `varintRLEDecode`: every pass that recurses writes 1 ≤ l < room values -/
theorem decAux_fuel (f g room : Nat) (bs : List Nat) (hf : room < f) (hg : room < g) :
    decAux f room bs = decAux g room bs := by
  induction f generalizing g room bs with
  | zero => omega
  | succ f ih =>
    cases g with
    | zero => omega
    | succ g =>
      unfold decAux
      by_cases h0 : room = 0
      · rw [if_pos h0, if_pos h0]
      · rw [if_neg h0, if_neg h0]
        cases h1 : getRun bs with
        | none => rfl
        | some t =>
          obtain ⟨l, v, rest⟩ := t
          simp only []
          by_cases h2 : l = 0
          · rw [if_pos h2, if_pos h2]
          · rw [if_neg h2, if_neg h2]
            by_cases h3 : l ≥ room
            · rw [if_pos h3, if_pos h3]
            · rw [if_neg h3, if_neg h3]
              rw [ih g (room - l) rest (by omega) (by omega)]

theorem dec_fuel_suffices (f cap : Nat) (bs : List Nat) (hf : cap < f) : decAux f cap bs = dec bs cap := by
  unfold dec
  exact decAux_fuel f (cap + 1) cap bs hf (by omega)

/-- more fuel never changes a definite answer -/
theorem decHAux_fuel_mono (f g d total cap : Nat) (bs vs : List Nat)
    (h : decHAux f d total cap bs = some vs) (hfg : f ≤ g) : decHAux g d total cap bs = some vs := by
  induction f generalizing g d bs vs with
  | zero => simp [decHAux] at h
  | succ f ih =>
    cases g with
    | zero => omega
    | succ g =>
      unfold decHAux at h ⊢
      by_cases h0 : d ≥ total ∨ d ≥ cap
      · rw [if_pos h0] at h ⊢; exact h
      · rw [if_neg h0] at h ⊢
        cases h1 : getRun bs with
        | none => rw [h1] at h; simp at h
        | some t =>
          obtain ⟨l, v, rest⟩ := t
          rw [h1] at h
          simp only [] at h ⊢
          cases h2 : decHAux f (d + min l (cap - d)) total cap rest with
          | none => rw [h2] at h; simp at h
          | some ws =>
            rw [h2] at h
            rw [ih g _ rest ws h2 (by omega)]
            exact h

/-- stronger: with more fuel than bytes the fuel is never exhausted (every pass consumes ≥ 2 bytes), so the
    `none` of the model always is a load outside the buffer, also on a stream of zero-length runs -/
theorem decHAux_fuel (f g d total cap : Nat) (bs : List Nat) (hf : bs.length < 2 * f) (hg : bs.length < 2 * g) :
    decHAux f d total cap bs = decHAux g d total cap bs := by
  induction f generalizing g d bs with
  | zero => omega
  | succ f ih =>
    cases g with
    | zero => omega
    | succ g =>
      unfold decHAux
      by_cases h0 : d ≥ total ∨ d ≥ cap
      · rw [if_pos h0, if_pos h0]
      · rw [if_neg h0, if_neg h0]
        cases h1 : getRun bs with
        | none => rfl
        | some t =>
          obtain ⟨l, v, rest⟩ := t
          simp only []
          have hl := getRun_length bs l v rest h1
          rw [ih g _ rest (by omega) (by omega)]

theorem decH_fuel_suffices (bs : List Nat) (total cap n1 f : Nat) (hf : bs.length < 2 * f) :
    decHAux f 0 total cap (bs.drop n1) = decHAux (bs.length + total + 2) 0 total cap (bs.drop n1) := by
  apply decHAux_fuel
  · simp only [List.length_drop]; omega
  · simp only [List.length_drop]; omega

/-- `varintRLEGetAt`: more fuel never changes a definite answer -/
theorem getAtAux_fuel_mono (f g pos i : Nat) (bs : List Nat) (r : Nat)
    (h : getAtAux f pos i bs = some r) (hfg : f ≤ g) : getAtAux g pos i bs = some r := by
  induction f generalizing g pos bs with
  | zero => simp [getAtAux] at h
  | succ f ih =>
    cases g with
    | zero => omega
    | succ g =>
      unfold getAtAux at h ⊢
      cases h1 : getRun bs with
      | none => rw [h1] at h; simp at h
      | some t =>
        obtain ⟨l, v, rest⟩ := t
        rw [h1] at h
        simp only [] at h ⊢
        by_cases h2 : l = 0
        · rw [if_pos h2] at h ⊢; exact h
        · rw [if_neg h2] at h ⊢
          by_cases h3 : pos + l > i
          · rw [if_pos h3] at h ⊢; exact h
          · rw [if_neg h3] at h ⊢
            exact ih g _ rest h (by omega)

/-- stronger: every pass that recurses advances `pos` by l ≥ 1 and keeps it ≤ i, so fuel > i + 1 - pos is
    never exhausted -/
theorem getAtAux_fuel (f g pos i : Nat) (bs : List Nat) (hf : i + 1 - pos < f) (hg : i + 1 - pos < g) :
    getAtAux f pos i bs = getAtAux g pos i bs := by
  induction f generalizing g pos bs with
  | zero => omega
  | succ f ih =>
    cases g with
    | zero => omega
    | succ g =>
      unfold getAtAux
      cases h1 : getRun bs with
      | none => rfl
      | some t =>
        obtain ⟨l, v, rest⟩ := t
        simp only []
        by_cases h2 : l = 0
        · rw [if_pos h2, if_pos h2]
        · rw [if_neg h2, if_neg h2]
          by_cases h3 : pos + l > i
          · rw [if_pos h3, if_pos h3]
          · rw [if_neg h3, if_neg h3]
            exact ih g _ rest (by omega) (by omega)

theorem getAt_fuel_suffices (f i : Nat) (bs : List Nat) (hf : i + 1 < f) : getAtAux f 0 i bs = getAt bs i := by
  unfold getAt
  exact getAtAux_fuel f (i + 2) 0 i bs (by omega) (by omega)

end Varint.RLE

namespace Varint.BP128

/-- encoder block loop: every pass that recurses drops 128 values -/
theorem blocks_fuel (f g : Nat) (xs : List Nat) (hf : xs.length / 128 < f) (hg : xs.length / 128 < g) :
    blocks f xs = blocks g xs := by
  induction f generalizing g xs with
  | zero => omega
  | succ f ih =>
    cases g with
    | zero => omega
    | succ g =>
      unfold blocks
      by_cases h0 : xs.length = 0
      · rw [if_pos h0, if_pos h0]
      · rw [if_neg h0, if_neg h0]
        by_cases h1 : xs.length ≥ 128
        · rw [if_pos h1, if_pos h1]
          rw [ih g (xs.drop 128) (by simp only [List.length_drop]; omega) (by simp only [List.length_drop]; omega)]
        · rw [if_neg h1, if_neg h1]

/-- `varintBP128Decode32`: a pass recurses only after a full block that fits (room ≥ 128) -/
theorem dec32Aux_fuel (f g room : Nat) (bs : List Nat) (hf : room / 128 < f) (hg : room / 128 < g) :
    dec32Aux f room bs = dec32Aux g room bs := by
  induction f generalizing g room bs with
  | zero => omega
  | succ f ih =>
    cases g with
    | zero => omega
    | succ g =>
      unfold dec32Aux
      by_cases h0 : room = 0
      · rw [if_pos h0, if_pos h0]
      · rw [if_neg h0, if_neg h0]
        cases bs with
        | nil => rfl
        | cons h rest =>
          simp only []
          by_cases h1 : h ≥ 128
          · rw [if_pos h1, if_pos h1]
          · rw [if_neg h1, if_neg h1]
            by_cases h2 : room < 128
            · rw [if_pos h2, if_pos h2]
            · rw [if_neg h2, if_neg h2]
              by_cases h3 : h = 0
              · rw [if_pos h3, if_pos h3]
                rw [ih g (room - 128) rest (by omega) (by omega)]
              · rw [if_neg h3, if_neg h3]
                cases unpack rest h 128 0 with
                | none => rfl
                | some vs =>
                  simp only []
                  rw [ih g (room - 128) _ (by omega) (by omega)]

theorem dec32_fuel_suffices (f cap : Nat) (bs : List Nat) (hf : cap / 128 < f) : dec32Aux f cap bs = dec32 bs cap := by
  unfold dec32
  exact dec32Aux_fuel f (cap / 128 + 2) cap bs hf (by omega)

theorem decD32Aux_fuel (f g room prev : Nat) (bs : List Nat) (hf : room / 128 < f) (hg : room / 128 < g) :
    decD32Aux f room prev bs = decD32Aux g room prev bs := by
  induction f generalizing g room prev bs with
  | zero => omega
  | succ f ih =>
    cases g with
    | zero => omega
    | succ g =>
      unfold decD32Aux
      by_cases h0 : room = 0
      · rw [if_pos h0, if_pos h0]
      · rw [if_neg h0, if_neg h0]
        cases bs with
        | nil => rfl
        | cons h rest =>
          simp only []
          by_cases h1 : h ≥ 128
          · rw [if_pos h1, if_pos h1]
          · rw [if_neg h1, if_neg h1]
            by_cases h2 : room < 128
            · rw [if_pos h2, if_pos h2]
            · rw [if_neg h2, if_neg h2]
              cases (if h = 0 then some (List.replicate 128 0) else unpack rest h 128 0) with
              | none => rfl
              | some ds =>
                simp only []
                rw [ih g (room - 128) _ _ (by omega) (by omega)]

theorem decD32_fuel_suffices (f cap prev : Nat) (bs : List Nat) (hf : cap / 128 < f) :
    decD32Aux f (cap - 1) prev bs = decD32Aux (cap / 128 + 2) (cap - 1) prev bs :=
  decD32Aux_fuel f (cap / 128 + 2) (cap - 1) prev bs (by omega) (by omega)

theorem decD64Aux_room0 (f prev : Nat) (bs : List Nat) : decD64Aux f 0 prev bs = some [] := by
  cases f with
  | zero => rfl
  | succ f => unfold decD64Aux; rw [if_pos rfl]

/-- `varintBP128DeltaDecode64`: a block with the 0x80 flag ends the stream, a full block consumes min(128, room) -/
theorem decD64Aux_fuel (f g room prev : Nat) (bs : List Nat) (hf : (room + 127) / 128 ≤ f) (hg : (room + 127) / 128 ≤ g) :
    decD64Aux f room prev bs = decD64Aux g room prev bs := by
  induction f generalizing g room prev bs with
  | zero =>
    have : room = 0 := by omega
    subst this
    rw [decD64Aux_room0, decD64Aux_room0]
  | succ f ih =>
    by_cases h0 : room = 0
    · subst h0
      rw [decD64Aux_room0, decD64Aux_room0]
    · cases g with
      | zero => omega
      | succ g =>
        unfold decD64Aux
        rw [if_neg h0, if_neg h0]
        cases bs with
        | nil => rfl
        | cons h rest =>
          simp only []
          by_cases h1 : h ≥ 128
          · simp only [if_pos h1]
          · simp only [if_neg h1]
            have key : ∀ p b, decD64Aux f (room - if 128 > room then room else 128) p b =
                decD64Aux g (room - if 128 > room then room else 128) p b := by
              intro p b
              apply ih
              · split <;> omega
              · split <;> omega
            simp only [key]

/-- `varintBP128Decode64`: every pass consumes at least the header byte -/
theorem dec64Aux_fuel (f g room : Nat) (bs : List Nat) (hf : bs.length < f) (hg : bs.length < g) :
    dec64Aux f room bs = dec64Aux g room bs := by
  induction f generalizing g room bs with
  | zero => omega
  | succ f ih =>
    cases g with
    | zero => omega
    | succ g =>
      unfold dec64Aux
      by_cases h0 : room = 0
      · rw [if_pos h0, if_pos h0]
      · rw [if_neg h0, if_neg h0]
        cases bs with
        | nil => rfl
        | cons h rest =>
          simp only [List.length_cons] at hf hg
          have key : ∀ r k, dec64Aux f r (List.drop k rest) = dec64Aux g r (List.drop k rest) := by
            intro r k
            apply ih
            · simp only [List.length_drop]; omega
            · simp only [List.length_drop]; omega
          have key0 : ∀ r, dec64Aux f r rest = dec64Aux g r rest := fun r => key r 0
          have key2 : ∀ r k j, dec64Aux f r (List.drop k (List.drop j rest)) = dec64Aux g r (List.drop k (List.drop j rest)) := by
            intro r k j
            apply ih
            · simp only [List.length_drop]; omega
            · simp only [List.length_drop]; omega
          simp only []
          by_cases h1 : h ≥ 128
          · simp only [if_pos h1, key, key2]
          · simp only [if_neg h1, key, key0]

private theorem unpack_length (bytes : List Nat) (bw n pos : Nat) (vs : List Nat) (h : unpack bytes bw n pos = some vs) :
    vs.length = n := by
  induction n generalizing pos vs with
  | zero => simp [unpack] at h; subst h; rfl
  | succ n ih =>
    unfold unpack at h
    split at h
    · simp at h
    · cases hu : unpack bytes bw n (pos + bw) with
      | none => rw [hu] at h; simp at h
      | some ws =>
        rw [hu] at h
        simp only [Option.map_some, Option.some.injEq] at h
        subst h
        simp [ih _ _ hu]

private theorem map_append_some {pre : List Nat} {o : Option (List Nat)} {vs : List Nat}
    (h : o.map (pre ++ ·) = some vs) : ∃ ws, o = some ws ∧ vs = pre ++ ws := by
  cases o with
  | none => simp at h
  | some ws => simp at h; exact ⟨ws, rfl, h.symm⟩

theorem dec64Aux_room0 (f : Nat) (bs : List Nat) : dec64Aux f 0 bs = some [] := by
  cases f with
  | zero => rfl
  | succ f => unfold dec64Aux; rw [if_pos rfl]

/-- a COMPLETE decode (all `room` values delivered) is independent of the fuel -/
theorem dec64Aux_complete_mono (f g room : Nat) (bs vs : List Nat) (h : dec64Aux f room bs = some vs)
    (hl : vs.length = room) (hfg : f ≤ g) : dec64Aux g room bs = some vs := by
  induction f generalizing g room bs vs with
  | zero =>
    simp [dec64Aux] at h
    subst h
    simp at hl
    subst hl
    exact dec64Aux_room0 g bs
  | succ f ih =>
    cases g with
    | zero => omega
    | succ g =>
      unfold dec64Aux at h ⊢
      by_cases h0 : room = 0
      · rw [if_pos h0] at h ⊢; exact h
      · rw [if_neg h0] at h ⊢
        cases bs with
        | nil => simp at h
        | cons b rest =>
          simp only [] at h ⊢
          have step : ∀ (pre : List Nat) (n : Nat) (data : List Nat), pre.length = n → n ≤ room →
              Option.map (pre ++ ·) (dec64Aux f (room - n) data) = some vs →
              Option.map (pre ++ ·) (dec64Aux g (room - n) data) = some vs := by
            intro pre n data hp hn hm
            obtain ⟨ws, hws, hv⟩ := map_append_some hm
            subst hv
            have : ws.length = room - n := by
              simp only [List.length_append] at hl; omega
            rw [ih g _ data ws hws this (by omega)]
            rfl
          by_cases h1 : b ≥ 128
          · simp only [if_pos h1] at h ⊢
            have hn : (if rest.headD 0 > room then room else rest.headD 0) ≤ room := by split <;> omega
            generalize (if rest.headD 0 > room then room else rest.headD 0) = n at h hn ⊢
            by_cases h2 : b ≥ 128 ∧ rest = []
            · rw [if_pos h2] at h; simp at h
            · rw [if_neg h2] at h ⊢
              by_cases h3 : b % 128 = 0
              · rw [if_pos h3] at h ⊢
                exact step _ n _ (by simp) hn h
              · rw [if_neg h3] at h ⊢
                cases hu : unpack (List.drop 1 rest) (b % 128) n 0 with
                | none => rw [hu] at h; simp at h
                | some us =>
                  rw [hu] at h
                  simp only [] at h ⊢
                  exact step _ n _ (unpack_length _ _ _ _ _ hu) hn h
          · simp only [if_neg h1] at h ⊢
            have hn : (if 128 > room then room else 128) ≤ room := by split <;> omega
            generalize (if 128 > room then room else 128) = n at h hn ⊢
            have h2 : ¬ (b ≥ 128 ∧ rest = []) := fun hh => h1 hh.1
            rw [if_neg h2] at h ⊢
            by_cases h3 : b = 0
            · rw [if_pos h3] at h ⊢
              exact step _ n _ (by simp) hn h
            · rw [if_neg h3] at h ⊢
              cases hu : unpack rest b n 0 with
              | none => rw [hu] at h; simp at h
              | some us =>
                rw [hu] at h
                simp only [] at h ⊢
                exact step _ n _ (unpack_length _ _ _ _ _ hu) hn h

theorem decD64_fuel_suffices (f cap prev : Nat) (bs : List Nat) (hf : cap / 128 < f) :
    decD64Aux f (cap - 1) prev bs = decD64Aux (cap / 128 + 2) (cap - 1) prev bs :=
  decD64Aux_fuel f (cap / 128 + 2) (cap - 1) prev bs (by omega) (by omega)

/-- (history) with the former top-level fuel `min cnt cap + 2` the model diverged from the C on
    `[1,128,0,128,0,128,0,129,1,1]`: empty flagged blocks (header ≥ 128, count byte 0) use fuel without using
    room. The model's fuel is now `min cnt cap + bs.length + 2`, which exceeds the number of remaining bytes,
    and the witness evaluates like the C: -/
theorem dec64_former_counterexample :
    dec64 [1, 128, 0, 128, 0, 128, 0, 129, 1, 1] 10 = some [1] ∧
    dec64Aux 3 1 [128, 0, 128, 0, 128, 0, 129, 1, 1] = some [] := by
  decide

/-- the top-level fuel of `dec64` is adequate for ARBITRARY bytes: any larger fuel gives the same answer -/
theorem dec64_fuel_suffices (bs : List Nat) (cap cnt n1 : Nat) (hg : Tagged.get bs = .ok cnt n1) (g : Nat)
    (hfg : bs.length < g) : dec64 bs cap = dec64Aux g (min cnt cap) (bs.drop n1) := by
  unfold dec64
  rw [hg]
  exact dec64Aux_fuel _ g _ _ (by rw [List.length_drop]; omega) (by rw [List.length_drop]; omega)

end Varint.BP128

/- the remaining fuel-indexed loops of the model (extLenAux / len7Aux: see `extLenAux_fuel`, `len7Aux_fuel` in Lemmas/Bytes) -/
namespace Varint.Chained

/-- the reader returns at the ninth byte (i = 8) at the latest -/
theorem decAux_fuel (f g i acc : Nat) (bs : List Nat) (hi : i ≤ 8) (hf : 9 ≤ i + f) (hg : 9 ≤ i + g) :
    decAux f i acc bs = decAux g i acc bs := by
  induction f generalizing g i acc bs with
  | zero => omega
  | succ f ih =>
    cases g with
    | zero => omega
    | succ g =>
      cases bs with
      | nil => simp [decAux]
      | cons b bs =>
        unfold decAux
        by_cases h1 : i = 8
        · rw [if_pos h1, if_pos h1]
        · rw [if_neg h1, if_neg h1]
          by_cases h2 : b < 128
          · rw [if_pos h2, if_pos h2]
          · rw [if_neg h2, if_neg h2]
            exact ih g _ _ bs (by omega) (by omega) (by omega)

theorem dec_fuel_suffices (f : Nat) (bs : List Nat) (hf : 9 ≤ f) : decAux f 0 0 bs = dec bs :=
  decAux_fuel f 9 0 0 bs (by omega) (by omega) (by omega)

end Varint.Chained

namespace Varint.ChainedSimple

theorem encAux_fuel (f g i v : Nat) (hf : 8 ≤ i + f) (hg : 8 ≤ i + g) : encAux f i v = encAux g i v := by
  induction f generalizing g i v with
  | zero =>
    cases g with
    | zero => rfl
    | succ g =>
      unfold encAux
      rw [if_neg (by omega)]
  | succ f ih =>
    cases g with
    | zero =>
      unfold encAux
      rw [if_neg (by omega)]
    | succ g =>
      unfold encAux
      by_cases h : v ≥ 128 ∧ i < 8
      · rw [if_pos h, if_pos h, ih g (i + 1) (v / 128) (by omega) (by omega)]
      · rw [if_neg h, if_neg h]

theorem enc_fuel_suffices (f v : Nat) (hf : 8 ≤ f) : encAux f 0 v = enc v :=
  encAux_fuel f 9 0 v (by omega) (by omega)

theorem decAux_fuel (f g i acc : Nat) (bs : List Nat) (hf : 9 ≤ i + f) (hf1 : 1 ≤ f) (hg : 9 ≤ i + g) (hg1 : 1 ≤ g) :
    decAux f i acc bs = decAux g i acc bs := by
  induction f generalizing g i acc bs with
  | zero => omega
  | succ f ih =>
    cases g with
    | zero => omega
    | succ g =>
      cases bs with
      | nil => simp [decAux]
      | cons b bs =>
        unfold decAux
        by_cases h : b ≥ 128 ∧ i < 8
        · rw [if_pos h, if_pos h]
          exact ih g _ _ bs (by omega) (by omega) (by omega) (by omega)
        · rw [if_neg h, if_neg h]

theorem dec_fuel_suffices (f : Nat) (bs : List Nat) (hf : 9 ≤ f) : decAux f 0 0 bs = dec bs :=
  decAux_fuel f 10 0 0 bs (by omega) (by omega) (by omega) (by omega)

end Varint.ChainedSimple

namespace Varint.Dict

/-- binary search: the window [lo, hi) shrinks strictly at every probe -/
theorem bsearch_fuel (d : Array Nat) (target f g lo hi : Nat) (hf : hi - lo < f) (hg : hi - lo < g) :
    bsearch d target f lo hi = bsearch d target g lo hi := by
  induction f generalizing g lo hi with
  | zero => omega
  | succ f ih =>
    cases g with
    | zero => omega
    | succ g =>
      unfold bsearch
      by_cases h0 : lo ≥ hi
      · rw [if_pos h0, if_pos h0]
      · rw [if_neg h0, if_neg h0]
        simp only []
        by_cases h1 : d.getD (lo + (hi - 1 - lo) / 2) 0 = target
        · rw [if_pos h1, if_pos h1]
        · rw [if_neg h1, if_neg h1]
          by_cases h2 : d.getD (lo + (hi - 1 - lo) / 2) 0 < target
          · rw [if_pos h2, if_pos h2]
            exact ih g _ _ (by omega) (by omega)
          · rw [if_neg h2, if_neg h2]
            exact ih g _ _ (by omega) (by omega)

theorem find_fuel_suffices (d : List Nat) (x f : Nat) (hf : d.length < f) :
    bsearch d.toArray x f 0 d.length = find d x :=
  bsearch_fuel d.toArray x f (d.length + 1) 0 d.length (by omega) (by omega)

end Varint.Dict

namespace Varint.Packed

theorem bsearchAux_fuel (S b : Nat) (ws : List Nat) (v f g lo hi : Nat) (hf : hi - lo < f) (hg : hi - lo < g) :
    bsearchAux S b ws v f lo hi = bsearchAux S b ws v g lo hi := by
  induction f generalizing g lo hi with
  | zero => omega
  | succ f ih =>
    cases g with
    | zero => omega
    | succ g =>
      unfold bsearchAux
      by_cases h0 : lo < hi
      · rw [if_pos h0, if_pos h0]
        simp only []
        by_cases h1 : get S b ws ((lo + hi) / 2) < v
        · rw [if_pos h1, if_pos h1]
          exact ih g _ _ (by omega) (by omega)
        · rw [if_neg h1, if_neg h1]
          exact ih g _ _ (by omega) (by omega)
      · rw [if_neg h0, if_neg h0]

theorem bsearch_fuel_suffices (S b : Nat) (ws : List Nat) (len v f : Nat) (hf : len < f) :
    bsearchAux S b ws v f 0 len = bsearch S b ws len v :=
  bsearchAux_fuel S b ws v f (len + 1) 0 len (by omega) (by omega)

end Varint.Packed
