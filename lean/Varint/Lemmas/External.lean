import Varint.Model.External
import Varint.Lemmas.Bytes
/- Lemmas about the external (little/big endian) models and the signed-storage helpers. -/
namespace Varint

theorem xor_two_pow_of_lt {a k : Nat} (h : a < 2 ^ k) : a ^^^ 2 ^ k = a + 2 ^ k := by
  have hpos : 0 < 2 ^ k := Nat.pow_pos (by omega)
  have hm : (a ^^^ 2 ^ k) % 2 ^ k = a := by
    rw [Nat.xor_mod_two_pow, Nat.mod_self, Nat.xor_zero, Nat.mod_eq_of_lt h]
  have hd : (a ^^^ 2 ^ k) / 2 ^ k = 1 := by
    rw [Nat.xor_div_two_pow, Nat.div_eq_of_lt h, Nat.div_self hpos, Nat.zero_xor]
  have := Nat.div_add_mod (a ^^^ 2 ^ k) (2 ^ k)
  rw [hm, hd] at this
  omega

theorem xor_two_pow_of_ge {a k : Nat} (h1 : 2 ^ k ≤ a) (h2 : a < 2 ^ (k + 1)) : a ^^^ 2 ^ k = a - 2 ^ k := by
  have hpos : 0 < 2 ^ k := Nat.pow_pos (by omega)
  have hdiv : a / 2 ^ k = 1 := by
    rw [Nat.pow_succ] at h2
    have h3 : a / 2 ^ k < 2 := (Nat.div_lt_iff_lt_mul hpos).mpr (by omega)
    have h4 : 1 ≤ a / 2 ^ k := (Nat.le_div_iff_mul_le hpos).mpr (by omega)
    omega
  have hm : (a ^^^ 2 ^ k) % 2 ^ k = a % 2 ^ k := by
    rw [Nat.xor_mod_two_pow, Nat.mod_self, Nat.xor_zero]
  have hd : (a ^^^ 2 ^ k) / 2 ^ k = 0 := by
    rw [Nat.xor_div_two_pow, hdiv, Nat.div_self hpos]; rfl
  have e1 := Nat.div_add_mod (a ^^^ 2 ^ k) (2 ^ k)
  have e2 := Nat.div_add_mod a (2 ^ k)
  rw [hm, hd] at e1
  rw [hdiv] at e2
  omega

/-- generic sign relocation into bit `k`: every |s| < 2^k is restored and the field fits k+1 bits -/
theorem sign_restore_prepare (k : Nat) (s : Int) (hlo : -(2 ^ k : Int) < s) (hhi : s < (2 ^ k : Int)) :
    let f := if s < 0 then (-s).toNat ^^^ 2 ^ k else s.toNat
    (if f / 2 ^ k % 2 = 1 then -((f ^^^ 2 ^ k : Nat) : Int) else (f : Int)) = s ∧ f < 2 ^ (k + 1) := by
  intro f
  have hpos : 0 < 2 ^ k := Nat.pow_pos (by omega)
  have hpow : (2 : Nat) ^ (k + 1) = 2 * 2 ^ k := by rw [Nat.pow_succ]; omega
  have hcast : ((2 ^ k : Nat) : Int) = (2 : Int) ^ k := by simp
  by_cases hs : s < 0
  · have hm : (-s).toNat < 2 ^ k := by
      have : ((-s).toNat : Int) = -s := Int.toNat_of_nonneg (by omega)
      omega
    have hf : f = (-s).toNat + 2 ^ k := by
      show (if s < 0 then (-s).toNat ^^^ 2 ^ k else s.toNat) = _
      rw [if_pos hs, xor_two_pow_of_lt hm]
    have hbit : ((-s).toNat + 2 ^ k) / 2 ^ k % 2 = 1 := by
      rw [Nat.add_div_right _ hpos, Nat.div_eq_of_lt hm]
    have hback : ((-s).toNat + 2 ^ k) ^^^ 2 ^ k = (-s).toNat := by
      rw [xor_two_pow_of_ge (by omega) (by rw [Nat.pow_succ]; omega)]; omega
    rw [hf]
    refine ⟨?_, by rw [hpow]; omega⟩
    rw [if_pos hbit, hback]
    have : ((-s).toNat : Int) = -s := Int.toNat_of_nonneg (by omega)
    omega
  · have hn : 0 ≤ s := by omega
    have hm : s.toNat < 2 ^ k := by
      have : (s.toNat : Int) = s := Int.toNat_of_nonneg hn
      omega
    have hf : f = s.toNat := by
      show (if s < 0 then (-s).toNat ^^^ 2 ^ k else s.toNat) = _
      rw [if_neg hs]
    have hbit : ¬ (s.toNat / 2 ^ k % 2 = 1) := by
      rw [Nat.div_eq_of_lt hm]; simp
    rw [hf]
    refine ⟨?_, by rw [hpow]; omega⟩
    rw [if_neg hbit]
    exact Int.toNat_of_nonneg hn

namespace External

theorem enc_length (v : Nat) : (enc v).length = extLen v := by simp [enc]

theorem get_enc (v : Nat) (rest : List Nat) : get (enc v ++ rest) (extLen v) = some v := by
  unfold get enc
  rw [takeExact_append _ _ (leBytes_length _ _)]
  simp [ofLe_leBytes_of_lt (lt_pow_extLen v)]

theorem len_bounds (v : Nat) (hv : v < 2 ^ 64) : 1 ≤ extLen v ∧ extLen v ≤ 8 :=
  ⟨extLen_pos v, extLen_le_8 hv⟩

theorem enc_lt (v : Nat) : ∀ b ∈ enc v, b < 256 := leBytes_lt _ _

theorem lt_pow_of_extLen_le {v w : Nat} (h : extLen v ≤ w) : v < 256 ^ w :=
  Nat.lt_of_lt_of_le (lt_pow_extLen v) (Nat.pow_le_pow_right (by omega) h)

theorem get_encFixed (v w : Nat) (h : extLen v ≤ w) (rest : List Nat) :
    get (encFixed v w ++ rest) w = some v := by
  unfold get encFixed
  rw [takeExact_append _ _ (leBytes_length _ _)]
  simp [ofLe_leBytes_of_lt (lt_pow_of_extLen_le h)]

theorem encFixed_extLen (v : Nat) : encFixed v (extLen v) = enc v := rfl

/-- sign relocation: every value representable in sign-magnitude in `8w` bits is restored -/
theorem restore_prepare (w : Nat) (hw : 1 ≤ w) (s : Int)
    (hlo : -(2 ^ (8 * w - 1) : Int) < s) (hhi : s < (2 ^ (8 * w - 1) : Int)) :
    restoreSigned w (prepareSigned w s) = s ∧ prepareSigned w s < 256 ^ w := by
  have hk : 8 * w - 1 + 1 = 8 * w := by omega
  have h256 : (256 : Nat) ^ w = 2 ^ (8 * w) := by
    rw [show (256 : Nat) = 2 ^ 8 by rfl, ← Nat.pow_mul]
  have hpow : (2 : Nat) ^ (8 * w) = 2 * 2 ^ (8 * w - 1) := by
    have e : 8 * w = (8 * w - 1) + 1 := by omega
    conv => lhs; rw [e]
    rw [Nat.pow_succ]; omega
  have hpos : 0 < 2 ^ (8 * w - 1) := Nat.pow_pos (by omega)
  by_cases hs : s < 0
  · -- negative: magnitude m = -s with 0 < m < 2^(8w-1)
    have hm : (-s).toNat < 2 ^ (8 * w - 1) := by
      have : ((-s).toNat : Int) = -s := Int.toNat_of_nonneg (by omega)
      have h2 : ((2 ^ (8 * w - 1) : Nat) : Int) = (2 : Int) ^ (8 * w - 1) := by simp
      omega
    have hx : prepareSigned w s = (-s).toNat + 2 ^ (8 * w - 1) := by
      simp [prepareSigned, hs, xor_two_pow_of_lt hm]
    refine ⟨?_, ?_⟩
    · have hbit : ((-s).toNat + 2 ^ (8 * w - 1)) / 2 ^ (8 * w - 1) % 2 = 1 := by
        rw [Nat.add_div_right _ hpos, Nat.div_eq_of_lt hm]
      have hback : ((-s).toNat + 2 ^ (8 * w - 1)) ^^^ 2 ^ (8 * w - 1) = (-s).toNat := by
        rw [xor_two_pow_of_ge (by omega) (by rw [Nat.pow_succ]; omega)]; omega
      rw [hx]
      simp only [restoreSigned, hbit, if_true, hback]
      have : ((-s).toNat : Int) = -s := Int.toNat_of_nonneg (by omega)
      omega
    · rw [hx, h256, hpow]; omega
  · have hn : 0 ≤ s := by omega
    have hm : s.toNat < 2 ^ (8 * w - 1) := by
      have : (s.toNat : Int) = s := Int.toNat_of_nonneg hn
      have h2 : ((2 ^ (8 * w - 1) : Nat) : Int) = (2 : Int) ^ (8 * w - 1) := by simp
      omega
    have hx : prepareSigned w s = s.toNat := by simp [prepareSigned, hs]
    refine ⟨?_, ?_⟩
    · have hbit : ¬ (s.toNat / 2 ^ (8 * w - 1) % 2 = 1) := by
        rw [Nat.div_eq_of_lt hm]; simp
      rw [hx]
      simp only [restoreSigned, hbit, if_false]
      exact Int.toNat_of_nonneg hn
    · rw [hx, h256, hpow]; omega

end External

namespace ExternalBE

theorem enc_length (v : Nat) : (enc v).length = extLen v := by simp [enc]

theorem get_enc (v : Nat) (rest : List Nat) : get (enc v ++ rest) (extLen v) = some v := by
  unfold get enc
  rw [takeExact_append _ _ (beBytes_length _ _)]
  simp [ofBe_beBytes_of_lt (lt_pow_extLen v)]

theorem enc_lt (v : Nat) : ∀ b ∈ enc v, b < 256 := beBytes_lt _ _

theorem get_encFixed (v w : Nat) (h : extLen v ≤ w) (rest : List Nat) :
    get (encFixed v w ++ rest) w = some v := by
  unfold get encFixed
  rw [takeExact_append _ _ (beBytes_length _ _)]
  simp [ofBe_beBytes_of_lt (External.lt_pow_of_extLen_le h)]

end ExternalBE
end Varint
