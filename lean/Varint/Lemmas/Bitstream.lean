import Varint.Model.Bitstream
import Varint.Lemmas.BitField
/- Lemmas about the bitstream model. Offsets are decomposed as off = i*W + o with o < W. -/
namespace Varint.Bitstream
open Varint.BF

theorem div_decomp (W i o : Nat) (hW : 0 < W) (ho : o < W) : (i * W + o) / W = i ∧ (i * W + o) % W = o := by
  constructor
  · rw [Nat.mul_comm, Nat.mul_add_div hW, Nat.div_eq_of_lt ho, Nat.add_zero]
  · rw [Nat.mul_comm, Nat.mul_add_mod, Nat.mod_eq_of_lt ho]

/-- bit `r` (counted from the most significant bit) of word `j` of the stream -/
def bitAt (W : Nat) (ws : List Nat) (j r : Nat) : Bool := (ws.getD j 0).testBit (W - 1 - r)

theorem getD_set_self (ws : List Nat) (i x : Nat) (h : i < ws.length) : (ws.set i x).getD i 0 = x := by
  simp [List.getD, List.getElem?_set, h]

theorem getD_set_ne (ws : List Nat) (i j x : Nat) (h : i ≠ j) : (ws.set i x).getD j 0 = ws.getD j 0 := by
  simp [List.getD, List.getElem?_set, h]

theorem or_shift_split (v hb : Nat) : (v >>> hb) <<< hb ||| (v &&& mask hb) = v := by
  apply Nat.eq_of_testBit_eq
  intro j
  rw [Nat.testBit_or, Nat.testBit_shiftLeft, Nat.testBit_shiftRight, Nat.testBit_and, testBit_mask]
  by_cases h : hb ≤ j
  · have : ¬ j < hb := by omega
    simp [h, this]
  · have : j < hb := by omega
    simp [h, this]

theorem shiftRight_lt (v n hb : Nat) (hv : v < 2 ^ n) (h : hb ≤ n) : v >>> hb < 2 ^ (n - hb) := by
  rw [Nat.shiftRight_eq_div_pow]
  apply (Nat.div_lt_iff_lt_mul (Nat.pow_pos (by omega))).mpr
  rw [← Nat.pow_add, Nat.sub_add_cancel h]
  exact hv

theorem and_mask_lt (v hb : Nat) : v &&& mask hb < 2 ^ hb := by
  apply Nat.lt_of_le_of_lt Nat.and_le_right
  unfold mask
  have : 0 < 2 ^ hb := Nat.pow_pos (by omega)
  omega

/-- C11 (i): a read at the same offset and width returns the written value -/
theorem get_set (W i o n v : Nat) (ws : List Nat) (hW : 0 < W) (ho : o < W) (hn1 : 1 ≤ n) (hnW : n ≤ W)
    (hv : v < 2 ^ n) (hlen : (if n ≤ W - o then i else i + 1) < ws.length) :
    get W (set W ws (i * W + o) n v) (i * W + o) n = v := by
  obtain ⟨hd, hm⟩ := div_decomp W i o hW ho
  unfold get set
  simp only [hd, hm]
  by_cases hc : n ≤ W - o
  · rw [if_pos hc] at hlen
    rw [if_pos hc, if_pos hc, getD_set_self _ _ _ hlen, extract_insert _ _ _ _ hv]
  · rw [if_neg hc] at hlen
    rw [if_neg hc, if_neg hc]
    have hi : i < ws.length := by omega
    have hne : i ≠ i + 1 := by omega
    have hlen1 : i + 1 < (ws.set i (insert (ws.getD i 0) 0 (W - o) (v >>> (n - (W - o))))).length := by
      simpa using hlen
    rw [getD_set_self _ _ _ hlen1, getD_set_ne _ _ _ _ (Ne.symm hne), getD_set_self _ _ _ hi]
    have hhigh : v >>> (n - (W - o)) < 2 ^ (W - o) := by
      have := shiftRight_lt v n (n - (W - o)) hv (by omega)
      have e : n - (n - (W - o)) = W - o := by omega
      rwa [e] at this
    rw [extract_insert _ _ _ _ hhigh, extract_insert _ _ _ _ (and_mask_lt _ _), or_shift_split]

/-- C11 (iii): words other than the one or two that overlap the range are left alone,
    and the stream keeps its length -/
theorem set_other_words (W off n v : Nat) (ws : List Nat) (j : Nat)
    (hj : j ≠ off / W ∧ (n ≤ W - off % W ∨ j ≠ off / W + 1)) :
    (set W ws off n v).getD j 0 = ws.getD j 0 ∧ (set W ws off n v).length = ws.length := by
  unfold set
  simp only []
  by_cases hc : n ≤ W - off % W
  · rw [if_pos hc]
    exact ⟨getD_set_ne _ _ _ _ (Ne.symm hj.1), by simp⟩
  · rw [if_neg hc]
    have h2 : j ≠ off / W + 1 := by
      rcases hj.2 with h | h
      · exact absurd h hc
      · exact h
    exact ⟨by rw [getD_set_ne _ _ _ _ (Ne.symm h2), getD_set_ne _ _ _ _ (Ne.symm hj.1)], by simp⟩

/-- C11 (ii): every stream bit outside [off, off+n) keeps its value.
    Bit `r` of word `j` is stream position `j*W + r`. -/
theorem bit_outside (W i o n v : Nat) (ws : List Nat) (j r : Nat) (hW : 0 < W) (ho : o < W) (hr : r < W)
    (hn1 : 1 ≤ n) (hnW : n ≤ W) (hv : v < 2 ^ n)
    (hlen : (if n ≤ W - o then i else i + 1) < ws.length)
    (hout : j * W + r < i * W + o ∨ i * W + o + n ≤ j * W + r) :
    bitAt W (set W ws (i * W + o) n v) j r = bitAt W ws j r := by
  obtain ⟨hd, hm⟩ := div_decomp W i o hW ho
  unfold bitAt set
  simp only [hd, hm]
  by_cases hc : n ≤ W - o
  · rw [if_pos hc] at hlen
    rw [if_pos hc]
    by_cases hji : j = i
    · subst hji
      rw [getD_set_self _ _ _ hlen]
      apply testBit_insert_outside _ _ _ _ _ hv
      omega
    · rw [getD_set_ne _ _ _ _ (Ne.symm hji)]
  · rw [if_neg hc] at hlen
    rw [if_neg hc]
    have hi : i < ws.length := by omega
    have hhigh : v >>> (n - (W - o)) < 2 ^ (W - o) := by
      have := shiftRight_lt v n (n - (W - o)) hv (by omega)
      have e : n - (n - (W - o)) = W - o := by omega
      rwa [e] at this
    have hlen1 : i + 1 < (ws.set i (insert (ws.getD i 0) 0 (W - o) (v >>> (n - (W - o))))).length := by
      simpa using hlen
    by_cases hj1 : j = i + 1
    · subst hj1
      rw [getD_set_self _ _ _ hlen1, getD_set_ne _ _ _ _ (by omega)]
      apply testBit_insert_outside _ _ _ _ _ (and_mask_lt _ _)
      have e : (i + 1) * W = i * W + W := Nat.succ_mul i W
      rw [e] at hout
      omega
    · rw [getD_set_ne _ _ _ _ (Ne.symm hj1)]
      by_cases hji : j = i
      · subst hji
        rw [getD_set_self _ _ _ hi]
        apply testBit_insert_outside _ _ _ _ _ hhigh
        omega
      · rw [getD_set_ne _ _ _ _ (Ne.symm hji)]

/-- written words stay W-bit words -/
theorem set_words_lt (W i o n v : Nat) (ws : List Nat) (hW : 0 < W) (ho : o < W) (hn1 : 1 ≤ n) (hnW : n ≤ W)
    (hv : v < 2 ^ n) (hws : ∀ j, ws.getD j 0 < 2 ^ W) (j : Nat)
    (hlen : (if n ≤ W - o then i else i + 1) < ws.length) :
    (set W ws (i * W + o) n v).getD j 0 < 2 ^ W := by
  obtain ⟨hd, hm⟩ := div_decomp W i o hW ho
  unfold set
  simp only [hd, hm]
  by_cases hc : n ≤ W - o
  · rw [if_pos hc] at hlen
    rw [if_pos hc]
    by_cases hji : j = i
    · subst hji
      rw [getD_set_self _ _ _ hlen]
      exact insert_lt _ _ _ _ _ (hws _) hv (by omega)
    · rw [getD_set_ne _ _ _ _ (Ne.symm hji)]; exact hws j
  · rw [if_neg hc] at hlen
    rw [if_neg hc]
    have hi : i < ws.length := by omega
    have hhigh : v >>> (n - (W - o)) < 2 ^ (W - o) := by
      have := shiftRight_lt v n (n - (W - o)) hv (by omega)
      have e : n - (n - (W - o)) = W - o := by omega
      rwa [e] at this
    have hlen1 : i + 1 < (ws.set i (insert (ws.getD i 0) 0 (W - o) (v >>> (n - (W - o))))).length := by
      simpa using hlen
    by_cases hj1 : j = i + 1
    · subst hj1
      rw [getD_set_self _ _ _ hlen1, getD_set_ne _ _ _ _ (by omega)]
      exact insert_lt _ _ _ _ _ (hws _) (and_mask_lt _ _) (by omega)
    · rw [getD_set_ne _ _ _ _ (Ne.symm hj1)]
      by_cases hji : j = i
      · subst hji
        rw [getD_set_self _ _ _ hi]
        exact insert_lt _ _ _ _ _ (hws _) hhigh (by omega)
      · rw [getD_set_ne _ _ _ _ (Ne.symm hji)]; exact hws j

end Varint.Bitstream
