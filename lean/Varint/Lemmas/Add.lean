import Varint.Model.Tagged
import Varint.Model.External
import Varint.Lemmas.Bytes
/- int64 reinterpretation lemmas for the in-place add models. -/
namespace Varint

theorem toI64_toU64 (s : Int) (hlo : -(2 ^ 63 : Int) ≤ s) (hhi : s ≤ (2 ^ 63 : Int) - 1) :
    toI64 (toU64 s) = s := by
  unfold toI64 toU64
  have h64 : (2 : Int) ^ 64 = 18446744073709551616 := by decide
  have h63 : (2 : Int) ^ 63 = 9223372036854775808 := by decide
  have hn64 : (2 : Nat) ^ 64 = 18446744073709551616 := by decide
  have hn63 : (2 : Nat) ^ 63 = 9223372036854775808 := by decide
  rw [h64, hn64, hn63]
  rw [h63] at hlo hhi
  have hnn : 0 ≤ s % 18446744073709551616 := Int.emod_nonneg _ (by omega)
  have hlt : s % 18446744073709551616 < 18446744073709551616 := Int.emod_lt_of_pos _ (by omega)
  have hcast : ((s % 18446744073709551616).toNat : Int) = s % 18446744073709551616 := Int.toNat_of_nonneg hnn
  have hm : (s % 18446744073709551616).toNat % 18446744073709551616 = (s % 18446744073709551616).toNat := by
    apply Nat.mod_eq_of_lt; omega
  rw [hm]
  split <;> omega

theorem toU64_lt (s : Int) : toU64 s < 2 ^ 64 := by
  unfold toU64
  have h64 : (2 : Int) ^ 64 = 18446744073709551616 := by decide
  have hn64 : (2 : Nat) ^ 64 = 18446744073709551616 := by decide
  rw [h64, hn64]
  have hnn : 0 ≤ s % 18446744073709551616 := Int.emod_nonneg _ (by omega)
  have hlt : s % 18446744073709551616 < 18446744073709551616 := Int.emod_lt_of_pos _ (by omega)
  omega

end Varint
