import Varint.Model.Bitmap
/- Lemmas about the bitmap state machine: membership laws and the cardinality invariant. -/
namespace Varint.Bitmap

theorem testBit_setBit (b v w : Nat) : (setBit b v).testBit w = (b.testBit w || decide (v = w)) := by
  unfold setBit; rw [Nat.testBit_or, Nat.testBit_two_pow]

theorem testBit_clearBit (b v w : Nat) : (clearBit b v).testBit w = (b.testBit w && !decide (v = w)) := by
  unfold clearBit
  rw [Nat.testBit_xor, Nat.testBit_and, Nat.testBit_two_pow]
  cases b.testBit w <;> cases decide (v = w) <;> rfl

/-- number of members below `n` -/
def countBelow (b : Nat) : Nat → Nat
  | 0 => 0
  | n + 1 => countBelow b n + (if b.testBit n then 1 else 0)

def popCount (b : Nat) : Nat := countBelow b 65536

theorem countBelow_congr (b c n : Nat) (h : ∀ i, i < n → b.testBit i = c.testBit i) : countBelow b n = countBelow c n := by
  induction n with
  | zero => rfl
  | succ n ih =>
    simp only [countBelow]
    rw [ih (fun i hi => h i (by omega)), h n (by omega)]

theorem countBelow_setBit (b v n : Nat) (hv : b.testBit v = false) :
    countBelow (setBit b v) n = countBelow b n + (if v < n then 1 else 0) := by
  induction n with
  | zero => simp [countBelow]
  | succ n ih =>
    simp only [countBelow, ih, testBit_setBit]
    by_cases h : v = n
    · subst h
      simp [hv]
    · by_cases h2 : v < n
      · have : v < n + 1 := by omega
        simp [h, h2, this]; omega
      · have : ¬ v < n + 1 := by omega
        simp [h, h2, this]

theorem countBelow_clearBit (b v n : Nat) (hv : b.testBit v = true) :
    countBelow (clearBit b v) n + (if v < n then 1 else 0) = countBelow b n := by
  induction n with
  | zero => simp [countBelow]
  | succ n ih =>
    simp only [countBelow, testBit_clearBit]
    by_cases h : v = n
    · subst h
      have := ih
      simp [hv] at this ⊢
      omega
    · by_cases h2 : v < n
      · have : v < n + 1 := by omega
        simp [h, h2, this] at ih ⊢; omega
      · have : ¬ v < n + 1 := by omega
        simp [h, h2, this] at ih ⊢; omega

/-- the invariant the C maintains: counter = number of members, all members are 16-bit values -/
structure Inv (s : St) : Prop where
  card_eq : s.card = popCount s.bits
  small : ∀ w, 65536 ≤ w → s.bits.testBit w = false

theorem inv_init : Inv init := by
  refine ⟨?_, fun w _ => by simp [init]⟩
  have : ∀ n, countBelow 0 n = 0 := by
    intro n; induction n with
    | zero => rfl
    | succ n ih => simp [countBelow, ih]
  simp [init, popCount, this]

theorem unrun_same (s : St) : (unrun s).bits = s.bits ∧ (unrun s).card = s.card := by
  unfold unrun; split <;> simp

/-- add: membership, truthful change report, invariant -/
theorem add_spec (s : St) (v : Nat) (hv : v < 65536) (hi : Inv s) :
    (∀ w, ((add s v).1).bits.testBit w = (s.bits.testBit w || decide (v = w))) ∧
    (add s v).2 = !s.bits.testBit v ∧ Inv (add s v).1 := by
  obtain ⟨hb, hc⟩ := unrun_same s
  unfold add
  simp only []
  by_cases hm : (unrun s).bits.testBit v = true
  · rw [if_pos hm]
    rw [hb] at hm
    refine ⟨?_, by simp [hm], ⟨by rw [hc, hb]; exact hi.card_eq, by rw [hb]; exact hi.small⟩⟩
    intro w
    rw [hb]
    by_cases hvw : v = w
    · subst hvw; simp [hm]
    · simp [hvw]
  · rw [if_neg hm]
    rw [hb] at hm
    have hm' : s.bits.testBit v = false := by simpa using hm
    have hcnt : popCount (setBit s.bits v) = popCount s.bits + 1 := by
      unfold popCount; rw [countBelow_setBit _ _ _ hm', if_pos hv]
    have hsmall : ∀ w, 65536 ≤ w → (setBit s.bits v).testBit w = false := by
      intro w hw
      rw [testBit_setBit, hi.small w hw]
      have : ¬ v = w := by omega
      simp [this]
    have hcard := hi.card_eq
    cases hty : (unrun s).ty <;> simp only [hty]
    · by_cases hge : (unrun s).card ≥ arrayMax
      · rw [if_pos hge]
        exact ⟨fun w => by simp [hb, testBit_setBit], by simp [hm'], ⟨by simp [hb, hc, hcnt, hcard], by simpa [hb] using hsmall⟩⟩
      · rw [if_neg hge]
        exact ⟨fun w => by simp [hb, testBit_setBit], by simp [hm'], ⟨by simp [hb, hc, hcnt, hcard], by simpa [hb] using hsmall⟩⟩
    · exact ⟨fun w => by simp [hb, testBit_setBit], by simp [hm'], ⟨by simp [hb, hc, hcnt, hcard], by simpa [hb] using hsmall⟩⟩
    · exact ⟨fun w => by simp [hb, testBit_setBit], by simp [hm'], ⟨by simp [hb, hc, hcnt, hcard], by simpa [hb] using hsmall⟩⟩

/-- remove: membership, truthful change report, invariant -/
theorem remove_spec (s : St) (v : Nat) (hv : v < 65536) (hi : Inv s) :
    (∀ w, ((remove s v).1).bits.testBit w = (s.bits.testBit w && !decide (v = w))) ∧
    (remove s v).2 = s.bits.testBit v ∧ Inv (remove s v).1 := by
  obtain ⟨hb, hc⟩ := unrun_same s
  unfold remove
  simp only []
  by_cases hm : (unrun s).bits.testBit v = true
  · have hn : ¬ ((!(unrun s).bits.testBit v) = true) := by simp [hm]
    rw [if_neg hn]
    rw [hb] at hm
    have hcnt : popCount (clearBit s.bits v) + 1 = popCount s.bits := by
      have := countBelow_clearBit s.bits v 65536 hm
      rw [if_pos hv] at this
      exact this
    have hsmall : ∀ w, 65536 ≤ w → (clearBit s.bits v).testBit w = false := by
      intro w hw
      rw [testBit_clearBit, hi.small w hw]; simp
    have hcard := hi.card_eq
    cases hty : (unrun s).ty <;> simp only [hty]
    · exact ⟨fun w => by simp [hb, testBit_clearBit], by simp [hm], ⟨by simp [hb, hc]; omega, by simpa [hb] using hsmall⟩⟩
    · exact ⟨fun w => by simp [hb, testBit_clearBit], by simp [hm], ⟨by simp [hb, hc]; omega, by simpa [hb] using hsmall⟩⟩
    · exact ⟨fun w => by simp [hb, testBit_clearBit], by simp [hm], ⟨by simp [hb, hc]; omega, by simpa [hb] using hsmall⟩⟩
  · have hn : (!(unrun s).bits.testBit v) = true := by simpa using hm
    rw [if_pos hn]
    rw [hb] at hm
    have hm' : s.bits.testBit v = false := by simpa using hm
    refine ⟨?_, by simp [hm'], ⟨by rw [hc, hb]; exact hi.card_eq, by rw [hb]; exact hi.small⟩⟩
    intro w
    rw [hb]
    by_cases hvw : v = w
    · subst hvw; simp [hm']
    · simp [hvw]

/-- the container type never influences membership, the counter or the change report -/
theorem add_ty_irrelevant (s : St) (t : Ty) (v : Nat) :
    (add { s with ty := t } v).1.bits = (add s v).1.bits ∧ (add { s with ty := t } v).1.card = (add s v).1.card ∧
    (add { s with ty := t } v).2 = (add s v).2 := by
  unfold add unrun
  simp only []
  cases s.ty <;> cases t <;> simp <;> (repeat' split) <;> simp_all

theorem remove_ty_irrelevant (s : St) (t : Ty) (v : Nat) :
    (remove { s with ty := t } v).1.bits = (remove s v).1.bits ∧
    (remove { s with ty := t } v).1.card = (remove s v).1.card ∧
    (remove { s with ty := t } v).2 = (remove s v).2 := by
  unfold remove unrun
  simp only []
  cases s.ty <;> cases t <;> simp <;> (repeat' split) <;> simp_all

/-- bulk add = union with the listed values; invariant preserved -/
theorem addMany_spec (vs : List Nat) (s : St) (hvs : ∀ v ∈ vs, v < 65536) (hi : Inv s) :
    (∀ w, (addMany s vs).bits.testBit w = (s.bits.testBit w || decide (w ∈ vs))) ∧ Inv (addMany s vs) := by
  induction vs generalizing s with
  | nil => exact ⟨fun w => by simp [addMany], hi⟩
  | cons v vs ih =>
    obtain ⟨h1, _, h3⟩ := add_spec s v (hvs v (by simp)) hi
    have := ih (add s v).1 (fun x hx => hvs x (by simp [hx])) h3
    refine ⟨?_, this.2⟩
    intro w
    have hw := this.1 w
    simp only [addMany, List.foldl_cons] at hw ⊢
    rw [hw, h1 w]
    by_cases hvw : v = w
    · subst hvw; simp
    · have : ¬ w = v := fun h => hvw h.symm
      simp [hvw, this]

end Varint.Bitmap

namespace Varint.Bitmap

theorem mem_wordMembers (base : Nat) : ∀ (n i w x : Nat),
    x ∈ wordMembers base n i w ↔ ∃ j, j < n ∧ x = base + i + j ∧ w.testBit j = true
  | 0, i, w, x => by simp [wordMembers]
  | n + 1, i, w, x => by
    have ih := mem_wordMembers base n (i + 1) (w / 2) x
    have h0 : w.testBit 0 = decide (w % 2 = 1) := Nat.testBit_zero w
    have hs : ∀ j, w.testBit (j + 1) = (w / 2).testBit j := fun j => Nat.testBit_succ w j
    unfold wordMembers
    by_cases hw : w % 2 = 1
    · rw [if_pos hw, List.mem_cons, ih]
      constructor
      · rintro (h | ⟨j, hj, hx, hb⟩)
        · exact ⟨0, by omega, by omega, by simp [h0, hw]⟩
        · exact ⟨j + 1, by omega, by omega, by rw [hs]; exact hb⟩
      · rintro ⟨j, hj, hx, hb⟩
        cases j with
        | zero => left; omega
        | succ j => right; exact ⟨j, by omega, by omega, by rw [← hs]; exact hb⟩
    · rw [if_neg hw, ih]
      constructor
      · rintro ⟨j, hj, hx, hb⟩
        exact ⟨j + 1, by omega, by omega, by rw [hs]; exact hb⟩
      · rintro ⟨j, hj, hx, hb⟩
        cases j with
        | zero => simp [h0, hw] at hb
        | succ j => exact ⟨j, by omega, by omega, by rw [← hs]; exact hb⟩

theorem mem_membersAux : ∀ (n k b x : Nat),
    x ∈ membersAux n k b ↔ ∃ j, j < 64 * n ∧ x = 64 * k + j ∧ b.testBit j = true
  | 0, k, b, x => by simp [membersAux]
  | n + 1, k, b, x => by
    have ih := mem_membersAux n (k + 1) (b / 2 ^ 64) x
    unfold membersAux
    rw [List.mem_append, mem_wordMembers, ih]
    constructor
    · rintro (⟨j, hj, hx, hb⟩ | ⟨j, hj, hx, hb⟩)
      · refine ⟨j, by omega, by omega, ?_⟩
        rw [Nat.testBit_mod_two_pow] at hb
        simpa [hj] using hb
      · refine ⟨j + 64, by omega, by omega, ?_⟩
        rw [Nat.testBit_div_two_pow] at hb
        exact hb
    · rintro ⟨j, hj, hx, hb⟩
      by_cases h64 : j < 64
      · left
        refine ⟨j, h64, by omega, ?_⟩
        rw [Nat.testBit_mod_two_pow]
        simp [h64, hb]
      · right
        refine ⟨j - 64, by omega, by omega, ?_⟩
        rw [Nat.testBit_div_two_pow]
        have : j - 64 + 64 = j := by omega
        rw [this]; exact hb

/-- iteration / toArray yields exactly the set bits below 65536 -/
theorem mem_members (s : St) (x : Nat) : x ∈ members s ↔ x < 65536 ∧ s.bits.testBit x = true := by
  unfold members
  rw [mem_membersAux]
  constructor
  · rintro ⟨j, hj, hx, hb⟩
    have : x = j := by omega
    subst this
    exact ⟨by omega, hb⟩
  · rintro ⟨hx, hb⟩
    exact ⟨x, by omega, by omega, hb⟩

theorem bits_of_members (s : St) (hs : ∀ w, 65536 ≤ w → s.bits.testBit w = false) (w : Nat) :
    decide (w ∈ members s) = s.bits.testBit w := by
  by_cases hw : w < 65536
  · have := mem_members s w
    by_cases hb : s.bits.testBit w = true
    · have hm : w ∈ members s := this.mpr ⟨hw, hb⟩
      simp [hm, hb]
    · have hm : ¬ w ∈ members s := fun h => hb (this.mp h).2
      simp [hm]; simpa using hb
  · have hm : ¬ w ∈ members s := fun h => hw ((mem_members _ w).mp h).1
    simp [hm, hs w (by omega)]

theorem members_lt (s : St) : ∀ v ∈ members s, v < 65536 := fun v hv => ((mem_members s v).mp hv).1

end Varint.Bitmap
