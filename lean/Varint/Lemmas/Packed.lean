import Varint.Model.Packed
import Varint.Lemmas.BitField
import Varint.Lemmas.Bitstream
/-
  Refinement of the slot-level packed-array model to one big little-endian number:
  `get` is a bit-field extract and `set` a bit-field insert of that number.
-/
namespace Varint.Packed
open Varint.BF

/-- the slot array read as one number, slot 0 least significant -/
def val (S : Nat) : List Nat → Nat
  | [] => 0
  | w :: ws => 2 ^ S * val S ws + w

def WordsOK (S : Nat) (ws : List Nat) : Prop := ∀ w ∈ ws, w < 2 ^ S

theorem getD_lt (S : Nat) (ws : List Nat) (h : WordsOK S ws) (k : Nat) : ws.getD k 0 < 2 ^ S := by
  unfold List.getD
  cases hk : ws[k]? with
  | none => simp; exact Nat.pow_pos (by omega)
  | some w =>
    simp
    exact h w (List.mem_of_getElem? hk)

/-- bit `r` of slot `k` is bit `k*S + r` of the big number -/
theorem testBit_val (S : Nat) (ws : List Nat) (h : WordsOK S ws) (k r : Nat) (hr : r < S) :
    (val S ws).testBit (k * S + r) = (ws.getD k 0).testBit r := by
  induction ws generalizing k with
  | nil => simp [val]
  | cons w ws ih =>
    have hw : w < 2 ^ S := h w (by simp)
    have hws : WordsOK S ws := fun x hx => h x (by simp [hx])
    rw [val, Nat.testBit_two_pow_mul_add _ hw]
    cases k with
    | zero =>
      have : 0 * S + r < S := by omega
      rw [if_pos this]; simp
    | succ k =>
      have e : (k + 1) * S + r = k * S + r + S := by rw [Nat.succ_mul]; omega
      have : ¬ ((k + 1) * S + r < S) := by rw [e]; omega
      rw [if_neg this, e, Nat.add_sub_cancel, ih hws k]
      simp [List.getD]

theorem wordsOK_set (S : Nat) (ws : List Nat) (h : WordsOK S ws) (j x : Nat) (hx : x < 2 ^ S) :
    WordsOK S (ws.set j x) := by
  intro w hw
  rcases List.mem_or_eq_of_mem_set hw with h1 | h1
  · exact h w h1
  · rw [h1]; exact hx

/-- decomposition of the element's bit position -/
structure Pos (S b i j sb : Nat) : Prop where
  hS : 0 < S
  hsb : sb < S
  eq : i * b = j * S + sb

theorem pos_of (S b i : Nat) (hS : 0 < S) : Pos S b i (i * b / S) (i * b % S) :=
  ⟨hS, Nat.mod_lt _ hS, by have := Nat.div_add_mod (i * b) S; rw [Nat.mul_comm] at this; omega⟩

/-- the slots the element occupies exist and it spans at most two of them -/
def Fits (S b i : Nat) (ws : List Nat) : Prop :=
  (if b ≤ S - i * b % S then i * b / S else i * b / S + 1) < ws.length ∧ b ≤ 2 * S - i * b % S

theorem and_mask_testBit (v n r : Nat) : (v &&& mask n).testBit r = (v.testBit r && decide (r < n)) := by
  rw [Nat.testBit_and, testBit_mask]

/-- (B) a slot-level `set` is a bit-field insert of the big number; slots stay S-bit words -/
theorem val_set (S b i v : Nat) (ws : List Nat) (hS : 0 < S) (hb : 1 ≤ b) (hv : v < 2 ^ b)
    (hw : WordsOK S ws) (hf : Fits S b i ws) :
    val S (set S b ws i v) = insert (val S ws) (i * b) b v ∧ WordsOK S (set S b ws i v) ∧
    (set S b ws i v).length = ws.length := by
  obtain ⟨hS', hsb, heq⟩ := pos_of S b i hS
  obtain ⟨hlen, hspan⟩ := hf
  generalize hj : i * b / S = j at *
  generalize hs : i * b % S = sb at *
  by_cases hc : b ≤ S - sb
  · -- one slot
    rw [if_pos hc] at hlen
    have hset : set S b ws i v = ws.set j (insert (ws.getD j 0) sb b v) := by
      unfold set; simp only [hj, hs]; rw [if_pos hc]
    have hok : WordsOK S (ws.set j (insert (ws.getD j 0) sb b v)) :=
      wordsOK_set S ws hw j _ (insert_lt _ _ _ _ _ (getD_lt S ws hw j) hv (by omega))
    rw [hset]
    refine ⟨?_, hok, by simp⟩
    apply Nat.eq_of_testBit_eq
    intro p
    have hp := Nat.div_add_mod p S
    have hr : p % S < S := Nat.mod_lt _ hS
    generalize p / S = k at hp
    generalize p % S = r at hp hr
    have hpe : p = k * S + r := by rw [Nat.mul_comm]; omega
    rw [hpe, testBit_val S _ hok k r hr, testBit_insert _ _ _ _ _ hv, testBit_val S ws hw k r hr]
    by_cases hkj : k = j
    · subst hkj
      rw [Bitstream.getD_set_self _ _ _ hlen, testBit_insert _ _ _ _ _ hv]
      by_cases hin : sb ≤ r ∧ r < sb + b
      · have : i * b ≤ k * S + r ∧ k * S + r < i * b + b := by omega
        rw [if_pos hin, if_pos this]
        congr 1; omega
      · have : ¬ (i * b ≤ k * S + r ∧ k * S + r < i * b + b) := by omega
        rw [if_neg hin, if_neg this]
    · rw [Bitstream.getD_set_ne _ _ _ _ (Ne.symm hkj)]
      have : ¬ (i * b ≤ k * S + r ∧ k * S + r < i * b + b) := by
        intro ⟨h1, h2⟩
        rcases Nat.lt_or_gt_of_ne hkj with hlt | hgt
        · have : (k + 1) * S ≤ j * S := Nat.mul_le_mul_right S hlt
          rw [Nat.succ_mul] at this; omega
        · have : (j + 1) * S ≤ k * S := Nat.mul_le_mul_right S hgt
          rw [Nat.succ_mul] at this; omega
      rw [if_neg this]
  · -- two slots
    rw [if_neg hc] at hlen
    have hjl : j < ws.length := by omega
    have hav : S - sb < b := by omega
    have hlow : v &&& mask (S - sb) < 2 ^ (S - sb) := Bitstream.and_mask_lt _ _
    have hhigh : v >>> (S - sb) < 2 ^ (b - (S - sb)) := Bitstream.shiftRight_lt v b (S - sb) hv (by omega)
    let ws1 := ws.set j (insert (ws.getD j 0) sb (S - sb) (v &&& mask (S - sb)))
    have hset : set S b ws i v = ws1.set (j + 1) (insert (ws1.getD (j + 1) 0) 0 (b - (S - sb)) (v >>> (S - sb))) := by
      unfold set; simp only [hj, hs]; rw [if_neg hc]
    have hok1 : WordsOK S ws1 :=
      wordsOK_set S ws hw j _ (insert_lt _ _ _ _ _ (getD_lt S ws hw j) hlow (by omega))
    have hok : WordsOK S (ws1.set (j + 1) (insert (ws1.getD (j + 1) 0) 0 (b - (S - sb)) (v >>> (S - sb)))) :=
      wordsOK_set S ws1 hok1 (j + 1) _ (insert_lt _ _ _ _ _ (getD_lt S ws1 hok1 (j + 1)) hhigh (by omega))
    have hl1 : j + 1 < ws1.length := by simp [ws1]; exact hlen
    rw [hset]
    refine ⟨?_, hok, by simp [ws1]⟩
    apply Nat.eq_of_testBit_eq
    intro p
    have hp := Nat.div_add_mod p S
    have hr : p % S < S := Nat.mod_lt _ hS
    generalize p / S = k at hp
    generalize p % S = r at hp hr
    have hpe : p = k * S + r := by rw [Nat.mul_comm]; omega
    rw [hpe, testBit_val S _ hok k r hr, testBit_insert _ _ _ _ _ hv, testBit_val S ws hw k r hr]
    by_cases hk1 : k = j + 1
    · subst hk1
      rw [Bitstream.getD_set_self _ _ _ hl1, testBit_insert _ _ _ _ _ hhigh,
        Bitstream.getD_set_ne _ _ _ _ (by omega : j ≠ j + 1)]
      have e : (j + 1) * S = j * S + S := Nat.succ_mul j S
      by_cases hin : 0 ≤ r ∧ r < 0 + (b - (S - sb))
      · have : i * b ≤ (j + 1) * S + r ∧ (j + 1) * S + r < i * b + b := by rw [e]; omega
        rw [if_pos hin, if_pos this, Nat.testBit_shiftRight]
        congr 1; rw [e]; omega
      · have : ¬ (i * b ≤ (j + 1) * S + r ∧ (j + 1) * S + r < i * b + b) := by rw [e]; omega
        rw [if_neg hin, if_neg this]
    · rw [Bitstream.getD_set_ne _ _ _ _ (Ne.symm hk1)]
      by_cases hkj : k = j
      · subst hkj
        rw [Bitstream.getD_set_self _ _ _ hjl, testBit_insert _ _ _ _ _ hlow]
        by_cases hin : sb ≤ r ∧ r < sb + (S - sb)
        · have : i * b ≤ k * S + r ∧ k * S + r < i * b + b := by omega
          rw [if_pos hin, if_pos this, and_mask_testBit]
          have hd : decide (r - sb < S - sb) = true := by simp; omega
          rw [hd, Bool.and_true]
          congr 1; omega
        · have : ¬ (i * b ≤ k * S + r ∧ k * S + r < i * b + b) := by omega
          rw [if_neg hin, if_neg this]
      · rw [Bitstream.getD_set_ne _ _ _ _ (Ne.symm hkj)]
        have : ¬ (i * b ≤ k * S + r ∧ k * S + r < i * b + b) := by
          intro ⟨h1, h2⟩
          rcases Nat.lt_or_gt_of_ne hkj with hlt | hgt
          · have : (k + 1) * S ≤ j * S := Nat.mul_le_mul_right S hlt
            rw [Nat.succ_mul] at this; omega
          · have hgt2 : j + 2 ≤ k := by omega
            have : (j + 2) * S ≤ k * S := Nat.mul_le_mul_right S hgt2
            have e2 : (j + 2) * S = j * S + 2 * S := by rw [Nat.add_mul]
            rw [e2] at this; omega
        rw [if_neg this]

/-- (A) a slot-level `get` is a bit-field extract of the big number -/
theorem get_eq (S b i : Nat) (ws : List Nat) (hS : 0 < S) (hb : 1 ≤ b) (hw : WordsOK S ws)
    (hspan : b ≤ 2 * S - i * b % S) :
    get S b ws i = extract (val S ws) (i * b) b := by
  obtain ⟨hS', hsb, heq⟩ := pos_of S b i hS
  generalize hj : i * b / S = j at *
  generalize hs : i * b % S = sb at *
  apply Nat.eq_of_testBit_eq
  intro q
  rw [testBit_extract]
  by_cases hc : b ≤ S - sb
  · have hget : get S b ws i = extract (ws.getD j 0) sb b := by
      unfold get; simp only [hj, hs]; rw [if_pos hc]
    rw [hget, testBit_extract]
    by_cases hq : q < b
    · have e : i * b + q = j * S + (sb + q) := by omega
      rw [e, testBit_val S ws hw j (sb + q) (by omega)]
    · simp [hq]
  · have hget : get S b ws i = extract (ws.getD j 0) sb (S - sb) |||
        (extract (ws.getD (j + 1) 0) 0 (b - (S - sb))) <<< (S - sb) := by
      unfold get; simp only [hj, hs]; rw [if_neg hc]
    rw [hget, Nat.testBit_or, Nat.testBit_shiftLeft, testBit_extract, testBit_extract]
    by_cases hq : q < b
    · by_cases hq1 : q < S - sb
      · have e : i * b + q = j * S + (sb + q) := by omega
        have : ¬ (S - sb ≤ q) := by omega
        rw [e, testBit_val S ws hw j (sb + q) (by omega)]
        simp [hq, hq1, this]
      · have e : i * b + q = (j + 1) * S + (q - (S - sb)) := by rw [Nat.succ_mul]; omega
        have h2 : S - sb ≤ q := by omega
        have h3 : q - (S - sb) < b - (S - sb) := by omega
        rw [e, testBit_val S ws hw (j + 1) (q - (S - sb)) (by omega)]
        simp [hq, hq1, h2, h3]
    · have h1 : ¬ q < S - sb := by omega
      have h3 : ¬ (q - (S - sb) < b - (S - sb)) := by omega
      simp [hq, h1, h3]

end Varint.Packed
