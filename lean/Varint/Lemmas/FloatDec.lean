import Varint.Model.FloatDec
import Varint.Lemmas.Delta
/-
  Array framing of the float codec: `varintFloatDecode` (model `Float.decFull` / `Float.dec`) applied
  to the bytes of `varintFloatEncode` (model `Float.enc`) returns `ds.map (roundTripOne p)` in order.
-/
namespace Varint.Float
open Varint.Bits

/-! ### LSB-first bit packing -/

theorem lsb_length (n v : Nat) : (lsb n v).length = n := by
  induction n generalizing v with
  | zero => rfl
  | succ n ih => simp [lsb, ih]

theorem ofLsb_lsb (n v : Nat) : ofLsb (lsb n v) = v % 2 ^ n := by
  induction n generalizing v with
  | zero => simp [lsb, ofLsb, Nat.mod_one]
  | succ n ih =>
    simp only [lsb, ofLsb, ih]
    rw [Nat.pow_succ, Nat.mul_comm (2 ^ n) 2, Nat.mod_mul]
    by_cases h : v % 2 = 1
    · simp [h]
    · have : v % 2 = 0 := by omega
      simp [this]

theorem lsb_zero (n : Nat) : lsb n 0 = List.replicate n false := by
  induction n with
  | zero => rfl
  | succ n ih => simp [lsb, ih, List.replicate_succ]

theorem lsb_ofLsb_pad (n : Nat) (bs : List Bool) (h : bs.length ≤ n) :
    lsb n (ofLsb bs) = bs ++ List.replicate (n - bs.length) false := by
  induction n generalizing bs with
  | zero =>
    cases bs with
    | nil => rfl
    | cons b bs => simp at h
  | succ n ih =>
    cases bs with
    | nil => simpa [ofLsb] using lsb_zero (n + 1)
    | cons b bs =>
      have hl : bs.length ≤ n := by simpa using h
      have h2 : ofLsb (b :: bs) / 2 = ofLsb bs := by
        simp only [ofLsb]; cases b <;> simp <;> omega
      have h1 : decide (ofLsb (b :: bs) % 2 = 1) = b := by
        simp only [ofLsb]; cases b <;> simp <;> omega
      simp only [lsb, List.length_cons, List.cons_append]
      rw [h1, h2, ih bs hl, Nat.add_sub_add_right]

theorem packLsb_cons8 (b0 b1 b2 b3 b4 b5 b6 b7 : Bool) (rest : List Bool) :
    packLsb (b0 :: b1 :: b2 :: b3 :: b4 :: b5 :: b6 :: b7 :: rest) =
      ofLsb [b0, b1, b2, b3, b4, b5, b6, b7] :: packLsb rest := by
  rw [packLsb]

/-- the bit string of the packed bytes is the original bit list followed by zero padding, and the
    number of bytes is the rounded-up eighth -/
theorem bitsOf_packLsb (bs : List Bool) :
    (∃ pad, bitsOf (packLsb bs) = bs ++ pad) ∧ (packLsb bs).length = (bs.length + 7) / 8 := by
  induction bs using packLsb.induct with
  | case1 b0 b1 b2 b3 b4 b5 b6 b7 rest ih =>
    obtain ⟨⟨pad, hp⟩, hl⟩ := ih
    rw [packLsb_cons8]
    refine ⟨⟨pad, ?_⟩, ?_⟩
    · unfold bitsOf at hp ⊢
      rw [List.flatMap_cons, hp, lsb_ofLsb_pad 8 _ (by simp)]
      simp
    · simp only [List.length_cons, hl]; omega
  | case2 => exact ⟨⟨[], rfl⟩, rfl⟩
  | case3 bs h8 hne =>
    have hlen : bs.length < 8 := by
      apply Nat.lt_of_not_le
      intro hge
      rcases bs with _ | ⟨b0, _ | ⟨b1, _ | ⟨b2, _ | ⟨b3, _ | ⟨b4, _ | ⟨b5, _ | ⟨b6, _ | ⟨b7, rest⟩⟩⟩⟩⟩⟩⟩⟩ <;>
        simp at hge
      exact h8 _ _ _ _ _ _ _ _ _ rfl
    have hpk : packLsb bs = [ofLsb bs] := by
      unfold packLsb
      split
      · exact absurd rfl (h8 _ _ _ _ _ _ _ _ _)
      · exact absurd rfl hne
      · rfl
    have hpos : 0 < bs.length := by
      cases bs with
      | nil => exact absurd rfl hne
      | cons _ _ => simp
    rw [hpk]
    refine ⟨⟨List.replicate (8 - bs.length) false, ?_⟩, ?_⟩
    · unfold bitsOf
      rw [List.flatMap_cons, lsb_ofLsb_pad 8 bs (by omega)]
      simp
    · simp only [List.length_cons, List.length_nil]; omega

theorem take_bitsOf_packLsb (bs : List Bool) (rest : List Nat) :
    takeExact ((bs.length + 7) / 8) (packLsb bs ++ rest) = some (packLsb bs) ∧
    (packLsb bs ++ rest).drop ((bs.length + 7) / 8) = rest ∧
    (bitsOf (packLsb bs)).take bs.length = bs := by
  obtain ⟨⟨pad, hp⟩, hl⟩ := bitsOf_packLsb bs
  refine ⟨takeExact_append _ _ hl, List.drop_left' hl, ?_⟩
  rw [hp, List.take_left' rfl]

/-- reading `vals.length` fields of `n` bits back from the concatenated LSB-first fields -/
theorem unpackBits_flatMap (n : Nat) (vals : List Nat) (pad : List Bool) :
    unpackBits n vals.length (vals.flatMap (lsb n) ++ pad) = vals.map (· % 2 ^ n) := by
  induction vals with
  | nil => rfl
  | cons v vs ih =>
    simp only [List.length_cons, unpackBits, List.flatMap_cons, List.append_assoc, List.map_cons]
    rw [List.take_left' (lsb_length n v), List.drop_left' (lsb_length n v), ofLsb_lsb, ih]

/-! ### exponents: zig-zag on small integers, min/max, the three exponent sections -/

theorem zzInt_lt (e : Int) (h1 : -32768 ≤ e) (h2 : e < 32768) : zzInt e < 2 ^ 64 := by
  unfold zzInt; split <;> omega

theorem expOfZz_zzInt (e : Int) (h1 : -32768 ≤ e) (h2 : e < 32768) : expOfZz (zzInt e) = e := by
  unfold expOfZz toI16 toI64 Delta.unzz zzInt
  split <;> split <;> split <;> omega

theorem getField_ffield (u : Nat) (hu : u < 2 ^ 64) (rest : List Nat) :
    Delta.getField (field u ++ rest) = some (u, rest) :=
  Delta.getField_field u hu rest

theorem ffield_length_le (u : Nat) (hu : u < 2 ^ 64) : (field u).length ≤ 9 :=
  Delta.field_le u hu

theorem foldl_min_le (xs : List Int) (a : Int) :
    xs.foldl min a ≤ a ∧ ∀ x ∈ xs, xs.foldl min a ≤ x := by
  induction xs generalizing a with
  | nil => simp
  | cons y ys ih =>
    obtain ⟨h1, h2⟩ := ih (min a y)
    simp only [List.foldl_cons, List.mem_cons]
    refine ⟨by omega, ?_⟩
    intro x hx
    rcases hx with rfl | hx
    · omega
    · exact h2 x hx

theorem le_foldl_max (xs : List Int) (a : Int) :
    a ≤ xs.foldl max a ∧ ∀ x ∈ xs, x ≤ xs.foldl max a := by
  induction xs generalizing a with
  | nil => simp
  | cons y ys ih =>
    obtain ⟨h1, h2⟩ := ih (max a y)
    simp only [List.foldl_cons, List.mem_cons]
    refine ⟨by omega, ?_⟩
    intro x hx
    rcases hx with rfl | hx
    · omega
    · exact h2 x hx

theorem minInt_le (xs : List Int) : ∀ x ∈ xs, minInt xs ≤ x := by
  cases xs with
  | nil => simp
  | cons y ys =>
    obtain ⟨h1, h2⟩ := foldl_min_le ys y
    intro x hx
    simp only [List.mem_cons] at hx
    rcases hx with rfl | hx
    · exact h1
    · exact h2 x hx

theorem le_maxInt (xs : List Int) : ∀ x ∈ xs, x ≤ maxInt xs := by
  cases xs with
  | nil => simp
  | cons y ys =>
    obtain ⟨h1, h2⟩ := le_foldl_max ys y
    intro x hx
    simp only [List.mem_cons] at hx
    rcases hx with rfl | hx
    · exact h1
    · exact h2 x hx

/-- number of clear flags -/
def nClear (fs : List Bool) : Nat := (fs.filter (! ·)).length
/-- number of set flags -/
def nSet (fs : List Bool) : Nat := (fs.filter id).length

theorem nClear_cons_true (fs : List Bool) : nClear (true :: fs) = nClear fs := by simp [nClear]
theorem nClear_cons_false (fs : List Bool) : nClear (false :: fs) = nClear fs + 1 := by simp [nClear]
theorem nSet_cons_true (fs : List Bool) : nSet (true :: fs) = nSet fs + 1 := by simp [nSet]
theorem nSet_cons_false (fs : List Bool) : nSet (false :: fs) = nSet fs := by simp [nSet]

theorem all_id_iff (fs : List Bool) : fs.all id = true ↔ nClear fs = 0 := by
  induction fs with
  | nil => simp [nClear]
  | cons f fs ih =>
    cases f
    · simp [nClear_cons_false]
    · simpa [nClear_cons_true] using ih

/-- mode 0 -/
theorem readIndep_enc (fs : List Bool) (es : List Int) (hn : nClear fs = es.length)
    (hb : ∀ e ∈ es, -32768 ≤ e ∧ e < 32768) (rest : List Nat) :
    readIndep fs ((es.flatMap fun e => field (zzInt e)) ++ rest) = some (es, rest) := by
  induction fs generalizing es with
  | nil =>
    cases es with
    | nil => rfl
    | cons e es => simp [nClear] at hn
  | cons f fs ih =>
    cases f
    · cases es with
      | nil => simp [nClear_cons_false] at hn
      | cons e es =>
        rw [nClear_cons_false, List.length_cons] at hn
        have he := hb e (by simp)
        rw [List.flatMap_cons, List.append_assoc, readIndep,
          getField_ffield _ (zzInt_lt e he.1 he.2)]
        simp only []
        rw [ih es (by omega) (fun x hx => hb x (by simp [hx])), expOfZz_zzInt e he.1 he.2]
    · rw [nClear_cons_true] at hn
      rw [readIndep, ih es hn hb]

/-- mode 1, the per-value bytes -/
theorem readCommon_enc (base : Int) (fs : List Bool) (es : List Int) (hn : nClear fs = es.length)
    (hb : ∀ e ∈ es, -32768 ≤ e ∧ e < 32768 ∧ base ≤ e ∧ e - base ≤ 255) (rest : List Nat) :
    readCommon base fs ((es.map fun e => (e - base).toNat % 256) ++ rest) = some (es, rest) := by
  induction fs generalizing es with
  | nil =>
    cases es with
    | nil => rfl
    | cons e es => simp [nClear] at hn
  | cons f fs ih =>
    cases f
    · cases es with
      | nil => simp [nClear_cons_false] at hn
      | cons e es =>
        rw [nClear_cons_false, List.length_cons] at hn
        have he := hb e (by simp)
        rw [List.map_cons, List.cons_append, readCommon]
        rw [ih es (by omega) (fun x hx => hb x (by simp [hx]))]
        have : toI16 (base + (((e - base).toNat % 256 : Nat) : Int)) = e := by
          unfold toI16; omega
        simp only [this]
    · rw [nClear_cons_true] at hn
      rw [readCommon, ih es hn hb]

/-- mode 2 after the first exponent -/
theorem readDelta_some (pe : Int) (hpe : -1100 ≤ pe ∧ pe ≤ 1100) (fs : List Bool) (es : List Int)
    (hn : nClear fs = es.length) (hb : ∀ e ∈ es, -1100 ≤ e ∧ e ≤ 1100) (rest : List Nat) :
    readDelta (some pe) fs (deltaExps pe es ++ rest) = some (es, rest) := by
  induction fs generalizing es pe with
  | nil =>
    cases es with
    | nil => rfl
    | cons e es => simp [nClear] at hn
  | cons f fs ih =>
    cases f
    · cases es with
      | nil => simp [nClear_cons_false] at hn
      | cons e es =>
        rw [nClear_cons_false, List.length_cons] at hn
        have he := hb e (by simp)
        rw [deltaExps, List.append_assoc, readDelta,
          getField_ffield _ (zzInt_lt (e - pe) (by omega) (by omega))]
        simp only []
        rw [expOfZz_zzInt (e - pe) (by omega) (by omega)]
        have : toI16 (pe + (e - pe)) = e := by unfold toI16; omega
        rw [this, ih e he es (by omega) (fun x hx => hb x (by simp [hx]))]
    · rw [nClear_cons_true] at hn
      rw [readDelta, ih pe hpe es hn hb]

/-- mode 2 -/
theorem readDelta_none (fs : List Bool) (es : List Int)
    (hn : nClear fs = es.length) (hb : ∀ e ∈ es, -1100 ≤ e ∧ e ≤ 1100) (rest : List Nat) :
    readDelta none fs (encExps 2 es ++ rest) = some (es, rest) := by
  induction fs generalizing es with
  | nil =>
    cases es with
    | nil => rfl
    | cons e es => simp [nClear] at hn
  | cons f fs ih =>
    cases f
    · cases es with
      | nil => simp [nClear_cons_false] at hn
      | cons e es =>
        rw [nClear_cons_false, List.length_cons] at hn
        have he := hb e (by simp)
        show readDelta none (false :: fs) ((field (zzInt e) ++ deltaExps e es) ++ rest) = _
        rw [List.append_assoc, readDelta, getField_ffield _ (zzInt_lt e (by omega) (by omega))]
        simp only []
        rw [expOfZz_zzInt e (by omega) (by omega),
          readDelta_some e he fs es (by omega) (fun x hx => hb x (by simp [hx]))]
    · rw [nClear_cons_true] at hn
      rw [readDelta, ih es hn hb]

/-! ### verbatim special values -/

theorem readSpecials_enc (fs : List Bool) (sps : List Nat) (hn : nSet fs = sps.length)
    (hb : ∀ v ∈ sps, v < 2 ^ 64) (rest : List Nat) :
    readSpecials fs (sps.flatMap (leBytes 8) ++ rest) = some (sps, rest) := by
  induction fs generalizing sps with
  | nil =>
    cases sps with
    | nil => rfl
    | cons v vs => simp [nSet] at hn
  | cons f fs ih =>
    cases f
    · rw [nSet_cons_false] at hn
      rw [readSpecials, ih sps hn hb]
    · cases sps with
      | nil => simp [nSet_cons_true] at hn
      | cons v vs =>
        rw [nSet_cons_true, List.length_cons] at hn
        have hv := hb v (by simp)
        rw [List.flatMap_cons, List.append_assoc, readSpecials,
          takeExact_append _ _ (leBytes_length 8 v)]
        simp only []
        rw [List.drop_left' (leBytes_length 8 v), ih vs (by omega) (fun x hx => hb x (by simp [hx])),
          ofLe_leBytes_of_lt (by omega)]

/-! ### per-value facts about `reduce` -/

theorem mantBits_cases (p : Nat) : mantBits p = 52 ∨ mantBits p = 23 ∨ mantBits p = 10 ∨ mantBits p = 4 := by
  unfold mantBits; split <;> simp

theorem reduce_bounds (mb : Nat) (hmb : mb = 52 ∨ mb = 23 ∨ mb = 10 ∨ mb = 4) (b : Nat)
    (hn : isSpecial b = false) :
    -1022 ≤ (reduce mb b).1 ∧ (reduce mb b).1 ≤ 1024 ∧ (reduce mb b).2 < 2 ^ mb := by
  have hexp : expField b ≠ 2047 ∧ expField b ≠ 0 := by
    simp [isSpecial] at hn; exact hn
  have hfr : frac b < 2 ^ 52 := by unfold frac; omega
  have hex : expField b < 2048 := by unfold expField; omega
  rcases hmb with rfl | rfl | rfl | rfl
  all_goals
    simp only [reduce]
    generalize frac b = f at *
    generalize expField b = ex at *
    simp only [Nat.reduceSub, Nat.reducePow, Nat.reduceEqDiff, if_false, if_true] at *
  · omega
  all_goals
    split
    · refine ⟨by omega, by omega, by omega⟩
    · refine ⟨by omega, by omega, by omega⟩

/-! ### the exponent section in the mode the encoder actually used -/

theorem readExps_enc (mode : Nat) (hm : mode ≤ 2) (fs : List Bool) (es : List Int)
    (hn : nClear fs = es.length) (hb : ∀ e ∈ es, -1022 ≤ e ∧ e ≤ 1024) (rest : List Nat) :
    readExps (effectiveMode mode es) fs (encExps (effectiveMode mode es) es ++ rest) = some (es, rest) := by
  have hb16 : ∀ e ∈ es, -32768 ≤ e ∧ e < 32768 := fun e he => by have := hb e he; omega
  have hb11 : ∀ e ∈ es, -1100 ≤ e ∧ e ≤ 1100 := fun e he => by have := hb e he; omega
  have h0 : readExps 0 fs (encExps 0 es ++ rest) = some (es, rest) := by
    unfold readExps; rw [if_pos rfl]
    exact readIndep_enc fs es hn hb16 rest
  by_cases hm1 : mode = 1
  · subst hm1
    by_cases hbig : es ≠ [] ∧ maxInt es - minInt es > 255
    · have : effectiveMode 1 es = 0 := by unfold effectiveMode; rw [if_pos ⟨rfl, hbig⟩]
      rw [this]; exact h0
    · have : effectiveMode 1 es = 1 := by
        unfold effectiveMode; rw [if_neg (fun h => hbig h.2)]
      rw [this]
      unfold readExps
      rw [if_neg (by decide), if_pos rfl]
      cases es with
      | nil =>
        have : fs.all id = true := (all_id_iff fs).2 (by simpa using hn)
        rw [if_pos this]; rfl
      | cons e0 es =>
        have hnall : ¬ fs.all id = true := by
          intro h; have := (all_id_iff fs).1 h; rw [this] at hn; simp at hn
        rw [if_neg hnall]
        have hspread : maxInt (e0 :: es) - minInt (e0 :: es) ≤ 255 := by
          apply Int.not_lt.1
          intro h; exact hbig ⟨by simp, h⟩
        have hmin := minInt_le (e0 :: es)
        have hmax := le_maxInt (e0 :: es)
        have h00 := hb e0 (by simp)
        have hmin0 := hmin e0 (by simp)
        have hmax0 := hmax e0 (by simp)
        show (match Delta.getField ((field (zzInt (minInt (e0 :: es))) ++
            (e0 :: es).map (fun e => (e - minInt (e0 :: es)).toNat % 256)) ++ rest) with
          | none => none
          | some (z, r) => readCommon (expOfZz z) fs r) = _
        rw [List.append_assoc, getField_ffield _ (zzInt_lt _ (by omega) (by omega))]
        simp only []
        rw [expOfZz_zzInt _ (by omega) (by omega)]
        apply readCommon_enc _ fs _ hn
        intro e he
        have := hb e he; have := hmin e he; have := hmax e he
        omega
  · have heff : effectiveMode mode es = mode := by
      unfold effectiveMode; rw [if_neg (fun h => hm1 h.1)]
    rw [heff]
    by_cases hm0 : mode = 0
    · subst hm0; exact h0
    · have : mode = 2 := by omega
      subst this
      unfold readExps
      rw [if_neg (by decide), if_neg (by decide)]
      exact readDelta_none fs es hn hb11 rest

/-! ### assembly -/

def expsOf (mb : Nat) (ds : List Nat) : List Int :=
  ((ds.filter fun b => !isSpecial b).map (reduce mb)).map (·.1)
def mantsOf (mb : Nat) (ds : List Nat) : List Nat :=
  ((ds.filter fun b => !isSpecial b).map (reduce mb)).map (·.2)

theorem expsOf_cons (mb d : Nat) (ds : List Nat) :
    expsOf mb (d :: ds) = if isSpecial d then expsOf mb ds else (reduce mb d).1 :: expsOf mb ds := by
  unfold expsOf
  cases h : isSpecial d <;> simp [h]

theorem mantsOf_cons (mb d : Nat) (ds : List Nat) :
    mantsOf mb (d :: ds) = if isSpecial d then mantsOf mb ds else (reduce mb d).2 :: mantsOf mb ds := by
  unfold mantsOf
  cases h : isSpecial d <;> simp [h]

theorem expsOf_length (mb : Nat) (ds : List Nat) : (expsOf mb ds).length = nClear (ds.map isSpecial) := by
  induction ds with
  | nil => rfl
  | cons d ds ih =>
    rw [expsOf_cons, List.map_cons]
    cases h : isSpecial d
    · rw [nClear_cons_false]; simp [ih]
    · rw [nClear_cons_true]; simp [ih]

theorem mantsOf_length (mb : Nat) (ds : List Nat) : (mantsOf mb ds).length = nClear (ds.map isSpecial) := by
  induction ds with
  | nil => rfl
  | cons d ds ih =>
    rw [mantsOf_cons, List.map_cons]
    cases h : isSpecial d
    · rw [nClear_cons_false]; simp [ih]
    · rw [nClear_cons_true]; simp [ih]

theorem specials_length (ds : List Nat) : (ds.filter isSpecial).length = nSet (ds.map isSpecial) := by
  induction ds with
  | nil => rfl
  | cons d ds ih =>
    rw [List.map_cons, List.filter_cons]
    cases h : isSpecial d
    · rw [nSet_cons_false]; simp [ih]
    · rw [nSet_cons_true]; simp [ih]

theorem expsOf_bounds (mb : Nat) (hmb : mb = 52 ∨ mb = 23 ∨ mb = 10 ∨ mb = 4) (ds : List Nat) :
    ∀ e ∈ expsOf mb ds, -1022 ≤ e ∧ e ≤ 1024 := by
  induction ds with
  | nil => simp [expsOf]
  | cons d ds ih =>
    rw [expsOf_cons]
    cases h : isSpecial d
    · have := reduce_bounds mb hmb d h
      intro e he
      simp only [Bool.false_eq_true, if_false, List.mem_cons] at he
      rcases he with rfl | he
      · omega
      · exact ih e he
    · simpa using ih

theorem mantsOf_bounds (mb : Nat) (hmb : mb = 52 ∨ mb = 23 ∨ mb = 10 ∨ mb = 4) (ds : List Nat) :
    ∀ t ∈ mantsOf mb ds, t < 2 ^ mb := by
  induction ds with
  | nil => simp [mantsOf]
  | cons d ds ih =>
    rw [mantsOf_cons]
    cases h : isSpecial d
    · have := reduce_bounds mb hmb d h
      intro e he
      simp only [Bool.false_eq_true, if_false, List.mem_cons] at he
      rcases he with rfl | he
      · omega
      · exact ih e he
    · simpa using ih

theorem signOf_lt (b : Nat) : signOf b < 2 := by unfold signOf; omega

theorem assemble_false (mb : Nat) (fs : List Bool) (s : Bool) (ss : List Bool) (e : Int) (es : List Int)
    (m : Nat) (ms sps : List Nat) :
    assemble mb (false :: fs) (s :: ss) (e :: es) (m :: ms) sps =
      compose mb (if s then 1 else 0) e m :: assemble mb fs ss es ms sps := rfl

theorem assemble_true (mb : Nat) (fs : List Bool) (s : Bool) (ss : List Bool) (es : List Int)
    (ms : List Nat) (v : Nat) (sps : List Nat) :
    assemble mb (true :: fs) (s :: ss) es ms (v :: sps) = v :: assemble mb fs ss es ms sps := rfl

theorem assemble_enc (p : Nat) (ds : List Nat) :
    assemble (mantBits p) (ds.map isSpecial) (ds.map fun b => decide (signOf b = 1))
      (expsOf (mantBits p) ds) (mantsOf (mantBits p) ds) (ds.filter isSpecial) =
    ds.map (roundTripOne p) := by
  induction ds with
  | nil => rfl
  | cons d ds ih =>
    rw [expsOf_cons, mantsOf_cons, List.filter_cons, List.map_cons, List.map_cons, List.map_cons]
    cases h : isSpecial d
    · simp only [Bool.false_eq_true, if_false]
      rw [assemble_false, ih]
      have hs : (if decide (signOf d = 1) = true then 1 else 0) = signOf d := by
        have := signOf_lt d
        by_cases h1 : signOf d = 1
        · simp [h1]
        · simp [h1]; omega
      rw [hs]
      simp only [roundTripOne, h, Bool.false_eq_true, if_false]
    · simp only [if_true]
      rw [assemble_true, ih]
      simp only [roundTripOne, h, if_true]

/-! ### the encoder's layout -/

theorem enc_eq (p mode : Nat) (ds : List Nat) (hne : ds ≠ []) :
    enc p mode ds =
      p :: expBits p :: mantBits p :: effectiveMode mode (expsOf (mantBits p) ds) ::
        (packLsb (ds.map isSpecial) ++ (packLsb (ds.map fun b => decide (signOf b = 1)) ++
          (encExps (effectiveMode mode (expsOf (mantBits p) ds)) (expsOf (mantBits p) ds) ++
            (packLsb ((mantsOf (mantBits p) ds).flatMap (lsb (mantBits p))) ++
              (ds.filter isSpecial).flatMap (leBytes 8))))) := by
  unfold enc
  rw [if_neg hne]
  simp only [expsOf, mantsOf, List.flatMap_map, List.append_assoc, List.cons_append, List.nil_append]

theorem flatMap_lsb_length (n : Nat) (vals : List Nat) : (vals.flatMap (lsb n)).length = vals.length * n := by
  induction vals with
  | nil => simp
  | cons v vs ih => simp [List.flatMap_cons, lsb_length, ih, Nat.add_mul, Nat.add_comm]

theorem map_mod_of_lt (n : Nat) (vals : List Nat) (h : ∀ t ∈ vals, t < 2 ^ n) : vals.map (· % 2 ^ n) = vals := by
  induction vals with
  | nil => rfl
  | cons v vs ih =>
    rw [List.map_cons, Nat.mod_eq_of_lt (h v (by simp)), ih (fun t ht => h t (by simp [ht]))]

/-- layers (i), (iii), (iv): the decoder on any buffer with the encoder's layout, for an arbitrary
    exponent section that `readExps` reads back -/
theorem decFull_layout (pr eb mb mode : Nat) (flags signs : List Bool) (expB : List Nat) (exps : List Int)
    (mants sps rest : List Nat)
    (hcount : flags.length ≠ 0) (hlen : flags.length * 8 < 2 ^ 64) (hs : signs.length = flags.length)
    (hexp : ∀ r, readExps mode flags (expB ++ r) = some (exps, r))
    (hmb : mb ≤ 64) (hml : mants.length = nClear flags) (hmlt : ∀ t ∈ mants, t < 2 ^ mb)
    (hsl : nSet flags = sps.length) (hsp : ∀ v ∈ sps, v < 2 ^ 64) :
    decFull (pr :: eb :: mb :: mode :: (packLsb flags ++ (packLsb signs ++ (expB ++
      (packLsb (mants.flatMap (lsb mb)) ++ (sps.flatMap (leBytes 8) ++ rest)))))) flags.length =
    some (assemble mb flags signs exps mants sps, rest) := by
  have hml' : (flags.filter (! ·)).length = mants.length := hml.symm
  unfold decFull
  rw [if_neg hcount]
  simp only []
  rw [if_neg (by omega)]
  obtain ⟨f1, f2, f3⟩ := take_bitsOf_packLsb flags (packLsb signs ++ (expB ++
      (packLsb (mants.flatMap (lsb mb)) ++ (sps.flatMap (leBytes 8) ++ rest))))
  rw [f1]
  simp only []
  rw [f2, f3]
  obtain ⟨g1, g2, g3⟩ := take_bitsOf_packLsb signs (expB ++
      (packLsb (mants.flatMap (lsb mb)) ++ (sps.flatMap (leBytes 8) ++ rest)))
  rw [hs] at g1 g2 g3
  rw [g1]
  simp only []
  rw [g2, g3, hexp]
  simp only []
  rw [if_neg (by omega), hml']
  obtain ⟨m1, m2, _⟩ := take_bitsOf_packLsb (mants.flatMap (lsb mb)) (sps.flatMap (leBytes 8) ++ rest)
  rw [flatMap_lsb_length] at m1 m2
  rw [m1]
  simp only []
  rw [m2, readSpecials_enc flags sps hsl hsp rest]
  simp only []
  obtain ⟨⟨pad, hpad⟩, _⟩ := bitsOf_packLsb (mants.flatMap (lsb mb))
  rw [hpad, unpackBits_flatMap, map_mod_of_lt mb mants hmlt]

/-! ### main theorem -/

/-- `varintFloatDecode` on the output of `varintFloatEncode` (followed by anything) yields every
    value's `roundTripOne` in the original order and consumes exactly the encoder's bytes.
    `ds.length < 2^61` is the C's own `size_mul_overflow(count, 8)` refusal. -/
theorem decFull_enc (p mode : Nat) (hm : mode ≤ 2) (ds : List Nat) (hne : ds ≠ [])
    (hd : ∀ d ∈ ds, d < 2 ^ 64) (hlen : ds.length < 2 ^ 61) (rest : List Nat) :
    decFull (enc p mode ds ++ rest) ds.length = some (ds.map (roundTripOne p), rest) := by
  have hmb := mantBits_cases p
  have hc : (ds.map isSpecial).length ≠ 0 := by
    rw [List.length_map]; intro h; exact hne (List.length_eq_zero_iff.1 h)
  have hexpb := expsOf_bounds (mantBits p) hmb ds
  have key := decFull_layout p (expBits p) (mantBits p) (effectiveMode mode (expsOf (mantBits p) ds))
    (ds.map isSpecial) (ds.map fun b => decide (signOf b = 1))
    (encExps (effectiveMode mode (expsOf (mantBits p) ds)) (expsOf (mantBits p) ds))
    (expsOf (mantBits p) ds) (mantsOf (mantBits p) ds) (ds.filter isSpecial) rest hc
    (by rw [List.length_map]; omega) (by simp)
    (fun r => readExps_enc mode hm _ _ (expsOf_length _ ds).symm hexpb r)
    (by rcases hmb with h | h | h | h <;> omega) (mantsOf_length _ ds)
    (mantsOf_bounds _ hmb ds) (specials_length ds).symm
    (fun v hv => hd v (List.mem_filter.1 hv).1)
  rw [List.length_map, assemble_enc] at key
  rw [enc_eq p mode ds hne]
  simp only [List.cons_append, List.append_assoc]
  exact key

/-- the requested statement (with the count bound the C imposes on itself; `p ≤ 3` is not needed:
    any other precision byte behaves like FULL in `mantBits`) -/
theorem dec_enc (p mode : Nat) (hp : p ≤ 3) (hm : mode ≤ 2) (ds : List Nat) (hne : ds ≠ [])
    (hd : ∀ d ∈ ds, d < 2 ^ 64) (hlen : ds.length < 2 ^ 61) (rest : List Nat) :
    dec (enc p mode ds ++ rest) ds.length = some (ds.map (roundTripOne p)) := by
  have _ := hp
  unfold dec
  rw [decFull_enc p mode hm ds hne hd hlen rest]
  rfl

/-- at 2^61 values and beyond the C decoder refuses (`size_mul_overflow`), so the bound is needed -/
theorem dec_refuses_huge (bs : List Nat) (count : Nat) (h : 2 ^ 61 ≤ count) : dec bs count = none := by
  unfold dec decFull
  rw [if_neg (by omega)]
  split
  · rw [if_pos (by omega)]; rfl
  · rfl

/-! ### size bound -/

theorem ffield_length_le3 (u : Nat) (hu : u < 65536) : (field u).length ≤ 3 := by
  have := extLen_le_of_lt (v := u) (k := 2) (by omega) (by simpa using hu)
  simp only [field, List.length_cons, leBytes_length]
  omega

theorem zzInt_lt16 (e : Int) (h1 : -32768 ≤ e) (h2 : e < 32768) : zzInt e < 65536 := by
  unfold zzInt; split <;> omega

theorem deltaExps_length_le (pe : Int) (hpe : -1100 ≤ pe ∧ pe ≤ 1100) (es : List Int)
    (hb : ∀ e ∈ es, -1100 ≤ e ∧ e ≤ 1100) : (deltaExps pe es).length ≤ 3 * es.length := by
  induction es generalizing pe with
  | nil => simp [deltaExps]
  | cons e es ih =>
    have he := hb e (by simp)
    have h1 := ffield_length_le3 _ (zzInt_lt16 (e - pe) (by omega) (by omega))
    have h2 := ih e he (fun x hx => hb x (by simp [hx]))
    simp only [deltaExps, List.length_append, List.length_cons]
    omega

theorem indepExps_length_le (es : List Int) (hb : ∀ e ∈ es, -1100 ≤ e ∧ e ≤ 1100) :
    (es.flatMap fun e => field (zzInt e)).length ≤ 3 * es.length := by
  induction es with
  | nil => simp
  | cons e es ih =>
    have he := hb e (by simp)
    have h1 := ffield_length_le3 _ (zzInt_lt16 e (by omega) (by omega))
    have h2 := ih (fun x hx => hb x (by simp [hx]))
    simp only [List.flatMap_cons, List.length_append, List.length_cons]
    omega

theorem encExps_length_le (m : Nat) (es : List Int) (hb : ∀ e ∈ es, -1022 ≤ e ∧ e ≤ 1024) :
    (encExps m es).length ≤ 4 * es.length := by
  have hb11 : ∀ e ∈ es, -1100 ≤ e ∧ e ≤ 1100 := fun e he => by have := hb e he; omega
  unfold encExps
  split
  · have := indepExps_length_le es hb11; omega
  · split
    · simp
    · rename_i hne
      have hpos : 1 ≤ es.length := by
        cases es with
        | nil => exact absurd rfl (hne)
        | cons _ _ => simp
      cases es with
      | nil => simp at hpos
      | cons e0 es =>
        have h0 := hb e0 (by simp)
        have hmin := minInt_le (e0 :: es) e0 (by simp)
        -- the minimum is one of the exponents' lower bounds: use a crude bound through zzInt's range
        have hlow : -1022 ≤ minInt (e0 :: es) := by
          obtain ⟨_, _⟩ := foldl_min_le es e0
          have : ∀ (xs : List Int) (a : Int), -1022 ≤ a → (∀ x ∈ xs, -1022 ≤ x) → -1022 ≤ xs.foldl min a := by
            intro xs
            induction xs with
            | nil => intro a ha _; simpa using ha
            | cons y ys ih =>
              intro a ha hall
              simp only [List.foldl_cons]
              have hy := hall y (by simp)
              exact ih (min a y) (by omega) (fun x hx => hall x (by simp [hx]))
          exact this es e0 h0.1 (fun x hx => (hb x (by simp [hx])).1)
        have h1 := ffield_length_le3 _ (zzInt_lt16 (minInt (e0 :: es)) (by omega) (by omega))
        simp only [List.length_append, List.length_map, List.length_cons] at h1 ⊢
        omega
  · split
    · simp
    · rename_i e0 es'
      have h0 := hb11 e0 (by simp)
      have h1 := ffield_length_le3 _ (zzInt_lt16 e0 (by omega) (by omega))
      have h2 := deltaExps_length_le e0 h0 es' (fun x hx => hb11 x (by simp [hx]))
      simp only [List.length_append, List.length_cons] at h1 ⊢
      omega

theorem nClear_add_nSet (fs : List Bool) : nClear fs + nSet fs = fs.length := by
  induction fs with
  | nil => rfl
  | cons f fs ih =>
    cases f
    · rw [nClear_cons_false, nSet_cons_false, List.length_cons]; omega
    · rw [nClear_cons_true, nSet_cons_true, List.length_cons]; omega

theorem flatMap_leBytes8_length (vs : List Nat) : (vs.flatMap (leBytes 8)).length = 8 * vs.length := by
  induction vs with
  | nil => simp
  | cons v vs ih => simp only [List.flatMap_cons, List.length_append, leBytes_length, ih, List.length_cons]; omega

/-- `varintFloatMaxEncodedSize` really bounds the encoder's output -/
theorem enc_length_le (p mode : Nat) (ds : List Nat) : (enc p mode ds).length ≤ maxSize ds.length p := by
  by_cases hne : ds = []
  · subst hne; simp [enc, maxSize]
  · have hmb := mantBits_cases p
    have hc : ds.length ≠ 0 := fun h => hne (List.length_eq_zero_iff.1 h)
    have hE := encExps_length_le (effectiveMode mode (expsOf (mantBits p) ds)) (expsOf (mantBits p) ds)
      (expsOf_bounds (mantBits p) hmb ds)
    have hsum := nClear_add_nSet (ds.map isSpecial)
    rw [List.length_map] at hsum
    rw [enc_eq p mode ds hne]
    unfold maxSize
    rw [if_neg hc]
    simp only [List.length_cons, List.length_append, (bitsOf_packLsb _).2, List.length_map,
      flatMap_lsb_length, flatMap_leBytes8_length, mantsOf_length, specials_length]
    rw [expsOf_length] at hE
    generalize nClear (ds.map isSpecial) = nn at *
    generalize nSet (ds.map isSpecial) = ns at *
    generalize (encExps _ _).length = le at *
    rcases hmb with h | h | h | h <;> rw [h] <;> omega

/-! ### non-vacuity: a mixed array (1.0, -0, NaN with payload, subnormal, a value whose rounding
    carries, -pi, the largest double (rounds to infinity), the smallest normal, -inf); in COMMON mode
    the exponent spread exceeds 255, so the encoder falls back to INDEPENDENT -/
def mixedSample : List Nat := [0x3FF0000000000000, 0x8000000000000000, 0x7FF8000000000001, 1, 0x3FFFFFFFFFFF2108,
  0xC00921FB54442D18, 0x7FEFFFFFFFFFFFFF, 0x0010000000000000, 0xFFF0000000000000]
example : (enc 1 1 mixedSample).take 4 = [1, 8, 23, 0] := by decide
example : dec (enc 1 1 mixedSample) mixedSample.length = some (mixedSample.map (roundTripOne 1)) := by decide
example : dec (enc 3 2 mixedSample) mixedSample.length = some (mixedSample.map (roundTripOne 3)) := by decide
example : dec (enc 0 0 mixedSample) mixedSample.length = some mixedSample := by decide
example : (enc 2 1 [0x3FF0000000000000, 0, 0x4059000000000000]).take 4 = [2, 8, 10, 1] := by decide
example : dec (enc 2 1 [0x3FF0000000000000, 0, 0x4059000000000000]) 3 =
    some [0x3FF0000000000000, 0, 0x4059000000000000] := by decide

end Varint.Float
