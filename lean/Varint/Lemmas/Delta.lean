import Varint.Model.Delta
import Varint.Lemmas.Bytes
/- Lemmas about the delta codec model. -/
namespace Varint.Delta

theorem zz_lt (x : Nat) (hx : x < 2 ^ 64) : zz x < 2 ^ 64 := by
  unfold zz; split <;> omega

theorem unzz_zz (x : Nat) (hx : x < 2 ^ 64) : unzz (zz x) = x := by
  unfold unzz zz
  split <;> split <;> omega

theorem unzz_lt (z : Nat) (hz : z < 2 ^ 64) : unzz z < 2 ^ 64 := by
  unfold unzz; split <;> omega

theorem field_length (u : Nat) : (field u).length = 1 + extLen u := by
  simp [field]; omega

theorem field_le (u : Nat) (hu : u < 2 ^ 64) : (field u).length ≤ 9 := by
  rw [field_length]; have := extLen_le_8 hu; omega

theorem getField_field (u : Nat) (hu : u < 2 ^ 64) (rest : List Nat) :
    getField (field u ++ rest) = some (u, rest) := by
  have h1 := extLen_pos u
  have h8 := extLen_le_8 hu
  unfold getField field
  simp only [List.cons_append]
  rw [if_pos ⟨h1, h8⟩, takeExact_append _ _ (leBytes_length _ _)]
  simp only [ofLe_leBytes_of_lt (lt_pow_extLen u)]
  congr 2
  rw [List.drop_left' (leBytes_length _ _)]

theorem sub64_lt (x p : Nat) : sub64 x p < 2 ^ 64 := by
  unfold sub64; exact Nat.mod_lt _ (by decide)

theorem add_sub64 (x p : Nat) (hx : x < 2 ^ 64) (hp : p < 2 ^ 64) : (p + sub64 x p) % 2 ^ 64 = x := by
  unfold sub64; omega

theorem decDeltas_step (n cur z : Nat) (hz : z < 2 ^ 64) (rest : List Nat) :
    decDeltas (n + 1) cur (field z ++ rest) =
      match decDeltas n ((cur + unzz z) % 2 ^ 64) rest with
      | none => none
      | some (vs, r) => some ((cur + unzz z) % 2 ^ 64 :: vs, r) := by
  rw [decDeltas, getField_field z hz]
  rfl

theorem decDeltas_deltas (xs : List Nat) (prev : Nat) (hp : prev < 2 ^ 64) (hx : ∀ x ∈ xs, x < 2 ^ 64)
    (rest : List Nat) : decDeltas xs.length prev (deltas prev xs ++ rest) = some (xs, rest) := by
  induction xs generalizing prev with
  | nil => rfl
  | cons x xs ih =>
    have hx0 : x < 2 ^ 64 := hx x (by simp)
    have hs := sub64_lt x prev
    rw [deltas, put, List.length_cons, List.append_assoc, decDeltas_step _ _ _ (zz_lt _ hs),
      unzz_zz _ hs, add_sub64 x prev hx0 hp, ih x hx0 (fun y hy => hx y (by simp [hy]))]

theorem decU_encU (xs : List Nat) (hx : ∀ x ∈ xs, x < 2 ^ 64) (rest : List Nat) :
    decU xs.length (encU xs ++ rest) = some (xs, (encU xs).length) := by
  cases xs with
  | nil => rfl
  | cons b xs =>
    have hb : b < 2 ^ 64 := hx b (by simp)
    rw [encU, List.length_cons, decU, List.append_assoc, getField_field b hb]
    simp only []
    rw [decDeltas_deltas xs b hb (fun y hy => hx y (by simp [hy]))]
    simp only [List.length_append]
    congr 2
    omega

theorem decS_encS (xs : List Nat) (hx : ∀ x ∈ xs, x < 2 ^ 64) (rest : List Nat) :
    decS xs.length (encS xs ++ rest) = some (xs, (encS xs).length) := by
  cases xs with
  | nil => rfl
  | cons b xs =>
    have hb : b < 2 ^ 64 := hx b (by simp)
    rw [encS, List.length_cons, decS, List.append_assoc, getField_field (zz b) (zz_lt b hb)]
    simp only []
    rw [unzz_zz b hb, decDeltas_deltas xs b hb (fun y hy => hx y (by simp [hy]))]
    simp only [List.length_append]
    congr 2
    omega

theorem deltas_length_le (xs : List Nat) (prev : Nat) : (deltas prev xs).length ≤ 9 * xs.length := by
  induction xs generalizing prev with
  | nil => simp [deltas]
  | cons x xs ih =>
    simp only [deltas, put, List.length_append, List.length_cons]
    have := field_le _ (zz_lt _ (sub64_lt x prev))
    have := ih x
    omega

theorem encU_length_le (xs : List Nat) (hx : ∀ x ∈ xs, x < 2 ^ 64) : (encU xs).length ≤ maxSize xs.length := by
  cases xs with
  | nil => simp [encU, maxSize]
  | cons b xs =>
    have := field_le b (hx b (by simp))
    have := deltas_length_le xs b
    simp only [encU, maxSize, List.length_append, List.length_cons]
    rw [if_neg (by omega)]
    omega

theorem encS_length_le (xs : List Nat) (hx : ∀ x ∈ xs, x < 2 ^ 64) : (encS xs).length ≤ maxSize xs.length := by
  cases xs with
  | nil => simp [encS, maxSize]
  | cons b xs =>
    have := field_le (zz b) (zz_lt b (hx b (by simp)))
    have := deltas_length_le xs b
    simp only [encS, maxSize, List.length_append, List.length_cons]
    rw [if_neg (by omega)]
    omega

end Varint.Delta
