import Varint.Lemmas.Packed
/-
  The shifting loops of the packed-array model (Insert, InsertSorted, Delete, Member, DeleteMember)
  refine ordinary list operations on the abstraction `elems`.
-/
namespace Varint.Packed
open Varint.BF

/-- the first `n` elements of the packed array as a list -/
def elems (S b : Nat) (ws : List Nat) (n : Nat) : List Nat := (List.range n).map (get S b ws)

/-- element `j` spans at most two slots (the domain of `get`) -/
def Span (S b j : Nat) : Prop := b ≤ 2 * S - j * b % S

/-- the first `n` elements fit in the slots -/
def FitsN (S b : Nat) (ws : List Nat) (n : Nat) : Prop := ∀ i, i < n → Fits S b i ws

theorem fits_of_length {S b i : Nat} {ws ws' : List Nat} (hl : ws'.length = ws.length)
    (h : Fits S b i ws) : Fits S b i ws' := by
  unfold Fits at *; rw [hl]; exact h

theorem fitsN_of_length {S b n : Nat} {ws ws' : List Nat} (hl : ws'.length = ws.length)
    (h : FitsN S b ws n) : FitsN S b ws' n := fun i hi => fits_of_length hl (h i hi)

theorem fitsN_mono {S b n m : Nat} {ws : List Nat} (h : FitsN S b ws n) (hm : m ≤ n) :
    FitsN S b ws m := fun i hi => h i (by omega)

theorem FitsN.span {S b n : Nat} {ws : List Nat} (h : FitsN S b ws n) {j : Nat} (hj : j < n) :
    Span S b j := (h j hj).2

/-! ### single-element facts (restated from the value-level refinement) -/

theorem get_lt (S b i : Nat) (ws : List Nat) (hS : 0 < S) (hb : 1 ≤ b) (hw : WordsOK S ws)
    (hspan : Span S b i) : get S b ws i < 2 ^ b := by
  rw [get_eq S b i ws hS hb hw hspan]; exact extract_lt _ _ _

theorem get_set_self (S b i v : Nat) (ws : List Nat) (hS : 0 < S) (hb : 1 ≤ b) (hv : v < 2 ^ b)
    (hw : WordsOK S ws) (hf : Fits S b i ws) :
    get S b (set S b ws i v) i = v := by
  obtain ⟨hval, hok, _⟩ := val_set S b i v ws hS hb hv hw hf
  rw [get_eq S b i _ hS hb hok hf.2, hval, extract_insert _ _ _ _ hv]

theorem get_set_ne (S b i j v : Nat) (ws : List Nat) (hS : 0 < S) (hb : 1 ≤ b) (hv : v < 2 ^ b)
    (hw : WordsOK S ws) (hf : Fits S b i ws) (hij : i ≠ j) (hspan : Span S b j) :
    get S b (set S b ws i v) j = get S b ws j := by
  obtain ⟨hval, hok, _⟩ := val_set S b i v ws hS hb hv hw hf
  rw [get_eq S b j _ hS hb hok hspan, get_eq S b j ws hS hb hw hspan, hval]
  apply extract_insert_disjoint _ _ _ _ _ _ hv
  rcases Nat.lt_or_gt_of_ne hij with h | h
  · right
    have : (i + 1) * b ≤ j * b := Nat.mul_le_mul_right b h
    rw [Nat.succ_mul] at this; exact this
  · left
    have : (j + 1) * b ≤ i * b := Nat.mul_le_mul_right b h
    rw [Nat.succ_mul] at this; exact this

/-! ### `elems` basics -/

theorem elems_length (S b : Nat) (ws : List Nat) (n : Nat) : (elems S b ws n).length = n := by
  simp [elems]

theorem elems_getElem (S b : Nat) (ws : List Nat) (n i : Nat) (h : i < (elems S b ws n).length) :
    (elems S b ws n)[i] = get S b ws i := by
  simp [elems]

theorem mem_elems (S b : Nat) (ws : List Nat) (n v : Nat) :
    v ∈ elems S b ws n ↔ ∃ k, k < n ∧ get S b ws k = v := by
  simp [elems]

/-- a list is `elems` as soon as it agrees pointwise -/
theorem elems_eq_of (S b : Nat) (ws : List Nat) (n : Nat) (l : List Nat) (hl : l.length = n)
    (h : ∀ i (hi : i < l.length), get S b ws i = l[i]) : elems S b ws n = l := by
  apply List.ext_getElem
  · rw [elems_length, hl]
  · intro i h1 h2
    rw [elems_getElem, h i h2]

theorem elems_congr (S b : Nat) (ws ws' : List Nat) (n : Nat)
    (h : ∀ i, i < n → get S b ws' i = get S b ws i) : elems S b ws' n = elems S b ws n := by
  apply elems_eq_of
  · exact elems_length _ _ _ _
  · intro i hi
    rw [elems_getElem]
    exact h i (by rw [elems_length] at hi; exact hi)

theorem sorted_elems_iff (S b : Nat) (ws : List Nat) (n : Nat) :
    (elems S b ws n).Pairwise (· ≤ ·) ↔
      ∀ k k', k ≤ k' → k' < n → get S b ws k ≤ get S b ws k' := by
  rw [List.pairwise_iff_getElem]
  constructor
  · intro h k k' hkk hk'
    rcases Nat.lt_or_eq_of_le hkk with hlt | heq
    · have := h k k' (by rw [elems_length]; omega) (by rw [elems_length]; omega) hlt
      rw [elems_getElem, elems_getElem] at this
      exact this
    · subst heq; exact Nat.le_refl _
  · intro h i j hi hj hij
    rw [elems_getElem, elems_getElem]
    rw [elems_length] at hj
    exact h i j (by omega) hj

/-! ### the shifting loops -/

/-- `shiftUp k ws off`: positions `off+1 … off+k` receive the old `off … off+k-1`; nothing else moves -/
theorem shiftUp_spec (S b : Nat) (hS : 0 < S) (hb : 1 ≤ b) (k : Nat) (ws : List Nat) (off : Nat)
    (hw : WordsOK S ws) (hf : FitsN S b ws (off + k + 1)) :
    (shiftUp S b k ws off).length = ws.length ∧ WordsOK S (shiftUp S b k ws off) ∧
    ∀ j, Span S b j → get S b (shiftUp S b k ws off) j =
      if off < j ∧ j ≤ off + k then get S b ws (j - 1) else get S b ws j := by
  induction k generalizing ws with
  | zero =>
    refine ⟨rfl, hw, ?_⟩
    intro j _
    have : ¬ (off < j ∧ j ≤ off + 0) := by omega
    rw [if_neg this]; rfl
  | succ k ih =>
    have hsp : Span S b (off + k) := hf.span (by omega)
    have hv : get S b ws (off + k) < 2 ^ b := get_lt S b _ ws hS hb hw hsp
    have hfit : Fits S b (off + k + 1) ws := hf _ (by omega)
    obtain ⟨_, hok1, hlen1⟩ := val_set S b (off + k + 1) _ ws hS hb hv hw hfit
    have hf1 : FitsN S b (set S b ws (off + k + 1) (get S b ws (off + k))) (off + k + 1) :=
      fitsN_of_length hlen1 (fitsN_mono hf (by omega))
    obtain ⟨hl, hok, hget⟩ := ih _ hok1 hf1
    show (shiftUp S b k (set S b ws (off + k + 1) (get S b ws (off + k))) off).length = ws.length ∧
      WordsOK S (shiftUp S b k (set S b ws (off + k + 1) (get S b ws (off + k))) off) ∧
      ∀ j, Span S b j → get S b (shiftUp S b k (set S b ws (off + k + 1) (get S b ws (off + k))) off) j =
        if off < j ∧ j ≤ off + (k + 1) then get S b ws (j - 1) else get S b ws j
    refine ⟨by rw [hl, hlen1], hok, ?_⟩
    intro j hj
    rw [hget j hj]
    by_cases h1 : off < j ∧ j ≤ off + k
    · have h2 : off < j ∧ j ≤ off + (k + 1) := by omega
      rw [if_pos h1, if_pos h2]
      exact get_set_ne S b _ _ _ ws hS hb hv hw hfit (by omega) (hf.span (by omega))
    · rw [if_neg h1]
      by_cases h3 : j = off + k + 1
      · have h2 : off < j ∧ j ≤ off + (k + 1) := by omega
        rw [if_pos h2, h3, get_set_self S b _ _ ws hS hb hv hw hfit]
        rfl
      · have h2 : ¬ (off < j ∧ j ≤ off + (k + 1)) := by omega
        rw [if_neg h2]
        exact get_set_ne S b _ _ _ ws hS hb hv hw hfit (Ne.symm h3) hj

/-- `shiftDown k ws i`: positions `i … i+k-1` receive the old `i+1 … i+k`; nothing else moves -/
theorem shiftDown_spec (S b : Nat) (hS : 0 < S) (hb : 1 ≤ b) (k : Nat) (ws : List Nat) (i : Nat)
    (hw : WordsOK S ws) (hf : FitsN S b ws (i + k + 1)) :
    (shiftDown S b k ws i).length = ws.length ∧ WordsOK S (shiftDown S b k ws i) ∧
    ∀ j, Span S b j → get S b (shiftDown S b k ws i) j =
      if i ≤ j ∧ j < i + k then get S b ws (j + 1) else get S b ws j := by
  induction k generalizing ws i with
  | zero =>
    refine ⟨rfl, hw, ?_⟩
    intro j _
    have : ¬ (i ≤ j ∧ j < i + 0) := by omega
    rw [if_neg this]; rfl
  | succ k ih =>
    have hsp : Span S b (i + 1) := hf.span (by omega)
    have hv : get S b ws (i + 1) < 2 ^ b := get_lt S b _ ws hS hb hw hsp
    have hfit : Fits S b i ws := hf _ (by omega)
    obtain ⟨_, hok1, hlen1⟩ := val_set S b i _ ws hS hb hv hw hfit
    have hf1 : FitsN S b (set S b ws i (get S b ws (i + 1))) (i + 1 + k + 1) :=
      fitsN_of_length hlen1 (fitsN_mono hf (by omega))
    obtain ⟨hl, hok, hget⟩ := ih _ (i + 1) hok1 hf1
    show (shiftDown S b k (set S b ws i (get S b ws (i + 1))) (i + 1)).length = ws.length ∧
      WordsOK S (shiftDown S b k (set S b ws i (get S b ws (i + 1))) (i + 1)) ∧
      ∀ j, Span S b j → get S b (shiftDown S b k (set S b ws i (get S b ws (i + 1))) (i + 1)) j =
        if i ≤ j ∧ j < i + (k + 1) then get S b ws (j + 1) else get S b ws j
    refine ⟨by rw [hl, hlen1], hok, ?_⟩
    intro j hj
    rw [hget j hj]
    by_cases h1 : i + 1 ≤ j ∧ j < i + 1 + k
    · have h2 : i ≤ j ∧ j < i + (k + 1) := by omega
      rw [if_pos h1, if_pos h2]
      exact get_set_ne S b _ _ _ ws hS hb hv hw hfit (by omega) (hf.span (by omega))
    · rw [if_neg h1]
      by_cases h3 : j = i
      · have h2 : i ≤ j ∧ j < i + (k + 1) := by omega
        rw [if_pos h2, h3, get_set_self S b _ _ ws hS hb hv hw hfit]
      · have h2 : ¬ (i ≤ j ∧ j < i + (k + 1)) := by omega
        rw [if_neg h2]
        exact get_set_ne S b _ _ _ ws hS hb hv hw hfit (Ne.symm h3) hj

/-! ### Insert -/

theorem insertAt_spec (S b : Nat) (hS : 0 < S) (hb : 1 ≤ b) (ws : List Nat) (len off v : Nat)
    (hoff : off ≤ len) (hw : WordsOK S ws) (hf : FitsN S b ws (len + 1)) (hv : v < 2 ^ b) :
    (insertAt S b ws len off v).length = ws.length ∧ WordsOK S (insertAt S b ws len off v) ∧
    ∀ j, Span S b j → get S b (insertAt S b ws len off v) j =
      if j = off then v else if off < j ∧ j ≤ len then get S b ws (j - 1) else get S b ws j := by
  have hf' : FitsN S b ws (off + (len - off) + 1) := by
    have : off + (len - off) + 1 = len + 1 := by omega
    rw [this]; exact hf
  obtain ⟨hl, hok, hget⟩ := shiftUp_spec S b hS hb (len - off) ws off hw hf'
  have hfit : Fits S b off (shiftUp S b (len - off) ws off) := fits_of_length hl (hf off (by omega))
  obtain ⟨_, hok2, hl2⟩ := val_set S b off v _ hS hb hv hok hfit
  unfold insertAt
  refine ⟨by rw [hl2, hl], hok2, ?_⟩
  intro j hj
  by_cases h1 : j = off
  · rw [if_pos h1, h1]
    exact get_set_self S b off v _ hS hb hv hok hfit
  · rw [if_neg h1, get_set_ne S b off j v _ hS hb hv hok hfit (Ne.symm h1) hj, hget j hj]
    by_cases h2 : off < j ∧ j ≤ len
    · have h3 : off < j ∧ j ≤ off + (len - off) := by omega
      rw [if_pos h2, if_pos h3]
    · have h3 : ¬ (off < j ∧ j ≤ off + (len - off)) := by omega
      rw [if_neg h2, if_neg h3]

/-- Insert refines list insertion at index `off` -/
theorem elems_insertAt (S b : Nat) (hS : 0 < S) (hb : 1 ≤ b) (ws : List Nat) (len off v : Nat)
    (hoff : off ≤ len) (hw : WordsOK S ws) (hf : FitsN S b ws (len + 1)) (hv : v < 2 ^ b) :
    elems S b (insertAt S b ws len off v) (len + 1) =
      (elems S b ws len).take off ++ v :: (elems S b ws len).drop off := by
  obtain ⟨_, _, hget⟩ := insertAt_spec S b hS hb ws len off v hoff hw hf hv
  apply elems_eq_of
  · simp [elems_length]; omega
  · intro i hi
    have hi' : i < len + 1 := by
      simp [elems_length] at hi; omega
    rw [hget i (hf.span hi')]
    rw [List.getElem_append]
    simp only [List.length_take, elems_length, Nat.min_eq_left hoff]
    by_cases h1 : i < off
    · have h2 : ¬ i = off := by omega
      have h3 : ¬ (off < i ∧ i ≤ len) := by omega
      rw [dif_pos h1, if_neg h2, if_neg h3, List.getElem_take, elems_getElem]
    · rw [dif_neg h1]
      by_cases h2 : i = off
      · rw [if_pos h2]
        simp [h2]
      · have h3 : off < i ∧ i ≤ len := by omega
        rw [if_neg h2, if_pos h3]
        obtain ⟨d, hd⟩ : ∃ d, i = off + (d + 1) := ⟨i - off - 1, by omega⟩
        subst hd
        have e : off + (d + 1) - off = d + 1 := by omega
        simp only [e, List.getElem_cons_succ, List.getElem_drop, elems_getElem]
        rfl

/-! ### Delete -/

theorem deleteAt_spec (S b : Nat) (hS : 0 < S) (hb : 1 ≤ b) (ws : List Nat) (len off : Nat)
    (hoff : off < len) (hw : WordsOK S ws) (hf : FitsN S b ws len) :
    (deleteAt S b ws len off).length = ws.length ∧ WordsOK S (deleteAt S b ws len off) ∧
    ∀ j, Span S b j → get S b (deleteAt S b ws len off) j =
      if off ≤ j ∧ j + 1 < len then get S b ws (j + 1) else get S b ws j := by
  have hf' : FitsN S b ws (off + (len - 1 - off) + 1) := by
    have : off + (len - 1 - off) + 1 = len := by omega
    rw [this]; exact hf
  obtain ⟨hl, hok, hget⟩ := shiftDown_spec S b hS hb (len - 1 - off) ws off hw hf'
  unfold deleteAt
  refine ⟨hl, hok, ?_⟩
  intro j hj
  rw [hget j hj]
  by_cases h2 : off ≤ j ∧ j + 1 < len
  · have h3 : off ≤ j ∧ j < off + (len - 1 - off) := by omega
    rw [if_pos h2, if_pos h3]
  · have h3 : ¬ (off ≤ j ∧ j < off + (len - 1 - off)) := by omega
    rw [if_neg h2, if_neg h3]

/-- Delete refines list erasure at index `off` -/
theorem elems_deleteAt (S b : Nat) (hS : 0 < S) (hb : 1 ≤ b) (ws : List Nat) (len off : Nat)
    (hoff : off < len) (hw : WordsOK S ws) (hf : FitsN S b ws len) :
    elems S b (deleteAt S b ws len off) (len - 1) = (elems S b ws len).eraseIdx off := by
  obtain ⟨_, _, hget⟩ := deleteAt_spec S b hS hb ws len off hoff hw hf
  have hlen : ((elems S b ws len).eraseIdx off).length = len - 1 := by
    rw [List.length_eraseIdx, elems_length, if_pos hoff]
  apply elems_eq_of _ _ _ _ _ hlen
  intro i hi
  have hi' : i < len - 1 := by rw [hlen] at hi; exact hi
  rw [hget i (hf.span (by omega)), List.getElem_eraseIdx]
  by_cases h1 : i < off
  · have h2 : ¬ (off ≤ i ∧ i + 1 < len) := by omega
    rw [dif_pos h1, if_neg h2, elems_getElem]
  · have h2 : off ≤ i ∧ i + 1 < len := by omega
    rw [dif_neg h1, if_pos h2, elems_getElem]

theorem elems_deleteAt_take_drop (S b : Nat) (hS : 0 < S) (hb : 1 ≤ b) (ws : List Nat) (len off : Nat)
    (hoff : off < len) (hw : WordsOK S ws) (hf : FitsN S b ws len) :
    elems S b (deleteAt S b ws len off) (len - 1) =
      (elems S b ws len).take off ++ (elems S b ws len).drop (off + 1) := by
  rw [elems_deleteAt S b hS hb ws len off hoff hw hf, List.eraseIdx_eq_take_drop_succ]

/-! ### lower-bound search -/

theorem bsearchAux_spec (S b : Nat) (ws : List Nat) (len v : Nat)
    (hsorted : ∀ k k', k ≤ k' → k' < len → get S b ws k ≤ get S b ws k') :
    ∀ fuel lo hi, lo ≤ hi → hi ≤ len → hi - lo < fuel →
      (∀ k, k < lo → get S b ws k < v) → (∀ k, hi ≤ k → k < len → v ≤ get S b ws k) →
      bsearchAux S b ws v fuel lo hi ≤ len ∧
      (∀ k, k < bsearchAux S b ws v fuel lo hi → get S b ws k < v) ∧
      (∀ k, bsearchAux S b ws v fuel lo hi ≤ k → k < len → v ≤ get S b ws k) := by
  intro fuel
  induction fuel with
  | zero => intro lo hi _ _ h; omega
  | succ f ih =>
    intro lo hi hle hhi hfuel hlo hup
    simp only [bsearchAux]
    by_cases hlt : lo < hi
    · rw [if_pos hlt]
      by_cases hm : get S b ws ((lo + hi) / 2) < v
      · rw [if_pos hm]
        apply ih ((lo + hi) / 2 + 1) hi (by omega) hhi (by omega)
        · intro k hk
          have hmid : (lo + hi) / 2 < len := by omega
          have := hsorted k ((lo + hi) / 2) (by omega) hmid
          omega
        · exact hup
      · rw [if_neg hm]
        apply ih lo ((lo + hi) / 2) (by omega) (by omega) (by omega) hlo
        intro k hk hkl
        have := hsorted ((lo + hi) / 2) k hk hkl
        omega
    · rw [if_neg hlt]
      have : lo = hi := by omega
      subst this
      exact ⟨hhi, hlo, hup⟩

/-- on a sorted prefix `bsearch` returns the least index whose element is ≥ v -/
theorem bsearch_spec (S b : Nat) (ws : List Nat) (len v : Nat)
    (hsorted : (elems S b ws len).Pairwise (· ≤ ·)) :
    bsearch S b ws len v ≤ len ∧
    (∀ k, k < bsearch S b ws len v → get S b ws k < v) ∧
    (∀ k, bsearch S b ws len v ≤ k → k < len → v ≤ get S b ws k) := by
  rw [sorted_elems_iff] at hsorted
  exact bsearchAux_spec S b ws len v hsorted (len + 1) 0 len (by omega) (by omega) (by omega)
    (by intro k hk; omega) (by intro k h1 h2; omega)

/-! ### InsertSorted -/

theorem elems_insertSorted (S b : Nat) (hS : 0 < S) (hb : 1 ≤ b) (ws : List Nat) (len v : Nat)
    (hw : WordsOK S ws) (hf : FitsN S b ws (len + 1)) (hv : v < 2 ^ b)
    (hsorted : (elems S b ws len).Pairwise (· ≤ ·)) :
    elems S b (insertSorted S b ws len v) (len + 1) =
      (elems S b ws len).take (bsearch S b ws len v) ++ v :: (elems S b ws len).drop (bsearch S b ws len v) :=
  elems_insertAt S b hS hb ws len _ v (bsearch_spec S b ws len v hsorted).1 hw hf hv

/-- InsertSorted keeps the array sorted and adds exactly one copy of `v` -/
theorem insertSorted_sorted_perm (S b : Nat) (hS : 0 < S) (hb : 1 ≤ b) (ws : List Nat) (len v : Nat)
    (hw : WordsOK S ws) (hf : FitsN S b ws (len + 1)) (hv : v < 2 ^ b)
    (hsorted : (elems S b ws len).Pairwise (· ≤ ·)) :
    (elems S b (insertSorted S b ws len v) (len + 1)).Pairwise (· ≤ ·) ∧
    (elems S b (insertSorted S b ws len v) (len + 1)).Perm (v :: elems S b ws len) := by
  obtain ⟨hm, hlow, hhigh⟩ := bsearch_spec S b ws len v hsorted
  rw [elems_insertSorted S b hS hb ws len v hw hf hv hsorted]
  generalize bsearch S b ws len v = m at *
  have htake : ∀ a, a ∈ (elems S b ws len).take m → a < v := by
    intro a ha
    rw [List.mem_take_iff_getElem] at ha
    obtain ⟨j, hj, rfl⟩ := ha
    rw [elems_getElem]
    exact hlow j (by omega)
  have hdrop : ∀ a, a ∈ (elems S b ws len).drop m → v ≤ a := by
    intro a ha
    rw [List.mem_drop_iff_getElem] at ha
    obtain ⟨j, hj, rfl⟩ := ha
    rw [elems_getElem]
    rw [elems_length] at hj
    exact hhigh (m + j) (by omega) (by omega)
  constructor
  · rw [List.pairwise_append, List.pairwise_cons]
    refine ⟨hsorted.sublist (List.take_sublist _ _), ⟨hdrop, hsorted.sublist (List.drop_sublist _ _)⟩, ?_⟩
    intro a ha c hc
    have h1 := htake a ha
    rcases List.mem_cons.mp hc with h | h
    · rw [h]; exact Nat.le_of_lt h1
    · have h2 := hdrop c h
      exact Nat.le_trans (Nat.le_of_lt h1) h2
  · have h := @List.perm_middle _ v ((elems S b ws len).take m) ((elems S b ws len).drop m)
    rw [List.take_append_drop] at h
    exact h

/-! ### Member -/

theorem member_eq (S b : Nat) (ws : List Nat) (len v : Nat) :
    member S b ws len v =
      if bsearch S b ws len v < len ∧ get S b ws (bsearch S b ws len v) = v
      then (bsearch S b ws len v : Int) else -1 := rfl

/-- the search condition holds exactly when `v` occurs -/
theorem member_cond_iff (S b : Nat) (ws : List Nat) (len v : Nat)
    (hsorted : (elems S b ws len).Pairwise (· ≤ ·)) :
    (bsearch S b ws len v < len ∧ get S b ws (bsearch S b ws len v) = v) ↔ v ∈ elems S b ws len := by
  obtain ⟨hm, hlow, hhigh⟩ := bsearch_spec S b ws len v hsorted
  rw [mem_elems]
  constructor
  · intro ⟨h1, h2⟩
    exact ⟨_, h1, h2⟩
  · intro ⟨k, hk, hkv⟩
    have hmk : bsearch S b ws len v ≤ k := by
      rcases Nat.lt_or_ge k (bsearch S b ws len v) with h | h
      · have := hlow k h; omega
      · exact h
    have hml : bsearch S b ws len v < len := by omega
    refine ⟨hml, ?_⟩
    have h1 := hhigh _ (Nat.le_refl _) hml
    have h2 := (sorted_elems_iff S b ws len).mp hsorted _ k hmk hk
    omega

/-- Member answers membership on a sorted array -/
theorem member_nonneg_iff (S b : Nat) (ws : List Nat) (len v : Nat)
    (hsorted : (elems S b ws len).Pairwise (· ≤ ·)) :
    member S b ws len v ≥ 0 ↔ v ∈ elems S b ws len := by
  rw [← member_cond_iff S b ws len v hsorted, member_eq]
  by_cases h : bsearch S b ws len v < len ∧ get S b ws (bsearch S b ws len v) = v
  · rw [if_pos h]
    constructor
    · intro _; exact h
    · intro _; omega
  · rw [if_neg h]
    constructor
    · intro h'; omega
    · intro h'; exact absurd h' h

/-- when Member succeeds it returns the first index holding `v` -/
theorem member_first (S b : Nat) (ws : List Nat) (len v : Nat)
    (hsorted : (elems S b ws len).Pairwise (· ≤ ·)) (h : member S b ws len v ≥ 0) :
    ∃ m : Nat, member S b ws len v = (m : Int) ∧ m < len ∧ get S b ws m = v ∧
      ∀ k, k < m → get S b ws k ≠ v := by
  obtain ⟨hm, hlow, hhigh⟩ := bsearch_spec S b ws len v hsorted
  rw [member_eq] at h ⊢
  by_cases hc : bsearch S b ws len v < len ∧ get S b ws (bsearch S b ws len v) = v
  · rw [if_pos hc]
    refine ⟨_, rfl, hc.1, hc.2, ?_⟩
    intro k hk
    have := hlow k hk
    omega
  · rw [if_neg hc] at h; omega

theorem member_neg_of_not_mem (S b : Nat) (ws : List Nat) (len v : Nat)
    (hsorted : (elems S b ws len).Pairwise (· ≤ ·)) (h : v ∉ elems S b ws len) :
    member S b ws len v = -1 := by
  rw [member_eq, if_neg]
  rw [member_cond_iff S b ws len v hsorted]; exact h

/-! ### DeleteMember -/

theorem erase_eq_eraseIdx_first (l : List Nat) (v m : Nat) (hm : l[m]? = some v)
    (hfirst : ∀ k, k < m → l[k]? ≠ some v) : l.erase v = l.eraseIdx m := by
  induction l generalizing m with
  | nil => simp at hm
  | cons a t ih =>
    cases m with
    | zero =>
      simp at hm
      simp [hm]
    | succ m =>
      have ha : a ≠ v := by
        have := hfirst 0 (by omega)
        simpa using this
      have hm' : t[m]? = some v := by simpa using hm
      have hf' : ∀ k, k < m → t[k]? ≠ some v := by
        intro k hk
        have := hfirst (k + 1) (by omega)
        simpa using this
      rw [List.erase_cons, List.eraseIdx_cons_succ, ih m hm' hf']
      have : (a == v) = false := by simpa using ha
      rw [this]; rfl

/-- DeleteMember on a present value removes its first occurrence and keeps the array sorted -/
theorem deleteMember_mem (S b : Nat) (hS : 0 < S) (hb : 1 ≤ b) (ws : List Nat) (len v : Nat)
    (hw : WordsOK S ws) (hf : FitsN S b ws len)
    (hsorted : (elems S b ws len).Pairwise (· ≤ ·)) (hmem : v ∈ elems S b ws len) :
    (deleteMember S b ws len v).2 = true ∧
    (deleteMember S b ws len v).1.length = ws.length ∧
    WordsOK S (deleteMember S b ws len v).1 ∧
    elems S b (deleteMember S b ws len v).1 (len - 1) = (elems S b ws len).erase v ∧
    (elems S b (deleteMember S b ws len v).1 (len - 1)).Pairwise (· ≤ ·) := by
  have hnn := (member_nonneg_iff S b ws len v hsorted).mpr hmem
  obtain ⟨m, hmeq, hml, hget, hfirst⟩ := member_first S b ws len v hsorted hnn
  have hdm : deleteMember S b ws len v = (deleteAt S b ws len m, true) := by
    unfold deleteMember
    simp only []
    rw [if_pos hnn, hmeq]; rfl
  obtain ⟨hl, hok, _⟩ := deleteAt_spec S b hS hb ws len m hml hw hf
  have hel : elems S b (deleteAt S b ws len m) (len - 1) = (elems S b ws len).erase v := by
    rw [elems_deleteAt S b hS hb ws len m hml hw hf]
    symm
    apply erase_eq_eraseIdx_first
    · rw [List.getElem?_eq_getElem (by rw [elems_length]; exact hml), elems_getElem, hget]
    · intro k hk
      rw [List.getElem?_eq_getElem (by rw [elems_length]; omega), elems_getElem]
      intro h
      exact hfirst k hk (Option.some.inj h)
  rw [hdm]
  refine ⟨rfl, hl, hok, hel, ?_⟩
  show (elems S b (deleteAt S b ws len m) (len - 1)).Pairwise (· ≤ ·)
  rw [hel]
  exact hsorted.sublist List.erase_sublist

/-- DeleteMember on an absent value changes nothing -/
theorem deleteMember_not_mem (S b : Nat) (ws : List Nat) (len v : Nat)
    (hsorted : (elems S b ws len).Pairwise (· ≤ ·)) (hmem : v ∉ elems S b ws len) :
    deleteMember S b ws len v = (ws, false) := by
  unfold deleteMember
  simp only []
  rw [member_neg_of_not_mem S b ws len v hsorted hmem, if_neg (by omega)]

/-! ### elements beyond the array -/

/-- Insert leaves every element above index `len` alone -/
theorem insertAt_beyond (S b : Nat) (hS : 0 < S) (hb : 1 ≤ b) (ws : List Nat) (len off v : Nat)
    (hoff : off ≤ len) (hw : WordsOK S ws) (hf : FitsN S b ws (len + 1)) (hv : v < 2 ^ b)
    (j : Nat) (hj : len < j) (hspan : Span S b j) :
    get S b (insertAt S b ws len off v) j = get S b ws j := by
  obtain ⟨_, _, hget⟩ := insertAt_spec S b hS hb ws len off v hoff hw hf hv
  rw [hget j hspan, if_neg (by omega), if_neg (by omega)]

/-- Delete leaves every element from index `len - 1` on alone (a stale copy stays at `len - 1`) -/
theorem deleteAt_beyond (S b : Nat) (hS : 0 < S) (hb : 1 ≤ b) (ws : List Nat) (len off : Nat)
    (hoff : off < len) (hw : WordsOK S ws) (hf : FitsN S b ws len)
    (j : Nat) (hj : len ≤ j + 1) (hspan : Span S b j) :
    get S b (deleteAt S b ws len off) j = get S b ws j := by
  obtain ⟨_, _, hget⟩ := deleteAt_spec S b hS hb ws len off hoff hw hf
  rw [hget j hspan, if_neg (by omega)]

/-- elements below the insertion / deletion point are untouched as well -/
theorem insertAt_below (S b : Nat) (hS : 0 < S) (hb : 1 ≤ b) (ws : List Nat) (len off v : Nat)
    (hoff : off ≤ len) (hw : WordsOK S ws) (hf : FitsN S b ws (len + 1)) (hv : v < 2 ^ b)
    (j : Nat) (hj : j < off) :
    get S b (insertAt S b ws len off v) j = get S b ws j := by
  obtain ⟨_, _, hget⟩ := insertAt_spec S b hS hb ws len off v hoff hw hf hv
  rw [hget j (hf.span (by omega)), if_neg (by omega), if_neg (by omega)]

/-! ### storage bits outside the moved range -/

theorem set_bits_outside (S b i v : Nat) (ws : List Nat) (hS : 0 < S) (hb : 1 ≤ b) (hv : v < 2 ^ b)
    (hw : WordsOK S ws) (hf : Fits S b i ws) (p : Nat) (hp : p < i * b ∨ i * b + b ≤ p) :
    (val S (set S b ws i v)).testBit p = (val S ws).testBit p := by
  obtain ⟨hval, _, _⟩ := val_set S b i v ws hS hb hv hw hf
  rw [hval, testBit_insert_outside _ _ _ _ _ hv hp]

/-- `shiftUp` writes only bits of elements `off+1 … off+k` -/
theorem shiftUp_bits_outside (S b : Nat) (hS : 0 < S) (hb : 1 ≤ b) (k : Nat) (ws : List Nat) (off : Nat)
    (hw : WordsOK S ws) (hf : FitsN S b ws (off + k + 1))
    (p : Nat) (hp : p < (off + 1) * b ∨ (off + k + 1) * b ≤ p) :
    (val S (shiftUp S b k ws off)).testBit p = (val S ws).testBit p := by
  induction k generalizing ws with
  | zero => rfl
  | succ k ih =>
    have hsp : Span S b (off + k) := hf.span (by omega)
    have hv : get S b ws (off + k) < 2 ^ b := get_lt S b _ ws hS hb hw hsp
    have hfit : Fits S b (off + k + 1) ws := hf _ (by omega)
    obtain ⟨_, hok1, hlen1⟩ := val_set S b (off + k + 1) _ ws hS hb hv hw hfit
    have hf1 : FitsN S b (set S b ws (off + k + 1) (get S b ws (off + k))) (off + k + 1) :=
      fitsN_of_length hlen1 (fitsN_mono hf (by omega))
    have hA : (off + 1) * b ≤ (off + k + 1) * b := Nat.mul_le_mul_right b (by omega)
    have hB : (off + (k + 1) + 1) * b = (off + k + 1) * b + b := by
      have : off + (k + 1) + 1 = (off + k + 1) + 1 := by omega
      rw [this, Nat.succ_mul]
    rw [hB] at hp
    show (val S (shiftUp S b k (set S b ws (off + k + 1) (get S b ws (off + k))) off)).testBit p = _
    rw [ih _ hok1 hf1 (by omega)]
    exact set_bits_outside S b _ _ ws hS hb hv hw hfit p (by omega)

/-- Insert writes only bits of elements `off … len`: everything after the `len+1` elements
    (and everything before element `off`) is unchanged -/
theorem insertAt_bits_outside (S b : Nat) (hS : 0 < S) (hb : 1 ≤ b) (ws : List Nat) (len off v : Nat)
    (hoff : off ≤ len) (hw : WordsOK S ws) (hf : FitsN S b ws (len + 1)) (hv : v < 2 ^ b)
    (p : Nat) (hp : p < off * b ∨ (len + 1) * b ≤ p) :
    (val S (insertAt S b ws len off v)).testBit p = (val S ws).testBit p := by
  have e : off + (len - off) + 1 = len + 1 := by omega
  have hf' : FitsN S b ws (off + (len - off) + 1) := by rw [e]; exact hf
  obtain ⟨hl, hok, _⟩ := shiftUp_spec S b hS hb (len - off) ws off hw hf'
  have hfit : Fits S b off (shiftUp S b (len - off) ws off) := fits_of_length hl (hf off (by omega))
  have h1 : (off + 1) * b = off * b + b := Nat.succ_mul off b
  have h2 : (off + 1) * b ≤ (len + 1) * b := Nat.mul_le_mul_right b (by omega)
  unfold insertAt
  rw [set_bits_outside S b off v _ hS hb hv hok hfit p (by omega)]
  apply shiftUp_bits_outside S b hS hb (len - off) ws off hw hf' p
  rw [e]; omega

/-- `shiftDown` writes only bits of elements `i … i+k-1` -/
theorem shiftDown_bits_outside (S b : Nat) (hS : 0 < S) (hb : 1 ≤ b) (k : Nat) (ws : List Nat) (i : Nat)
    (hw : WordsOK S ws) (hf : FitsN S b ws (i + k + 1))
    (p : Nat) (hp : p < i * b ∨ (i + k) * b ≤ p) :
    (val S (shiftDown S b k ws i)).testBit p = (val S ws).testBit p := by
  induction k generalizing ws i with
  | zero => rfl
  | succ k ih =>
    have hsp : Span S b (i + 1) := hf.span (by omega)
    have hv : get S b ws (i + 1) < 2 ^ b := get_lt S b _ ws hS hb hw hsp
    have hfit : Fits S b i ws := hf _ (by omega)
    obtain ⟨_, hok1, hlen1⟩ := val_set S b i _ ws hS hb hv hw hfit
    have hf1 : FitsN S b (set S b ws i (get S b ws (i + 1))) (i + 1 + k + 1) :=
      fitsN_of_length hlen1 (fitsN_mono hf (by omega))
    have h1 : (i + 1) * b = i * b + b := Nat.succ_mul i b
    have h2 : (i + 1) * b ≤ (i + (k + 1)) * b := Nat.mul_le_mul_right b (by omega)
    have h3 : (i + 1 + k) * b = (i + (k + 1)) * b := by
      have : i + 1 + k = i + (k + 1) := by omega
      rw [this]
    show (val S (shiftDown S b k (set S b ws i (get S b ws (i + 1))) (i + 1))).testBit p = _
    rw [ih _ (i + 1) hok1 hf1 (by omega)]
    exact set_bits_outside S b _ _ ws hS hb hv hw hfit p (by omega)

/-- Delete writes only bits of elements `off … len-2` -/
theorem deleteAt_bits_outside (S b : Nat) (hS : 0 < S) (hb : 1 ≤ b) (ws : List Nat) (len off : Nat)
    (hoff : off < len) (hw : WordsOK S ws) (hf : FitsN S b ws len)
    (p : Nat) (hp : p < off * b ∨ (len - 1) * b ≤ p) :
    (val S (deleteAt S b ws len off)).testBit p = (val S ws).testBit p := by
  have e : off + (len - 1 - off) + 1 = len := by omega
  have hf' : FitsN S b ws (off + (len - 1 - off) + 1) := by rw [e]; exact hf
  have e2 : off + (len - 1 - off) = len - 1 := by omega
  unfold deleteAt
  apply shiftDown_bits_outside S b hS hb _ ws off hw hf' p
  rw [e2]; exact hp

/-! ### a sufficient condition for `FitsN`, the `insertIdx` form, and non-vacuity -/

/-- `n` elements fit as soon as their bits lie inside the slots and each spans at most two slots -/
theorem fitsN_of_bits (S b n : Nat) (ws : List Nat) (hS : 0 < S) (hb : 1 ≤ b)
    (hbits : n * b ≤ S * ws.length) (hspan : ∀ i, i < n → Span S b i) : FitsN S b ws n := by
  intro i hi
  obtain ⟨_, hsb, heq⟩ := pos_of S b i hS
  have h1 : (i + 1) * b ≤ n * b := Nat.mul_le_mul_right b hi
  rw [Nat.succ_mul] at h1
  refine ⟨?_, hspan i hi⟩
  generalize i * b / S = j at *
  generalize i * b % S = sb at *
  by_cases hc : b ≤ S - sb
  · rw [if_pos hc]
    rcases Nat.lt_or_ge j ws.length with h | h
    · exact h
    · have h2 : ws.length * S ≤ j * S := Nat.mul_le_mul_right S h
      rw [Nat.mul_comm ws.length S] at h2
      omega
  · rw [if_neg hc]
    rcases Nat.lt_or_ge (j + 1) ws.length with h | h
    · exact h
    · have h2 : ws.length * S ≤ (j + 1) * S := Nat.mul_le_mul_right S h
      rw [Nat.mul_comm ws.length S, Nat.succ_mul] at h2
      omega

/-- with `b ≤ S` every element spans at most two slots -/
theorem fitsN_of_bits_le (S b n : Nat) (ws : List Nat) (hS : 0 < S) (hb : 1 ≤ b) (hbS : b ≤ S)
    (hbits : n * b ≤ S * ws.length) : FitsN S b ws n := by
  apply fitsN_of_bits S b n ws hS hb hbits
  intro i _
  have : i * b % S < S := Nat.mod_lt _ hS
  unfold Span; omega

theorem insertIdx_eq_take_cons_drop (l : List Nat) (n a : Nat) (hn : n ≤ l.length) :
    l.insertIdx n a = l.take n ++ a :: l.drop n := by
  induction l generalizing n with
  | nil =>
    have : n = 0 := by simpa using hn
    subst this; simp
  | cons x t ih =>
    cases n with
    | zero => simp
    | succ n =>
      have hn' : n ≤ t.length := by simpa using hn
      rw [List.insertIdx_succ_cons, ih n hn']
      simp

/-- Insert is `List.insertIdx` -/
theorem elems_insertAt_insertIdx (S b : Nat) (hS : 0 < S) (hb : 1 ≤ b) (ws : List Nat) (len off v : Nat)
    (hoff : off ≤ len) (hw : WordsOK S ws) (hf : FitsN S b ws (len + 1)) (hv : v < 2 ^ b) :
    elems S b (insertAt S b ws len off v) (len + 1) = (elems S b ws len).insertIdx off v := by
  rw [elems_insertAt S b hS hb ws len off v hoff hw hf hv,
    insertIdx_eq_take_cons_drop _ _ _ (by rw [elems_length]; exact hoff)]

/-- non-vacuity: 12-bit values in 8-bit slots (the configuration the tree instantiates), 3 sorted
    elements plus one spare in 6 slots; the sorted insert lands at index 1 and moves elements across
    slot boundaries; the stale fourth element (0xfff) is overwritten, nothing else -/
example : FitsN 8 12 [33, 225, 61, 188, 250, 255] 4 := by
  apply fitsN_of_bits 8 12 4 _ (by omega) (by omega) (by decide)
  intro i hi
  unfold Span; omega
example : WordsOK 8 [33, 225, 61, 188, 250, 255] := by unfold WordsOK; decide
example : elems 8 12 [33, 225, 61, 188, 250, 255] 3 = [0x121, 0x3de, 0xabc] := by decide
example : elems 8 12 (insertSorted 8 12 [33, 225, 61, 188, 250, 255] 3 0x200) 4 =
    [0x121, 0x200, 0x3de, 0xabc] := by decide
example : deleteMember 8 12 [33, 225, 61, 188, 250, 255] 3 0x3de = ([33, 193, 171, 188, 250, 255], true) ∧
    elems 8 12 [33, 193, 171, 188, 250, 255] 2 = [0x121, 0xabc] := by decide

end Varint.Packed
