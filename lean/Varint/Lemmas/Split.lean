import Varint.Model.Split
import Varint.Lemmas.Bytes
/- Lemmas about the four split families. -/
namespace Varint.Split

theorem decLevel_enc (k sub v q : Nat) (rest : List Nat)
    (hsub : sub ≤ v) (hq : q = (v - sub) / 256 ^ k) (hq64 : q < 64) (hv : v < 2 ^ 64) :
    decLevel k sub q (beBytes k (v - sub) ++ rest) = some (v, 1 + k) := by
  unfold decLevel
  rw [takeExact_append _ _ (beBytes_length _ _)]
  simp only [Option.map_some, ofBe_beBytes, Nat.mod_eq_of_lt hq64]
  have := Nat.div_add_mod (v - sub) (256 ^ k)
  have e : q * 256 ^ k + (v - sub) % 256 ^ k + sub = v := by
    rw [hq, Nat.mul_comm]; omega
  rw [e, Nat.mod_eq_of_lt hv]

theorem decLevel_enc' (k sub v b0 : Nat) (rest : List Nat)
    (hsub : sub ≤ v) (hb : b0 % 64 = (v - sub) / 256 ^ k) (hv : v < 2 ^ 64) :
    decLevel k sub b0 (beBytes k (v - sub) ++ rest) = some (v, 1 + k) := by
  unfold decLevel
  rw [takeExact_append _ _ (beBytes_length _ _)]
  simp only [Option.map_some, ofBe_beBytes]
  have := Nat.div_add_mod (v - sub) (256 ^ k)
  have e : b0 % 64 * 256 ^ k + (v - sub) % 256 ^ k + sub = v := by
    rw [hb, Nat.mul_comm]; omega
  rw [e, Nat.mod_eq_of_lt hv]

theorem decVar_enc (varSub w v : Nat) (rest : List Nat)
    (hsub : varSub ≤ v) (hw : v - varSub < 256 ^ w) (hv : v < 2 ^ 64) :
    decVar varSub w (leBytes w (v - varSub) ++ rest) = some (v, 1 + w) := by
  unfold decVar
  rw [takeExact_append _ _ (leBytes_length _ _)]
  simp only [Option.map_some, ofLe_leBytes_of_lt hw]
  have e : v - varSub + varSub = v := by omega
  rw [e, Nat.mod_eq_of_lt hv]

/-- width chosen by the var level -/
def varW (varSub minW v : Nat) : Nat := if extLen (v - varSub) < minW then minW else extLen (v - varSub)

theorem varW_bounds (varSub minW v : Nat) (hv : v < 2 ^ 64) (hm : 1 ≤ minW) (hm8 : minW ≤ 8) :
    minW ≤ varW varSub minW v ∧ varW varSub minW v ≤ 8 ∧ v - varSub < 256 ^ varW varSub minW v := by
  have h8 := extLen_le_8 (v := v - varSub) (by omega)
  have hlt := lt_pow_extLen (v - varSub)
  unfold varW
  split
  · refine ⟨by omega, hm8, ?_⟩
    exact Nat.lt_of_lt_of_le hlt (Nat.pow_le_pow_right (by omega) (by omega))
  · exact ⟨by omega, h8, hlt⟩

theorem encVar_eq (varTag varSub minW v : Nat) :
    encVar varTag varSub minW v = (varTag + varW varSub minW v) :: leBytes (varW varSub minW v) (v - varSub) := rfl

theorem lenVar_eq (varSub minW v : Nat) : lenVar varSub minW v = 1 + varW varSub minW v := rfl

/-! ### per-family round trips -/

theorem encLevel_eq (tag k sub v : Nat) :
    encLevel tag k sub v = (tag + (v - sub) / 256 ^ k % 64) :: beBytes k (v - sub) := rfl

theorem lvl (tag k sub v : Nat) (rest : List Nat) (hsub : sub ≤ v) (hv : v < 2 ^ 64)
    (hq : (v - sub) / 256 ^ k < 64) (htag : tag % 64 = 0) :
    decLevel k sub (tag + (v - sub) / 256 ^ k % 64) (beBytes k (v - sub) ++ rest) = some (v, 1 + k) := by
  apply decLevel_enc' k sub v _ rest hsub _ hv
  generalize (v - sub) / 256 ^ k = q at hq ⊢
  omega

theorem S.dec_lvl0 (b0 : Nat) (rest : List Nat) (hlo : 0 ≤ b0) (hhi : b0 < 64) :
    S.dec (b0 :: rest) = decLevel 0 0 b0 rest := by
  simp only [S.dec]
  repeat' split
  all_goals first | omega | rfl

theorem S.dec_lvl1 (b0 : Nat) (rest : List Nat) (hlo : 64 ≤ b0) (hhi : b0 < 128) :
    S.dec (b0 :: rest) = decLevel 1 63 b0 rest := by
  simp only [S.dec]
  repeat' split
  all_goals first | omega | rfl

theorem S.dec_var (b0 : Nat) (rest : List Nat) (hlo : 128 ≤ b0) (hhi : b0 < 192) :
    S.dec (b0 :: rest) = decVar 16446 (b0 % 64) rest := by
  simp only [S.dec]
  repeat' split
  all_goals first | omega | rfl

theorem S.dec_enc (v : Nat) (hv : v < 2 ^ 64) (rest : List Nat) :
    S.dec (S.enc v ++ rest) = some (v, (S.enc v).length) := by
  unfold S.enc
  by_cases h0 : v ≤ 63
  · rw [if_pos h0, encLevel_eq, List.cons_append, S.dec_lvl0 _ _ (by omega) (by omega),
      lvl 0 0 0 v rest (by omega) hv (by omega) (by omega), List.length_cons, beBytes_length, Nat.add_comm]
  rw [if_neg h0]
  by_cases h1 : v ≤ 16446
  · rw [if_pos h1, encLevel_eq, List.cons_append, S.dec_lvl1 _ _ (by omega) (by omega),
      lvl 64 1 63 v rest (by omega) hv (by omega) (by omega), List.length_cons, beBytes_length, Nat.add_comm]
  rw [if_neg h1]
  obtain ⟨hw1, hw8, hwlt⟩ := varW_bounds 16446 1 v hv (by omega) (by omega)
  rw [encVar_eq]
  generalize varW 16446 1 v = w at *
  have hm : (128 + w) % 64 = w := by omega
  rw [List.cons_append, S.dec_var _ _ (by omega) (by omega), hm, decVar_enc 16446 _ v rest (by omega) hwlt hv,
    List.length_cons, leBytes_length, Nat.add_comm]

theorem F.dec_lvl0 (b0 : Nat) (rest : List Nat) (hlo : 0 ≤ b0) (hhi : b0 < 64) :
    F.dec (b0 :: rest) = decLevel 0 0 b0 rest := by
  simp only [F.dec]
  repeat' split
  all_goals first | omega | rfl

theorem F.dec_lvl1 (b0 : Nat) (rest : List Nat) (hlo : 64 ≤ b0) (hhi : b0 < 128) :
    F.dec (b0 :: rest) = decLevel 1 63 b0 rest := by
  simp only [F.dec]
  repeat' split
  all_goals first | omega | rfl

theorem F.dec_lvl2 (b0 : Nat) (rest : List Nat) (hlo : 128 ≤ b0) (hhi : b0 < 192) :
    F.dec (b0 :: rest) = decLevel 2 16446 b0 rest := by
  simp only [F.dec]
  repeat' split
  all_goals first | omega | rfl

theorem F.dec_var (b0 : Nat) (rest : List Nat) (hlo : 192 ≤ b0) :
    F.dec (b0 :: rest) = decVar 4210749 (b0 % 16) rest := by
  simp only [F.dec]
  repeat' split
  all_goals first | omega | rfl

theorem F.dec_enc (v : Nat) (hv : v < 2 ^ 64) (rest : List Nat) :
    F.dec (F.enc v ++ rest) = some (v, (F.enc v).length) := by
  unfold F.enc
  by_cases h0 : v ≤ 63
  · rw [if_pos h0, encLevel_eq, List.cons_append, F.dec_lvl0 _ _ (by omega) (by omega),
      lvl 0 0 0 v rest (by omega) hv (by omega) (by omega), List.length_cons, beBytes_length, Nat.add_comm]
  rw [if_neg h0]
  by_cases h1 : v ≤ 16446
  · rw [if_pos h1, encLevel_eq, List.cons_append, F.dec_lvl1 _ _ (by omega) (by omega),
      lvl 64 1 63 v rest (by omega) hv (by omega) (by omega), List.length_cons, beBytes_length, Nat.add_comm]
  rw [if_neg h1]
  by_cases h2 : v ≤ 4210749
  · rw [if_pos h2, encLevel_eq, List.cons_append, F.dec_lvl2 _ _ (by omega) (by omega),
      lvl 128 2 16446 v rest (by omega) hv (by omega) (by omega), List.length_cons, beBytes_length, Nat.add_comm]
  rw [if_neg h2]
  obtain ⟨hw1, hw8, hwlt⟩ := varW_bounds 4210749 2 v hv (by omega) (by omega)
  rw [encVar_eq]
  generalize varW 4210749 2 v = w at *
  have hm : (192 + w) % 16 = w := by omega
  rw [List.cons_append, F.dec_var _ _ (by omega), hm, decVar_enc 4210749 _ v rest (by omega) hwlt hv,
    List.length_cons, leBytes_length, Nat.add_comm]

theorem NZ.dec_lvl0 (b0 : Nat) (rest : List Nat) (hlo : 0 ≤ b0) (hhi : b0 < 64) :
    NZ.dec (b0 :: rest) = decLevel 0 1 b0 rest := by
  simp only [NZ.dec]
  repeat' split
  all_goals first | omega | rfl

theorem NZ.dec_lvl1 (b0 : Nat) (rest : List Nat) (hlo : 64 ≤ b0) (hhi : b0 < 128) :
    NZ.dec (b0 :: rest) = decLevel 1 64 b0 rest := by
  simp only [NZ.dec]
  repeat' split
  all_goals first | omega | rfl

theorem NZ.dec_lvl2 (b0 : Nat) (rest : List Nat) (hlo : 128 ≤ b0) (hhi : b0 < 192) :
    NZ.dec (b0 :: rest) = decLevel 2 16447 b0 rest := by
  simp only [NZ.dec]
  repeat' split
  all_goals first | omega | rfl

theorem NZ.dec_var (b0 : Nat) (rest : List Nat) (hlo : 192 ≤ b0) :
    NZ.dec (b0 :: rest) = decVar 4210750 (b0 % 16) rest := by
  simp only [NZ.dec]
  repeat' split
  all_goals first | omega | rfl

theorem NZ.dec_enc (v : Nat) (hv : v < 2 ^ 64) (hz : 1 ≤ v) (rest : List Nat) :
    NZ.dec (NZ.enc v ++ rest) = some (v, (NZ.enc v).length) := by
  unfold NZ.enc
  by_cases h0 : v ≤ 64
  · rw [if_pos h0, encLevel_eq, List.cons_append, NZ.dec_lvl0 _ _ (by omega) (by omega),
      lvl 0 0 1 v rest (by omega) hv (by omega) (by omega), List.length_cons, beBytes_length, Nat.add_comm]
  rw [if_neg h0]
  by_cases h1 : v ≤ 16447
  · rw [if_pos h1, encLevel_eq, List.cons_append, NZ.dec_lvl1 _ _ (by omega) (by omega),
      lvl 64 1 64 v rest (by omega) hv (by omega) (by omega), List.length_cons, beBytes_length, Nat.add_comm]
  rw [if_neg h1]
  by_cases h2 : v ≤ 4210750
  · rw [if_pos h2, encLevel_eq, List.cons_append, NZ.dec_lvl2 _ _ (by omega) (by omega),
      lvl 128 2 16447 v rest (by omega) hv (by omega) (by omega), List.length_cons, beBytes_length, Nat.add_comm]
  rw [if_neg h2]
  obtain ⟨hw1, hw8, hwlt⟩ := varW_bounds 4210750 2 v hv (by omega) (by omega)
  rw [encVar_eq]
  generalize varW 4210750 2 v = w at *
  have hm : (192 + w) % 16 = w := by omega
  rw [List.cons_append, NZ.dec_var _ _ (by omega), hm, decVar_enc 4210750 _ v rest (by omega) hwlt hv,
    List.length_cons, leBytes_length, Nat.add_comm]

theorem S16.dec_lvl0 (b0 : Nat) (rest : List Nat) (hlo : 0 ≤ b0) (hhi : b0 < 64) :
    S16.dec (b0 :: rest) = decLevel 1 0 b0 rest := by
  simp only [S16.dec]
  repeat' split
  all_goals first | omega | rfl

theorem S16.dec_lvl1 (b0 : Nat) (rest : List Nat) (hlo : 64 ≤ b0) (hhi : b0 < 128) :
    S16.dec (b0 :: rest) = decLevel 2 16383 b0 rest := by
  simp only [S16.dec]
  repeat' split
  all_goals first | omega | rfl

theorem S16.dec_lvl2 (b0 : Nat) (rest : List Nat) (hlo : 128 ≤ b0) (hhi : b0 < 192) :
    S16.dec (b0 :: rest) = decLevel 3 4210686 b0 rest := by
  simp only [S16.dec]
  repeat' split
  all_goals first | omega | rfl

theorem S16.dec_var (b0 : Nat) (rest : List Nat) (hlo : 192 ≤ b0) :
    S16.dec (b0 :: rest) = decVar 1077952509 (b0 % 16) rest := by
  simp only [S16.dec]
  repeat' split
  all_goals first | omega | rfl

theorem S16.dec_enc (v : Nat) (hv : v < 2 ^ 64) (rest : List Nat) :
    S16.dec (S16.enc v ++ rest) = some (v, (S16.enc v).length) := by
  unfold S16.enc
  by_cases h0 : v ≤ 16383
  · rw [if_pos h0, encLevel_eq, List.cons_append, S16.dec_lvl0 _ _ (by omega) (by omega),
      lvl 0 1 0 v rest (by omega) hv (by omega) (by omega), List.length_cons, beBytes_length, Nat.add_comm]
  rw [if_neg h0]
  by_cases h1 : v ≤ 4210686
  · rw [if_pos h1, encLevel_eq, List.cons_append, S16.dec_lvl1 _ _ (by omega) (by omega),
      lvl 64 2 16383 v rest (by omega) hv (by omega) (by omega), List.length_cons, beBytes_length, Nat.add_comm]
  rw [if_neg h1]
  by_cases h2 : v ≤ 1077952509
  · rw [if_pos h2, encLevel_eq, List.cons_append, S16.dec_lvl2 _ _ (by omega) (by omega),
      lvl 128 3 4210686 v rest (by omega) hv (by omega) (by omega), List.length_cons, beBytes_length, Nat.add_comm]
  rw [if_neg h2]
  obtain ⟨hw1, hw8, hwlt⟩ := varW_bounds 1077952509 4 v hv (by omega) (by omega)
  rw [encVar_eq]
  generalize varW 1077952509 4 v = w at *
  have hm : (192 + w) % 16 = w := by omega
  rw [List.cons_append, S16.dec_var _ _ (by omega), hm, decVar_enc 1077952509 _ v rest (by omega) hwlt hv,
    List.length_cons, leBytes_length, Nat.add_comm]

/-! ### lengths, first-byte length, byte range -/

theorem encLevel_length (tag k sub v : Nat) : (encLevel tag k sub v).length = 1 + k := by
  rw [encLevel_eq, List.length_cons, beBytes_length, Nat.add_comm]

theorem encVar_length (varTag varSub minW v : Nat) : (encVar varTag varSub minW v).length = lenVar varSub minW v := by
  rw [encVar_eq, lenVar_eq, List.length_cons, leBytes_length, Nat.add_comm]

theorem encLevel_lt (tag k sub v : Nat) (ht : tag ≤ 192) : ∀ b ∈ encLevel tag k sub v, b < 256 := by
  intro b hb
  rw [encLevel_eq, List.mem_cons] at hb
  rcases hb with h | h
  · omega
  · exact beBytes_lt _ _ b h

theorem encVar_lt (varTag varSub minW v : Nat) (hv : v < 2 ^ 64) (ht : varTag ≤ 192) (hm : 1 ≤ minW) (hm8 : minW ≤ 8) :
    ∀ b ∈ encVar varTag varSub minW v, b < 256 := by
  intro b hb
  obtain ⟨_, hw8, _⟩ := varW_bounds varSub minW v hv hm hm8
  rw [encVar_eq, List.mem_cons] at hb
  rcases hb with h | h
  · omega
  · exact leBytes_lt _ _ b h

theorem leBytes_reverse (k v : Nat) : (leBytes k v).reverse = beBytes k v := by
  have hsucc : ∀ k v, beBytes (k + 1) v = beBytes k (v / 256) ++ [v % 256] := by
    intro k
    induction k with
    | zero => intro v; simp [beBytes]
    | succ k ih =>
      intro v
      rw [beBytes, ih v]
      conv => rhs; rw [beBytes]
      simp only [List.cons_append, List.cons.injEq, and_true]
      rw [Nat.div_div_eq_div_mul, Nat.pow_succ, Nat.mul_comm]
  induction k generalizing v with
  | zero => rfl
  | succ k ih => rw [leBytes, List.reverse_cons, ih, hsucc]

theorem encLevelRev_reverse (tag k sub v : Nat) : (encLevelRev tag k sub v).reverse = encLevel tag k sub v := by
  simp only [encLevelRev, encLevel, List.reverse_append, List.reverse_cons, List.reverse_nil, List.nil_append,
    List.singleton_append, leBytes_reverse]

theorem encLevelRev_length (tag k sub v : Nat) : (encLevelRev tag k sub v).length = 1 + k := by
  simp only [encLevelRev, List.length_append, leBytes_length, List.length_cons, List.length_nil]; omega

theorem encVarRev_length (varTag varSub minW v : Nat) : (encVarRev varTag varSub minW v).length = lenVar varSub minW v := by
  simp only [encVarRev, lenVar, List.length_append, leBytes_length, List.length_cons, List.length_nil]; omega

theorem decVarRev_enc (varSub w v : Nat) (rest : List Nat)
    (hsub : varSub ≤ v) (hw : v - varSub < 256 ^ w) (hv : v < 2 ^ 64) :
    decVarRev varSub w (beBytes w (v - varSub) ++ rest) = some (v, 1 + w) := by
  unfold decVarRev
  rw [takeExact_append _ _ (beBytes_length _ _)]
  simp only [Option.map_some, ofBe_beBytes_of_lt hw]
  have e : v - varSub + varSub = v := by omega
  rw [e, Nat.mod_eq_of_lt hv]

theorem encVarRev_reverse (varTag varSub minW v : Nat) :
    (encVarRev varTag varSub minW v).reverse
      = (varTag + varW varSub minW v) :: beBytes (varW varSub minW v) (v - varSub) := by
  simp only [encVarRev, varW, List.reverse_append, List.reverse_cons, List.reverse_nil, List.nil_append,
    List.singleton_append, leBytes_reverse]

theorem S.enc_length (v : Nat) : (S.enc v).length = S.len v := by
  unfold S.enc S.len
  repeat' split
  all_goals first | omega | (rw [encLevel_length]) | (rw [encVar_length])

theorem S.len_bounds (v : Nat) (hv : v < 2 ^ 64) : 1 ≤ S.len v ∧ S.len v ≤ 9 := by
  obtain ⟨hw1, hw8, _⟩ := varW_bounds 16446 1 v hv (by omega) (by omega)
  unfold S.len
  repeat' split
  all_goals first | omega | (rw [lenVar_eq]; omega)

theorem S.getLen_head (v : Nat) (hv : v < 2 ^ 64) :
    S.getLen ((S.enc v).headD 0) = S.len v ∧ S.getLenQuick ((S.enc v).headD 0) = S.len v := by
  unfold S.enc S.len
  by_cases h0 : v ≤ 63
  · rw [if_pos h0, if_pos h0, encLevel_eq, List.headD_cons]
    generalize hq : (v - 0) / 256 ^ 0 % 64 = q
    have hq64 : q < 64 := by omega
    unfold S.getLen S.getLenQuick
    constructor <;> (repeat' split) <;> omega
  rw [if_neg h0, if_neg h0]
  by_cases h1 : v ≤ 16446
  · rw [if_pos h1, if_pos h1, encLevel_eq, List.headD_cons]
    generalize hq : (v - 63) / 256 ^ 1 % 64 = q
    have hq64 : q < 64 := by omega
    unfold S.getLen S.getLenQuick
    constructor <;> (repeat' split) <;> omega
  rw [if_neg h1, if_neg h1]
  obtain ⟨hw1, hw8, _⟩ := varW_bounds 16446 1 v hv (by omega) (by omega)
  rw [encVar_eq, lenVar_eq, List.headD_cons]
  generalize varW 16446 1 v = w at *
  unfold S.getLen S.getLenQuick
  constructor <;> (repeat' split) <;> omega

theorem S.enc_lt (v : Nat) (hv : v < 2 ^ 64) : ∀ b ∈ S.enc v, b < 256 := by
  unfold S.enc
  by_cases h0 : v ≤ 63
  · rw [if_pos h0]; exact encLevel_lt 0 0 0 v (by omega)
  rw [if_neg h0]
  by_cases h1 : v ≤ 16446
  · rw [if_pos h1]; exact encLevel_lt 64 1 63 v (by omega)
  rw [if_neg h1]
  exact encVar_lt 128 16446 1 v hv (by omega) (by omega) (by omega)

theorem S.encRev_length (v : Nat) : (S.encRev v).length = S.len v := by
  unfold S.encRev S.len
  by_cases h0 : v ≤ 63
  · rw [if_pos h0, if_pos h0, encLevelRev_length]
  rw [if_neg h0, if_neg h0]
  by_cases h1 : v ≤ 16446
  · rw [if_pos h1, if_pos h1, encLevelRev_length]
  rw [if_neg h1, if_neg h1]
  rw [encVarRev_length]

theorem S.decRev_lvl0 (bs : List Nat) (b0 : Nat) (r : List Nat) (hr : bs.reverse = b0 :: r) (hlo : 0 ≤ b0) (hhi : b0 < 64) :
    S.decRev bs = decLevel 0 0 b0 r := by
  simp only [S.decRev, hr]
  repeat' split
  all_goals first | omega | rfl

theorem S.decRev_lvl1 (bs : List Nat) (b0 : Nat) (r : List Nat) (hr : bs.reverse = b0 :: r) (hlo : 64 ≤ b0) (hhi : b0 < 128) :
    S.decRev bs = decLevel 1 63 b0 r := by
  simp only [S.decRev, hr]
  repeat' split
  all_goals first | omega | rfl

theorem S.decRev_var (bs : List Nat) (b0 : Nat) (r : List Nat) (hr : bs.reverse = b0 :: r) (hlo : 128 ≤ b0) (hhi : b0 < 192) :
    S.decRev bs = decVarRev 16446 (b0 % 64) r := by
  simp only [S.decRev, hr]
  repeat' split
  all_goals first | omega | rfl

theorem S.decRev_encRev (v : Nat) (hv : v < 2 ^ 64) (pre : List Nat) :
    S.decRev (pre ++ S.encRev v) = some (v, S.len v) := by
  unfold S.encRev S.len
  by_cases h0 : v ≤ 63
  · rw [if_pos h0, if_pos h0]
    have hr : (pre ++ encLevelRev 0 0 0 v).reverse = (0 + (v - 0) / 256 ^ 0 % 64) :: (beBytes 0 (v - 0) ++ pre.reverse) := by
      rw [List.reverse_append, encLevelRev_reverse, encLevel_eq, List.cons_append]
    rw [S.decRev_lvl0 _ _ _ hr (by omega) (by omega), lvl 0 0 0 v _ (by omega) hv (by omega) (by omega)]
  rw [if_neg h0, if_neg h0]
  by_cases h1 : v ≤ 16446
  · rw [if_pos h1, if_pos h1]
    have hr : (pre ++ encLevelRev 64 1 63 v).reverse = (64 + (v - 63) / 256 ^ 1 % 64) :: (beBytes 1 (v - 63) ++ pre.reverse) := by
      rw [List.reverse_append, encLevelRev_reverse, encLevel_eq, List.cons_append]
    rw [S.decRev_lvl1 _ _ _ hr (by omega) (by omega), lvl 64 1 63 v _ (by omega) hv (by omega) (by omega)]
  rw [if_neg h1, if_neg h1]
  obtain ⟨hw1, hw8, hwlt⟩ := varW_bounds 16446 1 v hv (by omega) (by omega)
  have hr : (pre ++ encVarRev 128 16446 1 v).reverse = (128 + varW 16446 1 v) :: (beBytes (varW 16446 1 v) (v - 16446) ++ pre.reverse) := by
    rw [List.reverse_append, encVarRev_reverse, List.cons_append]
  rw [lenVar_eq]
  generalize varW 16446 1 v = w at *
  have hm : (128 + w) % 64 = w := by omega
  rw [S.decRev_var _ _ _ hr (by omega) (by omega), hm, decVarRev_enc 16446 _ v _ (by omega) hwlt hv]

theorem F.enc_length (v : Nat) : (F.enc v).length = F.len v := by
  unfold F.enc F.len
  repeat' split
  all_goals first | omega | (rw [encLevel_length]) | (rw [encVar_length])

theorem F.len_bounds (v : Nat) (hv : v < 2 ^ 64) : 1 ≤ F.len v ∧ F.len v ≤ 9 := by
  obtain ⟨hw1, hw8, _⟩ := varW_bounds 4210749 2 v hv (by omega) (by omega)
  unfold F.len
  repeat' split
  all_goals first | omega | (rw [lenVar_eq]; omega)

theorem F.getLen_head (v : Nat) (hv : v < 2 ^ 64) :
    F.getLen ((F.enc v).headD 0) = F.len v ∧ F.getLenQuick ((F.enc v).headD 0) = F.len v := by
  unfold F.enc F.len
  by_cases h0 : v ≤ 63
  · rw [if_pos h0, if_pos h0, encLevel_eq, List.headD_cons]
    generalize hq : (v - 0) / 256 ^ 0 % 64 = q
    have hq64 : q < 64 := by omega
    unfold F.getLen F.getLenQuick
    constructor <;> (repeat' split) <;> omega
  rw [if_neg h0, if_neg h0]
  by_cases h1 : v ≤ 16446
  · rw [if_pos h1, if_pos h1, encLevel_eq, List.headD_cons]
    generalize hq : (v - 63) / 256 ^ 1 % 64 = q
    have hq64 : q < 64 := by omega
    unfold F.getLen F.getLenQuick
    constructor <;> (repeat' split) <;> omega
  rw [if_neg h1, if_neg h1]
  by_cases h2 : v ≤ 4210749
  · rw [if_pos h2, if_pos h2, encLevel_eq, List.headD_cons]
    generalize hq : (v - 16446) / 256 ^ 2 % 64 = q
    have hq64 : q < 64 := by omega
    unfold F.getLen F.getLenQuick
    constructor <;> (repeat' split) <;> omega
  rw [if_neg h2, if_neg h2]
  obtain ⟨hw1, hw8, _⟩ := varW_bounds 4210749 2 v hv (by omega) (by omega)
  rw [encVar_eq, lenVar_eq, List.headD_cons]
  generalize varW 4210749 2 v = w at *
  unfold F.getLen F.getLenQuick
  constructor <;> (repeat' split) <;> omega

theorem F.enc_lt (v : Nat) (hv : v < 2 ^ 64) : ∀ b ∈ F.enc v, b < 256 := by
  unfold F.enc
  by_cases h0 : v ≤ 63
  · rw [if_pos h0]; exact encLevel_lt 0 0 0 v (by omega)
  rw [if_neg h0]
  by_cases h1 : v ≤ 16446
  · rw [if_pos h1]; exact encLevel_lt 64 1 63 v (by omega)
  rw [if_neg h1]
  by_cases h2 : v ≤ 4210749
  · rw [if_pos h2]; exact encLevel_lt 128 2 16446 v (by omega)
  rw [if_neg h2]
  exact encVar_lt 192 4210749 2 v hv (by omega) (by omega) (by omega)

theorem F.encRev_length (v : Nat) : (F.encRev v).length = F.len v := by
  unfold F.encRev F.len
  by_cases h0 : v ≤ 63
  · rw [if_pos h0, if_pos h0, encLevelRev_length]
  rw [if_neg h0, if_neg h0]
  by_cases h1 : v ≤ 16446
  · rw [if_pos h1, if_pos h1, encLevelRev_length]
  rw [if_neg h1, if_neg h1]
  by_cases h2 : v ≤ 4210749
  · rw [if_pos h2, if_pos h2, encLevelRev_length]
  rw [if_neg h2, if_neg h2]
  rw [encVarRev_length]

theorem F.decRev_lvl0 (bs : List Nat) (b0 : Nat) (r : List Nat) (hr : bs.reverse = b0 :: r) (hlo : 0 ≤ b0) (hhi : b0 < 64) :
    F.decRev bs = decLevel 0 0 b0 r := by
  simp only [F.decRev, hr]
  repeat' split
  all_goals first | omega | rfl

theorem F.decRev_lvl1 (bs : List Nat) (b0 : Nat) (r : List Nat) (hr : bs.reverse = b0 :: r) (hlo : 64 ≤ b0) (hhi : b0 < 128) :
    F.decRev bs = decLevel 1 63 b0 r := by
  simp only [F.decRev, hr]
  repeat' split
  all_goals first | omega | rfl

theorem F.decRev_lvl2 (bs : List Nat) (b0 : Nat) (r : List Nat) (hr : bs.reverse = b0 :: r) (hlo : 128 ≤ b0) (hhi : b0 < 192) :
    F.decRev bs = decLevel 2 16446 b0 r := by
  simp only [F.decRev, hr]
  repeat' split
  all_goals first | omega | rfl

theorem F.decRev_var (bs : List Nat) (b0 : Nat) (r : List Nat) (hr : bs.reverse = b0 :: r) (hlo : 192 ≤ b0) :
    F.decRev bs = decVarRev 4210749 (b0 % 16) r := by
  simp only [F.decRev, hr]
  repeat' split
  all_goals first | omega | rfl

theorem F.decRev_encRev (v : Nat) (hv : v < 2 ^ 64) (pre : List Nat) :
    F.decRev (pre ++ F.encRev v) = some (v, F.len v) := by
  unfold F.encRev F.len
  by_cases h0 : v ≤ 63
  · rw [if_pos h0, if_pos h0]
    have hr : (pre ++ encLevelRev 0 0 0 v).reverse = (0 + (v - 0) / 256 ^ 0 % 64) :: (beBytes 0 (v - 0) ++ pre.reverse) := by
      rw [List.reverse_append, encLevelRev_reverse, encLevel_eq, List.cons_append]
    rw [F.decRev_lvl0 _ _ _ hr (by omega) (by omega), lvl 0 0 0 v _ (by omega) hv (by omega) (by omega)]
  rw [if_neg h0, if_neg h0]
  by_cases h1 : v ≤ 16446
  · rw [if_pos h1, if_pos h1]
    have hr : (pre ++ encLevelRev 64 1 63 v).reverse = (64 + (v - 63) / 256 ^ 1 % 64) :: (beBytes 1 (v - 63) ++ pre.reverse) := by
      rw [List.reverse_append, encLevelRev_reverse, encLevel_eq, List.cons_append]
    rw [F.decRev_lvl1 _ _ _ hr (by omega) (by omega), lvl 64 1 63 v _ (by omega) hv (by omega) (by omega)]
  rw [if_neg h1, if_neg h1]
  by_cases h2 : v ≤ 4210749
  · rw [if_pos h2, if_pos h2]
    have hr : (pre ++ encLevelRev 128 2 16446 v).reverse = (128 + (v - 16446) / 256 ^ 2 % 64) :: (beBytes 2 (v - 16446) ++ pre.reverse) := by
      rw [List.reverse_append, encLevelRev_reverse, encLevel_eq, List.cons_append]
    rw [F.decRev_lvl2 _ _ _ hr (by omega) (by omega), lvl 128 2 16446 v _ (by omega) hv (by omega) (by omega)]
  rw [if_neg h2, if_neg h2]
  obtain ⟨hw1, hw8, hwlt⟩ := varW_bounds 4210749 2 v hv (by omega) (by omega)
  have hr : (pre ++ encVarRev 192 4210749 2 v).reverse = (192 + varW 4210749 2 v) :: (beBytes (varW 4210749 2 v) (v - 4210749) ++ pre.reverse) := by
    rw [List.reverse_append, encVarRev_reverse, List.cons_append]
  rw [lenVar_eq]
  generalize varW 4210749 2 v = w at *
  have hm : (192 + w) % 16 = w := by omega
  rw [F.decRev_var _ _ _ hr (by omega), hm, decVarRev_enc 4210749 _ v _ (by omega) hwlt hv]

theorem NZ.enc_length (v : Nat) : (NZ.enc v).length = NZ.len v := by
  unfold NZ.enc NZ.len
  repeat' split
  all_goals first | omega | (rw [encLevel_length]) | (rw [encVar_length])

theorem NZ.len_bounds (v : Nat) (hv : v < 2 ^ 64) : 1 ≤ NZ.len v ∧ NZ.len v ≤ 9 := by
  obtain ⟨hw1, hw8, _⟩ := varW_bounds 4210750 2 v hv (by omega) (by omega)
  unfold NZ.len
  repeat' split
  all_goals first | omega | (rw [lenVar_eq]; omega)

theorem NZ.getLen_head (v : Nat) (hv : v < 2 ^ 64) (hz : 1 ≤ v) :
    NZ.getLen ((NZ.enc v).headD 0) = NZ.len v ∧ NZ.getLenQuick ((NZ.enc v).headD 0) = NZ.len v := by
  unfold NZ.enc NZ.len
  by_cases h0 : v ≤ 64
  · rw [if_pos h0, if_pos h0, encLevel_eq, List.headD_cons]
    generalize hq : (v - 1) / 256 ^ 0 % 64 = q
    have hq64 : q < 64 := by omega
    unfold NZ.getLen NZ.getLenQuick
    constructor <;> (repeat' split) <;> omega
  rw [if_neg h0, if_neg h0]
  by_cases h1 : v ≤ 16447
  · rw [if_pos h1, if_pos h1, encLevel_eq, List.headD_cons]
    generalize hq : (v - 64) / 256 ^ 1 % 64 = q
    have hq64 : q < 64 := by omega
    unfold NZ.getLen NZ.getLenQuick
    constructor <;> (repeat' split) <;> omega
  rw [if_neg h1, if_neg h1]
  by_cases h2 : v ≤ 4210750
  · rw [if_pos h2, if_pos h2, encLevel_eq, List.headD_cons]
    generalize hq : (v - 16447) / 256 ^ 2 % 64 = q
    have hq64 : q < 64 := by omega
    unfold NZ.getLen NZ.getLenQuick
    constructor <;> (repeat' split) <;> omega
  rw [if_neg h2, if_neg h2]
  obtain ⟨hw1, hw8, _⟩ := varW_bounds 4210750 2 v hv (by omega) (by omega)
  rw [encVar_eq, lenVar_eq, List.headD_cons]
  generalize varW 4210750 2 v = w at *
  unfold NZ.getLen NZ.getLenQuick
  constructor <;> (repeat' split) <;> omega

theorem NZ.enc_lt (v : Nat) (hv : v < 2 ^ 64) : ∀ b ∈ NZ.enc v, b < 256 := by
  unfold NZ.enc
  by_cases h0 : v ≤ 64
  · rw [if_pos h0]; exact encLevel_lt 0 0 1 v (by omega)
  rw [if_neg h0]
  by_cases h1 : v ≤ 16447
  · rw [if_pos h1]; exact encLevel_lt 64 1 64 v (by omega)
  rw [if_neg h1]
  by_cases h2 : v ≤ 4210750
  · rw [if_pos h2]; exact encLevel_lt 128 2 16447 v (by omega)
  rw [if_neg h2]
  exact encVar_lt 192 4210750 2 v hv (by omega) (by omega) (by omega)

theorem NZ.encRev_length (v : Nat) : (NZ.encRev v).length = NZ.len v := by
  unfold NZ.encRev NZ.len
  by_cases h0 : v ≤ 64
  · rw [if_pos h0, if_pos h0, encLevelRev_length]
  rw [if_neg h0, if_neg h0]
  by_cases h1 : v ≤ 16447
  · rw [if_pos h1, if_pos h1, encLevelRev_length]
  rw [if_neg h1, if_neg h1]
  by_cases h2 : v ≤ 4210750
  · rw [if_pos h2, if_pos h2, encLevelRev_length]
  rw [if_neg h2, if_neg h2]
  rw [encVarRev_length]

theorem NZ.decRev_lvl0 (bs : List Nat) (b0 : Nat) (r : List Nat) (hr : bs.reverse = b0 :: r) (hlo : 0 ≤ b0) (hhi : b0 < 64) :
    NZ.decRev bs = decLevel 0 1 b0 r := by
  simp only [NZ.decRev, hr]
  repeat' split
  all_goals first | omega | rfl

theorem NZ.decRev_lvl1 (bs : List Nat) (b0 : Nat) (r : List Nat) (hr : bs.reverse = b0 :: r) (hlo : 64 ≤ b0) (hhi : b0 < 128) :
    NZ.decRev bs = decLevel 1 64 b0 r := by
  simp only [NZ.decRev, hr]
  repeat' split
  all_goals first | omega | rfl

theorem NZ.decRev_lvl2 (bs : List Nat) (b0 : Nat) (r : List Nat) (hr : bs.reverse = b0 :: r) (hlo : 128 ≤ b0) (hhi : b0 < 192) :
    NZ.decRev bs = decLevel 2 16447 b0 r := by
  simp only [NZ.decRev, hr]
  repeat' split
  all_goals first | omega | rfl

theorem NZ.decRev_var (bs : List Nat) (b0 : Nat) (r : List Nat) (hr : bs.reverse = b0 :: r) (hlo : 192 ≤ b0) :
    NZ.decRev bs = decVarRev 4210750 (b0 % 16) r := by
  simp only [NZ.decRev, hr]
  repeat' split
  all_goals first | omega | rfl

theorem NZ.decRev_encRev (v : Nat) (hv : v < 2 ^ 64) (hz : 1 ≤ v) (pre : List Nat) :
    NZ.decRev (pre ++ NZ.encRev v) = some (v, NZ.len v) := by
  unfold NZ.encRev NZ.len
  by_cases h0 : v ≤ 64
  · rw [if_pos h0, if_pos h0]
    have hr : (pre ++ encLevelRev 0 0 1 v).reverse = (0 + (v - 1) / 256 ^ 0 % 64) :: (beBytes 0 (v - 1) ++ pre.reverse) := by
      rw [List.reverse_append, encLevelRev_reverse, encLevel_eq, List.cons_append]
    rw [NZ.decRev_lvl0 _ _ _ hr (by omega) (by omega), lvl 0 0 1 v _ (by omega) hv (by omega) (by omega)]
  rw [if_neg h0, if_neg h0]
  by_cases h1 : v ≤ 16447
  · rw [if_pos h1, if_pos h1]
    have hr : (pre ++ encLevelRev 64 1 64 v).reverse = (64 + (v - 64) / 256 ^ 1 % 64) :: (beBytes 1 (v - 64) ++ pre.reverse) := by
      rw [List.reverse_append, encLevelRev_reverse, encLevel_eq, List.cons_append]
    rw [NZ.decRev_lvl1 _ _ _ hr (by omega) (by omega), lvl 64 1 64 v _ (by omega) hv (by omega) (by omega)]
  rw [if_neg h1, if_neg h1]
  by_cases h2 : v ≤ 4210750
  · rw [if_pos h2, if_pos h2]
    have hr : (pre ++ encLevelRev 128 2 16447 v).reverse = (128 + (v - 16447) / 256 ^ 2 % 64) :: (beBytes 2 (v - 16447) ++ pre.reverse) := by
      rw [List.reverse_append, encLevelRev_reverse, encLevel_eq, List.cons_append]
    rw [NZ.decRev_lvl2 _ _ _ hr (by omega) (by omega), lvl 128 2 16447 v _ (by omega) hv (by omega) (by omega)]
  rw [if_neg h2, if_neg h2]
  obtain ⟨hw1, hw8, hwlt⟩ := varW_bounds 4210750 2 v hv (by omega) (by omega)
  have hr : (pre ++ encVarRev 192 4210750 2 v).reverse = (192 + varW 4210750 2 v) :: (beBytes (varW 4210750 2 v) (v - 4210750) ++ pre.reverse) := by
    rw [List.reverse_append, encVarRev_reverse, List.cons_append]
  rw [lenVar_eq]
  generalize varW 4210750 2 v = w at *
  have hm : (192 + w) % 16 = w := by omega
  rw [NZ.decRev_var _ _ _ hr (by omega), hm, decVarRev_enc 4210750 _ v _ (by omega) hwlt hv]

theorem S16.enc_length (v : Nat) : (S16.enc v).length = S16.len v := by
  unfold S16.enc S16.len
  repeat' split
  all_goals first | omega | (rw [encLevel_length]) | (rw [encVar_length])

theorem S16.len_bounds (v : Nat) (hv : v < 2 ^ 64) : 2 ≤ S16.len v ∧ S16.len v ≤ 9 := by
  obtain ⟨hw1, hw8, _⟩ := varW_bounds 1077952509 4 v hv (by omega) (by omega)
  unfold S16.len
  repeat' split
  all_goals first | omega | (rw [lenVar_eq]; omega)

theorem S16.getLen_head (v : Nat) (hv : v < 2 ^ 64) :
    S16.getLen ((S16.enc v).headD 0) = S16.len v ∧ S16.getLenQuick ((S16.enc v).headD 0) = S16.len v := by
  unfold S16.enc S16.len
  by_cases h0 : v ≤ 16383
  · rw [if_pos h0, if_pos h0, encLevel_eq, List.headD_cons]
    generalize hq : (v - 0) / 256 ^ 1 % 64 = q
    have hq64 : q < 64 := by omega
    unfold S16.getLen S16.getLenQuick
    constructor <;> (repeat' split) <;> omega
  rw [if_neg h0, if_neg h0]
  by_cases h1 : v ≤ 4210686
  · rw [if_pos h1, if_pos h1, encLevel_eq, List.headD_cons]
    generalize hq : (v - 16383) / 256 ^ 2 % 64 = q
    have hq64 : q < 64 := by omega
    unfold S16.getLen S16.getLenQuick
    constructor <;> (repeat' split) <;> omega
  rw [if_neg h1, if_neg h1]
  by_cases h2 : v ≤ 1077952509
  · rw [if_pos h2, if_pos h2, encLevel_eq, List.headD_cons]
    generalize hq : (v - 4210686) / 256 ^ 3 % 64 = q
    have hq64 : q < 64 := by omega
    unfold S16.getLen S16.getLenQuick
    constructor <;> (repeat' split) <;> omega
  rw [if_neg h2, if_neg h2]
  obtain ⟨hw1, hw8, _⟩ := varW_bounds 1077952509 4 v hv (by omega) (by omega)
  rw [encVar_eq, lenVar_eq, List.headD_cons]
  generalize varW 1077952509 4 v = w at *
  unfold S16.getLen S16.getLenQuick
  constructor <;> (repeat' split) <;> omega

theorem S16.enc_lt (v : Nat) (hv : v < 2 ^ 64) : ∀ b ∈ S16.enc v, b < 256 := by
  unfold S16.enc
  by_cases h0 : v ≤ 16383
  · rw [if_pos h0]; exact encLevel_lt 0 1 0 v (by omega)
  rw [if_neg h0]
  by_cases h1 : v ≤ 4210686
  · rw [if_pos h1]; exact encLevel_lt 64 2 16383 v (by omega)
  rw [if_neg h1]
  by_cases h2 : v ≤ 1077952509
  · rw [if_pos h2]; exact encLevel_lt 128 3 4210686 v (by omega)
  rw [if_neg h2]
  exact encVar_lt 192 1077952509 4 v hv (by omega) (by omega) (by omega)

end Varint.Split
