import Varint.Lemmas.Bitmap
import Varint.Lemmas.Bytes
import Varint.Model.Bounded
/-
  More bitmap theorems: iteration order, export length, the add-range fast path and the
  serialisation round trip (encoder of Model/Bitmap against the bounded decoder of Model/Bounded).
-/
namespace Varint.Bitmap

/-! ## 1. iteration is strictly ascending -/

theorem wordMembers_sorted (base : Nat) : ∀ (n i w : Nat), List.Pairwise (· < ·) (wordMembers base n i w)
  | 0, _, _ => by simp [wordMembers]
  | n + 1, i, w => by
    have ih := wordMembers_sorted base n (i + 1) (w / 2)
    unfold wordMembers
    split
    · rw [List.pairwise_cons]
      refine ⟨?_, ih⟩
      intro x hx
      obtain ⟨j, _, hj, _⟩ := (mem_wordMembers base n (i + 1) (w / 2) x).mp hx
      omega
    · exact ih

theorem membersAux_sorted : ∀ (n k b : Nat), List.Pairwise (· < ·) (membersAux n k b)
  | 0, _, _ => by simp [membersAux]
  | n + 1, k, b => by
    unfold membersAux
    rw [List.pairwise_append]
    refine ⟨wordMembers_sorted _ _ _ _, membersAux_sorted n (k + 1) _, ?_⟩
    intro x hx y hy
    obtain ⟨j, hj, hxj, _⟩ := (mem_wordMembers _ _ _ _ x).mp hx
    obtain ⟨j', _, hyj, _⟩ := (mem_membersAux _ _ _ y).mp hy
    omega

/-- iteration / toArray is strictly increasing: ascending and duplicate-free (no invariant needed) -/
theorem members_sorted (s : St) : List.Pairwise (· < ·) (members s) :=
  membersAux_sorted 1024 0 s.bits

theorem members_nodup (s : St) : (members s).Nodup := by
  have h := members_sorted s
  unfold List.Nodup
  exact h.imp (fun hab => Nat.ne_of_lt hab)

/-! ## 2. export length = cardinality -/

theorem countBelow_succ_low (w n : Nat) :
    countBelow w (n + 1) = (if w.testBit 0 then 1 else 0) + countBelow (w / 2) n := by
  induction n with
  | zero => simp [countBelow]
  | succ n ih =>
    have e : countBelow w (n + 1 + 1) = countBelow w (n + 1) + (if w.testBit (n + 1) then 1 else 0) := rfl
    have e2 : countBelow (w / 2) (n + 1) = countBelow (w / 2) n + (if (w / 2).testBit n then 1 else 0) := rfl
    rw [e, ih, e2, Nat.testBit_succ]
    omega

theorem wordMembers_length (base : Nat) : ∀ (n i w : Nat), (wordMembers base n i w).length = countBelow w n
  | 0, _, _ => by simp [wordMembers, countBelow]
  | n + 1, i, w => by
    have ih := wordMembers_length base n (i + 1) (w / 2)
    unfold wordMembers
    rw [countBelow_succ_low, Nat.testBit_zero]
    by_cases hw : w % 2 = 1
    · rw [if_pos hw, List.length_cons, ih]
      simp [hw]; omega
    · rw [if_neg hw, ih]
      simp [hw]

theorem countBelow_add (b m : Nat) : ∀ n, countBelow b (m + n) = countBelow b m + countBelow (b / 2 ^ m) n
  | 0 => by simp [countBelow]
  | n + 1 => by
    have e : countBelow b (m + (n + 1)) = countBelow b (m + n) + (if b.testBit (m + n) then 1 else 0) := rfl
    have e2 : countBelow (b / 2 ^ m) (n + 1)
        = countBelow (b / 2 ^ m) n + (if (b / 2 ^ m).testBit n then 1 else 0) := rfl
    rw [e, e2, countBelow_add b m n, Nat.testBit_div_two_pow, Nat.add_comm n m]
    omega

theorem membersAux_length : ∀ (n k b : Nat), (membersAux n k b).length = countBelow b (64 * n)
  | 0, _, _ => by simp [membersAux, countBelow]
  | n + 1, k, b => by
    unfold membersAux
    rw [List.length_append, wordMembers_length, membersAux_length n (k + 1)]
    have e : 64 * (n + 1) = 64 + 64 * n := by omega
    rw [e, countBelow_add]
    congr 1
    apply countBelow_congr
    intro i hi
    rw [Nat.testBit_mod_two_pow]
    simp [hi]

/-- the export has exactly `popCount` entries (no invariant needed) … -/
theorem members_length_popCount (s : St) : (members s).length = popCount s.bits := by
  unfold members popCount
  rw [membersAux_length]

/-- … so under the invariant its length is the cardinality counter -/
theorem members_length (s : St) (hi : Inv s) : (members s).length = s.card := by
  rw [members_length_popCount, hi.card_eq]

/-! ## 3. add-range -/

theorem countBelow_le (b : Nat) : ∀ n, countBelow b n ≤ n
  | 0 => Nat.le_refl _
  | n + 1 => by
    have := countBelow_le b n
    simp only [countBelow]
    split <;> omega

theorem countBelow_eq_zero (b : Nat) : ∀ n, countBelow b n = 0 → ∀ i, i < n → b.testBit i = false
  | 0, _, i, hi => by omega
  | n + 1, h, i, hi => by
    simp only [countBelow] at h
    by_cases hb : b.testBit n = true
    · rw [if_pos hb] at h; omega
    · rw [if_neg hb] at h
      by_cases hin : i = n
      · subst hin; simpa using hb
      · exact countBelow_eq_zero b n (by omega) i (by omega)

/-- an empty counter under the invariant means no member at all -/
theorem bits_zero_of_card_zero (s : St) (hi : Inv s) (hc : s.card = 0) : s.bits = 0 := by
  apply Nat.eq_of_testBit_eq
  intro w
  rw [Nat.zero_testBit]
  by_cases hw : w < 65536
  · exact countBelow_eq_zero s.bits 65536 (by rw [← hc, hi.card_eq]; rfl) w hw
  · exact hi.small w (by omega)

theorem testBit_range (mn mx w : Nat) :
    ((2 ^ (mx - mn) - 1) <<< mn).testBit w = (decide (mn ≤ w) && decide (w < mx)) := by
  rw [Nat.testBit_shiftLeft, Nat.testBit_two_pow_sub_one]
  by_cases h1 : mn ≤ w
  · by_cases h2 : w < mx
    · have : w - mn < mx - mn := by omega
      simp [h1, h2, this]
    · have : ¬ w - mn < mx - mn := by omega
      simp [h1, h2, this]
  · have : ¬ w ≥ mn := h1
    simp [h1]

/-- number of members below `n` of a set that is the interval `[mn, mx)` -/
theorem countBelow_range (b mn mx : Nat) (hb : ∀ w, b.testBit w = (decide (mn ≤ w) && decide (w < mx)))
    (hle : mn ≤ mx) : ∀ n, countBelow b n = min n mx - min n mn
  | 0 => by simp [countBelow]
  | n + 1 => by
    simp only [countBelow]
    rw [countBelow_range b mn mx hb hle n, hb n]
    by_cases h1 : mn ≤ n
    · by_cases h2 : n < mx
      · simp [h1, h2]; omega
      · simp [h1, h2]; omega
    · simp [h1]; omega

theorem popCount_range (mn mx : Nat) (hle : mn ≤ mx) (hmx : mx ≤ 65536) :
    popCount ((2 ^ (mx - mn) - 1) <<< mn) = mx - mn := by
  unfold popCount
  rw [countBelow_range _ mn mx (testBit_range mn mx) hle]
  omega

theorem mem_rangeList (mn mx w : Nat) :
    decide (w ∈ (List.range (mx - mn)).map (· + mn)) = (decide (mn ≤ w) && decide (w < mx)) := by
  by_cases h : mn ≤ w ∧ w < mx
  · have hm : w ∈ (List.range (mx - mn)).map (· + mn) := by
      rw [List.mem_map]
      exact ⟨w - mn, List.mem_range.mpr (by omega), by omega⟩
    simp [hm, h.1, h.2]
  · have hm : ¬ w ∈ (List.range (mx - mn)).map (· + mn) := by
      rw [List.mem_map]
      rintro ⟨a, ha, hw⟩
      have := List.mem_range.mp ha
      apply h; omega
    rw [decide_eq_false hm]
    by_cases h1 : mn ≤ w
    · have : ¬ w < mx := fun h2 => h ⟨h1, h2⟩
      simp [this]
    · simp [h1]

/-- `varintBitmapAddRange`: union with the half-open interval, on both paths; invariant preserved -/
theorem addRange_spec (s : St) (mn mx : Nat) (hmx : mx ≤ 65536) (hi : Inv s) :
    Inv (addRange s mn mx) ∧
    ∀ w, (addRange s mn mx).bits.testBit w = (s.bits.testBit w || (decide (mn ≤ w) && decide (w < mx))) := by
  unfold addRange
  by_cases h0 : mn ≥ mx
  · rw [if_pos h0]
    refine ⟨hi, fun w => ?_⟩
    by_cases h1 : mn ≤ w
    · have : ¬ w < mx := by omega
      simp [this]
    · simp [h1]
  · rw [if_neg h0]
    by_cases hf : mx - mn > arrayMax ∧ s.card = 0
    · rw [if_pos hf]
      have hz := bits_zero_of_card_zero s hi hf.2
      refine ⟨⟨?_, ?_⟩, fun w => ?_⟩
      · exact (popCount_range mn mx (by omega) hmx).symm
      · intro w hw
        show ((2 ^ (mx - mn) - 1) <<< mn).testBit w = false
        rw [testBit_range]
        have : ¬ w < mx := by omega
        simp [this]
      · show ((2 ^ (mx - mn) - 1) <<< mn).testBit w = _
        rw [testBit_range, hz, Nat.zero_testBit, Bool.false_or]
    · rw [if_neg hf]
      obtain ⟨h1, h2⟩ := addMany_spec ((List.range (mx - mn)).map (· + mn)) s (by
        intro v hv
        rw [List.mem_map] at hv
        obtain ⟨a, ha, hw⟩ := hv
        have := List.mem_range.mp ha
        omega) hi
      refine ⟨h2, fun w => ?_⟩
      rw [h1 w, mem_rangeList]

/-- the fast path produces a RUNS container whose counter is the interval length -/
theorem addRange_fast (s : St) (mn mx : Nat) (hlt : mn < mx) (hbig : mx - mn > arrayMax) (hc : s.card = 0) :
    addRange s mn mx = ⟨.runs, mx - mn, (2 ^ (mx - mn) - 1) <<< mn⟩ := by
  unfold addRange
  rw [if_neg (by omega), if_pos ⟨hbig, hc⟩]

/-! ## 4. serialisation round trip -/
open Varint.Bounded (bitmapDec BM R le32 bitmapBytes)

theorem leB_eq : ∀ (k v : Nat), leB k v = leBytes k v
  | 0, _ => rfl
  | k + 1, v => by simp only [leB, leBytes, leB_eq k]

/-- the `uint16_t` view of a byte buffer -/
def u16s : List Nat → List Nat
  | a :: b :: rest => (a + 256 * b) :: u16s rest
  | _ => []

/-- member set of an ARRAY payload -/
def bitsOfValues (vs : List Nat) : Nat := vs.foldl setBit 0

/-- member set of a RUNS payload: `(start, length)` pairs -/
def bitsOfRuns : List Nat → Nat
  | st :: ln :: rest => ((2 ^ ln - 1) <<< st) ||| bitsOfRuns rest
  | _ => 0

/-- abstraction of a decoded container to the model state -/
def ofBM (bm : BM) : Option St :=
  if bm.ty = 0 then some ⟨.array, bm.card, bitsOfValues (u16s bm.payload)⟩
  else if bm.ty = 1 then some ⟨.bitmap, bm.card, ofLe bm.payload⟩
  else if bm.ty = 2 then some ⟨.runs, bm.card, bitsOfRuns (u16s bm.payload)⟩
  else none

/-- `varintBitmapDecode(buffer, len)` with `len = bs.length`, read back as a model state -/
def decodeSt (bs : List Nat) : Option St :=
  match (bitmapDec bs).1 with
  | .ok bm => ofBM bm
  | _ => none

theorem takeExact_self (p : List Nat) : takeExact p.length p = some p := by
  simp [takeExact]

theorem le32_leBytes (v : Nat) (rest : List Nat) (hv : v < 256 ^ 4) : le32 (leBytes 4 v ++ rest) = .ok v := by
  unfold le32
  rw [takeExact_append _ _ (leBytes_length 4 v)]
  simp only [ofLe_leBytes_of_lt hv]

theorem bitmapDec_array (card : Nat) (p : List Nat) (hc : card < 256 ^ 4) (hp : p.length = 2 * card) :
    bitmapDec (0 :: (leBytes 4 card ++ p)) = (.ok ⟨0, card, 0, p⟩, [24, 2 * card]) := by
  unfold bitmapDec
  have hl : ¬ (0 :: (leBytes 4 card ++ p)).length < 5 := by
    simp only [List.length_cons, List.length_append, leBytes_length]; omega
  rw [if_neg hl]
  simp only [le32_leBytes card p hc, List.drop_left' (leBytes_length 4 card), if_true]
  rw [if_neg (by omega), ← hp, takeExact_self p]

theorem bitmapDec_bitmap (card : Nat) (p rest : List Nat) (hc : card < 256 ^ 4) (hp : p.length = 8192) :
    bitmapDec (1 :: (leBytes 4 card ++ (p ++ rest))) = (.ok ⟨1, card, 0, p⟩, [24, 8192]) := by
  unfold bitmapDec
  have hl : ¬ (1 :: (leBytes 4 card ++ (p ++ rest))).length < 5 := by
    simp only [List.length_cons, List.length_append, leBytes_length]; omega
  rw [if_neg hl]
  simp only [le32_leBytes card _ hc, List.drop_left' (leBytes_length 4 card), bitmapBytes, ↓reduceIte]
  have h1 : ¬ (p ++ rest).length < 8192 := by rw [List.length_append]; omega
  rw [if_neg h1, takeExact_append p rest hp]
  rfl

theorem bitmapDec_runs1 (card : Nat) (p : List Nat) (hc : card < 256 ^ 4) (hp : p.length = 4) :
    bitmapDec (2 :: (leBytes 4 card ++ (leBytes 4 1 ++ p))) = (.ok ⟨2, card, 1, p⟩, [24, 4]) := by
  unfold bitmapDec
  have hl : ¬ (2 :: (leBytes 4 card ++ (leBytes 4 1 ++ p))).length < 5 := by
    simp only [List.length_cons, List.length_append, leBytes_length]; omega
  rw [if_neg hl]
  have hd8 : (leBytes 4 card ++ (leBytes 4 1 ++ p)).drop 8 = p := by
    rw [← List.append_assoc]
    exact List.drop_left' (by simp only [List.length_append, leBytes_length])
  simp only [le32_leBytes card _ hc, List.drop_left' (leBytes_length 4 card), hd8,
    le32_leBytes 1 p (by omega), ↓reduceIte]
  have h1 : ¬ (leBytes 4 1 ++ p).length < 4 := by
    simp only [List.length_append, leBytes_length]; omega
  have h2 : ¬ 1 > p.length / 4 := by omega
  have h3 : 4 * 1 = p.length := by omega
  rw [if_neg h1, if_neg h2, h3, takeExact_self p, hp]
  rfl

theorem u16s_flatMap : ∀ (vs : List Nat), (∀ v ∈ vs, v < 65536) → u16s (vs.flatMap (leBytes 2)) = vs
  | [], _ => rfl
  | v :: vs, h => by
    have hv := h v (by simp)
    have e : leBytes 2 v = [v % 256, v / 256 % 256] := rfl
    rw [List.flatMap_cons, e]
    simp only [List.cons_append, List.nil_append, u16s]
    rw [u16s_flatMap vs (fun x hx => h x (by simp [hx]))]
    congr 1; omega

theorem length_flatMap_leBytes2 : ∀ (vs : List Nat), (vs.flatMap (leBytes 2)).length = 2 * vs.length
  | [] => rfl
  | v :: vs => by
    rw [List.flatMap_cons, List.length_append, leBytes_length, length_flatMap_leBytes2 vs, List.length_cons]
    omega

theorem testBit_foldl_setBit (vs : List Nat) (b w : Nat) :
    (vs.foldl setBit b).testBit w = (b.testBit w || decide (w ∈ vs)) := by
  induction vs generalizing b with
  | nil => simp
  | cons v vs ih =>
    rw [List.foldl_cons, ih, testBit_setBit]
    by_cases hvw : v = w
    · subst hvw; simp
    · have : ¬ w = v := fun h => hvw h.symm
      simp [hvw, this]

/-- the ARRAY payload written from the iteration order reads back as the member set -/
theorem bitsOfValues_members (s : St) (hs : ∀ w, 65536 ≤ w → s.bits.testBit w = false) :
    bitsOfValues (members s) = s.bits := by
  apply Nat.eq_of_testBit_eq
  intro w
  unfold bitsOfValues
  rw [testBit_foldl_setBit, Nat.zero_testBit, Bool.false_or, bits_of_members s hs w]

theorem card_lt (s : St) (hi : Inv s) : s.card < 256 ^ 4 := by
  have h1 := countBelow_le s.bits 65536
  have h2 := hi.card_eq
  unfold popCount at h2
  omega

theorem lt_two_pow_of_small (b n : Nat) (h : ∀ i, n ≤ i → b.testBit i = false) : b < 2 ^ n :=
  Nat.lt_pow_two_of_testBit b h

theorem pow_256 (k : Nat) : (256 : Nat) ^ k = 2 ^ (8 * k) := by
  rw [Nat.pow_mul]

/-- under the invariant the member set fits the 8192-byte BITMAP payload -/
theorem bits_lt (s : St) (hi : Inv s) : s.bits < 256 ^ 8192 :=
  Nat.lt_of_lt_of_eq (lt_two_pow_of_small s.bits (8 * 8192) (fun i h => hi.small i (by omega)))
    (pow_256 8192).symm

/-- **round trip, ARRAY container**: the decoder accepts the encoding (declared length = its length)
    and reads back the same container type, counter and member set -/
theorem decode_encode_array (s : St) (hi : Inv s) (hty : s.ty = .array) : decodeSt (encode s) = some s := by
  have hlen := members_length s hi
  have hf : leB 2 = leBytes 2 := funext (leB_eq 2)
  have henc : encode s = 0 :: (leBytes 4 s.card ++ (members s).flatMap (leBytes 2)) := by
    unfold encode
    rw [hty]
    simp only [leB_eq, hf, List.cons_append]
  unfold decodeSt
  rw [henc, bitmapDec_array s.card _ (card_lt s hi) (by rw [length_flatMap_leBytes2, hlen])]
  simp only [ofBM, ↓reduceIte]
  rw [u16s_flatMap _ (members_lt s), bitsOfValues_members s hi.small, ← hty]

/-- **round trip, BITMAP container** -/
theorem decode_encode_bitmap (s : St) (hi : Inv s) (hty : s.ty = .bitmap) : decodeSt (encode s) = some s := by
  have henc : encode s = 1 :: (leBytes 4 s.card ++ (leBytes 8192 s.bits ++ [])) := by
    unfold encode
    rw [hty]
    simp only [leB_eq, List.cons_append, List.append_nil]
  unfold decodeSt
  rw [henc, bitmapDec_bitmap s.card _ [] (card_lt s hi) (leBytes_length _ _)]
  simp only [ofBM, ↓reduceIte]
  rw [ofLe_leBytes, Nat.mod_eq_of_lt (bits_lt s hi), ← hty,
    if_neg (show ¬ (1 : Nat) = 0 by omega)]

/-! ### RUNS container with a single run (the shape `addRange` creates) -/

theorem head_of_sorted (l : List Nat) (m : Nat) (hs : List.Pairwise (· < ·) l) (hm : m ∈ l)
    (hmin : ∀ x ∈ l, m ≤ x) : l.head! = m := by
  cases l with
  | nil => simp at hm
  | cons x xs =>
    show x = m
    rw [List.pairwise_cons] at hs
    rcases List.mem_cons.mp hm with h | h
    · exact h.symm
    · have h1 := hs.1 m h
      have h2 := hmin x (by simp)
      omega

theorem head_members_lt (s : St) : (members s).head! < 65536 := by
  cases h : members s with
  | nil => show (0 : Nat) < 65536; omega
  | cons x xs =>
    show x < 65536
    exact members_lt s x (by rw [h]; simp)

/-- what the decoder makes of a one-run RUNS encoding: the 16-bit length field wraps -/
theorem decodeSt_runs1 (card hd ln : Nat) (hc : card < 256 ^ 4) (hhd : hd < 65536) :
    decodeSt (2 :: (leBytes 4 card ++ (leBytes 4 1 ++ (leBytes 2 hd ++ leBytes 2 ln))))
      = some ⟨.runs, card, (2 ^ (ln % 65536) - 1) <<< hd⟩ := by
  unfold decodeSt
  rw [bitmapDec_runs1 card _ hc (by simp only [List.length_append, leBytes_length])]
  have e1 : leBytes 2 hd = [hd % 256, hd / 256 % 256] := rfl
  have e2 : leBytes 2 ln = [ln % 256, ln / 256 % 256] := rfl
  have a1 : hd % 256 + 256 * (hd / 256 % 256) = hd := by omega
  have a2 : ln % 256 + 256 * (ln / 256 % 256) = ln % 65536 := by omega
  simp only [ofBM]
  rw [if_neg (show ¬ (2 : Nat) = 0 by omega), if_neg (show ¬ (2 : Nat) = 1 by omega), if_pos True.intro, e1, e2]
  simp only [List.cons_append, List.nil_append, u16s, bitsOfRuns]
  rw [a1, a2, Nat.or_zero]

theorem encode_runs (s : St) (hty : s.ty = .runs) :
    encode s = 2 :: (leBytes 4 s.card ++ (leBytes 4 1 ++ (leBytes 2 (members s).head! ++ leBytes 2 s.card))) := by
  unfold encode
  rw [hty]
  simp only [leB_eq, List.cons_append, List.append_assoc]

/-- **round trip, RUNS container holding one interval** `[mn, mx)` that is not the whole universe
    (`mx - mn < 65536`, always true in the C where `max` is a `uint16_t`) -/
theorem decode_encode_runs (s : St) (mn mx : Nat) (hi : Inv s) (hty : s.ty = .runs) (hlt : mn < mx)
    (hmx : mx ≤ 65536) (hnf : mx - mn < 65536)
    (hb : ∀ w, s.bits.testBit w = (decide (mn ≤ w) && decide (w < mx))) :
    decodeSt (encode s) = some s := by
  have hcard : s.card = mx - mn := by
    rw [hi.card_eq]; unfold popCount
    rw [countBelow_range _ mn mx hb (by omega)]; omega
  have hbits : s.bits = (2 ^ (mx - mn) - 1) <<< mn :=
    Nat.eq_of_testBit_eq (fun w => by rw [hb, testBit_range])
  have hhead : (members s).head! = mn := by
    apply head_of_sorted _ _ (members_sorted s)
    · refine (mem_members s mn).mpr ⟨by omega, ?_⟩
      rw [hb]; simp; omega
    · intro x hx
      have := ((mem_members s x).mp hx).2
      rw [hb] at this
      simp at this; omega
  rw [encode_runs s hty, hhead, decodeSt_runs1 _ _ _ (card_lt s hi) (by omega), hcard, Nat.mod_eq_of_lt hnf,
    ← hbits, ← hcard, ← hty]

/-- the fast path of `addRange` followed by encode / decode gives the same state back -/
theorem decode_encode_addRange_fast (s : St) (mn mx : Nat) (hi : Inv s) (hc : s.card = 0)
    (hbig : mx - mn > arrayMax) (hmx : mx ≤ 65536) (hnf : mx - mn < 65536) :
    decodeSt (encode (addRange s mn mx)) = some (addRange s mn mx) := by
  have hlt : mn < mx := by unfold arrayMax at hbig; omega
  obtain ⟨h1, h2⟩ := addRange_spec s mn mx hmx hi
  have hz := bits_zero_of_card_zero s hi hc
  apply decode_encode_runs _ mn mx h1 (by rw [addRange_fast s mn mx hlt hbig hc]) hlt hmx hnf
  intro w
  rw [h2 w, hz, Nat.zero_testBit, Bool.false_or]

/-- the excluded case: a RUNS container whose counter is 65536 (the model's `addRange s 0 65536`, not
    expressible in the C where `max` is a `uint16_t`) encodes its run length as 0 and decodes to the empty set -/
theorem decode_encode_runs_full (s : St) (hty : s.ty = .runs) (hc : s.card = 65536) :
    decodeSt (encode s) = some ⟨.runs, 65536, 0⟩ := by
  rw [encode_runs s hty, hc, decodeSt_runs1 _ _ _ (by omega) (head_members_lt s), Nat.mod_self,
    Nat.pow_zero, Nat.sub_self, Nat.zero_shiftLeft]

/-- **round trip** for the containers `Add` produces (ARRAY and BITMAP) -/
theorem decode_encode (s : St) (hi : Inv s) (hty : s.ty ≠ .runs) : decodeSt (encode s) = some s := by
  cases h : s.ty with
  | array => exact decode_encode_array s hi h
  | bitmap => exact decode_encode_bitmap s hi h
  | runs => exact absurd h hty

/-- `decodeSt bs = some t` means the bounded decoder accepted `bs` (no fault, no error return) -/
theorem decodeSt_accepts (bs : List Nat) (t : St) (h : decodeSt bs = some t) :
    ∃ bm, (bitmapDec bs).1 = .ok bm ∧ ofBM bm = some t := by
  unfold decodeSt at h
  cases hd : (bitmapDec bs).1 with
  | fault => rw [hd] at h; cases h
  | err => rw [hd] at h; cases h
  | ok bm => rw [hd] at h; exact ⟨bm, rfl, h⟩

/-! ## 5. clone
  The model has no `clone`: `Model/Bitmap.lean` uses the source state itself where the C calls
  `varintBitmapClone` (see `or`), and `Props/C18.lean` models a successful clone as the identity
  (`cloneO … = some b`). There is nothing further to prove here. -/

end Varint.Bitmap
