import Varint.Lemmas.Dimension
/-
  Bit cells of the dimension model (`getBit` / `setBit` / `toggleBit`): a bit matrix is stored
  LSB-first behind the `hdrLen dim` header bytes; bit `k` lives in byte `hdrLen dim + k / 8`,
  position `k % 8`.
-/
namespace Varint.Dim

/-! ## one byte -/

/-- the byte that `setBit` stores: bit `i` of `b` forced to `on` -/
def setBitByte (b i : Nat) (on : Bool) : Nat :=
  if on then b + (1 - b / 2 ^ i % 2) * 2 ^ i else b - b / 2 ^ i % 2 * 2 ^ i

/-- the raw bit `k` of the cell area (no header lookup) -/
def bitAt (buf : List Nat) (dim k : Nat) : Option Bool :=
  (buf[hdrLen dim + k / 8]?).map fun b => b / 2 ^ (k % 8) % 2 = 1

theorem lt8_cases (i : Nat) (hi : i < 8) :
    i = 0 ∨ i = 1 ∨ i = 2 ∨ i = 3 ∨ i = 4 ∨ i = 5 ∨ i = 6 ∨ i = 7 := by omega

theorem setBitByte_true (b i : Nat) (hi : i < 8) : setBitByte b i true / 2 ^ i % 2 = 1 := by
  unfold setBitByte
  simp only [if_true]
  rcases lt8_cases i hi with h | h | h | h | h | h | h | h <;> subst h <;> omega

theorem setBitByte_false (b i : Nat) (hi : i < 8) : setBitByte b i false / 2 ^ i % 2 = 0 := by
  unfold setBitByte
  simp only [Bool.false_eq_true, if_false]
  rcases lt8_cases i hi with h | h | h | h | h | h | h | h <;> subst h <;> omega

/-- the addressed bit of the stored byte is the requested value -/
theorem setBitByte_bit (b i : Nat) (on : Bool) (hi : i < 8) :
    decide (setBitByte b i on / 2 ^ i % 2 = 1) = on := by
  cases on
  · rw [setBitByte_false b i hi]; decide
  · rw [setBitByte_true b i hi]; decide

theorem setBitByte_other_true (b i j : Nat) (hi : i < 8) (hj : j < 8) (hne : j ≠ i) :
    setBitByte b i true / 2 ^ j % 2 = b / 2 ^ j % 2 := by
  unfold setBitByte
  simp only [if_true]
  rcases lt8_cases i hi with h | h | h | h | h | h | h | h <;> subst h <;>
    rcases lt8_cases j hj with h | h | h | h | h | h | h | h <;> subst h <;> omega

theorem setBitByte_other_false (b i j : Nat) (hi : i < 8) (hj : j < 8) (hne : j ≠ i) :
    setBitByte b i false / 2 ^ j % 2 = b / 2 ^ j % 2 := by
  unfold setBitByte
  simp only [Bool.false_eq_true, if_false]
  rcases lt8_cases i hi with h | h | h | h | h | h | h | h <;> subst h <;>
    rcases lt8_cases j hj with h | h | h | h | h | h | h | h <;> subst h <;> omega

/-- every other bit of the stored byte is the old bit -/
theorem setBitByte_other (b i j : Nat) (on : Bool) (hi : i < 8) (hj : j < 8) (hne : j ≠ i) :
    setBitByte b i on / 2 ^ j % 2 = b / 2 ^ j % 2 := by
  cases on
  · exact setBitByte_other_false b i j hi hj hne
  · exact setBitByte_other_true b i j hi hj hne

/-- the stored byte is still a byte -/
theorem setBitByte_lt (b i : Nat) (on : Bool) (hb : b < 256) (hi : i < 8) : setBitByte b i on < 256 := by
  unfold setBitByte
  cases on
  · simp only [Bool.false_eq_true, if_false]; omega
  · simp only [if_true]
    rcases lt8_cases i hi with h | h | h | h | h | h | h | h <;> subst h <;> omega

/-- storing the value a bit already has does not change the byte -/
theorem setBitByte_noop (b i : Nat) (on : Bool) (h : decide (b / 2 ^ i % 2 = 1) = on) :
    setBitByte b i on = b := by
  unfold setBitByte
  cases on
  · simp only [Bool.false_eq_true, if_false]
    have h1 : ¬ (b / 2 ^ i % 2 = 1) := by simpa using h
    have h0 : b / 2 ^ i % 2 = 0 := by
      have := Nat.mod_lt (b / 2 ^ i) (show 0 < 2 by omega)
      omega
    rw [h0, Nat.zero_mul, Nat.sub_zero]
  · simp only [if_true]
    have h1 : b / 2 ^ i % 2 = 1 := by simpa using h
    rw [h1, Nat.sub_self, Nat.zero_mul, Nat.add_zero]

/-- flipping a bit and then storing its old value restores the byte -/
theorem setBitByte_undo (b i : Nat) (old : Bool) (hi : i < 8) (h : decide (b / 2 ^ i % 2 = 1) = old) :
    setBitByte (setBitByte b i (!old)) i old = b := by
  cases old
  · have h1 : ¬ (b / 2 ^ i % 2 = 1) := by simpa using h
    have h0 : b / 2 ^ i % 2 = 0 := by
      have := Nat.mod_lt (b / 2 ^ i) (show 0 < 2 by omega)
      omega
    have hs := setBitByte_true b i hi
    simp only [Bool.not_false]
    unfold setBitByte at hs ⊢
    simp only [if_true, Bool.false_eq_true, if_false] at hs ⊢
    rw [hs, h0, Nat.sub_zero, Nat.one_mul, Nat.add_sub_cancel]
  · have h1 : b / 2 ^ i % 2 = 1 := by simpa using h
    have hs := setBitByte_false b i hi
    have hle : 2 ^ i ≤ b := by
      apply Nat.le_of_not_lt
      intro hlt
      rw [Nat.div_eq_of_lt hlt] at h1
      omega
    unfold setBitByte at hs ⊢
    simp only [if_true, Bool.false_eq_true, if_false, Bool.not_true] at hs ⊢
    rw [hs, h1, Nat.sub_zero, Nat.one_mul]
    omega

/-! ## lists -/

theorem set_eq_self_of_getElem? (l : List Nat) (i b : Nat) (h : l[i]? = some b) : l.set i b = l := by
  apply List.ext_getElem?
  intro j
  rw [List.getElem?_set]
  by_cases hij : i = j
  · subst hij
    rw [if_pos rfl]
    have hlt : i < l.length := by
      apply Nat.lt_of_not_le
      intro hle
      rw [List.getElem?_eq_none hle] at h
      cases h
    rw [if_pos hlt, h]
  · rw [if_neg hij]

/-! ## setBit -/

/-- what a successful `setBit` did: exactly one store, at byte `hdrLen dim + k / 8` -/
theorem setBit_some (buf out : List Nat) (dim row col : Nat) (on : Bool)
    (h : setBit buf dim row col on = some out) :
    ∃ k b, cellIndex buf dim row col = some k ∧ buf[hdrLen dim + k / 8]? = some b ∧
      out = buf.set (hdrLen dim + k / 8) (setBitByte b (k % 8) on) := by
  unfold setBit at h
  cases hk : cellIndex buf dim row col with
  | none => rw [hk] at h; cases h
  | some k =>
    rw [hk] at h
    simp only [] at h
    cases hb : buf[hdrLen dim + k / 8]? with
    | none => rw [hb] at h; cases h
    | some b =>
      rw [hb] at h
      simp only [Option.some.injEq] at h
      exact ⟨k, b, rfl, hb, h.symm⟩

/-- `setBit` succeeds exactly when the cell resolves and its byte is inside the buffer -/
theorem setBit_of_index (buf : List Nat) (dim row col k b : Nat) (on : Bool)
    (hk : cellIndex buf dim row col = some k) (hb : buf[hdrLen dim + k / 8]? = some b) :
    setBit buf dim row col on = some (buf.set (hdrLen dim + k / 8) (setBitByte b (k % 8) on)) := by
  unfold setBit
  rw [hk]
  simp only []
  rw [hb]
  rfl

theorem getBit_of_index (buf : List Nat) (dim row col k : Nat) (hk : cellIndex buf dim row col = some k) :
    getBit buf dim row col = bitAt buf dim k := by
  unfold getBit bitAt
  rw [hk]

theorem setBit_length (buf out : List Nat) (dim row col : Nat) (on : Bool)
    (h : setBit buf dim row col on = some out) : out.length = buf.length := by
  obtain ⟨k, b, _, _, e⟩ := setBit_some buf out dim row col on h
  rw [e, List.length_set]

/-- target 5: the header bytes are untouched -/
theorem setBit_header (buf out : List Nat) (dim row col : Nat) (on : Bool)
    (h : setBit buf dim row col on = some out) : out.take (hdrLen dim) = buf.take (hdrLen dim) := by
  obtain ⟨k, b, _, _, e⟩ := setBit_some buf out dim row col on h
  rw [e, List.take_set_of_le (by omega)]

/-- so every cell resolves to the same bit index before and after -/
theorem setBit_cellIndex (buf out : List Nat) (dim row col : Nat) (on : Bool)
    (h : setBit buf dim row col on = some out) (r c : Nat) : cellIndex out dim r c = cellIndex buf dim r c :=
  cellIndex_congr out buf dim r c (setBit_header buf out dim row col on h) (setBit_length buf out dim row col on h)

theorem setBit_pairDecode (buf out : List Nat) (dim row col : Nat) (on : Bool)
    (h : setBit buf dim row col on = some out) : pairDecode out dim = pairDecode buf dim :=
  pairDecode_congr out buf dim (setBit_header buf out dim row col on h) (setBit_length buf out dim row col on h)

/-- target 1: a bit that was set reads back -/
theorem getBit_setBit (buf out : List Nat) (dim row col : Nat) (on : Bool)
    (h : setBit buf dim row col on = some out) : getBit out dim row col = some on := by
  have hci := setBit_cellIndex buf out dim row col on h row col
  obtain ⟨k, b, hk, hb, e⟩ := setBit_some buf out dim row col on h
  rw [getBit_of_index out dim row col k (by rw [hci, hk])]
  unfold bitAt
  have hlt : hdrLen dim + k / 8 < buf.length := by
    apply Nat.lt_of_not_le
    intro hle
    rw [List.getElem?_eq_none hle] at hb
    cases hb
  rw [e, List.getElem?_set_self hlt]
  simp only [Option.map_some, Option.some.injEq]
  exact setBitByte_bit b (k % 8) on (Nat.mod_lt _ (by omega))

/-- every byte except the one holding bit `k` is unchanged -/
theorem setBit_getElem_ne (buf out : List Nat) (dim row col k : Nat) (on : Bool)
    (hk : cellIndex buf dim row col = some k) (h : setBit buf dim row col on = some out)
    (j : Nat) (hj : j ≠ hdrLen dim + k / 8) : out[j]? = buf[j]? := by
  obtain ⟨k', b, hk', hb, e⟩ := setBit_some buf out dim row col on h
  rw [hk] at hk'
  cases hk'
  rw [e, List.getElem?_set_ne (fun hh => hj hh.symm)]

/-- every other raw bit of the cell area is unchanged -/
theorem setBit_bitAt_ne (buf out : List Nat) (dim row col k : Nat) (on : Bool)
    (hk : cellIndex buf dim row col = some k) (h : setBit buf dim row col on = some out)
    (k' : Nat) (hne : k' ≠ k) : bitAt out dim k' = bitAt buf dim k' := by
  unfold bitAt
  by_cases hbyte : k' / 8 = k / 8
  · obtain ⟨k2, b, hk2, hb, e⟩ := setBit_some buf out dim row col on h
    rw [hk] at hk2
    cases hk2
    have hlt : hdrLen dim + k / 8 < buf.length := by
      apply Nat.lt_of_not_le
      intro hle
      rw [List.getElem?_eq_none hle] at hb
      cases hb
    rw [hbyte, e, List.getElem?_set_self hlt, hb]
    simp only [Option.map_some, Option.some.injEq]
    rw [setBitByte_other b (k % 8) (k' % 8) on (Nat.mod_lt _ (by omega)) (Nat.mod_lt _ (by omega)) (by omega)]
  · rw [setBit_getElem_ne buf out dim row col k on hk h _ (by omega)]

/-- all bytes stay bytes -/
theorem setBit_bytes (buf out : List Nat) (dim row col : Nat) (on : Bool)
    (h : setBit buf dim row col on = some out) (hbytes : ∀ x ∈ buf, x < 256) : ∀ x ∈ out, x < 256 := by
  obtain ⟨k, b, _, hb, e⟩ := setBit_some buf out dim row col on h
  intro x hx
  rw [e] at hx
  rcases List.mem_or_eq_of_mem_set hx with hm | hm
  · exact hbytes x hm
  · rw [hm]
    exact setBitByte_lt b (k % 8) on (hbytes b (List.mem_of_getElem? hb)) (Nat.mod_lt _ (by omega))

/-- target 2: `setBit` on bit `k` changes no other bit, no other byte, not the length, and stores a byte -/
theorem setBit_other_bits (buf out : List Nat) (dim row col k : Nat) (on : Bool)
    (hk : cellIndex buf dim row col = some k) (h : setBit buf dim row col on = some out) :
    (∀ k', k' ≠ k →
      (out[hdrLen dim + k' / 8]?).map (fun b => decide (b / 2 ^ (k' % 8) % 2 = 1)) =
      (buf[hdrLen dim + k' / 8]?).map (fun b => decide (b / 2 ^ (k' % 8) % 2 = 1))) ∧
    (∀ j, j ≠ hdrLen dim + k / 8 → out[j]? = buf[j]?) ∧
    out.length = buf.length ∧
    out.take (hdrLen dim) = buf.take (hdrLen dim) ∧
    ((∀ x ∈ buf, x < 256) → ∀ x ∈ out, x < 256) :=
  ⟨fun k' hne => setBit_bitAt_ne buf out dim row col k on hk h k' hne,
   fun j hj => setBit_getElem_ne buf out dim row col k on hk h j hj,
   setBit_length buf out dim row col on h,
   setBit_header buf out dim row col on h,
   setBit_bytes buf out dim row col on h⟩

/-- target 2, consequence: a cell with a different bit index reads the same -/
theorem getBit_setBit_other (buf out : List Nat) (dim row col row' col' k k' : Nat) (on : Bool)
    (hk : cellIndex buf dim row col = some k) (hk' : cellIndex buf dim row' col' = some k') (hne : k' ≠ k)
    (h : setBit buf dim row col on = some out) : getBit out dim row' col' = getBit buf dim row' col' := by
  have hci := setBit_cellIndex buf out dim row col on h row' col'
  rw [getBit_of_index out dim row' col' k' (by rw [hci, hk']), getBit_of_index buf dim row' col' k' hk']
  exact setBit_bitAt_ne buf out dim row col k on hk h k' hne

/-- a cell that does not resolve (short header) still does not resolve -/
theorem getBit_setBit_unresolved (buf out : List Nat) (dim row col row' col' : Nat) (on : Bool)
    (hk' : cellIndex buf dim row' col' = none)
    (h : setBit buf dim row col on = some out) : getBit out dim row' col' = getBit buf dim row' col' := by
  have hci := setBit_cellIndex buf out dim row col on h row' col'
  unfold getBit
  rw [hci, hk']

/-- the same in the shape of `dim_cells_disjoint`: in a matrix with `cols` columns, setting bit
    (row, col) changes no other cell, no header byte and not the length -/
theorem dim_bits_disjoint (buf out : List Nat) (dim row col row' col' cols : Nat) (on : Bool)
    (hcols : ∀ r c, r ≠ 0 → cellIndex buf dim r c = some (r * cols + c))
    (hc : col < cols) (hc' : col' < cols) (hne : (row, col) ≠ (row', col'))
    (h : setBit buf dim row col on = some out) :
    getBit out dim row' col' = getBit buf dim row' col' ∧
    out.take (hdrLen dim) = buf.take (hdrLen dim) ∧ out.length = buf.length := by
  have hidx : ∀ r c, cellIndex buf dim r c = some (r * cols + c) := by
    intro r c
    by_cases hr : r = 0
    · subst hr; simp [cellIndex]
    · exact hcols r c hr
  refine ⟨?_, setBit_header buf out dim row col on h, setBit_length buf out dim row col on h⟩
  apply getBit_setBit_other buf out dim row col row' col' _ _ on (hidx row col) (hidx row' col') _ h
  intro he
  obtain ⟨h1, h2⟩ := index_inj cols row' col' row col hc' hc he
  exact hne (by rw [h1, h2])

/-- target 3: setting a bit to the value it already has returns the same buffer -/
theorem setBit_noop (buf : List Nat) (dim row col : Nat) (on : Bool)
    (h : getBit buf dim row col = some on) : setBit buf dim row col on = some buf := by
  unfold getBit at h
  cases hk : cellIndex buf dim row col with
  | none => rw [hk] at h; cases h
  | some k =>
    rw [hk] at h
    simp only [] at h
    cases hb : buf[hdrLen dim + k / 8]? with
    | none => rw [hb] at h; cases h
    | some b =>
      rw [hb] at h
      simp only [Option.map_some, Option.some.injEq] at h
      rw [setBit_of_index buf dim row col k b on hk hb, setBitByte_noop b (k % 8) on h,
        set_eq_self_of_getElem? buf _ b hb]

/-- target 3: setting twice is the same as setting once -/
theorem setBit_idempotent (buf out : List Nat) (dim row col : Nat) (on : Bool)
    (h : setBit buf dim row col on = some out) : setBit out dim row col on = some out :=
  setBit_noop out dim row col on (getBit_setBit buf out dim row col on h)

/-- the last store wins -/
theorem setBit_setBit (buf out : List Nat) (dim row col : Nat) (on on' : Bool)
    (h : setBit buf dim row col on = some out) :
    ∃ out', setBit out dim row col on' = some out' ∧ getBit out' dim row col = some on' ∧
      out'.length = buf.length ∧ out'.take (hdrLen dim) = buf.take (hdrLen dim) := by
  have hci := setBit_cellIndex buf out dim row col on h row col
  have hlen := setBit_length buf out dim row col on h
  have hhdr := setBit_header buf out dim row col on h
  obtain ⟨k, b, hk, hb, e⟩ := setBit_some buf out dim row col on h
  have hlt : hdrLen dim + k / 8 < buf.length := by
    apply Nat.lt_of_not_le
    intro hle
    rw [List.getElem?_eq_none hle] at hb
    cases hb
  have hb' : out[hdrLen dim + k / 8]? = some (setBitByte b (k % 8) on) := by
    rw [e, List.getElem?_set_self hlt]
  have hs := setBit_of_index out dim row col k _ on' (by rw [hci, hk]) hb'
  refine ⟨_, hs, getBit_setBit _ _ _ _ _ _ hs, ?_, ?_⟩
  · rw [setBit_length _ _ _ _ _ _ hs, hlen]
  · rw [setBit_header _ _ _ _ _ _ hs, hhdr]

/-! ## toggleBit -/

theorem toggleBit_some (buf out : List Nat) (dim row col : Nat) (old : Bool)
    (h : toggleBit buf dim row col = some (out, old)) :
    getBit buf dim row col = some old ∧ setBit buf dim row col (!old) = some out := by
  unfold toggleBit at h
  cases hg : getBit buf dim row col with
  | none => rw [hg] at h; cases h
  | some o =>
    rw [hg] at h
    simp only [] at h
    cases hs : setBit buf dim row col (!o) with
    | none => rw [hs] at h; cases h
    | some o2 =>
      rw [hs] at h
      simp only [Option.map_some, Option.some.injEq, Prod.mk.injEq] at h
      obtain ⟨h1, h2⟩ := h
      subst h1; subst h2
      exact ⟨rfl, hs⟩

/-- target 4: `toggleBit` reports the old value and the cell then reads as its negation -/
theorem toggleBit_spec (buf out : List Nat) (dim row col : Nat) (old : Bool)
    (h : toggleBit buf dim row col = some (out, old)) :
    getBit buf dim row col = some old ∧ getBit out dim row col = some (!old) ∧
    out.length = buf.length ∧ out.take (hdrLen dim) = buf.take (hdrLen dim) := by
  obtain ⟨hg, hs⟩ := toggleBit_some buf out dim row col old h
  exact ⟨hg, getBit_setBit buf out dim row col (!old) hs, setBit_length _ _ _ _ _ _ hs,
    setBit_header _ _ _ _ _ _ hs⟩

/-- `toggleBit` succeeds whenever the bit can be read -/
theorem toggleBit_of_getBit (buf : List Nat) (dim row col : Nat) (old : Bool)
    (h : getBit buf dim row col = some old) : ∃ out, toggleBit buf dim row col = some (out, old) := by
  unfold getBit at h
  cases hk : cellIndex buf dim row col with
  | none => rw [hk] at h; cases h
  | some k =>
    rw [hk] at h
    simp only [] at h
    cases hb : buf[hdrLen dim + k / 8]? with
    | none => rw [hb] at h; cases h
    | some b =>
      have hg : getBit buf dim row col = some old := by
        unfold getBit
        rw [hk]
        exact h
      unfold toggleBit
      rw [hg]
      simp only []
      rw [setBit_of_index buf dim row col k b (!old) hk hb]
      exact ⟨_, rfl⟩

/-- target 4: toggling changes no other bit, no other byte, not the length, not the header -/
theorem toggleBit_other_bits (buf out : List Nat) (dim row col k : Nat) (old : Bool)
    (hk : cellIndex buf dim row col = some k) (h : toggleBit buf dim row col = some (out, old)) :
    (∀ k', k' ≠ k →
      (out[hdrLen dim + k' / 8]?).map (fun b => decide (b / 2 ^ (k' % 8) % 2 = 1)) =
      (buf[hdrLen dim + k' / 8]?).map (fun b => decide (b / 2 ^ (k' % 8) % 2 = 1))) ∧
    (∀ j, j ≠ hdrLen dim + k / 8 → out[j]? = buf[j]?) ∧
    out.length = buf.length ∧
    out.take (hdrLen dim) = buf.take (hdrLen dim) ∧
    ((∀ x ∈ buf, x < 256) → ∀ x ∈ out, x < 256) :=
  setBit_other_bits buf out dim row col k (!old) hk (toggleBit_some buf out dim row col old h).2

theorem getBit_toggleBit_other (buf out : List Nat) (dim row col row' col' k k' : Nat) (old : Bool)
    (hk : cellIndex buf dim row col = some k) (hk' : cellIndex buf dim row' col' = some k') (hne : k' ≠ k)
    (h : toggleBit buf dim row col = some (out, old)) : getBit out dim row' col' = getBit buf dim row' col' :=
  getBit_setBit_other buf out dim row col row' col' k k' (!old) hk hk' hne
    (toggleBit_some buf out dim row col old h).2

/-- target 4: toggling twice restores the buffer (and reports the flipped value) -/
theorem toggleBit_toggleBit (buf out : List Nat) (dim row col : Nat) (old : Bool)
    (h : toggleBit buf dim row col = some (out, old)) : toggleBit out dim row col = some (buf, !old) := by
  obtain ⟨hg, hs⟩ := toggleBit_some buf out dim row col old h
  have hg' := getBit_setBit buf out dim row col (!old) hs
  have hci := setBit_cellIndex buf out dim row col (!old) hs row col
  obtain ⟨k, b, hk, hb, e⟩ := setBit_some buf out dim row col (!old) hs
  have hlt : hdrLen dim + k / 8 < buf.length := by
    apply Nat.lt_of_not_le
    intro hle
    rw [List.getElem?_eq_none hle] at hb
    cases hb
  have hb' : out[hdrLen dim + k / 8]? = some (setBitByte b (k % 8) (!old)) := by
    rw [e, List.getElem?_set_self hlt]
  have hold : decide (b / 2 ^ (k % 8) % 2 = 1) = old := by
    rw [getBit_of_index buf dim row col k hk] at hg
    unfold bitAt at hg
    rw [hb] at hg
    simpa using hg
  unfold toggleBit
  rw [hg']
  simp only []
  rw [setBit_of_index out dim row col k _ (!(!old)) (by rw [hci, hk]) hb']
  simp only [Option.map_some, Bool.not_not, Option.some.injEq, Prod.mk.injEq, and_true]
  rw [setBitByte_undo b (k % 8) old (Nat.mod_lt _ (by omega)) hold, e, List.set_set,
    set_eq_self_of_getElem? buf _ b hb]

end Varint.Dim
