import Varint.Spec.Scalar
import Varint.Lemmas.Tagged
import Varint.Lemmas.Chained
import Varint.Lemmas.Lex
/- model encoders = documented formats -/
namespace Varint

theorem tagged_enc_eq_spec (v : Nat) (hv : v < 2 ^ 64) : Tagged.enc v = Spec.tagged v := by
  unfold Tagged.enc Spec.tagged
  repeat' split
  all_goals (try omega)
  all_goals simp [beBytes]
  all_goals omega

theorem flagged_eq_be7 (k x : Nat) : Chained.flagged k x = (Spec.be7 k x).map (· + 128) := by
  induction k generalizing x with
  | zero => rfl
  | succ k ih =>
    -- flagged (k+1) x = head :: flagged k x ; be7 (k+1) x = be7 k (x/128) ++ [x%128]
    have hsnoc : ∀ k x, Chained.flagged (k + 1) x = Chained.flagged k (x / 128) ++ [x % 128 + 128] := by
      intro k
      induction k with
      | zero => intro x; simp [Chained.flagged]
      | succ k ihk =>
        intro x
        rw [Chained.flagged, ihk x]
        conv => rhs; rw [Chained.flagged]
        simp only [List.cons_append, List.cons.injEq, and_true]
        rw [Nat.div_div_eq_div_mul, Nat.pow_succ, Nat.mul_comm]
    rw [hsnoc, Spec.be7, List.map_append, ih]
    rfl

theorem chained_enc_eq_spec (v : Nat) (hv : v < 2 ^ 64) : Chained.enc v = Spec.chained v := by
  unfold Chained.enc Spec.chained Spec.groups7
  by_cases h : v / 2 ^ 56 % 256 ≠ 0
  · have h2 : ¬ v < 2 ^ 56 := by omega
    rw [if_pos h, if_neg h2, flagged_eq_be7]
  · have h2 : v < 2 ^ 56 := by omega
    rw [if_neg h, if_pos h2]
    have h1 := len7_pos v
    obtain ⟨n, hn⟩ : ∃ n, len7 v = n + 1 := ⟨len7 v - 1, by omega⟩
    rw [hn, Chained.groups_eq, flagged_eq_be7]
    simp

theorem csimple_encAux_spec (fuel i v : Nat) (hf : 9 ≤ i + fuel) (hi : i ≤ 8) (hv : v < 2 ^ (64 - 7 * i)) :
    ChainedSimple.encAux fuel i v =
      (Spec.le7 (min (9 - i) (len7 v) - 1) v).map (· + 128) ++ [v / 128 ^ (min (9 - i) (len7 v) - 1)] := by
  induction fuel generalizing i v with
  | zero => omega
  | succ fuel ih =>
    unfold ChainedSimple.encAux
    by_cases h : v ≥ 128 ∧ i < 8
    · rw [if_pos h]
      have hv' : v / 128 < 2 ^ (64 - 7 * (i + 1)) := by
        have e : 64 - 7 * i = (64 - 7 * (i + 1)) + 7 := by omega
        rw [e, Nat.pow_add] at hv
        omega
      rw [ih (i + 1) (v / 128) (by omega) (by omega) hv']
      have hl : len7 v = 1 + len7 (v / 128) := by
        rw [len7_eq v, if_neg (by omega)]
      have hp := len7_pos (v / 128)
      have e : min (9 - i) (len7 v) - 1 = (min (9 - (i + 1)) (len7 (v / 128)) - 1) + 1 := by omega
      rw [e, Spec.le7, List.map_cons, List.cons_append, Nat.pow_succ, Nat.mul_comm, ← Nat.div_div_eq_div_mul]
    · rw [if_neg h]
      have hv256 : v < 256 := by
        by_cases hv128 : v < 128
        · omega
        · have : i = 8 := by omega
          subst this; simpa using hv
      have hmin : min (9 - i) (len7 v) - 1 = 0 := by
        by_cases hv128 : v < 128
        · rw [len7_eq, if_pos hv128]; omega
        · have : i = 8 := by omega
          subst this; have := len7_pos v; omega
      rw [hmin]
      simp [Spec.le7, Nat.mod_eq_of_lt hv256]

theorem csimple_enc_eq_spec (v : Nat) (hv : v < 2 ^ 64) : ChainedSimple.enc v = Spec.leb128cap9 v := by
  unfold ChainedSimple.enc Spec.leb128cap9 Spec.groups7
  rw [csimple_encAux_spec 9 0 v (by omega) (by omega) (by simpa using hv)]
  have hp := len7_pos v
  by_cases h : v < 2 ^ 56
  · rw [if_pos h]
    have h8 := len7_le_of_lt (v := v) (k := 8) (by omega) (by
      have : (128 : Nat) ^ 8 = 2 ^ 56 := by rfl
      omega)
    have e : min (9 - 0) (len7 v) - 1 = len7 v - 1 := by omega
    rw [e]
  · rw [if_neg h]
    have h9 : 9 ≤ len7 v := by
      apply Nat.le_of_not_lt
      intro hlt
      have := lt_pow_len7 v
      have h2 : 128 ^ len7 v ≤ 128 ^ 8 := Nat.pow_le_pow_right (by omega) (by omega)
      have : (128 : Nat) ^ 8 = 2 ^ 56 := by rfl
      omega
    have e : min (9 - 0) (len7 v) - 1 = 8 := by omega
    rw [e]

end Varint
