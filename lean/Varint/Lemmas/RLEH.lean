import Varint.Lemmas.RLE
/- More lemmas about the run-length codec model: count header, random access, capacity, prefix decoding,
   maximality of the runs. -/
namespace Varint.RLE

/-! ### generic facts about run lists -/

theorem length_le_total (rs : List (Nat × Nat)) (hpos : ∀ r ∈ rs, 1 ≤ r.1) : rs.length ≤ total rs := by
  induction rs with
  | nil => simp [total]
  | cons a rs ih =>
    obtain ⟨l, v⟩ := a
    rw [total_cons, List.length_cons]
    have h1 : 1 ≤ l := hpos (l, v) (by simp)
    have h2 := ih (fun r hr => hpos r (by simp [hr]))
    omega

theorem runs_length_le (xs : List Nat) : (runs xs).length ≤ xs.length := by
  have := length_le_total (runs xs) (runs_pos xs)
  rw [total_runs] at this
  exact this

theorem runs_lt (xs : List Nat) (hx : ∀ x ∈ xs, x < 2 ^ 64) (hn : xs.length < 2 ^ 64) :
    ∀ r ∈ runs xs, r.1 < 2 ^ 64 ∧ r.2 < 2 ^ 64 := by
  intro r hr
  have h1 := le_total_of_mem _ r hr
  rw [total_runs] at h1
  exact ⟨by omega, hx _ (runs_vals xs r hr)⟩

theorem encRuns_cons (l v : Nat) (rs : List (Nat × Nat)) (rest : List Nat) :
    encRuns ((l, v) :: rs) ++ rest = Tagged.enc l ++ Tagged.enc v ++ (encRuns rs ++ rest) := by
  simp [encRuns]

/-! ### 1. decoder with count header -/

theorem decHAux_enc (rs : List (Nat × Nat)) (fuel d cap : Nat) (hf : rs.length < fuel)
    (hcap : d + total rs ≤ cap)
    (hpos : ∀ r ∈ rs, 1 ≤ r.1) (hlt : ∀ r ∈ rs, r.1 < 2 ^ 64 ∧ r.2 < 2 ^ 64) (rest : List Nat) :
    decHAux fuel d (d + total rs) cap (encRuns rs ++ rest) = some (expand rs) := by
  induction rs generalizing fuel d with
  | nil =>
    obtain ⟨f, rfl⟩ : ∃ f, fuel = f + 1 := ⟨fuel - 1, by simp at hf; omega⟩
    simp [decHAux, total, expand]
  | cons r rs ih =>
    obtain ⟨l, v⟩ := r
    obtain ⟨f, rfl⟩ : ∃ f, fuel = f + 1 := ⟨fuel - 1, by simp at hf; omega⟩
    have hl1 : 1 ≤ l := hpos (l, v) (by simp)
    have hb := hlt (l, v) (by simp)
    rw [total_cons] at hcap
    have hstop : ¬ (d ≥ d + total ((l, v) :: rs) ∨ d ≥ cap) := by rw [total_cons]; omega
    rw [decHAux, if_neg hstop, encRuns_cons, getRun_enc l v hb.1 hb.2]
    simp only []
    have hw : min l (cap - d) = l := by omega
    have ht : d + total ((l, v) :: rs) = (d + l) + total rs := by rw [total_cons]; omega
    rw [hw, ht, ih f (d + l) (by simp at hf; omega) (by omega)
      (fun r hr => hpos r (by simp [hr])) (fun r hr => hlt r (by simp [hr]))]
    simp [expand_cons]

theorem decH_encH (xs : List Nat) (hx : ∀ x ∈ xs, x < 2 ^ 64) (hn : xs.length < 2 ^ 64) (cap : Nat)
    (hcap : xs.length ≤ cap) (rest : List Nat) :
    decH (encH xs ++ rest) cap = some (some xs) := by
  unfold decH encH
  rw [List.append_assoc, Tagged.get_enc xs.length hn]
  simp only []
  rw [if_neg (by omega), List.drop_left]
  unfold enc
  have hlen := runs_length_le xs
  have h := decHAux_enc (runs xs) ((Tagged.enc xs.length ++ (encRuns (runs xs) ++ rest)).length + xs.length + 2)
    0 cap (by omega) (by rw [total_runs]; omega) (runs_pos xs) (runs_lt xs hx hn) rest
  rw [total_runs, expand_runs, Nat.zero_add] at h
  rw [h]
  rfl

theorem decH_encH_small (xs : List Nat) (hn : xs.length < 2 ^ 64) (cap : Nat)
    (hcap : cap < xs.length) (rest : List Nat) :
    decH (encH xs ++ rest) cap = some none := by
  unfold decH encH
  rw [List.append_assoc, Tagged.get_enc xs.length hn]
  simp only []
  rw [if_pos (by omega)]

/-! ### 2. random access -/

theorem getD_replicate_append (l v : Nat) (ys : List Nat) (k : Nat) :
    (List.replicate l v ++ ys).getD k 0 = if k < l then v else ys.getD (k - l) 0 := by
  simp only [List.getD_eq_getElem?_getD]
  by_cases hk : k < l
  · rw [if_pos hk, List.getElem?_append_left (by simpa using hk), List.getElem?_replicate, if_pos hk]
    rfl
  · rw [if_neg hk, List.getElem?_append_right (by simpa using hk), List.length_replicate]

theorem getAtAux_enc (rs : List (Nat × Nat)) (fuel pos i : Nat) (hp : pos ≤ i) (hi : i < pos + total rs)
    (hf : i + 1 ≤ fuel + pos)
    (hpos : ∀ r ∈ rs, 1 ≤ r.1) (hlt : ∀ r ∈ rs, r.1 < 2 ^ 64 ∧ r.2 < 2 ^ 64) (rest : List Nat) :
    getAtAux fuel pos i (encRuns rs ++ rest) = some ((expand rs).getD (i - pos) 0) := by
  induction rs generalizing fuel pos with
  | nil => simp [total] at hi; omega
  | cons r rs ih =>
    obtain ⟨l, v⟩ := r
    obtain ⟨f, rfl⟩ : ∃ f, fuel = f + 1 := ⟨fuel - 1, by omega⟩
    have hl1 : 1 ≤ l := hpos (l, v) (by simp)
    have hb := hlt (l, v) (by simp)
    rw [total_cons] at hi
    rw [getAtAux, encRuns_cons, getRun_enc l v hb.1 hb.2]
    simp only []
    rw [if_neg (by omega), expand_cons, getD_replicate_append]
    by_cases hgt : pos + l > i
    · rw [if_pos hgt, if_pos (by omega)]
    · rw [if_neg hgt, if_neg (by omega),
        ih f (pos + l) (by omega) (by omega) (by omega)
          (fun r hr => hpos r (by simp [hr])) (fun r hr => hlt r (by simp [hr]))]
      have e : i - (pos + l) = i - pos - l := by omega
      rw [e]

theorem getAt_enc (xs : List Nat) (hx : ∀ x ∈ xs, x < 2 ^ 64) (hn : xs.length < 2 ^ 64) (i : Nat) (hi : i < xs.length)
    (rest : List Nat) : getAt (enc xs ++ rest) i = some (xs.getD i 0) := by
  unfold getAt enc
  have h := getAtAux_enc (runs xs) (i + 2) 0 i (by omega) (by rw [total_runs]; omega) (by omega)
    (runs_pos xs) (runs_lt xs hx hn) rest
  rw [expand_runs, Nat.sub_zero] at h
  exact h

/-! ### 3. capacity, for arbitrary input bytes -/

theorem decHAux_length_le (fuel d total cap : Nat) (bs vs : List Nat) (hd : d ≤ cap)
    (h : decHAux fuel d total cap bs = some vs) : d + vs.length ≤ cap := by
  induction fuel generalizing d bs vs with
  | zero => simp [decHAux] at h
  | succ f ih =>
    rw [decHAux] at h
    by_cases hstop : d ≥ total ∨ d ≥ cap
    · rw [if_pos hstop] at h
      injection h with h
      subst h
      simpa using hd
    · rw [if_neg hstop] at h
      cases hg : getRun bs with
      | none => rw [hg] at h; simp at h
      | some t =>
        obtain ⟨l, v, rest⟩ := t
        rw [hg] at h
        simp only [] at h
        cases hr : decHAux f (d + min l (cap - d)) total cap rest with
        | none => rw [hr] at h; simp at h
        | some vs' =>
          rw [hr] at h
          simp only [Option.map_some] at h
          injection h with h
          subst h
          have := ih (d + min l (cap - d)) rest vs' (by omega) hr
          simp only [List.length_append, List.length_replicate]
          omega

theorem decH_length_le_cap (bs : List Nat) (cap : Nat) (vs : List Nat)
    (h : decH bs cap = some (some vs)) : vs.length ≤ cap := by
  unfold decH at h
  split at h
  · rename_i total n1 hget
    by_cases ht : total > cap
    · rw [if_pos ht] at h; simp at h
    · rw [if_neg ht] at h
      cases hr : decHAux (bs.length + total + 2) 0 total cap (bs.drop n1) with
      | none => rw [hr] at h; simp at h
      | some vs' =>
        rw [hr] at h
        simp only [Option.map_some] at h
        injection h with h
        injection h with h
        subst h
        have := decHAux_length_le _ 0 total cap _ vs' (by omega) hr
        omega
  · simp at h

/-! ### 4. headerless decoder with a capacity smaller than the data: exact prefix -/

theorem decAux_enc_prefix (rs : List (Nat × Nat)) (fuel room : Nat) (hf : room < fuel)
    (hroom : room ≤ total rs)
    (hpos : ∀ r ∈ rs, 1 ≤ r.1) (hlt : ∀ r ∈ rs, r.1 < 2 ^ 64 ∧ r.2 < 2 ^ 64) (rest : List Nat) :
    decAux fuel room (encRuns rs ++ rest) = some ((expand rs).take room) := by
  induction rs generalizing fuel room with
  | nil =>
    obtain ⟨f, rfl⟩ : ∃ f, fuel = f + 1 := ⟨fuel - 1, by omega⟩
    have h0 : room = 0 := by simpa [total] using hroom
    subst h0
    simp [decAux]
  | cons r rs ih =>
    obtain ⟨l, v⟩ := r
    obtain ⟨f, rfl⟩ : ∃ f, fuel = f + 1 := ⟨fuel - 1, by omega⟩
    have hl1 : 1 ≤ l := hpos (l, v) (by simp)
    have hb := hlt (l, v) (by simp)
    rw [total_cons] at hroom
    rw [decAux]
    by_cases h0 : room = 0
    · rw [if_pos h0, h0]; simp
    · rw [if_neg h0, encRuns_cons, getRun_enc l v hb.1 hb.2]
      simp only []
      rw [if_neg (by omega), expand_cons, List.take_append, List.take_replicate, List.length_replicate]
      by_cases hge : l ≥ room
      · rw [if_pos hge]
        have e1 : min room l = room := by omega
        have e2 : room - l = 0 := by omega
        rw [e1, e2]; simp
      · rw [if_neg hge]
        have e1 : min room l = l := by omega
        rw [e1, ih f (room - l) (by omega) (by omega)
          (fun r hr => hpos r (by simp [hr])) (fun r hr => hlt r (by simp [hr]))]
        rfl

theorem dec_enc_prefix (xs : List Nat) (hx : ∀ x ∈ xs, x < 2 ^ 64) (hn : xs.length < 2 ^ 64) (cap : Nat)
    (hcap : cap ≤ xs.length) (rest : List Nat) :
    dec (enc xs ++ rest) cap = some (xs.take cap) := by
  unfold dec enc
  have h := decAux_enc_prefix (runs xs) (cap + 1) cap (by omega) (by rw [total_runs]; exact hcap)
    (runs_pos xs) (runs_lt xs hx hn) rest
  rw [expand_runs] at h
  exact h

/-! ### 5. metadata: the runs are maximal -/

theorem runCount_eq (xs : List Nat) : runCount xs = (runs xs).length := rfl

/-- consecutive runs carry different values -/
def AdjNe : List (Nat × Nat) → Prop
  | [] => True
  | [_] => True
  | a :: b :: rs => a.2 ≠ b.2 ∧ AdjNe (b :: rs)

theorem runs_adjNe (xs : List Nat) : AdjNe (runs xs) := by
  induction xs with
  | nil => simp [runs, AdjNe]
  | cons x xs ih =>
    simp only [runs]
    cases h : runs xs with
    | nil => simp [AdjNe]
    | cons r rest =>
      obtain ⟨l, v⟩ := r
      rw [h] at ih
      simp only []
      split
      · cases rest with
        | nil => simp [AdjNe]
        | cons b rest' =>
          simp only [AdjNe] at ih ⊢
          exact ih
      · rename_i hv
        simp only [AdjNe]
        exact ⟨fun e => hv e.symm, ih⟩

theorem adjNe_getElem (rs : List (Nat × Nat)) (h : AdjNe rs) (k : Nat) (hk : k + 1 < rs.length) :
    (rs[k]'(by omega)).2 ≠ (rs[k + 1]'hk).2 := by
  induction rs generalizing k with
  | nil => simp at hk
  | cons a rs ih =>
    cases rs with
    | nil => simp at hk
    | cons b rs' =>
      simp only [AdjNe] at h
      cases k with
      | zero => simpa using h.1
      | succ k =>
        simp only [List.getElem_cons_succ]
        exact ih h.2 k (by simp at hk ⊢; omega)

/-- index form of maximality: runs `k` and `k+1` never carry the same value -/
theorem runs_adjacent_ne (xs : List Nat) (k : Nat) (hk : k + 1 < (runs xs).length) :
    ((runs xs)[k]'(by omega)).2 ≠ ((runs xs)[k + 1]'hk).2 :=
  adjNe_getElem (runs xs) (runs_adjNe xs) k hk

theorem runs_eq_nil (xs : List Nat) : runs xs = [] ↔ xs = [] := by
  constructor
  · intro h
    have := expand_runs xs
    rw [h] at this
    exact this.symm
  · intro h; subst h; rfl

theorem runCount_eq_zero (xs : List Nat) : runCount xs = 0 ↔ xs = [] := by
  rw [runCount_eq, List.length_eq_zero_iff, runs_eq_nil]

theorem runCount_le (xs : List Nat) : runCount xs ≤ xs.length := runs_length_le xs

/-- the run decomposition is the ONLY one with positive lengths and distinct neighbours -/
theorem runs_unique (rs : List (Nat × Nat)) (hpos : ∀ r ∈ rs, 1 ≤ r.1) (hadj : AdjNe rs) :
    runs (expand rs) = rs := by
  induction rs with
  | nil => rfl
  | cons a rs ih =>
    obtain ⟨l, v⟩ := a
    have hl1 : 1 ≤ l := hpos (l, v) (by simp)
    have ih' := ih (fun r hr => hpos r (by simp [hr]))
      (by cases rs with
          | nil => simp [AdjNe]
          | cons b rs' => simp only [AdjNe] at hadj; exact hadj.2)
    rw [expand_cons]
    -- peel the `l` copies of `v` one at a time
    have key : ∀ m, runs (List.replicate (m + 1) v ++ expand rs) = (m + 1, v) :: rs := by
      intro m
      induction m with
      | zero =>
        simp only [Nat.zero_add, List.replicate_succ, List.replicate_zero, List.cons_append,
          List.nil_append, runs]
        rw [ih']
        cases rs with
        | nil => rfl
        | cons b rs' =>
          obtain ⟨l2, v2⟩ := b
          simp only [AdjNe] at hadj
          simp only []
          rw [if_neg (fun e => hadj.1 e.symm)]
      | succ m ihm =>
        rw [List.replicate_succ, List.cons_append]
        simp only [runs]
        rw [ihm]
        simp
    obtain ⟨m, rfl⟩ : ∃ m, l = m + 1 := ⟨l - 1, by omega⟩
    exact key m

end Varint.RLE
