import Varint.Model.Group
import Varint.Lemmas.Bytes
/- Lemmas about the varintGroup model. Core Lean only. -/
namespace Varint.Group

def Ok (xs : List Nat) : Prop := 1 ≤ xs.length ∧ xs.length ≤ 64 ∧ ∀ x ∈ xs, x < 2 ^ 64

/-! generic `mapM` over `Option` -/

theorem mapM_eq_some_map {α β : Type} (f : α → Option β) (g : α → β) (l : List α)
    (h : ∀ a ∈ l, f a = some (g a)) : l.mapM f = some (l.map g) := by
  induction l with
  | nil => rfl
  | cons a l ih =>
    rw [List.mapM_cons, h a (by simp), ih (fun b hb => h b (by simp [hb]))]
    rfl

theorem mapM_some_length {α β : Type} (f : α → Option β) (l : List α) (r : List β)
    (h : l.mapM f = some r) : r.length = l.length := by
  induction l generalizing r with
  | nil =>
    rw [List.mapM_nil] at h
    cases h; rfl
  | cons a l ih =>
    rw [List.mapM_cons] at h
    cases hfa : f a with
    | none => rw [hfa] at h; cases h
    | some b =>
      cases hl : l.mapM f with
      | none => rw [hfa, hl] at h; cases h
      | some bs =>
        rw [hfa, hl] at h
        cases h
        simp [ih bs hl]

/-! width normalisation -/

theorem normW_cases (x : Nat) : normW x = 1 ∨ normW x = 2 ∨ normW x = 4 ∨ normW x = 8 := by
  unfold normW
  simp only
  split
  · exact Or.inl rfl
  · split
    · exact Or.inr (Or.inl rfl)
    · split
      · exact Or.inr (Or.inr (Or.inl rfl))
      · exact Or.inr (Or.inr (Or.inr rfl))

theorem normW_pos (x : Nat) : 1 ≤ normW x := by
  rcases normW_cases x with h | h | h | h <;> omega

theorem normW_le_8 (x : Nat) : normW x ≤ 8 := by
  rcases normW_cases x with h | h | h | h <;> omega

theorem extLen_le_normW {x : Nat} (h : x < 2 ^ 64) : extLen x ≤ normW x := by
  have h8 := extLen_le_8 h
  unfold normW
  simp only
  split
  · assumption
  · split
    · assumption
    · split
      · assumption
      · exact h8

theorem lt_pow_normW {x : Nat} (h : x < 2 ^ 64) : x < 256 ^ normW x :=
  Nat.lt_of_lt_of_le (lt_pow_extLen x) (Nat.pow_le_pow_right (by omega) (extLen_le_normW h))

theorem code_lt (w : Nat) : code w < 4 := by
  unfold code
  split
  · omega
  · split
    · omega
    · split <;> omega

theorem width_code_normW (x : Nat) : width (code (normW x)) = normW x := by
  rcases normW_cases x with h | h | h | h <;> rw [h] <;> rfl

/-! the bitmap -/

theorem packCodes_length : ∀ (n : Nat) (cs : List Nat), cs.length ≤ n →
    (packCodes cs).length = bitmapSize cs.length := by
  intro n
  induction n with
  | zero =>
    intro cs h
    cases cs with
    | nil => rfl
    | cons a t => simp at h
  | succ n ih =>
    intro cs h
    match cs, h with
    | [], _ => rfl
    | [_], _ => simp [packCodes, bitmapSize]
    | [_, _], _ => simp [packCodes, bitmapSize]
    | [_, _, _], _ => simp [packCodes, bitmapSize]
    | a :: b :: c :: d :: t, h =>
      simp only [List.length_cons] at h
      simp only [packCodes, List.length_cons, ih t (by omega), bitmapSize]
      omega

/-- field code read from a bare bitmap (no count byte in front) -/
def codeAt' (L : List Nat) (i : Nat) : Option Nat :=
  (L[i / 4]?).map fun b => b / 4 ^ (i % 4) % 4

theorem codeAt_cons (c : Nat) (L : List Nat) (i : Nat) : codeAt (c :: L) i = codeAt' L i := by
  unfold codeAt codeAt'
  rw [Nat.add_comm 1 (i / 4), List.getElem?_cons_succ]

theorem codeAt'_zero_div (b : Nat) (L : List Nat) (i : Nat) (hi : i < 4) :
    codeAt' (b :: L) i = some (b / 4 ^ i % 4) := by
  unfold codeAt'
  have h1 : i / 4 = 0 := by omega
  have h2 : i % 4 = i := by omega
  rw [h1, h2]
  rfl

theorem codeAt'_add4 (b : Nat) (L : List Nat) (j : Nat) :
    codeAt' (b :: L) (j + 4) = codeAt' L j := by
  unfold codeAt'
  have h1 : (j + 4) / 4 = j / 4 + 1 := by omega
  have h2 : (j + 4) % 4 = j % 4 := by omega
  rw [h1, h2, List.getElem?_cons_succ]

theorem lt4_cases {i : Nat} (h : i < 4) : i = 0 ∨ i = 1 ∨ i = 2 ∨ i = 3 := by omega

theorem codeAt'_pack : ∀ (n : Nat) (cs : List Nat), cs.length ≤ n → (∀ c ∈ cs, c < 4) →
    ∀ (rest : List Nat) (i : Nat), i < cs.length →
      codeAt' (packCodes cs ++ rest) i = some (cs.getD i 0) := by
  intro n
  induction n with
  | zero =>
    intro cs h _ rest i hi
    omega
  | succ n ih =>
    intro cs h hc rest i hi
    match cs, h, hc, hi with
    | [], _, _, hi => simp at hi
    | [a], _, hc, hi =>
      have ha : a < 4 := hc a (by simp)
      simp only [List.length_cons, List.length_nil] at hi
      have : i = 0 := by omega
      subst this
      simp only [packCodes, List.cons_append, List.nil_append]
      rw [codeAt'_zero_div _ _ 0 (by omega)]
      simp only [List.getD_cons_zero]
      congr 1
      omega
    | [a, b], _, hc, hi =>
      have ha : a < 4 := hc a (by simp)
      have hb : b < 4 := hc b (by simp)
      simp only [List.length_cons, List.length_nil] at hi
      simp only [packCodes, List.cons_append, List.nil_append]
      rw [codeAt'_zero_div _ _ i (by omega)]
      have : i = 0 ∨ i = 1 := by omega
      rcases this with rfl | rfl
      · simp only [List.getD_cons_zero]; congr 1; omega
      · simp only [List.getD_cons_succ, List.getD_cons_zero]; congr 1; omega
    | [a, b, c], _, hc, hi =>
      have ha : a < 4 := hc a (by simp)
      have hb : b < 4 := hc b (by simp)
      have hcc : c < 4 := hc c (by simp)
      simp only [List.length_cons, List.length_nil] at hi
      simp only [packCodes, List.cons_append, List.nil_append]
      rw [codeAt'_zero_div _ _ i (by omega)]
      have : i = 0 ∨ i = 1 ∨ i = 2 := by omega
      rcases this with rfl | rfl | rfl
      · simp only [List.getD_cons_zero]; congr 1; omega
      · simp only [List.getD_cons_succ, List.getD_cons_zero]; congr 1; omega
      · simp only [List.getD_cons_succ, List.getD_cons_zero]; congr 1; omega
    | a :: b :: c :: d :: t, h, hc, hi =>
      have ha : a < 4 := hc a (by simp)
      have hb : b < 4 := hc b (by simp)
      have hcc : c < 4 := hc c (by simp)
      have hd : d < 4 := hc d (by simp)
      simp only [List.length_cons] at h hi
      simp only [packCodes, List.cons_append]
      by_cases h4 : i < 4
      · rw [codeAt'_zero_div _ _ i h4]
        rcases lt4_cases h4 with rfl | rfl | rfl | rfl
        · simp only [List.getD_cons_zero]; congr 1; omega
        · simp only [List.getD_cons_succ, List.getD_cons_zero]; congr 1; omega
        · simp only [List.getD_cons_succ, List.getD_cons_zero]; congr 1; omega
        · simp only [List.getD_cons_succ, List.getD_cons_zero]; congr 1; omega
      · obtain ⟨j, rfl⟩ : ∃ j, i = j + 4 := ⟨i - 4, by omega⟩
        rw [codeAt'_add4]
        simp only [List.getD_cons_succ]
        exact ih t (by omega) (fun x hx => hc x (by simp [hx])) rest j (by omega)

/-! layout of an encoding -/

def codes (xs : List Nat) : List Nat := xs.map fun x => code (normW x)
def vals (xs : List Nat) : List Nat := xs.flatMap fun x => leBytes (normW x) x

theorem enc_eq (xs : List Nat) (h : Ok xs) (rest : List Nat) :
    enc xs ++ rest = xs.length :: (packCodes (codes xs) ++ (vals xs ++ rest)) := by
  unfold enc
  rw [if_neg (by have := h.1; have := h.2.1; omega)]
  simp [codes, vals]

theorem codes_length (xs : List Nat) : (codes xs).length = xs.length := by simp [codes]

theorem codes_lt (xs : List Nat) : ∀ c ∈ codes xs, c < 4 := by
  intro c hc
  simp only [codes, List.mem_map] at hc
  obtain ⟨x, _, rfl⟩ := hc
  exact code_lt _

theorem pack_length (xs : List Nat) : (packCodes (codes xs)).length = bitmapSize xs.length := by
  rw [packCodes_length _ (codes xs) (Nat.le_refl _), codes_length]

theorem vals_length (xs : List Nat) : (vals xs).length = (xs.map normW).sum := by
  induction xs with
  | nil => rfl
  | cons x xs ih =>
    simp only [vals, List.flatMap_cons, List.length_append, leBytes_length, List.map_cons,
      List.sum_cons] at ih ⊢
    rw [ih]

theorem vals_append (a b : List Nat) : vals (a ++ b) = vals a ++ vals b := by
  simp [vals]

theorem vals_cons (x : Nat) (b : List Nat) : vals (x :: b) = leBytes (normW x) x ++ vals b := by
  simp [vals]

theorem enc_length_eq (xs : List Nat) (h : Ok xs) :
    (enc xs).length = 1 + bitmapSize xs.length + (xs.map normW).sum := by
  have := enc_eq xs h []
  rw [List.append_nil] at this
  rw [this]
  simp only [List.length_cons, List.length_append, pack_length, vals_length, List.length_nil]
  omega

theorem enc_length (xs : List Nat) (h : Ok xs) : (enc xs).length = size xs := by
  rw [enc_length_eq xs h]
  unfold size
  rw [if_neg (by have := h.1; have := h.2.1; omega)]

theorem codeAt_enc (xs : List Nat) (h : Ok xs) (rest : List Nat) (i : Nat) (hi : i < xs.length) :
    codeAt (enc xs ++ rest) i = some (code (normW (xs.getD i 0))) := by
  rw [enc_eq xs h, codeAt_cons,
    codeAt'_pack _ (codes xs) (Nat.le_refl _) (codes_lt xs) _ i (by rw [codes_length]; exact hi)]
  congr 1
  simp only [codes, List.getD_eq_getElem?_getD, List.getElem?_map]
  rw [List.getElem?_eq_getElem hi]
  rfl

theorem range_map_getD (f : Nat → Nat) (xs : List Nat) (n : Nat) (hn : n ≤ xs.length) :
    (List.range n).map (fun i => f (xs.getD i 0)) = (xs.take n).map f := by
  apply List.ext_getElem
  · simp only [List.length_map, List.length_range, List.length_take]; omega
  · intro i h1 h2
    simp only [List.length_map, List.length_range] at h1
    simp only [List.getElem_map, List.getElem_range, List.getElem_take]
    have : i < xs.length := by omega
    simp [List.getD_eq_getElem?_getD, List.getElem?_eq_getElem this]

theorem widths_enc (xs : List Nat) (h : Ok xs) (rest : List Nat) (n : Nat) (hn : n ≤ xs.length) :
    widths (enc xs ++ rest) n = some ((xs.take n).map normW) := by
  unfold widths
  rw [mapM_eq_some_map _ (fun i => normW (xs.getD i 0))]
  · rw [range_map_getD normW xs n hn]
  · intro i hi
    rw [List.mem_range] at hi
    rw [codeAt_enc xs h rest i (by omega)]
    simp only [Option.map_some, width_code_normW]

theorem widths_enc_full (xs : List Nat) (h : Ok xs) (rest : List Nat) :
    widths (enc xs ++ rest) xs.length = some (xs.map normW) := by
  rw [widths_enc xs h rest xs.length (Nat.le_refl _), List.take_length]

/-- dropping the count byte, the bitmap and the first `k` value bytes -/
theorem drop_enc (xs : List Nat) (h : Ok xs) (rest : List Nat) (k : Nat) :
    (enc xs ++ rest).drop (1 + bitmapSize xs.length + k) = (vals xs ++ rest).drop k := by
  rw [enc_eq xs h]
  have e : 1 + bitmapSize xs.length + k = (bitmapSize xs.length + k) + 1 := by omega
  rw [e, List.drop_succ_cons, ← List.drop_drop, ← pack_length xs, List.drop_left]

theorem readFields_vals (bs : List Nat) (xs : List Nat) (hx : ∀ x ∈ xs, x < 2 ^ 64) (rest : List Nat) :
    ∀ off, bs.drop off = vals xs ++ rest → readFields bs (xs.map normW) off = some xs := by
  induction xs with
  | nil => intro off _; rfl
  | cons x xs ih =>
    intro off hoff
    simp only [List.map_cons, readFields]
    rw [hoff, vals_cons, List.append_assoc,
      takeExact_append _ _ (leBytes_length (normW x) x)]
    simp only
    have hd : bs.drop (off + normW x) = vals xs ++ rest := by
      rw [← List.drop_drop, hoff, vals_cons, List.append_assoc]
      have := List.drop_left (l₁ := leBytes (normW x) x) (l₂ := vals xs ++ rest)
      rw [leBytes_length] at this
      exact this
    rw [ih (fun y hy => hx y (by simp [hy])) _ hd]
    simp only
    rw [ofLe_leBytes_of_lt (lt_pow_normW (hx x (by simp)))]

theorem head_enc (xs : List Nat) (h : Ok xs) (rest : List Nat) :
    ∃ t, enc xs ++ rest = xs.length :: t := ⟨_, enc_eq xs h rest⟩

theorem dec_enc (xs : List Nat) (h : Ok xs) (cap : Nat) (hcap : xs.length ≤ cap) (rest : List Nat) :
    dec (enc xs ++ rest) cap = some (some (xs, (enc xs).length)) := by
  obtain ⟨t, ht⟩ := head_enc xs h rest
  have hw := widths_enc_full xs h rest
  have hd := drop_enc xs h rest 0
  rw [Nat.add_zero, List.drop_zero] at hd
  have hr := readFields_vals (enc xs ++ rest) xs h.2.2 rest _ hd
  rw [enc_length_eq xs h]
  rw [ht] at hw hr ⊢
  unfold dec
  simp only
  rw [if_neg (by have := h.1; have := h.2.1; omega), hw]
  simp only
  rw [hr]

theorem dec_enc_small (xs : List Nat) (h : Ok xs) (cap : Nat) (hcap : cap < xs.length) (rest : List Nat) :
    dec (enc xs ++ rest) cap = some none := by
  obtain ⟨t, ht⟩ := head_enc xs h rest
  rw [ht]
  unfold dec
  simp only
  rw [if_pos (Or.inr (Or.inr hcap))]

theorem getSize_enc (xs : List Nat) (h : Ok xs) (rest : List Nat) :
    getSize (enc xs ++ rest) = some (enc xs).length := by
  obtain ⟨t, ht⟩ := head_enc xs h rest
  have hw := widths_enc_full xs h rest
  rw [enc_length_eq xs h]
  rw [ht] at hw ⊢
  unfold getSize
  simp only
  rw [if_neg (by have := h.1; have := h.2.1; omega), hw]
  rfl

theorem getFieldWidth_enc (xs : List Nat) (h : Ok xs) (i : Nat) (hi : i < xs.length) (rest : List Nat) :
    getFieldWidth (enc xs ++ rest) i = some (normW (xs.getD i 0)) := by
  obtain ⟨t, ht⟩ := head_enc xs h rest
  have hc := codeAt_enc xs h rest i hi
  rw [ht] at hc ⊢
  unfold getFieldWidth
  simp only
  rw [if_neg (by have := h.1; omega), hc]
  simp only [Option.map_some, width_code_normW]

theorem sum_map_take_le (f : Nat → Nat) (xs : List Nat) (i : Nat) :
    ((xs.take i).map f).sum ≤ (xs.map f).sum := by
  induction xs generalizing i with
  | nil => simp
  | cons x xs ih =>
    cases i with
    | zero => simp
    | succ i =>
      simp only [List.take_succ_cons, List.map_cons, List.sum_cons]
      have := ih i
      omega

theorem getField_enc (xs : List Nat) (h : Ok xs) (i : Nat) (hi : i < xs.length) (rest : List Nat) :
    ∃ n, getField (enc xs ++ rest) i = some (some (xs.getD i 0, n)) ∧ n ≤ (enc xs).length := by
  obtain ⟨t, ht⟩ := head_enc xs h rest
  have hw := widths_enc xs h rest (i + 1) (by omega)
  -- split the field list around index i
  have hsplit : xs = xs.take i ++ xs[i] :: xs.drop (i + 1) := by
    rw [List.getElem_cons_drop hi, List.take_append_drop]
  have hgetD : xs.getD i 0 = xs[i] := by
    simp [List.getD_eq_getElem?_getD, List.getElem?_eq_getElem hi]
  have htake1 : xs.take (i + 1) = xs.take i ++ [xs[i]] := by
    rw [List.take_add_one, List.getElem?_eq_getElem hi]; rfl
  have hlen_take : (xs.take i).length = i := by
    rw [List.length_take]; omega
  -- the quantities computed by getField
  have hskip : ((((xs.take (i + 1)).map normW)).take i).sum = ((xs.take i).map normW).sum := by
    rw [← List.map_take, List.take_take]
    have : min i (i + 1) = i := by omega
    rw [this]
  have hwd : ((xs.take (i + 1)).map normW).getD i 1 = normW xs[i] := by
    rw [htake1, List.map_append, List.getD_eq_getElem?_getD,
      List.getElem?_append_right (by rw [List.length_map, hlen_take]; exact Nat.le_refl _),
      List.length_map, hlen_take, Nat.sub_self]
    rfl
  have hdrop := drop_enc xs h rest ((xs.take i).map normW).sum
  have hv : (vals xs ++ rest).drop ((xs.take i).map normW).sum
      = leBytes (normW xs[i]) xs[i] ++ (vals (xs.drop (i + 1)) ++ rest) := by
    have e : vals xs = vals (xs.take i) ++ (leBytes (normW xs[i]) xs[i] ++ vals (xs.drop (i + 1))) := by
      rw [← vals_cons, ← vals_append, ← hsplit]
    rw [e, ← vals_length, List.append_assoc, List.drop_left, List.append_assoc]
  rw [hv] at hdrop
  have hx : xs[i] < 2 ^ 64 := h.2.2 _ (List.getElem_mem hi)
  have hsum : ((xs.take (i + 1)).map normW).sum ≤ (xs.map normW).sum := sum_map_take_le normW xs (i + 1)
  have hsum1 : ((xs.take (i + 1)).map normW).sum = ((xs.take i).map normW).sum + normW xs[i] := by
    rw [htake1, List.map_append, List.sum_append]
    simp
  refine ⟨1 + bitmapSize xs.length + ((xs.take i).map normW).sum + normW xs[i], ?_, ?_⟩
  · rw [ht] at hw hdrop ⊢
    unfold getField
    simp only
    rw [if_neg (by have := h.1; omega), hw]
    simp only
    rw [hskip, hwd, hdrop, takeExact_append _ _ (leBytes_length _ _)]
    simp only
    rw [ofLe_leBytes_of_lt (lt_pow_normW hx), hgetD]
  · rw [enc_length_eq xs h]
    omega

/-! capacity for arbitrary input -/

theorem readFields_length (bs : List Nat) : ∀ (ws : List Nat) (off : Nat) (vs : List Nat),
    readFields bs ws off = some vs → vs.length = ws.length := by
  intro ws
  induction ws with
  | nil =>
    intro off vs h
    simp only [readFields] at h
    cases h; rfl
  | cons w ws ih =>
    intro off vs h
    simp only [readFields] at h
    cases hp : takeExact w (bs.drop off) with
    | none => rw [hp] at h; cases h
    | some p =>
      rw [hp] at h
      simp only at h
      cases hr : readFields bs ws (off + w) with
      | none => rw [hr] at h; cases h
      | some vs' =>
        rw [hr] at h
        simp only at h
        cases h
        simp [ih _ _ hr]

theorem widths_length (bs : List Nat) (n : Nat) (ws : List Nat) (h : widths bs n = some ws) :
    ws.length = n := by
  unfold widths at h
  rw [mapM_some_length _ _ _ h, List.length_range]

theorem dec_length_eq (bs : List Nat) (cap : Nat) (vs : List Nat) (n : Nat)
    (h : dec bs cap = some (some (vs, n))) :
    ∃ c t, bs = c :: t ∧ vs.length = c ∧ 1 ≤ c ∧ c ≤ 64 ∧ c ≤ cap := by
  cases bs with
  | nil => simp [dec] at h
  | cons c t =>
    refine ⟨c, t, rfl, ?_⟩
    unfold dec at h
    simp only at h
    by_cases hc : c = 0 ∨ c > 64 ∨ c > cap
    · rw [if_pos hc] at h
      cases h
    · rw [if_neg hc] at h
      cases hw : widths (c :: t) c with
      | none => rw [hw] at h; cases h
      | some ws =>
        rw [hw] at h
        simp only at h
        cases hr : readFields (c :: t) ws (1 + bitmapSize c) with
        | none => rw [hr] at h; cases h
        | some vs' =>
          rw [hr] at h
          simp only at h
          cases h
          have h1 := readFields_length _ _ _ _ hr
          have h2 := widths_length _ _ _ hw
          omega

theorem dec_length_le_cap (bs : List Nat) (cap : Nat) (vs : List Nat) (n : Nat)
    (h : dec bs cap = some (some (vs, n))) : vs.length ≤ cap ∧ vs.length ≤ 64 := by
  obtain ⟨c, t, _, h1, _, h3, h4⟩ := dec_length_eq bs cap vs n h
  omega

/-! byte range and size bound -/

theorem packCodes_lt : ∀ (n : Nat) (cs : List Nat), cs.length ≤ n → (∀ c ∈ cs, c < 4) →
    ∀ b ∈ packCodes cs, b < 256 := by
  intro n
  induction n with
  | zero =>
    intro cs h _ b hb
    cases cs with
    | nil => simp [packCodes] at hb
    | cons a t => simp at h
  | succ n ih =>
    intro cs h hc b hb
    match cs, h, hc, hb with
    | [], _, _, hb => simp [packCodes] at hb
    | [a], _, hc, hb =>
      have ha : a < 4 := hc a (by simp)
      simp only [packCodes, List.mem_cons, List.not_mem_nil, or_false] at hb
      omega
    | [a, b'], _, hc, hb =>
      have ha : a < 4 := hc a (by simp)
      have hb' : b' < 4 := hc b' (by simp)
      simp only [packCodes, List.mem_cons, List.not_mem_nil, or_false] at hb
      omega
    | [a, b', c], _, hc, hb =>
      have ha : a < 4 := hc a (by simp)
      have hb' : b' < 4 := hc b' (by simp)
      have hcc : c < 4 := hc c (by simp)
      simp only [packCodes, List.mem_cons, List.not_mem_nil, or_false] at hb
      omega
    | a :: b' :: c :: d :: t, h, hc, hb =>
      have ha : a < 4 := hc a (by simp)
      have hb' : b' < 4 := hc b' (by simp)
      have hcc : c < 4 := hc c (by simp)
      have hd : d < 4 := hc d (by simp)
      simp only [List.length_cons] at h
      simp only [packCodes, List.mem_cons] at hb
      rcases hb with hb | hb
      · omega
      · exact ih t (by omega) (fun x hx => hc x (by simp [hx])) b hb

theorem vals_lt (xs : List Nat) : ∀ b ∈ vals xs, b < 256 := by
  intro b hb
  simp only [vals, List.mem_flatMap] at hb
  obtain ⟨x, _, hx⟩ := hb
  exact leBytes_lt _ _ b hx

theorem enc_lt (xs : List Nat) (h : Ok xs) : ∀ b ∈ enc xs, b < 256 := by
  intro b hb
  have e := enc_eq xs h []
  rw [List.append_nil, List.append_nil] at e
  rw [e] at hb
  simp only [List.mem_cons, List.mem_append] at hb
  rcases hb with hb | hb | hb
  · have := h.2.1; omega
  · exact packCodes_lt _ (codes xs) (Nat.le_refl _) (codes_lt xs) b hb
  · exact vals_lt xs b hb

theorem sum_normW_le (xs : List Nat) : (xs.map normW).sum ≤ 8 * xs.length := by
  induction xs with
  | nil => simp
  | cons x xs ih =>
    simp only [List.map_cons, List.sum_cons, List.length_cons]
    have := normW_le_8 x
    omega

theorem size_le (xs : List Nat) (h : Ok xs) : size xs ≤ 1 + 16 + 8 * xs.length := by
  unfold size
  rw [if_neg (by have := h.1; have := h.2.1; omega)]
  have := sum_normW_le xs
  have := h.2.1
  unfold bitmapSize
  omega

end Varint.Group
