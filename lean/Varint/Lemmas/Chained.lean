import Varint.Model.Chained
import Varint.Lemmas.Bytes
/- Lemmas about the chained (sqlite3) and chained-simple (LEB128 capped at 9) models. -/
namespace Varint

namespace ChainedSimple

theorem encAux_length (fuel i v : Nat) (hf : 9 ≤ i + fuel) (hi : i ≤ 8) :
    (encAux fuel i v).length = min (9 - i) (len7 v) := by
  induction fuel generalizing i v with
  | zero => omega
  | succ fuel ih =>
    unfold encAux
    by_cases h : v ≥ 128 ∧ i < 8
    · rw [if_pos h]
      have := ih (i + 1) (v / 128) (by omega) (by omega)
      rw [List.length_cons, this]
      conv => rhs; rw [len7_eq]
      rw [if_neg (by omega)]
      omega
    · rw [if_neg h]
      have h1 := len7_pos v
      by_cases hv : v < 128
      · rw [len7_eq, if_pos hv]; simp; omega
      · have : i = 8 := by omega
        subst this; simp; omega

theorem enc_length (v : Nat) : (enc v).length = len v := by
  unfold enc len
  rw [encAux_length 9 0 v (by omega) (by omega)]
  split <;> omega

theorem len_bounds (v : Nat) : 1 ≤ len v ∧ len v ≤ 9 := by
  unfold len; have := len7_pos v; split <;> omega

theorem decAux_encAux (fuel fuel' i v acc : Nat) (rest : List Nat)
    (hf : 9 ≤ i + fuel) (hf' : 10 ≤ i + fuel') (hi : i ≤ 8) (hv : v < 2 ^ (64 - 7 * i)) :
    decAux fuel' i acc (encAux fuel i v ++ rest) = some (acc + v * 2 ^ (7 * i), i + (encAux fuel i v).length) := by
  induction fuel generalizing fuel' i v acc with
  | zero => omega
  | succ fuel ih =>
    obtain ⟨f', rfl⟩ : ∃ f', fuel' = f' + 1 := ⟨fuel' - 1, by omega⟩
    unfold encAux
    by_cases h : v ≥ 128 ∧ i < 8
    · rw [if_pos h]
      have hb : v % 128 + 128 ≥ 128 ∧ i < 8 := ⟨by omega, h.2⟩
      simp only [List.cons_append, decAux, if_pos hb]
      have hv' : v / 128 < 2 ^ (64 - 7 * (i + 1)) := by
        have e : 64 - 7 * i = (64 - 7 * (i + 1)) + 7 := by omega
        rw [e, Nat.pow_add] at hv
        omega
      rw [ih f' (i + 1) (v / 128) _ (by omega) (by omega) (by omega) hv']
      have e1 : (v % 128 + 128) % 128 = v % 128 := by omega
      have e2 : 2 ^ (7 * (i + 1)) = 128 * 2 ^ (7 * i) := by
        rw [show 7 * (i + 1) = 7 * i + 7 by omega, Nat.pow_add]; omega
      rw [e1, e2]
      have e3 : v % 128 * 2 ^ (7 * i) + v / 128 * (128 * 2 ^ (7 * i)) = v * 2 ^ (7 * i) := by
        have := Nat.div_add_mod v 128
        rw [← Nat.mul_assoc, ← Nat.add_mul]
        congr 1; omega
      simp only [List.length_cons]
      congr 2
      · omega
      · omega
    · rw [if_neg h]
      have hv256 : v < 256 := by
        by_cases hv128 : v < 128
        · omega
        · have : i = 8 := by omega
          subst this; simpa using hv
      simp only [List.cons_append, List.nil_append, decAux, Nat.mod_eq_of_lt hv256,
        List.length_cons, List.length_nil]
      rw [if_neg h]

theorem dec_enc (v : Nat) (hv : v < 2 ^ 64) (rest : List Nat) :
    dec (enc v ++ rest) = some (v, (enc v).length) := by
  unfold dec enc
  rw [decAux_encAux 9 10 0 v 0 rest (by omega) (by omega) (by omega) (by simpa using hv)]
  simp

theorem enc_lt (v : Nat) : ∀ b ∈ enc v, b < 256 := by
  unfold enc
  generalize 9 = fuel
  generalize 0 = i
  induction fuel generalizing i v with
  | zero => intro b hb; simp [encAux] at hb; omega
  | succ fuel ih =>
    intro b hb
    unfold encAux at hb
    split at hb
    · simp only [List.mem_cons] at hb
      rcases hb with h | h
      · omega
      · exact ih _ _ b h
    · simp at hb; omega

/-- unrolled 32-bit encoder = generic encoder for 32-bit values -/
theorem enc32_eq (v : Nat) (hv : v < 2 ^ 32) : enc32 v = enc v := by
  unfold enc32 enc
  repeat' split
  all_goals (simp [encAux]; try omega)
  all_goals (repeat' split)
  all_goals (simp at *; try omega)

end ChainedSimple

namespace Chained

theorem flagged_length (k x : Nat) : (flagged k x).length = k := by
  induction k with
  | zero => rfl
  | succ k ih => simp [flagged, ih]

theorem groups_eq (n v : Nat) : groups (n + 1) v = flagged n (v / 128) ++ [v % 128] := by
  induction n with
  | zero => simp [groups, flagged]
  | succ n ih =>
    rw [groups, ih, flagged]
    simp only [List.cons_append, List.cons.injEq, and_true]
    rw [Nat.pow_succ, Nat.mul_comm, ← Nat.div_div_eq_div_mul]

theorem decAux_flagged (k fuel i acc x : Nat) (tail : List Nat) (hi : i + k ≤ 8) (hf : k < fuel) :
    decAux fuel i acc (flagged k x ++ tail) = decAux (fuel - k) (i + k) (acc * 128 ^ k + x % 128 ^ k) tail := by
  induction k generalizing fuel i acc with
  | zero => simp [flagged, Nat.mod_one]
  | succ k ih =>
    obtain ⟨f, rfl⟩ : ∃ f, fuel = f + 1 := ⟨fuel - 1, by omega⟩
    have h8 : ¬ i = 8 := by omega
    have hb : ¬ (x / 128 ^ k % 128 + 128 < 128) := by omega
    simp only [flagged, List.cons_append, decAux, if_neg h8, if_neg hb]
    rw [ih f (i + 1) _ (by omega) (by omega)]
    have e : x / 128 ^ k % 128 + 128 - 128 = x / 128 ^ k % 128 := by omega
    have e1 : f + 1 - (k + 1) = f - k := by omega
    have e2 : i + (k + 1) = i + 1 + k := by omega
    have e3 : acc * 128 ^ (k + 1) + x % 128 ^ (k + 1)
        = (acc * 128 + x / 128 ^ k % 128) * 128 ^ k + x % 128 ^ k := by
      rw [Nat.mod_pow_succ (x := x) (b := 128) (k := k), Nat.pow_succ, Nat.add_mul, Nat.mul_assoc,
        Nat.mul_comm 128 (128 ^ k), Nat.mul_comm (x / 128 ^ k % 128)]
      omega
    rw [e, e1, e2, e3]

theorem enc_length (v : Nat) (hv : v < 2 ^ 64) : (enc v).length = len v := by
  unfold enc len
  by_cases h : v / 2 ^ 56 % 256 ≠ 0
  · rw [if_pos h]
    have hge : 128 ^ 8 ≤ v := by
      have : (128 : Nat) ^ 8 = 2 ^ 56 := by rfl
      omega
    have : 9 ≤ len7 v := by
      apply Nat.le_of_not_lt
      intro hlt
      have := lt_pow_len7 v
      have h2 : 128 ^ len7 v ≤ 128 ^ 8 := Nat.pow_le_pow_right (by omega) (by omega)
      omega
    rw [List.length_append, flagged_length]
    simp only [List.length_cons, List.length_nil]
    split <;> omega
  · rw [if_neg h]
    have hlt : v < 128 ^ 8 := by
      have : (128 : Nat) ^ 8 = 2 ^ 56 := by rfl
      omega
    have h8 := len7_le_of_lt (k := 8) (by omega) hlt
    have h1 := len7_pos v
    obtain ⟨n, hn⟩ : ∃ n, len7 v = n + 1 := ⟨len7 v - 1, by omega⟩
    rw [hn, groups_eq, List.length_append, flagged_length]
    simp only [List.length_cons, List.length_nil]
    split <;> omega

theorem len_bounds (v : Nat) : 1 ≤ len v ∧ len v ≤ 9 := by
  unfold len; have := len7_pos v; split <;> omega

theorem dec_enc (v : Nat) (hv : v < 2 ^ 64) (rest : List Nat) :
    dec (enc v ++ rest) = some (v, (enc v).length) := by
  have hlen := enc_length v hv
  unfold dec enc at *
  by_cases h : v / 2 ^ 56 % 256 ≠ 0
  · rw [if_pos h] at hlen ⊢
    rw [List.append_assoc, decAux_flagged 8 9 0 0 (v / 256) _ (by omega) (by omega)]
    have hq : v / 256 < 128 ^ 8 := by
      have : (128 : Nat) ^ 8 = 2 ^ 56 := by rfl
      omega
    simp [decAux, Nat.mod_eq_of_lt hq, flagged_length]
    omega
  · rw [if_neg h] at hlen ⊢
    have hlt : v < 128 ^ 8 := by
      have : (128 : Nat) ^ 8 = 2 ^ 56 := by rfl
      omega
    have h8 := len7_le_of_lt (k := 8) (by omega) hlt
    have h1 := len7_pos v
    obtain ⟨n, hn⟩ : ∃ n, len7 v = n + 1 := ⟨len7 v - 1, by omega⟩
    have hvn : v < 128 ^ (n + 1) := by rw [← hn]; exact lt_pow_len7 v
    rw [hn, groups_eq, List.append_assoc, decAux_flagged n 9 0 0 (v / 128) _ (by omega) (by omega)]
    have hq : v / 128 < 128 ^ n := by
      rw [Nat.pow_succ] at hvn; omega
    obtain ⟨f, hf⟩ : ∃ f, 9 - n = f + 1 := ⟨9 - n - 1, by omega⟩
    have hb : v % 128 < 128 := by omega
    simp only [hf, List.cons_append, List.nil_append, decAux, if_pos hb,
      Nat.mod_eq_of_lt hq, Nat.zero_mul, Nat.zero_add, List.length_append, flagged_length,
      List.length_cons, List.length_nil]
    have := Nat.div_add_mod v 128
    have hn8' : ¬ n = 8 := by omega
    rw [if_neg hn8']
    congr 2
    omega

theorem flagged_lt (k x : Nat) : ∀ b ∈ flagged k x, b < 256 := by
  induction k with
  | zero => simp [flagged]
  | succ k ih =>
    intro b hb
    simp only [flagged, List.mem_cons] at hb
    rcases hb with h | h
    · omega
    · exact ih b h

theorem enc_lt (v : Nat) : ∀ b ∈ enc v, b < 256 := by
  intro b hb
  unfold enc at hb
  split at hb
  · simp only [List.mem_append, List.mem_singleton] at hb
    rcases hb with h | h
    · exact flagged_lt _ _ b h
    · omega
  · have h1 := len7_pos v
    obtain ⟨n, hn⟩ : ∃ n, len7 v = n + 1 := ⟨len7 v - 1, by omega⟩
    rw [hn, groups_eq] at hb
    simp only [List.mem_append, List.mem_singleton] at hb
    rcases hb with h | h
    · exact flagged_lt _ _ b h
    · omega

end Chained
end Varint
