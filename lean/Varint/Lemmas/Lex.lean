import Varint.Model.Tagged
import Varint.Lemmas.Bytes
import Varint.Lemmas.Tagged
/- Lexicographic order of byte strings (memcmp model) and the tagged encoding as a big-endian key. -/
namespace Varint

theorem lexCmp_cons_lt {a b : Nat} (h : a < b) (as bs : List Nat) : lexCmp (a :: as) (b :: bs) = .lt := by
  simp [lexCmp, h]

theorem lexCmp_cons_gt {a b : Nat} (h : b < a) (as bs : List Nat) : lexCmp (a :: as) (b :: bs) = .gt := by
  have : ¬ a < b := by omega
  simp [lexCmp, h, this]

theorem lexCmp_cons_same (a : Nat) (as bs : List Nat) : lexCmp (a :: as) (a :: bs) = lexCmp as bs := by
  simp [lexCmp]

theorem lexCmp_append_same (p as bs : List Nat) : lexCmp (p ++ as) (p ++ bs) = lexCmp as bs := by
  induction p with
  | nil => rfl
  | cons x p ih => simp [lexCmp, ih]

theorem lexCmp_self (as : List Nat) : lexCmp as as = .eq := by
  induction as with
  | nil => rfl
  | cons x p ih => simp [lexCmp, ih]

theorem lexCmp_swap (as bs : List Nat) : lexCmp as bs = .lt ↔ lexCmp bs as = .gt := by
  induction as generalizing bs with
  | nil => cases bs <;> simp [lexCmp]
  | cons a as ih =>
    cases bs with
    | nil => simp [lexCmp]
    | cons b bs =>
      simp only [lexCmp]
      by_cases h1 : a < b
      · have : ¬ b < a := by omega
        simp [h1, this]
      · by_cases h2 : b < a
        · simp [h1, h2]
        · simp [h1, h2, ih]

/-- big-endian payloads of equal length compare like the numbers, whatever follows -/
theorem lexCmp_be_lt (k x y : Nat) (hx : x < 256 ^ k) (hy : y < 256 ^ k) (h : x < y) (r1 r2 : List Nat) :
    lexCmp (beBytes k x ++ r1) (beBytes k y ++ r2) = .lt := by
  induction k generalizing x y with
  | zero => simp at hx hy; omega
  | succ k ih =>
    simp only [beBytes, List.cons_append]
    have hpos : 0 < 256 ^ k := Nat.pow_pos (by omega)
    rw [Nat.pow_succ] at hx hy
    have hxd : x / 256 ^ k < 256 := (Nat.div_lt_iff_lt_mul hpos).mpr (by omega)
    have hyd : y / 256 ^ k < 256 := (Nat.div_lt_iff_lt_mul hpos).mpr (by omega)
    rw [Nat.mod_eq_of_lt hxd, Nat.mod_eq_of_lt hyd]
    have hle : x / 256 ^ k ≤ y / 256 ^ k := Nat.div_le_div_right (by omega)
    by_cases he : x / 256 ^ k = y / 256 ^ k
    · rw [he, lexCmp_cons_same]
      -- tails: beBytes k x depends only on x % 256^k
      have hx' := Nat.div_add_mod x (256 ^ k)
      have hy' := Nat.div_add_mod y (256 ^ k)
      have hmod : x % 256 ^ k < y % 256 ^ k := by
        rw [he] at hx'
        omega
      have e1 : beBytes k x = beBytes k (x % 256 ^ k) := by
        rw [← beBytes_ofBe (beBytes k x) (beBytes_lt k x)]
        simp only [beBytes_length, ofBe_beBytes]
      have e2 : beBytes k y = beBytes k (y % 256 ^ k) := by
        rw [← beBytes_ofBe (beBytes k y) (beBytes_lt k y)]
        simp only [beBytes_length, ofBe_beBytes]
      rw [e1, e2]
      exact ih _ _ (Nat.mod_lt _ hpos) (Nat.mod_lt _ hpos) hmod
    · exact lexCmp_cons_lt (by omega) _ _

namespace Tagged

/-- offset that turns a value of length class `n` into its big-endian key -/
def keyOff : Nat → Nat
  | 1 => 0
  | 2 => 61456          -- 241*256 - 240
  | 3 => 16316176       -- 249*65536 - 2288
  | 4 => 250 * 256 ^ 3
  | 5 => 251 * 256 ^ 4
  | 6 => 252 * 256 ^ 5
  | 7 => 253 * 256 ^ 6
  | 8 => 254 * 256 ^ 7
  | 9 => 255 * 256 ^ 8
  | _ => 0

/-- every tagged encoding is the big-endian rendering of `v + keyOff (len v)` in `len v` bytes -/
theorem enc_eq_be (v : Nat) (hv : v < 2 ^ 64) : enc v = beBytes (len v) (v + keyOff (len v)) := by
  unfold enc len
  repeat' split
  all_goals simp [keyOff, beBytes]
  all_goals omega

theorem key_lt (v : Nat) (hv : v < 2 ^ 64) : v + keyOff (len v) < 256 ^ len v := by
  unfold len
  repeat' split
  all_goals simp [keyOff]
  all_goals omega

theorem len_mono {a b : Nat} (h : a ≤ b) : len a ≤ len b := by
  unfold len
  repeat' split
  all_goals omega

/-- first byte determines (and is determined up to range by) the length class -/
theorem head_range (v : Nat) (hv : v < 2 ^ 64) :
    (len v = 1 → (enc v).headD 0 ≤ 240) ∧
    (len v = 2 → 241 ≤ (enc v).headD 0 ∧ (enc v).headD 0 ≤ 248) ∧
    (4 ≤ len v ∨ len v = 3 → (enc v).headD 0 = 246 + len v) := by
  unfold enc len
  repeat' split
  all_goals simp
  all_goals omega

/-- the heart of C05: a smaller value's encoding is strictly below, already inside the common
    prefix (so nothing appended to either side can change the order: prefix-freeness) -/
theorem enc_lt_of_lt {a b : Nat} (hb : b < 2 ^ 64) (h : a < b) (A B : List Nat) :
    lexCmp (enc a ++ A) (enc b ++ B) = .lt := by
  have ha : a < 2 ^ 64 := by omega
  have hlen := len_mono (Nat.le_of_lt h)
  by_cases he : len a = len b
  · rw [enc_eq_be a ha, enc_eq_be b hb, he]
    apply lexCmp_be_lt
    · rw [← he]; exact key_lt a ha
    · exact key_lt b hb
    · omega
  · have hlt : len a < len b := by omega
    have hra := head_range a ha
    have hrb := head_range b hb
    have hla := len_bounds a
    have hlb := len_bounds b
    have hna := enc_ne_nil a
    have hnb := enc_ne_nil b
    cases hea : enc a with
    | nil => exact absurd hea hna
    | cons x xs =>
      cases heb : enc b with
      | nil => exact absurd heb hnb
      | cons y ys =>
        rw [hea] at hra; rw [heb] at hrb
        simp only [List.headD_cons] at hra hrb
        simp only [List.cons_append]
        apply lexCmp_cons_lt
        omega

end Tagged
end Varint
