import Varint.Model.Bounded
import Varint.Lemmas.Bytes
/- Lemmas for C14: the decoders of Model/Bounded.lean never load outside the declared input. -/
namespace Varint.Bounded
open Varint.Tagged (GetR getN)

theorem takeExact_isSome {k : Nat} {bs : List Nat} (h : k ≤ bs.length) : ∃ p, takeExact k bs = some p ∧ p.length = k := by
  unfold takeExact
  rw [if_pos h]
  exact ⟨_, rfl, by simp [List.length_take]; omega⟩

theorem takeExact_none {k : Nat} {bs : List Nat} (h : bs.length < k) : takeExact k bs = none := by
  unfold takeExact
  rw [if_neg (by omega)]

/-- the bounded tagged reader never loads a byte at an index ≥ the declared size -/
theorem getN_no_fault (bs : List Nat) (n : Int) (h : n ≤ bs.length) : getN bs n ≠ .fault := by
  unfold getN
  split
  · simp
  · match bs with
    | [] => simp at h; omega
    | b0 :: rest =>
      simp only [List.length_cons] at h
      simp only []
      split
      · simp
      · split
        · split
          · simp
          · match rest with
            | [] => simp at h; omega
            | b1 :: _ => simp
        · split
          · simp
          · have hk : b0 - 247 ≤ rest.length := by omega
            obtain ⟨p, hp, _⟩ := takeExact_isSome hk
            rw [hp]
            simp only []
            split
            · simp
            · split <;> simp

/-- a successful bounded read consumed no more than the declared size -/
theorem getN_ok_le (bs : List Nat) (n : Int) (v l : Nat) (h : getN bs n = .ok v l) : (l : Int) ≤ n ∧ 1 ≤ l := by
  unfold getN at h
  split at h
  · simp at h
  · match bs with
    | [] => simp at h
    | b0 :: rest =>
      simp only [] at h
      split at h
      · injection h with _ h2; omega
      · split at h
        · split at h
          · simp at h
          · match rest with
            | [] => simp at h
            | b1 :: _ => simp only [] at h; injection h with _ h2; omega
        · split at h
          · simp at h
          · cases hte : takeExact (b0 - 247) rest with
            | none => rw [hte] at h; simp at h
            | some p =>
              rw [hte] at h
              simp only [] at h
              split at h
              · injection h with _ h2; omega
              · split at h
                · injection h with _ h2; omega
                · simp at h


/-- with the declared bytes really present, the reader reports 0 exactly when the announced length
    (a function of the first byte) exceeds the declared size, or the size is < 1 -/
theorem getN_short_iff (b0 : Nat) (rest : List Nat) (n : Int) (h : n ≤ (b0 :: rest).length) (hb : b0 ≤ 255) :
    getN (b0 :: rest) n = .short ↔ n < 1 ∨ n < (Tagged.getLen b0 : Int) := by
  simp only [List.length_cons] at h
  unfold getN Tagged.getLen
  by_cases h1 : n < 1
  · simp [h1]
  · rw [if_neg h1]
    simp only []
    by_cases c1 : b0 ≤ 240
    · rw [if_pos c1, if_pos c1]
      simp; omega
    · rw [if_neg c1, if_neg c1]
      by_cases c2 : b0 ≤ 248
      · rw [if_pos c2, if_pos c2]
        by_cases c3 : n < 2
        · rw [if_pos c3]; simp; omega
        · rw [if_neg c3]
          match rest with
          | [] => simp at h; omega
          | b1 :: _ => simp; omega
      · rw [if_neg c2, if_neg c2]
        by_cases c3 : n < (b0 : Int) - 246
        · rw [if_pos c3]; simp; omega
        · rw [if_neg c3]
          have hk : b0 - 247 ≤ rest.length := by omega
          obtain ⟨p, hp, _⟩ := takeExact_isSome hk
          rw [hp]
          simp only []
          by_cases c4 : b0 = 249
          · rw [if_pos c4]; simp; omega
          · rw [if_neg c4, if_pos hb]; simp; omega

theorem tgetB_no_fault (bs : List Nat) : tgetB bs bs.length ≠ .fault := by
  unfold tgetB
  apply getN_no_fault
  have : min bs.length int32Max ≤ bs.length := Nat.min_le_left _ _
  exact_mod_cast this

theorem tgetB_ok_le (bs : List Nat) (v l : Nat) (h : tgetB bs bs.length = .ok v l) : l ≤ bs.length ∧ 1 ≤ l := by
  unfold tgetB at h
  have := getN_ok_le _ _ _ _ h
  have h2 : min bs.length int32Max ≤ bs.length := Nat.min_le_left _ _
  omega

theorem readEntries_no_fault (k : Nat) (bs : List Nat) : readEntries k bs bs.length ≠ .fault := by
  induction k generalizing bs with
  | zero => simp [readEntries]
  | succ k ih =>
    unfold readEntries
    have h0 := tgetB_no_fault bs
    split
    · contradiction
    · simp
    · rename_i v w _
      split
      · simp
      · have := ih (bs.drop w)
        rw [List.length_drop] at this
        split
        · contradiction
        · simp
        · simp

/-- the remaining-length bookkeeping is right: what `readEntries` hands back is the length of the rest -/
theorem readEntries_rem (k : Nat) (bs d r : List Nat) (rr : Nat) (h : readEntries k bs bs.length = .ok (d, r, rr)) :
    rr = r.length ∧ r.length ≤ bs.length := by
  induction k generalizing bs d r rr with
  | zero =>
    simp [readEntries] at h
    obtain ⟨_, h2, h3⟩ := h
    subst h2; subst h3
    exact ⟨rfl, Nat.le_refl _⟩
  | succ k ih =>
    unfold readEntries at h
    split at h
    · simp at h
    · simp at h
    · rename_i v w _
      split at h
      · simp at h
      · have hl : (bs.drop w).length = bs.length - w := List.length_drop
        rw [← hl] at h
        split at h
        · simp at h
        · simp at h
        · rename_i vs r' rr' hre
          injection h with h
          injection h with _ h2
          injection h2 with h2 h3
          subst h2; subst h3
          have := ih _ _ _ _ hre
          omega

theorem decIdx_no_fault (d : Array Nat) (dsz w k : Nat) (bs : List Nat) (h : k * w ≤ bs.length) :
    decIdx d dsz w k bs ≠ .fault := by
  induction k generalizing bs with
  | zero => simp [decIdx]
  | succ k ih =>
    unfold decIdx
    have hw : w ≤ bs.length := by
      have : (k + 1) * w = k * w + w := Nat.succ_mul k w
      omega
    obtain ⟨p, hp, _⟩ := takeExact_isSome hw
    rw [hp]
    simp only []
    split
    · simp
    · have hl : k * w ≤ (bs.drop w).length := by
        have : (k + 1) * w = k * w + w := Nat.succ_mul k w
        simp only [List.length_drop]; omega
      have := ih (bs.drop w) hl
      split
      · contradiction
      · simp
      · simp

theorem decIdx_length (d : Array Nat) (dsz w k : Nat) (bs vs : List Nat) (h : decIdx d dsz w k bs = .ok vs) :
    vs.length = k := by
  induction k generalizing bs vs with
  | zero => simp [decIdx] at h; subst h; rfl
  | succ k ih =>
    unfold decIdx at h
    split at h
    · simp at h
    · split at h
      · simp at h
      · split at h
        · simp at h
        · simp at h
        · rename_i vs' hvs
          injection h with h
          subst h
          simp [ih _ _ hvs]

theorem indexWidth_pos (dsz : Nat) : 1 ≤ Dict.indexWidth dsz := by
  unfold Dict.indexWidth
  split
  · omega
  · exact extLen_pos _

end Varint.Bounded

namespace Varint.Elias

def Defined (rd : Reader) (total : Nat) : Prop := ∀ i, i < total → rd i ≠ none

theorem readBits_ne_none (rd : Reader) (total : Nat) (hd : Defined rd total) (n pos acc : Nat)
    (h : pos + n ≤ total) : readBits rd n pos acc ≠ none := by
  induction n generalizing pos acc with
  | zero => simp [readBits]
  | succ n ih =>
    unfold readBits
    have := hd pos (by omega)
    split
    · contradiction
    · exact ih _ _ (by omega)

theorem gammaDecAux_ne_none (rd : Reader) (total : Nat) (hd : Defined rd total) (fuel z pos : Nat) :
    gammaDecAux rd total fuel z pos ≠ none := by
  induction fuel generalizing z pos with
  | zero => simp [gammaDecAux]
  | succ fuel ih =>
    unfold gammaDecAux
    split
    · simp
    · have := hd pos (by omega)
      split
      · contradiction
      · split
        · simp
        · split
          · simp
          · have := readBits_ne_none rd total hd z (pos + 1) 0 (by omega)
            cases hr : readBits rd z (pos + 1) 0 with
            | none => contradiction
            | some x => simp
      · split
        · simp
        · exact ih _ _

theorem gammaDec_ne_none (rd : Reader) (total : Nat) (hd : Defined rd total) (pos : Nat) :
    gammaDec rd total pos ≠ none := gammaDecAux_ne_none rd total hd _ _ _

theorem deltaDec_ne_none (rd : Reader) (total : Nat) (hd : Defined rd total) (pos : Nat) :
    deltaDec rd total pos ≠ none := by
  unfold deltaDec
  have := gammaDec_ne_none rd total hd pos
  split
  · contradiction
  · rename_i lenN p _
    split
    · simp
    · split
      · simp
      · split
        · simp
        · have := readBits_ne_none rd total hd (lenN - 1) p 0 (by omega)
          cases hr : readBits rd (lenN - 1) p 0 with
          | none => contradiction
          | some x => simp

theorem decArrayAux_ne_none (one : Reader → Nat → Nat → Option (Nat × Nat)) (rd : Reader) (total : Nat)
    (hone : ∀ pos, one rd total pos ≠ none) (room pos : Nat) : decArrayAux one rd total room pos ≠ none := by
  induction room generalizing pos with
  | zero => simp [decArrayAux]
  | succ room ih =>
    unfold decArrayAux
    split
    · simp
    · have := hone pos
      split
      · contradiction
      · split
        · simp
        · rename_i p _ _
          have := ih p
          cases hr : decArrayAux one rd total room p with
          | none => contradiction
          | some x => simp

theorem decArrayAux_length (one : Reader → Nat → Nat → Option (Nat × Nat)) (rd : Reader) (total : Nat)
    (room pos : Nat) (vs : List Nat) (h : decArrayAux one rd total room pos = some vs) : vs.length ≤ room := by
  induction room generalizing pos vs with
  | zero => simp [decArrayAux] at h; subst h; simp
  | succ room ih =>
    unfold decArrayAux at h
    split at h
    · simp at h; subst h; simp
    · split at h
      · simp at h
      · split at h
        · simp at h; subst h; simp
        · rename_i p _ _
          cases hr : decArrayAux one rd total room p with
          | none => rw [hr] at h; simp at h
          | some x =>
            rw [hr] at h; simp at h; subst h
            have := ih _ _ hr
            simp; omega

theorem declared_defined (bytes : List Nat) (srcBits : Nat) (h : srcBits ≤ 8 * bytes.length) :
    Defined (declared bytes srcBits) srcBits := by
  intro i hi
  unfold declared
  rw [if_pos hi]
  unfold Varint.Bits.bitMsb
  have : i / 8 < bytes.length := by omega
  simp [this]

end Varint.Elias
