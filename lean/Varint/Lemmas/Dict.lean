import Varint.Model.Dict
import Varint.Lemmas.Bytes
import Varint.Lemmas.Tagged
/- Lemmas about the dictionary codec model (Model/Dict.lean). Core Lean only. -/
namespace Varint.Dict
open Varint.Tagged (getN)

def U64s (xs : List Nat) : Prop := ∀ x ∈ xs, x < 2 ^ 64

/-! ### 1. dictionary construction -/

theorem mem_dedupAdj (x : Nat) : ∀ l : List Nat, x ∈ dedupAdj l ↔ x ∈ l
  | [] => by simp [dedupAdj]
  | [a] => by simp [dedupAdj]
  | a :: b :: rest => by
    have ih := mem_dedupAdj x (b :: rest)
    unfold dedupAdj
    by_cases h : a = b
    · rw [if_pos h, ih]
      subst h
      simp
    · rw [if_neg h, List.mem_cons, ih, List.mem_cons (a := x) (b := a)]

theorem dedupAdj_length_le : ∀ l : List Nat, (dedupAdj l).length ≤ l.length
  | [] => by simp [dedupAdj]
  | [a] => by simp [dedupAdj]
  | a :: b :: rest => by
    have ih := dedupAdj_length_le (b :: rest)
    unfold dedupAdj
    split
    · simp only [List.length_cons] at ih ⊢; omega
    · simp only [List.length_cons] at ih ⊢; omega

theorem dedupAdj_pairwise : ∀ l : List Nat, List.Pairwise (· ≤ ·) l → List.Pairwise (· < ·) (dedupAdj l)
  | [], _ => by simp [dedupAdj]
  | [a], _ => by simp [dedupAdj]
  | a :: b :: rest, h => by
    have h' := List.pairwise_cons.1 h
    have ih := dedupAdj_pairwise (b :: rest) h'.2
    unfold dedupAdj
    by_cases hab : a = b
    · rw [if_pos hab]; exact ih
    · rw [if_neg hab]
      apply List.pairwise_cons.2
      refine ⟨?_, ih⟩
      intro y hy
      have hy' := (mem_dedupAdj y (b :: rest)).1 hy
      have hb : a ≤ b := h'.1 b (by simp)
      have hbl : a < b := by omega
      rcases List.mem_cons.1 hy' with e | e
      · omega
      · have := (List.pairwise_cons.1 h'.2).1 y e
        omega

theorem sort_pairwise (xs : List Nat) : List.Pairwise (· ≤ ·) (xs.mergeSort (· ≤ ·)) := by
  have := List.pairwise_mergeSort (le := fun (a b : Nat) => decide (a ≤ b))
    (by intro a b c; simp only [decide_eq_true_eq]; omega)
    (by intro a b; simp only [Bool.or_eq_true, decide_eq_true_eq]; omega) xs
  simpa using this

theorem build_pairwise (xs : List Nat) : List.Pairwise (· < ·) (build xs) :=
  dedupAdj_pairwise _ (sort_pairwise xs)

theorem mem_build (xs : List Nat) (x : Nat) : x ∈ build xs ↔ x ∈ xs := by
  unfold build
  rw [mem_dedupAdj, List.mem_mergeSort]

theorem build_length_le (xs : List Nat) : (build xs).length ≤ xs.length := by
  unfold build
  have := dedupAdj_length_le (xs.mergeSort (· ≤ ·))
  rwa [List.length_mergeSort] at this

theorem build_ne_nil (xs : List Nat) (h : xs ≠ []) : build xs ≠ [] := by
  cases xs with
  | nil => contradiction
  | cons a t =>
    intro e
    have := (mem_build (a :: t) a).2 (by simp)
    rw [e] at this
    simp at this

/-! ### 2. binary search -/

theorem bsearch_mem (d : List Nat) (hd : List.Pairwise (· < ·) d) (x i : Nat) (hi : i < d.length)
    (hx : d[i]? = some x) :
    ∀ fuel lo hi', lo ≤ i → i < hi' → hi' ≤ d.length → hi' - lo ≤ fuel →
      bsearch d.toArray x fuel lo hi' = some i := by
  have hxi : d[i] = x := by
    rw [List.getElem?_eq_getElem hi] at hx
    exact Option.some.inj hx
  have mono := List.pairwise_iff_getElem.1 hd
  intro fuel
  induction fuel with
  | zero => intro lo hi' h1 h2 h3 h4; omega
  | succ fuel ih =>
    intro lo hi' h1 h2 h3 h4
    unfold bsearch
    rw [if_neg (by omega)]
    simp only []
    have hm : lo + (hi' - 1 - lo) / 2 < d.length := by omega
    have hv : d.toArray.getD (lo + (hi' - 1 - lo) / 2) 0 = d[lo + (hi' - 1 - lo) / 2] := by
      simp [Array.getD, hm]
    rw [hv]
    generalize hmid : lo + (hi' - 1 - lo) / 2 = mid at hm ⊢
    by_cases c1 : d[mid] = x
    · rw [if_pos c1]
      -- strictness: mid = i
      have : mid = i := by
        apply Classical.byContradiction
        intro hne
        rcases Nat.lt_or_gt_of_ne hne with hlt | hgt
        · have := mono mid i hm hi hlt; omega
        · have := mono i mid hi hm hgt; omega
      rw [this]
    · rw [if_neg c1]
      by_cases c2 : d[mid] < x
      · rw [if_pos c2]
        apply ih
        · -- mid < i
          apply Classical.byContradiction
          intro hn
          have hle : i ≤ mid := by omega
          rcases Nat.lt_or_ge i mid with hlt | hge
          · have := mono i mid hi hm hlt; omega
          · have : i = mid := by omega
            subst this; omega
        · exact h2
        · exact h3
        · omega
      · rw [if_neg c2]
        apply ih
        · exact h1
        · apply Classical.byContradiction
          intro hn
          have hle : mid ≤ i := by omega
          rcases Nat.lt_or_ge mid i with hlt | hge
          · have := mono mid i hm hi hlt; omega
          · have : i = mid := by omega
            subst this; omega
        · omega
        · omega

/-- the binary search returns THE position of a present key -/
theorem find_getElem (d : List Nat) (hd : List.Pairwise (· < ·) d) (x i : Nat) (hx : d[i]? = some x) :
    find d x = some i := by
  have hi : i < d.length := by
    apply Classical.byContradiction
    intro hn
    rw [List.getElem?_eq_none (by omega)] at hx
    simp at hx
  unfold find findA
  exact bsearch_mem d hd x i hi hx _ _ _ (by omega) hi (Nat.le_refl _) (by omega)

theorem find_mem (d : List Nat) (hd : List.Pairwise (· < ·) d) (x : Nat) (hx : x ∈ d) :
    ∃ i, find d x = some i ∧ i < d.length ∧ d[i]? = some x := by
  obtain ⟨i, hi, e⟩ := List.getElem_of_mem hx
  have hx' : d[i]? = some x := by rw [List.getElem?_eq_getElem hi, e]
  exact ⟨i, find_getElem d hd x i hx', hi, hx'⟩

/-! ### generic helpers -/

theorem mapM_some {α β : Type} (f : α → Option β) (g : α → β) (xs : List α) (h : ∀ x ∈ xs, f x = some (g x)) :
    xs.mapM f = some (xs.map g) := by
  induction xs with
  | nil => simp
  | cons a t ih =>
    have h1 := h a (by simp)
    have h2 := ih (fun x hx => h x (by simp [hx]))
    simp [List.mapM_cons, h1, h2]

theorem mapM_length {α β : Type} (f : α → Option β) (xs : List α) (ys : List β) (h : xs.mapM f = some ys) :
    ys.length = xs.length := by
  induction xs generalizing ys with
  | nil => simp at h; subst h; rfl
  | cons a t ih =>
    rw [List.mapM_cons] at h
    cases h1 : f a with
    | none => rw [h1] at h; simp at h
    | some b =>
      cases h2 : t.mapM f with
      | none => rw [h1, h2] at h; simp at h
      | some r =>
        rw [h1, h2] at h
        simp at h
        subst h
        simp [ih r h2]

/-! ### bounded tagged read -/

/-- a read that succeeds with 9 declared bytes succeeds identically with any declared size ≥ its length -/
theorem getN_of_get (bs : List Nat) (n : Int) (v l : Nat) (h : getN bs 9 = .ok v l) (hn : (l : Int) ≤ n) :
    getN bs n = .ok v l := by
  unfold getN at h ⊢
  rw [if_neg (by omega)] at h
  match bs with
  | [] => simp at h
  | b0 :: rest =>
    simp only [] at h ⊢
    by_cases c1 : b0 ≤ 240
    · rw [if_pos c1] at h
      injection h with h1 h2
      rw [if_neg (by omega), if_pos c1, h1, h2]
    · rw [if_neg c1] at h
      by_cases c2 : b0 ≤ 248
      · rw [if_pos c2, if_neg (by omega)] at h
        match rest with
        | [] => simp at h
        | b1 :: _ =>
          simp only [] at h
          injection h with h1 h2
          rw [if_neg (by omega), if_neg c1, if_pos c2, if_neg (by omega)]
          simp only []
          rw [h1, h2]
      · rw [if_neg c2] at h
        by_cases c3 : (9 : Int) < (b0 : Int) - 246
        · rw [if_pos c3] at h; simp at h
        · rw [if_neg c3] at h
          cases hte : takeExact (b0 - 247) rest with
          | none => rw [hte] at h; simp at h
          | some p =>
            rw [hte] at h
            simp only [] at h
            by_cases c4 : b0 = 249
            · rw [if_pos c4] at h
              obtain ⟨h1, h2⟩ := Tagged.GetR.ok.inj h
              rw [if_neg (by omega), if_neg c1, if_neg c2, if_neg (by omega)]
              simp only []
              rw [if_pos c4, h1, h2]
            · rw [if_neg c4] at h
              by_cases c5 : b0 ≤ 255
              · rw [if_pos c5] at h
                obtain ⟨h1, h2⟩ := Tagged.GetR.ok.inj h
                rw [if_neg (by omega), if_neg c1, if_neg c2, if_neg (by omega)]
                simp only []
                rw [if_neg c4, if_pos c5, h1, h2]
              · rw [if_neg c5] at h; simp at h

theorem getB_enc (v : Nat) (hv : v < 2 ^ 64) (rest : List Nat) :
    getB (Tagged.enc v ++ rest) = some (v, Tagged.len v) := by
  unfold getB
  have h := Tagged.get_enc v hv rest
  rw [Tagged.enc_length] at h
  have hb := Tagged.len_bounds v
  have hl : (Tagged.enc v ++ rest).length = Tagged.len v + rest.length := by
    rw [List.length_append, Tagged.enc_length]
  rw [getN_of_get _ _ v (Tagged.len v) h (by rw [hl]; omega)]


/-! ### 3. the encoder -/

/-- position of `x` in the dictionary of `xs` (0 when absent) -/
def idxOf (d : List Nat) (x : Nat) : Nat := (find d x).getD 0

/-- the index stream the encoder writes -/
def indices (xs : List Nat) : List Nat := xs.map (idxOf (build xs))

theorem idxOf_spec (xs : List Nat) (x : Nat) (hx : x ∈ xs) :
    find (build xs) x = some (idxOf (build xs) x) ∧ idxOf (build xs) x < (build xs).length ∧
      (build xs)[idxOf (build xs) x]? = some x := by
  obtain ⟨i, h1, h2, h3⟩ := find_mem (build xs) (build_pairwise xs) x ((mem_build xs x).2 hx)
  have : idxOf (build xs) x = i := by unfold idxOf; rw [h1]; rfl
  rw [this]
  exact ⟨h1, h2, h3⟩

theorem mapM_find (xs : List Nat) : xs.mapM (find (build xs)) = some (indices xs) :=
  mapM_some _ _ _ (fun x hx => (idxOf_spec xs x hx).1)

/-- explicit form of the encoder output -/
theorem enc_eq (xs : List Nat) (hne : xs ≠ []) (hd : (build xs).length ≤ maxDict) :
    enc xs = Tagged.enc (build xs).length ++ (build xs).flatMap Tagged.enc ++ Tagged.enc xs.length ++
      (indices xs).flatMap (leBytes (indexWidth (build xs).length)) := by
  unfold enc
  rw [if_neg hne]
  simp only []
  have hm : xs.mapM (findA (build xs).toArray (build xs).length) = some (indices xs) := mapM_find xs
  rw [if_neg (by omega), hm]

theorem enc_accepts (xs : List Nat) (hne : xs ≠ []) (hd : (build xs).length ≤ maxDict) : enc xs ≠ [] := by
  rw [enc_eq xs hne hd]
  intro h
  have := congrArg List.length h
  simp only [List.length_append, Tagged.enc_length, List.length_nil] at this
  have := (Tagged.len_bounds (build xs).length).1
  omega

theorem enc_ne_nil_iff (xs : List Nat) : enc xs ≠ [] ↔ xs ≠ [] ∧ (build xs).length ≤ maxDict := by
  constructor
  · intro h
    constructor
    · intro e; apply h; unfold enc; rw [if_pos e]
    · apply Classical.byContradiction
      intro hn
      apply h
      unfold enc
      by_cases e : xs = []
      · rw [if_pos e]
      · rw [if_neg e]; simp only []; rw [if_pos (by omega)]
  · intro ⟨h1, h2⟩
    exact enc_accepts xs h1 h2

/-! ### 4. size predictor -/

theorem length_flatMap_enc (d : List Nat) : (d.flatMap Tagged.enc).length = (d.map Tagged.len).sum := by
  induction d with
  | nil => rfl
  | cons a t ih => simp [List.flatMap_cons, Tagged.enc_length, ih]

theorem length_flatMap_leBytes (w : Nat) (idx : List Nat) : (idx.flatMap (leBytes w)).length = idx.length * w := by
  induction idx with
  | nil => simp
  | cons a t ih => simp [List.flatMap_cons, ih, Nat.succ_mul, Nat.add_comm]

theorem indices_length (xs : List Nat) : (indices xs).length = xs.length := by
  unfold indices; simp

theorem enc_length (xs : List Nat) (h : enc xs ≠ []) : (enc xs).length = size xs := by
  obtain ⟨hne, hd⟩ := (enc_ne_nil_iff xs).1 h
  rw [enc_eq xs hne hd]
  unfold size
  rw [if_neg hne]
  simp only []
  rw [if_neg (by omega)]
  simp only [List.length_append, Tagged.enc_length, length_flatMap_enc, length_flatMap_leBytes, indices_length]

theorem size_eq_zero_iff (xs : List Nat) : size xs = 0 ↔ enc xs = [] := by
  constructor
  · intro h
    apply Classical.byContradiction
    intro hn
    have := enc_length xs hn
    have h2 : (enc xs).length ≠ 0 := by
      intro e; exact hn (List.eq_nil_of_length_eq_zero e)
    omega
  · intro h
    apply Classical.byContradiction
    intro hn
    unfold size at hn
    by_cases e : xs = []
    · rw [if_pos e] at hn; exact hn rfl
    · rw [if_neg e] at hn
      simp only [] at hn
      by_cases e2 : (build xs).length > maxDict
      · rw [if_pos e2] at hn; exact hn rfl
      · exact enc_accepts xs e (by omega) h


/-! ### 5. round trip -/

theorem readEntries_enc (d : List Nat) (hd : U64s d) (rest : List Nat) :
    readEntries d.length (d.flatMap Tagged.enc ++ rest) = some (d, rest) := by
  induction d with
  | nil => simp [readEntries]
  | cons a t ih =>
    have ha : a < 2 ^ 64 := hd a (by simp)
    have ht : U64s t := fun x hx => hd x (by simp [hx])
    simp only [List.length_cons, List.flatMap_cons, List.append_assoc]
    unfold readEntries
    rw [getB_enc a ha]
    simp only []
    rw [List.drop_left' (Tagged.enc_length a), ih ht]
    rfl

theorem readIdx_enc (w : Nat) (idx : List Nat) (h : ∀ i ∈ idx, i < 256 ^ w) (rest : List Nat) :
    readIdx idx.length w (idx.flatMap (leBytes w) ++ rest) = some idx := by
  induction idx with
  | nil => simp [readIdx]
  | cons a t ih =>
    have ha := h a (by simp)
    have ht := ih (fun x hx => h x (by simp [hx]))
    simp only [List.length_cons, List.flatMap_cons, List.append_assoc]
    unfold readIdx
    rw [takeExact_append _ _ (leBytes_length w a)]
    simp only []
    rw [List.drop_left' (leBytes_length w a), ht, ofLe_leBytes_of_lt ha]
    rfl

theorem lt_pow_indexWidth (n i : Nat) (h : i < n) : i < 256 ^ indexWidth n := by
  unfold indexWidth
  rw [if_neg (by omega)]
  have h1 : extLen i ≤ extLen (n - 1) := extLen_mono (by omega)
  exact Nat.lt_of_lt_of_le (lt_pow_extLen i) (Nat.pow_le_pow_right (by omega) h1)

theorem indexWidth_pos (n : Nat) : 1 ≤ indexWidth n := by
  unfold indexWidth
  split
  · omega
  · exact extLen_pos _

theorem build_U64s (xs : List Nat) (hx : U64s xs) : U64s (build xs) :=
  fun x h => hx x ((mem_build xs x).1 h)

theorem lookup_indices (xs : List Nat) :
    (indices xs).mapM (fun i => if i < (build xs).length then (build xs)[i]? else none) = some xs := by
  have := mapM_some (fun i => if i < (build xs).length then (build xs)[i]? else none)
    (fun i => (build xs).getD i 0) (indices xs) (by
      intro i hi
      unfold indices at hi
      obtain ⟨x, hx, e⟩ := List.mem_map.1 hi
      obtain ⟨_, h2, h3⟩ := idxOf_spec xs x hx
      subst e
      rw [if_pos h2, h3, List.getD_eq_getElem?_getD, h3]
      rfl)
  rw [this]
  congr 1
  unfold indices
  rw [List.map_map]
  have : ∀ l : List Nat, (∀ x ∈ l, x ∈ xs) → l.map ((fun i => (build xs).getD i 0) ∘ idxOf (build xs)) = l := by
    intro l
    induction l with
    | nil => intro _; rfl
    | cons a t ih =>
      intro hl
      obtain ⟨_, _, h3⟩ := idxOf_spec xs a (hl a (by simp))
      rw [List.map_cons, ih (fun x hx => hl x (by simp [hx]))]
      simp only [Function.comp]
      rw [List.getD_eq_getElem?_getD, h3]
      rfl
  exact this xs (fun x hx => hx)

/-- common part: the decoder reaches the capacity test with the right count, and passes everything else -/
theorem dec_enc_aux (xs : List Nat) (hx : U64s xs) (hn : xs.length < 2 ^ 64) (h : enc xs ≠ []) (rest : List Nat)
    (capOpt : Option Nat) (h0 : capOpt ≠ some 0) :
    dec (enc xs ++ rest) capOpt =
      if (match capOpt with | some c => decide (xs.length > c) | none => false) then none else some xs := by
  obtain ⟨hne, hd⟩ := (enc_ne_nil_iff xs).1 h
  have hnil : enc xs ++ rest ≠ [] := by
    intro e; exact h (List.append_eq_nil_iff.1 e).1
  unfold dec
  rw [if_neg (by intro hc; rcases hc with hc | hc; exact hnil hc; exact h0 hc)]
  rw [enc_eq xs hne hd]
  have hdl : (build xs).length < 2 ^ 64 := by unfold maxDict at hd; omega
  simp only [List.append_assoc]
  rw [getB_enc _ hdl]
  simp only []
  rw [if_neg (by omega), List.drop_left' (Tagged.enc_length _), readEntries_enc _ (build_U64s xs hx)]
  simp only []
  rw [getB_enc _ hn]
  simp only []
  rw [List.drop_left' (Tagged.enc_length _)]
  have hw := indexWidth_pos (build xs).length
  have hlen : xs.length ≤ ((indices xs).flatMap (leBytes (indexWidth (build xs).length)) ++ rest).length
      / indexWidth (build xs).length := by
    rw [Nat.le_div_iff_mul_le (by omega), List.length_append, length_flatMap_leBytes, indices_length]
    omega
  have hr := readIdx_enc (indexWidth (build xs).length) (indices xs) (by
    intro i hi
    unfold indices at hi
    obtain ⟨x, hx', e⟩ := List.mem_map.1 hi
    subst e
    exact lt_pow_indexWidth _ _ (idxOf_spec xs x hx').2.1) rest
  rw [indices_length] at hr
  have hgt : ¬ xs.length > ((indices xs).flatMap (leBytes (indexWidth (build xs).length)) ++ rest).length
      / indexWidth (build xs).length := by omega
  cases capOpt with
  | none =>
    simp only [Bool.false_eq_true, ↓reduceIte]
    rw [if_neg hgt, hr]
    exact lookup_indices xs
  | some c =>
    simp only []
    by_cases hc : xs.length > c
    · have hdc : decide (xs.length > c) = true := by simpa using hc
      rw [if_pos hdc, if_pos hdc]
    · have hdc : ¬ (decide (xs.length > c) = true) := by simpa using hc
      rw [if_neg hdc, if_neg hgt, hr, if_neg hdc]
      exact lookup_indices xs

theorem dec_enc (xs : List Nat) (hx : U64s xs) (hn : xs.length < 2 ^ 64) (h : enc xs ≠ []) (rest : List Nat) :
    dec (enc xs ++ rest) none = some xs := by
  rw [dec_enc_aux xs hx hn h rest none (by simp)]
  simp

theorem dec_enc_cap (xs : List Nat) (hx : U64s xs) (hn : xs.length < 2 ^ 64) (h : enc xs ≠ []) (rest : List Nat)
    (cap : Nat) (hc : xs.length ≤ cap) : dec (enc xs ++ rest) (some cap) = some xs := by
  obtain ⟨hne, _⟩ := (enc_ne_nil_iff xs).1 h
  have hpos : 0 < xs.length := List.length_pos_iff.2 hne
  rw [dec_enc_aux xs hx hn h rest (some cap) (by simp; omega)]
  simp only []
  rw [if_neg (by simp; omega)]

theorem dec_enc_small_cap (xs : List Nat) (hx : U64s xs) (hn : xs.length < 2 ^ 64) (h : enc xs ≠ [])
    (rest : List Nat) (cap : Nat) (hc : cap < xs.length) : dec (enc xs ++ rest) (some cap) = none := by
  by_cases h0 : cap = 0
  · subst h0
    unfold dec
    rw [if_pos (Or.inr rfl)]
  · rw [dec_enc_aux xs hx hn h rest (some cap) (by simp; omega)]
    simp only []
    rw [if_pos (by simp; omega)]


/-! ### 6. capacity, arbitrary bytes -/

theorem readIdx_length (n w : Nat) (bs idx : List Nat) (h : readIdx n w bs = some idx) : idx.length = n := by
  induction n generalizing bs idx with
  | zero => simp [readIdx] at h; subst h; rfl
  | succ n ih =>
    unfold readIdx at h
    cases ht : takeExact w bs with
    | none => rw [ht] at h; simp at h
    | some p =>
      rw [ht] at h
      simp only [] at h
      cases hr : readIdx n w (bs.drop w) with
      | none => rw [hr] at h; simp at h
      | some r =>
        rw [hr] at h
        simp at h
        subst h
        simp [ih _ _ hr]

/-- whatever the bytes, a successful decode yields exactly the announced count, which passed the capacity test -/
theorem dec_length_le_cap (bs : List Nat) (c : Nat) (vs : List Nat) (h : dec bs (some c) = some vs) :
    vs.length ≤ c := by
  unfold dec at h
  split at h
  · simp at h
  · split at h
    · simp at h
    · split at h
      · simp at h
      · split at h
        · simp at h
        · split at h
          · simp at h
          · rename_i cnt l2 _
            simp only [] at h
            split at h
            · simp at h
            · rename_i hcap
              split at h
              · simp at h
              · split at h
                · simp at h
                · rename_i idx hidx
                  have h1 := mapM_length _ _ _ h
                  have h2 := readIdx_length _ _ _ _ hidx
                  simp at hcap
                  omega

/-! ### 7. byte range -/

/-- `Tagged.enc` writes bytes for every natural number (the 32-bit halves wrap) -/
theorem tagged_enc_lt (v : Nat) : ∀ b ∈ Tagged.enc v, b < 256 := by
  intro b hb
  unfold Tagged.enc at hb
  repeat' split at hb
  all_goals simp only [List.mem_cons, List.mem_append, List.not_mem_nil, or_false] at hb
  all_goals
    first
    | omega
    | (rcases hb with hb | hb | hb
       · omega
       · exact beBytes_lt _ _ b hb
       · exact beBytes_lt _ _ b hb)
    | (rcases hb with hb | hb | hb
       · omega
       · omega
       · exact beBytes_lt _ _ b hb)
    | (rcases hb with hb | hb
       · omega
       · exact beBytes_lt _ _ b hb)

theorem enc_lt (xs : List Nat) : ∀ b ∈ enc xs, b < 256 := by
  intro b hb
  by_cases h : enc xs = []
  · rw [h] at hb; simp at hb
  · obtain ⟨hne, hd⟩ := (enc_ne_nil_iff xs).1 h
    rw [enc_eq xs hne hd] at hb
    simp only [List.mem_append, List.mem_flatMap] at hb
    rcases hb with ((hb | ⟨a, _, hb⟩) | hb) | ⟨a, _, hb⟩
    · exact tagged_enc_lt _ b hb
    · exact tagged_enc_lt _ b hb
    · exact tagged_enc_lt _ b hb
    · exact leBytes_lt _ _ b hb


end Varint.Dict
