import Varint.Model.BitField
/- testBit characterisations of the bit-field primitives; everything else follows by extensionality. -/
namespace Varint.BF

theorem testBit_mask (n i : Nat) : (mask n).testBit i = decide (i < n) := by
  unfold mask; exact Nat.testBit_two_pow_sub_one n i

theorem testBit_mask_shift (n a i : Nat) : (mask n <<< a).testBit i = (decide (a ≤ i) && decide (i - a < n)) := by
  rw [Nat.testBit_shiftLeft, testBit_mask]

theorem testBit_clearField (x a n i : Nat) :
    (clearField x a n).testBit i = (x.testBit i && !(decide (a ≤ i) && decide (i - a < n))) := by
  unfold clearField
  rw [Nat.testBit_xor, Nat.testBit_and, testBit_mask_shift]
  cases x.testBit i <;> cases decide (a ≤ i) <;> cases decide (i - a < n) <;> rfl

theorem testBit_insert (x a n v i : Nat) (hv : v < 2 ^ n) :
    (insert x a n v).testBit i = if a ≤ i ∧ i < a + n then v.testBit (i - a) else x.testBit i := by
  unfold insert
  rw [Nat.testBit_or, testBit_clearField, Nat.testBit_shiftLeft]
  by_cases h1 : a ≤ i
  · by_cases h2 : i - a < n
    · have : a ≤ i ∧ i < a + n := ⟨h1, by omega⟩
      rw [if_pos this]
      simp [h1, h2]
    · have : ¬ (a ≤ i ∧ i < a + n) := by omega
      have hvb : v.testBit (i - a) = false := by
        apply Nat.testBit_lt_two_pow
        exact Nat.lt_of_lt_of_le hv (Nat.pow_le_pow_right (by omega) (by omega))
      rw [if_neg this]
      simp [h1, h2, hvb]
  · have : ¬ (a ≤ i ∧ i < a + n) := by omega
    rw [if_neg this]
    simp [h1]

theorem testBit_extract (x a n j : Nat) : (extract x a n).testBit j = (decide (j < n) && x.testBit (a + j)) := by
  unfold extract
  rw [Nat.testBit_and, Nat.testBit_shiftRight, testBit_mask, Bool.and_comm]

theorem extract_lt (x a n : Nat) : extract x a n < 2 ^ n := by
  unfold extract
  apply Nat.lt_of_le_of_lt Nat.and_le_right
  unfold mask
  have : 0 < 2 ^ n := Nat.pow_pos (by omega)
  omega

theorem testBit_eq_false_of_lt {v n j : Nat} (hv : v < 2 ^ n) (hj : n ≤ j) : v.testBit j = false :=
  Nat.testBit_lt_two_pow (Nat.lt_of_lt_of_le hv (Nat.pow_le_pow_right (by omega) hj))

/-- read back what was written -/
theorem extract_insert (x a n v : Nat) (hv : v < 2 ^ n) : extract (insert x a n v) a n = v := by
  apply Nat.eq_of_testBit_eq
  intro j
  rw [testBit_extract, testBit_insert _ _ _ _ _ hv]
  by_cases hj : j < n
  · have : a ≤ a + j ∧ a + j < a + n := ⟨by omega, by omega⟩
    simp [hj, this]
  · simp [hj, testBit_eq_false_of_lt hv (by omega : n ≤ j)]

/-- a disjoint field is not disturbed -/
theorem extract_insert_disjoint (x a n v b m : Nat) (hv : v < 2 ^ n) (hd : b + m ≤ a ∨ a + n ≤ b) :
    extract (insert x a n v) b m = extract x b m := by
  apply Nat.eq_of_testBit_eq
  intro j
  rw [testBit_extract, testBit_extract, testBit_insert _ _ _ _ _ hv]
  by_cases hj : j < m
  · have : ¬ (a ≤ b + j ∧ b + j < a + n) := by omega
    simp [hj, this]
  · simp [hj]

/-- every bit outside the field is unchanged -/
theorem testBit_insert_outside (x a n v i : Nat) (hv : v < 2 ^ n) (ho : i < a ∨ a + n ≤ i) :
    (insert x a n v).testBit i = x.testBit i := by
  rw [testBit_insert _ _ _ _ _ hv]
  have : ¬ (a ≤ i ∧ i < a + n) := by omega
  simp [this]

/-- the word stays a W-bit word -/
theorem insert_lt (x a n v W : Nat) (hx : x < 2 ^ W) (hv : v < 2 ^ n) (hw : a + n ≤ W) : insert x a n v < 2 ^ W := by
  apply Nat.lt_pow_two_of_testBit
  intro i hi
  rw [testBit_insert _ _ _ _ _ hv]
  have : ¬ (a ≤ i ∧ i < a + n) := by omega
  simp [this, testBit_eq_false_of_lt hx hi]

end Varint.BF
