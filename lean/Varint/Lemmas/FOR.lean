import Varint.Model.FOR
import Varint.Lemmas.Tagged
/- Lemmas about the frame-of-reference codec model. -/
namespace Varint.FOR

theorem foldl_min_le (xs : List Nat) (a : Nat) : xs.foldl min a ≤ a ∧ ∀ x ∈ xs, xs.foldl min a ≤ x := by
  induction xs generalizing a with
  | nil => simp
  | cons y ys ih =>
    simp only [List.foldl_cons]
    have := ih (min a y)
    refine ⟨by have := this.1; omega, ?_⟩
    intro x hx
    simp only [List.mem_cons] at hx
    rcases hx with rfl | hx
    · have := this.1; omega
    · exact this.2 x hx

theorem foldl_max_ge (xs : List Nat) (a : Nat) : a ≤ xs.foldl max a ∧ ∀ x ∈ xs, x ≤ xs.foldl max a := by
  induction xs generalizing a with
  | nil => simp
  | cons y ys ih =>
    simp only [List.foldl_cons]
    have := ih (max a y)
    refine ⟨by have := this.1; omega, ?_⟩
    intro x hx
    simp only [List.mem_cons] at hx
    rcases hx with rfl | hx
    · have := this.1; omega
    · exact this.2 x hx

theorem foldl_max_lt (xs : List Nat) (a b : Nat) (ha : a < b) (hx : ∀ x ∈ xs, x < b) : xs.foldl max a < b := by
  induction xs generalizing a with
  | nil => simpa
  | cons y ys ih =>
    simp only [List.foldl_cons]
    apply ih
    · have := hx y (by simp); omega
    · intro x hx'; exact hx x (by simp [hx'])

theorem minL_le (xs : List Nat) : ∀ x ∈ xs, minL xs ≤ x := by
  cases xs with
  | nil => simp
  | cons a ys =>
    intro x hx
    simp only [minL]
    have := foldl_min_le ys a
    simp only [List.mem_cons] at hx
    rcases hx with rfl | hx
    · exact this.1
    · exact this.2 x hx

theorem le_maxL (xs : List Nat) : ∀ x ∈ xs, x ≤ maxL xs := by
  cases xs with
  | nil => simp
  | cons a ys =>
    intro x hx
    simp only [maxL]
    have := foldl_max_ge ys a
    simp only [List.mem_cons] at hx
    rcases hx with rfl | hx
    · exact this.1
    · exact this.2 x hx

theorem maxL_lt (xs : List Nat) (b : Nat) (hb : 0 < b) (hx : ∀ x ∈ xs, x < b) : maxL xs < b := by
  cases xs with
  | nil => simpa [maxL]
  | cons a ys =>
    simp only [maxL]
    exact foldl_max_lt ys a b (hx a (by simp)) (fun x h => hx x (by simp [h]))

theorem minL_le_maxL (xs : List Nat) (h : xs ≠ []) : minL xs ≤ maxL xs := by
  cases xs with
  | nil => exact absurd rfl h
  | cons a ys => exact Nat.le_trans (minL_le _ a (by simp)) (le_maxL _ a (by simp))

theorem offsets_length (mn w : Nat) (xs : List Nat) : (offsets mn w xs).length = xs.length * w := by
  induction xs with
  | nil => simp [offsets]
  | cons x xs ih => simp [offsets, ih, Nat.add_mul]; omega

theorem readOffsets_offsets (mn w : Nat) (xs : List Nat) (hmn : mn < 2 ^ 64)
    (hx : ∀ x ∈ xs, mn ≤ x ∧ x - mn < 256 ^ w ∧ x < 2 ^ 64) (rest : List Nat) :
    readOffsets xs.length mn w (offsets mn w xs ++ rest) = some xs := by
  induction xs with
  | nil => rfl
  | cons x xs ih =>
    obtain ⟨h1, h2, h3⟩ := hx x (by simp)
    rw [offsets, List.length_cons, List.append_assoc, readOffsets, takeExact_append _ _ (leBytes_length _ _)]
    simp only []
    rw [List.drop_left' (leBytes_length _ _), ih (fun y hy => hx y (by simp [hy]))]
    simp only [Option.map_some, ofLe_leBytes_of_lt h2]
    have : (mn + (x - mn)) % 2 ^ 64 = x := by omega
    rw [this]

structure Good (xs : List Nat) : Prop where
  ne : xs ≠ []
  lt : ∀ x ∈ xs, x < 2 ^ 64
  len : xs.length < 2 ^ 64

theorem analyze_facts (xs : List Nat) (g : Good xs) :
    let m := analyze xs
    m.minValue < 2 ^ 64 ∧ m.count = xs.length ∧ 1 ≤ m.offsetWidth ∧ m.offsetWidth ≤ 8 ∧
    (∀ x ∈ xs, m.minValue ≤ x ∧ x - m.minValue < 256 ^ m.offsetWidth ∧ x < 2 ^ 64) := by
  intro m
  have hmx : maxL xs < 2 ^ 64 := maxL_lt xs _ (by decide) g.lt
  have hle := minL_le_maxL xs g.ne
  have hr : maxL xs - minL xs < 2 ^ 64 := by omega
  refine ⟨by show minL xs < 2 ^ 64; omega, rfl, extLen_pos _, extLen_le_8 hr, ?_⟩
  intro x hx
  have h1 := minL_le xs x hx
  have h2 := le_maxL xs x hx
  refine ⟨h1, ?_, g.lt x hx⟩
  show x - minL xs < 256 ^ extLen (maxL xs - minL xs)
  exact Nat.lt_of_le_of_lt (by omega) (lt_pow_extLen _)

theorem enc_eq (xs : List Nat) :
    enc xs = Tagged.enc (analyze xs).minValue ++ ((analyze xs).offsetWidth ::
      (Tagged.enc xs.length ++ offsets (analyze xs).minValue (analyze xs).offsetWidth xs)) := by
  simp [enc, analyze]

theorem enc_length (xs : List Nat) : (enc xs).length = (analyze xs).encodedSize := by
  rw [enc_eq]
  simp only [analyze, size, List.length_append, List.length_cons, Tagged.enc_length, offsets_length]
  omega

theorem readHdr_enc (xs : List Nat) (g : Good xs) (rest : List Nat) :
    readHdr (enc xs ++ rest) = some ⟨(analyze xs).minValue, (analyze xs).offsetWidth, xs.length,
      Tagged.len (analyze xs).minValue, Tagged.len xs.length⟩ := by
  obtain ⟨hmn, _, _, _, _⟩ := analyze_facts xs g
  rw [enc_eq, List.append_assoc]
  unfold readHdr
  rw [Tagged.get_enc _ hmn]
  simp only []
  rw [List.drop_left, List.cons_append, List.append_assoc]
  simp only []
  rw [Tagged.get_enc _ g.len]
  simp only [Tagged.enc_length]

/-- header length -/
theorem hdr_drop (xs : List Nat) (rest : List Nat) :
    (enc xs ++ rest).drop (Tagged.len (analyze xs).minValue + 1 + Tagged.len xs.length)
      = offsets (analyze xs).minValue (analyze xs).offsetWidth xs ++ rest := by
  rw [enc_eq]
  have e : Tagged.enc (analyze xs).minValue ++
      ((analyze xs).offsetWidth :: (Tagged.enc xs.length ++ offsets (analyze xs).minValue (analyze xs).offsetWidth xs)) ++ rest
      = (Tagged.enc (analyze xs).minValue ++ [(analyze xs).offsetWidth] ++ Tagged.enc xs.length) ++
        (offsets (analyze xs).minValue (analyze xs).offsetWidth xs ++ rest) := by simp
  rw [e, List.drop_left' (by simp [Tagged.enc_length]; omega)]

theorem dec_enc (xs : List Nat) (g : Good xs) (cap : Nat) (hcap : xs.length ≤ cap) (rest : List Nat) :
    dec (enc xs ++ rest) cap = some (some xs) := by
  obtain ⟨hmn, _, hw1, hw8, hx⟩ := analyze_facts xs g
  unfold dec
  rw [readHdr_enc xs g rest]
  simp only []
  rw [if_neg (by omega), if_neg (by omega), hdr_drop, readOffsets_offsets _ _ xs hmn hx]

/-- a capacity below the element count is the documented failure, whatever the capacity -/
theorem dec_enc_small (xs : List Nat) (g : Good xs) (cap : Nat) (hcap : cap < xs.length) (rest : List Nat) :
    dec (enc xs ++ rest) cap = some none := by
  unfold dec
  rw [readHdr_enc xs g rest]
  simp only []
  rw [if_pos hcap]

theorem offsets_drop (mn w : Nat) (xs : List Nat) (i : Nat) :
    (offsets mn w xs).drop (i * w) = offsets mn w (xs.drop i) := by
  induction xs generalizing i with
  | nil => simp [offsets]
  | cons x xs ih =>
    cases i with
    | zero => simp
    | succ i =>
      rw [offsets, List.drop_succ_cons, ← ih i]
      have : (i + 1) * w = w + i * w := by rw [Nat.add_mul]; omega
      rw [this, ← List.drop_drop, List.drop_left' (leBytes_length _ _)]

theorem getAt_enc (xs : List Nat) (g : Good xs) (i : Nat) (hi : i < xs.length) (rest : List Nat) :
    getAt (enc xs ++ rest) i = some (xs.getD i 0) := by
  obtain ⟨hmn, _, hw1, hw8, hx⟩ := analyze_facts xs g
  unfold getAt
  rw [readHdr_enc xs g rest]
  simp only []
  rw [if_neg (by omega)]
  have : Tagged.len (analyze xs).minValue + 1 + Tagged.len xs.length + i * (analyze xs).offsetWidth
      = (Tagged.len (analyze xs).minValue + 1 + Tagged.len xs.length) + i * (analyze xs).offsetWidth := rfl
  rw [this, ← List.drop_drop, hdr_drop, List.drop_append_of_le_length (by rw [offsets_length]; exact Nat.mul_le_mul_right _ (by omega)),
    offsets_drop]
  have hne : xs.drop i ≠ [] := by
    intro h; have := congrArg List.length h; simp at this; omega
  cases hd : xs.drop i with
  | nil => exact absurd hd hne
  | cons y ys =>
    have hy : y ∈ xs := List.mem_of_mem_drop (by rw [hd]; simp)
    have hget : xs.getD i 0 = y := by
      have h0 : (xs.drop i)[0]? = some y := by rw [hd]; rfl
      rw [List.getElem?_drop] at h0
      simp only [Nat.add_zero] at h0
      simp [List.getD, h0]
    obtain ⟨h1, h2, h3⟩ := hx y hy
    rw [offsets, List.append_assoc, takeExact_append _ _ (leBytes_length _ _)]
    simp only [ofLe_leBytes_of_lt h2, hget]
    congr 1
    omega

theorem offsets_append (mn w : Nat) (a b : List Nat) : offsets mn w (a ++ b) = offsets mn w a ++ offsets mn w b := by
  induction a with
  | nil => simp [offsets]
  | cons x a ih => simp [offsets, ih]

/-- the block reader on a valid encoding returns exactly the requested slice of the original array -/
theorem decBlock_enc (xs : List Nat) (g : Good xs) (start blockSize : Nat) (rest : List Nat) :
    decBlock (enc xs ++ rest) start blockSize = some ((xs.drop start).take blockSize) := by
  obtain ⟨hmn, _, hw1, hw8, hx⟩ := analyze_facts xs g
  unfold decBlock
  rw [readHdr_enc xs g rest]
  simp only []
  by_cases c : start ≥ xs.length
  · rw [if_pos c, List.drop_of_length_le c]; simp
  · rw [if_neg c, if_neg (by omega)]
    have e : Tagged.len (analyze xs).minValue + 1 + Tagged.len xs.length + start * (analyze xs).offsetWidth
        = (Tagged.len (analyze xs).minValue + 1 + Tagged.len xs.length) + start * (analyze xs).offsetWidth := rfl
    rw [e, ← List.drop_drop, hdr_drop,
      List.drop_append_of_le_length (by rw [offsets_length]; exact Nat.mul_le_mul_right _ (by omega)), offsets_drop]
    generalize hys : xs.drop start = ys
    have hyl : ys.length = xs.length - start := by rw [← hys]; simp
    have hyx : ∀ y ∈ ys, (analyze xs).minValue ≤ y ∧ y - (analyze xs).minValue < 256 ^ (analyze xs).offsetWidth ∧ y < 2 ^ 64 := by
      intro y hy; exact hx y (List.mem_of_mem_drop (by rw [hys]; exact hy))
    have hn : (if start + blockSize > xs.length then xs.length - start else blockSize) = (ys.take blockSize).length := by
      rw [List.length_take, hyl]
      split <;> omega
    rw [hn]
    have hsplit : offsets (analyze xs).minValue (analyze xs).offsetWidth ys ++ rest =
        offsets (analyze xs).minValue (analyze xs).offsetWidth (ys.take blockSize) ++
          (offsets (analyze xs).minValue (analyze xs).offsetWidth (ys.drop blockSize) ++ rest) := by
      rw [← List.append_assoc, ← offsets_append, List.take_append_drop]
    rw [hsplit]
    exact readOffsets_offsets _ _ _ hmn (fun y hy => hyx y (List.mem_of_mem_take hy)) _


end Varint.FOR
