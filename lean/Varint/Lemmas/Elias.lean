import Varint.Model.Elias
import Varint.Lemmas.Bytes
import Varint.Lemmas.Bounded
/- Round-trip, size and capacity lemmas for the Elias gamma / delta model (Model/Elias.lean, Model/Bits.lean).
   Core Lean only. -/
namespace Varint.Elias
open Varint.Bits

/-! ### ofMsb -/

theorem foldl_ofMsb (bs : List Bool) (a : Nat) :
    bs.foldl (fun a b => 2 * a + (if b then 1 else 0)) a = a * 2 ^ bs.length + ofMsb bs := by
  induction bs generalizing a with
  | nil => simp [ofMsb]
  | cons b bs ih =>
    unfold ofMsb
    simp only [List.foldl_cons, List.length_cons]
    rw [ih, ih (2 * 0 + _)]
    rw [Nat.pow_succ]
    cases b <;> simp <;> rw [Nat.mul_comm (2 ^ bs.length) 2, ← Nat.mul_assoc, Nat.mul_comm a 2]
    rw [Nat.add_mul, Nat.add_assoc, Nat.one_mul]

theorem ofMsb_cons (b : Bool) (bs : List Bool) :
    ofMsb (b :: bs) = (if b then 1 else 0) * 2 ^ bs.length + ofMsb bs := by
  have := foldl_ofMsb bs (2 * 0 + (if b then 1 else 0))
  unfold ofMsb at *
  simp only [List.foldl_cons]
  rw [this, Nat.mul_zero, Nat.zero_add]

theorem ofMsb_lt (bs : List Bool) : ofMsb bs < 2 ^ bs.length := by
  induction bs with
  | nil => simp [ofMsb]
  | cons b bs ih =>
    rw [ofMsb_cons, List.length_cons, Nat.pow_succ]
    cases b <;> simp <;> omega

theorem ofMsb_bit_nat (bs : List Bool) (i : Nat) (h : i < bs.length) :
    ofMsb bs / 2 ^ (bs.length - 1 - i) % 2 = if bs[i] then 1 else 0 := by
  induction bs generalizing i with
  | nil => simp at h
  | cons b bs ih =>
    have hlt := ofMsb_lt bs
    rw [ofMsb_cons]
    cases i with
    | zero =>
      simp only [List.length_cons, List.getElem_cons_zero, Nat.add_sub_cancel, Nat.sub_zero]
      rw [Nat.add_comm, Nat.add_mul_div_right _ _ (Nat.two_pow_pos _), Nat.div_eq_of_lt hlt]
      cases b <;> simp
    | succ i =>
      simp only [List.length_cons, List.getElem_cons_succ] at h ⊢
      have hi : i < bs.length := by omega
      rw [← ih i hi]
      have he : bs.length + 1 - 1 - (i + 1) = bs.length - 1 - i := by omega
      rw [he]
      have hp : 2 ^ bs.length = 2 ^ i * 2 * 2 ^ (bs.length - 1 - i) := by
        rw [← Nat.pow_succ, ← Nat.pow_add]
        congr 1
        omega
      cases b
      · simp
      · simp only [if_true, Nat.one_mul]
        rw [hp, Nat.add_comm, Nat.add_mul_div_right _ _ (Nat.two_pow_pos _)]
        omega

theorem ofMsb_bit (bs : List Bool) (i : Nat) (h : i < bs.length) :
    decide (ofMsb bs / 2 ^ (bs.length - 1 - i) % 2 = 1) = bs[i] := by
  rw [ofMsb_bit_nat bs i h]
  cases bs[i] <;> simp

/-! ### packMsb / bitMsb -/

theorem short_len (bs : List Bool)
    (h : ∀ (b0 b1 b2 b3 b4 b5 b6 b7 : Bool) (rest : List Bool),
      bs = b0 :: b1 :: b2 :: b3 :: b4 :: b5 :: b6 :: b7 :: rest → False) : bs.length < 8 := by
  match bs, h with
  | [], _ => simp
  | [_], _ => simp
  | [_, _], _ => simp
  | [_, _, _], _ => simp
  | [_, _, _, _], _ => simp
  | [_, _, _, _, _], _ => simp
  | [_, _, _, _, _, _], _ => simp
  | [_, _, _, _, _, _, _], _ => simp
  | _ :: _ :: _ :: _ :: _ :: _ :: _ :: _ :: _, h => exact (h _ _ _ _ _ _ _ _ _ rfl).elim

theorem packMsb_length (bits : List Bool) : (packMsb bits).length = (bits.length + 7) / 8 := by
  induction bits using packMsb.induct with
  | case1 b0 b1 b2 b3 b4 b5 b6 b7 rest ih =>
    rw [packMsb.eq_1]
    simp only [List.length_cons, ih]
    omega
  | case2 => simp [packMsb]
  | case3 bs h1 h2 =>
    rw [packMsb.eq_3 _ h1 h2]
    have := short_len bs h1
    have : 0 < bs.length := List.length_pos_iff.mpr (fun h => h2 h)
    simp only [List.length_cons, List.length_nil]
    omega

theorem packMsb_lt (bits : List Bool) : ∀ b ∈ packMsb bits, b < 256 := by
  induction bits using packMsb.induct with
  | case1 b0 b1 b2 b3 b4 b5 b6 b7 rest ih =>
    rw [packMsb.eq_1]
    intro b hb
    simp only [List.mem_cons] at hb
    rcases hb with hb | hb
    · subst hb
      have h8 : ofMsb [b0, b1, b2, b3, b4, b5, b6, b7] < 2 ^ 8 := ofMsb_lt [b0, b1, b2, b3, b4, b5, b6, b7]
      omega
    · exact ih b hb
  | case2 => simp [packMsb]
  | case3 bs h1 h2 =>
    rw [packMsb.eq_3 _ h1 h2]
    have hl := short_len bs h1
    intro b hb
    simp only [List.mem_cons, List.not_mem_nil, or_false] at hb
    subst hb
    have := ofMsb_lt (bs ++ List.replicate (8 - bs.length) false)
    have hlen : (bs ++ List.replicate (8 - bs.length) false).length = 8 := by
      simp only [List.length_append, List.length_replicate]; omega
    rw [hlen] at this
    omega

theorem bitMsb_cons_lt (B : Nat) (tl : List Nat) (i : Nat) (h : i < 8) :
    bitMsb (B :: tl) i = some (decide (B / 2 ^ (7 - i) % 2 = 1)) := by
  unfold bitMsb
  have h1 : i / 8 = 0 := by omega
  have h2 : i % 8 = i := by omega
  rw [h1, h2]
  rfl

theorem bitMsb_cons_ge (B : Nat) (tl : List Nat) (i : Nat) :
    bitMsb (B :: tl) (i + 8) = bitMsb tl i := by
  unfold bitMsb
  have h1 : (i + 8) / 8 = i / 8 + 1 := by omega
  have h2 : (i + 8) % 8 = i % 8 := by omega
  rw [h1, h2, List.getElem?_cons_succ]

theorem ofMsb8_bit (bs : List Bool) (hl : bs.length = 8) (i : Nat) (h : i < 8) :
    decide (ofMsb bs / 2 ^ (7 - i) % 2 = 1) = bs[i] := by
  have := ofMsb_bit bs i (by omega)
  rw [← this]
  have he : bs.length - 1 - i = 7 - i := by omega
  rw [he]

/-- every bit of the packed bytes: the original bit, or `false` in the zero padding -/
theorem bitMsb_packMsb (bits : List Bool) (i : Nat) (h : i < 8 * (packMsb bits).length) :
    bitMsb (packMsb bits) i = some (bits.getD i false) := by
  induction bits using packMsb.induct generalizing i with
  | case1 b0 b1 b2 b3 b4 b5 b6 b7 rest ih =>
    rw [packMsb.eq_1] at h ⊢
    by_cases hi : i < 8
    · rw [bitMsb_cons_lt _ _ _ hi, ofMsb8_bit _ rfl i hi]
      have : b0 :: b1 :: b2 :: b3 :: b4 :: b5 :: b6 :: b7 :: rest = [b0, b1, b2, b3, b4, b5, b6, b7] ++ rest := rfl
      rw [this, List.getD_eq_getElem?_getD, List.getElem?_append_left (by simpa using hi),
        List.getElem?_eq_getElem (by simpa using hi)]
      rfl
    · obtain ⟨j, rfl⟩ : ∃ j, i = j + 8 := ⟨i - 8, by omega⟩
      rw [bitMsb_cons_ge, ih j (by simp only [List.length_cons] at h; omega)]
      simp [List.getD_eq_getElem?_getD]
  | case2 => simp [packMsb] at h
  | case3 bs h1 h2 =>
    rw [packMsb.eq_3 _ h1 h2] at h ⊢
    have hl := short_len bs h1
    simp only [List.length_cons, List.length_nil] at h
    have hi : i < 8 := by omega
    have hlen : (bs ++ List.replicate (8 - bs.length) false).length = 8 := by
      simp only [List.length_append, List.length_replicate]; omega
    rw [bitMsb_cons_lt _ _ _ hi, ofMsb8_bit _ hlen i hi]
    rw [List.getD_eq_getElem?_getD]
    by_cases hb : i < bs.length
    · rw [List.getElem_append_left hb, List.getElem?_eq_getElem hb]
      rfl
    · rw [List.getElem_append_right (by omega), List.getElem_replicate,
        List.getElem?_eq_none (by omega)]
      rfl

theorem bitMsb_packMsb_lt (bits : List Bool) (i : Nat) (h : i < bits.length) :
    bitMsb (packMsb bits) i = some bits[i] := by
  rw [bitMsb_packMsb bits i (by rw [packMsb_length]; omega), List.getD_eq_getElem?_getD,
    List.getElem?_eq_getElem h]
  rfl

theorem bitMsb_packMsb_pad (bits : List Bool) (i : Nat) (h1 : bits.length ≤ i)
    (h2 : i < 8 * (packMsb bits).length) : bitMsb (packMsb bits) i = some false := by
  rw [bitMsb_packMsb bits i h2, List.getD_eq_getElem?_getD, List.getElem?_eq_none h1]
  rfl

/-! ### readers that agree with a bit list -/

/-- `rd` yields the bits `bs` at positions `off, off+1, …` -/
def AgreesAt (rd : Reader) (off : Nat) (bs : List Bool) : Prop :=
  ∀ i (h : i < bs.length), rd (off + i) = some bs[i]

theorem AgreesAt.left {rd : Reader} {off : Nat} {a b : List Bool} (h : AgreesAt rd off (a ++ b)) :
    AgreesAt rd off a := by
  intro i hi
  have := h i (by rw [List.length_append]; omega)
  rw [this, List.getElem_append_left hi]

theorem AgreesAt.right {rd : Reader} {off : Nat} {a b : List Bool} (h : AgreesAt rd off (a ++ b)) :
    AgreesAt rd (off + a.length) b := by
  intro i hi
  have := h (a.length + i) (by rw [List.length_append]; omega)
  rw [Nat.add_assoc, this, List.getElem_append_right (by omega)]
  simp

theorem AgreesAt.head {rd : Reader} {off : Nat} {b : Bool} {bs : List Bool} (h : AgreesAt rd off (b :: bs)) :
    rd off = some b := by
  have := h 0 (by simp)
  simpa using this

theorem AgreesAt.tail {rd : Reader} {off : Nat} {b : Bool} {bs : List Bool} (h : AgreesAt rd off (b :: bs)) :
    AgreesAt rd (off + 1) bs := by
  have : b :: bs = [b] ++ bs := rfl
  rw [this] at h
  exact h.right

@[simp] theorem msb_length (n v : Nat) : (msb n v).length = n := by
  induction n with
  | zero => rfl
  | succ n ih => simp [msb, ih]

theorem readBits_msb (rd : Reader) (n v pos acc : Nat) (h : AgreesAt rd pos (msb n v)) :
    readBits rd n pos acc = some (acc * 2 ^ n + v % 2 ^ n, pos + n) := by
  induction n generalizing pos acc with
  | zero => simp [readBits, Nat.mod_one]
  | succ n ih =>
    unfold msb at h
    unfold readBits
    rw [h.head]
    simp only
    rw [ih _ _ h.tail]
    congr 2
    · rw [Nat.mod_pow_succ (x := v) (b := 2) (k := n), Nat.pow_succ]
      have : (if decide (v / 2 ^ n % 2 = 1) = true then 1 else 0) = v / 2 ^ n % 2 := by
        by_cases hb : v / 2 ^ n % 2 = 1
        · simp [hb]
        · have : v / 2 ^ n % 2 = 0 := by omega
          simp [this]
      rw [this, Nat.add_mul, Nat.mul_comm 2 acc, Nat.mul_assoc, Nat.mul_comm 2 (2 ^ n),
        Nat.mul_comm (v / 2 ^ n % 2)]
      omega
    · omega

/-! ### single gamma / delta codes -/

theorem msb_succ_head (L v : Nat) (hlo : 2 ^ L ≤ v) (hhi : v < 2 ^ (L + 1)) :
    msb (L + 1) v = true :: msb L v := by
  have h1 : v / 2 ^ L = 1 :=
    Nat.div_eq_of_lt_le (by omega) (by rw [Nat.pow_succ] at hhi; omega)
  rw [msb, h1]
  rfl

theorem pow_add_mod (L v : Nat) (hlo : 2 ^ L ≤ v) (hhi : v < 2 ^ (L + 1)) : 2 ^ L + v % 2 ^ L = v := by
  have h1 : v / 2 ^ L = 1 :=
    Nat.div_eq_of_lt_le (by omega) (by rw [Nat.pow_succ] at hhi; omega)
  have := Nat.div_add_mod v (2 ^ L)
  rw [h1, Nat.mul_one] at this
  exact this

theorem gammaDecAux_code (rd : Reader) (total v L : Nat) (hlo : 2 ^ L ≤ v) (hhi : v < 2 ^ (L + 1))
    (hL : L ≤ 63) (k : Nat) : ∀ (fuel z pos : Nat), z + k = L → k < fuel →
      AgreesAt rd pos (List.replicate k false ++ msb (L + 1) v) → pos + k + L + 1 ≤ total →
      gammaDecAux rd total fuel z pos = some (v, pos + k + L + 1) := by
  induction k with
  | zero =>
    intro fuel z pos hz hf hag ht
    cases fuel with
    | zero => omega
    | succ f =>
      simp only [List.replicate_zero, List.nil_append] at hag
      rw [msb_succ_head L v hlo hhi] at hag
      have hz' : z = L := by omega
      subst hz'
      unfold gammaDecAux
      rw [if_neg (by omega), hag.head]
      simp only
      by_cases h0 : z = 0
      · rw [if_pos h0]
        subst h0
        have : v = 1 := by simp at hlo hhi; omega
        subst this
        rfl
      · rw [if_neg h0, if_neg (by omega), readBits_msb rd z v (pos + 1) 0 hag.tail]
        simp only [Option.map_some, Nat.zero_mul, Nat.zero_add]
        rw [pow_add_mod z v hlo hhi]
        congr 2
        omega
  | succ k ih =>
    intro fuel z pos hz hf hag ht
    cases fuel with
    | zero => omega
    | succ f =>
      have hag' : AgreesAt rd pos (false :: (List.replicate k false ++ msb (L + 1) v)) := by
        rw [List.replicate_succ] at hag
        exact hag
      unfold gammaDecAux
      rw [if_neg (by omega), hag'.head]
      simp only
      rw [if_neg (by omega), ih f (z + 1) (pos + 1) (by omega) (by omega) hag'.tail (by omega)]
      congr 2
      omega

theorem log2_bounds (v : Nat) (h1 : 1 ≤ v) : 2 ^ log2 v ≤ v ∧ v < 2 ^ (log2 v + 1) :=
  ⟨Nat.log2_self_le (by omega), Nat.lt_log2_self⟩

theorem log2_le_63 (v : Nat) (h1 : 1 ≤ v) (h : v < 2 ^ 64) : log2 v ≤ 63 := by
  have : Nat.log2 v < 64 := (Nat.log2_lt (by omega)).mpr h
  unfold log2
  omega

theorem gamma_length (v : Nat) : (gamma v).length = gammaBits v := by
  unfold gamma gammaBits
  simp only [List.length_append, List.length_replicate, msb_length]
  omega

theorem delta_length (v : Nat) : (delta v).length = deltaBits v := by
  unfold delta deltaBits
  rw [List.length_append, gamma_length, msb_length]

/-- one gamma code located at `pos` -/
theorem gammaDec_at (rd : Reader) (total pos v : Nat) (h1 : 1 ≤ v) (h64 : v < 2 ^ 64)
    (hag : AgreesAt rd pos (gamma v)) (ht : pos + gammaBits v ≤ total) :
    gammaDec rd total pos = some (v, pos + gammaBits v) := by
  have hb := log2_bounds v h1
  have hL := log2_le_63 v h1 h64
  unfold gammaDec
  unfold gammaBits at ht ⊢
  rw [gammaDecAux_code rd total v (log2 v) hb.1 hb.2 hL (log2 v) 65 0 pos (by omega) (by omega) hag
    (by omega)]
  congr 2
  omega

/-- one delta code located at `pos` -/
theorem deltaDec_at (rd : Reader) (total pos v : Nat) (h1 : 1 ≤ v) (h64 : v < 2 ^ 64)
    (hag : AgreesAt rd pos (delta v)) (ht : pos + deltaBits v ≤ total) :
    deltaDec rd total pos = some (v, pos + deltaBits v) := by
  have hb := log2_bounds v h1
  have hL := log2_le_63 v h1 h64
  unfold delta at hag
  unfold deltaBits at ht ⊢
  unfold deltaDec
  rw [gammaDec_at rd total pos (log2 v + 1) (by omega) (by omega) hag.left (by omega)]
  simp only
  rw [if_neg (by omega)]
  simp only [Nat.add_sub_cancel]
  by_cases h0 : log2 v = 0
  · rw [if_pos h0]
    rw [h0] at hb ⊢
    have : v = 1 := by have := hb.1; have := hb.2; simp at *; omega
    subst this
    rfl
  · have hr := hag.right
    rw [gamma_length] at hr
    rw [if_neg h0, if_neg (by omega), readBits_msb rd (log2 v) v _ 0 hr]
    simp only [Option.map_some, Nat.zero_mul, Nat.zero_add]
    rw [pow_add_mod (log2 v) v hb.1 hb.2]
    congr 2
    omega

/-- a reader that agrees (from position 0) with a whole bit list -/
def Agrees (rd : Reader) (bs : List Bool) : Prop := ∀ i (h : i < bs.length), rd i = some bs[i]

theorem Agrees.at0 {rd : Reader} {bs : List Bool} (h : Agrees rd bs) : AgreesAt rd 0 bs := by
  intro i hi
  rw [Nat.zero_add]
  exact h i hi

/-- target 2 (gamma): a gamma code embedded anywhere in a bit stream decodes to its value -/
theorem gammaDec_enc (rd : Reader) (pre post : List Bool) (v total : Nat) (h1 : 1 ≤ v) (h64 : v < 2 ^ 64)
    (hrd : Agrees rd (pre ++ gamma v ++ post)) (ht : (pre ++ gamma v).length ≤ total) :
    gammaDec rd total pre.length = some (v, pre.length + gammaBits v) := by
  have hag := hrd.at0.left.right
  rw [Nat.zero_add] at hag
  rw [List.length_append, gamma_length] at ht
  exact gammaDec_at rd total pre.length v h1 h64 hag ht

/-- target 2 (delta) -/
theorem deltaDec_enc (rd : Reader) (pre post : List Bool) (v total : Nat) (h1 : 1 ≤ v) (h64 : v < 2 ^ 64)
    (hrd : Agrees rd (pre ++ delta v ++ post)) (ht : (pre ++ delta v).length ≤ total) :
    deltaDec rd total pre.length = some (v, pre.length + deltaBits v) := by
  have hag := hrd.at0.left.right
  rw [Nat.zero_add] at hag
  rw [List.length_append, delta_length] at ht
  exact deltaDec_at rd total pre.length v h1 h64 hag ht

/-! ### running out of budget inside zero padding -/

theorem gammaDecAux_zeros (rd : Reader) (total : Nat) : ∀ (fuel z pos : Nat),
    (∀ i, pos ≤ i → i < total → rd i = some false) → ∃ p, gammaDecAux rd total fuel z pos = some (0, p) := by
  intro fuel
  induction fuel with
  | zero => intro z pos _; exact ⟨pos, rfl⟩
  | succ f ih =>
    intro z pos hz
    unfold gammaDecAux
    by_cases hp : pos + 1 > total
    · rw [if_pos hp]; exact ⟨pos, rfl⟩
    · rw [if_neg hp, hz pos (Nat.le_refl _) (by omega)]
      simp only
      by_cases h63 : z + 1 > 63
      · rw [if_pos h63]; exact ⟨pos + 1, rfl⟩
      · rw [if_neg h63]
        exact ih (z + 1) (pos + 1) (fun i h1 h2 => hz i (by omega) h2)

theorem gammaDec_zeros (rd : Reader) (total pos : Nat)
    (hz : ∀ i, pos ≤ i → i < total → rd i = some false) : ∃ p, gammaDec rd total pos = some (0, p) :=
  gammaDecAux_zeros rd total 65 0 pos hz

theorem deltaDec_zeros (rd : Reader) (total pos : Nat)
    (hz : ∀ i, pos ≤ i → i < total → rd i = some false) : ∃ p, deltaDec rd total pos = some (0, p) := by
  obtain ⟨p, hp⟩ := gammaDec_zeros rd total pos hz
  refine ⟨p, ?_⟩
  unfold deltaDec
  rw [hp]
  simp

/-! ### arrays -/

def Pos64 (xs : List Nat) : Prop := ∀ x ∈ xs, 1 ≤ x ∧ x < 2 ^ 64

/-- generic array round trip for a per-value code `code` decoded by `one` -/
theorem decArrayAux_enc (one : Reader → Nat → Nat → Option (Nat × Nat)) (code : Nat → List Bool)
    (Hone : ∀ rd total pos v, 1 ≤ v → v < 2 ^ 64 → AgreesAt rd pos (code v) →
      pos + (code v).length ≤ total → one rd total pos = some (v, pos + (code v).length))
    (Hpos : ∀ v, 0 < (code v).length)
    (Hend : ∀ rd total pos, (∀ i, pos ≤ i → i < total → rd i = some false) →
      ∃ p, one rd total pos = some (0, p))
    (rd : Reader) (total : Nat) (xs : List Nat) (h : Pos64 xs) : ∀ (room pos : Nat),
      AgreesAt rd pos (xs.flatMap code) → pos + (xs.flatMap code).length ≤ total →
      (∀ i, pos + (xs.flatMap code).length ≤ i → i < total → rd i = some false) →
      decArrayAux one rd total room pos = some (xs.take room) := by
  induction xs with
  | nil =>
    intro room pos _ _ hz
    cases room with
    | zero => rfl
    | succ room =>
      unfold decArrayAux
      by_cases hp : pos + 1 > total
      · rw [if_pos hp]; rfl
      · rw [if_neg hp]
        obtain ⟨p, hp⟩ := Hend rd total pos (fun i h1 h2 => hz i (by simpa using h1) h2)
        rw [hp]
        rfl
  | cons x xs ih =>
    intro room pos hag ht hz
    have hx := h x (by simp)
    have hxs : Pos64 xs := fun y hy => h y (by simp [hy])
    rw [List.flatMap_cons] at hag ht hz
    rw [List.length_append] at ht hz
    have hp := Hpos x
    cases room with
    | zero => rfl
    | succ room =>
      unfold decArrayAux
      rw [if_neg (by omega), Hone rd total pos x hx.1 hx.2 hag.left (by omega)]
      simp only
      rw [if_neg (by omega), ih hxs room _ hag.right (by omega) (fun i h1 h2 => hz i (by omega) h2)]
      rfl

theorem declared_agrees (bits : List Bool) (srcBits : Nat) (h : bits.length ≤ srcBits) :
    AgreesAt (declared (packMsb bits) srcBits) 0 bits := by
  intro i hi
  unfold declared
  rw [Nat.zero_add, if_pos (by omega), bitMsb_packMsb_lt bits i hi]

theorem declared_pad (bits : List Bool) (srcBits : Nat) (h : srcBits ≤ 8 * (packMsb bits).length) :
    ∀ i, 0 + bits.length ≤ i → i < srcBits → declared (packMsb bits) srcBits i = some false := by
  intro i h1 h2
  unfold declared
  rw [if_pos h2, bitMsb_packMsb_pad bits i (by omega) (by omega)]

theorem gamma_length_pos (v : Nat) : 0 < (gamma v).length := by
  rw [gamma_length]; unfold gammaBits; omega

theorem delta_length_pos (v : Nat) : 0 < (delta v).length := by
  rw [delta_length]; unfold deltaBits gammaBits; omega

/-- general gamma round trip: any declared bit count between the exact number of code bits and the
    byte-granular `8 * length`, any capacity (output = the first `cap` values) -/
theorem decGamma_enc_gen (xs : List Nat) (h : Pos64 xs) (srcBits cap : Nat)
    (hlo : (xs.flatMap gamma).length ≤ srcBits) (hhi : srcBits ≤ 8 * (encGamma xs).length) :
    decGamma (encGamma xs) srcBits cap = some (xs.take cap) := by
  unfold decGamma encGamma
  unfold encGamma at hhi
  refine decArrayAux_enc gammaDec gamma ?_ gamma_length_pos gammaDec_zeros _ _ xs h cap 0
    (declared_agrees _ _ hlo) (by omega) (declared_pad _ _ hhi)
  intro rd total pos v h1 h64 hag ht
  rw [gamma_length] at ht ⊢
  exact gammaDec_at rd total pos v h1 h64 hag ht

theorem decDelta_enc_gen (xs : List Nat) (h : Pos64 xs) (srcBits cap : Nat)
    (hlo : (xs.flatMap delta).length ≤ srcBits) (hhi : srcBits ≤ 8 * (encDelta xs).length) :
    decDelta (encDelta xs) srcBits cap = some (xs.take cap) := by
  unfold decDelta encDelta
  unfold encDelta at hhi
  refine decArrayAux_enc deltaDec delta ?_ delta_length_pos deltaDec_zeros _ _ xs h cap 0
    (declared_agrees _ _ hlo) (by omega) (declared_pad _ _ hhi)
  intro rd total pos v h1 h64 hag ht
  rw [delta_length] at ht ⊢
  exact deltaDec_at rd total pos v h1 h64 hag ht

theorem bits_le_bytes (bits : List Bool) : bits.length ≤ 8 * (packMsb bits).length := by
  rw [packMsb_length]; omega

/-- MAIN gamma, exact bit count -/
theorem decGamma_enc (xs : List Nat) (h : Pos64 xs) (cap : Nat) (hcap : xs.length ≤ cap) :
    decGamma (encGamma xs) ((xs.flatMap gamma).length) cap = some xs := by
  rw [decGamma_enc_gen xs h _ cap (Nat.le_refl _) (bits_le_bytes _), List.take_of_length_le hcap]

/-- MAIN gamma, byte-granular bit count (what the C tests pass): padding decodes as "no more values" -/
theorem decGamma_enc_bytes (xs : List Nat) (h : Pos64 xs) (cap : Nat) (hcap : xs.length ≤ cap) :
    decGamma (encGamma xs) (8 * (encGamma xs).length) cap = some xs := by
  rw [decGamma_enc_gen xs h (8 * (encGamma xs).length) cap (bits_le_bytes _) (Nat.le_refl _),
    List.take_of_length_le hcap]

/-- gamma, small capacity: the prefix -/
theorem decGamma_enc_take (xs : List Nat) (h : Pos64 xs) (cap : Nat) :
    decGamma (encGamma xs) ((xs.flatMap gamma).length) cap = some (xs.take cap) ∧
    decGamma (encGamma xs) (8 * (encGamma xs).length) cap = some (xs.take cap) :=
  ⟨decGamma_enc_gen xs h _ cap (Nat.le_refl _) (bits_le_bytes _),
   decGamma_enc_gen xs h (8 * (encGamma xs).length) cap (bits_le_bytes _) (Nat.le_refl _)⟩

/-- MAIN delta, exact bit count -/
theorem decDelta_enc (xs : List Nat) (h : Pos64 xs) (cap : Nat) (hcap : xs.length ≤ cap) :
    decDelta (encDelta xs) ((xs.flatMap delta).length) cap = some xs := by
  rw [decDelta_enc_gen xs h _ cap (Nat.le_refl _) (bits_le_bytes _), List.take_of_length_le hcap]

/-- MAIN delta, byte-granular bit count -/
theorem decDelta_enc_bytes (xs : List Nat) (h : Pos64 xs) (cap : Nat) (hcap : xs.length ≤ cap) :
    decDelta (encDelta xs) (8 * (encDelta xs).length) cap = some xs := by
  rw [decDelta_enc_gen xs h (8 * (encDelta xs).length) cap (bits_le_bytes _) (Nat.le_refl _),
    List.take_of_length_le hcap]

/-- delta, small capacity: the prefix -/
theorem decDelta_enc_take (xs : List Nat) (h : Pos64 xs) (cap : Nat) :
    decDelta (encDelta xs) ((xs.flatMap delta).length) cap = some (xs.take cap) ∧
    decDelta (encDelta xs) (8 * (encDelta xs).length) cap = some (xs.take cap) :=
  ⟨decDelta_enc_gen xs h _ cap (Nat.le_refl _) (bits_le_bytes _),
   decDelta_enc_gen xs h (8 * (encDelta xs).length) cap (bits_le_bytes _) (Nat.le_refl _)⟩

/-! ### sizes -/

theorem gammaBits_le (v : Nat) (h1 : 1 ≤ v) (h64 : v < 2 ^ 64) : gammaBits v ≤ 127 := by
  have := log2_le_63 v h1 h64
  unfold gammaBits; omega

theorem deltaBits_le (v : Nat) (h1 : 1 ≤ v) (h64 : v < 2 ^ 64) : deltaBits v ≤ 76 := by
  have hL := log2_le_63 v h1 h64
  have h6 : log2 (log2 v + 1) < 7 := by
    unfold log2
    exact (Nat.log2_lt (by omega)).mpr (by unfold log2 at hL; omega)
  unfold deltaBits gammaBits; omega

theorem flatMap_length_le (code : Nat → List Bool) (B : Nat) (xs : List Nat) (h : Pos64 xs)
    (hc : ∀ v, 1 ≤ v → v < 2 ^ 64 → (code v).length ≤ B) : (xs.flatMap code).length ≤ xs.length * B := by
  induction xs with
  | nil => simp
  | cons x xs ih =>
    have hx := h x (by simp)
    have := ih (fun y hy => h y (by simp [hy]))
    have := hc x hx.1 hx.2
    rw [List.flatMap_cons, List.length_append, List.length_cons, Nat.add_mul]
    omega

theorem encGamma_length_le (xs : List Nat) (h : Pos64 xs) : (encGamma xs).length ≤ gammaMaxBytes xs.length := by
  unfold encGamma gammaMaxBytes
  rw [packMsb_length]
  have := flatMap_length_le gamma 127 xs h (fun v h1 h64 => by rw [gamma_length]; exact gammaBits_le v h1 h64)
  omega

theorem encDelta_length_le (xs : List Nat) (h : Pos64 xs) : (encDelta xs).length ≤ deltaMaxBytes xs.length := by
  unfold encDelta deltaMaxBytes
  rw [packMsb_length]
  have := flatMap_length_le delta 76 xs h (fun v h1 h64 => by rw [delta_length]; exact deltaBits_le v h1 h64)
  omega

theorem encGamma_lt (xs : List Nat) : ∀ b ∈ encGamma xs, b < 256 := packMsb_lt _
theorem encDelta_lt (xs : List Nat) : ∀ b ∈ encDelta xs, b < 256 := packMsb_lt _

/-! ### capacity for arbitrary bytes (re-export of `decArrayAux_length` from Lemmas/Bounded.lean) -/

theorem decGamma_length_le_cap (bytes : List Nat) (srcBits cap : Nat) (vs : List Nat)
    (h : decGamma bytes srcBits cap = some vs) : vs.length ≤ cap :=
  decArrayAux_length _ _ _ _ _ _ h

theorem decDelta_length_le_cap (bytes : List Nat) (srcBits cap : Nat) (vs : List Nat)
    (h : decDelta bytes srcBits cap = some vs) : vs.length ≤ cap :=
  decArrayAux_length _ _ _ _ _ _ h

end Varint.Elias
