import Varint.Model.RLE
import Varint.Lemmas.Tagged
/- Lemmas about the run-length codec model. -/
namespace Varint.RLE

def expand (rs : List (Nat × Nat)) : List Nat := rs.flatMap fun (l, v) => List.replicate l v
def total (rs : List (Nat × Nat)) : Nat := (rs.map (·.1)).sum

theorem expand_cons (l v : Nat) (rs : List (Nat × Nat)) : expand ((l, v) :: rs) = List.replicate l v ++ expand rs := by
  simp [expand]

theorem total_cons (l v : Nat) (rs : List (Nat × Nat)) : total ((l, v) :: rs) = l + total rs := by
  simp [total]

theorem expand_runs (xs : List Nat) : expand (runs xs) = xs := by
  induction xs with
  | nil => rfl
  | cons x xs ih =>
    simp only [runs]
    cases h : runs xs with
    | nil =>
      rw [h] at ih
      simp only [expand, List.flatMap_nil] at ih
      simp [expand, ← ih]
    | cons r rest =>
      obtain ⟨l, v⟩ := r
      rw [h] at ih
      simp only []
      split
      · rename_i hv
        subst hv
        rw [expand_cons] at ih ⊢
        rw [List.replicate_succ, List.cons_append, ih]
      · rw [expand_cons, ih]; rfl

theorem length_expand (rs : List (Nat × Nat)) : (expand rs).length = total rs := by
  induction rs with
  | nil => rfl
  | cons r rs ih =>
    obtain ⟨l, v⟩ := r
    rw [expand_cons, total_cons, List.length_append, List.length_replicate, ih]

theorem total_runs (xs : List Nat) : total (runs xs) = xs.length := by
  rw [← length_expand, expand_runs]

theorem runs_pos (xs : List Nat) : ∀ r ∈ runs xs, 1 ≤ r.1 := by
  induction xs with
  | nil => simp [runs]
  | cons x xs ih =>
    simp only [runs]
    cases h : runs xs with
    | nil => simp
    | cons r rest =>
      obtain ⟨l, v⟩ := r
      rw [h] at ih
      simp only []
      split
      · intro r hr
        simp only [List.mem_cons] at hr
        rcases hr with rfl | hr
        · simp
        · exact ih r (by simp [hr])
      · intro r hr
        simp only [List.mem_cons] at hr
        rcases hr with rfl | hr
        · simp
        · exact ih r (by simpa using hr)

theorem runs_vals (xs : List Nat) : ∀ r ∈ runs xs, r.2 ∈ xs := by
  intro r hr
  have : r.2 ∈ expand (runs xs) := by
    have hp := runs_pos xs r hr
    simp only [expand, List.mem_flatMap]
    exact ⟨r, hr, by obtain ⟨l, v⟩ := r; simp at hp ⊢; omega⟩
  rwa [expand_runs] at this

theorem le_total_of_mem (rs : List (Nat × Nat)) : ∀ r ∈ rs, r.1 ≤ total rs := by
  induction rs with
  | nil => simp
  | cons a rs ih =>
    obtain ⟨l, v⟩ := a
    intro r hr
    rw [total_cons]
    simp only [List.mem_cons] at hr
    rcases hr with rfl | hr
    · simp
    · have := ih r hr; omega

theorem getRun_enc (l v : Nat) (hl : l < 2 ^ 64) (hv : v < 2 ^ 64) (rest : List Nat) :
    getRun (Tagged.enc l ++ Tagged.enc v ++ rest) = some (l, v, rest) := by
  unfold getRun
  rw [List.append_assoc, Tagged.get_enc l hl]
  simp only []
  rw [List.drop_left, Tagged.get_enc v hv]
  simp only []
  rw [← List.append_assoc, List.drop_left' (by simp)]

theorem decAux_enc (rs : List (Nat × Nat)) (fuel : Nat) (hf : rs.length < fuel)
    (hpos : ∀ r ∈ rs, 1 ≤ r.1) (hlt : ∀ r ∈ rs, r.1 < 2 ^ 64 ∧ r.2 < 2 ^ 64) (rest : List Nat) :
    decAux fuel (total rs) (encRuns rs ++ rest) = some (expand rs) := by
  induction rs generalizing fuel with
  | nil =>
    obtain ⟨f, rfl⟩ : ∃ f, fuel = f + 1 := ⟨fuel - 1, by simp at hf; omega⟩
    simp [decAux, total, expand]
  | cons r rs ih =>
    obtain ⟨l, v⟩ := r
    obtain ⟨f, rfl⟩ : ∃ f, fuel = f + 1 := ⟨fuel - 1, by simp at hf; omega⟩
    have hl1 : 1 ≤ l := hpos (l, v) (by simp)
    have hb := hlt (l, v) (by simp)
    have hroom : ¬ (total ((l, v) :: rs) = 0) := by rw [total_cons]; omega
    have henc : encRuns ((l, v) :: rs) ++ rest = Tagged.enc l ++ Tagged.enc v ++ (encRuns rs ++ rest) := by
      simp [encRuns]
    rw [decAux, if_neg hroom, henc, getRun_enc l v hb.1 hb.2]
    simp only []
    rw [if_neg (by omega)]
    by_cases hge : l ≥ total ((l, v) :: rs)
    · rw [if_pos hge]
      rw [total_cons] at hge
      have ht0 : total rs = 0 := by omega
      have hnil : rs = [] := by
        cases rs with
        | nil => rfl
        | cons a rs' =>
          have h1 := hpos a (by simp)
          have h2 := le_total_of_mem (a :: rs') a (by simp)
          omega
      subst hnil
      simp [total, expand]
    · rw [if_neg hge, total_cons]
      have e : l + total rs - l = total rs := by omega
      rw [e, ih f (by simp at hf; omega) (fun r hr => hpos r (by simp [hr])) (fun r hr => hlt r (by simp [hr]))]
      simp [expand_cons]

theorem dec_enc (xs : List Nat) (hx : ∀ x ∈ xs, x < 2 ^ 64) (hn : xs.length < 2 ^ 64) (rest : List Nat) :
    dec (enc xs ++ rest) xs.length = some xs := by
  unfold dec enc
  have ht := total_runs xs
  have hlen : (runs xs).length ≤ xs.length := by
    have hp := runs_pos xs
    have : (runs xs).length ≤ total (runs xs) := by
      generalize runs xs = rs at hp
      induction rs with
      | nil => simp [total]
      | cons a rs ih =>
        obtain ⟨l, v⟩ := a
        rw [total_cons, List.length_cons]
        have := hp (l, v) (by simp)
        have := ih (fun r hr => hp r (by simp [hr]))
        simp at *; omega
    omega
  have := decAux_enc (runs xs) (xs.length + 1) (by omega) (runs_pos xs)
    (fun r hr => ⟨by have := le_total_of_mem _ r hr; omega, hx _ (runs_vals xs r hr)⟩) rest
  rw [ht, expand_runs] at this
  exact this

/-- exactness of the size predictor -/
theorem enc_length (xs : List Nat) : (enc xs).length = size xs := by
  unfold enc size encRuns
  generalize runs xs = rs
  induction rs with
  | nil => rfl
  | cons a rs ih =>
    obtain ⟨l, v⟩ := a
    simp only [List.flatMap_cons, List.length_append, List.map_cons, List.sum_cons, Tagged.enc_length, ih]

theorem encRuns_le (rs : List (Nat × Nat)) (hpos : ∀ r ∈ rs, 1 ≤ r.1) : (encRuns rs).length ≤ 10 * total rs := by
  induction rs with
  | nil => simp [encRuns]
  | cons a rs ih =>
    obtain ⟨l, v⟩ := a
    have h1 := hpos (l, v) (by simp)
    have := ih (fun r hr => hpos r (by simp [hr]))
    have hl := Tagged.len_bounds l
    have hv := Tagged.len_bounds v
    have hlone : l = 1 → Tagged.len l = 1 := by intro h; subst h; decide
    simp only [encRuns, List.flatMap_cons, List.length_append, Tagged.enc_length, total_cons] at *
    by_cases h : l = 1
    · have := hlone h; omega
    · omega

theorem enc_le (xs : List Nat) : (enc xs).length ≤ 10 * xs.length := by
  have := encRuns_le (runs xs) (runs_pos xs)
  rw [total_runs] at this
  exact this

end Varint.RLE
