import Varint.Model.ChainedUnrolled
import Varint.Lemmas.Chained
/-
  The literal transcription of the unrolled sqlite3 reader (`ChainedU.getVarint`,
  `ChainedU.getVarint32`) equals the format-level reader (`Chained.dec`, `Chained.dec32`)
  on every byte string.
-/
namespace Varint.ChainedU

/-! ### bitwise operations against literals, as arithmetic -/

theorem land_split (x m k : Nat) :
    x &&& m = (x / 2 ^ k &&& m / 2 ^ k) * 2 ^ k + (x % 2 ^ k &&& m % 2 ^ k) := by
  rw [← Nat.and_div_two_pow, ← Nat.and_mod_two_pow]
  exact (Nat.div_add_mod' _ _).symm

theorem lor_split (x y k : Nat) :
    x ||| y = (x / 2 ^ k ||| y / 2 ^ k) * 2 ^ k + (x % 2 ^ k ||| y % 2 ^ k) := by
  rw [← Nat.or_div_two_pow, ← Nat.or_mod_two_pow]
  exact (Nat.div_add_mod' _ _).symm

/-- `x & 0x7f` -/
theorem and_7f (n : Nat) : n &&& 0x7f = n % 128 := Nat.and_two_pow_sub_one_eq_mod n 7

/-- `x & 0x80` -/
theorem and_80 (n : Nat) : n &&& 0x80 = n / 128 % 2 * 128 := by
  have h0 : n &&& 0x80 = (n / 128 &&& 1) * 128 + (n % 128 &&& 0) := land_split n 0x80 7
  have h1 : n / 128 &&& 1 = n / 128 % 2 := Nat.and_two_pow_sub_one_eq_mod _ 1
  rw [h0, h1, Nat.and_zero]; omega

/-- `x & SLOT_2_0` -/
theorem and_slot20 (n : Nat) : n &&& 0x001fc07f = n / 16384 % 128 * 16384 + n % 128 := by
  have h0 : n &&& 0x001fc07f = (n / 16384 &&& 127) * 16384 + (n % 16384 &&& 127) :=
    land_split n 0x001fc07f 14
  rw [h0, and_7f, and_7f]; omega

/-- `x & SLOT_4_2_0` -/
theorem and_slot420 (n : Nat) :
    n &&& 0xf01fc07f = n / 268435456 % 16 * 268435456 + n / 16384 % 128 * 16384 + n % 128 := by
  have h0 : n &&& 0xf01fc07f = (n / 268435456 &&& 15) * 268435456 + (n % 268435456 &&& 0x001fc07f) :=
    land_split n 0xf01fc07f 28
  have h1 : n / 268435456 &&& 15 = n / 268435456 % 16 := Nat.and_two_pow_sub_one_eq_mod _ 4
  rw [h0, h1, and_slot20]; omega

/-- `x & SQLITE_MAX_U32` -/
theorem and_max32 (n : Nat) : n &&& 4294967295 = n % 4294967296 :=
  Nat.and_two_pow_sub_one_eq_mod n 32

theorem lor_zero_or (a b : Nat) (h : a = 0 ∨ b = 0) : a ||| b = a + b := by
  rcases h with h | h <;> subst h <;> simp

/-- `|` of two words that are never both non-zero inside any of the bit blocks
    `[0,7) [7,14) [14,21) [21,28) [28,∞)` is `+`. -/
theorem lor_blocks7 (x y : Nat)
    (h0 : x % 128 = 0 ∨ y % 128 = 0)
    (h1 : x / 128 % 128 = 0 ∨ y / 128 % 128 = 0)
    (h2 : x / 16384 % 128 = 0 ∨ y / 16384 % 128 = 0)
    (h3 : x / 2097152 % 128 = 0 ∨ y / 2097152 % 128 = 0)
    (h4 : x / 268435456 = 0 ∨ y / 268435456 = 0) : x ||| y = x + y := by
  have s1 : x ||| y = (x / 128 ||| y / 128) * 128 + (x % 128 ||| y % 128) := lor_split x y 7
  have s2 : x / 128 ||| y / 128 = (x / 128 / 128 ||| y / 128 / 128) * 128
      + (x / 128 % 128 ||| y / 128 % 128) := lor_split _ _ 7
  have s3 : x / 128 / 128 ||| y / 128 / 128 = (x / 128 / 128 / 128 ||| y / 128 / 128 / 128) * 128
      + (x / 128 / 128 % 128 ||| y / 128 / 128 % 128) := lor_split _ _ 7
  have s4 : x / 128 / 128 / 128 ||| y / 128 / 128 / 128
      = (x / 128 / 128 / 128 / 128 ||| y / 128 / 128 / 128 / 128) * 128
      + (x / 128 / 128 / 128 % 128 ||| y / 128 / 128 / 128 % 128) := lor_split _ _ 7
  rw [lor_zero_or _ _ h0] at s1
  rw [lor_zero_or _ _ h1] at s2
  rw [lor_zero_or (x / 128 / 128 % 128) _ (by omega)] at s3
  rw [lor_zero_or (x / 128 / 128 / 128 % 128) _ (by omega),
    lor_zero_or (x / 128 / 128 / 128 / 128) _ (by omega)] at s4
  omega

/-- blocks `[0,8) [8,15) [15,22) [22,29) [29,∞)` (the nine-byte path) -/
theorem lor_blocks9 (x y : Nat)
    (h0 : x % 256 = 0 ∨ y % 256 = 0)
    (h1 : x / 256 % 128 = 0 ∨ y / 256 % 128 = 0)
    (h2 : x / 32768 % 128 = 0 ∨ y / 32768 % 128 = 0)
    (h3 : x / 4194304 % 128 = 0 ∨ y / 4194304 % 128 = 0)
    (h4 : x / 536870912 = 0 ∨ y / 536870912 = 0) : x ||| y = x + y := by
  have s1 : x ||| y = (x / 256 ||| y / 256) * 256 + (x % 256 ||| y % 256) := lor_split x y 8
  have s2 : x / 256 ||| y / 256 = (x / 256 / 128 ||| y / 256 / 128) * 128
      + (x / 256 % 128 ||| y / 256 % 128) := lor_split _ _ 7
  have s3 : x / 256 / 128 ||| y / 256 / 128 = (x / 256 / 128 / 128 ||| y / 256 / 128 / 128) * 128
      + (x / 256 / 128 % 128 ||| y / 256 / 128 % 128) := lor_split _ _ 7
  have s4 : x / 256 / 128 / 128 ||| y / 256 / 128 / 128
      = (x / 256 / 128 / 128 / 128 ||| y / 256 / 128 / 128 / 128) * 128
      + (x / 256 / 128 / 128 % 128 ||| y / 256 / 128 / 128 % 128) := lor_split _ _ 7
  rw [lor_zero_or _ _ h0] at s1
  rw [lor_zero_or _ _ h1] at s2
  rw [lor_zero_or (x / 256 / 128 % 128) _ (by omega)] at s3
  rw [lor_zero_or (x / 256 / 128 / 128 % 128) _ (by omega),
    lor_zero_or (x / 256 / 128 / 128 / 128) _ (by omega)] at s4
  omega

/-- `m | y` with `m` a multiple of 16 and `y < 16` -/
theorem lor_low4 (m y : Nat) (hm : m % 16 = 0) (hy : y < 16) : m ||| y = m + y := by
  have s1 : m ||| y = (m / 16 ||| y / 16) * 16 + (m % 16 ||| y % 16) := lor_split m y 4
  rw [lor_zero_or (m / 16) _ (by omega), lor_zero_or (m % 16) _ (by omega)] at s1
  omega

/-- `hi << 32 | lo` -/
theorem lor_low32 (m y : Nat) (hm : m % 4294967296 = 0) (hy : y < 4294967296) :
    m ||| y = m + y := by
  have s1 : m ||| y = (m / 4294967296 ||| y / 4294967296) * 4294967296
      + (m % 4294967296 ||| y % 4294967296) := lor_split m y 32
  rw [lor_zero_or (m / 4294967296) _ (by omega), lor_zero_or (m % 4294967296) _ (by omega)] at s1
  omega

/-! ### the 64-bit reader

  One walk down the unrolled C.  The program text is first put in arithmetic form *without*
  substituting the `let`s (`simp -zeta`): every `& mask` becomes `/`, `%`, `*` by literals.
  Then, byte after byte: case on the list (a missing byte makes both sides `none`), pull the
  next assignments out as local definitions (`extract_lets`), give each its closed form in the
  seven-bit payloads `d_i` (flagged byte `p_i = 128 + d_i`), turning each `|` into `+` with the
  block lemmas, and split on the flag of the byte: the returning branch is closed by `omega`,
  the other one continues.  Stale closed forms are cleared so that every `omega` call sees a
  small context. -/

set_option maxRecDepth 8192 in
set_option maxHeartbeats 400000 in
/-- The literal transcription of `varintChainedGetVarint` computes exactly the format-level
    reader, on every byte string (value AND length AND out-of-bounds behaviour). -/
theorem getVarint_eq_dec (buf : List Nat) (hb : ∀ b ∈ buf, b < 256) :
    getVarint buf = Chained.dec buf := by
  unfold getVarint Chained.dec
  simp -zeta only [shl32, shl64, shr, SLOT_2_0, SLOT_4_2_0, Nat.reducePow, Option.bind_eq_bind,
    Option.pure_def, and_7f, and_80, and_slot20, and_slot420]
  extract_lets q0 q2 q3 q4 q5 q6 q7 q8
  simp -zeta only [q0, q2, q3, q4, q5, q6, q7, q8, Nat.reduceAdd, Nat.reduceSub]
  clear q0 q2 q3 q4 q5 q6 q7 q8
  -- ===== byte 0 =====
  rcases buf with _ | ⟨p0, t⟩
  · rfl
  have lt0 : p0 < 256 := hb p0 (by simp)
  simp -zeta only [List.getElem?_cons_zero, List.getElem?_cons_succ, Option.bind_some, Chained.decAux]
  by_cases h0 : p0 < 128
  · simp -zeta only [if_pos h0, Nat.reduceEqDiff, if_false]
    simp
  simp -zeta only [if_neg h0, Nat.reduceEqDiff, if_false, Nat.zero_mul, Nat.zero_add]
  obtain ⟨d0, rfl⟩ : ∃ d, p0 = 128 + d := ⟨p0 - 128, by omega⟩
  have hd0 : d0 < 128 := by omega
  clear h0 lt0
  simp -zeta only [Nat.add_sub_cancel_left]
  -- ===== byte 1 =====
  rcases t with _ | ⟨p1, t⟩
  · rfl
  have lt1 : p1 < 256 := hb p1 (by simp)
  simp -zeta only [List.getElem?_cons_zero, List.getElem?_cons_succ, Option.bind_some, Chained.decAux]
  by_cases h1 : p1 < 128
  · simp -zeta only [if_pos h1, Nat.reduceEqDiff, if_false]
    simp (disch := omega) only [lor_blocks7, Option.some.injEq, Prod.mk.injEq, Nat.reduceAdd, and_true]
    omega
  simp -zeta only [if_neg h1, Nat.reduceEqDiff, if_false, Nat.reduceAdd]
  obtain ⟨d1, rfl⟩ : ∃ d, p1 = 128 + d := ⟨p1 - 128, by omega⟩
  have hd1 : d1 < 128 := by omega
  clear h1 lt1
  simp -zeta only [Nat.add_sub_cancel_left]
  extract_lets +onlyGivenNames a0 b0
  -- ===== byte 2 =====
  rcases t with _ | ⟨p2, t⟩
  · rfl
  have lt2 : p2 < 256 := hb p2 (by simp)
  simp -zeta only [List.getElem?_cons_zero, List.getElem?_cons_succ, Option.bind_some, Chained.decAux]
  extract_lets +onlyGivenNames a1
  have ha1 : a1 = (128 + d0) * 16384 + p2 := by
    simp (disch := omega) only [a1, a0, lor_blocks7]; try omega
  clear_value a1
  clear a0
  by_cases h2 : p2 < 128
  · simp -zeta only [if_pos h2, Nat.reduceEqDiff, if_false]
    rw [if_pos (by omega)]
    extract_lets +onlyGivenNames ra1 rb1 rb2 ra
    have hra1 : ra1 = d0 * 16384 + p2 := by simp only [ra1]; omega
    clear_value ra1
    have hrb2 : rb2 = d1 * 128 := by simp only [rb2, rb1, b0]; omega
    clear_value rb2
    have hra : ra = ra1 + rb2 := by
      simp (disch := omega) only [ra, lor_blocks7]; try omega
    clear_value ra
    simp only [Option.some.injEq, Prod.mk.injEq, Nat.reduceAdd, and_true]
    omega
  rw [if_neg (by omega)]
  simp -zeta only [if_neg h2, Nat.reduceEqDiff, if_false, Nat.reduceAdd]
  obtain ⟨d2, rfl⟩ : ∃ d, p2 = 128 + d := ⟨p2 - 128, by omega⟩
  have hd2 : d2 < 128 := by omega
  clear h2 lt2
  simp -zeta only [Nat.add_sub_cancel_left]
  extract_lets +onlyGivenNames a2 b2
  have ha2 : a2 = d0 * 16384 + d2 := by simp only [a2]; omega
  clear_value a2
  have hb2 : b2 = (128 + d1) * 16384 := by simp only [b2, b0]; omega
  clear_value b2
  clear b0 ha1 a1
  -- ===== byte 3 =====
  rcases t with _ | ⟨p3, t⟩
  · rfl
  have lt3 : p3 < 256 := hb p3 (by simp)
  simp -zeta only [List.getElem?_cons_zero, List.getElem?_cons_succ, Option.bind_some, Chained.decAux]
  extract_lets +onlyGivenNames b3
  have hb3 : b3 = (128 + d1) * 16384 + p3 := by
    simp (disch := omega) only [b3, lor_blocks7]; try omega
  clear_value b3
  clear hb2 b2
  by_cases h3 : p3 < 128
  · simp -zeta only [if_pos h3, Nat.reduceEqDiff, if_false]
    rw [if_pos (by omega)]
    extract_lets +onlyGivenNames rb1 ra1 ra
    have hrb1 : rb1 = d1 * 16384 + p3 := by simp only [rb1]; omega
    clear_value rb1
    have hra1 : ra1 = d0 * 2097152 + d2 * 128 := by simp only [ra1]; omega
    clear_value ra1
    have hra : ra = ra1 + rb1 := by
      simp (disch := omega) only [ra, lor_blocks7]; try omega
    clear_value ra
    simp only [Option.some.injEq, Prod.mk.injEq, Nat.reduceAdd, and_true]
    omega
  rw [if_neg (by omega)]
  simp -zeta only [if_neg h3, Nat.reduceEqDiff, if_false, Nat.reduceAdd]
  obtain ⟨d3, rfl⟩ : ∃ d, p3 = 128 + d := ⟨p3 - 128, by omega⟩
  have hd3 : d3 < 128 := by omega
  clear h3 lt3
  simp -zeta only [Nat.add_sub_cancel_left]
  extract_lets +onlyGivenNames b4 s1 a3
  have hb4 : b4 = d1 * 16384 + d3 := by simp only [b4]; omega
  clear_value b4
  have hs1 : s1 = d0 * 16384 + d2 := by simp only [s1]; omega
  clear_value s1
  have ha3 : a3 = d0 % 16 * 268435456 + d2 * 16384 := by simp only [a3]; omega
  clear_value a3
  clear hb3 b3 ha2 a2
  -- ===== byte 4 =====
  rcases t with _ | ⟨p4, t⟩
  · rfl
  have lt4 : p4 < 256 := hb p4 (by simp)
  simp -zeta only [List.getElem?_cons_zero, List.getElem?_cons_succ, Option.bind_some, Chained.decAux]
  extract_lets +onlyGivenNames a4
  have ha4 : a4 = d0 % 16 * 268435456 + d2 * 16384 + p4 := by
    simp (disch := omega) only [a4, lor_blocks7]; try omega
  clear_value a4
  clear ha3 a3
  by_cases h4 : p4 < 128
  · simp -zeta only [if_pos h4, Nat.reduceEqDiff, if_false]
    rw [if_pos (by omega)]
    extract_lets +onlyGivenNames rb ra rs
    have hrb : rb = d1 * 2097152 + d3 * 128 := by simp only [rb]; omega
    clear_value rb
    have hra : ra = a4 + rb := by
      simp (disch := omega) only [ra, lor_blocks7]; try omega
    clear_value ra
    have hrs : rs = d0 / 16 := by simp only [rs]; omega
    clear_value rs
    simp (disch := omega) only [lor_low32, Option.some.injEq, Prod.mk.injEq, Nat.reduceAdd, and_true]
    omega
  rw [if_neg (by omega)]
  simp -zeta only [if_neg h4, Nat.reduceEqDiff, if_false, Nat.reduceAdd]
  obtain ⟨d4, rfl⟩ : ∃ d, p4 = 128 + d := ⟨p4 - 128, by omega⟩
  have hd4 : d4 < 128 := by omega
  clear h4 lt4
  simp -zeta only [Nat.add_sub_cancel_left]
  extract_lets +onlyGivenNames s2 s3 b5
  have hs3 : s3 = d0 * 2097152 + d1 * 16384 + d2 * 128 + d3 := by
    simp (disch := omega) only [s3, s2, lor_blocks7]; try omega
  clear_value s3
  have hb5 : b5 = d1 % 16 * 268435456 + d3 * 16384 := by simp only [b5]; omega
  clear_value b5
  clear s2 hs1 s1 hb4 b4
  -- ===== byte 5 =====
  rcases t with _ | ⟨p5, t⟩
  · rfl
  have lt5 : p5 < 256 := hb p5 (by simp)
  simp -zeta only [List.getElem?_cons_zero, List.getElem?_cons_succ, Option.bind_some, Chained.decAux]
  extract_lets +onlyGivenNames b6
  have hb6 : b6 = d1 % 16 * 268435456 + d3 * 16384 + p5 := by
    simp (disch := omega) only [b6, lor_blocks7]; try omega
  clear_value b6
  clear hb5 b5
  by_cases h5 : p5 < 128
  · simp -zeta only [if_pos h5, Nat.reduceEqDiff, if_false]
    rw [if_pos (by omega)]
    extract_lets +onlyGivenNames ra1 ra2 ra rs
    have hra1 : ra1 = d2 * 16384 + d4 := by simp only [ra1]; omega
    clear_value ra1
    have hra2 : ra2 = d2 * 2097152 + d4 * 128 := by simp only [ra2]; omega
    clear_value ra2
    have hra : ra = ra2 + b6 := by
      simp (disch := omega) only [ra, lor_blocks7]; try omega
    clear_value ra
    have hrs : rs = d0 * 8 + d1 / 16 := by simp only [rs]; omega
    clear_value rs
    simp (disch := omega) only [lor_low32, Option.some.injEq, Prod.mk.injEq, Nat.reduceAdd, and_true]
    omega
  rw [if_neg (by omega)]
  simp -zeta only [if_neg h5, Nat.reduceEqDiff, if_false, Nat.reduceAdd]
  obtain ⟨d5, rfl⟩ : ∃ d, p5 = 128 + d := ⟨p5 - 128, by omega⟩
  have hd5 : d5 < 128 := by omega
  clear h5 lt5
  simp -zeta only [Nat.add_sub_cancel_left]
  extract_lets +onlyGivenNames a5
  have ha5 : a5 = d2 % 16 * 268435456 + (128 + d4) * 16384 := by simp only [a5]; omega
  clear_value a5
  clear ha4 a4
  -- ===== byte 6 =====
  rcases t with _ | ⟨p6, t⟩
  · rfl
  have lt6 : p6 < 256 := hb p6 (by simp)
  simp -zeta only [List.getElem?_cons_zero, List.getElem?_cons_succ, Option.bind_some, Chained.decAux]
  extract_lets +onlyGivenNames a6
  have ha6 : a6 = d2 % 16 * 268435456 + (128 + d4) * 16384 + p6 := by
    simp (disch := omega) only [a6, lor_blocks7]; try omega
  clear_value a6
  clear ha5 a5
  by_cases h6 : p6 < 128
  · simp -zeta only [if_pos h6, Nat.reduceEqDiff, if_false]
    rw [if_pos (by omega)]
    extract_lets +onlyGivenNames ra1 rb1 rb2 ra rs
    have hra1 : ra1 = d2 % 16 * 268435456 + d4 * 16384 + p6 := by simp only [ra1]; omega
    clear_value ra1
    have e1 : b6 / 16384 = d1 % 16 * 16384 + d3 := by omega
    have e2 : b6 % 128 = d5 := by omega
    clear hb6
    have hrb1 : rb1 = d3 * 16384 + d5 := by simp only [rb1, e1, e2]; omega
    clear_value rb1
    have hrb2 : rb2 = d3 * 2097152 + d5 * 128 := by simp only [rb2]; omega
    clear_value rb2
    have hra : ra = ra1 + rb2 := by
      simp (disch := omega) only [ra, lor_blocks7]; try omega
    clear_value ra
    have hrs : rs = d0 * 1024 + d1 * 8 + d2 / 16 := by simp only [rs]; omega
    clear_value rs
    simp (disch := omega) only [lor_low32, Option.some.injEq, Prod.mk.injEq, Nat.reduceAdd, and_true]
    omega
  rw [if_neg (by omega)]
  simp -zeta only [if_neg h6, Nat.reduceEqDiff, if_false, Nat.reduceAdd]
  obtain ⟨d6, rfl⟩ : ∃ d, p6 = 128 + d := ⟨p6 - 128, by omega⟩
  have hd6 : d6 < 128 := by omega
  clear h6 lt6
  simp -zeta only [Nat.add_sub_cancel_left]
  extract_lets +onlyGivenNames a7 b7
  have ha7 : a7 = d4 * 16384 + d6 := by simp only [a7]; omega
  clear_value a7
  have hb7 : b7 = d3 % 16 * 268435456 + (128 + d5) * 16384 := by simp only [b7]; omega
  clear_value b7
  clear ha6 a6 hb6 b6
  -- ===== byte 7 =====
  rcases t with _ | ⟨p7, t⟩
  · rfl
  have lt7 : p7 < 256 := hb p7 (by simp)
  simp -zeta only [List.getElem?_cons_zero, List.getElem?_cons_succ, Option.bind_some, Chained.decAux]
  extract_lets +onlyGivenNames b8
  have hb8 : b8 = d3 % 16 * 268435456 + (128 + d5) * 16384 + p7 := by
    simp (disch := omega) only [b8, lor_blocks7]; try omega
  clear_value b8
  clear hb7 b7
  by_cases h7 : p7 < 128
  · simp -zeta only [if_pos h7, Nat.reduceEqDiff, if_false]
    rw [if_pos (by omega)]
    extract_lets +onlyGivenNames rb1 ra1 ra rs
    have hrb1 : rb1 = d3 % 16 * 268435456 + d5 * 16384 + p7 := by simp only [rb1]; omega
    clear_value rb1
    have hra1 : ra1 = d4 * 2097152 + d6 * 128 := by simp only [ra1]; omega
    clear_value ra1
    have hra : ra = ra1 + rb1 := by
      simp (disch := omega) only [ra, lor_blocks7]; try omega
    clear_value ra
    have hrs : rs = d0 * 131072 + d1 * 1024 + d2 * 8 + d3 / 16 := by simp only [rs]; omega
    clear_value rs
    simp (disch := omega) only [lor_low32, Option.some.injEq, Prod.mk.injEq, Nat.reduceAdd, and_true]
    omega
  rw [if_neg (by omega)]
  simp -zeta only [if_neg h7, Nat.reduceEqDiff, if_false, Nat.reduceAdd]
  obtain ⟨d7, rfl⟩ : ∃ d, p7 = 128 + d := ⟨p7 - 128, by omega⟩
  have hd7 : d7 < 128 := by omega
  clear h7 lt7
  simp -zeta only [Nat.add_sub_cancel_left]
  extract_lets +onlyGivenNames a8
  have ha8 : a8 = d4 % 8 * 536870912 + d6 * 32768 := by simp only [a8]; omega
  clear_value a8
  clear ha7 a7
  -- ===== byte 8 =====
  rcases t with _ | ⟨p8, t⟩
  · rfl
  have lt8 : p8 < 256 := hb p8 (by simp)
  simp -zeta only [List.getElem?_cons_zero, Option.bind_some, Chained.decAux]
  simp -zeta only [if_true]
  extract_lets +onlyGivenNames a9 b9 b10 a10 s4 b11 b12 b13 s5
  have ha9 : a9 = a8 + p8 := by
    simp (disch := omega) only [a9, lor_blocks9]; try omega
  clear_value a9
  have hb9 : b9 = d5 * 16384 + d7 := by simp only [b9]; omega
  clear_value b9
  have hb10 : b10 = d5 * 4194304 + d7 * 256 := by simp only [b10]; omega
  clear_value b10
  have ha10 : a10 = a9 + b10 := by
    simp (disch := omega) only [a10, lor_blocks9]; try omega
  clear_value a10
  have hs4 : s4 = d0 * 33554432 + d1 * 262144 + d2 * 2048 + d3 * 16 := by simp only [s4]; omega
  clear_value s4
  have hb13 : b13 = d4 / 8 := by simp only [b13, b12, b11]; omega
  clear_value b13
  have hs5 : s5 = s4 + b13 := by
    simp (disch := omega) only [s5, lor_low4]; try omega
  clear_value s5
  simp (disch := omega) only [lor_low32, Option.some.injEq, Prod.mk.injEq, and_true]
  omega

/-- Round trip of the literal reader with the encoder model (from `Chained.dec_enc`). -/
theorem getVarint_enc (v : Nat) (hv : v < 2 ^ 64) (rest : List Nat) (hr : ∀ b ∈ rest, b < 256) :
    getVarint (Chained.enc v ++ rest) = some (v, (Chained.enc v).length) := by
  rw [getVarint_eq_dec _ (by
    intro b hm
    rcases List.mem_append.1 hm with h | h
    · exact Chained.enc_lt v b h
    · exact hr b h)]
  exact Chained.dec_enc v hv rest

/-! ### the 32-bit reader -/

theorem decAux_len_le (fuel i acc : Nat) (bs : List Nat) (v l : Nat) (hi : i ≤ 8)
    (h : Chained.decAux fuel i acc bs = some (v, l)) : l ≤ 9 := by
  induction fuel generalizing i acc bs with
  | zero => simp [Chained.decAux] at h
  | succ fuel ih =>
    cases bs with
    | nil => simp [Chained.decAux] at h
    | cons b bs =>
      simp only [Chained.decAux] at h
      split at h
      · simp only [Option.some.injEq, Prod.mk.injEq] at h; omega
      · split at h
        · simp only [Option.some.injEq, Prod.mk.injEq] at h; omega
        · exact ih (i + 1) _ bs (by omega) h

theorem dec_len_le (bs : List Nat) (v l : Nat) (h : Chained.dec bs = some (v, l)) : l ≤ 9 :=
  decAux_len_le 9 0 0 bs v l (by omega) h

/-- the `#if 1 { … }` tail of `varintChainedGetVarint32`: clamp the 64-bit result -/
theorem clamp_eq (o : Option (Nat × Nat)) (hl : ∀ v l, o = some (v, l) → l ≤ 9) :
    (o.bind fun x =>
        have n := x.snd % 256
        if x.fst % 4294967296 ≠ x.fst then some (4294967295, n) else some (x.fst % 4294967296, n))
      = Option.map (fun x => (if x.fst ≥ 2 ^ 32 then 2 ^ 32 - 1 else x.fst, x.snd)) o := by
  cases o with
  | none => rfl
  | some x =>
    obtain ⟨v, l⟩ := x
    have := hl v l rfl
    simp only [Option.bind_some, Option.map_some, Nat.reducePow, Nat.reduceSub]
    have e : l % 256 = l := by omega
    by_cases hv : v ≥ 4294967296
    · rw [if_pos (by omega), if_pos hv, e]
    · rw [if_neg (by omega), if_neg hv, e]
      have : v % 4294967296 = v := by omega
      rw [this]

set_option maxRecDepth 4096 in
theorem getVarint32Fn_eq_dec32 (p0 : Nat) (t : List Nat) (h0 : 128 ≤ p0)
    (hb : ∀ b ∈ p0 :: t, b < 256) : getVarint32Fn (p0 :: t) = Chained.dec32 (p0 :: t) := by
  have lt0 : p0 < 256 := hb p0 (by simp)
  unfold getVarint32Fn
  simp -zeta only [shl32, u8, u32, SQLITE_MAX_U32, Nat.reducePow, Nat.reduceMul, Nat.reduceMod,
    Nat.reduceOr, Nat.reduceSub, Option.bind_eq_bind, Option.pure_def, and_7f, and_80, and_slot20,
    and_max32]
  extract_lets q0 q1 q2 q3
  simp -zeta only [q0, q1, q2, q3, Nat.reduceAdd, Nat.reduceSub, List.drop_zero,
    List.getElem?_cons_zero, List.getElem?_cons_succ, Option.bind_some]
  clear q0 q1 q2 q3
  have h0' : ¬ p0 < 128 := by omega
  -- byte 1
  rcases t with _ | ⟨p1, t⟩
  · simp [Chained.dec32, Chained.dec, Chained.decAux, h0']
  have lt1 : p1 < 256 := hb p1 (by simp)
  simp -zeta only [List.getElem?_cons_zero, List.getElem?_cons_succ, Option.bind_some]
  by_cases h1 : p1 < 128
  · simp (disch := omega) only [Chained.dec32, Chained.dec, Chained.decAux, h0', h1, if_pos, if_neg,
      lor_blocks7, Option.map_some, Option.some.injEq, Prod.mk.injEq, Nat.reduceEqDiff, if_false,
      if_true, Nat.reduceAdd, and_true, Nat.reducePow, Nat.reduceSub]
    omega
  extract_lets +onlyGivenNames a0 b0
  rw [if_neg (by simp only [b0]; omega)]
  extract_lets +onlyGivenNames a1
  have ha1 : a1 = p0 * 16384 := by simp only [a1, a0]; omega
  clear_value a1; clear a0
  -- byte 2
  rcases t with _ | ⟨p2, t⟩
  · simp [Chained.dec32, Chained.dec, Chained.decAux, h0', h1]
  have lt2 : p2 < 256 := hb p2 (by simp)
  simp -zeta only [List.getElem?_cons_zero, Option.bind_some]
  extract_lets +onlyGivenNames a2
  have ha2 : a2 = p0 * 16384 + p2 := by
    simp (disch := omega) only [a2, lor_blocks7]; omega
  clear_value a2; clear ha1 a1
  by_cases h2 : p2 < 128
  · rw [if_pos (by omega)]
    extract_lets +onlyGivenNames ra rb1 rb2
    have hra : ra = (p0 - 128) * 16384 + p2 := by simp only [ra]; omega
    have hrb2 : rb2 = (p1 - 128) * 128 := by simp only [rb2, rb1, b0]; omega
    clear_value ra rb2
    simp (disch := omega) only [Chained.dec32, Chained.dec, Chained.decAux, h0', h1, h2, if_neg,
      lor_blocks7, Option.map_some, Option.some.injEq, Prod.mk.injEq, Nat.reduceEqDiff, if_false,
      if_true, Nat.reduceAdd, and_true, Nat.reducePow, Nat.reduceSub]
    omega
  rw [if_neg (by omega), getVarint_eq_dec _ hb]
  exact clamp_eq _ (dec_len_le _)

theorem dec32_len_le (bs : List Nat) (v l : Nat) (h : Chained.dec32 bs = some (v, l)) : l ≤ 9 := by
  unfold Chained.dec32 at h
  cases hd : Chained.dec bs with
  | none => rw [hd] at h; simp at h
  | some x =>
    obtain ⟨v', l'⟩ := x
    rw [hd] at h
    simp only [Option.map_some, Option.some.injEq, Prod.mk.injEq] at h
    have := dec_len_le bs v' l' hd
    omega

/-- `ChainedU.getVarint32` (the macro `varintChained_getVarint32`, the documented entry point)
    equals the format-level `Chained.dec32` on every byte string. -/
theorem getVarint32_eq_dec32 (p : List Nat) (hb : ∀ b ∈ p, b < 256) :
    getVarint32 p = Chained.dec32 p := by
  unfold getVarint32
  rcases p with _ | ⟨p0, t⟩
  · rfl
  simp only [List.getElem?_cons_zero, Option.bind_eq_bind, Option.bind_some, Option.pure_def, u8]
  by_cases h0 : p0 < 128
  · rw [if_pos (by omega)]
    simp [Chained.dec32, Chained.dec, Chained.decAux, h0]
    omega
  rw [if_neg (by omega), getVarint32Fn_eq_dec32 p0 t (by omega) hb]
  cases hd : Chained.dec32 (p0 :: t) with
  | none => rfl
  | some x =>
    obtain ⟨v, l⟩ := x
    have := dec32_len_le _ v l hd
    simp only [Option.bind_some, Option.some.injEq, Prod.mk.injEq, true_and]
    omega


/-! ### the C function called directly (not through the macro) on an unflagged first byte

  `varintChainedGetVarint32` is compiled WITHOUT its one-byte case (the header macro is defined
  when varintChained.c is compiled), so on a first byte `< 0x80` it does not return
  `(p[0], 1)`: it always reads `p[1]` and treats `p[0]` as if its flag were set, except on the
  fall-back path where the 64-bit reader sees the true one-byte varint. -/

theorem getVarint32Fn_unflagged (p0 : Nat) (t : List Nat) (h0 : p0 < 128)
    (hb : ∀ b ∈ t, b < 256) :
    getVarint32Fn (p0 :: t) =
      match t with
      | [] => none
      | p1 :: t1 =>
        if p1 < 128 then some (p0 * 128 + p1, 2)
        else match t1 with
          | [] => none
          | p2 :: _ =>
            if p2 < 128 then some (p0 * 16384 + (p1 - 128) * 128 + p2, 3) else some (p0, 1) := by
  unfold getVarint32Fn
  simp -zeta only [shl32, u8, u32, SQLITE_MAX_U32, Nat.reducePow, Nat.reduceMul, Nat.reduceMod,
    Nat.reduceOr, Nat.reduceSub, Option.bind_eq_bind, Option.pure_def, and_7f, and_80, and_slot20,
    and_max32]
  extract_lets q0 q1 q2 q3
  simp -zeta only [q0, q1, q2, q3, Nat.reduceAdd, Nat.reduceSub, List.drop_zero,
    List.getElem?_cons_zero, List.getElem?_cons_succ, Option.bind_some]
  clear q0 q1 q2 q3
  rcases t with _ | ⟨p1, t⟩
  · rfl
  have lt1 : p1 < 256 := hb p1 (by simp)
  simp -zeta only [List.getElem?_cons_zero, List.getElem?_cons_succ, Option.bind_some]
  extract_lets +onlyGivenNames a0 b0
  by_cases h1 : p1 < 128
  · rw [if_pos (by simp only [b0]; omega), if_pos h1]
    simp (disch := omega) only [a0, b0, lor_blocks7, Option.some.injEq, Prod.mk.injEq, and_true]
    omega
  rw [if_neg (by simp only [b0]; omega), if_neg h1]
  extract_lets +onlyGivenNames a1
  have ha1 : a1 = p0 * 16384 := by simp only [a1, a0]; omega
  clear_value a1; clear a0
  rcases t with _ | ⟨p2, t⟩
  · rfl
  have lt2 : p2 < 256 := hb p2 (by simp)
  simp -zeta only [List.getElem?_cons_zero, Option.bind_some]
  extract_lets +onlyGivenNames a2
  have ha2 : a2 = p0 * 16384 + p2 := by
    simp (disch := omega) only [a2, lor_blocks7]; omega
  clear_value a2; clear ha1 a1
  by_cases h2 : p2 < 128
  · rw [if_pos (by omega), if_pos h2]
    extract_lets +onlyGivenNames ra rb1 rb2
    have hra : ra = p0 * 16384 + p2 := by simp only [ra]; omega
    have hrb2 : rb2 = (p1 - 128) * 128 := by simp only [rb2, rb1, b0]; omega
    clear_value ra rb2
    simp (disch := omega) only [lor_blocks7, Option.some.injEq, Prod.mk.injEq, and_true]
    omega
  rw [if_neg (by omega), if_neg h2, getVarint_eq_dec _ (by
    intro b hm
    rcases List.mem_cons.1 hm with rfl | hm
    · omega
    · exact hb b hm)]
  simp only [Chained.dec, Chained.decAux, Nat.reduceEqDiff, if_false, if_pos h0, Option.bind_some,
    Nat.reduceAdd, Nat.reduceMod, Nat.zero_mul, Nat.zero_add]
  rw [if_neg (by omega)]
  simp only [Option.some.injEq, Prod.mk.injEq, and_true]
  omega

/-- Concrete instances of the difference between the C *function* and the macro / the model:
    `[0x05, 0x03]` decodes to `(5, 1)`; the function called directly returns `(643, 2)`;
    on `[0x05]` alone it reads `p[1]`, one byte past the varint. -/
theorem getVarint32Fn_differs :
    getVarint32Fn [5, 3] = some (643, 2) ∧ Chained.dec32 [5, 3] = some (5, 1) ∧
    getVarint32 [5, 3] = some (5, 1) ∧
    getVarint32Fn [5] = none ∧ Chained.dec32 [5] = some (5, 1) ∧ getVarint32 [5] = some (5, 1) := by
  decide

end Varint.ChainedU
