import Varint.Lemmas.Split
import Varint.Lemmas.Chained
/- length monotonicity and per-length maxima helpers -/
namespace Varint

theorem extLen_le_iff {u j : Nat} (hj : 1 ≤ j) : extLen u ≤ j ↔ u < 256 ^ j := by
  constructor
  · intro h
    exact Nat.lt_of_lt_of_le (lt_pow_extLen u) (Nat.pow_le_pow_right (by omega) h)
  · exact extLen_le_of_lt hj

theorem len7_le_iff {u j : Nat} (hj : 1 ≤ j) : len7 u ≤ j ↔ u < 128 ^ j := by
  constructor
  · intro h
    exact Nat.lt_of_lt_of_le (lt_pow_len7 u) (Nat.pow_le_pow_right (by omega) h)
  · exact len7_le_of_lt hj

namespace Split

theorem varW_mono (varSub minW : Nat) {a b : Nat} (h : a ≤ b) : varW varSub minW a ≤ varW varSub minW b := by
  have := extLen_mono (v := a - varSub) (w := b - varSub) (by omega)
  unfold varW
  split <;> split <;> omega

theorem varW_le_iff (varSub minW v j : Nat) (hj : minW ≤ j) (hm : 1 ≤ minW) :
    varW varSub minW v ≤ j ↔ v - varSub < 256 ^ j := by
  unfold varW
  split
  · constructor
    · intro _
      have h1 := lt_pow_extLen (v - varSub)
      exact Nat.lt_of_lt_of_le h1 (Nat.pow_le_pow_right (by omega) (by omega))
    · intro _; exact hj
  · exact extLen_le_iff (by omega)

theorem S.len_mono {a b : Nat} (h : a ≤ b) : S.len a ≤ S.len b := by
  have hm := varW_mono 16446 1 h
  have hw : 1 ≤ varW 16446 1 b := by unfold varW; split <;> omega
  unfold S.len
  simp only [lenVar_eq]
  repeat' split
  all_goals omega

theorem F.len_mono {a b : Nat} (h : a ≤ b) : F.len a ≤ F.len b := by
  have hm := varW_mono 4210749 2 h
  have hw : 2 ≤ varW 4210749 2 b := by unfold varW; split <;> omega
  unfold F.len
  simp only [lenVar_eq]
  repeat' split
  all_goals omega

theorem NZ.len_mono {a b : Nat} (h : a ≤ b) : NZ.len a ≤ NZ.len b := by
  have hm := varW_mono 4210750 2 h
  have hw : 2 ≤ varW 4210750 2 b := by unfold varW; split <;> omega
  unfold NZ.len
  simp only [lenVar_eq]
  repeat' split
  all_goals omega

theorem S16.len_mono {a b : Nat} (h : a ≤ b) : S16.len a ≤ S16.len b := by
  have hm := varW_mono 1077952509 4 h
  have hw : 4 ≤ varW 1077952509 4 b := by unfold varW; split <;> omega
  unfold S16.len
  simp only [lenVar_eq]
  repeat' split
  all_goals omega

end Split
end Varint
