import Varint.Gen.CChained
import Varint.Bridge.Tagged
import Varint.Lemmas.ChainedUnrolled
/-
  Bridge: `varintChainedGetVarint` / `varintChainedGetVarint32` of src/varintChained.c, as translated by
  tools/c2lean.py from the CURRENT source (`Varint.Gen.C.chainedGetVarint`, `chainedGetVarint32`), compute
  exactly what the hand-written literal transcription (`ChainedU.getVarint`, `ChainedU.getVarint32Fn`)
  computes, wherever the transcription does not read beyond the buffer.  Both are the same sequence of
  operations: the proof walks down the two programs byte after byte and closes every returning branch by
  `rfl` (after unfolding `shl32`/`shl64`/`shr`/`SLOT_*` and `& 0x7f = % 128`), so any semantic change to
  the C breaks it.  With `getVarint_eq_dec` this ties the C text to the format-level reader `Chained.dec`.
-/
namespace Varint.Bridge.Chained
open Varint Varint.Gen.C Varint.Bridge.Tagged

/-- `((int8_t *)p)[i] >= 0` is "the flag bit of the byte is clear" -/
theorem sx8_nonneg (b : Nat) (hb : b < 256) : (sx 8 b ≥ (0 : Int)) ↔ b < 128 := by
  unfold sx
  simp only [Nat.reducePow, Nat.reduceSub, Int.reducePow]
  split <;> omega

/-- `(uint32_t)(p[0] & 0x7f)` (the `&` is done on `int` after promotion) -/
theorem int_and7f (n : Nat) :
    ((((n : Nat) : Int) % (128 : Int)) % (2 ^ 32 : Int)).toNat = n % 128 := by
  simp only [Int.reducePow]
  omega

/-- what `bufOf` shows of a buffer -/
theorem bufOf_of_getElem? (buf : List Nat) (k x : Nat) (h : buf[k]? = some x) : x = bufOf buf k := by
  unfold bufOf
  rw [List.getD_eq_getElem?_getD, h, Option.getD_some]

/-- The generated function on ANY memory `p` that agrees with `buf` on the indices `buf` has. -/
theorem chainedGetVarint_core (p : Nat → Nat) (buf : List Nat)
    (hp : ∀ k x, buf[k]? = some x → x = p k) (hb : ∀ b ∈ buf, b < 256) (v l : Nat)
    (h : ChainedU.getVarint buf = some (v, l)) :
    chainedGetVarint p = (l, some v) := by
  unfold ChainedU.getVarint at h
  simp -zeta only [Option.bind_eq_bind, Option.pure_def] at h
  extract_lets q0 q2 q3 q4 q5 q6 q7 q8 at h
  simp -zeta only [q0, q2, q3, q4, q5, q6, q7, q8, Nat.reduceAdd, Nat.reduceSub] at h
  clear q0 q2 q3 q4 q5 q6 q7 q8
  simp -zeta only [ChainedU.shl32, ChainedU.shl64, ChainedU.shr, ChainedU.SLOT_2_0,
    ChainedU.SLOT_4_2_0] at h
  simp -zeta only [ChainedU.and_7f] at h
  simp only [] at h
  unfold chainedGetVarint
  simp only [int_and7f, ne_eq, Decidable.not_not]
  -- byte 0
  rcases e0 : buf[0]? with _ | b0
  · rw [e0] at h; cases h
  have lt0 : b0 < 256 := hb _ (List.mem_of_getElem? e0)
  obtain rfl := hp 0 b0 e0
  simp only [e0, Option.bind_some] at h
  by_cases c0 : p 0 < 128
  · rw [if_pos c0] at h
    rw [if_pos ((sx8_nonneg _ lt0).2 c0)]
    cases h; rfl
  rw [if_neg c0] at h
  rw [if_neg (mt (sx8_nonneg _ lt0).1 c0)]
  -- byte 1
  rcases e1 : buf[1]? with _ | b1
  · rw [e1] at h; cases h
  have lt1 : b1 < 256 := hb _ (List.mem_of_getElem? e1)
  obtain rfl := hp 1 b1 e1
  simp only [e1, Option.bind_some] at h
  by_cases c1 : p 1 < 128
  · rw [if_pos c1] at h
    rw [if_pos ((sx8_nonneg _ lt1).2 c1)]
    cases h; rfl
  rw [if_neg c1] at h
  rw [if_neg (mt (sx8_nonneg _ lt1).1 c1)]
  -- byte 2: `|= *p`, test of the flag, the returning branch
  rcases e2 : buf[2]? with _ | b2
  · rw [e2] at h; cases h
  obtain rfl := hp 2 b2 e2
  simp only [e2, Option.bind_some] at h
  split at h
  · rename_i c; rw [if_pos c]; cases h; rfl
  rename_i c; rw [if_neg c]; clear c
  -- byte 3: `|= *p`, test of the flag, the returning branch
  rcases e3 : buf[3]? with _ | b3
  · rw [e3] at h; cases h
  obtain rfl := hp 3 b3 e3
  simp only [e3, Option.bind_some] at h
  split at h
  · rename_i c; rw [if_pos c]; cases h; rfl
  rename_i c; rw [if_neg c]; clear c
  -- byte 4: `|= *p`, test of the flag, the returning branch
  rcases e4 : buf[4]? with _ | b4
  · rw [e4] at h; cases h
  obtain rfl := hp 4 b4 e4
  simp only [e4, Option.bind_some] at h
  split at h
  · rename_i c; rw [if_pos c]; cases h; rfl
  rename_i c; rw [if_neg c]; clear c
  -- byte 5: `|= *p`, test of the flag, the returning branch
  rcases e5 : buf[5]? with _ | b5
  · rw [e5] at h; cases h
  obtain rfl := hp 5 b5 e5
  simp only [e5, Option.bind_some] at h
  split at h
  · rename_i c; rw [if_pos c]; cases h; rfl
  rename_i c; rw [if_neg c]; clear c
  -- byte 6: `|= *p`, test of the flag, the returning branch
  rcases e6 : buf[6]? with _ | b6
  · rw [e6] at h; cases h
  obtain rfl := hp 6 b6 e6
  simp only [e6, Option.bind_some] at h
  split at h
  · rename_i c; rw [if_pos c]; cases h; rfl
  rename_i c; rw [if_neg c]; clear c
  -- byte 7: `|= *p`, test of the flag, the returning branch
  rcases e7 : buf[7]? with _ | b7
  · rw [e7] at h; cases h
  obtain rfl := hp 7 b7 e7
  simp only [e7, Option.bind_some] at h
  split at h
  · rename_i c; rw [if_pos c]; cases h; rfl
  rename_i c; rw [if_neg c]; clear c
  -- byte 8 (and `p[-4]`, which is byte 4 again)
  rcases e8 : buf[8]? with _ | b8
  · rw [e8] at h; cases h
  obtain rfl := hp 8 b8 e8
  simp only [e8, Option.bind_some] at h
  cases h; rfl

/-- `varintChainedGetVarint(p, &v)` on a buffer holding the bytes `buf`: whenever the literal model does
    not read beyond `buf`, the C returns the model's width and stores the model's value. -/
theorem chainedGetVarint_eq (buf : List Nat) (hb : ∀ b ∈ buf, b < 256) (v l : Nat)
    (h : ChainedU.getVarint buf = some (v, l)) :
    Varint.Gen.C.chainedGetVarint (bufOf buf) = (l, some v) :=
  chainedGetVarint_core (bufOf buf) buf (bufOf_of_getElem? buf) hb v l h

/-- the translated C against the format-level reader -/
theorem chainedGetVarint_eq_dec (buf : List Nat) (hb : ∀ b ∈ buf, b < 256) (v l : Nat)
    (h : Chained.dec buf = some (v, l)) :
    Varint.Gen.C.chainedGetVarint (bufOf buf) = (l, some v) :=
  chainedGetVarint_eq buf hb v l (by rw [ChainedU.getVarint_eq_dec buf hb]; exact h)

/-- Round trip on the C itself: the translated `varintChainedGetVarint` reads back every 64-bit value from
    the bytes the encoder model writes, whatever follows them. -/
theorem chainedGetVarint_enc (v : Nat) (hv : v < 2 ^ 64) (rest : List Nat) (hr : ∀ b ∈ rest, b < 256) :
    Varint.Gen.C.chainedGetVarint (bufOf (Chained.enc v ++ rest)) = ((Chained.enc v).length, some v) :=
  chainedGetVarint_eq _ (by
    intro b hm
    rcases List.mem_append.1 hm with h | h
    · exact Chained.enc_lt v b h
    · exact hr b h) v _ (ChainedU.getVarint_enc v hv rest hr)

/-- The generated raw 32-bit function (one-byte case compiled out) on ANY memory `p` that agrees with `buf`
    on the indices `buf` has.  No assumption on the first byte: the translation and the transcription
    agree on unflagged first bytes too (where both differ from the macro / `Chained.dec32`). -/
theorem chainedGetVarint32_core (p : Nat → Nat) (buf : List Nat)
    (hp : ∀ k x, buf[k]? = some x → x = p k) (hb : ∀ b ∈ buf, b < 256) (v n : Nat)
    (h : ChainedU.getVarint32Fn buf = some (v, n)) :
    chainedGetVarint32 p = (n, some v) := by
  unfold ChainedU.getVarint32Fn at h
  simp -zeta only [Option.bind_eq_bind, Option.pure_def] at h
  extract_lets q0 q1 q2 q3 at h
  simp -zeta only [q0, q1, q2, q3, Nat.reduceAdd, Nat.reduceSub, List.drop_zero] at h
  clear q0 q1 q2 q3
  simp -zeta only [ChainedU.shl32, ChainedU.u8, ChainedU.u32, ChainedU.SQLITE_MAX_U32] at h
  simp -zeta only [ChainedU.and_7f] at h
  simp only [] at h
  unfold chainedGetVarint32
  simp only [ne_eq, Decidable.not_not]
  simp only [ne_eq, Nat.reducePow, Nat.reduceMul, Nat.reduceMod, Nat.reduceOr, Nat.reduceSub,
    Nat.reduceAdd] at h ⊢
  -- byte 0
  rcases e0 : buf[0]? with _ | b0
  · rw [e0] at h; cases h
  obtain rfl := hp 0 b0 e0
  simp only [e0, Option.bind_some] at h
  -- byte 1
  rcases e1 : buf[1]? with _ | b1
  · rw [e1] at h; cases h
  obtain rfl := hp 1 b1 e1
  simp only [e1, Option.bind_some] at h
  split at h
  · rename_i c; rw [if_pos c]; cases h; rfl
  rename_i c; rw [if_neg c]; clear c
  -- byte 2
  rcases e2 : buf[2]? with _ | b2
  · rw [e2] at h; cases h
  obtain rfl := hp 2 b2 e2
  simp only [e2, Option.bind_some] at h
  split at h
  · rename_i c; rw [if_pos c]; cases h; rfl
  rename_i c; rw [if_neg c]; clear c
  -- the 64-bit reader on the same pointer, then the clamp
  rcases hg : ChainedU.getVarint buf with _ | ⟨v64, n'⟩
  · rw [hg] at h; cases h
  rw [chainedGetVarint_core p buf hp hb v64 n' hg]
  simp only [hg, Option.bind_some] at h
  simp only [Option.getD_some]
  by_cases c : ¬ v64 &&& 4294967295 = v64
  · simp only [c, not_false_eq_true, if_true] at h; rw [if_pos c]; cases h; rfl
  · simp only [c, if_false] at h; rw [if_neg c]; cases h; rfl

/-- `varintChainedGetVarint32(p, &v)` (the raw function) on a buffer holding the bytes `buf`: whenever the
    literal model does not read beyond `buf`, the C returns the model's width and stores the model's value. -/
theorem chainedGetVarint32_eq (buf : List Nat) (hb : ∀ b ∈ buf, b < 256) (v n : Nat)
    (h : ChainedU.getVarint32Fn buf = some (v, n)) :
    Varint.Gen.C.chainedGetVarint32 (bufOf buf) = (n, some v) :=
  chainedGetVarint32_core (bufOf buf) buf (bufOf_of_getElem? buf) hb v n h

/-- the translated raw 32-bit function against the format-level clamping reader, under its contract
    (first byte flagged: the one-byte case is the macro's) -/
theorem chainedGetVarint32_eq_dec32 (p0 : Nat) (t : List Nat) (h0 : 128 ≤ p0)
    (hb : ∀ b ∈ p0 :: t, b < 256) (v n : Nat) (h : Chained.dec32 (p0 :: t) = some (v, n)) :
    Varint.Gen.C.chainedGetVarint32 (bufOf (p0 :: t)) = (n, some v) :=
  chainedGetVarint32_eq _ hb v n (by rw [ChainedU.getVarint32Fn_eq_dec32 p0 t h0 hb]; exact h)

/-- Round trip on the C itself, 32-bit raw function: every value `128 ≤ v < 2^32` (the values whose
    encoding starts with a flagged byte) is read back from the encoder model's bytes. -/
theorem chainedGetVarint32_enc (v : Nat) (hlo : 128 ≤ v) (hv : v < 2 ^ 32) (rest : List Nat)
    (hr : ∀ b ∈ rest, b < 256) :
    Varint.Gen.C.chainedGetVarint32 (bufOf (Chained.enc v ++ rest)) = ((Chained.enc v).length, some v) := by
  have hb : ∀ b ∈ Chained.enc v ++ rest, b < 256 := by
    intro b hm
    rcases List.mem_append.1 hm with h | h
    · exact Chained.enc_lt v b h
    · exact hr b h
  have hd : Chained.dec (Chained.enc v ++ rest) = some (v, (Chained.enc v).length) :=
    Chained.dec_enc v (by omega) rest
  rcases hl : Chained.enc v ++ rest with _ | ⟨p0, t⟩
  · rw [hl] at hd; simp [Chained.dec, Chained.decAux] at hd
  rw [hl] at hd hb
  have h0 : 128 ≤ p0 := by
    apply Decidable.byContradiction
    intro hc
    have hc' : p0 < 128 := by omega
    simp only [Chained.dec, Chained.decAux, Nat.reduceEqDiff, if_false, if_pos hc', Option.some.injEq,
      Prod.mk.injEq, Nat.zero_mul, Nat.zero_add] at hd
    omega
  apply chainedGetVarint32_eq_dec32 p0 t h0 hb
  unfold Chained.dec32
  rw [hd]
  simp only [Option.map_some, Nat.reducePow, Nat.reduceSub, Option.some.injEq, Prod.mk.injEq, and_true]
  rw [if_neg (by omega)]

/-- The C *function* called directly (not through the header macro) on an unflagged first byte: it does
    not return the one-byte varint.  `[0x05, 0x03]`: the format says `(5, 1)`, the compiled function
    stores 643 and returns 2. -/
theorem chainedGetVarint32_unflagged_example :
    Varint.Gen.C.chainedGetVarint32 (bufOf [5, 3]) = (2, some 643) ∧ Chained.dec32 [5, 3] = some (5, 1) :=
  ⟨chainedGetVarint32_eq [5, 3] (by decide) 643 2 ChainedU.getVarint32Fn_differs.1,
   ChainedU.getVarint32Fn_differs.2.1⟩

end Varint.Bridge.Chained
