import Varint.Gen.CExternal
import Varint.Model.External
import Varint.Lemmas.Bytes
import Varint.Lemmas.Add
import Varint.Bridge.Loop
import Varint.Bridge.Tagged
/-
  Bridge: src/varintExternal.c — varintExternalPut (width loop + per-width copy), varintExternalPutFixedWidth,
  varintExternalGet, as translated by tools/c2lean2.py from the CURRENT source (little-endian host: `endianIsLittle()`
  is the platform constant 1; the byte views `(uint8_t *)&v` are read and written as the little-endian object
  representation) — equal the model Varint.External.* for every 64-bit value and every width 1..8.
  The stores of the C are listed in program order (the unrolled copies run from the high byte down), so the statements
  are about the memory they leave: `applyStores`, plus "each index below the width exactly once, none beyond".
-/
namespace Varint.Bridge.External
open Varint Varint.Gen.C Varint.Bridge

/-- what a store list does: indices all below `w`, each exactly once, and the bytes left are `bs` -/
def Writes (stores : List (Nat × Nat)) (bs : List Nat) : Prop :=
  applyStores (List.replicate bs.length 0) stores = bs ∧ stores.length = bs.length ∧
  (∀ p ∈ stores, p.1 < bs.length) ∧ (stores.map Prod.fst).Nodup

theorem le1 (v : Nat) : leBytes 1 v = [v % 256] := rfl
theorem le2 (v : Nat) : leBytes 2 v = [v % 256, v / 256 % 256] := rfl
theorem le3 (v : Nat) : leBytes 3 v = [v % 256, v / 256 % 256, v / 256 / 256 % 256] := rfl
theorem le4 (v : Nat) : leBytes 4 v = [v % 256, v / 256 % 256, v / 256 / 256 % 256, v / 256 / 256 / 256 % 256] := rfl
theorem le5 (v : Nat) : leBytes 5 v = [v % 256, v / 256 % 256, v / 256 / 256 % 256, v / 256 / 256 / 256 % 256,
    v / 256 / 256 / 256 / 256 % 256] := rfl
theorem le6 (v : Nat) : leBytes 6 v = [v % 256, v / 256 % 256, v / 256 / 256 % 256, v / 256 / 256 / 256 % 256,
    v / 256 / 256 / 256 / 256 % 256, v / 256 / 256 / 256 / 256 / 256 % 256] := rfl
theorem le7 (v : Nat) : leBytes 7 v = [v % 256, v / 256 % 256, v / 256 / 256 % 256, v / 256 / 256 / 256 % 256,
    v / 256 / 256 / 256 / 256 % 256, v / 256 / 256 / 256 / 256 / 256 % 256,
    v / 256 / 256 / 256 / 256 / 256 / 256 % 256] := rfl
theorem le8 (v : Nat) : leBytes 8 v = [v % 256, v / 256 % 256, v / 256 / 256 % 256, v / 256 / 256 / 256 % 256,
    v / 256 / 256 / 256 / 256 % 256, v / 256 / 256 / 256 / 256 / 256 % 256,
    v / 256 / 256 / 256 / 256 / 256 / 256 % 256, v / 256 / 256 / 256 / 256 / 256 / 256 / 256 % 256] := rfl

/-- **`varintExternalPutFixedWidth(p, v, w)`**, 1 ≤ w ≤ 8: the bytes left at p[0 … w-1] are the little-endian bytes of
    `v`, every index below `w` is stored exactly once and nothing at or beyond `w` -/
theorem extPutFixedWidth_eq (v w : Nat) (h1 : 1 ≤ w) (h8 : w ≤ 8) :
    Writes (extPutFixedWidth v w) (External.encFixed v w) := by
  have hw : w = 1 ∨ w = 2 ∨ w = 3 ∨ w = 4 ∨ w = 5 ∨ w = 6 ∨ w = 7 ∨ w = 8 := by omega
  unfold Writes External.encFixed
  rcases hw with rfl | rfl | rfl | rfl | rfl | rfl | rfl | rfl
  · simp only [extPutFixedWidth, extPutFixedWidth_arm1, le1]
    refine ⟨?_, rfl, by simp, by simp⟩
    simp [applyStores]
  · simp only [extPutFixedWidth, extPutFixedWidth_arm2, le2]
    refine ⟨?_, rfl, by simp, by simp⟩
    simp [applyStores]
  · simp only [extPutFixedWidth, extPutFixedWidth_arm4, le3]
    refine ⟨?_, rfl, by simp, by simp⟩
    simp [applyStores]; omega
  · simp only [extPutFixedWidth, extPutFixedWidth_arm3, le4]
    refine ⟨?_, rfl, by simp, by simp⟩
    simp [applyStores]; omega
  · simp only [extPutFixedWidth, extPutFixedWidth_arm7, le5]
    refine ⟨?_, rfl, by simp, by simp⟩
    simp [applyStores]; omega
  · simp only [extPutFixedWidth, extPutFixedWidth_arm6, le6]
    refine ⟨?_, rfl, by simp, by simp⟩
    simp [applyStores]; omega
  · simp only [extPutFixedWidth, extPutFixedWidth_arm5, le7]
    refine ⟨?_, rfl, by simp, by simp⟩
    simp [applyStores]; omega
  · simp only [extPutFixedWidth, extPutFixedWidth_arm8, le8]
    refine ⟨?_, rfl, by simp, by simp⟩
    simp [applyStores]; omega


/-- the width loop `while ((v >>= 8) != 0) encoding++` counts base-256 digits -/
theorem width_loop : ∀ (f v e : Nat), extLen v ≤ f → e + extLen v < 2 ^ 32 →
    extCopyUsedLE_loop1 f (v, e) = .done (0, e + extLen v - 1) := by
  intro f
  induction f with
  | zero => intro v e h; have := extLen_pos v; omega
  | succ f ih =>
    intro v e hf he
    unfold extCopyUsedLE_loop1
    simp only [Nat.reducePow]
    rw [extLen_eq] at hf he ⊢
    by_cases c : v < 256
    · have h0 : v / 256 = 0 := by omega
      simp only [h0, if_pos c, ne_eq, not_true_eq_false, if_false]
      rw [Nat.add_sub_cancel]
    · simp only [if_neg c] at hf he ⊢
      have h0 : v / 256 ≠ 0 := by omega
      rw [if_pos h0]
      have hp := extLen_pos (v / 256)
      rw [Nat.mod_eq_of_lt (by omega)]
      rw [ih (v / 256) (e + 1) (by omega) (by omega)]
      congr 2
      omega

/-- the copy made by `varintExternalCopyUsedBytesLittleEndian_` once the width is known -/
theorem copyUsed_arms (v w : Nat) (h1 : 1 ≤ w) (h8 : w ≤ 8) :
    Writes (if w = 1 then extCopyUsedLE_arm1 v else if w = 2 then extCopyUsedLE_arm2 v
      else if w = 4 then extCopyUsedLE_arm3 v else if w = 3 then extCopyUsedLE_arm4 v
      else if w = 7 then extCopyUsedLE_arm5 v else if w = 6 then extCopyUsedLE_arm6 v
      else if w = 5 then extCopyUsedLE_arm7 v else extCopyUsedLE_arm8 v) (leBytes w v) := by
  have hw : w = 1 ∨ w = 2 ∨ w = 3 ∨ w = 4 ∨ w = 5 ∨ w = 6 ∨ w = 7 ∨ w = 8 := by omega
  unfold Writes
  rcases hw with rfl | rfl | rfl | rfl | rfl | rfl | rfl | rfl
  · simp only [extCopyUsedLE_arm1, le1]
    refine ⟨?_, rfl, by simp, by simp⟩
    simp [applyStores]
  · simp only [extCopyUsedLE_arm2, le2]
    refine ⟨?_, rfl, by simp, by simp⟩
    simp [applyStores]
  · simp only [extCopyUsedLE_arm4, le3]
    refine ⟨?_, rfl, by simp, by simp⟩
    simp [applyStores]; omega
  · simp only [extCopyUsedLE_arm3, le4]
    refine ⟨?_, rfl, by simp, by simp⟩
    simp [applyStores]; omega
  · simp only [extCopyUsedLE_arm7, le5]
    refine ⟨?_, rfl, by simp, by simp⟩
    simp [applyStores]; omega
  · simp only [extCopyUsedLE_arm6, le6]
    refine ⟨?_, rfl, by simp, by simp⟩
    simp [applyStores]; omega
  · simp only [extCopyUsedLE_arm5, le7]
    refine ⟨?_, rfl, by simp, by simp⟩
    simp [applyStores]; omega
  · simp only [extCopyUsedLE_arm8, le8]
    refine ⟨?_, rfl, by simp, by simp⟩
    simp [applyStores]; omega

/-- **`varintExternalPut(p, v)`** for every 64-bit value and every fuel ≥ 8: returns the minimal width and leaves the
    minimal little-endian slice, each byte stored once, nothing beyond the width -/
theorem extPut_eq (v fuel : Nat) (hv : v < 2 ^ 64) (hf : 8 ≤ fuel) :
    ∃ stores, extPut fuel v = some (extLen v, stores) ∧ Writes stores (External.enc v) := by
  have h8 := extLen_le_8 hv
  have h1 := extLen_pos v
  unfold extPut extCopyUsedLE
  simp only []
  rw [width_loop fuel v 1 (by omega) (by omega)]
  simp only [show 1 + extLen v - 1 = extLen v by omega]
  have harms := copyUsed_arms v (extLen v) h1 h8
  refine ⟨_, rfl, ?_⟩
  unfold External.enc
  generalize extLen v = w at *
  have hw : w = 1 ∨ w = 2 ∨ w = 3 ∨ w = 4 ∨ w = 5 ∨ w = 6 ∨ w = 7 ∨ w = 8 := by omega
  rcases hw with rfl | rfl | rfl | rfl | rfl | rfl | rfl | rfl <;> simpa using harms


/-- storing into a byte that is still zero adds the byte -/
theorem setByte_fresh (v k b : Nat) (h : v / 2 ^ (8 * k) % 256 = 0) : setByte v k b = v + b * 2 ^ (8 * k) := by
  unfold setByte
  rw [h]; simp

/-- **`varintExternalGet(p, w)`**, 1 ≤ w ≤ 8, on a buffer of bytes: the little-endian value of p[0 … w-1] -/
theorem extGet_eq (p : Nat → Nat) (w : Nat) (h1 : 1 ≤ w) (h8 : w ≤ 8) (hb : ∀ i, i < w → p i < 256) :
    extGet p w = ofLe ((List.range w).map p) := by
  have hw : w = 1 ∨ w = 2 ∨ w = 3 ∨ w = 4 ∨ w = 5 ∨ w = 6 ∨ w = 7 ∨ w = 8 := by omega
  unfold extGet
  rcases hw with rfl | rfl | rfl | rfl | rfl | rfl | rfl | rfl
  · have c := fun i (h : i < 1) => hb i h
    simp only [extLoadLE, extLoadLE_arm1, Nat.reduceEqDiff, if_true, if_false, List.range, List.range.loop, List.map, ofLe]
    have c0 := c 0 (by omega)
    clear c hb
    generalize p 0 = x0 at *
    rw [setByte_fresh 0 0 x0 (by simp)]
    simp only [Nat.reducePow, Nat.reduceMul]
    omega
  · have c := fun i (h : i < 2) => hb i h
    simp only [extLoadLE, extLoadLE_arm2, Nat.reduceEqDiff, if_true, if_false, List.range, List.range.loop, List.map, ofLe]
    have c0 := c 0 (by omega)
    have c1 := c 1 (by omega)
    clear c hb
    generalize p 0 = x0 at *
    generalize p 1 = x1 at *
    rw [setByte_fresh 0 1 x1 (by simp)]
    rw [setByte_fresh _ 0 x0 (by simp only [Nat.reducePow, Nat.reduceMul]; omega)]
    simp only [Nat.reducePow, Nat.reduceMul]
    omega
  · have c := fun i (h : i < 3) => hb i h
    simp only [extLoadLE, extLoadLE_arm4, Nat.reduceEqDiff, if_true, if_false, List.range, List.range.loop, List.map, ofLe]
    have c0 := c 0 (by omega)
    have c1 := c 1 (by omega)
    have c2 := c 2 (by omega)
    clear c hb
    generalize p 0 = x0 at *
    generalize p 1 = x1 at *
    generalize p 2 = x2 at *
    rw [setByte_fresh 0 2 x2 (by simp)]
    rw [setByte_fresh _ 1 x1 (by simp only [Nat.reducePow, Nat.reduceMul]; omega)]
    rw [setByte_fresh _ 0 x0 (by simp only [Nat.reducePow, Nat.reduceMul]; omega)]
    simp only [Nat.reducePow, Nat.reduceMul]
    omega
  · have c := fun i (h : i < 4) => hb i h
    simp only [extLoadLE, extLoadLE_arm3, Nat.reduceEqDiff, if_true, if_false, List.range, List.range.loop, List.map, ofLe]
    have c0 := c 0 (by omega)
    have c1 := c 1 (by omega)
    have c2 := c 2 (by omega)
    have c3 := c 3 (by omega)
    clear c hb
    generalize p 0 = x0 at *
    generalize p 1 = x1 at *
    generalize p 2 = x2 at *
    generalize p 3 = x3 at *
    rw [setByte_fresh 0 3 x3 (by simp)]
    rw [setByte_fresh _ 2 x2 (by simp only [Nat.reducePow, Nat.reduceMul]; omega)]
    rw [setByte_fresh _ 1 x1 (by simp only [Nat.reducePow, Nat.reduceMul]; omega)]
    rw [setByte_fresh _ 0 x0 (by simp only [Nat.reducePow, Nat.reduceMul]; omega)]
    simp only [Nat.reducePow, Nat.reduceMul]
    omega
  · have c := fun i (h : i < 5) => hb i h
    simp only [extLoadLE, extLoadLE_arm7, Nat.reduceEqDiff, if_true, if_false, List.range, List.range.loop, List.map, ofLe]
    have c0 := c 0 (by omega)
    have c1 := c 1 (by omega)
    have c2 := c 2 (by omega)
    have c3 := c 3 (by omega)
    have c4 := c 4 (by omega)
    clear c hb
    generalize p 0 = x0 at *
    generalize p 1 = x1 at *
    generalize p 2 = x2 at *
    generalize p 3 = x3 at *
    generalize p 4 = x4 at *
    rw [setByte_fresh 0 4 x4 (by simp)]
    rw [setByte_fresh _ 3 x3 (by simp only [Nat.reducePow, Nat.reduceMul]; omega)]
    rw [setByte_fresh _ 2 x2 (by simp only [Nat.reducePow, Nat.reduceMul]; omega)]
    rw [setByte_fresh _ 1 x1 (by simp only [Nat.reducePow, Nat.reduceMul]; omega)]
    rw [setByte_fresh _ 0 x0 (by simp only [Nat.reducePow, Nat.reduceMul]; omega)]
    simp only [Nat.reducePow, Nat.reduceMul]
    omega
  · have c := fun i (h : i < 6) => hb i h
    simp only [extLoadLE, extLoadLE_arm6, Nat.reduceEqDiff, if_true, if_false, List.range, List.range.loop, List.map, ofLe]
    have c0 := c 0 (by omega)
    have c1 := c 1 (by omega)
    have c2 := c 2 (by omega)
    have c3 := c 3 (by omega)
    have c4 := c 4 (by omega)
    have c5 := c 5 (by omega)
    clear c hb
    generalize p 0 = x0 at *
    generalize p 1 = x1 at *
    generalize p 2 = x2 at *
    generalize p 3 = x3 at *
    generalize p 4 = x4 at *
    generalize p 5 = x5 at *
    rw [setByte_fresh 0 5 x5 (by simp)]
    rw [setByte_fresh _ 4 x4 (by simp only [Nat.reducePow, Nat.reduceMul]; omega)]
    rw [setByte_fresh _ 3 x3 (by simp only [Nat.reducePow, Nat.reduceMul]; omega)]
    rw [setByte_fresh _ 2 x2 (by simp only [Nat.reducePow, Nat.reduceMul]; omega)]
    rw [setByte_fresh _ 1 x1 (by simp only [Nat.reducePow, Nat.reduceMul]; omega)]
    rw [setByte_fresh _ 0 x0 (by simp only [Nat.reducePow, Nat.reduceMul]; omega)]
    simp only [Nat.reducePow, Nat.reduceMul]
    omega
  · have c := fun i (h : i < 7) => hb i h
    simp only [extLoadLE, extLoadLE_arm5, Nat.reduceEqDiff, if_true, if_false, List.range, List.range.loop, List.map, ofLe]
    have c0 := c 0 (by omega)
    have c1 := c 1 (by omega)
    have c2 := c 2 (by omega)
    have c3 := c 3 (by omega)
    have c4 := c 4 (by omega)
    have c5 := c 5 (by omega)
    have c6 := c 6 (by omega)
    clear c hb
    generalize p 0 = x0 at *
    generalize p 1 = x1 at *
    generalize p 2 = x2 at *
    generalize p 3 = x3 at *
    generalize p 4 = x4 at *
    generalize p 5 = x5 at *
    generalize p 6 = x6 at *
    rw [setByte_fresh 0 6 x6 (by simp)]
    rw [setByte_fresh _ 5 x5 (by simp only [Nat.reducePow, Nat.reduceMul]; omega)]
    rw [setByte_fresh _ 4 x4 (by simp only [Nat.reducePow, Nat.reduceMul]; omega)]
    rw [setByte_fresh _ 3 x3 (by simp only [Nat.reducePow, Nat.reduceMul]; omega)]
    rw [setByte_fresh _ 2 x2 (by simp only [Nat.reducePow, Nat.reduceMul]; omega)]
    rw [setByte_fresh _ 1 x1 (by simp only [Nat.reducePow, Nat.reduceMul]; omega)]
    rw [setByte_fresh _ 0 x0 (by simp only [Nat.reducePow, Nat.reduceMul]; omega)]
    simp only [Nat.reducePow, Nat.reduceMul]
    omega
  · have c := fun i (h : i < 8) => hb i h
    simp only [extLoadLE, extLoadLE_arm8, Nat.reduceEqDiff, if_true, if_false, List.range, List.range.loop, List.map, ofLe]
    have c0 := c 0 (by omega)
    have c1 := c 1 (by omega)
    have c2 := c 2 (by omega)
    have c3 := c 3 (by omega)
    have c4 := c 4 (by omega)
    have c5 := c 5 (by omega)
    have c6 := c 6 (by omega)
    have c7 := c 7 (by omega)
    clear c hb
    generalize p 0 = x0 at *
    generalize p 1 = x1 at *
    generalize p 2 = x2 at *
    generalize p 3 = x3 at *
    generalize p 4 = x4 at *
    generalize p 5 = x5 at *
    generalize p 6 = x6 at *
    generalize p 7 = x7 at *
    rw [setByte_fresh 0 0 x0 (by simp)]
    rw [setByte_fresh _ 1 x1 (by simp only [Nat.reducePow, Nat.reduceMul]; omega)]
    rw [setByte_fresh _ 2 x2 (by simp only [Nat.reducePow, Nat.reduceMul]; omega)]
    rw [setByte_fresh _ 3 x3 (by simp only [Nat.reducePow, Nat.reduceMul]; omega)]
    rw [setByte_fresh _ 4 x4 (by simp only [Nat.reducePow, Nat.reduceMul]; omega)]
    rw [setByte_fresh _ 5 x5 (by simp only [Nat.reducePow, Nat.reduceMul]; omega)]
    rw [setByte_fresh _ 6 x6 (by simp only [Nat.reducePow, Nat.reduceMul]; omega)]
    rw [setByte_fresh _ 7 x7 (by simp only [Nat.reducePow, Nat.reduceMul]; omega)]
    simp only [Nat.reducePow, Nat.reduceMul]
    omega


/-! ### varintExternalAdd_ / AddNoGrow / AddGrow -/

theorem width_loop' : ∀ (f v e : Nat), extLen v ≤ f → e + extLen v < 2 ^ 32 →
    extAdd_loop1 f (v, e) = .done (0, e + extLen v - 1) := by
  intro f
  induction f with
  | zero => intro v e h; have := extLen_pos v; omega
  | succ f ih =>
    intro v e hf he
    unfold extAdd_loop1
    simp only [Nat.reducePow]
    rw [extLen_eq] at hf he ⊢
    by_cases c : v < 256
    · have h0 : v / 256 = 0 := by omega
      simp only [h0, if_pos c, ne_eq, not_true_eq_false, if_false]
      rw [Nat.add_sub_cancel]
    · simp only [if_neg c] at hf he ⊢
      have h0 : v / 256 ≠ 0 := by omega
      rw [if_pos h0]
      have hp := extLen_pos (v / 256)
      rw [Nat.mod_eq_of_lt (by omega)]
      rw [ih (v / 256) (e + 1) (by omega) (by omega)]
      congr 2
      omega

theorem sx64_eq (v : Nat) (hv : v < 2 ^ 64) : sx 64 v = toI64 v := by
  unfold sx toI64
  rw [Nat.mod_eq_of_lt hv]

/-- what the add leaves in the slot: nothing, or the bytes of the new value (each once, none beyond) -/
def AddWrites (stores : List (Nat × Nat)) : Option (List Nat) → Prop
  | none => stores = []
  | some bs => Writes stores bs

/-- **`varintExternalAdd_(p, width, add, force)`** on a slot of `width` bytes (1..8) holding `stored`: return value and
    memory effect are the model's, for every amount in int64, both values of `force` and every fuel ≥ 8 -/
theorem extAdd_eq (p : Nat → Nat) (w : Nat) (h1 : 1 ≤ w) (h8 : w ≤ 8) (hb : ∀ i, i < w → p i < 256) (amount : Int)
    (force : Nat) (fuel : Nat) (hf : 8 ≤ fuel) :
    ∃ stores, extAdd fuel p w amount force =
        some ((External.add (ofLe ((List.range w).map p)) w amount (decide (force ≠ 0))).1, stores) ∧
      AddWrites stores (External.add (ofLe ((List.range w).map p)) w amount (decide (force ≠ 0))).2 := by
  unfold extAdd
  have hfun : (fun i => rdw p [] (0 + i)) = p := by funext i; simp [rdw]
  simp only [hfun, extGet_eq p w h1 h8 hb]
  generalize hst : ofLe ((List.range w).map p) = stored
  have hs : stored < 2 ^ 64 := by
    rw [← hst]
    have := ofLe_lt ((List.range w).map p) (by
      intro b hbm
      simp only [List.mem_map, List.mem_range] at hbm
      obtain ⟨i, hi, rfl⟩ := hbm
      exact hb i hi)
    simp only [List.length_map, List.length_range] at this
    exact Nat.lt_of_lt_of_le this (by
      calc 256 ^ w ≤ 256 ^ 8 := Nat.pow_le_pow_right (by omega) h8
        _ = 2 ^ 64 := by decide)
  rw [sx64_eq stored hs]
  unfold External.add
  simp only []
  generalize hS : toI64 stored + amount = S
  have hwrap : ((sx 64 (S % (2 ^ 64 : Int)).toNat) % (2 ^ 64 : Int)).toNat = toU64 S := by
    have hlt : (S % (2 ^ 64 : Int)).toNat < 2 ^ 64 := by omega
    unfold sx toU64
    rw [Nat.mod_eq_of_lt hlt]
    split <;> omega
  rw [hwrap]
  have hu : toU64 S < 2 ^ 64 := toU64_lt _
  by_cases hov : S < -(2 ^ 63 : Int) ∨ S > (2 ^ 63 : Int) - 1
  · have c : (if S < -(2 ^ 63 : Int) ∨ S > (2 ^ 63 : Int) - 1 then (1 : Int) else 0) ≠ 0 := by rw [if_pos hov]; decide
    rw [if_pos c, if_pos hov]
    exact ⟨[], rfl, rfl⟩
  · have c : ¬ ((if S < -(2 ^ 63 : Int) ∨ S > (2 ^ 63 : Int) - 1 then (1 : Int) else 0) ≠ 0) := by rw [if_neg hov]; decide
    rw [if_neg c, if_neg hov]
    have hl8 := extLen_le_8 hu
    have hl1 := extLen_pos (toU64 S)
    rw [width_loop' fuel (toU64 S) 1 (by omega) (by omega)]
    simp only [show 1 + extLen (toU64 S) - 1 = extLen (toU64 S) by omega]
    by_cases hg : extLen (toU64 S) > w ∧ ¬ (force ≠ 0)
    · have hg' : extLen (toU64 S) > w ∧ (!decide (force ≠ 0)) = true := by
        refine ⟨hg.1, ?_⟩
        have : ¬ (force ≠ 0) := hg.2
        simp [this]
      rw [if_pos hg, if_pos hg']
      exact ⟨[], rfl, rfl⟩
    · have hg' : ¬ (extLen (toU64 S) > w ∧ (!decide (force ≠ 0)) = true) := by
        intro h; apply hg; refine ⟨h.1, ?_⟩
        have := h.2
        simpa using this
      rw [if_neg hg, if_neg hg']
      obtain ⟨stores, hput, hwr⟩ := extPut_eq (toU64 S) fuel hu hf
      rw [hput]
      exact ⟨stores, rfl, hwr⟩

end Varint.Bridge.External
