import Varint.Gen.CDelta
import Varint.Model.Delta
import Varint.Lemmas.Delta
import Varint.Lemmas.Bytes
import Varint.Bridge.Loop
import Varint.Bridge.Tagged
import Varint.Bridge.Sizes
import Varint.Bridge.External
import Varint.Bridge.Split
import Varint.Bridge.RLE
/-
  Bridge: src/varintDelta.c — varintDeltaPut, varintDeltaGet, varintDeltaEncodeUnsigned, varintDeltaDecodeUnsigned as
  translated by tools/c2lean2.py from the CURRENT source (width loop, external put/get, zig-zag, pointer walk) equal the
  model Varint.Delta.* for ALL arrays of 64-bit values (the unsigned entry points are total: every difference wraps).
-/
namespace Varint.Bridge.Delta
open Varint Varint.Gen.C Varint.Bridge Varint.Bridge.External Varint.Bridge.Split

/-! ### composing memory effects -/

theorem applyStores_length (l : List Nat) (st : List (Nat × Nat)) : (applyStores l st).length = l.length := by
  induction st generalizing l with
  | nil => rfl
  | cons p st ih => simp only [applyStores, List.foldl_cons] at ih ⊢; rw [ih]; simp

theorem applyStores_append_left (l r : List Nat) (st : List (Nat × Nat)) (h : ∀ p ∈ st, p.1 < l.length) :
    applyStores (l ++ r) st = applyStores l st ++ r := by
  induction st generalizing l with
  | nil => rfl
  | cons p st ih =>
    simp only [applyStores, List.foldl_cons] at ih ⊢
    have hp := h p (by simp)
    rw [List.set_append_left _ _ hp]
    exact ih (l.set p.1 p.2) (fun q hq => by simpa using h q (by simp [hq]))

theorem applyStores_append_right (l r : List Nat) (st : List (Nat × Nat)) :
    applyStores (l ++ r) (shiftW l.length st) = l ++ applyStores r st := by
  induction st generalizing r with
  | nil => rfl
  | cons p st ih =>
    simp only [applyStores, shiftW, List.map_cons, List.foldl_cons] at ih ⊢
    rw [List.set_append_right _ _ (by omega), Nat.add_sub_cancel_left]
    exact ih (r.set p.1 p.2)

theorem applyStores_append (l : List Nat) (s1 s2 : List (Nat × Nat)) :
    applyStores l (s1 ++ s2) = applyStores (applyStores l s1) s2 := by
  simp [applyStores, List.foldl_append]

/-- two memory effects one after the other, the second at the offset where the first ends -/
theorem writes_append (s1 s2 : List (Nat × Nat)) (b1 b2 : List Nat) (h1 : Writes s1 b1) (h2 : Writes s2 b2) :
    Writes (s1 ++ shiftW b1.length s2) (b1 ++ b2) := by
  obtain ⟨a1, a2, a3, a4⟩ := h1
  obtain ⟨c1, c2, c3, c4⟩ := h2
  refine ⟨?_, ?_, ?_, ?_⟩
  · rw [List.length_append, ← List.replicate_append_replicate, applyStores_append,
      applyStores_append_left _ _ s1 (by simpa using a3), a1]
    have := applyStores_append_right b1 (List.replicate b2.length 0) s2
    rw [this, c1]
  · simp [shiftW, a2, c2]
  · intro p hp
    rcases List.mem_append.1 hp with h | h
    · have := a3 p h; simp; omega
    · simp only [shiftW, List.mem_map] at h
      obtain ⟨q, hq, rfl⟩ := h
      have := c3 q hq; simp; omega
  · rw [List.map_append, List.nodup_append]
    refine ⟨a4, ?_, ?_⟩
    · simp only [shiftW, List.map_map]
      have hinj : (Prod.fst ∘ fun p : Nat × Nat => (b1.length + p.1, p.2)) = (fun n => b1.length + n) ∘ Prod.fst := rfl
      rw [hinj, ← List.map_map]
      exact List.Pairwise.map _ (fun a b (hab : a ≠ b) => by omega) c4
    · intro x hx y hy
      simp only [List.mem_map] at hx hy
      obtain ⟨p, hp, rfl⟩ := hx
      obtain ⟨q, hq, rfl⟩ := hy
      simp only [shiftW, List.mem_map] at hq
      obtain ⟨r, hr, rfl⟩ := hq
      have := a3 p hp
      simp; omega


/-! ### varintDeltaPut / varintDeltaEncodeUnsigned -/

theorem widthPut : ∀ (f v e : Nat), extLen v ≤ f → e + extLen v < 2 ^ 32 →
    deltaPut_loop1 f (v, e) = .done (0, e + extLen v - 1) := by
  intro f
  induction f with
  | zero => intro v e h; have := extLen_pos v; omega
  | succ f ih =>
    intro v e hf he
    unfold deltaPut_loop1
    simp only [Nat.reducePow]
    rw [extLen_eq] at hf he ⊢
    by_cases c : v < 256
    · have h0 : v / 256 = 0 := by omega
      simp only [h0, if_pos c, ne_eq, not_true_eq_false, if_false]
      rw [Nat.add_sub_cancel]
    · simp only [if_neg c] at hf he ⊢
      have h0 : v / 256 ≠ 0 := by omega
      rw [if_pos h0]
      have hp := extLen_pos (v / 256)
      rw [Nat.mod_eq_of_lt (by omega)]
      rw [ih (v / 256) (e + 1) (by omega) (by omega)]
      congr 2
      omega

theorem widthEncU : ∀ (f v e : Nat), extLen v ≤ f → e + extLen v < 2 ^ 32 →
    deltaEncodeUnsigned_loop1 f (v, e) = .done (0, e + extLen v - 1) := by
  intro f
  induction f with
  | zero => intro v e h; have := extLen_pos v; omega
  | succ f ih =>
    intro v e hf he
    unfold deltaEncodeUnsigned_loop1
    simp only [Nat.reducePow]
    rw [extLen_eq] at hf he ⊢
    by_cases c : v < 256
    · have h0 : v / 256 = 0 := by omega
      simp only [h0, if_pos c, ne_eq, not_true_eq_false, if_false]
      rw [Nat.add_sub_cancel]
    · simp only [if_neg c] at hf he ⊢
      have h0 : v / 256 ≠ 0 := by omega
      rw [if_pos h0]
      have hp := extLen_pos (v / 256)
      rw [Nat.mod_eq_of_lt (by omega)]
      rw [ih (v / 256) (e + 1) (by omega) (by omega)]
      congr 2
      omega

theorem toU64_toI64 (u : Nat) (hu : u < 2 ^ 64) : ((toI64 u) % (2 ^ 64 : Int)).toNat = u := by
  unfold toI64
  rw [Nat.mod_eq_of_lt hu]
  split <;> omega

/-- a width byte followed by the external bytes: the model's `field` -/
theorem field_writes (z : Nat) (hz : z < 2 ^ 64) :
    Writes ((0, extLen z % 2 ^ 8) :: shiftW 1 (extPutFixedWidth z (extLen z))) (Delta.field z) := by
  have h8 := extLen_le_8 hz
  have h1 := extLen_pos z
  have e : extLen z % 2 ^ 8 = extLen z := by omega
  rw [e]
  exact writes_cons (extLen z) _ _ (extPutFixedWidth_eq z (extLen z) h1 h8)

/-- **`varintDeltaPut(p, delta)`** for every int64 delta (given as its 64-bit pattern `d`) and every fuel ≥ 8 -/
theorem deltaPut_eq (d fuel : Nat) (hd : d < 2 ^ 64) (hf : 8 ≤ fuel) :
    ∃ stores, deltaPut fuel (toI64 d) = some ((Delta.put d).length, stores) ∧ Writes stores (Delta.put d) := by
  unfold deltaPut Delta.put
  simp only []
  rw [Bridge.Sizes.deltaZigZag_eq d hd]
  have hz := Delta.zz_lt d hd
  have h8 := extLen_le_8 hz
  have h1 := extLen_pos (Delta.zz d)
  rw [widthPut fuel (Delta.zz d) 1 (by omega) (by omega)]
  simp only [show 1 + extLen (Delta.zz d) - 1 = extLen (Delta.zz d) by omega]
  refine ⟨_, ?_, field_writes (Delta.zz d) hz⟩
  rw [Delta.field_length]
  have : (1 + extLen (Delta.zz d)) % 2 ^ 32 = 1 + extLen (Delta.zz d) := by omega
  rw [this]
  rfl

theorem writes_length {st : List (Nat × Nat)} {bs : List Nat} (h : Writes st bs) : st.length = bs.length := h.2.1

/-- the element loop of `varintDeltaEncodeUnsigned` -/
theorem encodeU_loop (xs : List Nat) (hx : ∀ x ∈ xs, x < 2 ^ 64) (hn : xs.length < 2 ^ 60) :
    ∀ (rest : List Nat) (fuel i prev : Nat) (ws : List (Nat × Nat)) (bs : List Nat),
      xs.drop i = rest → i ≤ xs.length → prev < 2 ^ 64 → Writes ws bs → rest.length + 9 ≤ fuel →
      ∃ prev' ws', deltaEncodeUnsigned_loop2 (Bridge.Tagged.bufOf xs) xs.length fuel (i, bs.length, prev, ws) =
          .done (xs.length, bs.length + (Delta.deltas prev rest).length, prev', ws') ∧
        Writes ws' (bs ++ Delta.deltas prev rest) := by
  intro rest
  induction rest with
  | nil =>
    intro fuel i prev ws bs hd hi hp hw hf
    have hil : i = xs.length := by
      have := List.drop_eq_nil_iff.1 hd; omega
    subst hil
    obtain ⟨fuel, rfl⟩ : ∃ g, fuel = g + 1 := ⟨fuel - 1, by omega⟩
    refine ⟨prev, ws, ?_, by simpa [Delta.deltas] using hw⟩
    unfold deltaEncodeUnsigned_loop2
    simp [Delta.deltas]
  | cons x rest ih =>
    intro fuel i prev ws bs hd hi hp hw hf
    simp only [List.length_cons] at hf
    obtain ⟨fuel, rfl⟩ : ∃ g, fuel = g + 1 := ⟨fuel - 1, by omega⟩
    have hil : i < xs.length := by
      have : (xs.drop i).length = rest.length + 1 := by rw [hd]; rfl
      rw [List.length_drop] at this; omega
    have hxi : Bridge.Tagged.bufOf xs i = x := Bridge.RLE.bufOf_drop xs i x rest hd
    have hd' : xs.drop (i + 1) = rest := Bridge.RLE.drop_succ_of_drop xs i x rest hd
    have hxlt : x < 2 ^ 64 := hx x (by
      have : x ∈ xs.drop i := by rw [hd]; simp
      exact List.mem_of_mem_drop this)
    have hi1 : (i + 1) % 2 ^ 64 = i + 1 := Nat.mod_eq_of_lt (by omega)
    unfold deltaEncodeUnsigned_loop2
    simp only [if_pos hil, hxi]
    have hsub : (x + 2 ^ 64 - prev) % 2 ^ 64 = Delta.sub64 x prev := rfl
    have hs64 := Delta.sub64_lt x prev
    rw [hsub, Bridge.External.sx64_eq _ hs64]
    obtain ⟨st, hput, hwr⟩ := deltaPut_eq (Delta.sub64 x prev) fuel hs64 (by omega)
    rw [hput]
    simp only [hi1]
    have hcomb := writes_append ws st bs (Delta.put (Delta.sub64 x prev)) hw hwr
    obtain ⟨prev', ws', h, hw'⟩ := ih fuel (i + 1) x (ws ++ shiftW bs.length st)
      (bs ++ Delta.put (Delta.sub64 x prev)) hd' (by omega) hxlt hcomb (by omega)
    refine ⟨prev', ws', ?_, ?_⟩
    · rw [List.length_append] at h
      rw [h]
      simp [Delta.deltas, Nat.add_assoc]
    · simpa [Delta.deltas, List.append_assoc] using hw'

/-- **`varintDeltaEncodeUnsigned(output, values, count)`** for EVERY array of 64-bit values (count < 2^60) and every
    fuel ≥ count + 9: the C returns the length of the model's encoding, and the memory it leaves at
    output[0 … n-1] is the model's bytes, every index below n stored exactly once and nothing at or beyond n -/
theorem deltaEncodeUnsigned_eq (xs : List Nat) (hx : ∀ x ∈ xs, x < 2 ^ 64) (hn : xs.length < 2 ^ 60) (fuel : Nat)
    (hf : xs.length + 9 ≤ fuel) :
    ∃ stores, deltaEncodeUnsigned fuel (Bridge.Tagged.bufOf xs) xs.length = some ((Delta.encU xs).length, stores) ∧
      Writes stores (Delta.encU xs) := by
  unfold deltaEncodeUnsigned
  cases xs with
  | nil => exact ⟨[], by simp [Delta.encU], by simp [Delta.encU, Writes, applyStores]⟩
  | cons b t =>
    have hne : ¬ ((b :: t).length = 0) := by simp
    rw [if_neg hne]
    have h0 : Bridge.Tagged.bufOf (b :: t) 0 = b := rfl
    have hb : b < 2 ^ 64 := hx b (by simp)
    have h8 := extLen_le_8 hb
    have h1 := extLen_pos b
    simp only [h0]
    rw [widthEncU fuel b 1 (by omega) (by omega)]
    simp only [show 1 + extLen b - 1 = extLen b by omega]
    have hfw := field_writes b hb
    have hfl : (Delta.field b).length = 1 + extLen b := Delta.field_length b
    obtain ⟨prev', ws', h, hw'⟩ := encodeU_loop (b :: t) hx hn t fuel 1 b _ (Delta.field b) (by simp) (by simp) hb hfw
      (by simp at hf ⊢; omega)
    rw [hfl] at h
    simp only [List.singleton_append]
    rw [h]
    simp only []
    refine ⟨ws', ?_, by simpa [Delta.encU] using hw'⟩
    have hle := Delta.encU_length_le (b :: t) hx
    have hlen : (Delta.encU (b :: t)).length = 1 + extLen b + (Delta.deltas b t).length := by
      simp [Delta.encU, hfl]
    rw [hlen]
    have hm : Delta.maxSize (b :: t).length ≤ 9 * (b :: t).length := by
      unfold Delta.maxSize; simp; omega
    have : 1 + extLen b + (Delta.deltas b t).length < 2 ^ 64 := by
      rw [← hlen]; simp only [List.length_cons] at hle hm hn ⊢; omega
    congr 2
    omega


/-! ### varintDeltaGet / varintDeltaDecodeUnsigned -/

/-- reading one `[w][w bytes]` field through the C: width byte, external load, zig-zag decode -/
theorem deltaGet_eq (bs : List Nat) (hb : ∀ b ∈ bs, b < 256) (z : Nat) (rest : List Nat)
    (h : Delta.getField bs = some (z, rest)) :
    ∃ n, deltaGet (Bridge.Tagged.bufOf bs) = (n, some (Delta.unzz z)) ∧ rest = bs.drop n ∧ n ≤ 9 ∧ z < 2 ^ 64 := by
  cases bs with
  | nil => simp [Delta.getField] at h
  | cons w t =>
    unfold Delta.getField at h
    simp only [] at h
    by_cases c : 1 ≤ w ∧ w ≤ 8
    · rw [if_pos c] at h
      cases ht : takeExact w t with
      | none => rw [ht] at h; simp at h
      | some pl =>
        rw [ht] at h
        simp only [Option.some.injEq, Prod.mk.injEq] at h
        obtain ⟨hz, hrest⟩ := h
        have hlen : w ≤ t.length ∧ pl = t.take w := by
          unfold takeExact at ht
          split at ht
          · exact ⟨by assumption, by simpa using ht.symm⟩
          · simp at ht
        have hp0 : Bridge.Tagged.bufOf (w :: t) 0 = w := rfl
        have hrb : ∀ i, i < w → Bridge.Tagged.bufOf (w :: t) (1 + i) < 256 :=
          fun i _ => Bridge.Tagged.bufOf_lt (w :: t) hb (1 + i)
        have hpl : pl = (List.range w).map (fun i => Bridge.Tagged.bufOf (w :: t) (1 + i)) := by
          rw [hlen.2]
          apply List.ext_getElem
          · simp; omega
          · intro i h1' h2'
            simp only [List.getElem_take, List.getElem_map, List.getElem_range]
            unfold Bridge.Tagged.bufOf
            rw [show 1 + i = i + 1 by omega]
            simp only [List.getD_eq_getElem?_getD, List.getElem?_cons_succ]
            rw [List.getElem?_eq_getElem (by simp at h1'; omega)]
            rfl
        have hzlt : z < 2 ^ 64 := by
          rw [← hz, hpl]
          have := ofLe_lt ((List.range w).map (fun i => Bridge.Tagged.bufOf (w :: t) (1 + i))) (by
            intro b hbm
            simp only [List.mem_map, List.mem_range] at hbm
            obtain ⟨i, hi, rfl⟩ := hbm
            exact hrb i hi)
          simp only [List.length_map, List.length_range] at this
          exact Nat.lt_of_lt_of_le this (by
            calc 256 ^ w ≤ 256 ^ 8 := Nat.pow_le_pow_right (by omega) c.2
              _ = 2 ^ 64 := by decide)
        refine ⟨1 + w, ?_, by rw [← hrest]; simp [Nat.add_comm], by omega, hzlt⟩
        unfold deltaGet
        simp only [hp0]
        rw [extGet_eq _ w c.1 c.2 hrb, ← hpl, hz, Bridge.Sizes.deltaZigZagDecode_eq z hzlt,
          toU64_toI64 _ (Delta.unzz_lt z hzlt)]
        have : (1 + w) % 2 ^ 32 = 1 + w := by omega
        rw [this]
    · rw [if_neg c] at h; simp at h

/-- the element loop of `varintDeltaDecodeUnsigned` follows the model -/
theorem decodeU_loop (bs : List Nat) (hb : ∀ b ∈ bs, b < 256) (count : Nat) (hc : count < 2 ^ 63) :
    ∀ (n fuel i p cur : Nat) (ws : List (Nat × Nat)) (vs tail : List Nat), i + n = count → cur < 2 ^ 64 →
      n + 1 ≤ fuel → p ≤ bs.length →
      Delta.decDeltas n cur (bs.drop p) = some (vs, tail) →
      ∃ cur', deltaDecodeUnsigned_loop1 (Bridge.Tagged.bufOf bs) count fuel (i, p, cur, ws) =
          .done (count, bs.length - tail.length, cur', ws ++ storesFrom i vs) ∧ tail.length ≤ bs.length - p := by
  intro n
  induction n with
  | zero =>
    intro fuel i p cur ws vs tail hi hcur hf hp h
    obtain ⟨fuel, rfl⟩ : ∃ g, fuel = g + 1 := ⟨fuel - 1, by omega⟩
    simp only [Delta.decDeltas, Option.some.injEq, Prod.mk.injEq] at h
    obtain ⟨rfl, rfl⟩ := h
    refine ⟨cur, ?_, by simp⟩
    unfold deltaDecodeUnsigned_loop1
    have : ¬ i < count := by omega
    rw [if_neg this]
    have hl : bs.length - (bs.drop p).length = p := by rw [List.length_drop]; omega
    rw [hl]
    simp
    omega
  | succ n ih =>
    intro fuel i p cur ws vs tail hi hcur hf hp h
    obtain ⟨fuel, rfl⟩ : ∃ g, fuel = g + 1 := ⟨fuel - 1, by omega⟩
    unfold Delta.decDeltas at h
    cases hg : Delta.getField (bs.drop p) with
    | none => rw [hg] at h; simp at h
    | some r =>
      obtain ⟨z, rest⟩ := r
      rw [hg] at h
      simp only [] at h
      obtain ⟨k, hget, hrest, hk9, hz⟩ := deltaGet_eq (bs.drop p) (Bridge.RLE.mem_drop_lt bs hb p) z rest hg
      cases hrec : Delta.decDeltas n ((cur + Delta.unzz z) % 2 ^ 64) rest with
      | none => rw [hrec] at h; simp at h
      | some q =>
        obtain ⟨vs', tail'⟩ := q
        rw [hrec] at h
        simp only [Option.some.injEq, Prod.mk.injEq] at h
        obtain ⟨rfl, rfl⟩ := h
        unfold deltaDecodeUnsigned_loop1
        have hlt : i < count := by omega
        rw [if_pos hlt, Bridge.RLE.bufOf_shift, hget]
        simp only [Option.getD_some]
        have hu := Delta.unzz_lt z hz
        rw [Bridge.External.sx64_eq _ hu, toU64_toI64 _ hu]
        have hi1 : (i + 1) % 2 ^ 64 = i + 1 := Nat.mod_eq_of_lt (by omega)
        simp only [hi1]
        have hrest' : rest = bs.drop (p + k) := by rw [hrest, List.drop_drop]
        rw [hrest'] at hrec
        -- the field lies inside the buffer: otherwise the model could not have read it
        have hpk : p + k ≤ bs.length := by
          have hl : (bs.drop p).length = bs.length - p := List.length_drop
          cases hbd : bs.drop p with
          | nil => rw [hbd] at hg; simp [Delta.getField] at hg
          | cons w t =>
            rw [hbd] at hg hget hl
            unfold Delta.getField at hg
            simp only [] at hg
            by_cases c : 1 ≤ w ∧ w ≤ 8
            · rw [if_pos c] at hg
              cases ht : takeExact w t with
              | none => rw [ht] at hg; simp at hg
              | some pl =>
                have hwl : w ≤ t.length := by
                  unfold takeExact at ht
                  split at ht
                  · assumption
                  · simp at ht
                have hk : k = 1 + w := by
                  unfold deltaGet at hget
                  simp only [Prod.mk.injEq] at hget
                  have h0 : Bridge.Tagged.bufOf (w :: t) 0 = w := rfl
                  rw [h0] at hget
                  omega
                simp only [List.length_cons] at hl
                omega
            · rw [if_neg c] at hg; simp at hg
        obtain ⟨cur', hl, htl⟩ := ih fuel (i + 1) (p + k) ((cur + Delta.unzz z) % 2 ^ 64)
          (ws ++ [(i, (cur + Delta.unzz z) % 2 ^ 64)]) vs' tail' (by omega) (Nat.mod_lt _ (by omega)) (by omega)
          hpk hrec
        refine ⟨cur', ?_, by omega⟩
        rw [hl]
        simp [List.append_assoc]

/-- **`varintDeltaDecodeUnsigned(input, count, output)`** on any readable bytes, count < 2^63, every fuel ≥ count + 1:
    the C stores the model's values at output[0], output[1], … (each once, in order) and returns the number of bytes the
    model consumed -/
theorem deltaDecodeUnsigned_eq (bs : List Nat) (hb : ∀ b ∈ bs, b < 256) (hbl : bs.length < 2 ^ 63) (count : Nat)
    (hc : count < 2 ^ 63) (vs : List Nat) (used : Nat) (h : Delta.decU count bs = some (vs, used)) (fuel : Nat) (hf : count + 1 ≤ fuel) :
    deltaDecodeUnsigned fuel (Bridge.Tagged.bufOf bs) count = some (used, storesFrom 0 vs) := by
  unfold deltaDecodeUnsigned
  cases count with
  | zero =>
    simp only [Delta.decU, Option.some.injEq, Prod.mk.injEq] at h
    obtain ⟨rfl, rfl⟩ := h
    simp
  | succ n =>
    have hne : ¬ (n + 1 = 0) := by omega
    rw [if_neg hne]
    unfold Delta.decU at h
    cases hg : Delta.getField bs with
    | none => rw [hg] at h; simp at h
    | some r =>
      obtain ⟨b, rest⟩ := r
      rw [hg] at h
      simp only [] at h
      cases hrec : Delta.decDeltas n b rest with
      | none => rw [hrec] at h; simp at h
      | some q =>
        obtain ⟨vs', tail⟩ := q
        rw [hrec] at h
        simp only [Option.some.injEq, Prod.mk.injEq] at h
        obtain ⟨rfl, rfl⟩ := h
        -- the base field, read directly (no zig-zag)
        cases bs with
        | nil => simp [Delta.getField] at hg
        | cons w t =>
          unfold Delta.getField at hg
          simp only [] at hg
          by_cases c : 1 ≤ w ∧ w ≤ 8
          · rw [if_pos c] at hg
            cases ht : takeExact w t with
            | none => rw [ht] at hg; simp at hg
            | some pl =>
              rw [ht] at hg
              simp only [Option.some.injEq, Prod.mk.injEq] at hg
              obtain ⟨hbv, hrest⟩ := hg
              have hlen : w ≤ t.length ∧ pl = t.take w := by
                unfold takeExact at ht
                split at ht
                · exact ⟨by assumption, by simpa using ht.symm⟩
                · simp at ht
              have hp0 : Bridge.Tagged.bufOf (w :: t) 0 = w := rfl
              have hrb : ∀ i, i < w → Bridge.Tagged.bufOf (w :: t) (1 + i) < 256 :=
                fun i _ => Bridge.Tagged.bufOf_lt (w :: t) hb (1 + i)
              have hpl : pl = (List.range w).map (fun i => Bridge.Tagged.bufOf (w :: t) (1 + i)) := by
                rw [hlen.2]
                apply List.ext_getElem
                · simp; omega
                · intro i h1' h2'
                  simp only [List.getElem_take, List.getElem_map, List.getElem_range]
                  unfold Bridge.Tagged.bufOf
                  rw [show 1 + i = i + 1 by omega]
                  simp only [List.getD_eq_getElem?_getD, List.getElem?_cons_succ]
                  rw [List.getElem?_eq_getElem (by simp at h1'; omega)]
                  rfl
              have hblt : b < 2 ^ 64 := by
                rw [← hbv, hpl]
                have := ofLe_lt ((List.range w).map (fun i => Bridge.Tagged.bufOf (w :: t) (1 + i))) (by
                  intro x hxm
                  simp only [List.mem_map, List.mem_range] at hxm
                  obtain ⟨i, hi, rfl⟩ := hxm
                  exact hrb i hi)
                simp only [List.length_map, List.length_range] at this
                exact Nat.lt_of_lt_of_le this (by
                  calc 256 ^ w ≤ 256 ^ 8 := Nat.pow_le_pow_right (by omega) c.2
                    _ = 2 ^ 64 := by decide)
              simp only [hp0]
              rw [extGet_eq _ w c.1 c.2 hrb, ← hpl, hbv]
              have hrest' : rest = (w :: t).drop (1 + w) := by
                rw [← hrest]; simp [Nat.add_comm]
              rw [hrest'] at hrec
              obtain ⟨cur', hl, htl⟩ := decodeU_loop (w :: t) hb (n + 1) hc n fuel 1 (1 + w) b [(0, b)] vs' tail
                (by omega) hblt (by omega) (by simp; omega) hrec
              rw [hl]
              simp only []
              have hu : ((((((w :: t).length - tail.length : Nat) : Int) - ((0 : Nat) : Int))) % (2 ^ 64 : Int)).toNat
                  = (w :: t).length - tail.length := by
                have := List.length_cons (a := w) (as := t)
                simp only [List.length_cons] at hbl
                omega
              rw [hu]
              simp
          · rw [if_neg c] at hg; simp at hg


/-! ### the encoder's bytes are bytes -/

theorem field_lt (u : Nat) (hu : u < 2 ^ 64) : ∀ b ∈ Delta.field u, b < 256 := by
  intro b hb
  unfold Delta.field at hb
  rcases List.mem_cons.1 hb with rfl | h
  · have := extLen_le_8 hu; omega
  · exact leBytes_lt _ _ b h

theorem deltas_lt (xs : List Nat) (prev : Nat) : ∀ b ∈ Delta.deltas prev xs, b < 256 := by
  induction xs generalizing prev with
  | nil => intro b hb; simp [Delta.deltas] at hb
  | cons x xs ih =>
    intro b hb
    unfold Delta.deltas at hb
    rcases List.mem_append.1 hb with h | h
    · exact field_lt _ (Delta.zz_lt _ (Delta.sub64_lt x prev)) b h
    · exact ih x b h

theorem encU_lt (xs : List Nat) (hx : ∀ x ∈ xs, x < 2 ^ 64) : ∀ b ∈ Delta.encU xs, b < 256 := by
  cases xs with
  | nil => intro b hb; simp [Delta.encU] at hb
  | cons x xs =>
    intro b hb
    unfold Delta.encU at hb
    rcases List.mem_append.1 hb with h | h
    · exact field_lt x (hx x (by simp)) b h
    · exact deltas_lt xs x b h


/-! ### the signed entry points: varintDeltaEncode / varintDeltaDecode

C's `values[i] - prev` is a signed subtraction: it is defined (and translated as the mathematical difference) exactly
when the difference is representable — the property's own premise for the signed codec. -/

theorem widthEncS : ∀ (f v e : Nat), extLen v ≤ f → e + extLen v < 2 ^ 32 →
    deltaEncode_loop1 f (v, e) = .done (0, e + extLen v - 1) := by
  intro f
  induction f with
  | zero => intro v e h; have := extLen_pos v; omega
  | succ f ih =>
    intro v e hf he
    unfold deltaEncode_loop1
    simp only [Nat.reducePow]
    rw [extLen_eq] at hf he ⊢
    by_cases c : v < 256
    · have h0 : v / 256 = 0 := by omega
      simp only [h0, if_pos c, ne_eq, not_true_eq_false, if_false]
      rw [Nat.add_sub_cancel]
    · simp only [if_neg c] at hf he ⊢
      have h0 : v / 256 ≠ 0 := by omega
      rw [if_pos h0]
      have hp := extLen_pos (v / 256)
      rw [Nat.mod_eq_of_lt (by omega)]
      rw [ih (v / 256) (e + 1) (by omega) (by omega)]
      congr 2
      omega

/-- every difference of neighbours (as int64) is representable in int64 -/
def DiffsOK : Nat → List Nat → Prop
  | _, [] => True
  | prev, x :: xs => (-(2 ^ 63 : Int) ≤ toI64 x - toI64 prev ∧ toI64 x - toI64 prev < (2 ^ 63 : Int)) ∧ DiffsOK x xs

theorem toI64_sub64 (x p : Nat) (hx : x < 2 ^ 64) (hp : p < 2 ^ 64)
    (h : -(2 ^ 63 : Int) ≤ toI64 x - toI64 p ∧ toI64 x - toI64 p < (2 ^ 63 : Int)) :
    toI64 x - toI64 p = toI64 (Delta.sub64 x p) := by
  unfold toI64 Delta.sub64 at *
  rw [Nat.mod_eq_of_lt hx, Nat.mod_eq_of_lt hp] at *
  have hm : (x + 2 ^ 64 - p) % 2 ^ 64 % 2 ^ 64 = (x + 2 ^ 64 - p) % 2 ^ 64 := Nat.mod_mod _ _
  rw [hm]
  split at h <;> split at h <;> split <;> omega

theorem encodeS_loop (xs : List Nat) (hx : ∀ x ∈ xs, x < 2 ^ 64) (hn : xs.length < 2 ^ 60) :
    ∀ (rest : List Nat) (fuel i prev : Nat) (ws : List (Nat × Nat)) (bs : List Nat),
      xs.drop i = rest → i ≤ xs.length → prev < 2 ^ 64 → DiffsOK prev rest → Writes ws bs → rest.length + 9 ≤ fuel →
      ∃ prev' ws', deltaEncode_loop2 (Bridge.Tagged.bufOf xs) xs.length fuel (i, bs.length, toI64 prev, ws) =
          .done (xs.length, bs.length + (Delta.deltas prev rest).length, prev', ws') ∧
        Writes ws' (bs ++ Delta.deltas prev rest) := by
  intro rest
  induction rest with
  | nil =>
    intro fuel i prev ws bs hd hi hp _ hw hf
    have hil : i = xs.length := by
      have := List.drop_eq_nil_iff.1 hd; omega
    subst hil
    obtain ⟨fuel, rfl⟩ : ∃ g, fuel = g + 1 := ⟨fuel - 1, by omega⟩
    refine ⟨toI64 prev, ws, ?_, by simpa [Delta.deltas] using hw⟩
    unfold deltaEncode_loop2
    simp [Delta.deltas]
  | cons x rest ih =>
    intro fuel i prev ws bs hd hi hp hok hw hf
    simp only [List.length_cons] at hf
    obtain ⟨fuel, rfl⟩ : ∃ g, fuel = g + 1 := ⟨fuel - 1, by omega⟩
    have hil : i < xs.length := by
      have : (xs.drop i).length = rest.length + 1 := by rw [hd]; rfl
      rw [List.length_drop] at this; omega
    have hxi : Bridge.Tagged.bufOf xs i = x := Bridge.RLE.bufOf_drop xs i x rest hd
    have hd' : xs.drop (i + 1) = rest := Bridge.RLE.drop_succ_of_drop xs i x rest hd
    have hxlt : x < 2 ^ 64 := hx x (by
      have : x ∈ xs.drop i := by rw [hd]; simp
      exact List.mem_of_mem_drop this)
    have hi1 : (i + 1) % 2 ^ 64 = i + 1 := Nat.mod_eq_of_lt (by omega)
    unfold deltaEncode_loop2
    simp only [if_pos hil, hxi]
    rw [Bridge.External.sx64_eq x hxlt, toI64_sub64 x prev hxlt hp hok.1]
    have hs64 := Delta.sub64_lt x prev
    obtain ⟨st, hput, hwr⟩ := deltaPut_eq (Delta.sub64 x prev) fuel hs64 (by omega)
    rw [hput]
    simp only [hi1]
    have hcomb := writes_append ws st bs (Delta.put (Delta.sub64 x prev)) hw hwr
    obtain ⟨prev', ws', h, hw'⟩ := ih fuel (i + 1) x (ws ++ shiftW bs.length st)
      (bs ++ Delta.put (Delta.sub64 x prev)) hd' (by omega) hxlt hok.2 hcomb (by omega)
    refine ⟨prev', ws', ?_, ?_⟩
    · rw [List.length_append] at h
      rw [h]
      simp [Delta.deltas, Nat.add_assoc]
    · simpa [Delta.deltas, List.append_assoc] using hw'

/-- **`varintDeltaEncode(output, values, count)`** (signed) for every array of int64 patterns whose neighbouring
    differences are representable (the codec's documented domain), count < 2^60, every fuel ≥ count + 9 -/
theorem deltaEncode_eq (xs : List Nat) (hx : ∀ x ∈ xs, x < 2 ^ 64) (hn : xs.length < 2 ^ 60)
    (hok : ∀ b t, xs = b :: t → DiffsOK b t) (fuel : Nat) (hf : xs.length + 9 ≤ fuel) :
    ∃ stores, deltaEncode fuel (Bridge.Tagged.bufOf xs) xs.length = some ((Delta.encS xs).length, stores) ∧
      Writes stores (Delta.encS xs) := by
  unfold deltaEncode
  cases xs with
  | nil => exact ⟨[], by simp [Delta.encS], by simp [Delta.encS, Writes, applyStores]⟩
  | cons b t =>
    have hne : ¬ ((b :: t).length = 0) := by simp
    rw [if_neg hne]
    have h0 : Bridge.Tagged.bufOf (b :: t) 0 = b := rfl
    have hb : b < 2 ^ 64 := hx b (by simp)
    simp only [h0]
    rw [Bridge.External.sx64_eq b hb, Bridge.Sizes.deltaZigZag_eq b hb]
    have hz := Delta.zz_lt b hb
    have h8 := extLen_le_8 hz
    have h1 := extLen_pos (Delta.zz b)
    rw [widthEncS fuel (Delta.zz b) 1 (by omega) (by omega)]
    simp only [show 1 + extLen (Delta.zz b) - 1 = extLen (Delta.zz b) by omega]
    have hfw := field_writes (Delta.zz b) hz
    have hfl : (Delta.field (Delta.zz b)).length = 1 + extLen (Delta.zz b) := Delta.field_length _
    obtain ⟨prev', ws', h, hw'⟩ := encodeS_loop (b :: t) hx hn t fuel 1 b _ (Delta.field (Delta.zz b)) (by simp) (by simp)
      hb (hok b t rfl) hfw (by simp at hf ⊢; omega)
    rw [hfl] at h
    simp only [List.singleton_append]
    rw [h]
    simp only []
    refine ⟨ws', ?_, by simpa [Delta.encS] using hw'⟩
    have hle := Delta.encS_length_le (b :: t) hx
    have hlen : (Delta.encS (b :: t)).length = 1 + extLen (Delta.zz b) + (Delta.deltas b t).length := by
      simp [Delta.encS, hfl]
    rw [hlen]
    have hm : Delta.maxSize (b :: t).length ≤ 9 * (b :: t).length := by
      unfold Delta.maxSize; simp; omega
    have : 1 + extLen (Delta.zz b) + (Delta.deltas b t).length < 2 ^ 64 := by
      rw [← hlen]; simp only [List.length_cons] at hle hm hn ⊢; omega
    congr 2
    omega


/-- the element loop of the signed decoder: the running value (an `int64_t`, mathematically) keeps the model's pattern
    modulo 2^64 -/
theorem decodeS_loop (bs : List Nat) (hb : ∀ b ∈ bs, b < 256) (count : Nat) (hc : count < 2 ^ 63) :
    ∀ (n fuel i p cur : Nat) (curI : Int) (ws : List (Nat × Nat)) (vs tail : List Nat), i + n = count →
      (curI % (2 ^ 64 : Int)).toNat = cur → cur < 2 ^ 64 → n + 1 ≤ fuel → p ≤ bs.length →
      Delta.decDeltas n cur (bs.drop p) = some (vs, tail) →
      ∃ cur', deltaDecode_loop1 (Bridge.Tagged.bufOf bs) count fuel (i, p, curI, ws) =
          .done (count, bs.length - tail.length, cur', ws ++ storesFrom i vs) ∧ tail.length ≤ bs.length - p := by
  intro n
  induction n with
  | zero =>
    intro fuel i p cur curI ws vs tail hi hci hcur hf hp h
    obtain ⟨fuel, rfl⟩ : ∃ g, fuel = g + 1 := ⟨fuel - 1, by omega⟩
    simp only [Delta.decDeltas, Option.some.injEq, Prod.mk.injEq] at h
    obtain ⟨rfl, rfl⟩ := h
    refine ⟨curI, ?_, by simp⟩
    unfold deltaDecode_loop1
    have : ¬ i < count := by omega
    rw [if_neg this]
    have hl : bs.length - (bs.drop p).length = p := by rw [List.length_drop]; omega
    rw [hl]
    simp
    omega
  | succ n ih =>
    intro fuel i p cur curI ws vs tail hi hci hcur hf hp h
    obtain ⟨fuel, rfl⟩ : ∃ g, fuel = g + 1 := ⟨fuel - 1, by omega⟩
    unfold Delta.decDeltas at h
    cases hg : Delta.getField (bs.drop p) with
    | none => rw [hg] at h; simp at h
    | some r =>
      obtain ⟨z, rest⟩ := r
      rw [hg] at h
      simp only [] at h
      obtain ⟨k, hget, hrest, hk9, hz⟩ := deltaGet_eq (bs.drop p) (Bridge.RLE.mem_drop_lt bs hb p) z rest hg
      cases hrec : Delta.decDeltas n ((cur + Delta.unzz z) % 2 ^ 64) rest with
      | none => rw [hrec] at h; simp at h
      | some q =>
        obtain ⟨vs', tail'⟩ := q
        rw [hrec] at h
        simp only [Option.some.injEq, Prod.mk.injEq] at h
        obtain ⟨rfl, rfl⟩ := h
        unfold deltaDecode_loop1
        have hlt : i < count := by omega
        rw [if_pos hlt, Bridge.RLE.bufOf_shift, hget]
        simp only [Option.getD_some]
        have hu := Delta.unzz_lt z hz
        rw [Bridge.External.sx64_eq _ hu]
        have hi1 : (i + 1) % 2 ^ 64 = i + 1 := Nat.mod_eq_of_lt (by omega)
        simp only [hi1]
        have hrest' : rest = bs.drop (p + k) := by rw [hrest, List.drop_drop]
        rw [hrest'] at hrec
        have hpk : p + k ≤ bs.length := by
          have hl : (bs.drop p).length = bs.length - p := List.length_drop
          cases hbd : bs.drop p with
          | nil => rw [hbd] at hg; simp [Delta.getField] at hg
          | cons w t =>
            rw [hbd] at hg hget hl
            unfold Delta.getField at hg
            simp only [] at hg
            by_cases c : 1 ≤ w ∧ w ≤ 8
            · rw [if_pos c] at hg
              cases ht : takeExact w t with
              | none => rw [ht] at hg; simp at hg
              | some pl =>
                have hwl : w ≤ t.length := by
                  unfold takeExact at ht
                  split at ht
                  · assumption
                  · simp at ht
                have hk : k = 1 + w := by
                  unfold deltaGet at hget
                  simp only [Prod.mk.injEq] at hget
                  have h0 : Bridge.Tagged.bufOf (w :: t) 0 = w := rfl
                  rw [h0] at hget
                  omega
                simp only [List.length_cons] at hl
                omega
            · rw [if_neg c] at hg; simp at hg
        -- the new running value keeps the pattern
        have hpat : ((curI + toI64 (Delta.unzz z)) % (2 ^ 64 : Int)).toNat = (cur + Delta.unzz z) % 2 ^ 64 := by
          have h1 := toU64_toI64 (Delta.unzz z) hu
          omega
        obtain ⟨cur', hl, htl⟩ := ih fuel (i + 1) (p + k) ((cur + Delta.unzz z) % 2 ^ 64)
          (curI + toI64 (Delta.unzz z)) (ws ++ [(i, (cur + Delta.unzz z) % 2 ^ 64)]) vs' tail' (by omega) hpat
          (Nat.mod_lt _ (by omega)) (by omega) hpk hrec
        refine ⟨cur', ?_, by omega⟩
        rw [hpat, hl]
        simp [List.append_assoc]


/-- **`varintDeltaDecode(input, count, output)`** (signed) on any readable bytes, count < 2^63, every fuel ≥ count + 1:
    the C stores the model's values at output[0], output[1], … (each once, in order) and returns the number of bytes the
    model consumed -/
theorem deltaDecode_eq (bs : List Nat) (hb : ∀ b ∈ bs, b < 256) (hbl : bs.length < 2 ^ 63) (count : Nat)
    (hc : count < 2 ^ 63) (vs : List Nat) (used : Nat) (h : Delta.decS count bs = some (vs, used)) (fuel : Nat) (hf : count + 1 ≤ fuel) :
    deltaDecode fuel (Bridge.Tagged.bufOf bs) count = some (used, storesFrom 0 vs) := by
  unfold deltaDecode
  cases count with
  | zero =>
    simp only [Delta.decS, Option.some.injEq, Prod.mk.injEq] at h
    obtain ⟨rfl, rfl⟩ := h
    simp
  | succ n =>
    have hne : ¬ (n + 1 = 0) := by omega
    rw [if_neg hne]
    unfold Delta.decS at h
    cases hg : Delta.getField bs with
    | none => rw [hg] at h; simp at h
    | some r =>
      obtain ⟨b, rest⟩ := r
      rw [hg] at h
      simp only [] at h
      cases hrec : Delta.decDeltas n (Delta.unzz b) rest with
      | none => rw [hrec] at h; simp at h
      | some q =>
        obtain ⟨vs', tail⟩ := q
        rw [hrec] at h
        simp only [Option.some.injEq, Prod.mk.injEq] at h
        obtain ⟨rfl, rfl⟩ := h
        -- the base field, read directly (no zig-zag)
        cases bs with
        | nil => simp [Delta.getField] at hg
        | cons w t =>
          unfold Delta.getField at hg
          simp only [] at hg
          by_cases c : 1 ≤ w ∧ w ≤ 8
          · rw [if_pos c] at hg
            cases ht : takeExact w t with
            | none => rw [ht] at hg; simp at hg
            | some pl =>
              rw [ht] at hg
              simp only [Option.some.injEq, Prod.mk.injEq] at hg
              obtain ⟨hbv, hrest⟩ := hg
              have hlen : w ≤ t.length ∧ pl = t.take w := by
                unfold takeExact at ht
                split at ht
                · exact ⟨by assumption, by simpa using ht.symm⟩
                · simp at ht
              have hp0 : Bridge.Tagged.bufOf (w :: t) 0 = w := rfl
              have hrb : ∀ i, i < w → Bridge.Tagged.bufOf (w :: t) (1 + i) < 256 :=
                fun i _ => Bridge.Tagged.bufOf_lt (w :: t) hb (1 + i)
              have hpl : pl = (List.range w).map (fun i => Bridge.Tagged.bufOf (w :: t) (1 + i)) := by
                rw [hlen.2]
                apply List.ext_getElem
                · simp; omega
                · intro i h1' h2'
                  simp only [List.getElem_take, List.getElem_map, List.getElem_range]
                  unfold Bridge.Tagged.bufOf
                  rw [show 1 + i = i + 1 by omega]
                  simp only [List.getD_eq_getElem?_getD, List.getElem?_cons_succ]
                  rw [List.getElem?_eq_getElem (by simp at h1'; omega)]
                  rfl
              have hblt : b < 2 ^ 64 := by
                rw [← hbv, hpl]
                have := ofLe_lt ((List.range w).map (fun i => Bridge.Tagged.bufOf (w :: t) (1 + i))) (by
                  intro x hxm
                  simp only [List.mem_map, List.mem_range] at hxm
                  obtain ⟨i, hi, rfl⟩ := hxm
                  exact hrb i hi)
                simp only [List.length_map, List.length_range] at this
                exact Nat.lt_of_lt_of_le this (by
                  calc 256 ^ w ≤ 256 ^ 8 := Nat.pow_le_pow_right (by omega) c.2
                    _ = 2 ^ 64 := by decide)
              simp only [hp0]
              rw [extGet_eq _ w c.1 c.2 hrb, ← hpl, hbv, Bridge.Sizes.deltaZigZagDecode_eq b hblt,
                toU64_toI64 _ (Delta.unzz_lt b hblt)]
              have hrest' : rest = (w :: t).drop (1 + w) := by
                rw [← hrest]; simp [Nat.add_comm]
              rw [hrest'] at hrec
              obtain ⟨cur', hl, htl⟩ := decodeS_loop (w :: t) hb (n + 1) hc n fuel 1 (1 + w) (Delta.unzz b)
                (toI64 (Delta.unzz b)) [(0, Delta.unzz b)] vs' tail
                (by omega) (toU64_toI64 _ (Delta.unzz_lt b hblt)) (Delta.unzz_lt b hblt) (by omega) (by simp; omega) hrec
              rw [hl]
              simp only []
              have hu : ((((((w :: t).length - tail.length : Nat) : Int) - ((0 : Nat) : Int))) % (2 ^ 64 : Int)).toNat
                  = (w :: t).length - tail.length := by
                have := List.length_cons (a := w) (as := t)
                simp only [List.length_cons] at hbl
                omega
              rw [hu]
              simp
          · rw [if_neg c] at hg; simp at hg




theorem encS_lt (xs : List Nat) (hx : ∀ x ∈ xs, x < 2 ^ 64) : ∀ b ∈ Delta.encS xs, b < 256 := by
  cases xs with
  | nil => intro b hb; simp [Delta.encS] at hb
  | cons x xs =>
    intro b hb
    unfold Delta.encS at hb
    rcases List.mem_append.1 hb with h | h
    · exact field_lt _ (Delta.zz_lt x (hx x (by simp))) b h
    · exact deltas_lt xs x b h

end Varint.Bridge.Delta
