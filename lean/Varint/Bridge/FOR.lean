import Varint.Gen.CFOR
import Varint.Model.FOR
import Varint.Lemmas.Bytes
import Varint.Bridge.Loop
import Varint.Bridge.Tagged
import Varint.Bridge.Sizes
import Varint.Bridge.RLE
/-
  Bridge: varintFORComputeWidth and varintFORAnalyze of src/varintFOR.c (the scalar min/max scan), as translated by
  tools/c2lean2.py from the CURRENT source, equal the model Varint.FOR.analyze for every non-empty array.
-/
namespace Varint.Bridge.FOR
open Varint Varint.Gen.C Varint.Bridge

theorem widthF : ∀ (f v e : Nat), extLen v ≤ f → e + extLen v < 2 ^ 32 →
    forComputeWidth_loop1 f (v, e) = .done (0, e + extLen v - 1) := by
  intro f
  induction f with
  | zero => intro v e h; have := extLen_pos v; omega
  | succ f ih =>
    intro v e hf he
    unfold forComputeWidth_loop1
    simp only [Nat.reducePow]
    rw [extLen_eq] at hf he ⊢
    by_cases c : v < 256
    · have h0 : v / 256 = 0 := by omega
      simp only [h0, if_pos c, ne_eq, not_true_eq_false, if_false]
      rw [Nat.add_sub_cancel]
    · simp only [if_neg c] at hf he ⊢
      have h0 : v / 256 ≠ 0 := by omega
      rw [if_pos h0]
      have hp := extLen_pos (v / 256)
      rw [Nat.mod_eq_of_lt (by omega)]
      rw [ih (v / 256) (e + 1) (by omega) (by omega)]
      congr 2
      omega

/-- `varintFORComputeWidth(range)` = bytes needed for the range -/
theorem forComputeWidth_eq (r fuel : Nat) (hr : r < 2 ^ 64) (hf : 8 ≤ fuel) :
    forComputeWidth fuel r = some (extLen r) := by
  have h8 := extLen_le_8 hr
  have h1 := extLen_pos r
  unfold forComputeWidth
  simp only []
  rw [widthF fuel r 1 (by omega) (by omega)]
  simp only [show 1 + extLen r - 1 = extLen r by omega]

/-- the min/max scan -/
theorem scan_loop (xs : List Nat) (hn : xs.length < 2 ^ 63) :
    ∀ (rest : List Nat) (fuel i mn mx : Nat), xs.drop i = rest → i ≤ xs.length → rest.length + 1 ≤ fuel →
      forAnalyze_loop1 (Bridge.Tagged.bufOf xs) xs.length fuel (i, mn, mx) =
        .done (xs.length, rest.foldl min mn, rest.foldl max mx) := by
  intro rest
  induction rest with
  | nil =>
    intro fuel i mn mx hd hi hf
    have hil : i = xs.length := by
      have := List.drop_eq_nil_iff.1 hd; omega
    subst hil
    obtain ⟨fuel, rfl⟩ : ∃ g, fuel = g + 1 := ⟨fuel - 1, by omega⟩
    unfold forAnalyze_loop1
    simp
  | cons x rest ih =>
    intro fuel i mn mx hd hi hf
    simp only [List.length_cons] at hf
    obtain ⟨fuel, rfl⟩ : ∃ g, fuel = g + 1 := ⟨fuel - 1, by omega⟩
    have hil : i < xs.length := by
      have : (xs.drop i).length = rest.length + 1 := by rw [hd]; rfl
      rw [List.length_drop] at this; omega
    have hxi : Bridge.Tagged.bufOf xs i = x := Bridge.RLE.bufOf_drop xs i x rest hd
    have hd' : xs.drop (i + 1) = rest := Bridge.RLE.drop_succ_of_drop xs i x rest hd
    have hi1 : (i + 1) % 2 ^ 64 = i + 1 := Nat.mod_eq_of_lt (by omega)
    unfold forAnalyze_loop1
    simp only [if_pos hil, hxi, hi1]
    rw [ih fuel (i + 1) _ _ hd' (by omega) (by omega)]
    simp only [List.foldl_cons]
    have e1 : (if x < mn then x else mn) = min mn x := by
      by_cases c : x < mn
      · rw [if_pos c, Nat.min_eq_right (Nat.le_of_lt c)]
      · rw [if_neg c, Nat.min_eq_left (by omega)]
    have e2 : (if x > mx then x else mx) = max mx x := by
      by_cases c : x > mx
      · rw [if_pos c, Nat.max_eq_right (Nat.le_of_lt c)]
      · rw [if_neg c, Nat.max_eq_left (by omega)]
    rw [e1, e2]

theorem foldl_min_le (l : List Nat) (a : Nat) : l.foldl min a ≤ a := by
  induction l generalizing a with
  | nil => simp
  | cons x l ih => simp only [List.foldl_cons]; exact Nat.le_trans (ih _) (Nat.min_le_left _ _)

theorem le_foldl_max (l : List Nat) (a : Nat) : a ≤ l.foldl max a := by
  induction l generalizing a with
  | nil => simp
  | cons x l ih => simp only [List.foldl_cons]; exact Nat.le_trans (Nat.le_max_left _ _) (ih _)

theorem foldl_max_lt (l : List Nat) (a b : Nat) (ha : a < b) (hl : ∀ x ∈ l, x < b) : l.foldl max a < b := by
  induction l generalizing a with
  | nil => simpa
  | cons x l ih =>
    simp only [List.foldl_cons]
    exact ih _ (Nat.max_lt.2 ⟨ha, hl x (by simp)⟩) (fun y hy => hl y (by simp [hy]))

/-- **`varintFORAnalyze(values, count, &meta)`** for every non-empty array of 64-bit values (count < 2^56) and every
    fuel ≥ count + 8: the struct receives the true minimum and maximum OF THE WHOLE ARRAY, their difference, the width
    that difference needs, the count and the size `varintFORSize` computes from them -/
theorem forAnalyze_eq (xs : List Nat) (hne : xs ≠ []) (hx : ∀ x ∈ xs, x < 2 ^ 64) (hn : xs.length < 2 ^ 56)
    (fuel : Nat) (hf : xs.length + 8 ≤ fuel) :
    forAnalyze fuel (Bridge.Tagged.bufOf xs) xs.length =
      some (some (FOR.analyze xs).minValue, some (FOR.analyze xs).maxValue, some (FOR.analyze xs).range,
            some (FOR.analyze xs).offsetWidth, some (FOR.analyze xs).count, some (FOR.analyze xs).encodedSize) := by
  cases xs with
  | nil => exact absurd rfl hne
  | cons x0 t =>
    unfold forAnalyze FOR.analyze
    have h0 : Bridge.Tagged.bufOf (x0 :: t) 0 = x0 := rfl
    simp only [h0]
    rw [scan_loop (x0 :: t) (by omega) t fuel 1 x0 x0 (by simp) (by simp) (by simp at hf ⊢; omega)]
    simp only [FOR.minL, FOR.maxL]
    have hmn := foldl_min_le t x0
    have hmx := le_foldl_max t x0
    have hx0 := hx x0 (by simp)
    have hmx64 : t.foldl max x0 < 2 ^ 64 := foldl_max_lt t x0 _ hx0 (fun y hy => hx y (by simp [hy]))
    have hr : (t.foldl max x0 + 2 ^ 64 - t.foldl min x0) % 2 ^ 64 = t.foldl max x0 - t.foldl min x0 := by omega
    simp only [hr]
    have hr64 : t.foldl max x0 - t.foldl min x0 < 2 ^ 64 := by omega
    rw [forComputeWidth_eq _ fuel hr64 (by omega)]
    simp only []
    rw [Bridge.Sizes.forSize_eq _ _ _ (by omega) hn (extLen_le_8 hr64)]

end Varint.Bridge.FOR
