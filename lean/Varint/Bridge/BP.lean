import Varint.Gen.CBP
import Varint.Model.BP128
import Varint.Bridge.Loop
import Varint.Bridge.Tagged
import Varint.Bridge.Elias
/-
  Bridge: `varintBP128BitsNeeded64` (shift loop) and `varintBP128MaxBitWidth64` (maximum scan, then bits needed) of
  src/varintBP128.{h,c}, translated from the CURRENT source, equal the model's `bitsNeeded` / `BP128.bitWidth` — the width
  every block of the 64-bit BP128 codec is packed with.
-/
namespace Varint.Bridge.BP
open Varint Varint.Gen.C Varint.Bits
open Varint.Bridge.Tagged (bufOf)

theorem bits_loop : ∀ (fuel v l : Nat), v < 2 ^ 64 → Nat.log2 v + 1 < fuel → l + Nat.log2 v + 1 < 2 ^ 8 → v ≠ 0 →
    bpBitsNeeded64_loop1 fuel (v, l) = .done (0, l + Nat.log2 v + 1) := by
  intro fuel
  induction fuel with
  | zero => intro v l _ h; omega
  | succ f ih =>
    intro v l hv hf hl hv0
    simp only [bpBitsNeeded64_loop1, ne_eq, hv0, not_false_eq_true, if_true, Nat.pow_one]
    rw [Nat.mod_eq_of_lt (by omega)]
    by_cases c : v / 2 = 0
    · have hv1 : v = 1 := by omega
      subst hv1
      have hs : Nat.log2 1 = 0 := Elias.log2_small 1 (by omega)
      obtain ⟨f', rfl⟩ : ∃ f', f = f' + 1 := ⟨f - 1, by omega⟩
      simp [bpBitsNeeded64_loop1, hs]
    · have hs := Elias.log2_step v (by omega)
      rw [ih (v / 2) (l + 1) (by omega) (by omega) (by omega) c, hs]
      congr 2
      omega

/-- **`varintBP128BitsNeeded64(v)`** = the model's `bitsNeeded`, every 64-bit value, every fuel ≥ 66 -/
theorem bpBitsNeeded64_eq (v fuel : Nat) (hv : v < 2 ^ 64) (hf : 66 ≤ fuel) :
    bpBitsNeeded64 fuel v = some (bitsNeeded v) := by
  unfold bpBitsNeeded64 bitsNeeded
  by_cases c : v = 0
  · rw [if_pos c, if_pos c]
  · rw [if_neg c, if_neg c]
    have h63 : Nat.log2 v ≤ 63 := Varint.Elias.log2_le_63 v (by omega) hv
    simp only []
    rw [bits_loop fuel v 0 hv (by omega) (by omega) c]
    simp

theorem max_loop (xs : List Nat) (hn : xs.length < 2 ^ 63) :
    ∀ (n i m : Nat), i + n = xs.length → ∀ fuel, n < fuel →
      bpMaxBitWidth64_loop1 (bufOf xs) xs.length fuel (i, m) = .done (xs.length, (xs.drop i).foldl max m) := by
  intro n
  induction n with
  | zero =>
    intro i m hi fuel hf
    obtain ⟨f, rfl⟩ : ∃ f', fuel = f' + 1 := ⟨fuel - 1, by omega⟩
    have : i = xs.length := by omega
    subst this
    simp [bpMaxBitWidth64_loop1]
  | succ n ih =>
    intro i m hi fuel hf
    obtain ⟨f, rfl⟩ : ∃ f', fuel = f' + 1 := ⟨fuel - 1, by omega⟩
    have c : i < xs.length := by omega
    have hdrop : xs.drop i = xs[i]'c :: xs.drop (i + 1) := by rw [List.drop_eq_getElem_cons c]
    have hv : bufOf xs i = xs[i]'c := by
      unfold bufOf; rw [List.getD_eq_getElem?_getD, List.getElem?_eq_getElem c]; rfl
    have e1 : (i + 1) % 2 ^ 64 = i + 1 := Nat.mod_eq_of_lt (by omega)
    simp only [bpMaxBitWidth64_loop1, if_pos c, hv, e1]
    have hm : (if xs[i]'c > m then xs[i]'c else m) = max m (xs[i]'c) := by
      by_cases d : xs[i]'c > m
      · rw [if_pos d]; omega
      · rw [if_neg d]; omega
    rw [hm, ih (i + 1) _ (by omega) f (by omega), hdrop, List.foldl_cons]

/-- **`varintBP128MaxBitWidth64(values, n)`** = the model's block width `bitWidth` -/
theorem bpMaxBitWidth64_eq (xs : List Nat) (hx : ∀ x ∈ xs, x < 2 ^ 64) (hn : xs.length < 2 ^ 63) (fuel : Nat)
    (hf : xs.length + 66 ≤ fuel) : bpMaxBitWidth64 fuel (bufOf xs) xs.length = some (BP128.bitWidth xs) := by
  unfold bpMaxBitWidth64 BP128.bitWidth BP128.maxL
  by_cases c : xs.length = 0
  · rw [if_pos c]
    have : xs = [] := List.eq_nil_of_length_eq_zero c
    subst this
    simp [bitsNeeded]
  · rw [if_neg c]
    simp only []
    rw [max_loop xs hn xs.length 0 0 (by omega) fuel (by omega)]
    simp only [List.drop_zero]
    have hmax : xs.foldl max 0 < 2 ^ 64 := by
      have : ∀ (l : List Nat) (a : Nat), a < 2 ^ 64 → (∀ x ∈ l, x < 2 ^ 64) → l.foldl max a < 2 ^ 64 := by
        intro l
        induction l with
        | nil => intro a ha _; exact ha
        | cons y l ihl =>
          intro a ha hl
          rw [List.foldl_cons]
          exact ihl _ (by have := hl y (by simp); omega) (fun x hx => hl x (by simp [hx]))
      exact this xs 0 (by omega) hx
    rw [bpBitsNeeded64_eq _ fuel hmax (by omega)]

end Varint.Bridge.BP
