import Varint.Gen.CCSimple
import Varint.Model.Chained
import Varint.Bridge.Loop
import Varint.Bridge.Tagged
/-
  Bridge: src/varintChainedSimple.c as translated by tools/c2lean2.py from the CURRENT source (loops included)
  equals the hand-written model Varint.ChainedSimple.* for ALL inputs and every sufficient fuel.
-/
namespace Varint.Bridge.CSimple
open Varint Varint.Gen.C Varint.Bridge

theorem or128 (x : Nat) : ((x % 128) ||| 128) % 2 ^ 8 = x % 128 + 128 := by
  have h : 128 ||| (x % 128) = 128 + x % 128 := by
    have := Nat.two_pow_add_eq_or_of_lt (i := 7) (b := x % 128) (by omega) 1
    simpa using this.symm
  rw [Nat.or_comm, h]; omega

/-- the loop of `varintChainedSimpleEncode64`, from any state the model can be in -/
theorem encode_loop (m : Nat) : ∀ (f i v : Nat) (ws : List (Nat × Nat)), m + i = 9 → i ≤ 8 → m ≤ f →
    ∃ i' v', i' ≤ 8 ∧ csEncode64_loop1 f (i, v, ws) = .done (i', v', ws ++ storesFrom i ((ChainedSimple.encAux m i v).dropLast))
      ∧ i' = i + (ChainedSimple.encAux m i v).length - 1
      ∧ [v' % 256] = (ChainedSimple.encAux m i v).drop ((ChainedSimple.encAux m i v).length - 1) := by
  induction m with
  | zero => intro f i v ws h h8 _; omega
  | succ m ih =>
    intro f i v ws hmi h8 hf
    obtain ⟨f, rfl⟩ : ∃ g, f = g + 1 := ⟨f - 1, by omega⟩
    unfold csEncode64_loop1
    unfold ChainedSimple.encAux
    by_cases c : v ≥ 128 ∧ i < 8
    · have c' : (v ≥ 128) ∧ (((i : Nat) : Int) - ((0 : Nat) : Int)) < (8 : Int) := ⟨c.1, by omega⟩
      rw [if_pos c', if_pos c]
      simp only []
      obtain ⟨i', v', h0, h1, h2, h3⟩ := ih f (i + 1) (v / 2 ^ 7) (ws ++ [(i, ((v % 128) ||| 128) % 2 ^ 8)]) (by omega) (by omega) (by omega)
      refine ⟨i', v', h0, ?_, ?_, ?_⟩
      · rw [h1, or128]
        have hne : ChainedSimple.encAux m (i + 1) (v / 128) ≠ [] := by
          cases m <;> (unfold ChainedSimple.encAux; try split) <;> simp
        rw [List.dropLast_cons_of_ne_nil hne]
        simp [List.append_assoc]
      · have hne : (ChainedSimple.encAux m (i + 1) (v / 128)).length ≥ 1 := by
          cases m <;> (unfold ChainedSimple.encAux; try split) <;> simp
        simp only [List.length_cons]
        simp only [Nat.reducePow] at h2
        omega
      · have hne : (ChainedSimple.encAux m (i + 1) (v / 128)).length ≥ 1 := by
          cases m <;> (unfold ChainedSimple.encAux; try split) <;> simp
        simp only [Nat.reducePow] at h3
        rw [h3]
        simp only [List.length_cons]
        rw [show (ChainedSimple.encAux m (i + 1) (v / 128)).length + 1 - 1 =
              ((ChainedSimple.encAux m (i + 1) (v / 128)).length - 1) + 1 by omega]
        rfl
    · have c' : ¬ ((v ≥ 128) ∧ (((i : Nat) : Int) - ((0 : Nat) : Int)) < (8 : Int)) := by
        intro h; exact c ⟨h.1, by omega⟩
      rw [if_neg c', if_neg c]
      exact ⟨i, v, h8, by simp, by simp, by simp⟩

/-- `varintChainedSimpleEncode64(p, v)`: for every value and every fuel ≥ 9 the C returns the model's length and
    stores exactly the model's bytes at p[0], p[1], … in this order -/
theorem csEncode64_eq (v fuel : Nat) (hf : 9 ≤ fuel) :
    csEncode64 fuel v = some ((ChainedSimple.enc v).length, storesFrom 0 (ChainedSimple.enc v)) := by
  unfold csEncode64
  obtain ⟨i', v', h0, h1, h2, h3⟩ := encode_loop 9 fuel 0 v [] (by omega) (by omega) hf
  rw [h1]
  simp only [List.nil_append]
  have hlen : (ChainedSimple.encAux 9 0 v).length ≥ 1 := by
    unfold ChainedSimple.encAux; split <;> simp
  have hsplit : ChainedSimple.enc v = (ChainedSimple.enc v).dropLast ++ [v' % 256] := by
    unfold ChainedSimple.enc
    rw [h3]
    rw [List.dropLast_eq_take]
    exact (List.take_append_drop _ _).symm
  have hl2 : (ChainedSimple.enc v).dropLast.length = i' := by
    unfold ChainedSimple.enc
    simp only [List.length_dropLast]; omega
  congr 1
  refine Prod.ext ?_ ?_
  · simp only []
    have : (ChainedSimple.enc v).length = i' + 1 := by
      unfold ChainedSimple.enc; omega
    rw [this]; omega
  · simp only []
    conv => rhs; rw [hsplit, storesFrom_append, hl2]
    simp [ChainedSimple.enc]

/-- the loop of `varintChainedSimpleLength` counts base-128 digits -/
theorem length_loop : ∀ (f v i : Nat), len7 v ≤ f → i + len7 v < 2 ^ 32 →
    csLength_loop1 f (v, i) = .done (0, i + len7 v - 1) := by
  intro f
  induction f with
  | zero => intro v i h; have := len7_pos v; omega
  | succ f ih =>
    intro v i hf hi
    unfold csLength_loop1
    simp only [Nat.reducePow]
    rw [len7_eq] at hf hi ⊢
    by_cases c : v < 128
    · have h0 : v / 128 = 0 := by omega
      simp only [h0, if_pos c, ne_eq, not_true_eq_false, if_false]
      rw [Nat.add_sub_cancel]
    · simp only [if_neg c] at hf hi ⊢
      have h0 : v / 128 ≠ 0 := by omega
      rw [if_pos h0]
      have hp := len7_pos (v / 128)
      rw [Nat.mod_eq_of_lt (by omega)]
      rw [ih (v / 128) (i + 1) (by omega) (by omega)]
      congr 2
      omega

/-- `varintChainedSimpleLength(v)` for every 64-bit value and every fuel ≥ 10 -/
theorem csLength_eq (v fuel : Nat) (hv : v < 2 ^ 64) (hf : 10 ≤ fuel) :
    csLength fuel v = some (ChainedSimple.len v) := by
  have h10 : len7 v ≤ 10 := len7_le_of_lt (by omega) (by
    calc v < 2 ^ 64 := hv
      _ ≤ 128 ^ 10 := by decide)
  unfold csLength ChainedSimple.len
  simp only []
  rw [length_loop fuel v 1 (by omega) (by omega)]
  simp only []
  have hp := len7_pos v
  rw [show 1 + len7 v - 1 = len7 v by omega]

set_option maxRecDepth 8000 in
theorem and128 : ∀ b, b < 256 → ((b &&& 128 ≠ 0) ↔ b ≥ 128) := by decide

theorem or_disj (acc x k : Nat) (ha : acc < 2 ^ k) : acc ||| (x * 2 ^ k) = acc + x * 2 ^ k := by
  rw [Nat.or_comm, Bridge.Tagged.or_eq_add (x * 2 ^ k) acc k (Nat.mul_mod_left _ _) ha, Nat.add_comm]

/-- the loop of `varintChainedSimpleDecode64` on a buffer that holds `bs` from position `i` on -/
theorem decode_loop : ∀ (mf f i acc : Nat) (bs : List Nat) (p : Nat → Nat) (vopt : Option Nat) (val n : Nat),
    (∀ k, k < bs.length → p (i + k) = bs[k]?.getD 0) → (∀ b ∈ bs, b < 256) → i ≤ 8 → acc < 2 ^ (7 * i) →
    mf + i ≤ f + i → mf ≤ f →
    ChainedSimple.decAux mf i acc bs = some (val, n) →
    csDecode64_loop1 p f (7 * i, i, p i, acc, vopt) = .ret (n, some val) := by
  intro mf
  induction mf with
  | zero => intro f i acc bs p vopt val n _ _ _ _ _ _ h; simp [ChainedSimple.decAux] at h
  | succ mf ih =>
    intro f i acc bs p vopt val n hp hb hi hacc _ hf h
    obtain ⟨f, rfl⟩ : ∃ g, f = g + 1 := ⟨f - 1, by omega⟩
    cases bs with
    | nil => simp [ChainedSimple.decAux] at h
    | cons b rest =>
      have hpi : p i = b := by simpa using hp 0 (by simp)
      have hb256 : b < 256 := hb b (by simp)
      unfold ChainedSimple.decAux at h
      unfold csDecode64_loop1
      have hs : ((7 * i : Nat) : Int) ≤ (63 : Int) := by omega
      rw [if_pos hs]
      simp only [Int.toNat_natCast, hpi]
      by_cases c : b ≥ 128 ∧ i < 8
      · rw [if_pos c] at h
        have c' : (b &&& 128 ≠ 0) ∧ (((i : Nat) : Int) - ((0 : Nat) : Int)) < (8 : Int) :=
          ⟨(and128 b hb256).2 c.1, by omega⟩
        rw [if_pos c']
        have hlt : b % 128 * 2 ^ (7 * i) < 2 ^ 64 := by
          calc b % 128 * 2 ^ (7 * i) < 2 ^ 7 * 2 ^ (7 * i) :=
                Nat.mul_lt_mul_of_pos_right (by omega) (Nat.two_pow_pos _)
            _ = 2 ^ (7 + 7 * i) := by rw [Nat.pow_add]
            _ ≤ 2 ^ 64 := Nat.pow_le_pow_right (by omega) (by omega)
        rw [Nat.mod_eq_of_lt hlt, or_disj acc (b % 128) (7 * i) hacc]
        have hsh : (((((7 * i : Nat) : Int) + (7 : Int))) % (2 ^ 8 : Int)).toNat = 7 * (i + 1) := by omega
        rw [hsh]
        refine ih f (i + 1) _ rest p vopt val n ?_ ?_ (by omega) ?_ (by omega) (by omega) h
        · intro k hk
          have := hp (k + 1) (by simp; omega)
          simpa [Nat.add_assoc, Nat.add_comm 1 k] using this
        · intro x hx; exact hb x (by simp [hx])
        · calc acc + b % 128 * 2 ^ (7 * i) < 2 ^ (7 * i) + 127 * 2 ^ (7 * i) := by
                have : b % 128 * 2 ^ (7 * i) ≤ 127 * 2 ^ (7 * i) := Nat.mul_le_mul_right _ (by omega)
                omega
            _ = 2 ^ (7 * (i + 1)) := by rw [Nat.mul_add, Nat.pow_add]; omega
      · rw [if_neg c] at h
        have c' : ¬ ((b &&& 128 ≠ 0) ∧ (((i : Nat) : Int) - ((0 : Nat) : Int)) < (8 : Int)) := by
          intro hh; exact c ⟨(and128 b hb256).1 hh.1, by omega⟩
        rw [if_neg c']
        simp only [Option.some.injEq, Prod.mk.injEq] at h
        have hlt : b * 2 ^ (7 * i) < 2 ^ 64 := by
          by_cases h8 : i = 8
          · subst h8
            calc b * 2 ^ (7 * 8) < 2 ^ 8 * 2 ^ (7 * 8) := Nat.mul_lt_mul_of_pos_right (by omega) (Nat.two_pow_pos _)
              _ = 2 ^ 64 := by decide
          · have hb7 : b < 2 ^ 7 := by omega
            calc b * 2 ^ (7 * i) < 2 ^ 7 * 2 ^ (7 * i) := Nat.mul_lt_mul_of_pos_right hb7 (Nat.two_pow_pos _)
              _ = 2 ^ (7 + 7 * i) := by rw [Nat.pow_add]
              _ ≤ 2 ^ 64 := Nat.pow_le_pow_right (by omega) (by omega)
        rw [Nat.mod_eq_of_lt hlt, or_disj acc b (7 * i) hacc, h.1]
        congr 2
        omega

/-- `varintChainedSimpleDecode64(p, &v)` on a buffer holding the bytes `bs`: whenever the model decodes
    (it only fails on input that ends inside the varint) the C returns the model's length and stores its value -/
theorem csDecode64_eq (bs : List Nat) (fuel val n : Nat) (hb : ∀ b ∈ bs, b < 256) (hf : 10 ≤ fuel)
    (h : ChainedSimple.dec bs = some (val, n)) :
    csDecode64 fuel (Bridge.Tagged.bufOf bs) = some (n, some val) := by
  unfold csDecode64
  simp only []
  have := decode_loop 10 fuel 0 0 bs (Bridge.Tagged.bufOf bs) none val n
    (by intro k _; simp [Bridge.Tagged.bufOf, List.getD_eq_getElem?_getD]) hb (by omega) (by simp) (by omega) hf h
  simp only [Nat.mul_zero] at this
  rw [this]
