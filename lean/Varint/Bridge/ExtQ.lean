import Varint.Gen.CExtQ
import Varint.Model.External
import Varint.Lemmas.Bytes
import Varint.Bridge.Loop
import Varint.Bridge.External
import Varint.Bridge.FORDec
/-
  Bridge: the statement macros `varintExternalPutFixedWidthQuick_` and `varintExternalGetQuick_` of
  src/varintExternal.h (inline arms for 1, 2 and 3 bytes, the function otherwise), expanded by clang inside
  harness/vw_ext.c and translated from the CURRENT header, have exactly the effect / result of the functions
  `varintExternalPutFixedWidth` / `varintExternalGet`: the model's little-endian slice, for every width 1..8.
-/
namespace Varint.Bridge.ExtQ
open Varint Varint.Gen.C Varint.Bridge Varint.Bridge.External
open Varint.Bridge.Tagged (bufOf bufOf_lt)

/-- **`varintExternalPutFixedWidthQuick_(dst, lo | hi, w)`**: the argument expression is evaluated as a whole (macro
    hygiene) and the bytes left are the little-endian bytes of its value -/
theorem extPutFixedQuick_eq (lo hi w : Nat) (h1 : 1 ≤ w) (h8 : w ≤ 8) :
    Writes (extPutFixedQuick lo hi w) (External.encFixed (lo ||| hi) w) := by
  unfold extPutFixedQuick
  simp only []
  generalize lo ||| hi = v
  by_cases c1 : w = 1
  · subst c1
    rw [if_pos rfl]
    unfold Writes External.encFixed
    simp only [le1]
    refine ⟨?_, rfl, by simp, by simp⟩
    simp [applyStores]
  · rw [if_neg c1]
    by_cases c3 : w = 3
    · subst c3
      rw [if_pos rfl]
      unfold Writes External.encFixed
      simp only [le3]
      refine ⟨?_, rfl, by simp, by simp⟩
      simp [applyStores]; omega
    · rw [if_neg c3]
      by_cases c2 : w = 2
      · subst c2
        rw [if_pos rfl]
        unfold Writes External.encFixed
        simp only [le2]
        refine ⟨?_, rfl, by simp, by simp⟩
        simp [applyStores]
      · rw [if_neg c2]
        exact extPutFixedWidth_eq v w h1 h8

/-- **`varintExternalGetQuick_(p, w, r)`** on a buffer of bytes: the little-endian value of p[0 … w-1] -/
theorem extGetQuick_eq (bs : List Nat) (hb : ∀ b ∈ bs, b < 256) (w : Nat) (h1 : 1 ≤ w) (h8 : w ≤ 8)
    (hin : w ≤ bs.length) : extGetQuick (bufOf bs) w = ofLe (bs.take w) := by
  have := FORDec.getQuick_eq bs hb 0 w h1 h8 (by omega)
  simp only [Nat.zero_add, List.drop_zero] at this
  unfold extGetQuick
  simp only []
  exact this

end Varint.Bridge.ExtQ
