import Varint.Gen.CPrelude
/-
  Helpers shared by the bridges of machine-translated functions with loops (tools/c2lean2.py).
-/
namespace Varint.Bridge
open Varint.Gen.C

/-- the stores `buf[start] = b0; buf[start+1] = b1; …` in program order -/
def storesFrom : Nat → List Nat → List (Nat × Nat)
  | _, [] => []
  | i, b :: bs => (i, b) :: storesFrom (i + 1) bs

@[simp] theorem storesFrom_nil (i : Nat) : storesFrom i [] = [] := rfl
@[simp] theorem storesFrom_cons (i b : Nat) (bs : List Nat) : storesFrom i (b :: bs) = (i, b) :: storesFrom (i + 1) bs := rfl

theorem storesFrom_append (i : Nat) (xs ys : List Nat) :
    storesFrom i (xs ++ ys) = storesFrom i xs ++ storesFrom (i + xs.length) ys := by
  induction xs generalizing i with
  | nil => simp
  | cons x xs ih => simp [ih, Nat.add_assoc, Nat.add_comm 1]

theorem storesFrom_snd (i : Nat) (bs : List Nat) : (storesFrom i bs).map Prod.snd = bs := by
  induction bs generalizing i with
  | nil => rfl
  | cons b bs ih => simp [ih]

theorem storesFrom_fst (i : Nat) (bs : List Nat) : (storesFrom i bs).map Prod.fst = List.range' i bs.length := by
  induction bs generalizing i with
  | nil => rfl
  | cons b bs ih => simp [ih, List.range'_succ]

theorem storesFrom_length (i : Nat) (bs : List Nat) : (storesFrom i bs).length = bs.length := by
  induction bs generalizing i with
  | nil => rfl
  | cons b bs ih => simp [ih]

/-- stores of a callee handed `buf + off` -/
theorem shiftW_storesFrom (off i : Nat) (bs : List Nat) : shiftW off (storesFrom i bs) = storesFrom (off + i) bs := by
  induction bs generalizing i with
  | nil => rfl
  | cons b bs ih =>
    simp only [storesFrom_cons, shiftW, List.map_cons] at ih ⊢
    rw [ih (i + 1)]
    rfl

/-- a store list whose indices are `0,1,…` and whose values are `bs` is `storesFrom 0 bs` -/
theorem eq_storesFrom_of_maps (l : List (Nat × Nat)) (bs : List Nat) (i : Nat)
    (h2 : l.map Prod.snd = bs) (h1 : l.map Prod.fst = List.range' i bs.length) : l = storesFrom i bs := by
  induction bs generalizing l i with
  | nil => simpa using h2
  | cons b bs ih =>
    cases l with
    | nil => simp at h2
    | cons p l =>
      simp only [List.map_cons, List.cons.injEq, List.length_cons, List.range'_succ] at h1 h2
      obtain ⟨a, c⟩ := p
      simp only at h1 h2
      rw [storesFrom_cons, ih l (i + 1) h2.2 h1.2, h1.1, h2.1]

/-- the memory after the stores: what a list of slots looks like once they have been carried out in order -/
def applyStores (ws : List Nat) (st : List (Nat × Nat)) : List Nat := st.foldl (fun w p => w.set p.1 p.2) ws

end Varint.Bridge
