import Varint.Gen.CSplit
import Varint.Model.Split
import Varint.Lemmas.Bytes
import Varint.Lemmas.Canon
import Varint.Bridge.Loop
import Varint.Bridge.Tagged
import Varint.Bridge.External
import Varint.Bridge.Split
import Varint.Bridge.Split16
import Varint.Bridge.Dim
/-
  Bridge: the statement macros of src/varintSplitFull.h and src/varintSplitFullNoZero.h (Length_, Put_, GetLen_,
  GetLenQuick_, Get_), expanded by clang inside the wrapper functions of harness/vw_split.c and translated by
  tools/c2lean2.py from the CURRENT headers, equal the models Varint.Split.F.* / Varint.Split.NZ.* for every 64-bit value
  (NoZero: every value ≥ 1) / every byte buffer the model reads inside of.
-/
namespace Varint.Bridge.SplitFull
open Varint Varint.Gen.C Varint.Bridge Varint.Bridge.External Varint.Bridge.Split
open Varint.Bridge.Tagged (bufOf bufOf_lt)

theorem widthL_splitFull : ∀ (f v e : Nat), extLen v ≤ f → e + extLen v < 2 ^ 32 →
    splitFullLength_loop1 f (v, e) = .done (0, e + extLen v - 1) := by
  intro f
  induction f with
  | zero => intro v e h; have := extLen_pos v; omega
  | succ f ih =>
    intro v e hf he
    unfold splitFullLength_loop1
    simp only [Nat.reducePow]
    rw [extLen_eq] at hf he ⊢
    by_cases c : v < 256
    · have h0 : v / 256 = 0 := by omega
      simp only [h0, if_pos c, ne_eq, not_true_eq_false, if_false]
      rw [Nat.add_sub_cancel]
    · simp only [if_neg c] at hf he ⊢
      have h0 : v / 256 ≠ 0 := by omega
      rw [if_pos h0]
      have hp := extLen_pos (v / 256)
      rw [Nat.mod_eq_of_lt (by omega)]
      rw [ih (v / 256) (e + 1) (by omega) (by omega)]
      congr 2
      omega

theorem widthP_splitFull : ∀ (f v e : Nat), extLen v ≤ f → e + extLen v < 2 ^ 32 →
    splitFullPut_loop1 f (v, e) = .done (0, e + extLen v - 1) := by
  intro f
  induction f with
  | zero => intro v e h; have := extLen_pos v; omega
  | succ f ih =>
    intro v e hf he
    unfold splitFullPut_loop1
    simp only [Nat.reducePow]
    rw [extLen_eq] at hf he ⊢
    by_cases c : v < 256
    · have h0 : v / 256 = 0 := by omega
      simp only [h0, if_pos c, ne_eq, not_true_eq_false, if_false]
      rw [Nat.add_sub_cancel]
    · simp only [if_neg c] at hf he ⊢
      have h0 : v / 256 ≠ 0 := by omega
      rw [if_pos h0]
      have hp := extLen_pos (v / 256)
      rw [Nat.mod_eq_of_lt (by omega)]
      rw [ih (v / 256) (e + 1) (by omega) (by omega)]
      congr 2
      omega

/-- **`F` length macro** for every 64-bit value, every fuel ≥ 8 -/
theorem splitFullLength_eq (v fuel : Nat) (hv : v < 2 ^ 64) (hf : 8 ≤ fuel) :
    splitFullLength fuel v = some (Split.F.len v) := by
  unfold splitFullLength Split.F.len
  simp only []
  by_cases c1 : v ≤ 63
  · rw [if_pos c1, if_pos c1]
  · rw [if_neg c1, if_neg c1]
    by_cases c2 : v ≤ 16446
    · rw [if_pos c2, if_pos c2]
    · rw [if_neg c2, if_neg c2]
      by_cases c3 : v ≤ 4210749
      · rw [if_pos c3, if_pos c3]
      · rw [if_neg c3, if_neg c3]
        have hu : (v + 2 ^ 64 - 4210749) % 2 ^ 64 = v - 4210749 := by omega
        simp only [hu]
        have h8 := extLen_le_8 (show v - 4210749 < 2 ^ 64 by omega)
        have h1 := extLen_pos (v - 4210749)
        rw [widthL_splitFull fuel (v - 4210749) 1 (by omega) (by omega)]
        simp only [Split.lenVar, Option.some.injEq]
        by_cases c4 : extLen (v - 4210749) = 1
        · rw [if_pos (by omega), if_pos (by omega)]
        · rw [if_neg (by omega), if_neg (by omega)]; omega

/-- **`F` put macro** for every 64-bit value and every fuel ≥ 8 -/
theorem splitFullPut_eq (v fuel : Nat) (hv : v < 2 ^ 64) (hf : 8 ≤ fuel) :
    ∃ stores, splitFullPut fuel v = some (Split.F.len v, stores) ∧ Writes stores (Split.F.enc v) := by
  unfold splitFullPut Split.F.len Split.F.enc
  simp only []
  by_cases c1 : v ≤ 63
  · rw [if_pos c1, if_pos c1, if_pos c1]
    refine ⟨_, rfl, ?_⟩
    have e : (0 ||| v) % 2 ^ 8 = v := by rw [Nat.zero_or]; omega
    rw [e]
    unfold Writes Split.encLevel
    have hm : v % 64 = v := by omega
    simp [applyStores, beBytes, hm]
  · rw [if_neg c1, if_neg c1, if_neg c1]
    by_cases c2 : v ≤ 16446
    · rw [if_pos c2, if_pos c2, if_pos c2]
      refine ⟨_, rfl, ?_⟩
      have hu : (v + 2 ^ 64 - 63) % 2 ^ 64 = v - 63 := by omega
      simp only [hu]
      have e1 : (64 ||| ((v - 63) / 2 ^ 8 % 64)) % 2 ^ 8 = 64 + (v - 63) / 256 % 64 := by
        rw [or64 _ (Nat.mod_lt _ (by omega))]
      have e2 : ((v - 63) % 256) % 2 ^ 8 = (v - 63) % 256 := by omega
      rw [e1, e2]
      unfold Writes Split.encLevel
      simp [applyStores, beBytes]
    · rw [if_neg c2, if_neg c2, if_neg c2]
      by_cases c3 : v ≤ 4210749
      · rw [if_pos c3, if_pos c3, if_pos c3]
        refine ⟨_, rfl, ?_⟩
        have hu : (v + 2 ^ 64 - 16446) % 2 ^ 64 = v - 16446 := by omega
        simp only [hu]
        have e1 : (128 ||| ((v - 16446) / 2 ^ 16 % 64)) % 2 ^ 8 = 128 + (v - 16446) / 65536 % 64 := by
          rw [or128 _ (by omega)]
        have e2 : ((v - 16446) / 2 ^ 8 % 256) % 2 ^ 8 = (v - 16446) / 256 % 256 := by omega
        have e3 : ((v - 16446) % 256) % 2 ^ 8 = (v - 16446) % 256 := by omega
        rw [e1, e2, e3]
        unfold Writes Split.encLevel
        simp [applyStores, beBytes]
      · rw [if_neg c3, if_neg c3, if_neg c3]
        have hu : (v + 2 ^ 64 - 4210749) % 2 ^ 64 = v - 4210749 := by omega
        simp only [hu]
        generalize hud : v - 4210749 = u
        have hu64 : u < 2 ^ 64 := by omega
        have h8 := extLen_le_8 hu64
        have h1 := extLen_pos u
        rw [widthP_splitFull fuel u 1 (by omega) (by omega)]
        simp only [show 1 + extLen u - 1 = extLen u by omega]
        simp only [Split.lenVar, Split.encVar, hud]
        by_cases c4 : extLen u = 1
        · -- padded to two payload bytes
          have c4' : extLen u < 2 := by omega
          simp only [if_pos c4, if_pos c4']
          have ew : ((((3 : Nat) : Int) - (1 : Int)) % (2 ^ 32 : Int)).toNat = 2 := by decide
          simp only [ew]
          rw [Split16.or192 2 (by omega)]
          refine ⟨_, rfl, ?_⟩
          simp only [Nat.reduceEqDiff, if_false, if_true]
          have hu2 : u < 256 := by
            have := lt_pow_extLen u; rw [c4] at this; simpa using this
          unfold Writes
          simp only [le2]
          refine ⟨?_, rfl, by simp, by simp⟩
          simp [applyStores]
        · have c4' : ¬ extLen u < 2 := by omega
          simp only [if_neg c4, if_neg c4']
          have el : ((1 + extLen u) % 2 ^ 32) % 2 ^ 8 = 1 + extLen u := by omega
          simp only [el]
          have ew : ((((1 + extLen u : Nat) : Int) - (1 : Int)) % (2 ^ 32 : Int)).toNat = extLen u := by omega
          simp only [ew]
          rw [Split16.or192 (extLen u) (by omega)]
          generalize extLen u = w at *
          refine ⟨_, rfl, ?_⟩
          by_cases w3 : w = 3
          · subst w3
            simp only [if_true]
            unfold Writes
            simp only [le3]
            refine ⟨?_, rfl, by simp, by simp⟩
            simp [applyStores]; omega
          · rw [if_neg w3]
            by_cases w2 : w = 2
            · subst w2
              simp only [if_true]
              unfold Writes
              simp only [le2]
              refine ⟨?_, rfl, by simp, by simp⟩
              simp [applyStores]
            · rw [if_neg w2]
              have := writes_cons (192 + w) _ _ (extPutFixedWidth_eq u w h1 h8)
              simpa [External.encFixed] using this

/-- **`F` GetLen_ and GetLenQuick_** on the type byte -/
theorem splitFullGetLen_eq (p : Nat → Nat) (h0 : p 0 < 256) :
    splitFullGetLen p = Split.F.getLen (p 0) ∧ splitFullGetLenQuick p = Split.F.getLenQuick (p 0) := by
  unfold splitFullGetLen splitFullGetLenQuick Split.F.getLen Split.F.getLenQuick
  simp only [and192 (p 0) h0]
  generalize p 0 = b at *
  constructor
  · by_cases c1 : b < 64
    · have e : (((b / 64 * 64 : Nat) : Int) = (0 : Int)) := by omega
      simp only [e, if_true, if_pos c1]
    · have e1 : ¬ (((b / 64 * 64 : Nat) : Int) = (0 : Int)) := by omega
      rw [if_neg e1, if_neg c1]
      by_cases c2 : b < 128
      · have e : (((b / 64 * 64 : Nat) : Int) = (64 : Int)) := by omega
        simp only [e, if_true, if_pos c2]
      · have e2 : ¬ (((b / 64 * 64 : Nat) : Int) = (64 : Int)) := by omega
        rw [if_neg e2, if_neg c2]
        by_cases c3 : b < 192
        · have e : (((b / 64 * 64 : Nat) : Int) = (128 : Int)) := by omega
          simp only [e, if_true, if_pos c3]
        · have e3 : ¬ (((b / 64 * 64 : Nat) : Int) = (128 : Int)) := by omega
          have e4 : (((b / 64 * 64 : Nat) : Int) = (192 : Int)) := by omega
          rw [if_neg e3, if_neg c3, if_pos e4]
          omega
  · by_cases c : 192 ≤ b
    · have e4 : (((b / 64 * 64 : Nat) : Int) = (192 : Int)) := by omega
      rw [if_pos e4, if_pos c]; omega
    · have e4 : ¬ (((b / 64 * 64 : Nat) : Int) = (192 : Int)) := by omega
      rw [if_neg e4, if_neg c]
      have : ((b : Nat) : Int) / 2 ^ 6 = ((b / 64 : Nat) : Int) := by omega
      rw [this]; omega

theorem widthL_splitNZ : ∀ (f v e : Nat), extLen v ≤ f → e + extLen v < 2 ^ 32 →
    splitNZLength_loop1 f (v, e) = .done (0, e + extLen v - 1) := by
  intro f
  induction f with
  | zero => intro v e h; have := extLen_pos v; omega
  | succ f ih =>
    intro v e hf he
    unfold splitNZLength_loop1
    simp only [Nat.reducePow]
    rw [extLen_eq] at hf he ⊢
    by_cases c : v < 256
    · have h0 : v / 256 = 0 := by omega
      simp only [h0, if_pos c, ne_eq, not_true_eq_false, if_false]
      rw [Nat.add_sub_cancel]
    · simp only [if_neg c] at hf he ⊢
      have h0 : v / 256 ≠ 0 := by omega
      rw [if_pos h0]
      have hp := extLen_pos (v / 256)
      rw [Nat.mod_eq_of_lt (by omega)]
      rw [ih (v / 256) (e + 1) (by omega) (by omega)]
      congr 2
      omega

theorem widthP_splitNZ : ∀ (f v e : Nat), extLen v ≤ f → e + extLen v < 2 ^ 32 →
    splitNZPut_loop1 f (v, e) = .done (0, e + extLen v - 1) := by
  intro f
  induction f with
  | zero => intro v e h; have := extLen_pos v; omega
  | succ f ih =>
    intro v e hf he
    unfold splitNZPut_loop1
    simp only [Nat.reducePow]
    rw [extLen_eq] at hf he ⊢
    by_cases c : v < 256
    · have h0 : v / 256 = 0 := by omega
      simp only [h0, if_pos c, ne_eq, not_true_eq_false, if_false]
      rw [Nat.add_sub_cancel]
    · simp only [if_neg c] at hf he ⊢
      have h0 : v / 256 ≠ 0 := by omega
      rw [if_pos h0]
      have hp := extLen_pos (v / 256)
      rw [Nat.mod_eq_of_lt (by omega)]
      rw [ih (v / 256) (e + 1) (by omega) (by omega)]
      congr 2
      omega

/-- **`NZ` length macro** for every 64-bit value, every fuel ≥ 8 -/
theorem splitNZLength_eq (v fuel : Nat) (hv : v < 2 ^ 64) (hf : 8 ≤ fuel) :
    splitNZLength fuel v = some (Split.NZ.len v) := by
  unfold splitNZLength Split.NZ.len
  simp only []
  by_cases c1 : v ≤ 64
  · rw [if_pos c1, if_pos c1]
  · rw [if_neg c1, if_neg c1]
    by_cases c2 : v ≤ 16447
    · rw [if_pos c2, if_pos c2]
    · rw [if_neg c2, if_neg c2]
      by_cases c3 : v ≤ 4210750
      · rw [if_pos c3, if_pos c3]
      · rw [if_neg c3, if_neg c3]
        have hu : (v + 2 ^ 64 - 4210750) % 2 ^ 64 = v - 4210750 := by omega
        simp only [hu]
        have h8 := extLen_le_8 (show v - 4210750 < 2 ^ 64 by omega)
        have h1 := extLen_pos (v - 4210750)
        rw [widthL_splitNZ fuel (v - 4210750) 1 (by omega) (by omega)]
        simp only [Split.lenVar, Option.some.injEq]
        by_cases c4 : extLen (v - 4210750) = 1
        · rw [if_pos (by omega), if_pos (by omega)]
        · rw [if_neg (by omega), if_neg (by omega)]; omega

/-- **`NZ` put macro** for every 64-bit value ≥ 1 and every fuel ≥ 8 -/
theorem splitNZPut_eq (v fuel : Nat) (hv : v < 2 ^ 64) (h1v : 1 ≤ v) (hf : 8 ≤ fuel) :
    ∃ stores, splitNZPut fuel v = some (Split.NZ.len v, stores) ∧ Writes stores (Split.NZ.enc v) := by
  unfold splitNZPut Split.NZ.len Split.NZ.enc
  simp only []
  by_cases c1 : v ≤ 64
  · rw [if_pos c1, if_pos c1, if_pos c1]
    refine ⟨_, rfl, ?_⟩
    have hu : (v + 2 ^ 64 - 1) % 2 ^ 64 = v - 1 := by omega
    simp only [hu]
    have e : (0 ||| (v - 1)) % 2 ^ 8 = v - 1 := by rw [Nat.zero_or]; omega
    rw [e]
    unfold Writes Split.encLevel
    have hm : (v - 1) % 64 = v - 1 := by omega
    simp [applyStores, beBytes, hm]
  · rw [if_neg c1, if_neg c1, if_neg c1]
    by_cases c2 : v ≤ 16447
    · rw [if_pos c2, if_pos c2, if_pos c2]
      refine ⟨_, rfl, ?_⟩
      have hu : (v + 2 ^ 64 - 64) % 2 ^ 64 = v - 64 := by omega
      simp only [hu]
      have e1 : (64 ||| ((v - 64) / 2 ^ 8 % 64)) % 2 ^ 8 = 64 + (v - 64) / 256 % 64 := by
        rw [or64 _ (Nat.mod_lt _ (by omega))]
      have e2 : ((v - 64) % 256) % 2 ^ 8 = (v - 64) % 256 := by omega
      rw [e1, e2]
      unfold Writes Split.encLevel
      simp [applyStores, beBytes]
    · rw [if_neg c2, if_neg c2, if_neg c2]
      by_cases c3 : v ≤ 4210750
      · rw [if_pos c3, if_pos c3, if_pos c3]
        refine ⟨_, rfl, ?_⟩
        have hu : (v + 2 ^ 64 - 16447) % 2 ^ 64 = v - 16447 := by omega
        simp only [hu]
        have e1 : (128 ||| ((v - 16447) / 2 ^ 16 % 64)) % 2 ^ 8 = 128 + (v - 16447) / 65536 % 64 := by
          rw [or128 _ (by omega)]
        have e2 : ((v - 16447) / 2 ^ 8 % 256) % 2 ^ 8 = (v - 16447) / 256 % 256 := by omega
        have e3 : ((v - 16447) % 256) % 2 ^ 8 = (v - 16447) % 256 := by omega
        rw [e1, e2, e3]
        unfold Writes Split.encLevel
        simp [applyStores, beBytes]
      · rw [if_neg c3, if_neg c3, if_neg c3]
        have hu : (v + 2 ^ 64 - 4210750) % 2 ^ 64 = v - 4210750 := by omega
        simp only [hu]
        generalize hud : v - 4210750 = u
        have hu64 : u < 2 ^ 64 := by omega
        have h8 := extLen_le_8 hu64
        have h1 := extLen_pos u
        rw [widthP_splitNZ fuel u 1 (by omega) (by omega)]
        simp only [show 1 + extLen u - 1 = extLen u by omega]
        simp only [Split.lenVar, Split.encVar, hud]
        by_cases c4 : extLen u = 1
        · -- padded to two payload bytes
          have c4' : extLen u < 2 := by omega
          simp only [if_pos c4, if_pos c4']
          have ew : ((((3 : Nat) : Int) - (1 : Int)) % (2 ^ 32 : Int)).toNat = 2 := by decide
          simp only [ew]
          rw [Split16.or192 2 (by omega)]
          refine ⟨_, rfl, ?_⟩
          simp only [Nat.reduceEqDiff, if_false, if_true]
          have hu2 : u < 256 := by
            have := lt_pow_extLen u; rw [c4] at this; simpa using this
          unfold Writes
          simp only [le2]
          refine ⟨?_, rfl, by simp, by simp⟩
          simp [applyStores]
        · have c4' : ¬ extLen u < 2 := by omega
          simp only [if_neg c4, if_neg c4']
          have el : ((1 + extLen u) % 2 ^ 32) % 2 ^ 8 = 1 + extLen u := by omega
          simp only [el]
          have ew : ((((1 + extLen u : Nat) : Int) - (1 : Int)) % (2 ^ 32 : Int)).toNat = extLen u := by omega
          simp only [ew]
          rw [Split16.or192 (extLen u) (by omega)]
          generalize extLen u = w at *
          refine ⟨_, rfl, ?_⟩
          by_cases w3 : w = 3
          · subst w3
            simp only [if_true]
            unfold Writes
            simp only [le3]
            refine ⟨?_, rfl, by simp, by simp⟩
            simp [applyStores]; omega
          · rw [if_neg w3]
            by_cases w2 : w = 2
            · subst w2
              simp only [if_true]
              unfold Writes
              simp only [le2]
              refine ⟨?_, rfl, by simp, by simp⟩
              simp [applyStores]
            · rw [if_neg w2]
              have := writes_cons (192 + w) _ _ (extPutFixedWidth_eq u w h1 h8)
              simpa [External.encFixed] using this

/-- **`NZ` GetLen_ and GetLenQuick_** on the type byte -/
theorem splitNZGetLen_eq (p : Nat → Nat) (h0 : p 0 < 256) :
    splitNZGetLen p = Split.NZ.getLen (p 0) ∧ splitNZGetLenQuick p = Split.NZ.getLenQuick (p 0) := by
  unfold splitNZGetLen splitNZGetLenQuick Split.NZ.getLen Split.NZ.getLenQuick
  simp only [and192 (p 0) h0]
  generalize p 0 = b at *
  constructor
  · by_cases c1 : b < 64
    · have e : (((b / 64 * 64 : Nat) : Int) = (0 : Int)) := by omega
      simp only [e, if_true, if_pos c1]
    · have e1 : ¬ (((b / 64 * 64 : Nat) : Int) = (0 : Int)) := by omega
      rw [if_neg e1, if_neg c1]
      by_cases c2 : b < 128
      · have e : (((b / 64 * 64 : Nat) : Int) = (64 : Int)) := by omega
        simp only [e, if_true, if_pos c2]
      · have e2 : ¬ (((b / 64 * 64 : Nat) : Int) = (64 : Int)) := by omega
        rw [if_neg e2, if_neg c2]
        by_cases c3 : b < 192
        · have e : (((b / 64 * 64 : Nat) : Int) = (128 : Int)) := by omega
          simp only [e, if_true, if_pos c3]
        · have e3 : ¬ (((b / 64 * 64 : Nat) : Int) = (128 : Int)) := by omega
          have e4 : (((b / 64 * 64 : Nat) : Int) = (192 : Int)) := by omega
          rw [if_neg e3, if_neg c3, if_pos e4]
          omega
  · by_cases c : 192 ≤ b
    · have e4 : (((b / 64 * 64 : Nat) : Int) = (192 : Int)) := by omega
      rw [if_pos e4, if_pos c]; omega
    · have e4 : ¬ (((b / 64 * 64 : Nat) : Int) = (192 : Int)) := by omega
      rw [if_neg e4, if_neg c]
      have : ((b : Nat) : Int) / 2 ^ 6 = ((b / 64 : Nat) : Int) := by omega
      rw [this]; omega

set_option maxRecDepth 8000 in
/-- **`F` Get_ macro** on a buffer holding `bs`: whenever the model reads inside `bs` and the var byte announces a
    width an encoder produces (0..8) the C returns the model's (length, value) -/
theorem splitFullGet_eq (bs : List Nat) (hb : ∀ b ∈ bs, b < 256) (val n : Nat)
    (hw : ∀ b0 rest, bs = b0 :: rest → 192 ≤ b0 → b0 % 16 ≤ 8)
    (h : Split.F.dec bs = some (val, n)) :
    splitFullGet (bufOf bs) = (n, some val) := by
  cases bs with
  | nil => simp [Split.F.dec] at h
  | cons b0 rest =>
    have h0 : b0 < 256 := hb b0 (by simp)
    have hp0 : bufOf (b0 :: rest) 0 = b0 := rfl
    have q1 := bufOf_lt (b0 :: rest) hb 1
    have q2 := bufOf_lt (b0 :: rest) hb 2
    unfold splitFullGet
    simp only [hp0, and192 b0 h0]
    unfold Split.F.dec at h
    simp only [] at h
    have ha : (((((b0 % 64 : Nat) : Int)) % (2 ^ 64 : Int)).toNat) = b0 % 64 := by omega
    simp only [ha]
    by_cases c1 : b0 < 64
    · have e : (((b0 / 64 * 64 : Nat) : Int) = (0 : Int)) := by omega
      rw [if_pos e]
      rw [if_pos c1] at h
      simp only [Split.decLevel, takeExact, Nat.zero_le, if_true, List.take_zero, Option.map_some, ofBe,
        Option.some.injEq, Prod.mk.injEq] at h
      obtain ⟨hv, hn⟩ := h
      refine Prod.ext (by simp only []; omega) ?_
      simp only [Option.some.injEq]
      rw [← hv]; simp; omega
    · have e1 : ¬ (((b0 / 64 * 64 : Nat) : Int) = (0 : Int)) := by omega
      rw [if_neg e1]
      rw [if_neg c1] at h
      by_cases c2 : b0 < 128
      · have e : (((b0 / 64 * 64 : Nat) : Int) = (64 : Int)) := by omega
        rw [if_pos e]
        rw [if_pos c2] at h
        simp only [Split.decLevel] at h
        cases ht : takeExact 1 rest with
        | none => rw [ht] at h; simp at h
        | some pl =>
          rw [ht] at h
          simp only [Option.map_some, Option.some.injEq, Prod.mk.injEq] at h
          obtain ⟨hv, hn⟩ := h
          obtain ⟨hpe, hple, _⟩ := takeExact_some ht
          have hr := Dim.range_map_bufOf (b0 :: rest) 1 1 (by simp; omega)
          simp only [List.range, List.range.loop, List.map, Nat.add_zero, List.drop_succ_cons, List.drop_zero] at hr
          rw [← hpe] at hr
          rw [Split16.lvl1 _ _ (by omega) q1]
          refine Prod.ext (by simp only []; omega) ?_
          simp only [Option.some.injEq]
          rw [← hv, ← hr]
          simp only [ofBe, List.length_nil, Nat.pow_zero, Split16.p1, Nat.mul_one, Nat.add_zero]
      · have e2 : ¬ (((b0 / 64 * 64 : Nat) : Int) = (64 : Int)) := by omega
        rw [if_neg e2]
        rw [if_neg c2] at h
        by_cases c3 : b0 < 192
        · have e : (((b0 / 64 * 64 : Nat) : Int) = (128 : Int)) := by omega
          rw [if_pos e]
          rw [if_pos c3] at h
          simp only [Split.decLevel] at h
          cases ht : takeExact 2 rest with
          | none => rw [ht] at h; simp at h
          | some pl =>
            rw [ht] at h
            simp only [Option.map_some, Option.some.injEq, Prod.mk.injEq] at h
            obtain ⟨hv, hn⟩ := h
            obtain ⟨hpe, hple, _⟩ := takeExact_some ht
            have hr := Dim.range_map_bufOf (b0 :: rest) 1 2 (by simp; omega)
            simp only [List.range, List.range.loop, List.map, Nat.add_zero, List.drop_succ_cons, List.drop_zero,
              Nat.reduceAdd] at hr
            rw [← hpe] at hr
            rw [Split16.lvl2 _ _ _ (by omega) q1 q2]
            refine Prod.ext (by simp only []; omega) ?_
            simp only [Option.some.injEq]
            rw [← hv, ← hr]
            simp only [ofBe, List.length_cons, List.length_nil, Nat.pow_zero, Split16.p1, Split16.p2, Nat.mul_one,
              Nat.add_zero, Nat.zero_add]
            rw [show ∀ a b c d : Nat, a + b + c + d = a + (b + c) + d from fun a b c d => by omega]
        · have e3 : ¬ (((b0 / 64 * 64 : Nat) : Int) = (128 : Int)) := by omega
          have e4 : (((b0 / 64 * 64 : Nat) : Int) = (192 : Int)) := by omega
          rw [if_neg e3, if_pos e4]
          rw [if_neg c3] at h
          have hw8 := hw b0 rest rfl (by omega)
          have en : ((1 + ((((b0 % 16 : Nat) : Int)) % (2 ^ 32 : Int)).toNat) % 2 ^ 32) % 2 ^ 8 = 1 + b0 % 16 := by omega
          simp only [en]
          have ew : ((((1 + b0 % 16 : Nat) : Int) - (1 : Int)) % (2 ^ 32 : Int)).toNat = b0 % 16 := by omega
          simp only [ew]
          generalize hwd : b0 % 16 = w at *
          simp only [Split.decVar] at h
          cases ht : takeExact w rest with
          | none => rw [ht] at h; simp at h
          | some pl =>
            rw [ht] at h
            simp only [Option.map_some, Option.some.injEq, Prod.mk.injEq] at h
            obtain ⟨hv, hn⟩ := h
            obtain ⟨hpe, hple, _⟩ := takeExact_some ht
            have hm := Split16.medium_eq (b0 :: rest) hb w hw8 (by simp; omega)
            simp only [List.drop_succ_cons, List.drop_zero] at hm
            rw [← hpe] at hm
            rw [hm]
            refine Prod.ext (by simp only []; omega) ?_
            simp only [Option.some.injEq]
            rw [← hv]

/-- `|` on non-negative ints below 2^31 (the NoZero macro combines the promoted bytes without a cast to uint64_t) -/
theorem ibit2_or (a b : Nat) (ha : a < 2 ^ 31) (hb : b < 2 ^ 31) :
    ibit2 32 (· ||| ·) ((a : Nat) : Int) ((b : Nat) : Int) = (((a ||| b) : Nat) : Int) := by
  unfold ibit2 sx
  have e1 : (((a : Nat) : Int) % (2 ^ 32 : Int)).toNat = a := by omega
  have e2 : (((b : Nat) : Int) % (2 ^ 32 : Int)).toNat = b := by omega
  rw [e1, e2]
  have hor : a ||| b < 2 ^ 31 := Nat.or_lt_two_pow ha hb
  have e3 : (a ||| b) % 2 ^ 32 = a ||| b := Nat.mod_eq_of_lt (by omega)
  simp only [e3]
  rw [if_pos (by simpa using hor)]

theorem nzl1 (a b1 : Nat) (ha : a < 64) (h1 : b1 < 256) :
    ((ibit2 32 (· ||| ·) (((a : Nat) : Int) * 2 ^ 8) ((b1 : Nat) : Int)) % (2 ^ 64 : Int)).toNat = a * 256 + b1 := by
  have e : ((a : Nat) : Int) * 2 ^ 8 = ((a * 256 : Nat) : Int) := by omega
  rw [e, ibit2_or _ _ (by omega) (by omega), Tagged.or_eq_add (a * 256) b1 8 (by omega) (by omega)]
  omega

theorem nzl2 (a b1 b2 : Nat) (ha : a < 64) (h1 : b1 < 256) (h2 : b2 < 256) :
    ((ibit2 32 (· ||| ·) (ibit2 32 (· ||| ·) (((a : Nat) : Int) * 2 ^ 16) (((b1 : Nat) : Int) * 2 ^ 8)) ((b2 : Nat) : Int)) %
      (2 ^ 64 : Int)).toNat = a * 65536 + b1 * 256 + b2 := by
  have e1 : ((a : Nat) : Int) * 2 ^ 16 = ((a * 65536 : Nat) : Int) := by omega
  have e2 : ((b1 : Nat) : Int) * 2 ^ 8 = ((b1 * 256 : Nat) : Int) := by omega
  rw [e1, e2, ibit2_or _ _ (by omega) (by omega), Tagged.or_eq_add (a * 65536) (b1 * 256) 16 (by omega) (by omega),
    ibit2_or _ _ (by omega) (by omega), Tagged.or_eq_add _ b2 8 (by omega) (by omega)]
  omega

set_option maxRecDepth 8000 in
/-- **`NZ` Get_ macro** on a buffer holding `bs`: whenever the model reads inside `bs` and the var byte announces a
    width an encoder produces (0..8) the C returns the model's (length, value) -/
theorem splitNZGet_eq (bs : List Nat) (hb : ∀ b ∈ bs, b < 256) (val n : Nat)
    (hw : ∀ b0 rest, bs = b0 :: rest → 192 ≤ b0 → b0 % 16 ≤ 8)
    (h : Split.NZ.dec bs = some (val, n)) :
    splitNZGet (bufOf bs) = (n, some val) := by
  cases bs with
  | nil => simp [Split.NZ.dec] at h
  | cons b0 rest =>
    have h0 : b0 < 256 := hb b0 (by simp)
    have hp0 : bufOf (b0 :: rest) 0 = b0 := rfl
    have q1 := bufOf_lt (b0 :: rest) hb 1
    have q2 := bufOf_lt (b0 :: rest) hb 2
    unfold splitNZGet
    simp only [hp0, and192 b0 h0]
    unfold Split.NZ.dec at h
    simp only [] at h
    have ha : (((((b0 % 64 : Nat) : Int)) % (2 ^ 64 : Int)).toNat) = b0 % 64 := by omega
    simp only [ha]
    by_cases c1 : b0 < 64
    · have e : (((b0 / 64 * 64 : Nat) : Int) = (0 : Int)) := by omega
      rw [if_pos e]
      rw [if_pos c1] at h
      simp only [Split.decLevel, takeExact, Nat.zero_le, if_true, List.take_zero, Option.map_some, ofBe,
        Option.some.injEq, Prod.mk.injEq] at h
      obtain ⟨hv, hn⟩ := h
      rw [Nat.mod_eq_of_lt (show b0 % 64 + 1 < 2 ^ 64 by omega)]
      refine Prod.ext (by simp only []; omega) ?_
      simp only [Option.some.injEq]
      rw [← hv]; simp; omega
    · have e1 : ¬ (((b0 / 64 * 64 : Nat) : Int) = (0 : Int)) := by omega
      rw [if_neg e1]
      rw [if_neg c1] at h
      by_cases c2 : b0 < 128
      · have e : (((b0 / 64 * 64 : Nat) : Int) = (64 : Int)) := by omega
        rw [if_pos e]
        rw [if_pos c2] at h
        simp only [Split.decLevel] at h
        cases ht : takeExact 1 rest with
        | none => rw [ht] at h; simp at h
        | some pl =>
          rw [ht] at h
          simp only [Option.map_some, Option.some.injEq, Prod.mk.injEq] at h
          obtain ⟨hv, hn⟩ := h
          obtain ⟨hpe, hple, _⟩ := takeExact_some ht
          have hr := Dim.range_map_bufOf (b0 :: rest) 1 1 (by simp; omega)
          simp only [List.range, List.range.loop, List.map, Nat.add_zero, List.drop_succ_cons, List.drop_zero] at hr
          rw [← hpe] at hr
          rw [nzl1 _ _ (by omega) q1]
          refine Prod.ext (by simp only []; omega) ?_
          simp only [Option.some.injEq]
          rw [← hv, ← hr]
          simp only [ofBe, List.length_nil, Nat.pow_zero, Split16.p1, Nat.mul_one, Nat.add_zero]
      · have e2 : ¬ (((b0 / 64 * 64 : Nat) : Int) = (64 : Int)) := by omega
        rw [if_neg e2]
        rw [if_neg c2] at h
        by_cases c3 : b0 < 192
        · have e : (((b0 / 64 * 64 : Nat) : Int) = (128 : Int)) := by omega
          rw [if_pos e]
          rw [if_pos c3] at h
          simp only [Split.decLevel] at h
          cases ht : takeExact 2 rest with
          | none => rw [ht] at h; simp at h
          | some pl =>
            rw [ht] at h
            simp only [Option.map_some, Option.some.injEq, Prod.mk.injEq] at h
            obtain ⟨hv, hn⟩ := h
            obtain ⟨hpe, hple, _⟩ := takeExact_some ht
            have hr := Dim.range_map_bufOf (b0 :: rest) 1 2 (by simp; omega)
            simp only [List.range, List.range.loop, List.map, Nat.add_zero, List.drop_succ_cons, List.drop_zero,
              Nat.reduceAdd] at hr
            rw [← hpe] at hr
            rw [nzl2 _ _ _ (by omega) q1 q2]
            refine Prod.ext (by simp only []; omega) ?_
            simp only [Option.some.injEq]
            rw [← hv, ← hr]
            simp only [ofBe, List.length_cons, List.length_nil, Nat.pow_zero, Split16.p1, Split16.p2, Nat.mul_one,
              Nat.add_zero, Nat.zero_add]
            rw [show ∀ a b c d : Nat, a + b + c + d = a + (b + c) + d from fun a b c d => by omega]
        · have e3 : ¬ (((b0 / 64 * 64 : Nat) : Int) = (128 : Int)) := by omega
          have e4 : (((b0 / 64 * 64 : Nat) : Int) = (192 : Int)) := by omega
          rw [if_neg e3, if_pos e4]
          rw [if_neg c3] at h
          have hw8 := hw b0 rest rfl (by omega)
          have en : ((1 + ((((b0 % 16 : Nat) : Int)) % (2 ^ 32 : Int)).toNat) % 2 ^ 32) % 2 ^ 8 = 1 + b0 % 16 := by omega
          simp only [en]
          have ew : ((((1 + b0 % 16 : Nat) : Int) - (1 : Int)) % (2 ^ 32 : Int)).toNat = b0 % 16 := by omega
          simp only [ew]
          generalize hwd : b0 % 16 = w at *
          simp only [Split.decVar] at h
          cases ht : takeExact w rest with
          | none => rw [ht] at h; simp at h
          | some pl =>
            rw [ht] at h
            simp only [Option.map_some, Option.some.injEq, Prod.mk.injEq] at h
            obtain ⟨hv, hn⟩ := h
            obtain ⟨hpe, hple, _⟩ := takeExact_some ht
            have hm := Split16.medium_eq (b0 :: rest) hb w hw8 (by simp; omega)
            simp only [List.drop_succ_cons, List.drop_zero] at hm
            rw [← hpe] at hm
            rw [hm]
            refine Prod.ext (by simp only []; omega) ?_
            simp only [Option.some.injEq]
            rw [← hv]

end Varint.Bridge.SplitFull
