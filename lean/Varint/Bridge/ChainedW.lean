import Varint.Gen.CChainedW
import Varint.Model.Chained
import Varint.Lemmas.Bytes
import Varint.Lemmas.Chained
import Varint.Bridge.Loop
import Varint.Bridge.CSimple
import Varint.Bridge.External
import Varint.Lemmas.BitField
/-
  Bridge: the sqlite3 varint WRITER of src/varintChained.c — putVarint64 (nine-byte branch with its downward loop;
  general branch: groups staged in a local array by a do-while loop, flag cleared on buf[0], copied out reversed by a
  third loop), varintChainedPutVarint and varintChainedVarintLen — as translated by tools/c2lean2.py from the CURRENT
  source, equal the model Varint.Chained.enc / len for every 64-bit value.
-/
namespace Varint.Bridge.ChainedW
open Varint Varint.Gen.C Varint.Bridge Varint.Bridge.External

def g (u : Nat) : Nat := u % 128 + 128

theorem or128' (x : Nat) : ((x % 128) ||| 128) % 256 = x % 128 + 128 := Bridge.CSimple.or128 x

/-- stores of the downward loop: p[i] = g u, p[i-1] = g (u/128), … p[0] -/
def down : Nat → Nat → List (Nat × Nat)
  | 0, u => [(0, g u)]
  | i + 1, u => (i + 1, g u) :: down i (u / 128)

theorem loop1_run : ∀ (i f u : Nat) (ws bw : List (Nat × Nat)), i + 2 ≤ f →
    ∃ u', chainedPut64_loop1 f ((i : Int), u, ws, bw) = .done (-1, u', ws ++ down i u, bw) := by
  intro i
  induction i with
  | zero =>
    intro f u ws bw hf
    obtain ⟨f, rfl⟩ : ∃ k, f = k + 2 := ⟨f - 2, by omega⟩
    unfold chainedPut64_loop1
    simp only [Int.natCast_zero, Int.le_refl, ge_iff_le, if_true, Bridge.CSimple.or128, Int.toNat_zero]
    unfold chainedPut64_loop1
    have : ¬ ((0 : Int) - 1 ≥ 0) := by omega
    simp only [this, if_false, down, g]
    exact ⟨u / 2 ^ 7, by simp⟩
  | succ i ih =>
    intro f u ws bw hf
    obtain ⟨f, rfl⟩ : ∃ k, f = k + 1 := ⟨f - 1, by omega⟩
    unfold chainedPut64_loop1
    have hc : ((i + 1 : Nat) : Int) ≥ 0 := by omega
    rw [if_pos hc]
    simp only [Bridge.CSimple.or128]
    have e : ((i + 1 : Nat) : Int) - 1 = (i : Int) := by omega
    rw [e]
    obtain ⟨u', h⟩ := ih f (u / 2 ^ 7) (ws ++ [((((i + 1 : Nat) : Int)).toNat, u % 128 + 128)]) bw (by omega)
    refine ⟨u', ?_⟩
    rw [h]
    simp [down, g]

/-- stores of the staging loop: buf[n] = g v, buf[n+1] = g (v/128), … (k of them) -/
def up : Nat → Nat → Nat → List (Nat × Nat)
  | _, _, 0 => []
  | n, v, k + 1 => (n, g v) :: up (n + 1) (v / 128) k

theorem loop2_run : ∀ (f n v : Nat) (pw bw : List (Nat × Nat)), len7 v ≤ f →
    chainedPut64_loop2 f ((n : Int), v, pw, bw) = .done (((n + len7 v : Nat) : Int), 0, pw, bw ++ up n v (len7 v)) := by
  intro f
  induction f with
  | zero => intro n v pw bw h; have := len7_pos v; omega
  | succ f ih =>
    intro n v pw bw hf
    unfold chainedPut64_loop2
    simp only [Int.toNat_natCast, Nat.reducePow, or128']
    rw [len7_eq] at hf ⊢
    by_cases c : v < 128
    · have h0 : v / 128 = 0 := by omega
      simp only [h0, if_pos c, ne_eq, not_true_eq_false, if_false, up, g]
      simp
    · simp only [if_neg c] at hf ⊢
      have h0 : v / 128 ≠ 0 := by omega
      rw [if_pos h0]
      have e : ((n : Nat) : Int) + 1 = ((n + 1 : Nat) : Int) := by omega
      rw [e, ih (n + 1) (v / 128) pw _ (by omega)]
      have hp := len7_pos (v / 128)
      simp only [show 1 + len7 (v / 128) = len7 (v / 128) + 1 by omega, up, g]
      congr 2
      · congr 1; omega
      · simp

/-- stores of the copy-out loop: p[i] = buf[j], p[i+1] = buf[j-1], … -/
def rev (bw : List (Nat × Nat)) : Nat → Nat → List (Nat × Nat)
  | 0, i => [(i, rdw (fun _ => 0) bw 0)]
  | j + 1, i => (i, rdw (fun _ => 0) bw (j + 1)) :: rev bw j (i + 1)

theorem loop3_run (bw : List (Nat × Nat)) : ∀ (j f i : Nat) (pw : List (Nat × Nat)), j + 2 ≤ f →
    chainedPut64_loop3 f ((j : Int), (i : Int), pw, bw) = .done (-1, ((i + j + 1 : Nat) : Int), pw ++ rev bw j i, bw) := by
  intro j
  induction j with
  | zero =>
    intro f i pw hf
    obtain ⟨f, rfl⟩ : ∃ k, f = k + 2 := ⟨f - 2, by omega⟩
    unfold chainedPut64_loop3
    simp only [Int.natCast_zero, Int.le_refl, ge_iff_le, if_true, Int.toNat_zero, Int.toNat_natCast]
    unfold chainedPut64_loop3
    have : ¬ ((0 : Int) - 1 ≥ 0) := by omega
    simp only [this, if_false, rev]
    simp
  | succ j ih =>
    intro f i pw hf
    obtain ⟨f, rfl⟩ : ∃ k, f = k + 1 := ⟨f - 1, by omega⟩
    unfold chainedPut64_loop3
    have hc : ((j + 1 : Nat) : Int) ≥ 0 := by omega
    rw [if_pos hc]
    have e : ((j + 1 : Nat) : Int) - 1 = (j : Int) := by omega
    have e2 : ((i : Nat) : Int) + 1 = ((i + 1 : Nat) : Int) := by omega
    simp only [Int.toNat_natCast]
    rw [e, e2, ih f (i + 1) _ (by omega)]
    simp only [rev]
    have e3 : i + 1 + j + 1 = i + (j + 1) + 1 := by omega
    rw [e3]
    simp


/-- the top-byte test `v & 0xff00000000000000` -/
theorem and_top (v : Nat) (hv : v < 2 ^ 64) : v &&& 18374686479671623680 = v / 2 ^ 56 * 2 ^ 56 := by
  have hm : (18374686479671623680 : Nat) = BF.mask 8 <<< 56 := by decide
  rw [hm, ← Nat.shiftLeft_eq]
  apply Nat.eq_of_testBit_eq
  intro j
  rw [Nat.testBit_and, BF.testBit_mask_shift, Nat.testBit_shiftLeft, ← Nat.shiftRight_eq_div_pow,
    Nat.testBit_shiftRight]
  by_cases h1 : 56 ≤ j
  · by_cases h2 : j - 56 < 8
    · simp [h1, h2, show 56 + (j - 56) = j by omega]
    · have : v.testBit j = false :=
        Nat.testBit_lt_two_pow (Nat.lt_of_lt_of_le hv (Nat.pow_le_pow_right (by omega) (by omega)))
      simp [h1, h2, this, show 56 + (j - 56) = j by omega]
  · simp [h1]

theorem top_ne_zero_iff (v : Nat) (hv : v < 2 ^ 64) : (v &&& 18374686479671623680 ≠ 0) ↔ v / 2 ^ 56 % 256 ≠ 0 := by
  rw [and_top v hv]
  have : v / 2 ^ 56 < 256 := by omega
  constructor <;> intro h <;> omega

/-- the nine-byte branch -/
theorem put64_nine (v fuel : Nat) (hv : v < 2 ^ 64) (hf : 10 ≤ fuel) (ht : v / 2 ^ 56 % 256 ≠ 0) :
    ∃ stores, chainedPut64 fuel v = some (9, stores) ∧ Writes stores (Chained.flagged 8 (v / 256) ++ [v % 256]) := by
  unfold chainedPut64
  rw [if_pos ((top_ne_zero_iff v hv).2 ht)]
  simp only []
  obtain ⟨u', h⟩ := loop1_run 7 fuel (v / 2 ^ 8) [(8, v % 2 ^ 8)] [] (by omega)
  have h7 : ((7 : Nat) : Int) = (7 : Int) := rfl
  rw [h7] at h
  rw [h]
  refine ⟨_, rfl, ?_⟩
  unfold Writes
  simp only [down, g, Chained.flagged, Nat.reducePow, List.cons_append, List.nil_append]
  refine ⟨?_, by simp, by simp, by simp⟩
  simp [applyStores]
  omega


/-- the general branch for a value of `n` base-128 digits, n = 1..8 -/
theorem put64_groups (v fuel n : Nat) (hv : v < 2 ^ 64) (hf : 10 ≤ fuel) (ht : ¬ v / 2 ^ 56 % 256 ≠ 0)
    (hn : len7 v = n) (h18 : n = 1 ∨ n = 2 ∨ n = 3 ∨ n = 4 ∨ n = 5 ∨ n = 6 ∨ n = 7 ∨ n = 8) :
    ∃ stores, chainedPut64 fuel v = some (n, stores) ∧ Writes stores (Chained.groups n v) := by
  unfold chainedPut64
  rw [if_neg (fun h => ht ((top_ne_zero_iff v hv).1 h))]
  simp only []
  have h0 : ((0 : Nat) : Int) = (0 : Int) := rfl
  have hl2 := loop2_run fuel 0 v [] [] (by omega)
  rw [h0, hn] at hl2
  rw [hl2]
  simp only [Nat.zero_add, List.nil_append]
  have hl3 : ∀ (bw : List (Nat × Nat)) (j : Nat), j + 2 ≤ fuel →
      chainedPut64_loop3 fuel ((j : Int), (0 : Int), [], bw) = .done (-1, ((0 + j + 1 : Nat) : Int), [] ++ rev bw j 0, bw) := by
    intro bw j hj
    have := loop3_run bw j fuel 0 [] hj
    simpa using this
  rcases h18 with rfl | rfl | rfl | rfl | rfl | rfl | rfl | rfl
  · simp only [up, g, Nat.zero_add, Nat.reduceAdd]
    rw [show (((1 : Nat) : Int) - 1) = (((0 : Nat)) : Int) by omega, hl3 _ 0 (by omega)]
    simp only [show ((((1 : Nat) : Int)) % (2 ^ 32 : Int)).toNat = 1 by decide]
    refine ⟨_, rfl, ?_⟩
    simp only [rev, Nat.reduceAdd, List.nil_append]
    simp only [rdw, List.reverse_append, List.reverse_cons, List.reverse_nil, List.nil_append, List.cons_append,
      List.find?, Nat.reduceEqDiff, decide_true, decide_false, Nat.zero_add]
    unfold Writes
    simp only [Chained.groups, Nat.reducePow, Nat.pow_one]
    refine ⟨?_, by simp, by simp, by simp⟩
    simp [applyStores]
    try omega
  · simp only [up, g, Nat.zero_add, Nat.reduceAdd]
    rw [show (((2 : Nat) : Int) - 1) = (((1 : Nat)) : Int) by omega, hl3 _ 1 (by omega)]
    simp only [show ((((2 : Nat) : Int)) % (2 ^ 32 : Int)).toNat = 2 by decide]
    refine ⟨_, rfl, ?_⟩
    simp only [rev, Nat.reduceAdd, List.nil_append]
    simp only [rdw, List.reverse_append, List.reverse_cons, List.reverse_nil, List.nil_append, List.cons_append,
      List.find?, Nat.reduceEqDiff, decide_true, decide_false, Nat.zero_add]
    unfold Writes
    simp only [Chained.groups, Nat.reducePow, Nat.pow_one]
    refine ⟨?_, by simp, by simp, by simp⟩
    simp [applyStores]
    try omega
  · simp only [up, g, Nat.zero_add, Nat.reduceAdd]
    rw [show (((3 : Nat) : Int) - 1) = (((2 : Nat)) : Int) by omega, hl3 _ 2 (by omega)]
    simp only [show ((((3 : Nat) : Int)) % (2 ^ 32 : Int)).toNat = 3 by decide]
    refine ⟨_, rfl, ?_⟩
    simp only [rev, Nat.reduceAdd, List.nil_append]
    simp only [rdw, List.reverse_append, List.reverse_cons, List.reverse_nil, List.nil_append, List.cons_append,
      List.find?, Nat.reduceEqDiff, decide_true, decide_false, Nat.zero_add]
    unfold Writes
    simp only [Chained.groups, Nat.reducePow, Nat.pow_one]
    refine ⟨?_, by simp, by simp, by simp⟩
    simp [applyStores]
    try omega
  · simp only [up, g, Nat.zero_add, Nat.reduceAdd]
    rw [show (((4 : Nat) : Int) - 1) = (((3 : Nat)) : Int) by omega, hl3 _ 3 (by omega)]
    simp only [show ((((4 : Nat) : Int)) % (2 ^ 32 : Int)).toNat = 4 by decide]
    refine ⟨_, rfl, ?_⟩
    simp only [rev, Nat.reduceAdd, List.nil_append]
    simp only [rdw, List.reverse_append, List.reverse_cons, List.reverse_nil, List.nil_append, List.cons_append,
      List.find?, Nat.reduceEqDiff, decide_true, decide_false, Nat.zero_add]
    unfold Writes
    simp only [Chained.groups, Nat.reducePow, Nat.pow_one]
    refine ⟨?_, by simp, by simp, by simp⟩
    simp [applyStores]
    try omega
  · simp only [up, g, Nat.zero_add, Nat.reduceAdd]
    rw [show (((5 : Nat) : Int) - 1) = (((4 : Nat)) : Int) by omega, hl3 _ 4 (by omega)]
    simp only [show ((((5 : Nat) : Int)) % (2 ^ 32 : Int)).toNat = 5 by decide]
    refine ⟨_, rfl, ?_⟩
    simp only [rev, Nat.reduceAdd, List.nil_append]
    simp only [rdw, List.reverse_append, List.reverse_cons, List.reverse_nil, List.nil_append, List.cons_append,
      List.find?, Nat.reduceEqDiff, decide_true, decide_false, Nat.zero_add]
    unfold Writes
    simp only [Chained.groups, Nat.reducePow, Nat.pow_one]
    refine ⟨?_, by simp, by simp, by simp⟩
    simp [applyStores]
    try omega
  · simp only [up, g, Nat.zero_add, Nat.reduceAdd]
    rw [show (((6 : Nat) : Int) - 1) = (((5 : Nat)) : Int) by omega, hl3 _ 5 (by omega)]
    simp only [show ((((6 : Nat) : Int)) % (2 ^ 32 : Int)).toNat = 6 by decide]
    refine ⟨_, rfl, ?_⟩
    simp only [rev, Nat.reduceAdd, List.nil_append]
    simp only [rdw, List.reverse_append, List.reverse_cons, List.reverse_nil, List.nil_append, List.cons_append,
      List.find?, Nat.reduceEqDiff, decide_true, decide_false, Nat.zero_add]
    unfold Writes
    simp only [Chained.groups, Nat.reducePow, Nat.pow_one]
    refine ⟨?_, by simp, by simp, by simp⟩
    simp [applyStores]
    try omega
  · simp only [up, g, Nat.zero_add, Nat.reduceAdd]
    rw [show (((7 : Nat) : Int) - 1) = (((6 : Nat)) : Int) by omega, hl3 _ 6 (by omega)]
    simp only [show ((((7 : Nat) : Int)) % (2 ^ 32 : Int)).toNat = 7 by decide]
    refine ⟨_, rfl, ?_⟩
    simp only [rev, Nat.reduceAdd, List.nil_append]
    simp only [rdw, List.reverse_append, List.reverse_cons, List.reverse_nil, List.nil_append, List.cons_append,
      List.find?, Nat.reduceEqDiff, decide_true, decide_false, Nat.zero_add]
    unfold Writes
    simp only [Chained.groups, Nat.reducePow, Nat.pow_one]
    refine ⟨?_, by simp, by simp, by simp⟩
    simp [applyStores]
    try omega
  · simp only [up, g, Nat.zero_add, Nat.reduceAdd]
    rw [show (((8 : Nat) : Int) - 1) = (((7 : Nat)) : Int) by omega, hl3 _ 7 (by omega)]
    simp only [show ((((8 : Nat) : Int)) % (2 ^ 32 : Int)).toNat = 8 by decide]
    refine ⟨_, rfl, ?_⟩
    simp only [rev, Nat.reduceAdd, List.nil_append]
    simp only [rdw, List.reverse_append, List.reverse_cons, List.reverse_nil, List.nil_append, List.cons_append,
      List.find?, Nat.reduceEqDiff, decide_true, decide_false, Nat.zero_add]
    unfold Writes
    simp only [Chained.groups, Nat.reducePow, Nat.pow_one]
    refine ⟨?_, by simp, by simp, by simp⟩
    simp [applyStores]
    try omega


theorem groups_length : ∀ (n v : Nat), (Chained.groups n v).length = n
  | 0, _ => rfl
  | 1, _ => rfl
  | k + 2, v => by simp [Chained.groups, groups_length (k + 1) v]

theorem flagged_length : ∀ (n v : Nat), (Chained.flagged n v).length = n
  | 0, _ => rfl
  | k + 1, v => by simp [Chained.flagged, flagged_length k v]

/-- **`putVarint64(p, v)`** (the general writer behind `varintChainedPutVarint`) for every 64-bit value and every
    fuel ≥ 10: the return value is the length of the model's encoding, the memory left at p[0 … n-1] is the model's bytes,
    every index below n stored exactly once (the staging array `buf` is local), nothing at or beyond n -/
theorem chainedPut64_eq (v fuel : Nat) (hv : v < 2 ^ 64) (hf : 10 ≤ fuel) :
    ∃ stores, chainedPut64 fuel v = some ((Chained.enc v).length, stores) ∧ Writes stores (Chained.enc v) := by
  unfold Chained.enc
  by_cases ht : v / 2 ^ 56 % 256 ≠ 0
  · rw [if_pos ht]
    obtain ⟨st, h1, h2⟩ := put64_nine v fuel hv hf ht
    refine ⟨st, ?_, h2⟩
    rw [h1]; simp [flagged_length]
  · rw [if_neg ht]
    have hlt : v < 2 ^ 56 := by omega
    have h8 : len7 v ≤ 8 := len7_le_of_lt (by omega) (by
      calc v < 2 ^ 56 := hlt
        _ = 128 ^ 8 := by decide)
    have h1 := len7_pos v
    obtain ⟨st, h1', h2⟩ := put64_groups v fuel (len7 v) hv hf ht rfl (by omega)
    refine ⟨st, ?_, h2⟩
    rw [h1', groups_length]

/-- **`varintChainedPutVarint(p, v)`** incl. its one- and two-byte fast paths -/
theorem chainedPutVarint_eq (v fuel : Nat) (hv : v < 2 ^ 64) (hf : 10 ≤ fuel) :
    ∃ stores, chainedPutVarint fuel v = some ((Chained.enc v).length, stores) ∧ Writes stores (Chained.enc v) := by
  unfold chainedPutVarint
  by_cases c1 : v ≤ 127
  · rw [if_pos c1]
    have hl : len7 v = 1 := by rw [len7_eq, if_pos (by omega)]
    have he : Chained.enc v = [v % 128] := by
      unfold Chained.enc
      rw [if_neg (by omega), hl]; rfl
    rw [he]
    have e : (v % 128) % 2 ^ 8 = v % 128 := by omega
    simp only [e]
    refine ⟨_, rfl, ?_⟩
    unfold Writes
    simp [applyStores]
  · rw [if_neg c1]
    by_cases c2 : v ≤ 16383
    · rw [if_pos c2]
      have hl : len7 v = 2 := by
        rw [len7_eq, if_neg (by omega), len7_eq, if_pos (by omega)]
      have he : Chained.enc v = [v / 128 % 128 + 128, v % 128] := by
        unfold Chained.enc
        rw [if_neg (by omega), hl]
        simp [Chained.groups]
      rw [he]
      have e1 : (((v / 2 ^ 7) % 128) ||| 128) % 2 ^ 8 = v / 128 % 128 + 128 := by
        have := Bridge.CSimple.or128 (v / 2 ^ 7)
        simpa using this
      have e2 : (v % 128) % 2 ^ 8 = v % 128 := by omega
      simp only [e1, e2]
      refine ⟨_, rfl, ?_⟩
      unfold Writes
      simp [applyStores]
    · rw [if_neg c2]
      obtain ⟨st, h1, h2⟩ := chainedPut64_eq v fuel hv hf
      rw [h1]
      exact ⟨st, rfl, h2⟩

theorem lenW : ∀ (f v i : Nat), len7 v ≤ f → i + len7 v < 2 ^ 32 →
    chainedVarintLen_loop1 f (v, i) = .done (0, i + len7 v - 1) := by
  intro f
  induction f with
  | zero => intro v i h; have := len7_pos v; omega
  | succ f ih =>
    intro v i hf hi
    unfold chainedVarintLen_loop1
    simp only [Nat.reducePow]
    rw [len7_eq] at hf hi ⊢
    by_cases c : v < 128
    · have h0 : v / 128 = 0 := by omega
      simp only [h0, if_pos c, ne_eq, not_true_eq_false, if_false]
      rw [Nat.add_sub_cancel]
    · simp only [if_neg c] at hf hi ⊢
      have h0 : v / 128 ≠ 0 := by omega
      rw [if_pos h0]
      have hp := len7_pos (v / 128)
      rw [Nat.mod_eq_of_lt (by omega)]
      rw [ih (v / 128) (i + 1) (by omega) (by omega)]
      congr 2
      omega

/-- **`varintChainedVarintLen(v)`** -/
theorem chainedVarintLen_eq (v fuel : Nat) (hv : v < 2 ^ 64) (hf : 10 ≤ fuel) :
    chainedVarintLen fuel v = some (Chained.len v) := by
  have h10 : len7 v ≤ 10 := len7_le_of_lt (by omega) (by
    calc v < 2 ^ 64 := hv
      _ ≤ 128 ^ 10 := by decide)
  unfold chainedVarintLen Chained.len
  simp only []
  rw [lenW fuel v 1 (by omega) (by omega)]
  simp only []
  have hp := len7_pos v
  rw [show 1 + len7 v - 1 = len7 v by omega]

end Varint.Bridge.ChainedW
