import Varint.Gen.CBits
import Varint.Model.Bitstream
import Varint.Bridge.Loop
/-
  Bridge: the signed helpers of src/varintBitstream.h (`_varintBitstreamPrepareSigned`, `_varintBitstreamRestoreSigned`),
  expanded by clang inside harness/vw_bits.c and translated from the CURRENT header, equal the model's
  `prepareSigned` / `restoreSigned` for every field width 2..63.
-/
namespace Varint.Bridge.BitsSigned
open Varint Varint.Gen.C Varint.Bitstream

theorem sx64_small (x : Nat) (h : x < 2 ^ 63) : sx 64 x = (x : Int) := by
  unfold sx
  have : x % 2 ^ 64 = x := Nat.mod_eq_of_lt (by omega)
  rw [this, if_pos (by simpa using h)]

theorem pow_lt63 (n : Nat) (h2 : 2 ≤ n) (h63 : n ≤ 63) : 2 ^ (n - 1) < 2 ^ 63 ∧ 2 ^ (n - 1) < 2 ^ n :=
  ⟨Nat.pow_lt_pow_right (by omega) (by omega), Nat.pow_lt_pow_right (by omega) (by omega)⟩

/-- **`_varintBitstreamPrepareSigned(val, n)`** on a negative value whose magnitude fits n-1 bits -/
theorem bitsPrepareSigned_eq (s : Int) (n : Nat) (h2 : 2 ≤ n) (h63 : n ≤ 63) (hneg : s < 0)
    (hmag : (-s).toNat < 2 ^ (n - 1)) : bitsPrepareSigned s n = prepareSigned n s := by
  obtain ⟨hp63, hpn⟩ := pow_lt63 n h2 h63
  unfold bitsPrepareSigned prepareSigned
  rw [if_pos hneg]
  have e1 : (n + 2 ^ 32 - 1) % 2 ^ 32 = n - 1 := by omega
  have e2 : ((-s) % (2 ^ 64 : Int)).toNat = (-s).toNat := by omega
  have e3 : 1 * 2 ^ (n - 1) % 2 ^ 64 = 2 ^ (n - 1) := by
    rw [Nat.one_mul]; exact Nat.mod_eq_of_lt (by omega)
  simp only [e1, e2, e3]
  have hx : (-s).toNat ^^^ 2 ^ (n - 1) < 2 ^ 63 :=
    Nat.xor_lt_two_pow (by omega) hp63
  rw [sx64_small _ hx]
  omega

/-- **`_varintBitstreamRestoreSigned(result, n)`** on every n-bit stored value -/
theorem bitsRestoreSigned_eq (r n : Nat) (h2 : 2 ≤ n) (h63 : n ≤ 63) (hr : r < 2 ^ n) :
    bitsRestoreSigned r n = restoreSigned n r := by
  obtain ⟨hp63, hpn⟩ := pow_lt63 n h2 h63
  have hn63 : 2 ^ n ≤ 2 ^ 63 := Nat.pow_le_pow_right (by omega) h63
  unfold bitsRestoreSigned restoreSigned
  have e1 : (n + 2 ^ 32 - 1) % 2 ^ 32 = n - 1 := by omega
  have e3 : 1 * 2 ^ (n - 1) % 2 ^ 64 = 2 ^ (n - 1) := by
    rw [Nat.one_mul]; exact Nat.mod_eq_of_lt (by omega)
  simp only [e1, e3]
  rw [sx64_small r (by omega)]
  have ediv : ((r : Nat) : Int) / 2 ^ (n - 1) = ((r / 2 ^ (n - 1) : Nat) : Int) := by
    rw [Int.natCast_ediv]; rfl
  rw [ediv]
  have emod : ((r : Nat) : Int) % (2 ^ 64 : Int) = ((r : Nat) : Int) := by omega
  by_cases c : r / 2 ^ (n - 1) % 2 = 1
  · have c' : (((r / 2 ^ (n - 1) : Nat) : Int) % (2 : Int)) ≠ 0 := by omega
    rw [if_pos c', if_pos c]
    have e2 : (((r : Nat) : Int) % (2 ^ 64 : Int)).toNat = r := by omega
    simp only [e2]
    have hx : r ^^^ 2 ^ (n - 1) < 2 ^ 63 := Nat.xor_lt_two_pow (by omega) hp63
    rw [sx64_small _ hx]
  · have c' : ¬ (((r / 2 ^ (n - 1) : Nat) : Int) % (2 : Int)) ≠ 0 := by omega
    rw [if_neg c', if_neg c]

end Varint.Bridge.BitsSigned
