import Varint.Gen.CPFOR
import Varint.Model.PFOR
import Varint.Bridge.Loop
import Varint.Bridge.Tagged
/-
  Bridge: varintPFORCalculateMarker and varintPFORSize (the advertised size of a PFOR encoding: a loop that adds the
  worst-case exception record once per exception) of src/varintPFOR.c, as translated by tools/c2lean2.py from the CURRENT
  source, equal the model's `PFOR.marker` / `PFOR.size`. (`varintPFORGetAt` is translated too; it has no bridge yet.)
-/
namespace Varint.Bridge.PFOR
open Varint Varint.Gen.C Varint.Bridge

/-- **`varintPFORCalculateMarker(w)`** for every width -/
theorem pforMarker_eq (w : Nat) (hw : w < 2 ^ 28) : pforMarker w = PFOR.marker w := by
  unfold pforMarker PFOR.marker
  by_cases c : w ≥ 8
  · rw [if_pos c, if_pos c]
  · rw [if_neg c, if_neg c]
    have hw8 : w = 0 ∨ w = 1 ∨ w = 2 ∨ w = 3 ∨ w = 4 ∨ w = 5 ∨ w = 6 ∨ w = 7 := by omega
    rcases hw8 with rfl | rfl | rfl | rfl | rfl | rfl | rfl | rfl <;> decide

theorem len_max : Tagged.len 18446744073709551615 = 9 := by decide

theorem size_loop (cnt ec L : Nat) (hL : L ≤ 9) :
    ∀ (n i sz : Nat), i + n = ec → ec < 2 ^ 32 → sz + 18 * n < 2 ^ 64 → ∀ fuel, n < fuel →
      (∀ k, pforSize_loop1 cnt ec fuel (i, sz) = k →
        (taggedLen (if cnt > 0 then (cnt + 2 ^ 32 - 1) % 2 ^ 32 else 0) = L) → k = .done (ec, sz + n * (L + 9))) := by
  intro n
  induction n with
  | zero =>
    intro i sz hi hec hsz fuel hf k hk hl
    obtain ⟨f, rfl⟩ : ∃ f', fuel = f' + 1 := ⟨fuel - 1, by omega⟩
    have c : ¬ i < ec := by omega
    have : i = ec := by omega
    subst this
    rw [← hk]
    simp [pforSize_loop1]
  | succ n ih =>
    intro i sz hi hec hsz fuel hf k hk hl
    obtain ⟨f, rfl⟩ : ∃ f', fuel = f' + 1 := ⟨fuel - 1, by omega⟩
    have c : i < ec := by omega
    rw [← hk]
    simp only [pforSize_loop1, if_pos c, hl]
    rw [Tagged.taggedLen_eq 18446744073709551615 (by decide), len_max]
    have e1 : (i + 1) % 2 ^ 32 = i + 1 := Nat.mod_eq_of_lt (by omega)
    have e2 : ((sz + L) % 2 ^ 64 + 9) % 2 ^ 64 = sz + (L + 9) := by omega
    rw [e1, e2]
    rw [ih (i + 1) (sz + (L + 9)) (by omega) hec (by omega) f (by omega) _ rfl hl]
    congr 2
    rw [Nat.succ_mul]; omega

/-- **`varintPFORSize(meta)`** = the model's advertised size, for every 64-bit minimum, 32-bit count and exception count,
    width ≤ 8; every fuel above the exception count -/
theorem pforSize_eq (m : PFOR.Meta) (hmn : m.min < 2 ^ 64) (hc : m.count < 2 ^ 32) (hw : m.width ≤ 8)
    (he : m.exceptionCount < 2 ^ 32) (fuel : Nat) (hf : m.exceptionCount < fuel) :
    pforSize fuel m.min m.count m.width m.exceptionCount = some (PFOR.size m) := by
  have l1 := (Tagged.len_bounds m.min).2
  have l2 := (Tagged.len_bounds m.count).2
  have l3 := (Tagged.len_bounds m.exceptionCount).2
  have l4 := (Tagged.len_bounds (m.count - 1)).2
  have hcw : m.count * m.width ≤ 2 ^ 32 * 8 := Nat.mul_le_mul (by omega) hw
  have harg : (if m.count > 0 then (m.count + 2 ^ 32 - 1) % 2 ^ 32 else 0) = m.count - 1 := by
    split <;> omega
  have hL : taggedLen (if m.count > 0 then (m.count + 2 ^ 32 - 1) % 2 ^ 32 else 0) = Tagged.len (m.count - 1) := by
    rw [harg, Tagged.taggedLen_eq _ (by omega)]
  unfold pforSize PFOR.size
  simp only []
  rw [Tagged.taggedLen_eq _ hmn, Tagged.taggedLen_eq _ (by omega), Tagged.taggedLen_eq _ (by omega)]
  have e : ((((((0 + Tagged.len m.min) % 2 ^ 64 + 1) % 2 ^ 64 + Tagged.len m.count) % 2 ^ 64 +
      m.count * m.width % 2 ^ 64) % 2 ^ 64 + Tagged.len m.exceptionCount) % 2 ^ 64) =
      Tagged.len m.min + 1 + Tagged.len m.count + m.count * m.width + Tagged.len m.exceptionCount := by omega
  rw [e]
  have := size_loop m.count m.exceptionCount (Tagged.len (m.count - 1)) l4 m.exceptionCount 0
    (Tagged.len m.min + 1 + Tagged.len m.count + m.count * m.width + Tagged.len m.exceptionCount) (by omega) he
    (by omega) fuel hf _ rfl hL
  rw [this]

end Varint.Bridge.PFOR
