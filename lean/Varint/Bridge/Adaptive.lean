import Varint.Gen.CAdaptive
import Varint.Model.Adaptive
import Varint.Bridge.Loop
import Varint.Bridge.Tagged
import Varint.Bridge.RLE
/-
  Bridge: varintAdaptiveCheckSorted of src/varintAdaptive.c, as translated by tools/c2lean2.py from the CURRENT
  source (loop with early exit), equals the model's isAsc / isDesc for every array.
-/
namespace Varint.Bridge.Adaptive
open Varint Varint.Gen.C Varint.Bridge Varint.Adaptive

def post (a d : Nat) : Int := if a ≠ 0 then 1 else if d ≠ 0 then -1 else 0

def finish : LoopR (Nat × Nat × Nat) Int → Option Int
  | .ret r => some r
  | .done (_, a, d) => some (post a d)
  | .nofuel => none

/-- what the function must answer from a state in which `prev :: rest` is still to be compared -/
def res (a d : Nat) (l : List Nat) : Int :=
  if a ≠ 0 ∧ isAsc l = true then 1 else if d ≠ 0 ∧ isDesc l = true then -1 else 0

theorem check_loop (xs : List Nat) (hn : xs.length < 2 ^ 63) :
    ∀ (rest : List Nat) (prev fuel i a d : Nat), 1 ≤ i → xs.drop (i - 1) = prev :: rest →
      rest.length + 1 ≤ fuel →
      finish (adaptiveCheckSorted_loop1 (Bridge.Tagged.bufOf xs) xs.length fuel (i, a, d)) =
        some (res a d (prev :: rest)) := by
  intro rest
  induction rest with
  | nil =>
    intro prev fuel i a d hi hd hf
    obtain ⟨fuel, rfl⟩ : ∃ g, fuel = g + 1 := ⟨fuel - 1, by simp at hf; omega⟩
    have hl : (xs.drop (i - 1)).length = 1 := by rw [hd]; rfl
    rw [List.length_drop] at hl
    have : ¬ i < xs.length := by omega
    unfold adaptiveCheckSorted_loop1
    rw [if_neg this]
    simp [finish, post, res, isAsc, isDesc]
  | cons x rest ih =>
    intro prev fuel i a d hi hd hf
    simp only [List.length_cons] at hf
    obtain ⟨fuel, rfl⟩ : ∃ g, fuel = g + 1 := ⟨fuel - 1, by omega⟩
    have hl : (xs.drop (i - 1)).length = rest.length + 2 := by rw [hd]; rfl
    rw [List.length_drop] at hl
    have hil : i < xs.length := by omega
    have hprev : Bridge.Tagged.bufOf xs (i - 1) = prev := Bridge.RLE.bufOf_drop xs (i - 1) prev (x :: rest) hd
    have hd1 : xs.drop i = x :: rest := by
      have := Bridge.RLE.drop_succ_of_drop xs (i - 1) prev (x :: rest) hd
      rwa [show i - 1 + 1 = i by omega] at this
    have hx : Bridge.Tagged.bufOf xs i = x := Bridge.RLE.bufOf_drop xs i x rest hd1
    have hm : (i + 2 ^ 64 - 1) % 2 ^ 64 = i - 1 := by omega
    have hi1 : (i + 1) % 2 ^ 64 = i + 1 := Nat.mod_eq_of_lt (by omega)
    have hz : (if ((if ((0 : Int) ≠ 0) then 1 else 0) ≠ 0) then 1 else 0) = 0 := by decide
    unfold adaptiveCheckSorted_loop1
    simp only [if_pos hil, hm, hprev, hx, hz, hi1]
    have ihx := fun a' d' => ih x fuel (i + 1) a' d' (by omega) (by simpa using hd1) (by omega)
    by_cases c1 : x < prev <;> by_cases c2 : x > prev
    · omega
    · -- descending step
      simp only [if_pos c1, if_neg c2]
      by_cases hd0 : d = 0
      · simp [hd0, finish, res, isAsc, isDesc, c1, Nat.not_le.2 c1]
      · have : ¬ (¬ ((0 : Nat) ≠ 0) ∧ ¬ (d ≠ 0)) := by simp [hd0]
        rw [if_neg this, ihx 0 d]
        simp [res, isAsc, isDesc, Nat.not_le.2 c1, Nat.le_of_lt c1]
    · -- ascending step
      simp only [if_neg c1, if_pos c2]
      by_cases ha0 : a = 0
      · simp [ha0, finish, res, isAsc, isDesc, c2, Nat.not_le.2 c2]
      · have : ¬ (¬ (a ≠ 0) ∧ ¬ ((0 : Nat) ≠ 0)) := by simp [ha0]
        rw [if_neg this, ihx a 0]
        simp [res, isAsc, isDesc, Nat.not_le.2 c2, Nat.le_of_lt c2]
    · -- equal neighbours
      have he : x = prev := by omega
      simp only [if_neg c1, if_neg c2]
      by_cases h0 : a = 0 ∧ d = 0
      · simp [h0.1, h0.2, finish, res]
      · have : ¬ (¬ (a ≠ 0) ∧ ¬ (d ≠ 0)) := by
          intro h; apply h0; exact ⟨by simpa using h.1, by simpa using h.2⟩
        rw [if_neg this, ihx a d]
        simp [res, isAsc, isDesc, he]

/-- **`varintAdaptiveCheckSorted(values, count)`** for every array and every fuel ≥ count: 1 when non-decreasing,
    otherwise -1 when non-increasing, otherwise 0 — no neighbour pair is skipped -/
theorem adaptiveCheckSorted_eq (xs : List Nat) (hn : xs.length < 2 ^ 63) (fuel : Nat) (hf : xs.length ≤ fuel) :
    adaptiveCheckSorted fuel (Bridge.Tagged.bufOf xs) xs.length =
      some (if isAsc xs then 1 else if isDesc xs then -1 else 0) := by
  unfold adaptiveCheckSorted
  by_cases c : xs.length ≤ 1
  · rw [if_pos c]
    match xs, c with
    | [], _ => simp [isAsc]
    | [x], _ => simp [isAsc]
  · rw [if_neg c]
    match xs, c, hn, hf with
    | [], c, _, _ => exact absurd (by simp) c
    | [_], c, _, _ => exact absurd (by simp) c
    | x0 :: x1 :: t, _, hn, hf =>
      have h := check_loop (x0 :: x1 :: t) hn (x1 :: t) x0 fuel 1 1 1 (by omega) (by simp) (by simp at hf ⊢; omega)
      have ho : (if ((if ((1 : Int) ≠ 0) then 1 else 0) ≠ 0) then 1 else 0) = 1 := by decide
      simp only [ho]
      cases hl : adaptiveCheckSorted_loop1 (Bridge.Tagged.bufOf (x0 :: x1 :: t)) (x0 :: x1 :: t).length fuel (1, 1, 1) with
      | nofuel => rw [hl] at h; simp [finish] at h
      | ret r =>
        rw [hl] at h
        simp only [finish, Option.some.injEq] at h
        rw [h]; simp [res]
      | done st =>
        obtain ⟨i', a', d'⟩ := st
        rw [hl] at h
        simp only [finish, Option.some.injEq, post] at h
        simp only []
        rw [← (by simp [res] : res 1 1 (x0 :: x1 :: t) = (if isAsc (x0 :: x1 :: t) then 1 else if isDesc (x0 :: x1 :: t) then -1 else 0)), ← h]
        by_cases ha : a' ≠ 0
        · simp [ha]
        · by_cases hd : d' ≠ 0
          · simp [ha, hd]
          · simp [ha, hd]

end Varint.Bridge.Adaptive
