import Varint.Gen.CBits
import Varint.Model.Bitstream
import Varint.Lemmas.BitField
import Varint.Bridge.Loop
/-
  Bridge: varintBitstreamSet / varintBitstreamGet of src/varintBitstream.h (64-bit slots), as translated by
  tools/c2lean2.py from the CURRENT header — pointer to the slot, read-modify-write of one or two slots — equal the
  hand-written model Varint.Bitstream.set/get for EVERY bit offset below 2^64, every width 1..64, every value that
  fits, every prior contents.
-/
namespace Varint.Bridge.Bits
open Varint Varint.Gen.C Varint.Bridge Varint.BF

theorem testBit_false_of_lt {x k j : Nat} (hx : x < 2 ^ k) (hj : k ≤ j) : x.testBit j = false :=
  Nat.testBit_lt_two_pow (Nat.lt_of_lt_of_le hx (Nat.pow_le_pow_right (by omega) hj))

/-- `x & ~m` on 64-bit words -/
theorem testBit_andNot64 (x m j : Nat) (hx : x < 2 ^ 64) (hm : m < 2 ^ 64) :
    (x &&& (2 ^ 64 - 1 - m)).testBit j = (x.testBit j && !m.testBit j) := by
  rw [Nat.testBit_and, show 2 ^ 64 - 1 - m = 2 ^ 64 - (m + 1) by omega, Nat.testBit_two_pow_sub_succ hm]
  by_cases hj : j < 64
  · simp [hj]
  · simp [hj, testBit_false_of_lt hx (by omega : 64 ≤ j)]

theorem mask_mul_lt (n a : Nat) (h : a + n ≤ 64) : (2 ^ n - 1) * 2 ^ a < 2 ^ 64 := by
  have h1 : (2 ^ n - 1) * 2 ^ a < 2 ^ n * 2 ^ a :=
    Nat.mul_lt_mul_of_pos_right (by have := Nat.two_pow_pos n; omega) (Nat.two_pow_pos a)
  rw [← Nat.pow_add] at h1
  exact Nat.lt_of_lt_of_le h1 (Nat.pow_le_pow_right (by omega) (by omega))

theorem val_mul_lt (v n a : Nat) (hv : v < 2 ^ n) (h : a + n ≤ 64) : v * 2 ^ a < 2 ^ 64 := by
  have h1 : v * 2 ^ a < 2 ^ n * 2 ^ a := Nat.mul_lt_mul_of_pos_right hv (Nat.two_pow_pos a)
  rw [← Nat.pow_add] at h1
  exact Nat.lt_of_lt_of_le h1 (Nat.pow_le_pow_right (by omega) (by omega))

/-- the single-slot store of the C is the model's `insert` -/
theorem cword_insert (x a n v : Nat) (hx : x < 2 ^ 64) (han : a + n ≤ 64) (hv : v < 2 ^ n) :
    (x &&& (2 ^ 64 - 1 - ((2 ^ n - 1) * 2 ^ a % 2 ^ 64))) ||| (v * 2 ^ a % 2 ^ 64) = insert x a n v := by
  rw [Nat.mod_eq_of_lt (mask_mul_lt n a han), Nat.mod_eq_of_lt (val_mul_lt v n a hv han)]
  apply Nat.eq_of_testBit_eq
  intro j
  rw [Nat.testBit_or, testBit_andNot64 x _ j hx (mask_mul_lt n a han), testBit_insert x a n v j hv,
    ← Nat.shiftLeft_eq, ← Nat.shiftLeft_eq, show 2 ^ n - 1 = mask n from rfl, testBit_mask_shift,
    Nat.testBit_shiftLeft]
  by_cases h1 : a ≤ j
  · by_cases h2 : j - a < n
    · have : a ≤ j ∧ j < a + n := ⟨h1, by omega⟩
      simp [h1, h2, this]
    · have : ¬ (a ≤ j ∧ j < a + n) := by omega
      have h3 : a + n ≤ j := by omega
      simp [h1, h2, h3, testBit_false_of_lt hv (by omega : n ≤ j - a)]
  · have : ¬ (a ≤ j ∧ j < a + n) := by omega
    simp [h1]


theorem mask_div (h b : Nat) : (2 ^ (h + b) - 1) / 2 ^ b = 2 ^ h - 1 := by
  have hA := Nat.two_pow_pos h
  have hB := Nat.two_pow_pos b
  rw [Nat.pow_add]
  have hP : 2 ^ b ≤ 2 ^ h * 2 ^ b := Nat.le_mul_of_pos_left _ hA
  apply Nat.div_eq_of_lt_le
  · rw [Nat.sub_mul, Nat.one_mul]; generalize 2 ^ h * 2 ^ b = P at *; omega
  · rw [Nat.sub_add_cancel hA]; generalize 2 ^ h * 2 ^ b = P at *; omega

/-- first slot of a write that spills into the next slot: the top `high` bits of the value go to the low end -/
theorem cword_first (x high hb v : Nat) (hx : x < 2 ^ 64) (hh : high ≤ 64) (hv : v < 2 ^ (high + hb)) :
    (x &&& (2 ^ 64 - 1 - (2 ^ (high + hb) - 1) / 2 ^ hb)) ||| (v / 2 ^ hb) = insert x 0 high (v >>> hb) := by
  have hv' : v / 2 ^ hb < 2 ^ high := by
    apply Nat.div_lt_of_lt_mul; rw [← Nat.pow_add, Nat.add_comm]; exact hv
  have := cword_insert x 0 high (v / 2 ^ hb) hx (by omega) hv'
  rw [mask_div, Nat.shiftRight_eq_div_pow]
  simp only [Nat.pow_zero, Nat.mul_one] at this
  rw [Nat.mod_eq_of_lt (by have := Nat.pow_le_pow_right (show 0 < 2 by omega) hh; omega),
    Nat.mod_eq_of_lt (Nat.lt_of_lt_of_le hv' (Nat.pow_le_pow_right (by omega) hh))] at this
  exact this

/-- second slot: the low `hb` bits of the value go to the top end; the C's mask and value are shifted out of the
    64-bit word, which is what cuts them to `hb` bits -/
theorem cword_second (y n hb v : Nat) (hy : y < 2 ^ 64) (h1 : 1 ≤ hb) (h2 : hb ≤ n) (h3 : hb ≤ 64) :
    (y &&& (2 ^ 64 - 1 - ((2 ^ n - 1) * 2 ^ (64 - hb) % 2 ^ 64))) ||| (v * 2 ^ (64 - hb) % 2 ^ 64) =
      insert y (64 - hb) hb (v &&& mask hb) := by
  have hvm : v &&& mask hb < 2 ^ hb := Nat.and_lt_two_pow v (by unfold mask; have := Nat.two_pow_pos hb; omega)
  apply Nat.eq_of_testBit_eq
  intro j
  rw [Nat.testBit_or, testBit_andNot64 y _ j hy (Nat.mod_lt _ (Nat.two_pow_pos 64)),
    testBit_insert y (64 - hb) hb _ j hvm, Nat.testBit_mod_two_pow, Nat.testBit_mod_two_pow,
    ← Nat.shiftLeft_eq, ← Nat.shiftLeft_eq, show 2 ^ n - 1 = mask n from rfl, testBit_mask_shift,
    Nat.testBit_shiftLeft, Nat.testBit_and, testBit_mask]
  by_cases hj : j < 64
  · by_cases hl : 64 - hb ≤ j
    · have c : 64 - hb ≤ j ∧ j < 64 - hb + hb := ⟨hl, by omega⟩
      have d1 : j - (64 - hb) < n := by omega
      have d2 : j - (64 - hb) < hb := by omega
      simp [hj, hl, c, d1, d2]
    · have c : ¬ (64 - hb ≤ j ∧ j < 64 - hb + hb) := by omega
      simp [hj, hl]
  · have c : ¬ (j < 64 - hb + hb) := by omega
    simp [hj, c, testBit_false_of_lt hy (by omega : 64 ≤ j)]


theorem sx32_small (x : Nat) (h : x < 2 ^ 31) : sx 32 x = (x : Int) := by
  unfold sx
  have : x % 2 ^ 32 = x := Nat.mod_eq_of_lt (by omega)
  rw [this, if_pos (by simpa using h)]

theorem rdw_nil (m : Nat → Nat) (i : Nat) : rdw m [] i = m i := rfl
theorem rdw_other (m : Nat → Nat) (i b : Nat) : rdw m [(i, b)] (i + 1) = m (i + 1) := by
  simp [rdw]

theorem full_mask (n : Nat) (hn : n ≤ 64) : (2 ^ 64 - 1 - 0) / 2 ^ ((64 + 2 ^ 64 - n) % 2 ^ 64) = 2 ^ n - 1 := by
  have e : (64 + 2 ^ 64 - n) % 2 ^ 64 = 64 - n := by omega
  rw [e, Nat.sub_zero]
  have := mask_div n (64 - n)
  rw [show n + (64 - n) = 64 by omega] at this
  exact this

/-- the stores of `varintBitstreamSet(dst, off, n, v)` in terms of the model's bit-field `insert` -/
theorem bitstreamSet_stores (mem : Nat → Nat) (hm : ∀ j, mem j < 2 ^ 64) (off n v : Nat) (hoff : off < 2 ^ 64)
    (hn1 : 1 ≤ n) (hn : n ≤ 64) (hv : v < 2 ^ n) :
    bitstreamSet mem off n v =
      if n ≤ 64 - off % 64 then [(off / 64, insert (mem (off / 64)) (64 - off % 64 - n) n v)]
      else [(off / 64, insert (mem (off / 64)) 0 (64 - off % 64) (v >>> (n - (64 - off % 64)))),
            (off / 64 + 1, insert (mem (off / 64 + 1)) (64 - (n - (64 - off % 64))) (n - (64 - off % 64))
                (v &&& mask (n - (64 - off % 64))))] := by
  have ho : off % 64 < 64 := Nat.mod_lt _ (by omega)
  unfold bitstreamSet
  have e64 : (8 * 8) % 2 ^ 64 = 64 := by decide
  simp only [e64]
  have e1 : (64 + 2 ^ 64 - off % 64) % 2 ^ 64 = 64 - off % 64 := by omega
  rw [e1, sx32_small (64 - off % 64) (by omega), sx32_small n (by omega), full_mask n hn]
  by_cases c : n ≤ 64 - off % 64
  · have c' : (((64 - off % 64 : Nat) : Int) - (n : Int)) ≥ (0 : Int) := by omega
    rw [if_pos c', if_pos c]
    have e2 : (((64 - off % 64 : Nat) : Int) - (n : Int)).toNat = 64 - off % 64 - n := by omega
    simp only [e2, rdw_nil]
    rw [cword_insert (mem (off / 64)) (64 - off % 64 - n) n v (hm _) (by omega) hv]
  · have c' : ¬ ((((64 - off % 64 : Nat) : Int) - (n : Int)) ≥ (0 : Int)) := by omega
    rw [if_neg c', if_neg c]
    have e3 : ((-(((64 - off % 64 : Nat) : Int) - (n : Int))) % (2 ^ 32 : Int)).toNat = n - (64 - off % 64) := by omega
    simp only [e3]
    have e4 : ((64 + 2 ^ 64 - (n - (64 - off % 64))) % 2 ^ 64) % 2 ^ 32 = 64 - (n - (64 - off % 64)) := by omega
    simp only [e4, rdw_nil, rdw_other]
    have hsplit : n = (64 - off % 64) + (n - (64 - off % 64)) := by omega
    have h1 := cword_first (mem (off / 64)) (64 - off % 64) (n - (64 - off % 64)) v (hm _) (by omega)
      (by rw [← hsplit]; exact hv)
    rw [← hsplit] at h1
    rw [h1, cword_second (mem (off / 64 + 1)) n (n - (64 - off % 64)) v (hm _) (by omega) (by omega) (by omega)]


/-- the slot array seen as memory -/
def memOf (ws : List Nat) : Nat → Nat := fun j => ws.getD j 0

theorem memOf_lt (ws : List Nat) (h : ∀ w ∈ ws, w < 2 ^ 64) (j : Nat) : memOf ws j < 2 ^ 64 := by
  unfold memOf
  rw [List.getD_eq_getElem?_getD]
  cases e : ws[j]? with
  | none => simp
  | some w => simp only [Option.getD_some]; exact h w (List.mem_of_getElem? e)

/-- **`varintBitstreamSet`**: carrying out the C's stores on the slot array gives the model's array — for every bit
    offset below 2^64, every width 1..64, every value that fits and every prior contents -/
theorem bitstreamSet_eq (ws : List Nat) (hws : ∀ w ∈ ws, w < 2 ^ 64) (off n v : Nat) (hoff : off < 2 ^ 64)
    (hn1 : 1 ≤ n) (hn : n ≤ 64) (hv : v < 2 ^ n) :
    applyStores ws (bitstreamSet (memOf ws) off n v) = Bitstream.set 64 ws off n v := by
  rw [bitstreamSet_stores (memOf ws) (memOf_lt ws hws) off n v hoff hn1 hn hv]
  unfold Bitstream.set
  simp only []
  by_cases c : n ≤ 64 - off % 64
  · rw [if_pos c, if_pos c]; rfl
  · rw [if_neg c, if_neg c]
    simp only [applyStores, List.foldl_cons, List.foldl_nil, memOf]
    congr 2
    rw [List.getD_eq_getElem?_getD, List.getD_eq_getElem?_getD, List.getElem?_set_ne (by omega)]

/-- **`varintBitstreamGet`** reads what the model reads -/
theorem bitstreamGet_eq (ws : List Nat) (hws : ∀ w ∈ ws, w < 2 ^ 64) (off n : Nat) (hoff : off < 2 ^ 64)
    (hn1 : 1 ≤ n) (hn : n ≤ 64) :
    bitstreamGet (memOf ws) off n = Bitstream.get 64 ws off n := by
  have ho : off % 64 < 64 := Nat.mod_lt _ (by omega)
  unfold bitstreamGet Bitstream.get
  have e64 : (8 * 8) % 2 ^ 64 = 64 := by decide
  simp only [e64]
  have e1 : (64 + 2 ^ 64 - off % 64) % 2 ^ 64 = 64 - off % 64 := by omega
  rw [e1, sx32_small (64 - off % 64) (by omega), sx32_small n (by omega), full_mask n hn]
  by_cases c : n ≤ 64 - off % 64
  · have c' : (((64 - off % 64 : Nat) : Int) - (n : Int)) ≥ (0 : Int) := by omega
    rw [if_pos c', if_pos c]
    have e2 : (((64 - off % 64 : Nat) : Int) - (n : Int)).toNat = 64 - off % 64 - n := by omega
    simp only [e2, extract, mask, Nat.shiftRight_eq_div_pow, memOf]
  · have c' : ¬ ((((64 - off % 64 : Nat) : Int) - (n : Int)) ≥ (0 : Int)) := by omega
    rw [if_neg c', if_neg c]
    have e3 : ((-(((64 - off % 64 : Nat) : Int) - (n : Int))) % (2 ^ 32 : Int)).toNat = n - (64 - off % 64) := by omega
    simp only [e3]
    have e4 : ((64 + 2 ^ 64 - (n - (64 - off % 64))) % 2 ^ 64) % 2 ^ 32 = 64 - (n - (64 - off % 64)) := by omega
    simp only [e4]
    have hsplit : n = (64 - off % 64) + (n - (64 - off % 64)) := by omega
    have hmd := mask_div (64 - off % 64) (n - (64 - off % 64))
    rw [← hsplit] at hmd
    rw [hmd]
    have hx := memOf_lt ws hws (off / 64)
    have hy := memOf_lt ws hws (off / 64 + 1)
    -- the high part, shifted up, stays inside the word
    have hhi : memOf ws (off / 64) &&& (2 ^ (64 - off % 64) - 1) < 2 ^ (64 - off % 64) :=
      Nat.and_lt_two_pow _ (by have := Nat.two_pow_pos (64 - off % 64); omega)
    have hmul : (memOf ws (off / 64) &&& (2 ^ (64 - off % 64) - 1)) * 2 ^ (n - (64 - off % 64)) < 2 ^ 64 := by
      have h1 := Nat.mul_lt_mul_of_pos_right hhi (Nat.two_pow_pos (n - (64 - off % 64)))
      rw [← Nat.pow_add, ← hsplit] at h1
      exact Nat.lt_of_lt_of_le h1 (Nat.pow_le_pow_right (by omega) hn)
    rw [Nat.mod_eq_of_lt hmul]
    -- the low part is already below 2^hb
    have hlo : memOf ws (off / 64 + 1) / 2 ^ (64 - (n - (64 - off % 64))) < 2 ^ (n - (64 - off % 64)) := by
      apply Nat.div_lt_of_lt_mul
      rw [← Nat.pow_add, show 64 - (n - (64 - off % 64)) + (n - (64 - off % 64)) = 64 by omega]
      exact hy
    simp only [extract, mask, Nat.shiftRight_eq_div_pow, Nat.shiftLeft_eq, Nat.pow_zero, Nat.div_one]
    congr 1
    exact (Nat.and_two_pow_sub_one_of_lt_two_pow hlo).symm

end Varint.Bridge.Bits
