import Varint.Gen.CElias
import Varint.Model.Elias
import Varint.Lemmas.Elias
import Varint.Bridge.Loop
/-
  Bridge: the code-length functions of src/varintElias.c — floorLog2 (shift loop), varintEliasGammaBits,
  varintEliasDeltaBits — as translated by tools/c2lean2.py from the CURRENT source, equal the model's
  `log2` / `gammaBits` / `deltaBits` for every 64-bit value ≥ 1 and every fuel ≥ 65.
-/
namespace Varint.Bridge.Elias
open Varint Varint.Gen.C Varint.Bits

theorem log2_step (v : Nat) (h : 2 ≤ v) : Nat.log2 v = Nat.log2 (v / 2) + 1 := by
  rw [Nat.log2_def]
  simp [h]

theorem log2_small (v : Nat) (h : v ≤ 1) : Nat.log2 v = 0 := by
  rw [Nat.log2_def]
  have : ¬ 2 ≤ v := by omega
  simp [this]

theorem floorLog2_loop : ∀ (fuel v l : Nat), Nat.log2 v < fuel → l + Nat.log2 v < 2 ^ 64 →
    ∃ v', eliasFloorLog2_loop1 fuel (v, l) = .done (v', l + Nat.log2 v) := by
  intro fuel
  induction fuel with
  | zero => intro v l h; omega
  | succ f ih =>
    intro v l hf hl
    by_cases c : v > 1
    · have hs := log2_step v (by omega)
      simp only [eliasFloorLog2_loop1, if_pos c, Nat.pow_one]
      rw [Nat.mod_eq_of_lt (by omega)]
      obtain ⟨v', hv'⟩ := ih (v / 2) (l + 1) (by omega) (by omega)
      exact ⟨v', by rw [hv', hs]; congr 2; omega⟩
    · have hs := log2_small v (by omega)
      simp only [eliasFloorLog2_loop1, if_neg c]
      exact ⟨v, by rw [hs]; rfl⟩

/-- **`floorLog2(v)`** = ⌊log2 v⌋ -/
theorem eliasFloorLog2_eq (v fuel : Nat) (hv : v < 2 ^ 64) (hf : 65 ≤ fuel) :
    eliasFloorLog2 fuel v = some (log2 v) := by
  have h63 : Nat.log2 v ≤ 63 := by
    by_cases c : v = 0
    · subst c; rw [log2_small 0 (by omega)]; omega
    · exact Varint.Elias.log2_le_63 v (by omega) hv
  obtain ⟨v', h⟩ := floorLog2_loop fuel v 0 (by omega) (by omega)
  unfold eliasFloorLog2 log2
  simp only [h, Nat.zero_add]

/-- **`varintEliasGammaBits`, `varintEliasDeltaBits`** = the model's code lengths, for every 64-bit value -/
theorem eliasBits_eq (v fuel : Nat) (hv : v < 2 ^ 64) (hf : 65 ≤ fuel) :
    eliasGammaBits fuel v = some (Varint.Elias.gammaBits v) ∧ eliasDeltaBits fuel v = some (Varint.Elias.deltaBits v) := by
  have h63 : log2 v ≤ 63 := by
    unfold log2
    by_cases c : v = 0
    · subst c; rw [log2_small 0 (by omega)]; omega
    · exact Varint.Elias.log2_le_63 v (by omega) hv
  have h63' : log2 (log2 v + 1) ≤ 63 := by
    unfold log2
    exact Varint.Elias.log2_le_63 _ (by omega) (by unfold log2 at h63; omega)
  constructor
  · unfold eliasGammaBits Varint.Elias.gammaBits
    rw [eliasFloorLog2_eq v fuel hv hf]
    simp only []
    rw [Nat.mod_eq_of_lt (show 2 * log2 v < 2 ^ 64 by omega), Nat.mod_eq_of_lt (by omega)]
  · unfold eliasDeltaBits eliasGammaBits Varint.Elias.deltaBits Varint.Elias.gammaBits
    rw [eliasFloorLog2_eq v fuel hv hf]
    simp only []
    rw [Nat.mod_eq_of_lt (show log2 v + 1 < 2 ^ 64 by omega), eliasFloorLog2_eq _ fuel (by omega) hf]
    simp only []
    rw [Nat.mod_eq_of_lt (show 2 * log2 (log2 v + 1) < 2 ^ 64 by omega),
      Nat.mod_eq_of_lt (show 2 * log2 (log2 v + 1) + 1 < 2 ^ 64 by omega), Nat.mod_eq_of_lt (by omega)]

end Varint.Bridge.Elias
