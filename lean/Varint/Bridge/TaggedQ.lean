import Varint.Gen.CTaggedQ
import Varint.Model.Tagged
import Varint.Lemmas.Tagged
import Varint.Bridge.Tagged
/-
  Bridge: the inline ("quick") macros of src/varintTagged.h — varintTaggedLenQuick, varintTaggedGetLenQuick_,
  varintTaggedGet64Quick_, varintTaggedPut64FixedWidthQuick_ — expanded by clang inside harness/vw_tagged.c from the
  CURRENT header and translated by tools/c2lean2.py.  The put macro is expanded with an argument of low operator
  precedence (`lo | hi`): a parameter used without parentheses inside the macro would change the translated term.
-/
namespace Varint.Bridge.TaggedQ
open Varint Varint.Gen.C

/-- `varintTaggedLenQuick(v)` = `varintTaggedLen(v)` = the model's length -/
theorem taggedLenQuick_eq (v : Nat) (hv : v < 2 ^ 64) : taggedLenQuick v = Tagged.len v := by
  unfold taggedLenQuick
  rw [Bridge.Tagged.taggedLen_eq v hv]
  have hb := Tagged.len_bounds v
  unfold Tagged.len at *
  repeat' split
  all_goals omega

/-- `varintTaggedGetLenQuick_(z)` looks at the first byte only -/
theorem taggedGetLenQuick_eq (z : Nat → Nat) (h : z 0 < 256) : taggedGetLenQuick z = Tagged.getLen (z 0) := by
  unfold taggedGetLenQuick Tagged.getLen
  repeat' split
  all_goals omega

/-- **`varintTaggedPut64FixedWidthQuick_(dst, lo | hi, width)`** stores exactly what
    `varintTaggedPut64FixedWidth(dst, lo | hi, width)` stores — for every value and every width argument -/
theorem taggedPutFixedQuick_eq (lo hi w : Nat) :
    taggedPutFixedQuick lo hi w = (taggedPut64FixedWidth (lo ||| hi) w).2 := by
  unfold taggedPutFixedQuick taggedPut64FixedWidth
  simp only []
  by_cases c1 : w = 1
  · simp [c1]
  · by_cases c2 : w = 2
    · simp [c2]
    · by_cases c3 : w = 3
      · simp [c3]
      · simp [c1, c2, c3]


/-- **`varintTaggedGet64Quick_(src)`** on a buffer holding `bs`: the model's quick reader (inline arms for the one-,
    two- and three-byte forms, `varintTaggedGet64ReturnValue` otherwise) -/
theorem taggedGet64Quick_eq (bs : List Nat) (hb : ∀ b ∈ bs, b < 256) (v : Nat) (h : Tagged.getQuick bs = some v) :
    taggedGet64Quick (Bridge.Tagged.bufOf bs) = v := by
  cases bs with
  | nil => simp [Tagged.getQuick] at h
  | cons b0 rest =>
    have h0 : b0 < 256 := hb b0 (by simp)
    have hp0 : Bridge.Tagged.bufOf (b0 :: rest) 0 = b0 := rfl
    unfold taggedGet64Quick
    unfold Tagged.getQuick at h
    simp only [hp0] at h ⊢
    by_cases c1 : b0 ≤ 240
    · rw [if_pos c1] at h
      rw [if_pos (by omega)]
      simpa using h
    · rw [if_neg c1] at h
      rw [if_neg (by omega)]
      by_cases c2 : b0 ≤ 248
      · rw [if_pos c2] at h
        rw [if_pos (by omega)]
        cases rest with
        | nil => simp at h
        | cons b1 r =>
          have h1 : b1 < 256 := hb b1 (by simp)
          have hp1 : Bridge.Tagged.bufOf (b0 :: b1 :: r) 1 = b1 := rfl
          simp only [hp1]
          simp only [Option.some.injEq] at h
          omega
      · rw [if_neg c2] at h
        rw [if_neg (by omega)]
        by_cases c3 : b0 = 249
        · rw [if_pos c3] at h
          rw [if_pos (by omega)]
          cases rest with
          | nil => simp at h
          | cons b1 r =>
            cases r with
            | nil => simp at h
            | cons b2 r2 =>
              have h1 : b1 < 256 := hb b1 (by simp)
              have h2 : b2 < 256 := hb b2 (by simp)
              have hp1 : Bridge.Tagged.bufOf (b0 :: b1 :: b2 :: r2) 1 = b1 := rfl
              have hp2 : Bridge.Tagged.bufOf (b0 :: b1 :: b2 :: r2) 2 = b2 := rfl
              simp only [hp1, hp2]
              simp only [Option.some.injEq] at h
              omega
        · rw [if_neg c3] at h
          rw [if_neg (by omega)]
          unfold taggedGet64ReturnValue
          cases hg : Tagged.get (b0 :: rest) with
          | fault => rw [hg] at h; simp at h
          | short => rw [hg] at h; simp at h
          | ok v' l =>
            rw [hg] at h
            simp only [Option.some.injEq] at h
            have hnf : Tagged.get (b0 :: rest) ≠ .fault := by rw [hg]; simp
            simp only [Bridge.Tagged.taggedGet64_eq (b0 :: rest) hb hnf, hg, Option.getD_some]
            exact h

end Varint.Bridge.TaggedQ
