import Varint.Gen.CRLEDec
import Varint.Model.RLE
import Varint.Lemmas.RLE
import Varint.Lemmas.RLEH
import Varint.Bridge.Loop
import Varint.Bridge.Tagged
import Varint.Bridge.TaggedAdd
import Varint.Bridge.RLE
/-
  Bridge: varintRLEDecodeRun and varintRLEDecode of src/varintRLE.c (outer loop over runs, inner fill loop), as
  translated by tools/c2lean2.py from the CURRENT source, equal the model Varint.RLE.dec for EVERY byte string the
  model can read and every capacity below 2^63 — hostile run lengths included.
-/
namespace Varint.Bridge.RLEDec
open Varint Varint.Gen.C Varint.Bridge Varint.RLE

theorem taggedGet64_ok (bs : List Nat) (hb : ∀ b ∈ bs, b < 256) (v n : Nat) (h : Tagged.get bs = .ok v n) :
    taggedGet64 (Bridge.Tagged.bufOf bs) = (n, some v) := by
  unfold taggedGet64
  have hnf : Tagged.get bs ≠ .fault := by rw [h]; simp
  simp only [Bridge.Tagged.taggedGet64_eq bs hb hnf, h, Option.orElse]

/-- `varintRLEDecodeRun(src, &len, &val)` reads what the model's `getRun` reads -/
theorem rleDecodeRun_eq (bs : List Nat) (hb : ∀ b ∈ bs, b < 256) (l v : Nat) (rest : List Nat)
    (h : getRun bs = some (l, v, rest)) :
    ∃ n, rleDecodeRun (Bridge.Tagged.bufOf bs) = (n, some l, some v) ∧ rest = bs.drop n := by
  unfold getRun at h
  cases h1 : Tagged.get bs with
  | fault => rw [h1] at h; simp at h
  | short => rw [h1] at h; simp at h
  | ok l' n1 =>
    rw [h1] at h
    simp only [] at h
    cases h2 : Tagged.get (bs.drop n1) with
    | fault => rw [h2] at h; simp at h
    | short => rw [h2] at h; simp at h
    | ok v' n2 =>
      rw [h2] at h
      simp only [Option.some.injEq, Prod.mk.injEq] at h
      obtain ⟨rfl, rfl, rfl⟩ := h
      refine ⟨n1 + n2, ?_, rfl⟩
      unfold rleDecodeRun
      have e1 := taggedGet64_ok bs hb l' n1 h1
      have e2 : taggedGet64 (fun i => Bridge.Tagged.bufOf bs (n1 + i)) = (n2, some v') := by
        rw [Bridge.RLE.bufOf_shift]
        exact taggedGet64_ok _ (Bridge.RLE.mem_drop_lt bs hb n1) v' n2 h2
      simp only [e1, e2, Option.getD_some]
      have hn1 : n1 ≤ 9 := by
        have := Bounded.getN_ok_bounds bs 9 l' n1 h1; omega
      have hn2 : n2 ≤ 9 := by
        have := Bounded.getN_ok_bounds (bs.drop n1) 9 v' n2 h2; omega
      have : (((((n1 + n2 : Nat) : Int) - ((0 : Nat) : Int))) % (2 ^ 64 : Int)).toNat = n1 + n2 := by omega
      rw [this]

/-- the fill loop writes `w - i` copies -/
theorem fill_loop (total v w : Nat) (hw : total + w < 2 ^ 64) :
    ∀ (k fuel i : Nat) (ws : List (Nat × Nat)), i + k = w → k + 1 ≤ fuel →
      rleDecode_loop2 total v w fuel (i, ws) = .done (w, ws ++ storesFrom (total + i) (List.replicate k v)) := by
  intro k
  induction k with
  | zero =>
    intro fuel i ws hi hf
    obtain ⟨fuel, rfl⟩ : ∃ g, fuel = g + 1 := ⟨fuel - 1, by omega⟩
    unfold rleDecode_loop2
    have : ¬ i < w := by omega
    rw [if_neg this]
    simp; omega
  | succ k ih =>
    intro fuel i ws hi hf
    obtain ⟨fuel, rfl⟩ : ∃ g, fuel = g + 1 := ⟨fuel - 1, by omega⟩
    unfold rleDecode_loop2
    have : i < w := by omega
    rw [if_pos this]
    have e1 : (i + 1) % 2 ^ 64 = i + 1 := Nat.mod_eq_of_lt (by omega)
    have e2 : (total + i) % 2 ^ 64 = total + i := Nat.mod_eq_of_lt (by omega)
    simp only [e1, e2]
    rw [ih fuel (i + 1) _ (by omega) (by omega)]
    simp [List.replicate_succ, Nat.add_assoc]


/-- the outer loop of `varintRLEDecode` follows the model from every position -/
theorem decode_loop (bs : List Nat) (hb : ∀ b ∈ bs, b < 256) (cap : Nat) (hcap : cap < 2 ^ 63) :
    ∀ (mf fuel ptr total : Nat) (ws : List (Nat × Nat)) (out : List Nat), total ≤ cap → cap - total < mf →
      2 * (cap - total) + 2 ≤ fuel →
      decAux mf (cap - total) (bs.drop ptr) = some out →
      ∃ p', rleDecode_loop1 (Bridge.Tagged.bufOf bs) cap fuel (ptr, total, ws) =
        .done (p', total + out.length, ws ++ storesFrom total out) := by
  intro mf
  induction mf with
  | zero => intro fuel ptr total ws out _ h; omega
  | succ mf ih =>
    intro fuel ptr total ws out ht hmf hfu h
    obtain ⟨fuel, rfl⟩ : ∃ g, fuel = g + 1 := ⟨fuel - 1, by omega⟩
    unfold decAux at h
    unfold rleDecode_loop1
    by_cases c0 : cap - total = 0
    · rw [if_pos c0] at h
      have : ¬ total < cap := by omega
      rw [if_neg this]
      simp only [Option.some.injEq] at h
      subst h
      exact ⟨ptr, by simp⟩
    · rw [if_neg c0] at h
      have hlt : total < cap := by omega
      rw [if_pos hlt]
      cases hg : getRun (bs.drop ptr) with
      | none => rw [hg] at h; simp at h
      | some r =>
        obtain ⟨l, v, rest⟩ := r
        rw [hg] at h
        simp only [] at h
        obtain ⟨n, hrun, hrest⟩ := rleDecodeRun_eq (bs.drop ptr) (Bridge.RLE.mem_drop_lt bs hb ptr) l v rest hg
        rw [Bridge.RLE.bufOf_shift, hrun]
        simp only [Option.getD_some]
        by_cases hl0 : l = 0
        · rw [if_pos hl0] at h
          rw [if_pos hl0]
          simp only [Option.some.injEq] at h
          subst h
          exact ⟨ptr + n, by simp⟩
        · rw [if_neg hl0] at h
          rw [if_neg hl0]
          have eroom : (cap + 2 ^ 64 - total) % 2 ^ 64 = cap - total := by omega
          simp only [eroom]
          by_cases hge : l ≥ cap - total
          · rw [if_pos hge] at h
            simp only [Option.some.injEq] at h
            subst h
            by_cases hgt : l > cap - total
            · rw [if_pos hgt]
              rw [fill_loop total v (cap - total) (by omega) (cap - total) fuel 0 ws (by omega) (by omega)]
              simp only []
              have e3 : (total + (cap - total)) % 2 ^ 64 = total + (cap - total) := Nat.mod_eq_of_lt (by omega)
              rw [e3, if_pos hgt]
              exact ⟨ptr + n, by simp⟩
            · have hle : l = cap - total := by omega
              rw [if_neg hgt]
              rw [fill_loop total v l (by omega) l fuel 0 ws (by omega) (by omega)]
              simp only []
              have e3 : (total + l) % 2 ^ 64 = total + l := Nat.mod_eq_of_lt (by omega)
              rw [e3, if_neg (Nat.lt_irrefl l)]
              -- one more iteration: the loop condition is false now
              obtain ⟨fuel, rfl⟩ : ∃ g, fuel = g + 1 := ⟨fuel - 1, by omega⟩
              unfold rleDecode_loop1
              have : ¬ total + l < cap := by omega
              rw [if_neg this]
              exact ⟨ptr + n, by simp [hle]⟩
          · rw [if_neg hge] at h
            have hgt : ¬ l > cap - total := by omega
            rw [if_neg hgt]
            rw [fill_loop total v l (by omega) l fuel 0 ws (by omega) (by omega)]
            simp only []
            have e3 : (total + l) % 2 ^ 64 = total + l := Nat.mod_eq_of_lt (by omega)
            rw [e3, if_neg (Nat.lt_irrefl l)]
            cases hrec : decAux mf (cap - total - l) rest with
            | none => rw [hrec] at h; simp at h
            | some out' =>
              rw [hrec] at h
              simp only [Option.map_some, Option.some.injEq] at h
              subst h
              have hrest' : rest = bs.drop (ptr + n) := by rw [hrest, List.drop_drop]
              rw [hrest', show cap - total - l = cap - (total + l) by omega] at hrec
              obtain ⟨p', hp'⟩ := ih fuel (ptr + n) (total + l)
                (ws ++ storesFrom (total + 0) (List.replicate l v)) out' (by omega) (by omega) (by omega) hrec
              refine ⟨p', ?_⟩
              rw [hp']
              simp [storesFrom_append, Nat.add_assoc]

/-- **`varintRLEDecode(src, values, maxCount)`** on ANY bytes the model can read (valid, hostile run lengths up to
    2^64-1, zero-length runs …) and every capacity below 2^63: the C returns the model's count and stores exactly the
    model's values at values[0], values[1], … in order — in particular never at an index ≥ maxCount -/
theorem rleDecode_eq (bs : List Nat) (hb : ∀ b ∈ bs, b < 256) (cap : Nat) (hcap : cap < 2 ^ 63) (out : List Nat)
    (h : RLE.dec bs cap = some out) (fuel : Nat) (hf : 2 * cap + 2 ≤ fuel) :
    rleDecode fuel (Bridge.Tagged.bufOf bs) cap = some (out.length, storesFrom 0 out) := by
  unfold rleDecode
  simp only []
  unfold RLE.dec at h
  obtain ⟨p', hp'⟩ := decode_loop bs hb cap hcap (cap + 1) fuel 0 0 [] out (by omega) (by omega) (by omega)
    (by simpa using h)
  rw [hp']
  simp


theorem encRuns_lt (rs : List (Nat × Nat)) (hr : ∀ r ∈ rs, r.1 < 2 ^ 64 ∧ r.2 < 2 ^ 64) :
    ∀ b ∈ encRuns rs, b < 256 := by
  intro b hb
  unfold encRuns at hb
  rw [List.mem_flatMap] at hb
  obtain ⟨⟨l, v⟩, hm, hb⟩ := hb
  have := hr _ hm
  rcases List.mem_append.1 hb with h | h
  · exact Tagged.enc_lt l this.1 b h
  · exact Tagged.enc_lt v this.2 b h

theorem enc_lt (xs : List Nat) (hx : ∀ x ∈ xs, x < 2 ^ 64) (hn : xs.length < 2 ^ 64) :
    ∀ b ∈ RLE.enc xs, b < 256 := by
  apply encRuns_lt
  intro r hr
  refine ⟨?_, hx _ (RLE.runs_vals xs r hr)⟩
  have := RLE.le_total_of_mem (RLE.runs xs) r hr
  rw [RLE.total_runs] at this
  omega


/-! ### varintRLEDecodeWithHeader, varintRLEGetAt, varintRLEGetCount -/

theorem encRuns_cons' (l v : Nat) (rs : List (Nat × Nat)) :
    encRuns ((l, v) :: rs) = (Tagged.enc l ++ Tagged.enc v) ++ encRuns rs := by
  simp [encRuns]


/-- the fill loop of the header variant: `min (l - i) (cap - dec)` copies -/
theorem fillH_loop (cap l v : Nat) (hcap : cap < 2 ^ 63) :
    ∀ (k fuel i dec : Nat) (ws : List (Nat × Nat)), i ≤ l → dec ≤ cap → i + (cap - dec) < 2 ^ 64 →
      k = min (l - i) (cap - dec) → k + 1 ≤ fuel →
      ∃ i', rleDecodeWithHeader_loop2 cap l v fuel (i, dec, ws) =
        .done (i', dec + k, ws ++ storesFrom dec (List.replicate k v)) := by
  intro k
  induction k with
  | zero =>
    intro fuel i dec ws hi hd hsum hk hf
    obtain ⟨fuel, rfl⟩ : ∃ g, fuel = g + 1 := ⟨fuel - 1, by omega⟩
    unfold rleDecodeWithHeader_loop2
    have : ¬ (i < l ∧ dec < cap) := by omega
    rw [if_neg this]
    exact ⟨i, by simp⟩
  | succ k ih =>
    intro fuel i dec ws hi hd hsum hk hf
    obtain ⟨fuel, rfl⟩ : ∃ g, fuel = g + 1 := ⟨fuel - 1, by omega⟩
    unfold rleDecodeWithHeader_loop2
    have : i < l ∧ dec < cap := by omega
    rw [if_pos this]
    have e1 : (dec + 1) % 2 ^ 64 = dec + 1 := Nat.mod_eq_of_lt (by omega)
    have e2 : (i + 1) % 2 ^ 64 = i + 1 := Nat.mod_eq_of_lt (by omega)
    simp only [e1, e2]
    obtain ⟨i', h⟩ := ih fuel (i + 1) (dec + 1) (ws ++ [(dec, v)]) (by omega) (by omega) (by omega) (by omega) (by omega)
    refine ⟨i', ?_⟩
    rw [h]
    simp [List.replicate_succ, Nat.add_assoc, Nat.add_comm 1 k]

theorem decodeH_loop (bs : List Nat) (hb : ∀ b ∈ bs, b < 256) (cap total : Nat) (hcap : cap < 2 ^ 63) :
    ∀ (mf fuel ptr dec : Nat) (ws : List (Nat × Nat)) (out : List Nat), dec ≤ cap →
      mf + cap + 1 ≤ fuel →
      decHAux mf dec total cap (bs.drop ptr) = some out →
      ∃ p', rleDecodeWithHeader_loop1 (Bridge.Tagged.bufOf bs) cap total fuel (ptr, dec, ws) =
        .done (p', dec + out.length, ws ++ storesFrom dec out) := by
  intro mf
  induction mf with
  | zero => intro fuel ptr dec ws out _ _ h; simp [decHAux] at h
  | succ mf ih =>
    intro fuel ptr dec ws out hd hfu h
    obtain ⟨fuel, rfl⟩ : ∃ g, fuel = g + 1 := ⟨fuel - 1, by omega⟩
    unfold decHAux at h
    unfold rleDecodeWithHeader_loop1
    by_cases c0 : dec ≥ total ∨ dec ≥ cap
    · rw [if_pos c0] at h
      have : ¬ (dec < total ∧ dec < cap) := by omega
      rw [if_neg this]
      simp only [Option.some.injEq] at h
      subst h
      exact ⟨ptr, by simp⟩
    · rw [if_neg c0] at h
      have hlt : dec < total ∧ dec < cap := by omega
      rw [if_pos hlt]
      cases hg : getRun (bs.drop ptr) with
      | none => rw [hg] at h; simp at h
      | some r =>
        obtain ⟨l, v, rest⟩ := r
        rw [hg] at h
        simp only [] at h
        obtain ⟨n, hrun, hrest⟩ := rleDecodeRun_eq (bs.drop ptr) (Bridge.RLE.mem_drop_lt bs hb ptr) l v rest hg
        rw [Bridge.RLE.bufOf_shift, hrun]
        simp only [Option.getD_some]
        obtain ⟨i', hfill⟩ := fillH_loop cap l v hcap (min l (cap - dec)) fuel 0 dec ws (by omega) hd (by omega) (by simp)
          (by have := Nat.min_le_right l (cap - dec); omega)
        rw [hfill]
        simp only []
        cases hrec : decHAux mf (dec + min l (cap - dec)) total cap rest with
        | none => rw [hrec] at h; simp at h
        | some out' =>
          rw [hrec] at h
          simp only [Option.map_some, Option.some.injEq] at h
          subst h
          have hrest' : rest = bs.drop (ptr + n) := by rw [hrest, List.drop_drop]
          rw [hrest'] at hrec
          have hmin := Nat.min_le_right l (cap - dec)
          obtain ⟨p', hp'⟩ := ih fuel (ptr + n) (dec + min l (cap - dec))
            (ws ++ storesFrom dec (List.replicate (min l (cap - dec)) v)) out' (by omega) (by omega) hrec
          refine ⟨p', ?_⟩
          rw [hp']
          simp [storesFrom_append, Nat.add_assoc]

/-- **`varintRLEDecodeWithHeader(src, values, maxCount)`** on any readable bytes: a declared count above the capacity
    is the documented failure (returns 0, stores nothing); otherwise the model's values, at indices 0 … n-1 -/
theorem rleDecodeWithHeader_eq (bs : List Nat) (hb : ∀ b ∈ bs, b < 256) (cap : Nat) (hcap : cap < 2 ^ 63)
    (res : Option (List Nat)) (h : RLE.decH bs cap = some res) (fuel : Nat)
    (hf : bs.length + 2 * cap + 5 ≤ fuel) :
    rleDecodeWithHeader fuel (Bridge.Tagged.bufOf bs) cap =
      some (match res with | none => (0, []) | some out => (out.length, storesFrom 0 out)) := by
  unfold rleDecodeWithHeader
  unfold RLE.decH at h
  cases h1 : Tagged.get bs with
  | fault => rw [h1] at h; simp at h
  | short => rw [h1] at h; simp at h
  | ok total n1 =>
    rw [h1] at h
    simp only [] at h
    rw [taggedGet64_ok bs hb total n1 h1]
    simp only [Option.getD_some]
    by_cases c : total > cap
    · rw [if_pos c] at h
      rw [if_pos c]
      simp only [Option.some.injEq] at h
      subst h
      rfl
    · rw [if_neg c] at h
      rw [if_neg c]
      cases hd : decHAux (bs.length + total + 2) 0 total cap (bs.drop n1) with
      | none => rw [hd] at h; simp at h
      | some out =>
        rw [hd] at h
        simp only [Option.map_some, Option.some.injEq] at h
        subst h
        obtain ⟨p', hp'⟩ := decodeH_loop bs hb cap total hcap (bs.length + total + 2) fuel n1 0 [] out (by omega)
          (by omega) hd
        rw [hp']
        simp

/-- `varintRLEGetCount` reads the header -/
theorem rleGetCount_eq (bs : List Nat) (hb : ∀ b ∈ bs, b < 256) (v n : Nat) (h : Tagged.get bs = .ok v n) :
    rleGetCount (Bridge.Tagged.bufOf bs) = v := by
  unfold rleGetCount
  rw [taggedGet64_ok bs hb v n h]
  rfl


/-- the loop of `varintRLEGetAt` over a well-formed run list -/
theorem getAt_loop (bs rest : List Nat) (hb : ∀ b ∈ bs, b < 256) (i : Nat) :
    ∀ (rs : List (Nat × Nat)) (fuel ptr pos : Nat), (∀ r ∈ rs, 1 ≤ r.1 ∧ r.1 < 2 ^ 64 ∧ r.2 < 2 ^ 64) →
      bs.drop ptr = encRuns rs ++ rest → pos ≤ i → i < pos + total rs → pos + total rs < 2 ^ 64 →
      rs.length + 1 ≤ fuel →
      rleGetAt_loop1 (Bridge.Tagged.bufOf bs) i fuel (ptr, pos) = .ret ((expand rs).getD (i - pos) 0) := by
  intro rs
  induction rs with
  | nil => intro fuel ptr pos _ _ h1 h2; simp [total] at h2; omega
  | cons r rs ih =>
    obtain ⟨l, v⟩ := r
    intro fuel ptr pos hr hd h1 h2 h3 hf
    simp only [List.length_cons] at hf
    obtain ⟨fuel, rfl⟩ : ∃ g, fuel = g + 1 := ⟨fuel - 1, by omega⟩
    have hlv := hr (l, v) (by simp)
    rw [total_cons] at h2 h3
    have hg : getRun (bs.drop ptr) = some (l, v, encRuns rs ++ rest) := by
      rw [hd, encRuns_cons' l v rs, List.append_assoc]
      exact getRun_enc l v hlv.2.1 hlv.2.2 (encRuns rs ++ rest)
    obtain ⟨n, hrun, hrest⟩ := rleDecodeRun_eq (bs.drop ptr) (Bridge.RLE.mem_drop_lt bs hb ptr) l v _ hg
    unfold rleGetAt_loop1
    have hone : (1 : Int) ≠ 0 := by decide
    rw [if_pos hone, Bridge.RLE.bufOf_shift, hrun]
    simp only [Option.getD_some]
    have hl0 : ¬ (l = 0) := by omega
    rw [if_neg hl0]
    have e1 : (pos + l) % 2 ^ 64 = pos + l := Nat.mod_eq_of_lt (by omega)
    simp only [e1]
    rw [expand_cons]
    by_cases c : pos + l > i
    · rw [if_pos c]
      congr 1
      rw [List.getD_eq_getElem?_getD, List.getElem?_append_left (by simp; omega)]
      have hlt : i - pos < l := by omega
      simp [List.getElem?_replicate, hlt]
    · rw [if_neg c]
      have hd' : bs.drop (ptr + n) = encRuns rs ++ rest := by rw [← List.drop_drop, ← hrest]
      rw [ih fuel (ptr + n) (pos + l) (fun r hr' => hr r (by simp [hr'])) hd' (by omega) (by omega) (by omega) (by omega)]
      congr 1
      rw [List.getD_eq_getElem?_getD, List.getD_eq_getElem?_getD,
        List.getElem?_append_right (by simp; omega)]
      simp only [List.length_replicate]
      congr 2
      omega

/-- **`varintRLEGetAt(src, index)`** on a valid encoding returns the element the full decoder returns at that index -/
theorem rleGetAt_eq (xs rest : List Nat) (hx : ∀ x ∈ xs, x < 2 ^ 64) (hn : xs.length < 2 ^ 63)
    (hr : ∀ b ∈ rest, b < 256) (i : Nat) (hi : i < xs.length) (fuel : Nat) (hf : xs.length + 2 ≤ fuel) :
    rleGetAt fuel (Bridge.Tagged.bufOf (RLE.enc xs ++ rest)) i = some (xs.getD i 0) := by
  unfold rleGetAt
  simp only []
  have hb : ∀ b ∈ RLE.enc xs ++ rest, b < 256 := by
    intro b hbm
    rcases List.mem_append.1 hbm with h1 | h1
    · exact enc_lt xs hx (by omega) b h1
    · exact hr b h1
  have hruns : ∀ r ∈ runs xs, 1 ≤ r.1 ∧ r.1 < 2 ^ 64 ∧ r.2 < 2 ^ 64 := by
    intro r hr'
    refine ⟨RLE.runs_pos xs r hr', ?_, hx _ (RLE.runs_vals xs r hr')⟩
    have := RLE.le_total_of_mem (runs xs) r hr'
    rw [RLE.total_runs] at this
    omega
  have hlen : (runs xs).length ≤ xs.length := by
    have := RLE.runCount_le xs
    simpa [RLE.runCount] using this
  rw [getAt_loop (RLE.enc xs ++ rest) rest hb i (runs xs) fuel 0 0 hruns (by simp [RLE.enc])
    (by omega) (by rw [RLE.total_runs]; omega) (by rw [RLE.total_runs]; omega) (by omega)]
  simp [RLE.expand_runs]

end Varint.Bridge.RLEDec
