import Varint.Gen.CTagged
import Varint.Model.Tagged
import Varint.Lemmas.Tagged
/-
  Bridge: the C functions of src/varintTagged.c, as translated by tools/c2lean.py from the CURRENT source
  (Varint.Gen.C.*), equal the hand-written model (Varint.Tagged.*) that every tagged theorem is about —
  for ALL inputs. A semantic change to the C breaks one of these proofs.
-/
namespace Varint.Bridge.Tagged
open Varint Varint.Gen.C

theorem taggedLen_eq (x : Nat) (hx : x < 2 ^ 64) : taggedLen x = Tagged.len x := by
  unfold taggedLen Tagged.len
  simp only []
  repeat' split
  all_goals omega


theorem range_lits : List.range 1 = [0] ∧ List.range 2 = [0, 1] ∧ List.range 3 = [0, 1, 2] ∧
    List.range 4 = [0, 1, 2, 3] ∧ List.range 5 = [0, 1, 2, 3, 4] ∧ List.range 6 = [0, 1, 2, 3, 4, 5] ∧
    List.range 7 = [0, 1, 2, 3, 4, 5, 6] ∧ List.range 8 = [0, 1, 2, 3, 4, 5, 6, 7] ∧
    List.range 9 = [0, 1, 2, 3, 4, 5, 6, 7, 8] := by decide



/-- `varintTaggedPut64`: returns the model's length, stores exactly the model's bytes, at indices
    0, 1, …, len-1 in this order (each once, nothing else) -/
theorem taggedPut64_eq (x : Nat) (hx : x < 2 ^ 64) :
    (taggedPut64 x).1 = Tagged.len x ∧ (taggedPut64 x).2.map Prod.snd = Tagged.enc x ∧
    (taggedPut64 x).2.map Prod.fst = List.range (Tagged.len x) := by
  obtain ⟨r1, r2, r3, r4, r5, r6, r7, r8, r9⟩ := range_lits
  unfold taggedPut64 Tagged.len Tagged.enc
  simp only [beBytes]
  repeat' split
  all_goals simp only [List.map, List.cons.injEq, and_true, true_and, r1, r2, r3, r4, r5, r6, r7, r8, r9,
    List.cons_append, List.nil_append]
  all_goals omega


/-- `varintTaggedGetLen` looks at the first byte only -/
theorem taggedGetLen_eq (z : Nat → Nat) (h : z 0 < 256) : taggedGetLen z = Tagged.getLen (z 0) := by
  unfold taggedGetLen Tagged.getLen
  repeat' split
  all_goals omega

/-- `varintTaggedPut64FixedWidth` for every width argument (0 and > 9 store nothing and return 0) -/
theorem taggedPut64FixedWidth_eq (x w : Nat) (hx : x < 2 ^ 64) :
    (taggedPut64FixedWidth x w).2.map Prod.snd = Tagged.encFixed x w ∧
    (taggedPut64FixedWidth x w).1 = (Tagged.encFixed x w).length ∧
    (taggedPut64FixedWidth x w).2.map Prod.fst = List.range (Tagged.encFixed x w).length := by
  obtain ⟨r1, r2, r3, r4, r5, r6, r7, r8, r9⟩ := range_lits
  unfold taggedPut64FixedWidth Tagged.encFixed
  simp only [beBytes]
  repeat' split
  all_goals simp only [List.map, List.cons.injEq, and_true, true_and, r1, r2, r3, r4, r5, r6, r7, r8, r9,
    List.cons_append, List.nil_append, List.length_cons, List.length_nil, List.range_zero]
  all_goals first | omega | trivial

theorem or_eq_add (x y m : Nat) (hx : x % 2 ^ m = 0) (hy : y < 2 ^ m) : x ||| y = x + y := by
  have h := Nat.two_pow_add_eq_or_of_lt hy (x / 2 ^ m)
  rw [Nat.mul_div_cancel' (Nat.dvd_of_mod_eq_zero hx)] at h
  exact h.symm

theorem or_eq_add8 (x y : Nat) (hx : x % 256 = 0) (hy : y < 256) : x ||| y = x + y := or_eq_add x y 8 hx hy
theorem or_eq_add16 (x y : Nat) (hx : x % 65536 = 0) (hy : y < 65536) : x ||| y = x + y := or_eq_add x y 16 hx hy
theorem or_eq_add24 (x y : Nat) (hx : x % 16777216 = 0) (hy : y < 16777216) : x ||| y = x + y :=
  or_eq_add x y 24 hx hy
theorem or_eq_add32 (x y : Nat) (hx : x % 4294967296 = 0) (hy : y < 4294967296) : x ||| y = x + y :=
  or_eq_add x y 32 hx hy

/-- `varintTaggedGet` in plain arithmetic (the bytes are `< 256`, so the shifts never wrap and the
    or-ed fields are disjoint) -/
def getF (z : Nat → Nat) (n : Int) : Nat × Option Nat :=
  if n < 1 then (0, none)
  else if z 0 ≤ 240 then (1, some (z 0))
  else if z 0 ≤ 248 then
    if n < 2 then (0, none) else (2, some ((z 0 - 241) * 256 + z 1 + 240))
  else if n < (z 0 : Int) - 246 then (0, none)
  else if z 0 = 249 then (3, some (2288 + 256 * z 1 + z 2))
  else if z 0 = 250 then (4, some (z 1 * 2 ^ 16 + z 2 * 2 ^ 8 + z 3))
  else if z 0 = 251 then (5, some (z 1 * 2 ^ 24 + z 2 * 2 ^ 16 + z 3 * 2 ^ 8 + z 4))
  else if z 0 = 252 then (6, some (z 1 * 2 ^ 32 + z 2 * 2 ^ 24 + z 3 * 2 ^ 16 + z 4 * 2 ^ 8 + z 5))
  else if z 0 = 253 then
    (7, some (z 1 * 2 ^ 40 + z 2 * 2 ^ 32 + z 3 * 2 ^ 24 + z 4 * 2 ^ 16 + z 5 * 2 ^ 8 + z 6))
  else if z 0 = 254 then
    (8, some (z 1 * 2 ^ 48 + z 2 * 2 ^ 40 + z 3 * 2 ^ 32 + z 4 * 2 ^ 24 + z 5 * 2 ^ 16 + z 6 * 2 ^ 8 + z 7))
  else if z 0 = 255 then
    (9, some (z 1 * 2 ^ 56 + z 2 * 2 ^ 48 + z 3 * 2 ^ 40 + z 4 * 2 ^ 32 + z 5 * 2 ^ 24 + z 6 * 2 ^ 16 +
      z 7 * 2 ^ 8 + z 8))
  else (0, none)

set_option linter.unusedSimpArgs false in
theorem taggedGet_getF (z : Nat → Nat) (n : Int) (h : ∀ i, i ≤ 8 → z i < 256) : taggedGet z n = getF z n := by
  have h0 := h 0 (by omega); have h1 := h 1 (by omega); have h2 := h 2 (by omega)
  have h3 := h 3 (by omega); have h4 := h 4 (by omega); have h5 := h 5 (by omega)
  have h6 := h 6 (by omega); have h7 := h 7 (by omega); have h8 := h 8 (by omega)
  unfold taggedGet getF
  generalize z 0 = z0 at *; generalize z 1 = z1 at *; generalize z 2 = z2 at *
  generalize z 3 = z3 at *; generalize z 4 = z4 at *; generalize z 5 = z5 at *
  generalize z 6 = z6 at *; generalize z 7 = z7 at *; generalize z 8 = z8 at *
  clear h
  by_cases c1 : n < 1
  · rw [if_pos c1, if_pos c1]
  rw [if_neg c1, if_neg c1]
  by_cases c2 : z0 ≤ 240
  · rw [if_pos c2, if_pos (by omega : (z0 : Int) ≤ 240)]
  rw [if_neg c2, if_neg (by omega : ¬ (z0 : Int) ≤ 240)]
  by_cases c3 : z0 ≤ 248
  · rw [if_pos c3, if_pos (by omega : (z0 : Int) ≤ 248)]
    by_cases c4 : n < 2
    · rw [if_pos c4, if_pos c4]
    rw [if_neg c4, if_neg c4]
    simp only [Prod.mk.injEq, Option.some.injEq, true_and]
    omega
  rw [if_neg c3, if_neg (by omega : ¬ (z0 : Int) ≤ 248)]
  by_cases c5 : n < (z0 : Int) - 246
  · rw [if_pos c5, if_pos c5]
  rw [if_neg c5, if_neg c5]
  simp only [Nat.reducePow]
  by_cases d249 : z0 = 249
  · rw [if_pos d249, if_pos (by omega : (z0 : Int) = 249)]
    simp (disch := omega) only [or_eq_add8, or_eq_add16, or_eq_add24, or_eq_add32, Prod.mk.injEq,
        Option.some.injEq, true_and]
    omega
  rw [if_neg d249, if_neg (by omega : ¬ (z0 : Int) = 249)]
  by_cases d250 : z0 = 250
  · rw [if_pos d250, if_pos (by omega : (z0 : Int) = 250)]
    simp (disch := omega) only [or_eq_add8, or_eq_add16, or_eq_add24, or_eq_add32, Prod.mk.injEq,
        Option.some.injEq, true_and]
    omega
  rw [if_neg d250, if_neg (by omega : ¬ (z0 : Int) = 250)]
  by_cases d251 : z0 = 251
  · rw [if_pos d251, if_pos (by omega : (z0 : Int) = 251)]
    simp (disch := omega) only [or_eq_add8, or_eq_add16, or_eq_add24, or_eq_add32, Prod.mk.injEq,
        Option.some.injEq, true_and]
    omega
  rw [if_neg d251, if_neg (by omega : ¬ (z0 : Int) = 251)]
  by_cases d252 : z0 = 252
  · rw [if_pos d252, if_pos (by omega : (z0 : Int) = 252)]
    simp (disch := omega) only [or_eq_add8, or_eq_add16, or_eq_add24, or_eq_add32, Prod.mk.injEq,
        Option.some.injEq, true_and]
    omega
  rw [if_neg d252, if_neg (by omega : ¬ (z0 : Int) = 252)]
  by_cases d253 : z0 = 253
  · rw [if_pos d253, if_pos (by omega : (z0 : Int) = 253)]
    simp (disch := omega) only [or_eq_add8, or_eq_add16, or_eq_add24, or_eq_add32, Prod.mk.injEq,
        Option.some.injEq, true_and]
    omega
  rw [if_neg d253, if_neg (by omega : ¬ (z0 : Int) = 253)]
  by_cases d254 : z0 = 254
  · rw [if_pos d254, if_pos (by omega : (z0 : Int) = 254)]
    simp (disch := omega) only [or_eq_add8, or_eq_add16, or_eq_add24, or_eq_add32, Prod.mk.injEq,
        Option.some.injEq, true_and]
    omega
  rw [if_neg d254, if_neg (by omega : ¬ (z0 : Int) = 254)]
  by_cases d255 : z0 = 255
  · rw [if_pos d255, if_pos (by omega : (z0 : Int) = 255)]
    simp (disch := omega) only [or_eq_add8, or_eq_add16, or_eq_add24, or_eq_add32, Prod.mk.injEq,
        Option.some.injEq, true_and]
    omega
  rw [if_neg d255, if_neg (by omega : ¬ (z0 : Int) = 255)]

/-- the memory seen by the C: the bytes of `bs`, and 0 outside (never looked at unless the model says `.fault`) -/
def bufOf (bs : List Nat) : Nat → Nat := fun i => bs.getD i 0

theorem bufOf_lt (bs : List Nat) (hb : ∀ b ∈ bs, b < 256) (i : Nat) : bufOf bs i < 256 := by
  unfold bufOf
  rw [List.getD_eq_getElem?_getD]
  cases h : bs[i]? with
  | none => simp
  | some v => simp only [Option.getD_some]; exact hb v (List.mem_of_getElem? h)

theorem getF_getN (bs : List Nat) (n : Int) (hb : ∀ b ∈ bs, b < 256) (hf : Tagged.getN bs n ≠ .fault) :
    getF (bufOf bs) n = (match Tagged.getN bs n with | .ok v l => (l, some v) | _ => (0, none)) := by
  unfold Tagged.getN at hf ⊢
  unfold getF
  by_cases c1 : n < 1
  · simp only [if_pos c1]
  simp only [if_neg c1] at hf ⊢
  cases bs with
  | nil => exact absurd rfl hf
  | cons b0 rest =>
    have h0 : b0 < 256 := hb b0 (by simp)
    have e0 : bufOf (b0 :: rest) 0 = b0 := rfl
    simp only [e0] at hf ⊢
    by_cases c2 : b0 ≤ 240
    · simp only [if_pos c2]
    simp only [if_neg c2] at hf ⊢
    by_cases c3 : b0 ≤ 248
    · simp only [if_pos c3] at hf ⊢
      by_cases c4 : n < 2
      · simp only [if_pos c4]
      simp only [if_neg c4] at hf ⊢
      cases rest with
      | nil => exact absurd rfl hf
      | cons b1 r => rfl
    simp only [if_neg c3] at hf ⊢
    by_cases c5 : n < (b0 : Int) - 246
    · simp only [if_pos c5]
    simp only [if_neg c5] at hf ⊢
    have hz : b0 = 249 ∨ b0 = 250 ∨ b0 = 251 ∨ b0 = 252 ∨ b0 = 253 ∨ b0 = 254 ∨ b0 = 255 := by omega
    rcases hz with e | e | e | e | e | e | e <;> subst e
    · rcases rest with _ | ⟨b1, _ | ⟨b2, r⟩⟩
      all_goals first
        | (simp [takeExact] at hf; done)
        | (simp [takeExact, ofBe, bufOf]; try omega)
    · rcases rest with _ | ⟨b1, _ | ⟨b2, _ | ⟨b3, r⟩⟩⟩
      all_goals first
        | (simp [takeExact] at hf; done)
        | (simp [takeExact, ofBe, bufOf]; try omega)
    · rcases rest with _ | ⟨b1, _ | ⟨b2, _ | ⟨b3, _ | ⟨b4, r⟩⟩⟩⟩
      all_goals first
        | (simp [takeExact] at hf; done)
        | (simp [takeExact, ofBe, bufOf]; try omega)
    · rcases rest with _ | ⟨b1, _ | ⟨b2, _ | ⟨b3, _ | ⟨b4, _ | ⟨b5, r⟩⟩⟩⟩⟩
      all_goals first
        | (simp [takeExact] at hf; done)
        | (simp [takeExact, ofBe, bufOf]; try omega)
    · rcases rest with _ | ⟨b1, _ | ⟨b2, _ | ⟨b3, _ | ⟨b4, _ | ⟨b5, _ | ⟨b6, r⟩⟩⟩⟩⟩⟩
      all_goals first
        | (simp [takeExact] at hf; done)
        | (simp [takeExact, ofBe, bufOf]; try omega)
    · rcases rest with _ | ⟨b1, _ | ⟨b2, _ | ⟨b3, _ | ⟨b4, _ | ⟨b5, _ | ⟨b6, _ | ⟨b7, r⟩⟩⟩⟩⟩⟩⟩
      all_goals first
        | (simp [takeExact] at hf; done)
        | (simp [takeExact, ofBe, bufOf]; try omega)
    · rcases rest with _ | ⟨b1, _ | ⟨b2, _ | ⟨b3, _ | ⟨b4, _ | ⟨b5, _ | ⟨b6, _ | ⟨b7, _ | ⟨b8, r⟩⟩⟩⟩⟩⟩⟩⟩
      all_goals first
        | (simp [takeExact] at hf; done)
        | (simp [takeExact, ofBe, bufOf]; try omega)

/-- `varintTaggedGet(z, n, &result)` on a buffer holding the bytes `bs`: whenever the model does not report a
    load outside `bs`, the C returns the model's width and stores the model's value (nothing when 0) -/
theorem taggedGet_eq (bs : List Nat) (n : Int) (hb : ∀ b ∈ bs, b < 256) (hf : Tagged.getN bs n ≠ .fault) :
    taggedGet (bufOf bs) n = (match Tagged.getN bs n with | .ok v l => (l, some v) | _ => (0, none)) := by
  rw [taggedGet_getF (bufOf bs) n (fun i _ => bufOf_lt bs hb i)]
  exact getF_getN bs n hb hf

/-- `varintTaggedGet64(z, &result)` = `varintTaggedGet(z, 9, &result)` -/
theorem taggedGet64_eq (bs : List Nat) (hb : ∀ b ∈ bs, b < 256) (hf : Tagged.get bs ≠ .fault) :
    taggedGet (bufOf bs) 9 = (match Tagged.get bs with | .ok v l => (l, some v) | _ => (0, none)) :=
  taggedGet_eq bs 9 hb hf

end Varint.Bridge.Tagged
