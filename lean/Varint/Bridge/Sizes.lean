import Varint.Gen.CSizes
import Varint.Bridge.Tagged
import Varint.Model.RLE
import Varint.Model.BP128
import Varint.Model.Elias
import Varint.Model.Delta
import Varint.Model.Adaptive
import Varint.Model.Float
import Varint.Model.FOR
import Varint.Model.Group
/-
  Bridge: the sizing functions, zig-zag maps and group width codes of the C, as translated by
  tools/c2lean.py from the CURRENT headers/sources (Varint.Gen.C.*), equal the model's definitions
  (which the C03/C02/C16 theorems are about) wherever the C's size_t arithmetic does not wrap.
-/
namespace Varint.Bridge.Sizes
open Varint Varint.Gen.C

theorem rleMaxSize_eq (n : Nat) (h : n < 2 ^ 60) : rleMaxSize n = RLE.maxSize n := by
  unfold rleMaxSize RLE.maxSize; omega

theorem bp128MaxBytes_eq (n : Nat) (h : n < 2 ^ 60) : bp128MaxBytes n = BP128.maxBytes n := by
  unfold bp128MaxBytes BP128.maxBytes
  simp only []
  split <;> omega

theorem eliasMaxBytes_eq (n : Nat) (h : n < 2 ^ 56) :
    eliasGammaMaxBytes n = Elias.gammaMaxBytes n ∧ eliasDeltaMaxBytes n = Elias.deltaMaxBytes n := by
  unfold eliasGammaMaxBytes eliasDeltaMaxBytes Elias.gammaMaxBytes Elias.deltaMaxBytes
  constructor <;> omega

theorem deltaMaxEncodedSize_eq (n : Nat) (h : n < 2 ^ 60) : deltaMaxEncodedSize n = Delta.maxSize n := by
  unfold deltaMaxEncodedSize Delta.maxSize
  split <;> omega

theorem adaptiveMaxSize_eq (n : Nat) (h : n < 2 ^ 59) : adaptiveMaxSize n = Adaptive.maxSize n := by
  unfold adaptiveMaxSize Adaptive.maxSize
  split <;> omega

theorem floatMantissaBits_eq (p : Nat) : floatPrecisionMantissaBits p = Float.mantBits p := by
  unfold floatPrecisionMantissaBits Float.mantBits
  simp only []
  split
  · next h => subst h; rfl
  · split
    · next h => subst h; rfl
    · split
      · next h => subst h; rfl
      · split
        · next h => subst h; rfl
        · next h0 h1 h2 h3 =>
          match p, h0, h1, h2, h3 with
          | 0, h0, _, _, _ => exact absurd rfl h0
          | 1, _, h1, _, _ => exact absurd rfl h1
          | 2, _, _, h2, _ => exact absurd rfl h2
          | 3, _, _, _, h3 => exact absurd rfl h3
          | n + 4, _, _, _, _ => rfl

theorem floatMaxEncodedSize_eq (n p : Nat) (h : n < 2 ^ 56) : floatMaxEncodedSize n p = Float.maxSize n p := by
  unfold floatMaxEncodedSize Float.maxSize
  simp only [floatMantissaBits_eq]
  have hm : Float.mantBits p ≤ 52 := by unfold Float.mantBits; split <;> omega
  have hmul : Float.mantBits p * n ≤ 52 * n := Nat.mul_le_mul_right n hm
  split
  · rfl
  · generalize Float.mantBits p * n = q at hmul ⊢
    have h1 : (n + 7) % 2 ^ 64 = n + 7 := by omega
    have h2 : n * 9 % 2 ^ 64 = n * 9 := by omega
    have h3 : q % 2 ^ 64 = q := by omega
    have h4 : (q + 7) % 2 ^ 64 = q + 7 := by omega
    have h5 : n * 8 % 2 ^ 64 = n * 8 := by omega
    rw [h1, h2, h3, h4, h5]
    have hs : (n + 7) / 8 ≤ n + 1 := by omega
    have hq : (q + 7) / 8 ≤ q + 1 := by omega
    generalize (n + 7) / 8 = s at hs ⊢
    generalize (q + 7) / 8 = m at hq ⊢
    omega

theorem forSize_eq (mn cnt w : Nat) (hmn : mn < 2 ^ 64) (hc : cnt < 2 ^ 56) (hw : w ≤ 8) :
    forSize mn cnt w = FOR.size mn cnt w := by
  unfold forSize FOR.size
  simp only []
  rw [Varint.Bridge.Tagged.taggedLen_eq mn hmn, Varint.Bridge.Tagged.taggedLen_eq cnt (by omega)]
  have h1 := Tagged.len_bounds mn
  have h2 := Tagged.len_bounds cnt
  have : cnt * w ≤ cnt * 8 := Nat.mul_le_mul_left cnt hw
  generalize cnt * w = q at this ⊢
  omega

theorem groupBitmapSize_eq (n : Nat) (h : n < 256) : groupBitmapSize n = Group.bitmapSize n := by
  unfold groupBitmapSize Group.bitmapSize
  have : (Int.tdiv (((n : Nat) : Int) * 2 + 7) 8) = (((n * 2 + 7) / 8 : Nat) : Int) := by
    rw [Int.tdiv_eq_ediv_of_nonneg (by omega)]; omega
  have h2 : (((n : Nat) : Int) * (2 : Int) + (7 : Int)) = (((n : Nat) : Int) * 2 + 7) := rfl
  rw [h2, this]
  omega

theorem groupWidthDecode_eq (c : Nat) : groupWidthDecode c = Group.width c := by
  unfold groupWidthDecode Group.width
  have key : ((c : Nat) : Int) % (4 : Int) = ((c % 4 : Nat) : Int) := by omega
  simp only [key]
  have h : c % 4 = 0 ∨ c % 4 = 1 ∨ c % 4 = 2 ∨ c % 4 = 3 := by omega
  rcases h with h | h | h | h <;> rw [h] <;> decide

theorem groupWidthEncode_eq (w : Nat) (h : w = 1 ∨ w = 2 ∨ w = 4 ∨ w = 8) : groupWidthEncode w = Group.code w := by
  rcases h with h | h | h | h <;> subst h <;> rfl


/-! ## zig-zag: the C's shift/xor formulation equals the model's arithmetic one on all 2^64 patterns -/

theorem xor_allones (a : Nat) (h : a < 2 ^ 64) : a ^^^ (2 ^ 64 - 1) = 2 ^ 64 - 1 - a := by
  apply Nat.eq_of_testBit_eq
  intro i
  have e : 2 ^ 64 - 1 - a = 2 ^ 64 - (a + 1) := by omega
  rw [Nat.testBit_xor, Nat.testBit_two_pow_sub_one, e, Nat.testBit_two_pow_sub_succ h]
  by_cases hi : i < 64
  · simp [hi]
  · have : a.testBit i = false :=
      Nat.testBit_lt_two_pow (Nat.lt_of_lt_of_le h (Nat.pow_le_pow_right (by omega) (by omega)))
    simp [hi, this]

theorem sx64_eq (v : Nat) : sx 64 v = toI64 v := by
  unfold sx toI64
  rfl

theorem deltaZigZag_eq (x : Nat) (hx : x < 2 ^ 64) : deltaZigZag (toI64 x) = Delta.zz x := by
  unfold deltaZigZag toI64 Delta.zz
  simp only []
  by_cases h : x < 2 ^ 63
  · have h1 : x % 2 ^ 64 < 2 ^ 63 := by omega
    rw [if_pos h1, if_pos h]
    have hn : ¬ (((x % 2 ^ 64 : Nat) : Int) < 0) := by omega
    rw [if_neg hn]
    have e1 : ((0 : Int) % (2 ^ 64 : Int)).toNat = 0 := by decide
    have e2 : ((((x % 2 ^ 64 : Nat) : Int)) % (2 ^ 64 : Int)).toNat = x := by omega
    rw [e1, e2, Nat.xor_zero]
    omega
  · have h1 : ¬ x % 2 ^ 64 < 2 ^ 63 := by omega
    rw [if_neg h1, if_neg h]
    have hn : (((x % 2 ^ 64 : Nat) : Int) - (2 ^ 64 : Int) < 0) := by omega
    rw [if_pos hn]
    have e1 : ((-(1 : Int)) % (2 ^ 64 : Int)).toNat = 2 ^ 64 - 1 := by decide
    have e2 : ((((x % 2 ^ 64 : Nat) : Int) - (2 ^ 64 : Int)) % (2 ^ 64 : Int)).toNat = x := by omega
    rw [e1, e2, xor_allones _ (by omega)]
    omega

theorem deltaZigZagDecode_eq (z : Nat) (hz : z < 2 ^ 64) : deltaZigZagDecode z = toI64 (Delta.unzz z) := by
  unfold deltaZigZagDecode Delta.unzz
  rw [sx64_eq, sx64_eq]
  by_cases h : z % 2 = 0
  · rw [if_pos h, h]
    have e1 : ((-(toI64 0)) % (2 ^ 64 : Int)).toNat = 0 := by decide
    rw [e1, Nat.xor_zero]
  · rw [if_neg h]
    have h1 : z % 2 = 1 := by omega
    rw [h1]
    have e1 : ((-(toI64 1)) % (2 ^ 64 : Int)).toNat = 2 ^ 64 - 1 := by decide
    have : z / 2 ^ 1 = z / 2 := by omega
    rw [e1, this, xor_allones _ (by omega)]

end Varint.Bridge.Sizes
