import Varint.Gen.CTaggedAdd
import Varint.Model.Tagged
import Varint.Lemmas.Tagged
import Varint.Lemmas.Add
import Varint.Bridge.Loop
import Varint.Bridge.Tagged
import Varint.Bridge.RLE
/-
  Bridge: varintTaggedAdd / varintTaggedAddNoGrow / varintTaggedAddGrow of src/varintTagged.c, as translated by
  tools/c2lean2.py from the CURRENT source (read of the slot, `__builtin_saddll_overflow`, re-encode in place),
  equal the model Varint.Tagged.add for every slot content, every amount and both forms.
-/
namespace Varint.Bridge.TaggedAdd
open Varint Varint.Gen.C Varint.Bridge

theorem sx64_eq (v : Nat) (hv : v < 2 ^ 64) : sx 64 v = toI64 v := by
  unfold sx toI64
  rw [Nat.mod_eq_of_lt hv]

/-- what the call leaves in the buffer, as stores -/
def storesOf : Option (List Nat) → List (Nat × Nat)
  | none => []
  | some bs => storesFrom 0 bs

/-- **`varintTaggedAdd(p, add, force)`** on a slot that holds a tagged varint (`stored`, announced width `origLen`):
    return value and stores are the model's, for every amount in int64 and both values of `force` -/
theorem taggedAdd_eq (bs : List Nat) (hb : ∀ b ∈ bs, b < 256) (stored origLen : Nat)
    (hget : Tagged.get bs = .ok stored origLen) (hs : stored < 2 ^ 64) (amount : Int)
    (ha1 : -(2 ^ 63 : Int) ≤ amount) (ha2 : amount < (2 ^ 63 : Int)) (force : Nat) :
    taggedAdd (Bridge.Tagged.bufOf bs) amount force =
      ((Tagged.add stored origLen amount (decide (force ≠ 0))).1,
       storesOf (Tagged.add stored origLen amount (decide (force ≠ 0))).2) := by
  unfold taggedAdd taggedGet64
  have hfun : (fun i => rdw (Bridge.Tagged.bufOf bs) [] (0 + i)) = Bridge.Tagged.bufOf bs := by
    funext i; simp [rdw]
  have hnf : Tagged.get bs ≠ .fault := by rw [hget]; simp
  simp only [hfun, Bridge.Tagged.taggedGet64_eq bs hb hnf, hget, Option.orElse, Option.getD_some]
  rw [sx64_eq stored hs]
  unfold Tagged.add
  simp only []
  generalize hS : toI64 stored + amount = S
  have hwrap : ((sx 64 (S % (2 ^ 64 : Int)).toNat) % (2 ^ 64 : Int)).toNat = toU64 S := by
    have hlt : (S % (2 ^ 64 : Int)).toNat < 2 ^ 64 := by omega
    unfold sx toU64
    rw [Nat.mod_eq_of_lt hlt]
    split <;> omega
  rw [hwrap]
  have hu : toU64 S < 2 ^ 64 := toU64_lt _
  rw [Bridge.Tagged.taggedLen_eq _ hu]
  by_cases hov : S < -(2 ^ 63 : Int) ∨ S > (2 ^ 63 : Int) - 1
  · have c : (if S < -(2 ^ 63 : Int) ∨ S > (2 ^ 63 : Int) - 1 then (1 : Int) else 0) ≠ 0 := by rw [if_pos hov]; decide
    rw [if_pos c, if_pos hov]; rfl
  · have c : ¬ ((if S < -(2 ^ 63 : Int) ∨ S > (2 ^ 63 : Int) - 1 then (1 : Int) else 0) ≠ 0) := by rw [if_neg hov]; decide
    rw [if_neg c, if_neg hov]
    by_cases hg : Tagged.len (toU64 S) > origLen ∧ ¬ (force ≠ 0)
    · have hg' : Tagged.len (toU64 S) > origLen ∧ (!decide (force ≠ 0)) = true := by
        refine ⟨hg.1, ?_⟩
        have : ¬ (force ≠ 0) := hg.2
        simp [this]
      rw [if_pos hg, if_pos hg']; rfl
    · have hg' : ¬ (Tagged.len (toU64 S) > origLen ∧ (!decide (force ≠ 0)) = true) := by
        intro h; apply hg; refine ⟨h.1, ?_⟩
        have := h.2
        simpa using this
      rw [if_neg hg, if_neg hg', Bridge.RLE.taggedPut64_stores _ hu]; rfl


/-- `varintTaggedAddNoGrow` = the model with `force = false`; `varintTaggedAddGrow` = the model with `force = true` -/
theorem taggedAddNoGrow_eq (bs : List Nat) (hb : ∀ b ∈ bs, b < 256) (stored origLen : Nat)
    (hget : Tagged.get bs = .ok stored origLen) (hs : stored < 2 ^ 64) (amount : Int)
    (ha1 : -(2 ^ 63 : Int) ≤ amount) (ha2 : amount < (2 ^ 63 : Int)) :
    taggedAddNoGrow (Bridge.Tagged.bufOf bs) amount =
      ((Tagged.add stored origLen amount false).1, storesOf (Tagged.add stored origLen amount false).2) := by
  unfold taggedAddNoGrow
  have hfun : (fun i => rdw (Bridge.Tagged.bufOf bs) [] (0 + i)) = Bridge.Tagged.bufOf bs := by
    funext i; simp [rdw]
  simp only [hfun]
  have hz : (if ((if ((0 : Int) ≠ 0) then 1 else 0) ≠ 0) then 1 else 0) = 0 := by decide
  rw [hz, taggedAdd_eq bs hb stored origLen hget hs amount ha1 ha2 0]
  rfl

theorem taggedAddGrow_eq (bs : List Nat) (hb : ∀ b ∈ bs, b < 256) (stored origLen : Nat)
    (hget : Tagged.get bs = .ok stored origLen) (hs : stored < 2 ^ 64) (amount : Int)
    (ha1 : -(2 ^ 63 : Int) ≤ amount) (ha2 : amount < (2 ^ 63 : Int)) :
    taggedAddGrow (Bridge.Tagged.bufOf bs) amount =
      ((Tagged.add stored origLen amount true).1, storesOf (Tagged.add stored origLen amount true).2) := by
  unfold taggedAddGrow
  have hfun : (fun i => rdw (Bridge.Tagged.bufOf bs) [] (0 + i)) = Bridge.Tagged.bufOf bs := by
    funext i; simp [rdw]
  simp only [hfun]
  have hz : (if ((if ((1 : Int) ≠ 0) then 1 else 0) ≠ 0) then 1 else 0) = 1 := by decide
  rw [hz, taggedAdd_eq bs hb stored origLen hget hs amount ha1 ha2 1]
  rfl

end Varint.Bridge.TaggedAdd
