import Varint.Gen.CSplit
import Varint.Model.Split
import Varint.Lemmas.Bytes
import Varint.Bridge.Loop
import Varint.Bridge.Tagged
import Varint.Bridge.External
/-
  Bridge: the statement macros of src/varintSplit.h (varintSplitLength_, varintSplitPut_, varintSplitGet_,
  varintSplitGetLen_), expanded by clang inside the wrapper functions of harness/vw_split.c and translated by
  tools/c2lean2.py from the CURRENT headers, equal the model Varint.Split.S.* for every 64-bit value.
-/
namespace Varint.Bridge.Split
open Varint Varint.Gen.C Varint.Bridge Varint.Bridge.External

/-- the width loop of `varintExternalUnsignedEncoding` as expanded inside the split macros -/
theorem widthL : ∀ (f v e : Nat), extLen v ≤ f → e + extLen v < 2 ^ 32 →
    splitLength_loop1 f (v, e) = .done (0, e + extLen v - 1) := by
  intro f
  induction f with
  | zero => intro v e h; have := extLen_pos v; omega
  | succ f ih =>
    intro v e hf he
    unfold splitLength_loop1
    simp only [Nat.reducePow]
    rw [extLen_eq] at hf he ⊢
    by_cases c : v < 256
    · have h0 : v / 256 = 0 := by omega
      simp only [h0, if_pos c, ne_eq, not_true_eq_false, if_false]
      rw [Nat.add_sub_cancel]
    · simp only [if_neg c] at hf he ⊢
      have h0 : v / 256 ≠ 0 := by omega
      rw [if_pos h0]
      have hp := extLen_pos (v / 256)
      rw [Nat.mod_eq_of_lt (by omega)]
      rw [ih (v / 256) (e + 1) (by omega) (by omega)]
      congr 2
      omega

theorem widthP : ∀ (f v e : Nat), extLen v ≤ f → e + extLen v < 2 ^ 32 →
    splitPut_loop1 f (v, e) = .done (0, e + extLen v - 1) := by
  intro f
  induction f with
  | zero => intro v e h; have := extLen_pos v; omega
  | succ f ih =>
    intro v e hf he
    unfold splitPut_loop1
    simp only [Nat.reducePow]
    rw [extLen_eq] at hf he ⊢
    by_cases c : v < 256
    · have h0 : v / 256 = 0 := by omega
      simp only [h0, if_pos c, ne_eq, not_true_eq_false, if_false]
      rw [Nat.add_sub_cancel]
    · simp only [if_neg c] at hf he ⊢
      have h0 : v / 256 ≠ 0 := by omega
      rw [if_pos h0]
      have hp := extLen_pos (v / 256)
      rw [Nat.mod_eq_of_lt (by omega)]
      rw [ih (v / 256) (e + 1) (by omega) (by omega)]
      congr 2
      omega

/-- **`varintSplitLength_`** for every 64-bit value, every fuel ≥ 8 -/
theorem splitLength_eq (v fuel : Nat) (hv : v < 2 ^ 64) (hf : 8 ≤ fuel) :
    splitLength fuel v = some (Split.S.len v) := by
  unfold splitLength Split.S.len
  simp only []
  by_cases c1 : v ≤ 63
  · rw [if_pos c1, if_pos c1]
  · rw [if_neg c1, if_neg c1]
    by_cases c2 : v ≤ 16446
    · rw [if_pos c2, if_pos c2]
    · rw [if_neg c2, if_neg c2]
      have hu : (v + 2 ^ 64 - 16446) % 2 ^ 64 = v - 16446 := by omega
      simp only [hu]
      have h8 := extLen_le_8 (show v - 16446 < 2 ^ 64 by omega)
      have h1 := extLen_pos (v - 16446)
      rw [widthL fuel (v - 16446) 1 (by omega) (by omega)]
      simp only [Split.lenVar]
      have : ¬ extLen (v - 16446) < 1 := by omega
      rw [if_neg this]
      simp only [Option.some.injEq]
      omega


/-! ### varintSplitPut_ -/

theorem applyStores_shift (x : Nat) (l : List Nat) (st : List (Nat × Nat)) :
    applyStores (x :: l) (shiftW 1 st) = x :: applyStores l st := by
  induction st generalizing l with
  | nil => rfl
  | cons p st ih =>
    simp only [shiftW, applyStores, List.map_cons, List.foldl_cons] at ih ⊢
    rw [show 1 + p.1 = p.1 + 1 by omega, List.set_cons_succ]
    exact ih (l.set p.1 p.2)

/-- a type byte at index 0 followed by a callee's stores shifted by one -/
theorem writes_cons (t : Nat) (st : List (Nat × Nat)) (bs : List Nat) (h : Writes st bs) :
    Writes ((0, t) :: shiftW 1 st) (t :: bs) := by
  obtain ⟨h1, h2, h3, h4⟩ := h
  refine ⟨?_, ?_, ?_, ?_⟩
  · simp only [applyStores, List.foldl_cons, List.length_cons, List.replicate_succ, List.set_cons_zero]
    have := applyStores_shift t (List.replicate bs.length 0) st
    simp only [applyStores] at this
    rw [this]
    simp only [applyStores] at h1
    rw [h1]
  · simp [shiftW, h2]
  · intro p hp
    simp only [List.mem_cons, shiftW, List.mem_map] at hp
    rcases hp with rfl | ⟨q, hq, rfl⟩
    · simp
    · have := h3 q hq; simp; omega
  · simp only [List.map_cons, shiftW, List.map_map, List.nodup_cons, List.mem_map]
    refine ⟨?_, ?_⟩
    · rintro ⟨q, _, hq⟩; simp at hq
    · have hinj : (Prod.fst ∘ fun p : Nat × Nat => (1 + p.1, p.2)) = (fun n => 1 + n) ∘ Prod.fst := rfl
      rw [hinj, ← List.map_map]
      exact List.Pairwise.map (fun n => 1 + n) (fun a b (hab : a ≠ b) => by omega) h4

theorem or64 (x : Nat) (hx : x < 64) : (64 ||| x) % 2 ^ 8 = 64 + x := by
  have := Nat.two_pow_add_eq_or_of_lt (i := 6) (b := x) (by omega) 1
  simp only [Nat.reducePow, Nat.one_mul] at this
  rw [← this]; omega

theorem or128 (x : Nat) (hx : x < 128) : (128 ||| x) % 2 ^ 8 = 128 + x := by
  have := Nat.two_pow_add_eq_or_of_lt (i := 7) (b := x) (by omega) 1
  simp only [Nat.reducePow, Nat.one_mul] at this
  rw [← this]; omega

/-- **`varintSplitPut_(dst, len, v)`** for every 64-bit value and every fuel ≥ 8: `len` is the model's length, the memory
    left at dst[0 … len-1] is the model's encoding, each byte stored once and nothing beyond -/
theorem splitPut_eq (v fuel : Nat) (hv : v < 2 ^ 64) (hf : 8 ≤ fuel) :
    ∃ stores, splitPut fuel v = some (Split.S.len v, stores) ∧ Writes stores (Split.S.enc v) := by
  unfold splitPut Split.S.len Split.S.enc
  simp only []
  by_cases c1 : v ≤ 63
  · rw [if_pos c1, if_pos c1, if_pos c1]
    refine ⟨_, rfl, ?_⟩
    have e : (0 ||| v) % 2 ^ 8 = v := by rw [Nat.zero_or]; omega
    rw [e]
    unfold Writes Split.encLevel
    have hm : v % 64 = v := by omega
    simp [applyStores, beBytes, hm]
  · rw [if_neg c1, if_neg c1, if_neg c1]
    by_cases c2 : v ≤ 16446
    · rw [if_pos c2, if_pos c2, if_pos c2]
      refine ⟨_, rfl, ?_⟩
      have hu : (v + 2 ^ 64 - 63) % 2 ^ 64 = v - 63 := by omega
      simp only [hu]
      have e1 : (64 ||| ((v - 63) / 2 ^ 8 % 64)) % 2 ^ 8 = 64 + (v - 63) / 256 % 64 := by
        rw [or64 _ (Nat.mod_lt _ (by omega))]
      have e2 : ((v - 63) % 256) % 2 ^ 8 = (v - 63) % 256 := by omega
      rw [e1, e2]
      unfold Writes Split.encLevel
      simp [applyStores, beBytes]
    · rw [if_neg c2, if_neg c2, if_neg c2]
      have hu : (v + 2 ^ 64 - 16446) % 2 ^ 64 = v - 16446 := by omega
      simp only [hu]
      generalize hud : v - 16446 = u
      have hu64 : u < 2 ^ 64 := by omega
      have h8 := extLen_le_8 hu64
      have h1 := extLen_pos u
      rw [widthP fuel u 1 (by omega) (by omega)]
      simp only []
      have el : ((1 + (1 + extLen u - 1)) % 2 ^ 32) % 2 ^ 8 = 1 + extLen u := by omega
      simp only [el]
      have ew : ((((1 + extLen u : Nat) : Int) - (1 : Int)) % (2 ^ 32 : Int)).toNat = extLen u := by omega
      simp only [ew]
      rw [or128 (extLen u) (by omega)]
      simp only [Split.lenVar, Split.encVar, hud]
      have hnm : ¬ extLen u < 1 := by omega
      simp only [if_neg hnm]
      generalize extLen u = w at *
      refine ⟨_, rfl, ?_⟩
      by_cases w3 : w = 3
      · subst w3
        simp only [if_true]
        unfold Writes
        simp only [le3]
        refine ⟨?_, rfl, by simp, by simp⟩
        simp [applyStores]; omega
      · rw [if_neg w3]
        by_cases w2 : w = 2
        · subst w2
          simp only [if_true]
          unfold Writes
          simp only [le2]
          refine ⟨?_, rfl, by simp, by simp⟩
          simp [applyStores]
        · rw [if_neg w2]
          have := writes_cons (128 + w) _ _ (extPutFixedWidth_eq u w h1 h8)
          simpa [External.encFixed] using this


/-! ### varintSplitGet_, varintSplitGetLen_ -/

set_option maxRecDepth 8000 in
theorem and192 : ∀ b, b < 256 → b &&& 192 = b / 64 * 64 := by decide

/-- **`varintSplitGetLen_`** on the type byte -/
theorem splitGetLen_eq (p : Nat → Nat) (h0 : p 0 < 256) : splitGetLen p = Split.S.getLen (p 0) := by
  unfold splitGetLen Split.S.getLen
  simp only [and192 (p 0) h0]
  generalize p 0 = b at *
  by_cases c1 : b < 64
  · have e : (((b / 64 * 64 : Nat) : Int) = (0 : Int)) := by omega
    simp only [e, if_true, if_pos c1]
  · have e1 : ¬ (((b / 64 * 64 : Nat) : Int) = (0 : Int)) := by omega
    rw [if_neg e1, if_neg c1]
    by_cases c2 : b < 128
    · have e : (((b / 64 * 64 : Nat) : Int) = (64 : Int)) := by omega
      simp only [e, if_true, if_pos c2]
    · have e2 : ¬ (((b / 64 * 64 : Nat) : Int) = (64 : Int)) := by omega
      rw [if_neg e2, if_neg c2]
      by_cases c3 : b < 192
      · have e : (((b / 64 * 64 : Nat) : Int) = (128 : Int)) := by omega
        simp only [e, if_true, if_pos c3]
        omega
      · have e3 : ¬ (((b / 64 * 64 : Nat) : Int) = (128 : Int)) := by omega
        rw [if_neg e3, if_neg c3]

theorem or_low (x y : Nat) (k : Nat) (hy : y < 2 ^ k) : (x * 2 ^ k) ||| y = x * 2 ^ k + y :=
  Bridge.Tagged.or_eq_add (x * 2 ^ k) y k (Nat.mul_mod_left _ _) hy

set_option maxRecDepth 4000 in
/-- **`varintSplitGet_(p, len, v)`** on a buffer holding `bs`: whenever the model reads inside `bs` and the type byte is
    one an encoder produces (var widths 0..8) the C returns the model's (length, value) -/
theorem splitGet_eq (bs : List Nat) (hb : ∀ b ∈ bs, b < 256) (val n : Nat)
    (hw : ∀ b0 rest, bs = b0 :: rest → 128 ≤ b0 → b0 < 192 → b0 % 64 ≤ 8)
    (h : Split.S.dec bs = some (val, n)) :
    splitGet (Bridge.Tagged.bufOf bs) = (n, some val) := by
  cases bs with
  | nil => simp [Split.S.dec] at h
  | cons b0 rest =>
    have h0 : b0 < 256 := hb b0 (by simp)
    have hp0 : Bridge.Tagged.bufOf (b0 :: rest) 0 = b0 := rfl
    unfold splitGet
    simp only [hp0, and192 b0 h0]
    unfold Split.S.dec at h
    simp only [] at h
    by_cases c1 : b0 < 64
    · have e : (((b0 / 64 * 64 : Nat) : Int) = (0 : Int)) := by omega
      rw [if_pos e]
      rw [if_pos c1] at h
      simp only [Split.decLevel, takeExact, Nat.zero_le, if_true, List.take_zero, Option.map_some, ofBe,
        Option.some.injEq, Prod.mk.injEq] at h
      obtain ⟨hv, hn⟩ := h
      refine Prod.ext (by simp; omega) ?_
      simp only [Option.some.injEq]
      rw [← hv]; simp; omega
    · have e1 : ¬ (((b0 / 64 * 64 : Nat) : Int) = (0 : Int)) := by omega
      rw [if_neg e1]
      rw [if_neg c1] at h
      by_cases c2 : b0 < 128
      · have e : (((b0 / 64 * 64 : Nat) : Int) = (64 : Int)) := by omega
        rw [if_pos e]
        rw [if_pos c2] at h
        cases rest with
        | nil => simp [Split.decLevel, takeExact] at h
        | cons b1 r =>
          have h1 : b1 < 256 := hb b1 (by simp)
          have hp1 : Bridge.Tagged.bufOf (b0 :: b1 :: r) 1 = b1 := rfl
          simp only [Split.decLevel, takeExact, List.length_cons, List.take_succ_cons, List.take_zero,
            Option.map_some, ofBe, Option.some.injEq, Prod.mk.injEq] at h
          simp only [hp1]
          have ha : (((((b0 % 64 : Nat) : Int)) % (2 ^ 64 : Int)).toNat) = b0 % 64 := by omega
          have hlt : b0 % 64 * 2 ^ 8 < 2 ^ 64 := by omega
          rw [ha, Nat.mod_eq_of_lt hlt, or_low (b0 % 64) b1 8 (by omega)]
          have hif : (1 ≤ r.length + 1) := by omega
          simp only [hif, if_true, Option.map_some, Option.some.injEq, Prod.mk.injEq, List.length_nil] at h
          obtain ⟨hv, hn⟩ := h
          have hofbe : ofBe [b1] = b1 := by simp [ofBe]
          rw [hofbe, Nat.pow_one] at hv
          refine Prod.ext (by simp; omega) ?_
          simp only [Option.some.injEq]
          rw [← hv]
      · have e2 : ¬ (((b0 / 64 * 64 : Nat) : Int) = (64 : Int)) := by omega
        rw [if_neg e2]
        rw [if_neg c2] at h
        by_cases c3 : b0 < 192
        · have e : (((b0 / 64 * 64 : Nat) : Int) = (128 : Int)) := by omega
          rw [if_pos e]
          rw [if_pos c3] at h
          have hw8 := hw b0 rest rfl (by omega) c3
          have en : ((1 + ((((b0 : Nat) : Int) - ((b0 / 64 * 64 : Nat) : Int)) % (2 ^ 32 : Int)).toNat) % 2 ^ 32) % 2 ^ 8
              = 1 + b0 % 64 := by omega
          simp only [en]
          have ew : ((((1 + b0 % 64 : Nat) : Int) - (1 : Int)) % (2 ^ 32 : Int)).toNat = b0 % 64 := by omega
          simp only [ew]
          generalize hwd : b0 % 64 = w at *
          simp only [Split.decVar] at h
          cases ht : takeExact w rest with
          | none => rw [ht] at h; simp at h
          | some pl =>
            rw [ht] at h
            simp only [Option.map_some, Option.some.injEq, Prod.mk.injEq] at h
            obtain ⟨hv, hn⟩ := h
            have hlen : w ≤ rest.length ∧ pl = rest.take w := by
              unfold takeExact at ht
              split at ht
              · exact ⟨by assumption, by simpa using ht.symm⟩
              · simp at ht
            have hbuf : ∀ i, i < w → Bridge.Tagged.bufOf (b0 :: rest) (1 + i) = rest.getD i 0 := by
              intro i _
              unfold Bridge.Tagged.bufOf
              rw [show 1 + i = i + 1 by omega]
              simp [List.getD_eq_getElem?_getD]
            have hpl : pl = (List.range w).map (fun i => Bridge.Tagged.bufOf (b0 :: rest) (1 + i)) := by
              rw [hlen.2]
              apply List.ext_getElem
              · simp; omega
              · intro i h1' h2'
                simp only [List.getElem_take, List.getElem_map, List.getElem_range]
                rw [hbuf i (by simpa using h2'), List.getD_eq_getElem?_getD,
                  List.getElem?_eq_getElem (by simp at h1'; omega)]
                rfl
            have hrb : ∀ i, i < w → Bridge.Tagged.bufOf (b0 :: rest) (1 + i) < 256 := by
              intro i hi
              exact Bridge.Tagged.bufOf_lt (b0 :: rest) hb (1 + i)
            have hval : (if (((1 + w : Nat) : Int) - (1 : Int) = (3 : Int)) then
                  (((Bridge.Tagged.bufOf (b0 :: rest) 3) * 2 ^ 16 % 2 ^ 64) |||
                    ((Bridge.Tagged.bufOf (b0 :: rest) 2) * 2 ^ 8 % 2 ^ 64)) ||| (Bridge.Tagged.bufOf (b0 :: rest) 1)
                else if (((1 + w : Nat) : Int) - (1 : Int) = (2 : Int)) then
                  ((Bridge.Tagged.bufOf (b0 :: rest) 2) * 2 ^ 8 % 2 ^ 64) ||| (Bridge.Tagged.bufOf (b0 :: rest) 1)
                else extGet (fun i => Bridge.Tagged.bufOf (b0 :: rest) (1 + i)) w) = ofLe pl := by
              by_cases w3 : w = 3
              · subst w3
                have q1 := hrb 0 (by omega); have q2 := hrb 1 (by omega); have q3 := hrb 2 (by omega)
                simp only [Nat.add_zero] at q1 q2 q3
                rw [if_pos (by omega), hpl]
                simp only [List.range, List.range.loop, List.map, ofLe, Nat.add_zero]
                generalize Bridge.Tagged.bufOf (b0 :: rest) 1 = y1 at *
                generalize Bridge.Tagged.bufOf (b0 :: rest) (1 + 1) = y2 at *
                generalize Bridge.Tagged.bufOf (b0 :: rest) (1 + 2) = y3 at *
                have hl1 : y3 * 2 ^ 16 < 2 ^ 64 := by omega
                have hl2 : y2 * 2 ^ 8 < 2 ^ 64 := by omega
                rw [Nat.mod_eq_of_lt hl1, Nat.mod_eq_of_lt hl2]
                have o1 : y3 * 2 ^ 16 ||| y2 * 2 ^ 8 = y3 * 2 ^ 16 + y2 * 2 ^ 8 := by
                  have := Bridge.Tagged.or_eq_add (y3 * 2 ^ 16) (y2 * 2 ^ 8) 16 (Nat.mul_mod_left _ _) (by omega)
                  exact this
                rw [o1]
                have o2 : (y3 * 2 ^ 16 + y2 * 2 ^ 8) ||| y1 = y3 * 2 ^ 16 + y2 * 2 ^ 8 + y1 :=
                  Bridge.Tagged.or_eq_add _ y1 8 (by omega) (by omega)
                rw [o2]; omega
              · rw [if_neg (by omega)]
                by_cases w2 : w = 2
                · subst w2
                  have q1 := hrb 0 (by omega); have q2 := hrb 1 (by omega)
                  simp only [Nat.add_zero] at q1 q2
                  rw [if_pos (by omega), hpl]
                  simp only [List.range, List.range.loop, List.map, ofLe, Nat.add_zero]
                  generalize Bridge.Tagged.bufOf (b0 :: rest) 1 = y1 at *
                  generalize Bridge.Tagged.bufOf (b0 :: rest) (1 + 1) = y2 at *
                  have hl2 : y2 * 2 ^ 8 < 2 ^ 64 := by omega
                  rw [Nat.mod_eq_of_lt hl2, or_low y2 y1 8 (by omega)]; omega
                · rw [if_neg (by omega)]
                  by_cases w0 : w = 0
                  · subst w0
                    rw [hpl]
                    simp [extGet, extLoadLE, List.range, List.range.loop, ofLe]
                  · rw [extGet_eq _ w (by omega) hw8 hrb, hpl]
            refine Prod.ext (by simp only []; omega) ?_
            simp only [Option.some.injEq]
            rw [← hv, ← hval]
        · have e3 : ¬ (((b0 / 64 * 64 : Nat) : Int) = (128 : Int)) := by omega
          rw [if_neg e3]
          rw [if_neg c3] at h
          simp only [Option.some.injEq, Prod.mk.injEq] at h
          obtain ⟨rfl, rfl⟩ := h
          rfl

end Varint.Bridge.Split
