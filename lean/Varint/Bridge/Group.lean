import Varint.Gen.CGroup
import Varint.Model.Group
import Varint.Lemmas.Group
import Varint.Lemmas.Canon
import Varint.Bridge.Loop
import Varint.Bridge.Tagged
import Varint.Bridge.External
import Varint.Bridge.Sizes
import Varint.Bridge.Packed
import Varint.Bridge.Dim
/-
  Bridge: the readers of src/varintGroup.c — varintGroupGetFieldWidth, varintGroupGetSize (loop over the 2-bit width
  codes) and varintGroupDecode (a loop that fills the local array `widths[]`, then a loop that reads it back while
  walking the value bytes) — as translated by tools/c2lean2.py from the CURRENT source, equal the hand-written model
  Varint.Group.* on every byte buffer the model reads inside of.
-/
namespace Varint.Bridge.Group
open Varint Varint.Gen.C Varint.Bridge Varint.Group
open Varint.Bridge.Tagged (bufOf bufOf_lt)

theorem mapM_some_getElem {α β : Type} (f : α → Option β) :
    ∀ (l : List α) (r : List β), l.mapM f = some r → ∀ i (h : i < l.length) (h' : i < r.length), f l[i] = some r[i] := by
  intro l
  induction l with
  | nil => intro r _ i h; simp at h
  | cons a l ih =>
    intro r hm i h h'
    rw [List.mapM_cons] at hm
    cases hfa : f a with
    | none => rw [hfa] at hm; cases hm
    | some b =>
      cases hl : l.mapM f with
      | none => rw [hfa, hl] at hm; cases hm
      | some bs =>
        rw [hfa, hl] at hm
        cases hm
        cases i with
        | zero => simpa using hfa
        | succ j =>
          simp only [List.getElem_cons_succ]
          exact ih bs hl j (by simpa using h) (by simpa using h')

/-- the 2-bit width code of field `i` as the C extracts it -/
theorem code_read (b i : Nat) (hi : i < 256) :
    (((((b : Nat) : Int) / 2 ^ ((((((i : Nat) : Int) * (2 : Int))) % (2 ^ 64 : Int)).toNat % 8)) % (4 : Int)) % (2 ^ 8 : Int)).toNat =
      b / 4 ^ (i % 4) % 4 := by
  have e : (((((i : Nat) : Int) * (2 : Int))) % (2 ^ 64 : Int)).toNat % 8 = 2 * (i % 4) := by omega
  rw [e]
  have h4 : i % 4 = 0 ∨ i % 4 = 1 ∨ i % 4 = 2 ∨ i % 4 = 3 := by omega
  rcases h4 with h | h | h | h <;> rw [h] <;> simp only [Nat.reduceMul, Nat.reducePow, Nat.pow_zero] <;> omega

theorem byte_pos (i : Nat) (hi : i < 256) :
    (1 + (((((i : Nat) : Int) * (2 : Int))) % (2 ^ 64 : Int)).toNat / 8) % 2 ^ 64 = 1 + i / 4 := by omega

/-- one width read: from `widths bs n = some ws` the C's read of field `i < n` gives `ws[i]` -/
theorem width_read (bs ws : List Nat) (n : Nat) (hw : widths bs n = some ws) (i : Nat) (hi : i < n) (h256 : i < 256) :
    groupWidthDecode
      ((((((bufOf bs ((1 + (((((i : Nat) : Int) * (2 : Int))) % (2 ^ 64 : Int)).toNat / 8) % 2 ^ 64) : Nat) : Int) /
        2 ^ ((((((i : Nat) : Int) * (2 : Int))) % (2 ^ 64 : Int)).toNat % 8)) % (4 : Int)) % (2 ^ 8 : Int)).toNat) =
      ws.getD i 0 := by
  have hl := widths_length bs n ws hw
  unfold widths at hw
  have := mapM_some_getElem _ _ _ hw i (by simpa using hi) (by omega)
  simp only [List.getElem_range] at this
  unfold codeAt at this
  cases hb : bs[1 + i / 4]? with
  | none => rw [hb] at this; simp at this
  | some b =>
    rw [hb] at this
    simp only [Option.map_some, Option.some.injEq] at this
    rw [byte_pos i h256]
    have hbuf : bufOf bs (1 + i / 4) = b := by
      unfold bufOf; rw [List.getD_eq_getElem?_getD, hb]; rfl
    rw [hbuf, code_read b i h256, Sizes.groupWidthDecode_eq, this, List.getD_eq_getElem?_getD,
      List.getElem?_eq_getElem (by omega)]
    rfl

/-- **`varintGroupGetFieldWidth(src, i)`** = the model's accessor (0 = VARINT_WIDTH_INVALID) -/
theorem groupGetFieldWidth_eq (bs : List Nat) (hb : ∀ b ∈ bs, b < 256) (i w : Nat) (hi : i < 256)
    (h : getFieldWidth bs i = some w) : groupGetFieldWidth (bufOf bs) i = w := by
  cases bs with
  | nil => simp [getFieldWidth] at h
  | cons c t =>
    have hc : bufOf (c :: t) 0 = c := rfl
    unfold groupGetFieldWidth
    unfold getFieldWidth at h
    simp only [hc] at h ⊢
    by_cases c0 : c = 0 ∨ i ≥ c
    · rw [if_pos c0] at h
      simp only [Option.some.injEq] at h
      rw [if_pos (by omega), h]
    · rw [if_neg c0] at h
      rw [if_neg (by omega)]
      unfold codeAt at h
      cases hbq : (c :: t)[1 + i / 4]? with
      | none => rw [hbq] at h; simp at h
      | some b =>
        rw [hbq] at h
        simp only [Option.map_some, Option.some.injEq] at h
        rw [byte_pos i hi]
        have hbuf : bufOf (c :: t) (1 + i / 4) = b := by
          unfold bufOf; rw [List.getD_eq_getElem?_getD, hbq]; rfl
        rw [hbuf, code_read b i hi, Sizes.groupWidthDecode_eq, h]

theorem sum_take_succ (ws : List Nat) (i : Nat) (h : i < ws.length) :
    (ws.take (i + 1)).sum = (ws.take i).sum + ws.getD i 0 := by
  rw [List.take_add_one, List.sum_append, List.getD_eq_getElem?_getD, List.getElem?_eq_getElem h]
  simp

/-- the width-summing loop of `varintGroupGetSize` -/
theorem getSize_loop (bs ws : List Nat) (c : Nat) (hc : c ≤ 64) (hw : widths bs c = some ws) (base : Nat)
    (hbase : base + 8 * 64 < 2 ^ 64) (hws : ∀ w ∈ ws, w ≤ 8) :
    ∀ (n i : Nat), i + n = c → ∀ fuel, n < fuel →
      groupGetSize_loop1 (bufOf bs) c fuel (i, base + (ws.take i).sum) = .done (c, base + ws.sum) := by
  have hl := widths_length bs c ws hw
  have hsum : ∀ k, (ws.take k).sum ≤ 8 * k := by
    intro k
    induction k with
    | zero => simp
    | succ k ih =>
      by_cases hk : k < ws.length
      · rw [sum_take_succ ws k hk]
        have : ws.getD k 0 ≤ 8 := by
          rw [List.getD_eq_getElem?_getD, List.getElem?_eq_getElem hk]; exact hws _ (List.getElem_mem _)
        omega
      · rw [List.take_of_length_le (by omega)] at ih ⊢; omega
  intro n
  induction n with
  | zero =>
    intro i hi fuel hf
    obtain ⟨f, rfl⟩ : ∃ f', fuel = f' + 1 := ⟨fuel - 1, by omega⟩
    have : i = c := by omega
    subst this
    have c1 : ¬ (((i : Nat) : Int) < ((i : Nat) : Int)) := by omega
    simp only [groupGetSize_loop1, if_neg c1]
    rw [List.take_of_length_le (by omega)]
  | succ n ih =>
    intro i hi fuel hf
    obtain ⟨f, rfl⟩ : ∃ f', fuel = f' + 1 := ⟨fuel - 1, by omega⟩
    have c1 : (((i : Nat) : Int) < ((c : Nat) : Int)) := by omega
    simp only [groupGetSize_loop1, if_pos c1]
    rw [width_read bs ws c hw i (by omega) (by omega)]
    have e1 : (i + 1) % 2 ^ 8 = i + 1 := by omega
    have hs := hsum i
    have hg : ws.getD i 0 ≤ 8 := by
      rw [List.getD_eq_getElem?_getD, List.getElem?_eq_getElem (by omega)]; exact hws _ (List.getElem_mem _)
    have e2 : (base + (ws.take i).sum + ws.getD i 0) % 2 ^ 64 = base + (ws.take (i + 1)).sum := by
      rw [sum_take_succ ws i (by omega), Nat.mod_eq_of_lt (by omega)]; omega
    rw [e1, e2]
    exact ih (i + 1) (by omega) f (by omega)

theorem widths_le8 (bs ws : List Nat) (n : Nat) (hw : widths bs n = some ws) : ∀ w ∈ ws, w ≤ 8 := by
  intro w hwm
  obtain ⟨i, hi, rfl⟩ := List.getElem_of_mem hwm
  have hl := widths_length bs n ws hw
  unfold widths at hw
  have := mapM_some_getElem _ _ _ hw i (by simp; omega) hi
  simp only [List.getElem_range] at this
  cases hca : codeAt bs i with
  | none => rw [hca] at this; simp at this
  | some cd =>
    rw [hca] at this
    simp only [Option.map_some, Option.some.injEq] at this
    rw [← this]
    unfold Group.width
    split <;> omega

/-- **`varintGroupGetSize(src)`** = the model's self-measured size, every fuel above the field count -/
theorem groupGetSize_eq (bs : List Nat) (hb : ∀ b ∈ bs, b < 256) (sz : Nat) (h : getSize bs = some sz) (fuel : Nat)
    (hf : 64 < fuel) : groupGetSize fuel (bufOf bs) = some sz := by
  cases bs with
  | nil => simp [getSize] at h
  | cons c t =>
    have hc : bufOf (c :: t) 0 = c := rfl
    have hc256 : c < 256 := hb c (by simp)
    unfold groupGetSize
    unfold getSize at h
    simp only [hc] at h ⊢
    by_cases c0 : c = 0 ∨ c > 64
    · rw [if_pos c0] at h
      rw [if_pos (by omega)]
      exact h
    · rw [if_neg c0] at h
      rw [if_neg (by omega)]
      cases hw : widths (c :: t) c with
      | none => rw [hw] at h; simp at h
      | some ws =>
        rw [hw] at h
        simp only [Option.map_some, Option.some.injEq] at h
        rw [Sizes.groupBitmapSize_eq c hc256]
        have hbm : bitmapSize c ≤ 17 := by unfold bitmapSize; omega
        rw [Nat.mod_eq_of_lt (by omega)]
        have := getSize_loop (c :: t) ws c (by omega) hw (1 + bitmapSize c) (by omega) (widths_le8 _ _ _ hw) c 0
          (by omega) fuel (by omega)
        simp only [List.take_zero, List.sum_nil, Nat.add_zero] at this
        rw [this, ← h]

theorem widths_ge1 (bs ws : List Nat) (n : Nat) (hw : widths bs n = some ws) : ∀ w ∈ ws, 1 ≤ w := by
  intro w hwm
  obtain ⟨i, hi, rfl⟩ := List.getElem_of_mem hwm
  have hl := widths_length bs n ws hw
  unfold widths at hw
  have := mapM_some_getElem _ _ _ hw i (by simp; omega) hi
  simp only [List.getElem_range] at this
  cases hca : codeAt bs i with
  | none => rw [hca] at this; simp at this
  | some cd =>
    rw [hca] at this
    simp only [Option.map_some, Option.some.injEq] at this
    rw [← this]
    unfold Group.width
    split <;> omega

/-- reading a local array back through the stores that filled it -/
theorem rdw_storesFrom (m : Nat → Nat) : ∀ (ws : List Nat) (k i : Nat), k ≤ i → i < k + ws.length →
    rdw m (storesFrom k ws) i = ws.getD (i - k) 0 := by
  intro ws
  induction ws generalizing m with
  | nil => intro k i h1 h2; simp at h2; omega
  | cons w ws ih =>
    intro k i h1 h2
    rw [storesFrom_cons, Packed.rdw_cons]
    by_cases c : i = k
    · subst c
      simp only [Nat.sub_self, List.getD_cons_zero]
      -- no later store hits index i
      have hno : ∀ (l : List Nat) (j : Nat) (f : Nat → Nat), i < j → rdw f (storesFrom j l) i = f i := by
        intro l
        induction l with
        | nil => intro j f _; rfl
        | cons x l ihl =>
          intro j f hj
          rw [storesFrom_cons, Packed.rdw_cons, ihl (j + 1) _ (by omega)]
          simp only []
          rw [if_neg (by omega)]
      rw [hno ws (i + 1) _ (by omega)]
      simp
    · simp only [List.length_cons] at h2
      rw [ih _ (k + 1) i (by omega) (by omega)]
      have : i - k = (i - (k + 1)) + 1 := by omega
      rw [this, List.getD_cons_succ]

/-- the loop of `varintGroupDecode` that fills `widths[]` -/
theorem widths_loop (bs ws : List Nat) (c : Nat) (hc : c ≤ 64) (hw : widths bs c = some ws) (fc : Option Nat) :
    ∀ (n i : Nat), i + n = c → ∀ fuel, n < fuel →
      groupDecode_loop1 (bufOf bs) c 1 fuel (i, [], storesFrom 0 (ws.take i), fc) = .done (c, [], storesFrom 0 ws, fc) := by
  have hl := widths_length bs c ws hw
  intro n
  induction n with
  | zero =>
    intro i hi fuel hf
    obtain ⟨f, rfl⟩ : ∃ f', fuel = f' + 1 := ⟨fuel - 1, by omega⟩
    have : i = c := by omega
    subst this
    have c1 : ¬ (((i : Nat) : Int) < ((i : Nat) : Int)) := by omega
    simp only [groupDecode_loop1, if_neg c1]
    rw [List.take_of_length_le (by omega)]
  | succ n ih =>
    intro i hi fuel hf
    obtain ⟨f, rfl⟩ : ∃ f', fuel = f' + 1 := ⟨fuel - 1, by omega⟩
    have c1 : (((i : Nat) : Int) < ((c : Nat) : Int)) := by omega
    simp only [groupDecode_loop1, if_pos c1]
    rw [width_read bs ws c hw i (by omega) (by omega)]
    have e1 : (i + 1) % 2 ^ 8 = i + 1 := by omega
    have e2 : storesFrom 0 (ws.take i) ++ [(i, ws.getD i 0)] = storesFrom 0 (ws.take (i + 1)) := by
      rw [List.take_add_one, storesFrom_append, List.getD_eq_getElem?_getD, List.getElem?_eq_getElem (by omega)]
      simp [List.length_take]
      omega
    rw [e1, e2]
    exact ih (i + 1) (by omega) f (by omega)

/-- the loop of `varintGroupDecode` that reads the values, their widths taken from `widths[]` -/
theorem values_loop (bs ws : List Nat) (hb : ∀ b ∈ bs, b < 256) (h64 : bs.length < 2 ^ 64) (c : Nat) (hc : c ≤ 64)
    (hlen : ws.length = c) (h1 : ∀ w ∈ ws, 1 ≤ w) (h8 : ∀ w ∈ ws, w ≤ 8) (fc : Option Nat) :
    ∀ (n i off : Nat) (st : List (Nat × Nat)) (vs : List Nat), i + n = c →
      readFields bs (ws.drop i) off = some vs → ∀ fuel, n < fuel →
      groupDecode_loop2 (bufOf bs) c fuel (i, off, st, storesFrom 0 ws, fc) =
        .done (c, off + (ws.drop i).sum, st ++ storesFrom i vs, storesFrom 0 ws, fc) := by
  intro n
  induction n with
  | zero =>
    intro i off st vs hi hr fuel hf
    obtain ⟨f, rfl⟩ : ∃ f', fuel = f' + 1 := ⟨fuel - 1, by omega⟩
    have : i = c := by omega
    subst this
    rw [List.drop_of_length_le (by omega)] at hr ⊢
    simp only [readFields, Option.some.injEq] at hr
    subst hr
    have c1 : ¬ (((i : Nat) : Int) < ((i : Nat) : Int)) := by omega
    simp [groupDecode_loop2, c1]
  | succ n ih =>
    intro i off st vs hi hr fuel hf
    obtain ⟨f, rfl⟩ : ∃ f', fuel = f' + 1 := ⟨fuel - 1, by omega⟩
    have c1 : (((i : Nat) : Int) < ((c : Nat) : Int)) := by omega
    have hdrop : ws.drop i = ws[i]'(by omega) :: ws.drop (i + 1) := by
      rw [List.drop_eq_getElem_cons (by omega)]
    rw [hdrop] at hr ⊢
    unfold readFields at hr
    cases hp : takeExact ws[i] (bs.drop off) with
    | none => rw [hp] at hr; simp at hr
    | some p =>
      rw [hp] at hr
      simp only [] at hr
      cases hr' : readFields bs (ws.drop (i + 1)) (off + ws[i]) with
      | none => rw [hr'] at hr; simp at hr
      | some vs' =>
        rw [hr'] at hr
        simp only [Option.some.injEq] at hr
        subst hr
        obtain ⟨hpe, hple, _⟩ := takeExact_some hp
        have hw1 := h1 ws[i] (List.getElem_mem _)
        have hin : off + ws[i] ≤ bs.length := by rw [List.length_drop] at hple; omega
        have hw8 := h8 ws[i] (List.getElem_mem _)
        have hrd : rdw (fun _ => 0) (storesFrom 0 ws) i = ws[i] := by
          rw [rdw_storesFrom _ ws 0 i (by omega) (by omega), Nat.sub_zero, List.getD_eq_getElem?_getD,
            List.getElem?_eq_getElem (by omega)]
          rfl
        have e1 : (i + 1) % 2 ^ 8 = i + 1 := by omega
        simp only [groupDecode_loop2, if_pos c1, hrd, e1]
        rw [External.extGet_eq _ _ hw1 hw8 (fun k _ => bufOf_lt bs hb _), Dim.range_map_bufOf bs off _ hin, ← hpe,
          Nat.mod_eq_of_lt (by omega)]
        rw [ih (i + 1) (off + ws[i]) _ vs' (by omega) hr' f (by omega)]
        simp only [storesFrom_cons, List.append_assoc, List.singleton_append, List.sum_cons]
        have e2 : off + ws[i] + (ws.drop (i + 1)).sum = off + (ws[i] + (ws.drop (i + 1)).sum) := by omega
        rw [e2]

/-- **`varintGroupDecode(src, values, &fieldCount, maxFields)`** on every byte buffer the model reads inside of: a field
    count of 0, above 64 or above the capacity returns 0 with no store at all (not even `*fieldCount`); otherwise the C
    stores the count, exactly the model's values at values[0 … count-1] in order and nowhere else, and returns the bytes
    consumed. Every fuel above 64. -/
theorem groupDecode_eq (bs : List Nat) (hb : ∀ b ∈ bs, b < 256) (h64 : bs.length < 2 ^ 64) (cap fuel : Nat)
    (hf : 64 < fuel) :
    (dec bs cap = some none → groupDecode fuel (bufOf bs) cap = some (0, none, [])) ∧
    (∀ vs consumed, dec bs cap = some (some (vs, consumed)) →
      groupDecode fuel (bufOf bs) cap = some (consumed, some vs.length, storesFrom 0 vs) ∧ vs.length ≤ cap) := by
  cases bs with
  | nil => simp [dec]
  | cons c t =>
    have hc : bufOf (c :: t) 0 = c := rfl
    have hc256 : c < 256 := hb c (by simp)
    unfold groupDecode dec
    simp only [hc]
    constructor
    · intro hd
      by_cases c0 : c = 0 ∨ c > 64 ∨ c > cap
      · rw [if_pos (by omega)]
      · rw [if_neg c0] at hd
        cases hw : widths (c :: t) c with
        | none => rw [hw] at hd; simp at hd
        | some ws =>
          rw [hw] at hd
          simp only [] at hd
          cases hr : readFields (c :: t) ws (1 + bitmapSize c) with
          | none => rw [hr] at hd; simp at hd
          | some vs => rw [hr] at hd; simp at hd
    · intro vs consumed hd
      by_cases c0 : c = 0 ∨ c > 64 ∨ c > cap
      · rw [if_pos c0] at hd; simp at hd
      · rw [if_neg c0] at hd
        rw [if_neg (by omega)]
        cases hw : widths (c :: t) c with
        | none => rw [hw] at hd; simp at hd
        | some ws =>
          rw [hw] at hd
          simp only [] at hd
          cases hr : readFields (c :: t) ws (1 + bitmapSize c) with
          | none => rw [hr] at hd; simp at hd
          | some vs' =>
            rw [hr] at hd
            simp only [Option.some.injEq, Prod.mk.injEq] at hd
            obtain ⟨rfl, rfl⟩ := hd
            have hl := widths_length _ c ws hw
            have hvl := readFields_length (c :: t) ws _ _ hr
            have hbm : bitmapSize c ≤ 17 := by unfold bitmapSize; omega
            have hwl := widths_loop (c :: t) ws c (by omega) hw (some c) c 0 (by omega) fuel (by omega)
            simp only [List.take_zero, storesFrom_nil] at hwl
            rw [hwl, Sizes.groupBitmapSize_eq c hc256, Nat.mod_eq_of_lt (by omega)]
            simp only []
            have hvl2 := values_loop (c :: t) ws hb h64 c (by omega) hl (widths_ge1 _ _ _ hw) (widths_le8 _ _ _ hw)
              (some c) c 0 (1 + bitmapSize c) [] vs' (by omega) (by simpa using hr) fuel (by omega)
            rw [hvl2]
            simp only [List.drop_zero, List.nil_append]
            refine ⟨?_, by omega⟩
            rw [hvl, hl]

/-! ### varintGroupSize (the size predictor) and varintGroupGetField (random access) -/

theorem width_loop_sz : ∀ (f v e : Nat), extLen v ≤ f → e + extLen v < 2 ^ 32 →
    groupSize_loop2 f (v, e) = .done (0, e + extLen v - 1) := by
  intro f
  induction f with
  | zero => intro v e h; have := extLen_pos v; omega
  | succ f ih =>
    intro v e hf he
    unfold groupSize_loop2
    simp only [Nat.reducePow]
    rw [extLen_eq] at hf he ⊢
    by_cases c : v < 256
    · have h0 : v / 256 = 0 := by omega
      simp only [h0, if_pos c, ne_eq, not_true_eq_false, if_false]
      rw [Nat.add_sub_cancel]
    · simp only [if_neg c] at hf he ⊢
      have h0 : v / 256 ≠ 0 := by omega
      rw [if_pos h0]
      have hp := extLen_pos (v / 256)
      rw [Nat.mod_eq_of_lt (by omega)]
      rw [ih (v / 256) (e + 1) (by omega) (by omega)]
      congr 2
      omega

theorem size_loop (xs : List Nat) (hx : ∀ x ∈ xs, x < 2 ^ 64) (hc : xs.length ≤ 64) :
    ∀ (n i tot : Nat), i + n = xs.length → tot + 8 * n < 2 ^ 64 → ∀ fuel, n + 9 ≤ fuel →
      groupSize_loop1 (bufOf xs) xs.length fuel (i, tot) = .done (xs.length, tot + ((xs.drop i).map normW).sum) := by
  intro n
  induction n with
  | zero =>
    intro i tot hi _ fuel hf
    obtain ⟨f, rfl⟩ : ∃ f', fuel = f' + 1 := ⟨fuel - 1, by omega⟩
    have : i = xs.length := by omega
    subst this
    have c1 : ¬ (((xs.length : Nat) : Int) < ((xs.length : Nat) : Int)) := by omega
    simp [groupSize_loop1, c1]
  | succ n ih =>
    intro i tot hi htot fuel hf
    obtain ⟨f, rfl⟩ : ∃ f', fuel = f' + 1 := ⟨fuel - 1, by omega⟩
    have c1 : (((i : Nat) : Int) < ((xs.length : Nat) : Int)) := by omega
    have hdrop : xs.drop i = xs[i]'(by omega) :: xs.drop (i + 1) := by
      rw [List.drop_eq_getElem_cons (by omega)]
    have hv : bufOf xs i = xs[i]'(by omega) := by
      unfold bufOf; rw [List.getD_eq_getElem?_getD, List.getElem?_eq_getElem (by omega)]; rfl
    have hlt := hx _ (List.getElem_mem (show i < xs.length by omega))
    have h8 := extLen_le_8 hlt
    have h1 := extLen_pos (xs[i]'(by omega))
    simp only [groupSize_loop1, if_pos c1, hv]
    rw [width_loop_sz f _ 1 (by omega) (by omega)]
    simp only [show 1 + extLen (xs[i]'(by omega)) - 1 = extLen (xs[i]'(by omega)) by omega]
    have e1 : (i + 1) % 2 ^ 8 = i + 1 := by omega
    have hn : (if extLen (xs[i]'(by omega)) ≤ 1 then (tot + 1) % 2 ^ 64
        else if extLen (xs[i]'(by omega)) ≤ 2 then (tot + 2) % 2 ^ 64
        else if extLen (xs[i]'(by omega)) ≤ 4 then (tot + 4) % 2 ^ 64 else (tot + 8) % 2 ^ 64) =
        tot + normW (xs[i]'(by omega)) := by
      unfold normW
      simp only []
      split
      · exact Nat.mod_eq_of_lt (by omega)
      · split
        · exact Nat.mod_eq_of_lt (by omega)
        · split
          · exact Nat.mod_eq_of_lt (by omega)
          · exact Nat.mod_eq_of_lt (by omega)
    rw [hn, e1, hdrop]
    have hnw := normW_le_8 (xs[i]'(by omega))
    rw [ih (i + 1) _ (by omega) (by omega) f (by omega)]
    simp only [List.map_cons, List.sum_cons]
    congr 2
    omega

/-- **`varintGroupSize(values, n)`** = the model's size predictor, for every field list of 64-bit values (n = 0 or
    n > 64 gives 0), every fuel ≥ n + 9 -/
theorem groupSize_eq (xs : List Nat) (hx : ∀ x ∈ xs, x < 2 ^ 64) (h256 : xs.length < 256) (fuel : Nat)
    (hf : xs.length + 9 ≤ fuel) : groupSize fuel (bufOf xs) xs.length = some (Group.size xs) := by
  unfold groupSize Group.size
  by_cases c0 : xs.length = 0 ∨ xs.length > 64
  · rw [if_pos c0, if_pos (by omega)]
  · rw [if_neg c0, if_neg (by omega), Sizes.groupBitmapSize_eq _ h256]
    have hbm : bitmapSize xs.length ≤ 17 := by unfold bitmapSize; omega
    simp only []
    rw [Nat.mod_eq_of_lt (show 1 + bitmapSize xs.length < 2 ^ 64 by omega)]
    rw [size_loop xs hx (by omega) xs.length 0 _ (by omega) (by omega) fuel hf]
    simp

theorem getField_loop (bs ws : List Nat) (idx : Nat) (hidx : idx < 64) (hw : widths bs (idx + 1) = some ws) (base : Nat)
    (hbase : base + 8 * 64 < 2 ^ 64) :
    ∀ (n j : Nat), j + n = idx → ∀ (a b c d : Nat) fuel, n < fuel →
      ∃ a' b' c' d', groupGetField_loop1 (bufOf bs) idx fuel (j, a, b, c, d, base + (ws.take j).sum) =
        .done (idx, a', b', c', d', base + (ws.take idx).sum) := by
  have hl := widths_length bs _ ws hw
  have hws := widths_le8 bs ws _ hw
  have hsum : ∀ k, (ws.take k).sum ≤ 8 * k := by
    intro k
    induction k with
    | zero => simp
    | succ k ih =>
      by_cases hk : k < ws.length
      · rw [sum_take_succ ws k hk]
        have : ws.getD k 0 ≤ 8 := by
          rw [List.getD_eq_getElem?_getD, List.getElem?_eq_getElem hk]; exact hws _ (List.getElem_mem _)
        omega
      · rw [List.take_of_length_le (by omega)] at ih ⊢; omega
  intro n
  induction n with
  | zero =>
    intro j hj a b c d fuel hf
    obtain ⟨f, rfl⟩ : ∃ f', fuel = f' + 1 := ⟨fuel - 1, by omega⟩
    have : j = idx := by omega
    subst this
    have c1 : ¬ (((j : Nat) : Int) < ((j : Nat) : Int)) := by omega
    simp only [groupGetField_loop1, if_neg c1]
    exact ⟨_, _, _, _, rfl⟩
  | succ n ih =>
    intro j hj a b c d fuel hf
    obtain ⟨f, rfl⟩ : ∃ f', fuel = f' + 1 := ⟨fuel - 1, by omega⟩
    have c1 : (((j : Nat) : Int) < ((idx : Nat) : Int)) := by omega
    simp only [groupGetField_loop1, if_pos c1]
    rw [width_read bs ws _ hw j (by omega) (by omega)]
    have e1 : (j + 1) % 2 ^ 8 = j + 1 := by omega
    have hs := hsum j
    have hg : ws.getD j 0 ≤ 8 := by
      rw [List.getD_eq_getElem?_getD, List.getElem?_eq_getElem (by omega)]; exact hws _ (List.getElem_mem _)
    have e2 : (base + (ws.take j).sum + ws.getD j 0) % 2 ^ 64 = base + (ws.take (j + 1)).sum := by
      rw [sum_take_succ ws j (by omega), Nat.mod_eq_of_lt (by omega)]; omega
    rw [e1, e2]
    exact ih (j + 1) (by omega) _ _ _ _ f (by omega)

/-- **`varintGroupGetField(src, i, &value)`** = the model's random access on every buffer the model reads inside of:
    index out of range (or count 0) returns 0 and stores nothing; otherwise the field's value and the bytes from the start
    through the field. Field index below 64, every fuel above 64. -/
theorem groupGetField_eq (bs : List Nat) (hb : ∀ b ∈ bs, b < 256) (h64 : bs.length < 2 ^ 64) (i : Nat) (hi : i < 64)
    (fuel : Nat) (hf : 64 < fuel) :
    (getField bs i = some none → groupGetField fuel (bufOf bs) i = some (0, none)) ∧
    (∀ v n, getField bs i = some (some (v, n)) → groupGetField fuel (bufOf bs) i = some (n, some v)) := by
  cases bs with
  | nil => simp [getField]
  | cons c t =>
    have hc : bufOf (c :: t) 0 = c := rfl
    have hc256 : c < 256 := hb c (by simp)
    unfold groupGetField getField
    simp only [hc]
    constructor
    · intro hd
      by_cases c0 : c = 0 ∨ i ≥ c
      · rw [if_pos (by omega)]
      · rw [if_neg c0] at hd
        cases hw : widths (c :: t) (i + 1) with
        | none => rw [hw] at hd; simp at hd
        | some ws =>
          rw [hw] at hd
          simp only [] at hd
          cases hp : takeExact (ws.getD i 1) ((c :: t).drop (1 + bitmapSize c + (ws.take i).sum)) with
          | none => rw [hp] at hd; simp at hd
          | some p => rw [hp] at hd; simp at hd
    · intro v n hd
      by_cases c0 : c = 0 ∨ i ≥ c
      · rw [if_pos c0] at hd; simp at hd
      · rw [if_neg c0] at hd
        rw [if_neg (by omega)]
        cases hw : widths (c :: t) (i + 1) with
        | none => rw [hw] at hd; simp at hd
        | some ws =>
          rw [hw] at hd
          simp only [] at hd
          cases hp : takeExact (ws.getD i 1) ((c :: t).drop (1 + bitmapSize c + (ws.take i).sum)) with
          | none => rw [hp] at hd; simp at hd
          | some p =>
            rw [hp] at hd
            simp only [Option.some.injEq, Prod.mk.injEq] at hd
            obtain ⟨rfl, rfl⟩ := hd
            have hl := widths_length _ _ ws hw
            have hbm : bitmapSize c ≤ 65 := by unfold bitmapSize; omega
            have hgd : ws.getD i 1 = ws.getD i 0 := by
              rw [List.getD_eq_getElem?_getD, List.getD_eq_getElem?_getD, List.getElem?_eq_getElem (by omega)]; rfl
            have hw1 : 1 ≤ ws.getD i 0 := by
              rw [List.getD_eq_getElem?_getD, List.getElem?_eq_getElem (by omega)]
              exact widths_ge1 _ _ _ hw _ (List.getElem_mem _)
            have hw8 : ws.getD i 0 ≤ 8 := by
              rw [List.getD_eq_getElem?_getD, List.getElem?_eq_getElem (by omega)]
              exact widths_le8 _ _ _ hw _ (List.getElem_mem _)
            rw [hgd] at hp ⊢
            obtain ⟨hpe, hple, _⟩ := takeExact_some hp
            have hin : 1 + bitmapSize c + (ws.take i).sum + ws.getD i 0 ≤ (c :: t).length := by
              rw [List.length_drop] at hple; omega
            have e0 : (1 + 0 : Nat) = 1 := rfl
            rw [Sizes.groupBitmapSize_eq c hc256, Nat.mod_eq_of_lt (show 1 + bitmapSize c < 2 ^ 64 by omega)]
            have hwr := width_read (c :: t) ws _ hw i (by omega) (by omega)
            obtain ⟨a', b', c', d', hloop⟩ := getField_loop (c :: t) ws i hi hw (1 + bitmapSize c) (by omega) i 0 (by omega)
              ((((((i : Nat) : Int) * (2 : Int))) % (2 ^ 64 : Int)).toNat)
              ((1 + (((((i : Nat) : Int) * (2 : Int))) % (2 ^ 64 : Int)).toNat / 8) % 2 ^ 64)
              ((((((i : Nat) : Int) * (2 : Int))) % (2 ^ 64 : Int)).toNat % 8)
              (((((((bufOf (c :: t) ((1 + (((((i : Nat) : Int) * (2 : Int))) % (2 ^ 64 : Int)).toNat / 8) % 2 ^ 64) : Nat) : Int) /
                2 ^ ((((((i : Nat) : Int) * (2 : Int))) % (2 ^ 64 : Int)).toNat % 8)) % (4 : Int)) % (2 ^ 8 : Int)).toNat))
              fuel (by omega)
            simp only [List.take_zero, List.sum_nil, Nat.add_zero] at hloop
            simp only [hwr, hloop]
            rw [External.extGet_eq _ _ hw1 hw8 (fun k _ => bufOf_lt _ hb _), Dim.range_map_bufOf _ _ _ hin, ← hpe,
              Nat.mod_eq_of_lt (by omega)]

end Varint.Bridge.Group
