import Varint.Gen.CPacked13
import Varint.Model.Packed
import Varint.Lemmas.BitField
import Varint.Lemmas.Packed
import Varint.Lemmas.PackedSeq
import Varint.Bridge.Loop
import Varint.Bridge.Bits
/-
  Bridge: the template header src/varintPacked.h instantiated a second time by harness/vw_packed.c with 13-bit values (uint32_t slots,
  uint32_t lengths: the functions `varintPacked13*`), machine-translated by tools/c2lean2.py from what clang sees after
  the preprocessor has instantiated the CURRENT header (harness/vw_packed.c) — Get, Set (one- and two-slot paths,
  `memcpy` of a whole slot = load/store of the slot), BinarySearch (loop), Member, Insert / Delete (loops of Set(Get)
  over the memory the earlier iterations left), InsertSorted, DeleteMember — equal the hand-written model
  Varint.Packed.* at S = 32, b = 13, for every slot array, every element index whose slots exist, every value that fits.
-/
namespace Varint.Bridge.Packed13
open Varint Varint.Gen.C Varint.Bridge Varint.BF Varint.Bridge.Bits Varint.Packed

/-! ### slot-level facts (any value width `b`, 32-bit slots, 64-bit intermediates as in the C) -/

/-- one-slot load: `(slot >> startBit) & VALUE_MASK`, cut to the value type -/
theorem cget_one (x sb b : Nat) (hb : b ≤ 16) : ((x / 2 ^ sb) &&& (2 ^ b - 1)) % 2 ^ 16 = extract x sb b := by
  unfold extract mask
  rw [Nat.shiftRight_eq_div_pow]
  apply Nat.mod_eq_of_lt
  apply Nat.lt_of_le_of_lt Nat.and_le_right
  have : 2 ^ b ≤ 2 ^ 16 := Nat.pow_le_pow_right (by omega) hb
  have := Nat.two_pow_pos b
  omega

/-- two-slot load: `low | (high & ((VALUE_MASK >> avail) << avail))`, cut to the value type; `a` = bits available in
    the first slot -/
theorem cget_two (x y a b : Nat) (hx : x < 2 ^ 32) (ha : 1 ≤ a) (hab : a < b) (hb : b ≤ 16) :
    ((x / 2 ^ (32 - a)) ||| ((y * 2 ^ a % 2 ^ 64) &&& (((2 ^ b - 1) / 2 ^ a) * 2 ^ a % 2 ^ 32))) % 2 ^ 16 =
      extract x (32 - a) a ||| (extract y 0 (b - a)) <<< a := by
  have hmd : (2 ^ b - 1) / 2 ^ a = mask (b - a) := by
    have := mask_div (b - a) a
    rw [show b - a + a = b by omega] at this
    exact this
  rw [hmd]
  apply Nat.eq_of_testBit_eq
  intro j
  rw [Nat.testBit_mod_two_pow, Nat.testBit_or, Nat.testBit_and, Nat.testBit_mod_two_pow, Nat.testBit_mod_two_pow,
    ← Nat.shiftLeft_eq, ← Nat.shiftLeft_eq, Nat.testBit_shiftLeft, testBit_mask_shift, Nat.testBit_or,
    Nat.testBit_shiftLeft, testBit_extract, testBit_extract, ← Nat.shiftRight_eq_div_pow, Nat.testBit_shiftRight]
  by_cases h1 : j < a
  · have n1 : ¬ a ≤ j := by omega
    have : j < 16 := by omega
    simp [h1, n1, this]
  · have h2 : a ≤ j := by omega
    have hx0 : x.testBit (32 - a + j) = false := testBit_false_of_lt hx (by omega)
    by_cases h3 : j - a < b - a
    · have : j < 16 := by omega
      have : j < 64 := by omega
      have : j < 32 := by omega
      simp [hx0, *]
    · simp [h1, h2, h3, hx0]

/-- one-slot store -/
theorem cset_one (x sb b v : Nat) (hx : x < 2 ^ 32) (hsb : sb + b ≤ 32) (hv : v < 2 ^ b) :
    ((x &&& (2 ^ 64 - 1 - ((2 ^ b - 1) * 2 ^ sb % 2 ^ 64))) ||| (v * 2 ^ sb % 2 ^ 64)) % 2 ^ 32 = insert x sb b v := by
  rw [cword_insert x sb b v (by omega) (by omega) hv]
  exact Nat.mod_eq_of_lt (insert_lt x sb b v 32 hx hv hsb)

/-- first slot of a two-slot store: the low `a` bits of the value land at the top of the slot; the conversion to the
    32-bit slot type is what cuts the rest off -/
theorem cset_first (x a b v : Nat) (hx : x < 2 ^ 32) (ha : 1 ≤ a) (hab : a < b) (hb : b ≤ 32) :
    ((x &&& (2 ^ 64 - 1 - ((2 ^ b - 1) * 2 ^ (32 - a) % 2 ^ 64))) ||| (v * 2 ^ (32 - a) % 2 ^ 64)) % 2 ^ 32 =
      insert x (32 - a) a (v &&& mask a) := by
  have hvm : v &&& mask a < 2 ^ a := Nat.and_lt_two_pow v (by unfold mask; have := Nat.two_pow_pos a; omega)
  apply Nat.eq_of_testBit_eq
  intro j
  rw [Nat.testBit_mod_two_pow, Nat.testBit_or, testBit_andNot64 x _ j (by omega) (Nat.mod_lt _ (Nat.two_pow_pos 64)),
    testBit_insert x (32 - a) a _ j hvm, Nat.testBit_mod_two_pow, Nat.testBit_mod_two_pow,
    ← Nat.shiftLeft_eq, ← Nat.shiftLeft_eq, show 2 ^ b - 1 = mask b from rfl, testBit_mask_shift,
    Nat.testBit_shiftLeft, Nat.testBit_and, testBit_mask]
  by_cases hj : j < 32
  · have hj64 : j < 64 := by omega
    by_cases hl : 32 - a ≤ j
    · have c : 32 - a ≤ j ∧ j < 32 - a + a := ⟨hl, by omega⟩
      have d1 : j - (32 - a) < b := by omega
      have d2 : j - (32 - a) < a := by omega
      simp [hj, hj64, hl, c, d1, d2]
    · have c : ¬ (32 - a ≤ j ∧ j < 32 - a + a) := by omega
      simp [hj, hj64, hl]
  · have c : ¬ (32 - a ≤ j ∧ j < 32 - a + a) := by omega
    have c2 : ¬ (j < 32 - a + a) := by omega
    simp [hj, c2, testBit_false_of_lt hx (by omega : 32 ≤ j)]

/-- second slot of a two-slot store: the remaining high bits of the value land at the bottom of the next slot -/
theorem cset_second (y a b v : Nat) (hy : y < 2 ^ 32) (hab : a < b) (hb : b ≤ 32) (hv : v < 2 ^ b) :
    ((y &&& (2 ^ 64 - 1 - (2 ^ b - 1) / 2 ^ a)) ||| (v / 2 ^ a)) % 2 ^ 32 = insert y 0 (b - a) (v >>> a) := by
  have hsplit : b = (b - a) + a := by omega
  have h1 := cword_first y (b - a) a v (by omega) (by omega) (by rw [← hsplit]; exact hv)
  rw [← hsplit] at h1
  rw [h1]
  apply Nat.mod_eq_of_lt
  apply insert_lt y 0 (b - a) (v >>> a) 32 hy _ (by omega)
  rw [Nat.shiftRight_eq_div_pow]
  apply Nat.div_lt_of_lt_mul
  rw [← Nat.pow_add, show a + (b - a) = b by omega]
  exact hv

/-! ### the 13-bit / 32-bit-slot instantiation -/

theorem e32 : (4 * 8) % 2 ^ 64 = 32 := by decide
theorem emask : ((8192 + 2 ^ 64 - 1) % 2 ^ 64) % 2 ^ 16 = 2 ^ 13 - 1 := by decide

theorem memOf_lt32 (ws : List Nat) (h : WordsOK 32 ws) (j : Nat) : memOf ws j < 2 ^ 32 := by
  unfold memOf; exact getD_lt 32 ws h j

/-- **`varintPacked13Get(src, i)`** = the model's `get` at S = 32, b = 13, for every index below 2^32 -/
theorem packed13Get_eq (ws : List Nat) (hws : WordsOK 32 ws) (i : Nat) (hi : i < 2 ^ 32) :
    packed13Get (memOf ws) i = Packed.get 32 13 ws i := by
  have hs : i * 13 % 32 < 32 := Nat.mod_lt _ (by omega)
  unfold packed13Get Packed.get
  simp only [e32, emask]
  have e0 : i * 13 % 2 ^ 64 = i * 13 := Nat.mod_eq_of_lt (by omega)
  have e1 : i * 13 % 32 % 2 ^ 32 = i * 13 % 32 := Nat.mod_eq_of_lt (by omega)
  have e2 : (32 + 2 ^ 64 - i * 13 % 32) % 2 ^ 64 % 2 ^ 32 = 32 - i * 13 % 32 := by omega
  simp only [e0, e1, e2]
  by_cases c : 13 ≤ 32 - i * 13 % 32
  · rw [if_pos c, if_pos c]
    exact cget_one _ _ 13 (by omega)
  · rw [if_neg c, if_neg c]
    have := cget_two (memOf ws (i * 13 / 32)) (memOf ws (i * 13 / 32 + 1)) (32 - i * 13 % 32) 13
      (memOf_lt32 ws hws _) (by omega) (by omega) (by omega)
    rw [show 32 - (32 - i * 13 % 32) = i * 13 % 32 by omega] at this
    exact this

/-- the stores of `varintPacked13Set(dst, i, v)` in terms of the model's bit-field `insert` -/
theorem packed13Set_stores (mem : Nat → Nat) (hm : ∀ j, mem j < 2 ^ 32) (i v : Nat) (hi : i < 2 ^ 32) (hv : v < 2 ^ 13) :
    packed13Set mem i v =
      if 13 ≤ 32 - i * 13 % 32 then [(i * 13 / 32, insert (mem (i * 13 / 32)) (i * 13 % 32) 13 v)]
      else [(i * 13 / 32, insert (mem (i * 13 / 32)) (i * 13 % 32) (32 - i * 13 % 32) (v &&& mask (32 - i * 13 % 32))),
            (i * 13 / 32 + 1, insert (mem (i * 13 / 32 + 1)) 0 (13 - (32 - i * 13 % 32)) (v >>> (32 - i * 13 % 32)))] := by
  have hs : i * 13 % 32 < 32 := Nat.mod_lt _ (by omega)
  unfold packed13Set
  simp only [e32, emask]
  have e0 : i * 13 % 2 ^ 64 = i * 13 := Nat.mod_eq_of_lt (by omega)
  have e1 : i * 13 % 32 % 2 ^ 32 = i * 13 % 32 := Nat.mod_eq_of_lt (by omega)
  have e2 : (32 + 2 ^ 64 - i * 13 % 32) % 2 ^ 64 % 2 ^ 32 = 32 - i * 13 % 32 := by omega
  simp only [e0, e1, e2, rdw_nil]
  by_cases c : 13 ≤ 32 - i * 13 % 32
  · rw [if_pos c, if_pos c]
    rw [cset_one (mem (i * 13 / 32)) (i * 13 % 32) 13 v (hm _) (by omega) hv]
  · rw [if_neg c, if_neg c]
    have h1 := cset_first (mem (i * 13 / 32)) (32 - i * 13 % 32) 13 v (hm _) (by omega) (by omega) (by omega)
    rw [show 32 - (32 - i * 13 % 32) = i * 13 % 32 by omega] at h1
    rw [h1, cset_second (mem (i * 13 / 32 + 1)) (32 - i * 13 % 32) 13 v (hm _) (by omega) (by omega) hv]

/-- **`varintPacked13Set(dst, i, v)`**: carrying out the C's stores on the slot array gives the model's array -/
theorem packed13Set_eq (ws : List Nat) (hws : WordsOK 32 ws) (i v : Nat) (hi : i < 2 ^ 32) (hv : v < 2 ^ 13) :
    applyStores ws (packed13Set (memOf ws) i v) = Packed.set 32 13 ws i v := by
  rw [packed13Set_stores (memOf ws) (memOf_lt32 ws hws) i v hi hv]
  unfold Packed.set
  simp only []
  by_cases c : 13 ≤ 32 - i * 13 % 32
  · rw [if_pos c, if_pos c]; rfl
  · rw [if_neg c, if_neg c]
    simp only [applyStores, List.foldl_cons, List.foldl_nil, memOf]
    congr 2
    rw [List.getD_eq_getElem?_getD, List.getD_eq_getElem?_getD, List.getElem?_set_ne (by omega)]

/-! ### memory seen through the stores made so far -/

theorem rdw_cons (m : Nat → Nat) (p : Nat × Nat) (st : List (Nat × Nat)) (i : Nat) :
    rdw m (p :: st) i = rdw (fun k => if k = p.1 then p.2 else m k) st i := by
  unfold rdw
  rw [List.reverse_cons, List.find?_append]
  cases h : st.reverse.find? (fun q => q.1 = i) with
  | some q => simp
  | none =>
    by_cases c : p.1 = i
    · simp [c]
    · have c' : ¬ i = p.1 := fun e => c e.symm
      simp [c, c']

theorem memOf_set (ws : List Nat) (j x : Nat) (hj : j < ws.length) :
    memOf (ws.set j x) = fun k => if k = j then x else memOf ws k := by
  funext k
  unfold memOf
  rw [List.getD_eq_getElem?_getD, List.getD_eq_getElem?_getD]
  by_cases c : k = j
  · subst c; simp [hj]
  · rw [if_neg c, List.getElem?_set_ne (fun e => c e.symm)]

theorem applyStores_length (ws : List Nat) (st : List (Nat × Nat)) : (applyStores ws st).length = ws.length := by
  induction st generalizing ws with
  | nil => rfl
  | cons p st ih => simp only [applyStores, List.foldl_cons] at ih ⊢; rw [ih]; simp

theorem applyStores_append (ws : List Nat) (a b : List (Nat × Nat)) :
    applyStores ws (a ++ b) = applyStores (applyStores ws a) b := by
  simp [applyStores, List.foldl_append]

/-- reading through the stores = reading the memory they leave (all stores inside the array) -/
theorem rdw_memOf (ws : List Nat) (st : List (Nat × Nat)) (h : ∀ p ∈ st, p.1 < ws.length) :
    (fun i => rdw (memOf ws) st (0 + i)) = memOf (applyStores ws st) := by
  induction st generalizing ws with
  | nil => funext i; simp [rdw, applyStores]
  | cons p st ih =>
    have hp := h p (by simp)
    have := ih (ws.set p.1 p.2) (by intro q hq; simp only [List.length_set]; exact h q (by simp [hq]))
    rw [memOf_set ws p.1 p.2 hp] at this
    funext i
    rw [rdw_cons]
    have e := congrFun this i
    simp only [applyStores, List.foldl_cons] at e ⊢
    exact e

/-- the stores of a Set stay inside the array when the element's slots exist -/
theorem packed13Set_inrange (ws : List Nat) (mem : Nat → Nat) (hm : ∀ j, mem j < 2 ^ 32) (i v : Nat) (hi : i < 2 ^ 32)
    (hv : v < 2 ^ 13) (hf : Fits 32 13 i ws) : ∀ p ∈ packed13Set mem i v, p.1 < ws.length := by
  rw [packed13Set_stores mem hm i v hi hv]
  unfold Fits at hf
  obtain ⟨hf, _⟩ := hf
  by_cases c : 13 ≤ 32 - i * 13 % 32
  · rw [if_pos c] at hf ⊢
    intro p hp; simp at hp; subst hp; exact hf
  · rw [if_neg c] at hf ⊢
    intro p hp; simp at hp
    rcases hp with rfl | rfl
    · show i * 13 / 32 < ws.length; omega
    · exact hf

/-! ### BinarySearch, Member -/

theorem bsearch_loop (ws : List Nat) (hws : WordsOK 32 ws) (v : Nat) :
    ∀ n lo hi, hi - lo ≤ n → hi < 2 ^ 32 → ∀ f g, n < f → n < g →
      ∃ mx, packed13BinarySearch_loop1 (memOf ws) v f (lo, hi) = .done (bsearchAux 32 13 ws v g lo hi, mx) := by
  intro n
  induction n with
  | zero =>
    intro lo hi h hhi f g hf hg
    obtain ⟨f, rfl⟩ : ∃ f', f = f' + 1 := ⟨f - 1, by omega⟩
    obtain ⟨g, rfl⟩ : ∃ g', g = g' + 1 := ⟨g - 1, by omega⟩
    have c : ¬ lo < hi := by omega
    simp only [packed13BinarySearch_loop1, bsearchAux, if_neg c]
    exact ⟨_, rfl⟩
  | succ n ih =>
    intro lo hi h hhi f g hf hg
    obtain ⟨f, rfl⟩ : ∃ f', f = f' + 1 := ⟨f - 1, by omega⟩
    obtain ⟨g, rfl⟩ : ∃ g', g = g' + 1 := ⟨g - 1, by omega⟩
    by_cases c : lo < hi
    · have em : (lo + hi) % 2 ^ 64 / 2 ^ 1 % 2 ^ 32 = (lo + hi) / 2 := by
        rw [Nat.mod_eq_of_lt (show lo + hi < 2 ^ 64 by omega)]
        omega
      simp only [packed13BinarySearch_loop1, bsearchAux, if_pos c, em]
      rw [packed13Get_eq ws hws _ (by omega)]
      by_cases d : Packed.get 32 13 ws ((lo + hi) / 2) < v
      · have d' : ((Packed.get 32 13 ws ((lo + hi) / 2) : Nat) : Int) < ((v : Nat) : Int) := by omega
        simp only [if_pos d, if_pos d']
        rw [Nat.mod_eq_of_lt (by omega)]
        exact ih _ _ (by omega) hhi f g (by omega) (by omega)
      · have d' : ¬ ((Packed.get 32 13 ws ((lo + hi) / 2) : Nat) : Int) < ((v : Nat) : Int) := by omega
        simp only [if_neg d, if_neg d']
        exact ih _ _ (by omega) (by omega) f g (by omega) (by omega)
    · simp only [packed13BinarySearch_loop1, bsearchAux, if_neg c]
      exact ⟨_, rfl⟩

/-- **`varintPacked13BinarySearch(src, len, v)`** = the model's lower-bound search, every length below 2^32 (as
    repaired: `min + max` is added in 64 bits; the original 32-bit `(min + max) >> 1` wrapped from 2^31 elements on: D41),
    every fuel above the length -/
theorem packed13BinarySearch_eq (ws : List Nat) (hws : WordsOK 32 ws) (len v : Nat) (hlen : len < 2 ^ 32)
    (fuel : Nat) (hf : len < fuel) :
    packed13BinarySearch fuel (memOf ws) len v = some (Packed.bsearch 32 13 ws len v) := by
  obtain ⟨mx, h⟩ := bsearch_loop ws hws v len 0 len (by omega) hlen fuel (len + 1) hf (by omega)
  unfold packed13BinarySearch Packed.bsearch
  simp only [h]

/-- **`varintPacked13Member(src, len, v)`** = the model's `member` -/
theorem packed13Member_eq (ws : List Nat) (hws : WordsOK 32 ws) (len v : Nat) (hlen : len < 2 ^ 32)
    (fuel : Nat) (hf : len < fuel) :
    packed13Member fuel (memOf ws) len v = some (Packed.member 32 13 ws len v) := by
  unfold packed13Member Packed.member
  rw [packed13BinarySearch_eq ws hws len v hlen fuel hf]
  simp only []
  by_cases c : Packed.bsearch 32 13 ws len v < len
  · rw [packed13Get_eq ws hws _ (by omega)]
    by_cases d : Packed.get 32 13 ws (Packed.bsearch 32 13 ws len v) = v
    · have d' : ((Packed.get 32 13 ws (Packed.bsearch 32 13 ws len v) : Nat) : Int) = ((v : Nat) : Int) := by omega
      rw [if_pos ⟨c, d'⟩, if_pos ⟨c, d⟩]
    · have d' : ¬ ((Packed.get 32 13 ws (Packed.bsearch 32 13 ws len v) : Nat) : Int) = ((v : Nat) : Int) := by omega
      rw [if_neg (fun h => d' h.2), if_neg (fun h => d h.2)]
  · rw [if_neg (fun h => c h.1), if_neg (fun h => c h.1)]

/-! ### Insert, Delete: loops of Set(Get) over the memory the earlier iterations left -/

theorem span13 (j : Nat) : Span 32 13 j := by unfold Span; omega

/-- one iteration's effect: `Set(dst, i, Get(dst, j))` on the memory left by the stores `st` -/
theorem move_step (ws : List Nat) (st : List (Nat × Nat)) (h : ∀ p ∈ st, p.1 < ws.length)
    (hW : WordsOK 32 (applyStores ws st)) (i j : Nat) (hi : i < 2 ^ 32) (hj : j < 2 ^ 32) (hf : Fits 32 13 i ws) :
    let r := packed13Set (fun k => rdw (memOf ws) st (0 + k)) i (packed13Get (fun k => rdw (memOf ws) st (0 + k)) j)
    (∀ p ∈ st ++ r, p.1 < ws.length) ∧
    applyStores ws (st ++ r) = Packed.set 32 13 (applyStores ws st) i (Packed.get 32 13 (applyStores ws st) j) ∧
    WordsOK 32 (applyStores ws (st ++ r)) := by
  intro r
  have hr : r = packed13Set (memOf (applyStores ws st)) i (Packed.get 32 13 (applyStores ws st) j) := by
    show packed13Set _ i (packed13Get _ j) = _
    rw [rdw_memOf ws st h, packed13Get_eq _ hW j hj]
  have hg : Packed.get 32 13 (applyStores ws st) j < 2 ^ 13 :=
    get_lt 32 13 j _ (by omega) (by omega) hW (span13 j)
  have hfW : Fits 32 13 i (applyStores ws st) := fits_of_length (applyStores_length ws st) hf
  have hin := packed13Set_inrange (applyStores ws st) (memOf (applyStores ws st)) (memOf_lt32 _ hW) i _ hi hg hfW
  rw [applyStores_length] at hin
  have happ : applyStores ws (st ++ r) = Packed.set 32 13 (applyStores ws st) i (Packed.get 32 13 (applyStores ws st) j) := by
    rw [applyStores_append, hr, packed13Set_eq _ hW i _ hi hg]
  refine ⟨?_, happ, ?_⟩
  · intro p hp
    rcases List.mem_append.mp hp with hp | hp
    · exact h p hp
    · rw [hr] at hp; exact hin p hp
  · rw [happ]
    exact (val_set 32 13 i _ _ (by omega) (by omega) hg hW hfW).2.1

theorem insert_loop (ws : List Nat) (off : Nat) :
    ∀ k st f, (∀ p ∈ st, p.1 < ws.length) → WordsOK 32 (applyStores ws st) → off + k < 2 ^ 32 →
      FitsN 32 13 ws (off + k + 1) → k < f →
      ∃ st', packed13Insert_loop1 (memOf ws) off f (off + k, st) = .done (off, st') ∧ (∀ p ∈ st', p.1 < ws.length) ∧
        applyStores ws st' = shiftUp 32 13 k (applyStores ws st) off := by
  intro k
  induction k with
  | zero =>
    intro st f h hW _ _ hf
    obtain ⟨f, rfl⟩ : ∃ f', f = f' + 1 := ⟨f - 1, by omega⟩
    refine ⟨st, ?_, h, rfl⟩
    simp [packed13Insert_loop1]
  | succ k ih =>
    intro st f h hW hlt hfit hf
    obtain ⟨f, rfl⟩ : ∃ f', f = f' + 1 := ⟨f - 1, by omega⟩
    have c : off + (k + 1) > off := by omega
    have e1 : (off + (k + 1) + 2 ^ 32 - 1) % 2 ^ 32 = off + k := by omega
    obtain ⟨h2, happ, hW2⟩ := move_step ws st h hW (off + (k + 1)) (off + k) hlt (by omega) (hfit _ (by omega))
    simp only [packed13Insert_loop1, if_pos c, e1]
    obtain ⟨st', hl, hin, hres⟩ := ih _ f h2 hW2 (by omega) (fitsN_mono hfit (by omega)) (by omega)
    refine ⟨st', hl, hin, ?_⟩
    rw [hres, happ]
    rfl

/-- **`varintPacked13Insert(dst, len, off, v)`**: the stores stay inside the slot array and leave the model's
    `insertAt` -/
theorem packed13Insert_eq (ws : List Nat) (hws : WordsOK 32 ws) (len off v : Nat) (hoff : off ≤ len)
    (hlen : len < 2 ^ 32) (hfit : FitsN 32 13 ws (len + 1)) (hv : v < 2 ^ 13) (fuel : Nat) (hf : len - off < fuel) :
    ∃ st, packed13Insert fuel (memOf ws) len off v = some st ∧ (∀ p ∈ st, p.1 < ws.length) ∧
      applyStores ws st = Packed.insertAt 32 13 ws len off v := by
  have hk : len = off + (len - off) := by omega
  obtain ⟨st', hl, hin, hres⟩ := insert_loop ws off (len - off) [] fuel (by simp) hws (by omega)
    (by rw [← hk]; exact hfit) hf
  rw [← hk] at hl
  have hW : WordsOK 32 (applyStores ws st') := by
    rw [hres]
    exact (shiftUp_spec 32 13 (by omega) (by omega) (len - off) ws off hws (by rw [← hk]; exact hfit)).2.1
  have hfo : Fits 32 13 off ws := hfit off (by omega)
  have hfW : Fits 32 13 off (applyStores ws st') := fits_of_length (applyStores_length ws st') hfo
  have hin2 := packed13Set_inrange (applyStores ws st') (memOf (applyStores ws st')) (memOf_lt32 _ hW) off v (by omega) hv hfW
  rw [applyStores_length] at hin2
  unfold packed13Insert
  simp only [hl]
  refine ⟨_, rfl, ?_, ?_⟩
  · intro p hp
    rcases List.mem_append.mp hp with hp | hp
    · exact hin p hp
    · rw [rdw_memOf ws st' hin] at hp; exact hin2 p hp
  · rw [applyStores_append, rdw_memOf ws st' hin, packed13Set_eq _ hW off v (by omega) hv, hres]
    rfl

theorem delete_loop (ws : List Nat) (len : Nat) (hlen1 : 1 ≤ len) (hlen : len < 2 ^ 32) :
    ∀ k i st f, (∀ p ∈ st, p.1 < ws.length) → WordsOK 32 (applyStores ws st) → i + k = len - 1 →
      FitsN 32 13 ws len → k < f →
      ∃ st', packed13Delete_loop1 (memOf ws) len f (i, st) = .done (len - 1, st') ∧ (∀ p ∈ st', p.1 < ws.length) ∧
        applyStores ws st' = shiftDown 32 13 k (applyStores ws st) i := by
  have e0 : (len + 2 ^ 32 - 1) % 2 ^ 32 = len - 1 := by omega
  intro k
  induction k with
  | zero =>
    intro i st f h hW hik _ hf
    obtain ⟨f, rfl⟩ : ∃ f', f = f' + 1 := ⟨f - 1, by omega⟩
    have c : ¬ i < len - 1 := by omega
    have ei : i = len - 1 := by omega
    refine ⟨st, ?_, h, rfl⟩
    simp only [packed13Delete_loop1, e0, if_neg c]
    rw [ei]
  | succ k ih =>
    intro i st f h hW hik hfit hf
    obtain ⟨f, rfl⟩ : ∃ f', f = f' + 1 := ⟨f - 1, by omega⟩
    have c : i < len - 1 := by omega
    have e1 : (i + 1) % 2 ^ 32 = i + 1 := Nat.mod_eq_of_lt (by omega)
    obtain ⟨h2, happ, hW2⟩ := move_step ws st h hW i (i + 1) (by omega) (by omega) (hfit _ (by omega))
    simp only [packed13Delete_loop1, e0, if_pos c, e1]
    obtain ⟨st', hl, hin, hres⟩ := ih (i + 1) _ f h2 hW2 (by omega) hfit (by omega)
    refine ⟨st', hl, hin, ?_⟩
    rw [hres, happ]
    rfl

/-- **`varintPacked13Delete(dst, len, off)`**, off < len: the stores stay inside the slot array and leave the model's
    `deleteAt` -/
theorem packed13Delete_eq (ws : List Nat) (hws : WordsOK 32 ws) (len off : Nat) (hoff : off < len)
    (hlen : len < 2 ^ 32) (hfit : FitsN 32 13 ws len) (fuel : Nat) (hf : len - 1 - off < fuel) :
    ∃ st, packed13Delete fuel (memOf ws) len off = some st ∧ (∀ p ∈ st, p.1 < ws.length) ∧
      applyStores ws st = Packed.deleteAt 32 13 ws len off := by
  obtain ⟨st', hl, hin, hres⟩ := delete_loop ws len (by omega) hlen (len - 1 - off) off [] fuel (by simp) hws (by omega)
    hfit hf
  unfold packed13Delete Packed.deleteAt
  simp only [hl]
  exact ⟨_, rfl, hin, hres⟩

theorem bsearchAux_le (ws : List Nat) (v : Nat) : ∀ fuel lo hi, lo ≤ hi → bsearchAux 32 13 ws v fuel lo hi ≤ hi := by
  intro fuel
  induction fuel with
  | zero => intro lo hi h; exact h
  | succ f ih =>
    intro lo hi h
    simp only [bsearchAux]
    by_cases c : lo < hi
    · rw [if_pos c]
      by_cases d : Packed.get 32 13 ws ((lo + hi) / 2) < v
      · rw [if_pos d]; exact ih _ _ (by omega)
      · rw [if_neg d]; exact Nat.le_trans (ih _ _ (by omega)) (by omega)
    · rw [if_neg c]; exact h

theorem rdw_memOf_nil (ws : List Nat) : (fun i => rdw (memOf ws) [] (0 + i)) = memOf ws := by
  have := rdw_memOf ws [] (by simp)
  simpa [applyStores] using this

/-- **`varintPacked13InsertSorted(dst, len, v)`** = lower-bound search, then the positional insert -/
theorem packed13InsertSorted_eq (ws : List Nat) (hws : WordsOK 32 ws) (len v : Nat) (hlen : len < 2 ^ 32)
    (hfit : FitsN 32 13 ws (len + 1)) (hv : v < 2 ^ 13) (fuel : Nat) (hf : len < fuel) :
    ∃ st, packed13InsertSorted fuel (memOf ws) len v = some st ∧ (∀ p ∈ st, p.1 < ws.length) ∧
      applyStores ws st = Packed.insertSorted 32 13 ws len v := by
  have hle : Packed.bsearch 32 13 ws len v ≤ len := bsearchAux_le ws v _ 0 len (by omega)
  obtain ⟨st, h1, h2, h3⟩ := packed13Insert_eq ws hws len (Packed.bsearch 32 13 ws len v) v hle (by omega) hfit hv fuel
    (by omega)
  unfold packed13InsertSorted Packed.insertSorted
  rw [rdw_memOf_nil, packed13BinarySearch_eq ws hws len v hlen fuel hf]
  simp only [h1]
  exact ⟨st, rfl, h2, h3⟩

/-- **`varintPacked13DeleteMember(dst, len, v)`** = the model's `deleteMember`: found ⇒ the stores leave the array
    with the first occurrence deleted and the result is true; absent ⇒ no store and false -/
theorem packed13DeleteMember_eq (ws : List Nat) (hws : WordsOK 32 ws) (len v : Nat) (hlen : len < 2 ^ 32)
    (hfit : FitsN 32 13 ws len) (fuel : Nat) (hf : len < fuel) :
    ∃ r st, packed13DeleteMember fuel (memOf ws) len v = some (r, st) ∧ (∀ p ∈ st, p.1 < ws.length) ∧
      (applyStores ws st, decide (r = 1)) = Packed.deleteMember 32 13 ws len v ∧ (r = 0 ∨ r = 1) := by
  unfold packed13DeleteMember Packed.deleteMember
  rw [rdw_memOf_nil, packed13Member_eq ws hws len v hlen fuel hf]
  simp only []
  by_cases c : Packed.member 32 13 ws len v ≥ 0
  · rw [if_pos c, if_pos c]
    -- a non-negative result is an index below len
    have hm : ∃ m : Nat, Packed.member 32 13 ws len v = (m : Int) ∧ m < len := by
      unfold Packed.member at c ⊢
      simp only [] at c ⊢
      by_cases d : Packed.bsearch 32 13 ws len v < len ∧ Packed.get 32 13 ws (Packed.bsearch 32 13 ws len v) = v
      · rw [if_pos d]; exact ⟨_, rfl, d.1⟩
      · rw [if_neg d] at c; omega
    obtain ⟨m, hm, hml⟩ := hm
    have e : ((Packed.member 32 13 ws len v) % (2 ^ 32 : Int)).toNat = m := by rw [hm]; omega
    have e2 : (Packed.member 32 13 ws len v).toNat = m := by rw [hm]; omega
    rw [e, e2]
    obtain ⟨st, h1, h2, h3⟩ := packed13Delete_eq ws hws len m hml (by omega) hfit fuel (by omega)
    simp only [h1]
    refine ⟨_, st, rfl, h2, ?_, ?_⟩
    · rw [h3]; simp
    · simp
  · rw [if_neg c, if_neg c]
    refine ⟨_, [], rfl, by simp, ?_, ?_⟩
    · simp [applyStores]
    · simp

/-! ### SetIncr, SetHalf: the inlined read-modify-write equals Set(Get …) -/

theorem mask_shift_mod (a : Nat) : (2 ^ 13 - 1) / 2 ^ a * 2 ^ a % 2 ^ 64 = (2 ^ 13 - 1) / 2 ^ a * 2 ^ a % 2 ^ 32 := by
  have h : (2 ^ 13 - 1) / 2 ^ a * 2 ^ a ≤ 2 ^ 13 - 1 := Nat.div_mul_le_self _ _
  rw [Nat.mod_eq_of_lt (by omega), Nat.mod_eq_of_lt (by omega)]

theorem incr_val (cur : Nat) (d : Int) (hd : 0 ≤ d) (h : cur + d.toNat < 2 ^ 13) :
    (((if ((((((cur : Nat) : Int) + d) % (2 ^ 16 : Int)).toNat : Nat) : Int) < ((cur : Nat) : Int) then
        (((((((cur : Nat) : Int) - d)) % (2 ^ 16 : Int)).toNat : Nat) : Int)
      else ((((((cur : Nat) : Int) + d) % (2 ^ 16 : Int)).toNat : Nat) : Int))) % (2 ^ 16 : Int)).toNat = cur + d.toNat := by
  have v1 : ((((cur : Nat) : Int) + d) % (2 ^ 16 : Int)).toNat = cur + d.toNat := by omega
  rw [v1, if_neg (by omega)]
  omega

theorem half_val (cur : Nat) (h : cur < 2 ^ 16) :
    (((Int.tdiv ((cur : Nat) : Int) (2 : Int))) % (2 ^ 16 : Int)).toNat = cur / 2 := by
  have : Int.tdiv ((cur : Nat) : Int) (2 : Int) = ((cur / 2 : Nat) : Int) := by
    rw [Int.tdiv_eq_ediv_of_nonneg (by omega)]; rfl
  rw [this]; omega

/-- `varintPacked13SetIncr(dst, i, d)` for a non-negative increment whose result stays in range is
    `Set(dst, i, Get(dst, i) + d)` -/
theorem packed13SetIncr_as_set (mem : Nat → Nat) (i : Nat) (d : Int) (hd : 0 ≤ d)
    (hr : packed13Get mem i + d.toNat < 2 ^ 13) :
    packed13SetIncr mem i d = packed13Set mem i (packed13Get mem i + d.toNat) := by
  unfold packed13SetIncr packed13Set
  unfold packed13Get at hr ⊢
  simp only [e32, emask, rdw_nil, mask_shift_mod] at hr ⊢
  by_cases c : 13 ≤ (32 + 2 ^ 64 - i * 13 % 2 ^ 64 % 32 % 2 ^ 32) % 2 ^ 64 % 2 ^ 32
  · simp only [if_pos c] at hr ⊢
    rw [incr_val _ d hd hr]
  · simp only [if_neg c] at hr ⊢
    rw [incr_val _ d hd hr]

/-- `varintPacked13SetHalf(dst, i)`: nothing stored when the element is 0, otherwise `Set(dst, i, Get(dst, i) / 2)` -/
theorem packed13SetHalf_as_set (mem : Nat → Nat) (i : Nat) :
    packed13SetHalf mem i = if packed13Get mem i = 0 then [] else packed13Set mem i (packed13Get mem i / 2) := by
  unfold packed13SetHalf packed13Set packed13Get
  simp only [e32, emask, rdw_nil, mask_shift_mod]
  by_cases c : 13 ≤ (32 + 2 ^ 64 - i * 13 % 2 ^ 64 % 32 % 2 ^ 32) % 2 ^ 64 % 2 ^ 32
  · simp only [if_pos c]
    rw [half_val _ (Nat.mod_lt _ (by omega))]
    simp only [ne_eq, Decidable.not_not]
  · simp only [if_neg c]
    rw [half_val _ (Nat.mod_lt _ (by omega))]
    simp only [ne_eq, Decidable.not_not]

/-- **`varintPacked13SetIncr`** on the slot array = the model's `setIncr` (non-negative increment, result in range) -/
theorem packed13SetIncr_eq (ws : List Nat) (hws : WordsOK 32 ws) (i d : Nat) (hi : i < 2 ^ 32)
    (hr : Packed.get 32 13 ws i + d < 2 ^ 13) :
    applyStores ws (packed13SetIncr (memOf ws) i (d : Int)) = Packed.setIncr 32 13 ws i d := by
  have hg := packed13Get_eq ws hws i hi
  rw [packed13SetIncr_as_set (memOf ws) i (d : Int) (by omega) (by rw [hg]; simpa using hr), hg]
  simp only [Int.toNat_natCast]
  exact packed13Set_eq ws hws i _ hi hr

/-- **`varintPacked13SetHalf`** on the slot array = the model's `setHalf` -/
theorem packed13SetHalf_eq (ws : List Nat) (hws : WordsOK 32 ws) (i : Nat) (hi : i < 2 ^ 32) :
    applyStores ws (packed13SetHalf (memOf ws) i) = Packed.setHalf 32 13 ws i := by
  have hg := packed13Get_eq ws hws i hi
  have hlt : Packed.get 32 13 ws i < 2 ^ 13 := get_lt 32 13 i ws (by omega) (by omega) hws (span13 i)
  rw [packed13SetHalf_as_set, hg]
  unfold Packed.setHalf
  by_cases c : Packed.get 32 13 ws i = 0
  · rw [if_pos c, if_pos c]; rfl
  · rw [if_neg c, if_neg c]
    exact packed13Set_eq ws hws i _ hi (by omega)

end Varint.Bridge.Packed13
